(** C06: how each part of the invariant behaves under the primitive changes of the node table, the edge
    list, the maps and the package table. Interface lemmas only: the per-operation proofs in
    [GraphSteps.v]/[GraphRemove.v] never look inside the records. *)
From Coq Require Import List Arith Bool NArith Lia Permutation.
From WacV Require Import Graph GraphInv.
Import ListNotations.

(** * kind classes *)
Lemma kclass_sym k k' : kclass k k' -> kclass k' k.
Proof. destruct k, k'; cbn; auto. Qed.
Lemma kclass_import k k' nm : kclass k k' -> (k = NImport nm <-> k' = NImport nm).
Proof. destruct k, k'; cbn; intros H; split; intros E; try discriminate; congruence. Qed.
Lemma kclass_def k k' : kclass k k' -> (k = NDef <-> k' = NDef).
Proof. destruct k, k'; cbn; intros H; split; intros E; try discriminate; congruence. Qed.
Lemma kclass_inst k k' sat : kclass k k' -> k = NInst sat -> exists sat', k' = NInst sat'.
Proof. destruct k, k'; cbn; intros H E; try discriminate; eauto. Qed.

(** pointwise update of a node table *)
Definition upd (ns ns' : list (option node)) (n : nat) (x : option node) : Prop :=
  forall m, getn ns' m = if m =? n then x else getn ns m.
Definition fresh (ns ns' : list (option node)) (idx : nat) (nd : node) : Prop :=
  getn ns idx = None /\ upd ns ns' idx (Some nd).

Lemma upd_same ns ns' n x : upd ns ns' n x -> getn ns' n = x.
Proof. intros U. rewrite U. now rewrite Nat.eqb_refl. Qed.
Lemma upd_other ns ns' n x m : upd ns ns' n x -> m <> n -> getn ns' m = getn ns m.
Proof. intros U H. rewrite U. apply Nat.eqb_neq in H. now rewrite H. Qed.

Lemma upd_set_live ns n nd x : getn ns n = Some nd -> upd ns (set_nth ns n x) n x.
Proof. intros H m. eapply getn_set_live; eauto. Qed.

Lemma liveb_upd_some ns ns' n nd m : upd ns ns' n (Some nd) -> liveb ns m = true -> liveb ns' m = true.
Proof.
  intros U H. unfold liveb. rewrite U. destruct (m =? n); auto.
Qed.

(** a live node replaced by a related node *)
Lemma upd_nrel (P : node -> node -> Prop) ns ns' n nd nd' :
  (forall x, P x x) -> getn ns n = Some nd -> upd ns ns' n (Some nd') -> P nd nd' -> nrel P ns ns'.
Proof.
  intros R H U HP m. cbn. rewrite U. destruct (Nat.eqb_spec m n) as [->|Hne].
  - rewrite H. exact HP.
  - destruct (getn ns m); cbn; auto.
Qed.

(** * free list *)
Lemma FreeOK_ext ns ns' fr :
  length ns' = length ns -> (forall m, getn ns m = None -> getn ns' m = None) -> FreeOK ns fr -> FreeOK ns' fr.
Proof.
  intros L H [D N]. constructor; auto. intros i Hi. destruct (D i Hi). split; [lia|auto].
Qed.

Lemma FreeOK_set_live ns fr n nd x : getn ns n = Some nd -> FreeOK ns fr -> FreeOK (set_nth ns n (Some x)) fr.
Proof.
  intros H F. apply FreeOK_ext with (ns := ns); auto using length_set_nth.
  intros m Hm. erewrite getn_set_live by eauto. destruct (Nat.eqb_spec m n); [congruence|auto].
Qed.

Lemma FreeOK_drop ns fr n nd : getn ns n = Some nd -> FreeOK ns fr -> FreeOK (set_nth ns n None) (n :: fr).
Proof.
  intros H [D N]. constructor.
  - intros i [<-|Hi].
    + rewrite length_set_nth. split; [eapply getn_lt; eauto|]. rewrite getn_set_none. now rewrite Nat.eqb_refl.
    + destruct (D i Hi). rewrite length_set_nth. split; auto. rewrite getn_set_none. destruct (i =? n); auto.
  - constructor; auto. intros Hi. destruct (D n Hi). congruence.
Qed.

(** * add_node *)
Lemma add_node_spec s nd s1 idx :
  FreeOK (nodes s) (free_nodes s) -> add_node s nd = (s1, idx) ->
  fresh (nodes s) (nodes s1) idx nd /\ FreeOK (nodes s1) (free_nodes s1) /\
  edges s1 = edges s /\ imports s1 = imports s /\ exports s1 = exports s /\ defined s1 = defined s /\
  pkgs s1 = pkgs s /\ free_pkgs s1 = free_pkgs s.
Proof.
  intros [D N] H. unfold add_node in H. destruct (free_nodes s) as [|j fr] eqn:F.
  - injection H as <- <-. cbn. split; [split|split; [constructor|repeat split; auto]].
    + apply getn_ge. lia.
    + intros m. apply getn_app_one.
    + intros i [].
    + constructor.
  - injection H as <- <-. cbn. destruct (D j (or_introl eq_refl)) as [L G].
    split; [split|split; [constructor|repeat split; auto]]; auto.
    + intros m. rewrite getn_set_nth. apply Nat.ltb_lt in L. now rewrite L.
    + intros i Hi. inversion N; subst. destruct (D i (or_intror Hi)) as [Li Gi].
      rewrite length_set_nth. split; auto. rewrite getn_set_nth.
      destruct (Nat.eqb_spec i j); [subst; contradiction|auto].
    + now inversion N.
Qed.

(** * exports *)
Lemma NoDup_keys_inj {A B} (l : list (A * B)) k v v' :
  NoDup (map fst l) -> In (k, v) l -> In (k, v') l -> v = v'.
Proof.
  induction l as [|[k0 v0] l IH]; cbn; [tauto|]. intros ND [E|H] [E'|H'];
    inversion ND as [|? ? Hn ND']; subst.
  - congruence.
  - injection E as -> ->. exfalso. apply Hn. apply (in_map fst) in H'. exact H'.
  - injection E' as -> ->. exfalso. apply Hn. apply (in_map fst) in H. exact H.
  - auto.
Qed.

Lemma ExOK_drop d ns ns' ex ex' :
  dropped d (fun a b => nexport a = nexport b) ns ns' -> ExOK ns ex ->
  (forall x, In x ex' <-> In x ex /\ d (snd x) = false) -> NoDup (map fst ex') -> ExOK ns' ex'.
Proof.
  intros D [L K Nd] M ND. constructor; auto.
  - intros nm n H. apply M in H as [H E]. cbn in E. apply L in H. apply liveb_true in H as [nd H].
    destruct (dropped_keep _ _ _ _ _ _ D H E) as [nd' [H' _]]. apply liveb_true; eauto.
  - intros n nd' nm H E. destruct (dropped_some _ _ _ _ _ _ D H) as [Hd [nd [G P]]].
    apply M. split; auto. apply (Nd n nd); congruence.
Qed.

Lemma ExOK_ext ns ns' ex : nrel (fun a b => nexport a = nexport b) ns ns' -> ExOK ns ex -> ExOK ns' ex.
Proof. intros D X. eapply ExOK_drop; eauto; [|apply X]. intros x; tauto. Qed.

Lemma ExOK_fresh_none ns ns' idx nd ex : fresh ns ns' idx nd -> nexport nd = None -> ExOK ns ex -> ExOK ns' ex.
Proof.
  intros [G U] E [L K Nd]. constructor; auto.
  - intros nm n H. eapply liveb_upd_some; eauto.
  - intros n nd' nm H E'. rewrite U in H. destruct (n =? idx); [congruence|eauto].
Qed.

Lemma ExOK_fresh_some ns ns' idx nd ex nm :
  fresh ns ns' idx nd -> nexport nd = Some nm -> ~ In nm (map fst ex) -> ExOK ns ex -> ExOK ns' (ex ++ [(nm, idx)]).
Proof.
  intros [G U] E Hn [L K Nd]. constructor.
  - intros nm' n H. apply in_app_or in H as [H|[[= <- <-]|[]]].
    + eapply liveb_upd_some; eauto.
    + apply liveb_true. exists nd. now apply upd_same in U.
  - rewrite map_app. cbn. apply NoDup_app_single; auto.
  - intros n nd' nm' H E'. rewrite U in H. apply in_or_app. destruct (Nat.eqb_spec n idx) as [->|Hne].
    + right. left. congruence.
    + left. eauto.
Qed.

(** changing the export field of one live node *)
Lemma ExOK_export ns ns' n nd nd' e ex :
  getn ns n = Some nd -> upd ns ns' n (Some nd') -> nexport nd' = Some e -> ~ In e (map fst ex) ->
  ExOK ns ex -> ExOK ns' (ex ++ [(e, n)]).
Proof.
  intros G U E Hn [L K Nd]. constructor.
  - intros nm m H. apply in_app_or in H as [H|[[= <- <-]|[]]].
    + eapply liveb_upd_some; eauto.
    + apply liveb_true. exists nd'. now apply upd_same in U.
  - rewrite map_app. cbn. apply NoDup_app_single; auto.
  - intros m nd2 nm H E'. rewrite U in H. apply in_or_app. destruct (Nat.eqb_spec m n) as [->|Hne].
    + right. left. congruence.
    + left. eauto.
Qed.

(** ... after entries of that node have left the map (a renamed definition) *)
Lemma ExOK_export_sub ns ns' n nd nd' e ex ex0 :
  getn ns n = Some nd -> upd ns ns' n (Some nd') -> nexport nd' = Some e -> ~ In e (map fst ex0) ->
  (forall x, In x ex0 -> In x ex) -> (forall x, In x ex -> snd x <> n -> In x ex0) -> NoDup (map fst ex0) ->
  ExOK ns ex -> ExOK ns' (ex0 ++ [(e, n)]).
Proof.
  intros G U E Hn Sub Keep ND [L K Nd]. constructor.
  - intros nm m H. apply in_app_or in H as [H|[[= <- <-]|[]]].
    + eapply liveb_upd_some; eauto.
    + apply liveb_true. exists nd'. now apply upd_same in U.
  - rewrite map_app. cbn. apply NoDup_app_single; auto.
  - intros m nd2 nm H E'. rewrite U in H. apply in_or_app. destruct (Nat.eqb_spec m n) as [->|Hne].
    + right. left. congruence.
    + left. apply Keep; eauto.
Qed.

(** the export map after the rename step of [export] *)
Lemma exports_renamed_spec ns ex n nd :
  ExOK ns ex -> getn ns n = Some nd ->
  let ex0 := match nk nd, nexport nd with NDef, Some previous => shift_remove ex previous | _, _ => ex end in
  (forall x, In x ex0 -> In x ex) /\ (forall x, In x ex -> snd x <> n -> In x ex0) /\ NoDup (map fst ex0).
Proof.
  intros [L K Nd] G ex0. subst ex0. destruct (nk nd); [|repeat split; auto ..].
  destruct (nexport nd) as [previous|] eqn:E; [|repeat split; auto]. repeat split.
  - intros x. apply shift_remove_In.
  - intros [k v] Hin Hne. apply shift_remove_In_iff; auto. split; auto. cbn in *. intros ->. apply Hne.
    eapply NoDup_keys_inj; eauto.
  - now apply shift_remove_NoDup.
Qed.

Lemma ExOK_unexport ns ns' n nd nd' ex ex' :
  getn ns n = Some nd -> upd ns ns' n (Some nd') -> nexport nd' = None ->
  (forall x, In x ex' <-> In x ex /\ snd x <> n) -> NoDup (map fst ex') ->
  ExOK ns ex -> ExOK ns' ex'.
Proof.
  intros G U E M ND [L K Nd]. constructor; auto.
  - intros nm m H. apply M in H as [H _]. eapply liveb_upd_some; eauto.
  - intros m nd2 nm H E'. rewrite U in H. destruct (Nat.eqb_spec m n) as [->|Hne]; [congruence|].
    apply M. split; eauto.
Qed.

(** the entries that survive [swap_remove] of the node's own name followed by the purge of the node *)
Lemma exports_after_remove ns ex n nd ex1 :
  ExOK ns ex -> getn ns n = Some nd ->
  match nexport nd with Some nm => swap_remove ex nm = Some ex1 | None => ex1 = ex end ->
  let ex' := filter (fun p : name * nat => negb (snd p =? n)) ex1 in
  (forall x, In x ex' <-> In x ex /\ snd x <> n) /\ NoDup (map fst ex').
Proof.
  intros [L K Nd] G H ex'. subst ex'. split.
  - intros x. rewrite filter_In, negb_true_iff, Nat.eqb_neq.
    destruct (nexport nd) as [nm|] eqn:E; [|subst; tauto].
    split; intros [H1 H2]; split; auto.
    + eapply swap_remove_In; eauto.
    + eapply swap_remove_keep; eauto. intros <-. apply H2. destruct x as [k v]. cbn in *.
      eapply NoDup_keys_inj; eauto.
  - apply NoDup_map_filter. destruct (nexport nd) as [nm|]; [|subst; auto].
    eapply swap_remove_NoDup; eauto.
Qed.

(** * imports *)
Lemma ImOK_drop d ns ns' im im' :
  dropped d (fun a b => kclass (nk a) (nk b)) ns ns' -> ImOK ns im ->
  (forall x, In x im' <-> In x im /\ d (snd x) = false) -> NoDup (map fst im') -> ImOK ns' im'.
Proof.
  intros D [I K] M ND. constructor; auto. intros nm n. rewrite M, I. cbn. split.
  - intros [[nd [G E]] Hd]. destruct (dropped_keep _ _ _ _ _ _ D G Hd) as [nd' [G' C]].
    exists nd'. split; auto. now apply (kclass_import _ _ nm) in C as [C _]; auto.
  - intros [nd' [G' E']]. destruct (dropped_some _ _ _ _ _ _ D G') as [Hd [nd [G C]]]. split; auto.
    exists nd. split; auto. now apply (kclass_import _ _ nm) in C as [_ C]; auto.
Qed.

Lemma ImOK_ext ns ns' im : nrel (fun a b => kclass (nk a) (nk b)) ns ns' -> ImOK ns im -> ImOK ns' im.
Proof. intros D X. eapply ImOK_drop; eauto; [|apply X]. intros x; tauto. Qed.

Lemma ImOK_fresh_other ns ns' idx nd im :
  fresh ns ns' idx nd -> (forall nm, nk nd <> NImport nm) -> ImOK ns im -> ImOK ns' im.
Proof.
  intros [G U] E [I K]. constructor; auto. intros nm n. rewrite I. split; intros [x [H1 H2]].
  - exists x. split; auto. rewrite U. destruct (Nat.eqb_spec n idx); [congruence|auto].
  - rewrite U in H1. destruct (n =? idx); [injection H1 as <-; now apply E in H2|eauto].
Qed.

Lemma ImOK_fresh_import ns ns' idx nd im nm :
  fresh ns ns' idx nd -> nk nd = NImport nm -> ~ In nm (map fst im) -> ImOK ns im -> ImOK ns' ((nm, idx) :: im).
Proof.
  intros [G U] E Hn [I K]. constructor; [|cbn; constructor; auto]. intros nm' n. cbn. rewrite I. split.
  - intros [[= <- <-]|[x [H1 H2]]].
    + exists nd. split; auto. now apply upd_same in U.
    + exists x. split; auto. rewrite U. destruct (Nat.eqb_spec n idx); [congruence|auto].
  - intros [x [H1 H2]]. rewrite U in H1. destruct (Nat.eqb_spec n idx) as [->|Hne].
    + left. injection H1 as <-. congruence.
    + right. eauto.
Qed.

(** the import entries that survive the removal of node [n] *)
Lemma imports_after_remove ns im n nd :
  ImOK ns im -> getn ns n = Some nd ->
  let im' := match nk nd with NImport nm => filter (fun p : name * nat => negb (N.eqb (fst p) nm)) im | _ => im end in
  (forall x, In x im' <-> In x im /\ snd x <> n) /\ NoDup (map fst im').
Proof.
  intros [I K] G im'. subst im'.
  assert (Hother : (forall nm, nk nd <> NImport nm) -> forall x, In x im <-> In x im /\ snd x <> n).
  { intros Hk [k v]. split; [|tauto]. intros H. split; auto. cbn. intros ->.
    apply I in H as [x [H1 H2]]. rewrite G in H1. injection H1 as <-. now apply Hk in H2. }
  destruct (nk nd) as [|nm|sat|] eqn:E; try (split; [apply Hother; intros; discriminate|auto]).
  split; [|now apply NoDup_map_filter].
  intros [k v]. rewrite filter_In, negb_true_iff. cbn. rewrite N.eqb_neq. split; intros [H1 H2]; split; auto.
  - intros ->. apply I in H1 as [x [H1 H3]]. rewrite G in H1. injection H1 as <-. congruence.
  - intros ->. apply H2. eapply NoDup_keys_inj; eauto. apply I. eauto.
Qed.

(** * definitions *)
Lemma DfOK_drop d ns ns' df df' :
  dropped d (fun a b => kclass (nk a) (nk b)) ns ns' -> DfOK ns df ->
  (forall x, In x df' <-> In x df /\ d (snd x) = false) -> DfOK ns' df'.
Proof.
  intros D [A B] M. constructor.
  - intros t n H. apply M in H as [H Hd]. cbn in Hd. apply A in H as [nd [G E]].
    destruct (dropped_keep _ _ _ _ _ _ D G Hd) as [nd' [G' C]]. exists nd'. split; auto.
    now apply kclass_def in C as [C _]; auto.
  - intros n nd' G' E'. destruct (dropped_some _ _ _ _ _ _ D G') as [Hd [nd [G C]]].
    apply kclass_def in C as [_ C]. destruct (B n nd G (C E')) as [t H]. exists t. apply M. auto.
Qed.

Lemma DfOK_ext ns ns' df : nrel (fun a b => kclass (nk a) (nk b)) ns ns' -> DfOK ns df -> DfOK ns' df.
Proof. intros D X. eapply DfOK_drop; eauto. intros x; tauto. Qed.

Lemma DfOK_fresh_other ns ns' idx nd df : fresh ns ns' idx nd -> nk nd <> NDef -> DfOK ns df -> DfOK ns' df.
Proof.
  intros [G U] E [A B]. constructor.
  - intros t n H. apply A in H as [x [H1 H2]]. exists x. split; auto. rewrite U.
    destruct (Nat.eqb_spec n idx); [congruence|auto].
  - intros n nd' H1 H2. rewrite U in H1. destruct (n =? idx); [congruence|eauto].
Qed.

Lemma DfOK_fresh_def ns ns' idx nd df t :
  fresh ns ns' idx nd -> nk nd = NDef -> DfOK ns df -> DfOK ns' ((t, idx) :: df).
Proof.
  intros [G U] E [A B]. constructor.
  - intros t' n [[= <- <-]|H].
    + exists nd. split; auto. now apply upd_same in U.
    + apply A in H as [x [H1 H2]]. exists x. split; auto. rewrite U.
      destruct (Nat.eqb_spec n idx); [congruence|auto].
  - intros n nd' H1 H2. rewrite U in H1. destruct (Nat.eqb_spec n idx) as [->|Hne].
    + exists t. now left.
    + destruct (B n nd' H1 H2) as [t' H]. exists t'. now right.
Qed.

(** * packages *)
Lemma PkgOK_drop u d ns ns' pk fp :
  dropped d (fun a b => npkg a = npkg b /\ kclass (nk a) (nk b)) ns ns' -> PkgOK u ns pk fp -> PkgOK u ns' pk fp.
Proof.
  intros D [A B C E]. constructor; auto.
  - intros n nd' id G' H. destruct (dropped_some _ _ _ _ _ _ D G') as [_ [nd [G [P1 P2]]]].
    apply (A n nd); congruence.
  - intros n nd' sat G' H. destruct (dropped_some _ _ _ _ _ _ D G') as [_ [nd [G [P1 P2]]]].
    apply kclass_sym in P2. destruct (kclass_inst _ _ _ P2 H) as [sat0 H0].
    destruct (B n nd sat0 G H0) as [id [pd [X Y]]]. exists id, pd. split; congruence.
Qed.

Lemma PkgOK_fresh u ns ns' idx nd pk fp :
  fresh ns ns' idx nd ->
  (forall id, npkg nd = Some id -> exists p, get_pkg_l pk id = Some p) ->
  (forall sat, nk nd = NInst sat -> exists id pd, npkg nd = Some id /\ pkg_desc_l u pk id = Some pd) ->
  PkgOK u ns pk fp -> PkgOK u ns' pk fp.
Proof.
  intros [G U] H1 H2 [A B C E]. constructor; auto.
  - intros n nd' id G' H. rewrite U in G'. destruct (n =? idx); [injection G' as <-; auto|eauto].
  - intros n nd' sat G' H. rewrite U in G'. destruct (n =? idx); [injection G' as <-; eauto|eauto].
Qed.

(** the package table may change as long as the identifiers in use keep their meaning *)
Lemma PkgOK_pkgs u ns pk fp pk' fp' :
  PkgOK u ns pk fp ->
  (forall n nd id, getn ns n = Some nd -> npkg nd = Some id -> get_pkg_l pk' id = get_pkg_l pk id) ->
  (forall i, In i fp' -> exists sl, nth_error pk' i = Some sl /\ ps_pkg sl = None) -> NoDup fp' ->
  PkgOK u ns pk' fp'.
Proof.
  intros [A B C E] H F N. constructor; auto.
  - intros n nd id G X. rewrite (H n nd id G X). eauto.
  - intros n nd sat G X. destruct (B n nd sat G X) as [id [pd [Y Z]]]. exists id, pd. split; auto.
    unfold pkg_desc_l in *. now rewrite (H n nd id G Y).
Qed.

(** * edges *)
Lemma EdgeOK_ext ns ns' es : nrel (fun a b => nk a = nk b) ns ns' -> EdgeOK ns es -> EdgeOK ns' es.
Proof.
  intros D [A B C S].
  assert (Lv : forall m, liveb ns m = true -> liveb ns' m = true).
  { intros m H. apply liveb_true in H as [nd H]. destruct (dropped_keep _ _ _ _ _ _ D H eq_refl) as [nd' [H' _]].
    apply liveb_true; eauto. }
  constructor.
  - intros e H. destruct (A e H). auto.
  - intros e i H E. destruct (B e i H E) as [nd [sat [G K]]].
    destruct (dropped_keep _ _ _ _ _ _ D G eq_refl) as [nd' [G' P]]. exists nd', sat. split; congruence.
  - intros e nd' sat H G' K. destruct (dropped_some _ _ _ _ _ _ D G') as [_ [nd [G P]]].
    apply (C e nd sat); congruence.
  - intros n nd' sat G' K. destruct (dropped_some _ _ _ _ _ _ D G') as [_ [nd [G P]]].
    apply (S n nd sat); congruence.
Qed.

Lemma count_arg_dead ns es n i : EdgeOK ns es -> getn ns n = None -> count_arg_l es n i = 0.
Proof.
  intros [A _ _ _] G. apply filter_length_zero. intros e H. destruct (A e H) as [_ L].
  destruct (is_arg n i e) eqn:E; auto. apply is_arg_true in E as [<- _].
  apply liveb_true in L as [? L]. congruence.
Qed.

Lemma EdgeOK_fresh ns ns' idx nd es :
  fresh ns ns' idx nd -> (forall sat, nk nd = NInst sat -> sat = []) -> EdgeOK ns es -> EdgeOK ns' es.
Proof.
  intros [G U] Hs O. pose proof O as [A B C S].
  assert (Hne : forall e, In e es -> etgt e <> idx).
  { intros e H <-. destruct (A e H) as [_ L]. apply liveb_true in L as [? L]. congruence. }
  constructor.
  - intros e H. destruct (A e H). split; eapply liveb_upd_some; eauto.
  - intros e i H E. destruct (B e i H E) as [x [sat [H1 H2]]]. exists x, sat. split; auto.
    rewrite (upd_other _ _ _ _ _ U); auto.
  - intros e x sat H H1 H2. rewrite (upd_other _ _ _ _ _ U) in H1; eauto.
  - intros n x sat H1 H2. rewrite U in H1. destruct (Nat.eqb_spec n idx) as [->|Hn]; [|eauto].
    injection H1 as <-. apply Hs in H2 as ->. split; [constructor|]. intros i. cbn.
    eapply count_arg_dead; eauto.
Qed.

(** an alias or dependency edge between live nodes, the target not being an instantiation *)
Lemma EdgeOK_add_plain ns es e :
  EdgeOK ns es -> liveb ns (esrc e) = true -> liveb ns (etgt e) = true ->
  (forall i, ek e <> EArg i) -> (forall nd sat, getn ns (etgt e) = Some nd -> nk nd <> NInst sat) ->
  EdgeOK ns (e :: es).
Proof.
  intros [A B C S] L1 L2 K T. constructor.
  - intros x [<-|H]; auto.
  - intros x i [<-|H] E; [now apply K in E|eauto].
  - intros x nd sat [<-|H] G E; [now apply T in E|eauto].
  - intros n nd sat G E. destruct (S n nd sat G E) as [N Cn]. split; auto. intros i. rewrite <- Cn.
    unfold count_arg_l. cbn. destruct (is_arg n i e) eqn:X; auto.
    apply is_arg_true in X as [_ X]. now apply K in X.
Qed.

(** a new argument edge together with its satisfied index *)
Lemma EdgeOK_set_arg ns ns' es inst nd sat arg index :
  EdgeOK ns es -> getn ns inst = Some nd -> nk nd = NInst sat -> liveb ns arg = true ->
  count_arg_l es inst index = 0 ->
  upd ns ns' inst (Some {| nk := NInst (index :: sat); npkg := npkg nd; nitem := nitem nd; nname := nname nd;
                           nexport := nexport nd |}) ->
  EdgeOK ns' ({| esrc := arg; etgt := inst; ek := EArg index |} :: es).
Proof.
  intros [A B C S] G K La Z U.
  assert (Lv : forall m, liveb ns m = true -> liveb ns' m = true) by (intros m; eapply liveb_upd_some; eauto).
  destruct (S inst nd sat G K) as [ND Cn].
  assert (Hnot : ~ In index sat).
  { specialize (Cn index). rewrite Z in Cn. apply existsb_eqb_notIn. destruct (existsb _ sat); [discriminate|auto]. }
  constructor.
  - intros e [<-|H]; cbn.
    + split; apply Lv; auto. apply liveb_true; eauto.
    + destruct (A e H); auto.
  - intros e i [<-|H] E; cbn.
    + rewrite (upd_same _ _ _ _ U). eexists _, _. split; [reflexivity|]. reflexivity.
    + destruct (B e i H E) as [x [st [H1 H2]]]. rewrite U. destruct (Nat.eqb_spec (etgt e) inst) as [Eq|Hne].
      * eexists _, _. split; reflexivity.
      * eauto.
  - intros e x st [<-|H] H1 H2; cbn; eauto. rewrite U in H1.
    destruct (Nat.eqb_spec (etgt e) inst) as [Eq|Hne]; [|eauto]. apply (C e nd sat); auto; congruence.
  - intros n x st H1 H2. rewrite U in H1. unfold count_arg_l. cbn [filter].
    destruct (Nat.eqb_spec n inst) as [->|Hne].
    + injection H1 as <-. cbn in H2. injection H2 as <-. split; [constructor; auto|].
      intros i. unfold is_arg at 1. cbn [etgt ek]. rewrite Nat.eqb_refl. cbn [andb existsb].
      specialize (Cn i). unfold count_arg_l in Cn.
      destruct (Nat.eqb_spec index i) as [->|Hi].
      * rewrite Nat.eqb_refl. cbn. rewrite Cn. apply existsb_eqb_notIn in Hnot. now rewrite Hnot.
      * replace (i =? index) with false by (symmetry; apply Nat.eqb_neq; congruence). cbn. exact Cn.
    + destruct (S n x st H1 H2) as [N Cx]. split; auto. intros i. rewrite <- Cx.
      unfold is_arg at 1. cbn [etgt ek]. replace (inst =? n) with false by (symmetry; apply Nat.eqb_neq; congruence).
      reflexivity.
Qed.

(** [remove_first] *)
Lemma remove_first_In f es e : In e (remove_first f es) -> In e es.
Proof. induction es as [|x es IH]; cbn; auto. destruct (f x); cbn; intuition. Qed.

Lemma remove_first_same (f g : edge -> bool) es :
  (forall e, f e = true -> g e = false) -> filter g (remove_first f es) = filter g es.
Proof.
  intros H. induction es as [|x es IH]; cbn; auto. destruct (f x) eqn:E.
  - now rewrite (H x E).
  - cbn. now rewrite IH.
Qed.

Lemma remove_first_less (f g : edge -> bool) es e0 :
  (forall e, f e = true -> g e = true) -> In e0 es -> f e0 = true ->
  S (length (filter g (remove_first f es))) = length (filter g es).
Proof.
  intros H. induction es as [|x es IH]; cbn; [tauto|]. intros Hin F0. destruct (f x) eqn:E.
  - now rewrite (H x E).
  - destruct Hin as [->|Hin]; [congruence|]. cbn. destruct (g x); cbn; rewrite IH; auto.
Qed.

Lemma EdgeOK_unset_arg ns ns' es inst nd sat arg index e0 :
  let isit := fun e => (esrc e =? arg) && (etgt e =? inst) && match ek e with EArg i => i =? index | _ => false end in
  EdgeOK ns es -> getn ns inst = Some nd -> nk nd = NInst sat -> In e0 es -> isit e0 = true ->
  upd ns ns' inst (Some {| nk := NInst (filter (fun j => negb (j =? index)) sat); npkg := npkg nd; nitem := nitem nd;
                           nname := nname nd; nexport := nexport nd |}) ->
  EdgeOK ns' (remove_first isit es).
Proof.
  intros isit [A B C S] G K Hin Hit U.
  assert (Lv : forall m, liveb ns m = true -> liveb ns' m = true) by (intros m; eapply liveb_upd_some; eauto).
  assert (Hisit : forall e, isit e = true -> is_arg inst index e = true).
  { intros e H. unfold isit in H. apply andb_true_iff in H as [H1 H2]. apply andb_true_iff in H1 as [_ H1].
    unfold is_arg. now rewrite H1, H2. }
  constructor.
  - intros e H. apply remove_first_In in H. destruct (A e H); auto.
  - intros e i H E. apply remove_first_In in H. destruct (B e i H E) as [x [st [H1 H2]]]. rewrite U.
    destruct (Nat.eqb_spec (etgt e) inst) as [Eq|Hne]; [eexists _, _; split; reflexivity|eauto].
  - intros e x st H H1 H2. apply remove_first_In in H. rewrite U in H1.
    destruct (Nat.eqb_spec (etgt e) inst) as [Eq|Hne]; [|eauto]. apply (C e nd sat); auto; congruence.
  - intros n x st H1 H2. rewrite U in H1. unfold count_arg_l. destruct (Nat.eqb_spec n inst) as [->|Hne].
    + injection H1 as <-. cbn in H2. injection H2 as <-. destruct (S inst nd sat G K) as [ND Cn].
      split; [now apply NoDup_filter'|]. intros i. destruct (Nat.eqb_spec i index) as [->|Hi].
      * assert (X := remove_first_less isit (is_arg inst index) es e0 Hisit Hin Hit).
        fold (count_arg_l es inst index) in X. rewrite Cn in X.
        replace (existsb (Nat.eqb index) (filter (fun j => negb (j =? index)) sat)) with false.
        2:{ symmetry. apply existsb_eqb_notIn. rewrite filter_In, negb_true_iff, Nat.eqb_neq. tauto. }
        destruct (existsb (Nat.eqb index) sat); lia.
      * rewrite remove_first_same.
        2:{ intros e H. apply Hisit in H. apply is_arg_true in H as [H3 H4].
            destruct (is_arg inst i e) eqn:X; auto. apply is_arg_true in X as [_ X]. congruence. }
        fold (count_arg_l es inst i). rewrite Cn.
        destruct (existsb (Nat.eqb i) sat) eqn:X.
        -- apply existsb_eqb_In in X. replace (existsb _ (filter _ sat)) with true; auto.
           symmetry. apply existsb_eqb_In. rewrite filter_In, negb_true_iff, Nat.eqb_neq. auto.
        -- apply existsb_eqb_notIn in X. replace (existsb _ (filter _ sat)) with false; auto.
           symmetry. apply existsb_eqb_notIn. rewrite filter_In. tauto.
    + destruct (S n x st H1 H2) as [N Cx]. split; auto. intros i. rewrite <- Cx. unfold count_arg_l.
      rewrite remove_first_same; auto.
      intros e H. apply Hisit in H. apply is_arg_true in H as [H3 H4].
      destruct (is_arg n i e) eqn:X; auto. apply is_arg_true in X as [X _]. congruence.
Qed.

(** removing a set [d] of nodes together with their edges, the satisfied indexes of the arguments they
    supplied to surviving instantiations being cleared *)
Lemma EdgeOK_purge d ns ns' es :
  EdgeOK ns es ->
  dropped d (fun a b => kclass (nk a) (nk b)) ns ns' ->
  (forall m nd nd' sat sat', getn ns m = Some nd -> getn ns' m = Some nd' -> nk nd = NInst sat -> nk nd' = NInst sat' ->
     exists f, sat' = filter f sat /\
       forall i, f i = false <-> exists e, In e es /\ d (esrc e) = true /\ is_arg m i e = true) ->
  EdgeOK ns' (filter (fun e => negb (d (esrc e)) && negb (d (etgt e))) es).
Proof.
  intros [A B C S] D H.
  constructor.
  - intros e He. apply filter_In in He as [He Hd]. apply andb_true_iff in Hd as [D1 D2].
    apply negb_true_iff in D1, D2. destruct (A e He) as [L1 L2].
    apply liveb_true in L1 as [x1 L1], L2 as [x2 L2].
    destruct (dropped_keep _ _ _ _ _ _ D L1 D1) as [y1 [Y1 _]].
    destruct (dropped_keep _ _ _ _ _ _ D L2 D2) as [y2 [Y2 _]]. split; apply liveb_true; eauto.
  - intros e i He E. apply filter_In in He as [He Hd]. apply andb_true_iff in Hd as [D1 D2].
    apply negb_true_iff in D2. destruct (B e i He E) as [x [st [G K]]].
    destruct (dropped_keep _ _ _ _ _ _ D G D2) as [y [Y P]]. destruct (kclass_inst _ _ _ P K) as [st' K'].
    eauto.
  - intros e y st' He Y K'. apply filter_In in He as [He _].
    destruct (dropped_some _ _ _ _ _ _ D Y) as [_ [x [G P]]]. apply kclass_sym in P.
    destruct (kclass_inst _ _ _ P K') as [st K]. eauto.
  - intros n y st' Y K'. destruct (dropped_some _ _ _ _ _ _ D Y) as [Dn [x [G P]]].
    pose proof P as P'. apply kclass_sym in P'. destruct (kclass_inst _ _ _ P' K') as [st K].
    destruct (H n x y st st' G Y K K') as [f [-> Hf]]. destruct (S n x st G K) as [ND Cn].
    split; [now apply NoDup_filter'|]. intros i. unfold count_arg_l. rewrite filter_filter.
    assert (E1 : length (filter (fun e => (negb (d (esrc e)) && negb (d (etgt e))) && is_arg n i e) es)
                 = length (filter (fun e => is_arg n i e && negb (d (esrc e))) es)).
    { f_equal. apply filter_ext_in. intros e _. destruct (is_arg n i e) eqn:X.
      - apply is_arg_true in X as [X _]. rewrite X, Dn. destruct (d (esrc e)); reflexivity.
      - now rewrite andb_false_r. }
    rewrite E1. specialize (Cn i). unfold count_arg_l in Cn.
    rewrite (filter_length_split (is_arg n i) (fun e => d (esrc e))) in Cn.
    destruct (f i) eqn:Fi.
    + assert (Z : length (filter (fun e => is_arg n i e && d (esrc e)) es) = 0).
      { apply filter_length_zero. intros e He. destruct (is_arg n i e && d (esrc e)) eqn:X; auto.
        apply andb_true_iff in X as [X1 X2]. assert (f i = false) by (apply Hf; eauto). congruence. }
      rewrite Z in Cn. cbn in Cn. rewrite Cn.
      destruct (existsb (Nat.eqb i) st) eqn:X.
      * apply existsb_eqb_In in X. replace (existsb _ (filter f st)) with true; auto.
        symmetry. apply existsb_eqb_In. rewrite filter_In. auto.
      * apply existsb_eqb_notIn in X. replace (existsb _ (filter f st)) with false; auto.
        symmetry. apply existsb_eqb_notIn. rewrite filter_In. tauto.
    + replace (existsb (Nat.eqb i) (filter f st)) with false.
      2:{ symmetry. apply existsb_eqb_notIn. rewrite filter_In. intros [_ X]. congruence. }
      apply Hf in Fi as [e [He [X1 X2]]].
      assert (P1 : 1 <= length (filter (fun e => is_arg n i e && d (esrc e)) es)).
      { apply filter_length_pos with (x := e); auto. now rewrite X1, X2. }
      destruct (existsb (Nat.eqb i) st); lia.
Qed.
