(** Lexer classes, part C: tables, the shape of what [scan_token] reads, [lex_token_classes] and
    [lex_no_fuel_item]. *)
From WacV Require Import Str Ord Token Lexer LexTables LexImpl LexSpec LexTablesProofs Semver Ast Parser LexClasses.
From WacV Require Import LexerSound NoPanicLexer LexerClassA LexerClassB.
From Coq Require Import Lia.
Local Open Scope nat_scope.

(* ------------------------------------------------------------------ tables *)

Lemma lc_str_eqb_eq a : forall b, str_eqb a b = true <-> a = b.
Proof.
  induction a as [|x a IH]; intros [|y b]; cbn [str_eqb]; try (split; [discriminate|congruence]); [tauto|].
  rewrite andb_true_iff, N.eqb_eq, IH. split; [intros [-> ->]; reflexivity|intros H; inversion H; auto].
Qed.

Lemma lc_str_eqb_refl a : str_eqb a a = true.
Proof. now apply lc_str_eqb_eq. Qed.

(** The tables of a configuration are the documented ones, as sets of rows. *)
Definition tables_ok (base : lexcfg) : Prop :=
  (forall x, In x (keywords base) <-> In x doc_keywords) /\ (forall x, In x (symbols base) <-> In x doc_symbols).

Lemma insert_row_In kv x l : In x (insert_row kv l) <-> x = kv \/ In x l.
Proof.
  induction l as [|y l IH]; cbn [insert_row In]; [intuition congruence|].
  destruct (str_cmp (fst kv) (fst y)); cbn [In]; try rewrite IH; intuition congruence.
Qed.

Lemma sort_rows_In x l : In x (sort_rows l) <-> In x l.
Proof. induction l as [|y l IH]; cbn [sort_rows fold_right In]; [tauto|]. fold (sort_rows l). rewrite insert_row_In, IH. intuition congruence. Qed.

Lemma tables_ok_doc : tables_ok doc_cfg.
Proof. split; intros x; reflexivity. Qed.

Lemma tables_ok_impl : tables_ok impl_cfg.
Proof.
  split; intros x; cbn [impl_cfg keywords symbols].
  - rewrite <- (sort_rows_In x gen_keywords), keywords_table_eq. apply sort_rows_In.
  - rewrite <- (sort_rows_In x gen_symbols), symbols_table_eq. apply sort_rows_In.
Qed.

Lemma tables_ok_with d base : tables_ok base -> tables_ok (cfg_with d base).
Proof. intros H. exact H. Qed.

Lemma lookup_str_some w tbl k : lookup_str w tbl = Some k -> In (w, k) tbl.
Proof.
  induction tbl as [|[x t] tbl IH]; cbn [lookup_str]; [discriminate|]. destruct (str_eqb x w) eqn:E.
  - intros H; inversion H; subst. apply lc_str_eqb_eq in E. subst. now left.
  - intros H. right. auto.
Qed.

Lemma lookup_str_none w tbl : lookup_str w tbl = None -> forall k, ~ In (w, k) tbl.
Proof.
  induction tbl as [|[x t] tbl IH]; cbn [lookup_str]; [intros _ k []|]. destruct (str_eqb x w) eqn:E; [discriminate|].
  intros H k [Hk|Hk]; [|exact (IH H k Hk)]. inversion Hk; subst. rewrite lc_str_eqb_refl in E. discriminate.
Qed.

(** Rows of the documented keyword table: the text is one lower-case word, looked up it gives the row's
    kind, the kind is a keyword kind whose class is exactly that text. *)
Definition kw_row_ok (d : deviations) (kv : str * token) : bool :=
  lower_word (fst kv) &&
  match lookup_str (fst kv) doc_keywords with Some k => token_eqb k (snd kv) | None => false end &&
  token_class d (snd kv) (fst kv) && rule_class d (snd kv) (fst kv) && negb (is_symbol_kind (snd kv)) &&
  negb (token_eqb (snd kv) TIdent) && negb (token_eqb (snd kv) TString) &&
  negb (token_eqb (snd kv) TPackageName) && negb (token_eqb (snd kv) TPackagePath).

Lemma kw_rows_ok d : forallb (kw_row_ok d) doc_keywords = true.
Proof. vm_compute. reflexivity. Qed.

Definition sym_row_ok (d : deviations) (kv : str * token) : bool :=
  negb (is_nil_str (fst kv)) && negb (starts_with [hd 0%N (fst kv)] [c_quote]) &&
  match fst kv with c :: _ => negb (is_alpha c) && negb (c =? c_percent)%N && negb (c =? c_quote)%N | [] => false end &&
  match text_of_kind (snd kv) doc_symbols with Some x => str_eqb x (fst kv) | None => false end &&
  token_class d (snd kv) (fst kv) && rule_class d (snd kv) (fst kv) && is_symbol_kind (snd kv) &&
  negb (token_eqb (snd kv) TIdent) && negb (token_eqb (snd kv) TString) &&
  negb (token_eqb (snd kv) TPackageName) && negb (token_eqb (snd kv) TPackagePath).

Lemma sym_rows_ok d : forallb (sym_row_ok d) doc_symbols = true.
Proof. vm_compute. reflexivity. Qed.

Lemma token_eqb_eq a b : token_eqb a b = true -> a = b.
Proof. destruct a, b; cbn; intros H; try reflexivity; discriminate H. Qed.

Lemma kw_row d w k : In (w, k) doc_keywords -> kw_row_ok d (w, k) = true.
Proof. intros H. pose proof (kw_rows_ok d) as Hr. rewrite forallb_forall in Hr. exact (Hr _ H). Qed.

Lemma sym_row d w k : In (w, k) doc_symbols -> sym_row_ok d (w, k) = true.
Proof. intros H. pose proof (sym_rows_ok d) as Hr. rewrite forallb_forall in Hr. exact (Hr _ H). Qed.

Lemma doc_kw_lookup w k : In (w, k) doc_keywords -> lookup_str w doc_keywords = Some k.
Proof.
  intros H. pose proof (kw_row doc_flags w k H) as Hr. unfold kw_row_ok in Hr. cbn [fst snd] in Hr.
  do 7 (apply andb_true_iff in Hr; destruct Hr as [Hr _]). apply andb_true_iff in Hr. destruct Hr as [_ Hr].
  destruct (lookup_str w doc_keywords) as [k'|]; [|discriminate]. apply token_eqb_eq in Hr. now subst.
Qed.

Lemma lookup_keywords base w : tables_ok base -> lookup_str w (keywords base) = lookup_str w doc_keywords.
Proof.
  intros [Hk _]. destruct (lookup_str w (keywords base)) as [k|] eqn:E.
  - apply lookup_str_some in E. apply Hk in E. symmetry. now apply doc_kw_lookup.
  - destruct (lookup_str w doc_keywords) as [k|] eqn:E2; [|reflexivity]. apply lookup_str_some in E2. apply Hk in E2.
    exfalso. exact (lookup_str_none _ _ E k E2).
Qed.

Lemma is_kw_prefix_spec w tbl : is_kw_prefix w tbl = existsb (fun kv => starts_with w (fst kv)) tbl.
Proof. induction tbl as [|[x t] tbl IH]; cbn [is_kw_prefix existsb fst]; [reflexivity|]. now rewrite IH. Qed.

Lemma kw_prefix_tables base w : tables_ok base -> is_kw_prefix w (keywords base) = is_keyword_prefix w.
Proof.
  intros [Hk _]. rewrite is_kw_prefix_spec. unfold is_keyword_prefix.
  destruct (existsb (fun kv => starts_with w (fst kv)) doc_keywords) eqn:E.
  - apply existsb_exists in E. destruct E as (x & Hx & Hs). apply existsb_exists. exists x. split; [now apply Hk|exact Hs].
  - destruct (existsb (fun kv => starts_with w (fst kv)) (keywords base)) eqn:E2; [|reflexivity].
    apply existsb_exists in E2. destruct E2 as (x & Hx & Hs). apply Hk in Hx.
    assert (existsb (fun kv => starts_with w (fst kv)) doc_keywords = true) by (apply existsb_exists; eauto). congruence.
Qed.

(* ------------------------------------------------------------------ strings *)

Lemma find_char_spec c : forall s n, find_char c s = Some n ->
  exists body rest, s = body ++ c :: rest /\ length body = n /\ nosep c body = true.
Proof.
  induction s as [|x s IH]; intros n; cbn [find_char]; [discriminate|]. destruct (x =? c)%N eqn:E.
  - intros H; inversion H; subst. apply N.eqb_eq in E. subst x. exists [], s. repeat split.
  - destruct (find_char c s) as [m|]; [|discriminate]. intros H; inversion H; subst.
    destruct (IH m eq_refl) as (body & rest & -> & Hl & Hn). exists (x :: body), rest. repeat split.
    + cbn [length]. now rewrite Hl.
    + cbn [nosep forallb]. rewrite E. exact Hn.
Qed.

Lemma find_char_complete c body rest : nosep c body = true -> find_char c (body ++ c :: rest) = Some (length body).
Proof.
  induction body as [|x body IH]; cbn [app find_char nosep forallb length].
  - intros _. now rewrite N.eqb_refl.
  - intros H. apply andb_true_iff in H. destruct H as [Hx H]. apply negb_true_iff in Hx. rewrite Hx, (IH H). reflexivity.
Qed.

Lemma string_b_intro body : nosep c_quote body = true -> string_b (c_quote :: body ++ [c_quote]) = true.
Proof.
  intros H. cbn [string_b]. rewrite N.eqb_refl, rev_unit, N.eqb_refl. cbn [andb].
  unfold nosep in H. rewrite forallb_forall in *. intros x Hx. apply H. now apply in_rev.
Qed.

Lemma string_b_inv w : string_b w = true -> exists body, w = c_quote :: body ++ [c_quote] /\ nosep c_quote body = true.
Proof.
  destruct w as [|c r]; [discriminate|]. cbn [string_b]. intros H. apply andb_true_iff in H. destruct H as [Hc H].
  apply N.eqb_eq in Hc. subst c. destruct (rev r) as [|q body] eqn:Er; [discriminate|]. apply andb_true_iff in H.
  destruct H as [Hq H]. apply N.eqb_eq in Hq. subst q. exists (rev body). split.
  - f_equal. rewrite <- (rev_involutive r), Er. reflexivity.
  - unfold nosep. rewrite forallb_forall in *. intros x Hx. apply H. now apply in_rev in Hx.
Qed.

(* ------------------------------------------------------------------ composing class members *)

Lemma is_sep_colon : is_sep c_colon = true. Proof. reflexivity. Qed.
Lemma is_sep_slash : is_sep c_slash = true. Proof. reflexivity. Qed.
Lemma is_sep_at : is_sep c_atsign = true. Proof. reflexivity. Qed.

Section Compose.
Variable d : deviations.
Notation au := (uppercase_words d).

Lemma pkg_core_intro i segs :
  id_b d i = true -> segs <> [] -> forallb (id_b d) segs = true -> pkg_core_b d (i ++ chain_text c_colon segs) = true.
Proof.
  intros Hi Hne Hs. unfold pkg_core_b. rewrite split_on_chain.
  - destruct segs as [|j segs]; [congruence|]. cbn [forallb] in *. now rewrite Hi, Hs.
  - now apply (id_nosep d c_colon).
  - now apply (ids_nosep d c_colon).
Qed.

Lemma pkg_core_inv p :
  pkg_core_b d p = true ->
  exists i segs, p = i ++ chain_text c_colon segs /\ id_b d i = true /\ segs <> [] /\ forallb (id_b d) segs = true.
Proof.
  unfold pkg_core_b. destruct (split_on_join c_colon p) as (i & segs & Hsp & Hp & _ & _). rewrite Hsp.
  destruct segs as [|j segs]; [discriminate|]. cbn [forallb]. intros H. apply andb_true_iff in H. destruct H as [Hi H].
  exists i, (j :: segs). repeat split; auto. discriminate.
Qed.

Definition ver_of (ver : str) : option str := match ver with [] => None | _ :: v => Some v end.

Lemma split_version_intro a ver :
  nosep c_atsign a = true -> vtail_b ver = true -> split_version (a ++ ver) = (a, ver_of ver) /\ version_ok (ver_of ver) = true.
Proof.
  intros Ha Hv. unfold split_version. destruct ver as [|c v].
  - rewrite app_nil_r, split_first_nosep by exact Ha. split; reflexivity.
  - cbn [vtail_b] in Hv. apply andb_true_iff in Hv. destruct Hv as [Hc Hv]. apply N.eqb_eq in Hc. subst c.
    rewrite split_first_app_sep by exact Ha. split; [reflexivity|exact Hv].
Qed.

Lemma split_version_inv w a v :
  split_version w = (a, v) -> version_ok v = true ->
  exists ver, w = a ++ ver /\ vtail_b ver = true /\ v = ver_of ver /\ nosep c_atsign a = true.
Proof.
  unfold split_version. destruct (split_first c_atsign w) as [[a' v']|] eqn:E.
  - intros H Hv. inversion H; subst. apply split_first_inv in E. destruct E as [-> Hn].
    exists (c_atsign :: v'). repeat split; auto.
  - intros H _. inversion H; subst. exists []. rewrite app_nil_r. repeat split. now apply split_first_none_nosep.
Qed.

Lemma core_nosep c i segs :
  is_sep c = true -> (c =? c_colon)%N = false -> id_b d i = true -> forallb (id_b d) segs = true ->
  nosep c (i ++ chain_text c_colon segs) = true.
Proof. intros Hc Hne Hi Hs. rewrite nosep_app, (id_nosep d c i Hc Hi), (chain_nosep d c_colon c segs Hc Hne Hs). reflexivity. Qed.

Lemma pkg_name_intro i segs ver :
  id_b d i = true -> segs <> [] -> forallb (id_b d) segs = true -> vtail_b ver = true ->
  pkg_name_b d (i ++ chain_text c_colon segs ++ ver) = true.
Proof.
  intros Hi Hne Hs Hv. unfold pkg_name_b. rewrite app_assoc.
  destruct (split_version_intro (i ++ chain_text c_colon segs) ver) as [-> Hok]; auto.
  - now apply core_nosep.
  - now rewrite pkg_core_intro.
Qed.

Lemma pkg_path_intro i segs path ver :
  id_b d i = true -> segs <> [] -> forallb (id_b d) segs = true -> path <> [] -> forallb (id_b d) path = true ->
  vtail_b ver = true -> pkg_path_b d (i ++ chain_text c_colon segs ++ chain_text c_slash path ++ ver) = true.
Proof.
  intros Hi Hne Hs Hpne Hp Hv. unfold pkg_path_b.
  replace (i ++ chain_text c_colon segs ++ chain_text c_slash path ++ ver)
    with (((i ++ chain_text c_colon segs) ++ chain_text c_slash path) ++ ver) by now rewrite <- !app_assoc.
  destruct (split_version_intro ((i ++ chain_text c_colon segs) ++ chain_text c_slash path) ver) as [-> Hok]; auto.
  - rewrite nosep_app, core_nosep; auto. apply (chain_nosep d c_slash c_atsign); auto.
  - rewrite Hok, andb_true_r. rewrite split_on_chain.
    + destruct path as [|p1 path]; [congruence|]. rewrite pkg_core_intro by auto. exact Hp.
    + now apply core_nosep.
    + now apply (ids_nosep d c_slash).
Qed.

Lemma pkg_name_inv w :
  pkg_name_b d w = true ->
  exists i segs ver, w = i ++ chain_text c_colon segs ++ ver /\ id_b d i = true /\ segs <> [] /\
                     forallb (id_b d) segs = true /\ vtail_b ver = true.
Proof.
  unfold pkg_name_b. destruct (split_version w) as [a v] eqn:E. intros H. apply andb_true_iff in H. destruct H as [Hc Hv].
  destruct (split_version_inv _ _ _ E Hv) as (ver & -> & Hver & _ & _).
  destruct (pkg_core_inv _ Hc) as (i & segs & -> & Hi & Hne & Hs). exists i, segs, ver. rewrite <- app_assoc. auto.
Qed.

Lemma pkg_path_inv w :
  pkg_path_b d w = true ->
  exists i segs path ver, w = i ++ chain_text c_colon segs ++ chain_text c_slash path ++ ver /\ id_b d i = true /\
     segs <> [] /\ forallb (id_b d) segs = true /\ path <> [] /\ forallb (id_b d) path = true /\ vtail_b ver = true.
Proof.
  unfold pkg_path_b. destruct (split_version w) as [a v] eqn:E. intros H. apply andb_true_iff in H. destruct H as [Hc Hv].
  destruct (split_version_inv _ _ _ E Hv) as (ver & -> & Hver & _ & _).
  destruct (split_on_join c_slash a) as (core & path & Hsp & -> & _ & _). rewrite Hsp in Hc.
  destruct path as [|p1 path]; [discriminate|]. apply andb_true_iff in Hc. destruct Hc as [Hcore Hp].
  destruct (pkg_core_inv _ Hcore) as (i & segs & -> & Hi & Hne & Hs). exists i, segs, (p1 :: path), ver.
  rewrite <- !app_assoc. repeat split; auto. discriminate.
Qed.

End Compose.

(* ------------------------------------------------------------------ the shape of what the scanner reads *)

(** [scan_token] after an id of length [n1] has been found at the head of [s]. *)
Definition scan_id (cfg : lexcfg) (fuel : nat) (s : str) (n1 : nat) : scanres :=
  let au := allow_upper cfg in
  let rest1 := skipn n1 s in
  let kw_or_ident := match lookup_str (firstn n1 s) (keywords cfg) with Some k => k | None => TIdent end in
  if head_is c_minus rest1 then
    if q_pkgzone cfg && is_kw_prefix (firstn n1 s) (keywords cfg) then ScanUnmodelled
    else if q_dash cfg then ScanTok TIdent (S n1) else ScanTok kw_or_ident n1
  else
    let n2 := seg_loop fuel au c_colon rest1 in
    match n2 with
    | O => if head_is c_colon rest1 && q_kwcolon cfg then ScanTok TIdent n1 else ScanTok kw_or_ident n1
    | S _ =>
        let pkg := (n1 + n2)%nat in
        let after := skipn pkg s in
        if q_pkgzone cfg && (head_is c_minus after || head_is c_colon after) then ScanUnmodelled
        else
          match seg_loop fuel au c_slash after with
          | O => ScanTok TPackageName (pkg + version_tail_len after)
          | S m => let path := (pkg + S m)%nat in
                   ScanTok TPackagePath (path + version_tail_len (skipn path s))
          end
    end.

Lemma scan_token_unfold cfg fuel s :
  scan_token cfg fuel s =
  match s with
  | [] => ScanErr UnexpectedToken 0
  | c :: r =>
      if (c =? c_quote)%N then
        match find_char c_quote r with Some n => ScanTok TString (S (S n)) | None => ScanErr UnterminatedString 1 end
      else match id_len (allow_upper cfg) s with
           | S n0 => scan_id cfg fuel s (S n0)
           | O => match best_symbol (symbols cfg) s with
                  | Some (k, n) => ScanTok k n
                  | None => ScanErr UnexpectedToken (utf8_len c)
                  end
           end
  end.
Proof. destruct s as [|c r]; reflexivity. Qed.

Section Shape.
Variable d : deviations.
Notation au := (uppercase_words d).

(** The text at the head of [s], as the scanner reads it: an id, a chain of [: id], a chain of
    [/ id], a version tail -- each as long as possible -- and what is left. *)
Record shape : Set := {
  sh_id : str; sh_colon : list str; sh_slash : list str; sh_ver : str; sh_rest : str }.

Definition after_colon (x : shape) : str := chain_text c_slash (sh_slash x) ++ sh_ver x ++ sh_rest x.
Definition after_id (x : shape) : str := chain_text c_colon (sh_colon x) ++ after_colon x.
Definition after_slash (x : shape) : str := sh_ver x ++ sh_rest x.

Definition shape_ok (fuel : nat) (s : str) (x : shape) : Prop :=
  s = sh_id x ++ after_id x /\
  id_b d (sh_id x) = true /\ id_len au s = length (sh_id x) /\ id_follow d (sh_id x) (after_id x) = true /\
  forallb (id_b d) (sh_colon x) = true /\
  seg_loop fuel au c_colon (after_id x) = length (chain_text c_colon (sh_colon x)) /\
  no_seg d c_colon (after_colon x) = true /\
  (sh_colon x <> [] -> id_follow d (chain_text c_colon (sh_colon x)) (after_colon x) = true) /\
  forallb (id_b d) (sh_slash x) = true /\
  seg_loop fuel au c_slash (after_colon x) = length (chain_text c_slash (sh_slash x)) /\
  no_seg d c_slash (after_slash x) = true /\
  (sh_slash x <> [] -> id_follow d (chain_text c_slash (sh_slash x)) (after_slash x) = true) /\
  vtail_b (sh_ver x) = true /\ version_tail_len (after_slash x) = length (sh_ver x).

Lemma firstn_skipn_eq {A} n (l a : list A) : firstn n l = a -> l = a ++ skipn n l.
Proof. intros <-. symmetry. apply firstn_skipn. Qed.

Lemma firstn_length_exact {A} n (l : list A) : n <= length l -> length (firstn n l) = n.
Proof. apply firstn_length_le. Qed.

Lemma scan_shape fuel s : length s < fuel -> id_len au s <> 0 -> exists x, shape_ok fuel s x.
Proof.
  intros Hf Hn. set (n1 := id_len au s) in *.
  pose proof (id_len_sound d s Hn) as Hi. pose proof (id_len_stops d s Hn) as Hst. fold n1 in Hi, Hst.
  pose proof (id_len_le au s) as Hle. fold n1 in Hle.
  set (rest1 := skipn n1 s) in *.
  assert (Hl1 : length rest1 < fuel) by (unfold rest1; rewrite skipn_length; lia).
  destruct (seg_loop_sound d c_colon is_sep_colon fuel rest1 Hl1) as (segsC & HfC & HidsC & HnoC & HfolC).
  set (n2 := seg_loop fuel au c_colon rest1) in *. set (after := skipn n2 rest1) in *.
  pose proof (seg_loop_le fuel au c_colon rest1) as Hle2. fold n2 in Hle2.
  assert (Hl2 : length after < fuel) by (unfold after; rewrite skipn_length; lia).
  destruct (seg_loop_sound d c_slash is_sep_slash fuel after Hl2) as (segsP & HfP & HidsP & HnoP & HfolP).
  set (n3 := seg_loop fuel au c_slash after) in *. set (after2 := skipn n3 after) in *.
  pose proof (seg_loop_le fuel au c_slash after) as Hle3. fold n3 in Hle3.
  pose proof (version_tail_sound after2) as Hv. pose proof (version_tail_len_le after2) as Hle4.
  exists {| sh_id := firstn n1 s; sh_colon := segsC; sh_slash := segsP;
            sh_ver := firstn (version_tail_len after2) after2; sh_rest := skipn (version_tail_len after2) after2 |}.
  unfold shape_ok, after_id, after_colon, after_slash. cbn [sh_id sh_colon sh_slash sh_ver sh_rest].
  rewrite (firstn_skipn (version_tail_len after2) after2).
  assert (E3 : after = chain_text c_slash segsP ++ after2) by (apply firstn_skipn_eq; exact HfP).
  assert (E2 : rest1 = chain_text c_colon segsC ++ after) by (apply firstn_skipn_eq; exact HfC).
  rewrite <- E3, <- E2.
  assert (LC : length (chain_text c_colon segsC) = n2) by (rewrite <- HfC; apply firstn_length_exact; exact Hle2).
  assert (LP : length (chain_text c_slash segsP) = n3) by (rewrite <- HfP; apply firstn_length_exact; exact Hle3).
  rewrite LC, LP, (firstn_length_exact n1 s Hle), (firstn_length_exact _ after2 Hle4).
  repeat split; auto. symmetry. apply firstn_skipn.
Qed.

(** Prefix lengths of a shaped text. *)
Lemma shape_firstn_id fuel s x : shape_ok fuel s x -> firstn (length (sh_id x)) s = sh_id x /\ skipn (length (sh_id x)) s = after_id x.
Proof. intros (-> & _). split; [apply firstn_app_exact|apply skipn_app_exact]. Qed.

End Shape.

(* ------------------------------------------------------------------ what scan_token returns, on a shaped text *)

Definition kw_or_ident_of (w : str) : token :=
  match lookup_str w doc_keywords with Some k => k | None => TIdent end.

Definition lens (a b : nat) := (a + b)%nat.

Section Eval.
Variable d : deviations.
Variable base : lexcfg.
Hypothesis Htab : tables_ok base.
Notation cfg := (cfg_with d base).
Notation au := (uppercase_words d).

Definition scan_result (x : shape) : scanres :=
  let w1 := sh_id x in
  let cC := chain_text c_colon (sh_colon x) in
  let cP := chain_text c_slash (sh_slash x) in
  if head_is c_minus (after_id x) then
    if pkg_separator_zone d && is_keyword_prefix w1 then ScanUnmodelled
    else if dangling_dash d then ScanTok TIdent (S (length w1)) else ScanTok (kw_or_ident_of w1) (length w1)
  else
    match sh_colon x with
    | [] => if head_is c_colon (after_id x) && keyword_colon d then ScanTok TIdent (length w1)
            else ScanTok (kw_or_ident_of w1) (length w1)
    | _ :: _ =>
        if pkg_separator_zone d && (head_is c_minus (after_colon x) || head_is c_colon (after_colon x)) then ScanUnmodelled
        else match sh_slash x with
             | [] => ScanTok TPackageName (length (w1 ++ cC ++ sh_ver x))
             | _ :: _ => ScanTok TPackagePath (length (w1 ++ cC ++ cP ++ sh_ver x))
             end
    end.

Lemma scan_id_shape fuel s x : shape_ok d fuel s x -> scan_id cfg fuel s (length (sh_id x)) = scan_result x.
Proof.
  intros Hx. destruct (shape_firstn_id d fuel s x Hx) as [Hfi Hsk].
  destruct Hx as (Hs & Hi & Hn1 & Hst & HidsC & HsC & HnoC & HfolC & HidsP & HsP & HnoP & HfolP & Hv & Hvl).
  unfold scan_id, scan_result. cbn [allow_upper keywords q_pkgzone q_dash q_kwcolon cfg_with]. cbv zeta.
  rewrite Hfi, Hsk, (lookup_keywords base _ Htab), (kw_prefix_tables base _ Htab). fold (kw_or_ident_of (sh_id x)).
  destruct (head_is c_minus (after_id x)); [reflexivity|]. rewrite HsC.
  destruct (sh_colon x) as [|j segsC] eqn:EC; [reflexivity|].
  rewrite <- EC in *.
  assert (Hlen : exists m, length (chain_text c_colon (sh_colon x)) = S m).
  { rewrite EC, length_chain_cons. eauto. }
  destruct Hlen as (m & Hm). rewrite Hm, <- Hm.
  assert (Hafter : skipn (length (sh_id x) + length (chain_text c_colon (sh_colon x))) s = after_colon x).
  { rewrite skipn_plus, Hsk. unfold after_id. apply skipn_app_exact. }
  rewrite Hafter. destruct (pkg_separator_zone d && (head_is c_minus (after_colon x) || head_is c_colon (after_colon x))); [reflexivity|].
  rewrite HsP. destruct (sh_slash x) as [|p1 segsP] eqn:EP.
  - cbn [chain_text map concat length app]. unfold after_colon in *. rewrite EP in *. cbn [chain_text map concat app] in *.
    unfold after_slash in Hvl. rewrite Hvl, !app_length. f_equal. lia.
  - rewrite <- EP in *.
    assert (Hlen : exists m, length (chain_text c_slash (sh_slash x)) = S m).
    { rewrite EP, length_chain_cons. eauto. }
    destruct Hlen as (m' & Hm'). rewrite Hm', <- Hm'.
    assert (Hafter2 : skipn (length (sh_id x) + length (chain_text c_colon (sh_colon x)) + length (chain_text c_slash (sh_slash x))) s
                      = after_slash x).
    { rewrite skipn_plus, Hafter. unfold after_colon. apply skipn_app_exact. }
    rewrite Hafter2, Hvl, !app_length. f_equal. lia.
Qed.

(** [scan_token] on a text that starts with an id. *)
Lemma scan_token_shape_eq fuel s :
  length s < fuel -> id_len au s <> 0 -> exists x, shape_ok d fuel s x /\ scan_token cfg fuel s = scan_result x.
Proof.
  intros Hf Hn. destruct (scan_shape d fuel s Hf Hn) as (x & Hx). exists x. split; [exact Hx|].
  rewrite scan_token_unfold. destruct s as [|c r]; [cbn in Hn; congruence|].
  assert (Hq : (c =? c_quote)%N = false).
  { destruct (c =? c_quote)%N eqn:E; [|reflexivity]. apply N.eqb_eq in E. subst c. exfalso. apply Hn.
    unfold id_len, words_len. change (c_quote =? c_percent)%N with false. change (is_lower c_quote) with false.
    change (is_upper c_quote) with false. cbn iota. now rewrite andb_false_r. }
  rewrite Hq. cbn [allow_upper cfg_with]. pose proof Hx as (_ & _ & Hn1 & _).
  destruct (id_len au (c :: r)) as [|n0] eqn:En; [congruence|]. rewrite Hn1. now apply scan_id_shape.
Qed.

End Eval.
