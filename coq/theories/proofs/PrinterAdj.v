(** C13: what follows each token the printer writes. A purely syntactic property of the command lists
    [p_X]: every keyword, identifier copy and package copy is directly followed by a blank, a line
    feed, or a punctuation token that cannot continue it; [.] is never followed by [.]. Holds of every
    tree (no well-formedness needed). *)
From WacV Require Import Str Token Lexer LexTables LexImpl Semver Ast Parser Printer PrintSpec PrinterText PrinterProofs PrinterScan.
From Coq Require Import Lia.
Local Open Scope nat_scope.

Definition lead1 (nx : list cmd) : option N :=
  match nx with
  | CSp :: _ => Some 32%N
  | CNewline :: _ | CRawNl :: _ => Some 10%N
  | CTok k :: _ => hd_error (fixed_text k)
  | _ => None
  end.
Definition lead2 (nx : list cmd) : option N :=
  match nx with
  | CTok k :: rest => match fixed_text k with _ :: c2 :: _ => Some c2 | _ => lead1 rest end
  | _ => None
  end.

(** A character after which nothing can be continued. *)
Definition hard (c : N) : bool :=
  negb (alnum c) && negb (existsb (N.eqb c) [45; 37; 58; 47; 64; 43; 46]%N).

Definition oeqb (o : option N) (c : N) : bool := match o with Some x => (x =? c)%N | None => false end.
Definition ohard (o : option N) : bool := match o with Some x => hard x | None => false end.

(** The literal tokens the printer may write: keywords and symbols, except the [/] symbol. *)
Definition okfixed (k : token) : bool := (is_kw k || is_sym k) && negb (token_eqb k TSlash).

Definition tokfokb (c : cmd) (nx : list cmd) : bool :=
  match c with
  | CTok k =>
      okfixed k &&
      (if is_kw k then ohard (lead1 nx)
       else if token_eqb k TDot
            then match nx with CSrc _ _ :: _ => true | _ => match lead1 nx with Some c1 => negb (c1 =? 46)%N | None => false end end
            else true)
  | CSrc TIdent _ =>
      ohard (lead1 nx) || oeqb (lead1 nx) 46 ||
      (oeqb (lead1 nx) 58 && (oeqb (lead2 nx) 32 || oeqb (lead2 nx) 10))
  | CSrc TString _ => true
  | CSrc TPackageName _ | CSrc TPackagePath _ => ohard (lead1 nx) || (oeqb (lead1 nx) 46 && oeqb (lead2 nx) 123)
  | CSrc _ _ => false
  | _ => true
  end.

Fixpoint adjb (cs : list cmd) (h : list cmd) : bool :=
  match cs with
  | [] => true
  | c :: r => tokfokb c (r ++ h) && adjb r h
  end.

Lemma adjb_app a b h : adjb (a ++ b) h = adjb a (b ++ h) && adjb b h.
Proof. induction a as [|c a IH]; [reflexivity|]. cbn [app adjb]. rewrite IH, <- app_assoc, andb_assoc. reflexivity. Qed.

(** Continuations: [h1b]: starts with a hard character; [h2b]: hard or a period. *)
Definition h1b (h : list cmd) : bool := ohard (lead1 h).
Definition h2b (h : list cmd) : bool := ohard (lead1 h) || oeqb (lead1 h) 46.
Lemma h1_h2 h : h1b h = true -> h2b h = true.
Proof. unfold h1b, h2b. now intros ->. Qed.

(** Splitting tactic: [adjb (a ++ b) h] into its parts, concrete heads by computation. *)
Ltac adj :=
  repeat first
    [ reflexivity
    | assumption
    | match goal with
      | |- (_ && _)%bool = true => apply andb_true_intro; split
      | |- adjb (_ ++ _) _ = true => rewrite adjb_app
      | |- adjb (_ :: _) _ = true => cbn [adjb]
      | |- adjb [] _ = true => reflexivity
      | |- tokfokb _ _ = true =>
          unfold src_id, src_str, src_path; cbn [app tokfokb];
          repeat match goal with
                 | H : h1b _ = true |- _ => unfold h1b in H; rewrite ?H
                 | H : h2b _ = true |- _ => unfold h2b in H; rewrite ?H
                 end; reflexivity
      end ].

Section Adj.
Let fx := repaired.

Lemma adj_docs ds h : adjb (p_docs fx ds) h = true.
Proof. rewrite p_docs_flat. induction (printed_lines ds) as [|l L IH]; [reflexivity|]. cbn [map adjb tokfokb]. exact IH. Qed.

Lemma adj_comma_sep {A} (pr : A -> list cmd) l :
  (forall x h, In x l -> h1b h = true -> adjb (pr x) h = true) ->
  forall b h, h1b h = true -> adjb (comma_sep pr b l) h = true.
Proof.
  induction l as [|x l IH]; intros Hx b h Hh; [reflexivity|]. cbn [comma_sep].
  assert (IH' := IH (fun y h' Hy => Hx y h' (or_intror Hy))).
  destruct b; cbn [app]; adj.
  - apply Hx; [now left|]. destruct l; [exact Hh|reflexivity].
  - now apply IH'.
  - apply Hx; [now left|]. destruct l; [exact Hh|reflexivity].
  - now apply IH'.
Qed.

Lemma adj_comma_lines {A} (pr : A -> list cmd) l :
  (forall x h, In x l -> h1b h = true -> adjb (pr x) h = true) -> forall h, adjb (comma_lines pr l) h = true.
Proof.
  unfold comma_lines. induction l as [|x l IH]; intros Hx h; [reflexivity|]. cbn [flat_map]. adj.
  - apply Hx; [now left|reflexivity].
  - apply IH. intros y h' Hy. apply Hx. now right.
Qed.

Lemma adj_spaced {A} (pr : A -> list cmd) l :
  (forall x h, In x l -> h1b h = true -> adjb (pr x) h = true) -> forall b h, adjb (spaced pr b l) h = true.
Proof.
  induction l as [|x l IH]; intros Hx b h; [reflexivity|]. cbn [spaced].
  assert (IH' := IH (fun y h' Hy => Hx y h' (or_intror Hy))).
  destruct b; cbn [app]; adj; try (apply Hx; [now left|reflexivity]); apply IH'.
Qed.

Lemma adj_ty t : forall h, h1b h = true -> adjb (p_ty t) h = true.
Proof.
  induction t as [p sp|tys sp IH|t sp IH|t sp IH|ok err sp IHok IHerr|i sp|t sp IH|i] using ty_ind'; intros h Hh.
  - destruct p; cbn [p_ty prim_token adjb app]; adj.
  - rewrite p_ty_tuple. adj. apply adj_comma_sep; [|reflexivity]. intros x h' Hx Hh'. rewrite Forall_forall in IH. now apply IH.
  - cbn [p_ty]. adj. now apply IH.
  - cbn [p_ty]. adj. now apply IH.
  - destruct ok as [ok|], err as [err|]; cbn [p_ty optP] in *; adj; try (apply IHok; reflexivity); try (apply IHerr; reflexivity).
  - cbn [p_ty src_id]. adj.
  - cbn [p_ty]. adj. now apply IH.
  - cbn [p_ty src_id]. adj.
Qed.

Lemma adj_named_type n h : h1b h = true -> adjb (p_named_type n) h = true.
Proof. intros Hh. unfold p_named_type. adj. now apply adj_ty. Qed.

Lemma adj_named_types l h : h1b h = true -> adjb (p_named_types l) h = true.
Proof. intros Hh. unfold p_named_types. apply adj_comma_sep; [|exact Hh]. intros x h' _ Hh'. now apply adj_named_type. Qed.

Lemma adj_func_type f h : h1b h = true -> adjb (p_func_type f) h = true.
Proof.
  intros Hh. unfold p_func_type. destruct (ft_results f) as [|t|rs]; cbn [app]; adj;
    try (apply adj_named_types; reflexivity); try (now apply adj_ty).
Qed.

Lemma adj_variant_case c h : h1b h = true -> adjb (CIndent :: p_variant_case fx c) h = true.
Proof.
  intros Hh. unfold p_variant_case. destruct (vc_ty c) as [t|]; adj; try apply adj_docs. apply adj_ty. reflexivity.
Qed.

Lemma adj_resource_method m h : h1b h = true -> adjb (p_resource_method fx m) h = true.
Proof.
  intros Hh. destruct m as [dcs sp ps|dcs i st f]; cbn [p_resource_method]; [|destruct st]; adj; try apply adj_docs;
    try (apply adj_named_types; reflexivity); try (apply adj_func_type; reflexivity).
Qed.

Lemma adj_block dcs k i body h :
  okfixed k && is_kw k = true -> (forall h', adjb body h' = true) -> adjb (p_block fx dcs k i body) h = true.
Proof.
  intros Hk Hb. apply andb_true_iff in Hk. destruct Hk as [Hk1 Hk2]. unfold p_block. adj; try apply adj_docs; try apply Hb.
  cbn [app tokfokb lead1]. rewrite Hk1, Hk2. reflexivity.
Qed.

Lemma adj_item_type_decl x h : h1b h = true -> adjb (p_item_type_decl fx x) h = true.
Proof.
  intros Hh. destruct x as [dcs i ms|dcs i cs|dcs i fs|dcs i fs|dcs i cs|dcs i k]; cbn [p_item_type_decl].
  - apply adj_block; [reflexivity|]. intros h'. apply adj_spaced. intros m h'' _ H. now apply adj_resource_method.
  - apply adj_block; [reflexivity|]. intros h'. apply adj_comma_lines. intros c h'' _ H. now apply adj_variant_case.
  - apply adj_block; [reflexivity|]. intros h'. apply adj_comma_lines. intros f h'' _ H. unfold p_field. adj; [apply adj_docs|now apply adj_ty].
  - apply adj_block; [reflexivity|]. intros h'. apply adj_comma_lines. intros f h'' _ H. unfold p_flag. adj. apply adj_docs.
  - apply adj_block; [reflexivity|]. intros h'. apply adj_comma_lines. intros c h'' _ H. unfold p_enum_case. adj. apply adj_docs.
  - destruct k as [f|t]; adj; try apply adj_docs; [apply adj_func_type|apply adj_ty]; reflexivity.
Qed.

Lemma adj_use u h : h1b h = true -> adjb (p_use fx u) h = true.
Proof.
  intros Hh. unfold p_use. destruct (u_path u) as [p|i]; cbn [p_use_path]; adj; try apply adj_docs;
    (apply adj_comma_sep; [|reflexivity]); intros it h' _ Hh'; unfold p_use_item; destruct (ui_as it); adj.
Qed.

Lemma adj_interface_item it h : h1b h = true -> adjb (p_interface_item fx it) h = true.
Proof.
  intros Hh. destruct it as [u|x|dcs i t]; cbn [p_interface_item]; [now apply adj_use|now apply adj_item_type_decl|].
  destruct t as [f|j]; cbn [p_func_type_ref]; adj; try apply adj_docs. apply adj_func_type. reflexivity.
Qed.

Lemma adj_items {A} (pr : A -> list cmd) l h :
  (forall x h', h1b h' = true -> adjb (pr x) h' = true) -> adjb (p_items pr l) h = true.
Proof. intros H. unfold p_items. adj. apply adj_spaced. intros x h' _ Hh'. now apply H. Qed.

Lemma adj_inline_interface items h : adjb (p_inline_interface fx items) h = true.
Proof. unfold p_inline_interface. adj. apply adj_items. intros. now apply adj_interface_item. Qed.

Lemma adj_extern_type t h : h1b h = true -> adjb (p_extern_type fx t) h = true.
Proof. intros Hh. destruct t; cbn [p_extern_type]; [adj|now apply adj_func_type|apply adj_inline_interface]. Qed.

Lemma adj_world_item_path p h : h1b h = true -> adjb (p_world_item_path fx p) h = true.
Proof. intros Hh. destruct p; cbn [p_world_item_path]; adj. now apply adj_extern_type. Qed.

Lemma adj_world_item w h : h1b h = true -> adjb (p_world_item fx w) h = true.
Proof.
  intros Hh. destruct w as [u|x|dcs p|dcs p|dcs wr items]; cbn [p_world_item];
    [now apply adj_use|now apply adj_item_type_decl| | |].
  - adj; [apply adj_docs|apply adj_world_item_path; reflexivity].
  - adj; [apply adj_docs|apply adj_world_item_path; reflexivity].
  - destruct wr, items as [|x l]; cbn [p_world_ref]; adj; try apply adj_docs;
      apply adj_comma_lines; intros it h' _ Hh'; unfold p_include_item; adj.
Qed.

Lemma adj_type_statement t h : h1b h = true -> adjb (p_type_statement fx t) h = true.
Proof.
  intros Hh. destruct t as [dcs i items|dcs i items|x]; cbn [p_type_statement]; [| |now apply adj_item_type_decl].
  - adj; try apply adj_docs. apply adj_items. intros. now apply adj_interface_item.
  - adj; try apply adj_docs. apply adj_items. intros. now apply adj_world_item.
Qed.

(* ------------------------------------------------------------------ expressions *)

Lemma adj_postfixes post : forall h, h2b h = true -> adjb (flat_map p_postfix post) h = true.
Proof.
  induction post as [|p post IH]; intros h Hh; [reflexivity|]. cbn [flat_map].
  assert (Hc : h2b (flat_map p_postfix post ++ h) = true).
  { destruct post as [|q post']; [exact Hh|]. destruct q; reflexivity. }
  destruct p; cbn [p_postfix]; adj; now apply IH.
Qed.

Lemma adj_args l : Forall (fun a => forall h, h1b h = true -> adjb (p_arg0 a) h = true) l -> forall h, adjb (p_args l) h = true.
Proof.
  induction 1 as [|a l Ha _ IH]; intros h; [reflexivity|]. cbn [p_args]. unfold p_arg_line.
  destruct (is_fill a && nil_args l)%bool; adj; try (apply Ha; reflexivity); apply IH.
Qed.

Lemma adj_arg_name n h : (oeqb (lead1 h) 58 && (oeqb (lead2 h) 32 || oeqb (lead2 h) 10))%bool = true -> adjb (p_arg_name n) h = true.
Proof.
  intros Hh. destruct n; cbn [p_arg_name src_id src_str adjb app tokfokb]; [|reflexivity].
  rewrite Hh, !orb_true_r. reflexivity.
Qed.

Lemma adj_expr x : forall h, h2b h = true -> adjb (p_expr fx x) h = true.
Proof.
  revert x. apply (expr_ind' (fun x => forall h, h2b h = true -> adjb (p_expr fx x) h = true)
                     (fun p => forall h, h2b h = true -> adjb (p_primary fx p) h = true)
                     (fun a => forall h, h1b h = true -> adjb (p_arg0 a) h = true)).
  - intros sp p post IH h Hh. cbn [p_expr]. adj; [|now apply adj_postfixes].
    apply IH. destruct post as [|q post']; [exact Hh|]. destruct q; reflexivity.
  - intros sp pkg args IH h Hh. rewrite p_new_eq. pose proof (adj_args args IH) as Ha.
    unfold p_new_args. destruct args as [|a [|b l]]; [adj| |]; destruct a; adj; apply Ha.
  - intros sp x IH h Hh. cbn [p_primary]. adj. apply IH. reflexivity.
  - intros i h Hh. cbn [p_primary]. adj.
  - intros i h Hh. cbn [p_arg0]. adj.
  - intros i h Hh. cbn [p_arg0]. adj.
  - intros n x IH h Hh. cbn [p_arg0]. adj; [apply adj_arg_name; reflexivity|]. apply IH. now apply h1_h2.
  - intros sp h Hh. cbn [p_arg0]. adj.
Qed.

(* ------------------------------------------------------------------ statements, document *)

Lemma adj_statement st h : h1b h = true -> adjb (p_statement fx st) h = true.
Proof.
  intros Hh. destruct st as [dcs i name t|t|dcs i x|dcs x o]; cbn [p_statement].
  - destruct name as [[j|s0]|], t as [pp|f|items|j2]; cbn [p_extern_name p_import_type]; adj; try apply adj_docs;
      try (apply adj_func_type; reflexivity); try apply adj_inline_interface.
  - now apply adj_type_statement.
  - adj; [apply adj_docs|]. apply adj_expr. reflexivity.
  - destruct o as [|osp|[j|s0]]; cbn [p_extern_name]; adj; try apply adj_docs; apply adj_expr; reflexivity.
Qed.

Theorem adj_document doc : adjb (p_document fx doc) [] = true.
Proof.
  unfold p_document, p_directive. destruct (pd_targets (doc_directive doc)); cbn [fx_targets_keyword fx repaired];
    adj; try apply adj_docs; apply adj_spaced; intros st h _ Hh; now apply adj_statement.
Qed.

End Adj.
