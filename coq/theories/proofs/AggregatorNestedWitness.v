(** NESTED instance requirements: an executable check of the hypothesis ([den_f]: is this kind a nested-flat requirement?),
    non-vacuity of the nested theorems on concrete histories - among them the histories in which one anonymous interface
    has TWO parents, which refuted the statements before the repair (an anonymous interface is now copied once per mention;
    the same case lines are replayed on the real aggregator) - and the witness that refutes the statements for nested
    interfaces WITH an identifier. *)
From Coq Require Import ZArith ZifyBool ZifyN Lia Permutation.
From WacV Require Import Str Names NamesSpec Types Checker SubSpec CheckerEq SubSpecProofs CheckerValue CheckerProofs.
From WacV Require Import Aggregator AggregatorSpec AggregatorFrame AggregatorRemap AggregatorChecker AggregatorNames
     AggregatorCanonical AggregatorFlat AggregatorHistory AggregatorWitness
     AggregatorNestedSpec AggregatorNestedDen AggregatorNestedHistory.

(** * Deciding [Den] / [IDen] *)
Fixpoint nodupb (l : list str) : bool :=
  match l with [] => true | x :: r => negb (existsb (str_eqb x) r) && nodupb r end.
Lemma nodupb_sound l : nodupb l = true -> NoDup l.
Proof.
  induction l as [|x l IH]; cbn [nodupb]; intros H; constructor; apply andb_true_iff in H as [H1 H2]; auto.
  intros Hin. apply negb_true_iff in H1. assert (X : existsb (str_eqb x) l = true); [|congruence].
  apply existsb_exists. exists x. split; auto. apply seqb_refl.
Qed.

Fixpoint den_kids (F : kind -> option (tree * list id)) (exs : list (str * kind))
  : option (list (str * tree) * list (str * list id)) :=
  match exs with
  | [] => Some ([], [])
  | (n, k) :: r => match F k, den_kids F r with
                   | Some (tr, ids), Some (e, ol) => Some ((n, tr) :: e, (n, ids) :: ol)
                   | _, _ => None
                   end
  end.
Definition own_of (ol : list (str * list id)) (n : str) : list id := match assoc n ol with Some l => l | None => [] end.

(** [G] = fuel for the leaves' trees, [d] = nesting depth *)
Definition iden_f (F : kind -> option (tree * list id)) (T : types) (y : id) : option (option str * list (str * tree) * list id) :=
  match get_if T y with
  | Some (mkif oid [] exs) =>
    if nodupb (map fst exs) then
      match den_kids F exs with
      | Some (e, ol) => Some (oid, e, y :: flat_map (own_of ol) (map fst exs))
      | None => None
      end
    else None
  | _ => None
  end.
Fixpoint den_f (G d : nat) (T : types) (k : kind) : option (tree * list id) :=
  match d with
  | O => None
  | S d' =>
    match k with
    | KInstance y => match iden_f (den_f G d' T) T y with
                     | Some (None, e, ids) => Some (XInst e, ids)
                     | _ => None
                     end
    | _ => if leafk k then match unfold G T k with
                           | Some tr => if resfree tr then Some (tr, []) else None
                           | None => None
                           end
           else None
    end
  end.

Lemma den_kids_sound F : forall exs e ol, den_kids F exs = Some (e, ol) -> NoDup (map fst exs) ->
  kids (fun k tr ids => F k = Some (tr, ids)) (own_of ol) exs e.
Proof.
  induction exs as [|[n k] r IH]; intros e ol H ND; cbn [den_kids] in H.
  - injection H as <- <-. constructor.
  - destruct (F k) as [[tr ids]|] eqn:Ek; [|discriminate]. destruct (den_kids F r) as [[e' ol']|] eqn:Er; [|discriminate].
    injection H as <- <-. cbn [map fst] in ND. inversion ND as [|? ? Hn ND']; subst. constructor.
    + cbn [fst snd]. split; auto. unfold own_of. cbn [assoc]. now rewrite seqb_refl.
    + apply (kids_impl (fun k tr ids => F k = Some (tr, ids)) (fun k tr ids => F k = Some (tr, ids)) (own_of ol') (own_of ((n, ids) :: ol')) r e');
        [|now apply IH].
      intros m k0 tr0 Hin Hf. unfold own_of. cbn [assoc]. destruct (str_eqb m n) eqn:E; auto.
      apply seqb_eq in E. subst m. exfalso. apply Hn. change n with (fst (n, k0)). now apply in_map.
Qed.

Lemma iden_f_sound (P : kind -> tree -> list id -> Prop) F T y oid e ids :
  (forall k tr ids0, F k = Some (tr, ids0) -> P k tr ids0) ->
  iden_f F T y = Some (oid, e, ids) -> IDenP anyshape P T y oid e ids.
Proof.
  intros HF H. unfold iden_f in H. destruct (get_if T y) as [[oid0 [|] exs]|] eqn:Hg; try discriminate.
  destruct (nodupb (map fst exs)) eqn:Hn; [|discriminate]. apply nodupb_sound in Hn.
  destruct (den_kids F exs) as [[e0 ol]|] eqn:Ek; [|discriminate]. injection H as <- <- <-.
  exists exs, (own_of ol). split; [exact Hg|]. split; [exact Hn|]. split; [|split; [exact Logic.I|reflexivity]].
  eapply kids_impl; [|eapply den_kids_sound; eauto]. intros n k tr Hin Hf. now apply HF.
Qed.

Lemma den_f_sound G T : forall d k tr ids, den_f G d T k = Some (tr, ids) -> SDen d T k tr ids.
Proof.
  induction d as [|d IH]; intros k tr ids H; [discriminate|]. cbn [den_f] in H.
  assert (Hleaf : (if leafk k then match unfold G T k with
                                   | Some tr => if resfree tr then Some (tr, []) else None
                                   | None => None
                                   end else None) = Some (tr, ids) -> SDen (S d) T k tr ids).
  { destruct (leafk k) eqn:L; [|discriminate]. destruct (unfold G T k) as [tr0|] eqn:U; [|discriminate].
    destruct (resfree tr0) eqn:R; [|discriminate]. intros X. injection X as <- <-. cbn [DenG]. left.
    split; [|reflexivity]. split; auto. split; auto. now exists G. }
  destruct k as [x|f|y|w|m|v]; try (now apply Hleaf).
  destruct (iden_f (den_f G d T) T y) as [[[[nm|] e] ids0]|] eqn:E; try discriminate. injection H as <- <-.
  cbn [DenG]. right. exists y, e. split; auto. split; auto. eapply iden_f_sound; eauto.
Qed.
Lemma iden_f_den G T d y oid e ids : iden_f (den_f G d T) T y = Some (oid, e, ids) -> SIDen d T y oid e ids.
Proof. intros H. eapply iden_f_sound; eauto. intros k tr ids0. apply den_f_sound. Qed.

(** the executable form of "contribution [c] is a nested contribution": *)
Definition ncontrib_b (G d : nat) (c : str * (types * kind)) : bool :=
  match snd (snd c) with
  | KInstance i => match iden_f (den_f G d (fst (snd c))) (fst (snd c)) i with
                   | Some (oid, e, ids) => match oid with None => true | Some nm => str_eqb nm (fst c) end
                   | None => false
                   end
  | _ => false
  end.
Lemma ncontrib_b_sound (Col : types -> Prop) G d c :
  Col (fst (snd c)) -> owner_free (fst (snd c)) -> ncontrib_b G d c = true -> nested_contrib Col c.
Proof.
  intros Ct OF H. unfold ncontrib_b in H. destruct (snd (snd c)) as [| |i| | |] eqn:Ek; try discriminate.
  destruct (iden_f (den_f G d (fst (snd c))) (fst (snd c)) i) as [[[oid e] ids]|] eqn:E; [|discriminate].
  exists (XInst e), ids. split; auto. split; auto. exists d, i, oid, e. split; auto. split; [eapply iden_f_den; eauto|].
  split; auto. destruct oid as [nm|]; auto. right. apply seqb_eq in H. now subst.
Qed.

(** * Non-vacuity: three versions of one track, interfaces named by their import name, nested two levels deep
      a:b/c@0.2.1 {n: {p: {f}}, h}   a:b/c@0.2.0 {n: {p: {g}, q: {f}}}   a:b/c@0.2.3 {n: {p: {f}}, k}
      merge to  a:b/c@0.2.3 {n: {p: {f, g}, q: {f}}, h, k} *)
Definition n_021 : str := [97;58;98;47;99;64;48;46;50;46;49].
Definition n_020 : str := [97;58;98;47;99;64;48;46;50;46;48].
Definition w_deep_t0 : types :=
  mktypes 1 [] [] [mkfunc [] None false; mkfunc [] (Some (VPrim PString)) false]
    [mkif None [] [([102], KFunc (mkid 1 0))];
     mkif None [] [([112], KInstance (mkid 1 0))];
     mkif (Some n_021) [] [([110], KInstance (mkid 1 1)); ([104], KFunc (mkid 1 1))]] [] [].
Definition w_deep_t1 : types :=
  mktypes 2 [] [] [mkfunc [] None false; mkfunc [([120], VPrim PU8)] None false]
    [mkif None [] [([103], KFunc (mkid 2 1))];
     mkif None [] [([102], KFunc (mkid 2 0))];
     mkif None [] [([112], KInstance (mkid 2 0)); ([113], KInstance (mkid 2 1))];
     mkif (Some n_020) [] [([110], KInstance (mkid 2 2))]] [] [].
Definition w_deep_t2 : types :=
  mktypes 3 [] [] [mkfunc [] None false]
    [mkif None [] [([102], KFunc (mkid 3 0))];
     mkif None [] [([112], KInstance (mkid 3 0))];
     mkif (Some n_023) [] [([110], KInstance (mkid 3 1)); ([107], KFunc (mkid 3 0))]] [] [].
Definition w_deep : list (str * (types * kind)) :=
  [(n_021, (w_deep_t0, KInstance (mkid 1 2))); (n_020, (w_deep_t1, KInstance (mkid 2 3))); (n_023, (w_deep_t2, KInstance (mkid 3 2)))].
Definition deep_col (t : types) : Prop := t = w_deep_t0 \/ t = w_deep_t1 \/ t = w_deep_t2.
Lemma deep_col_same t1 t2 : deep_col t1 -> deep_col t2 -> t_tag t1 = t_tag t2 -> t1 = t2.
Proof. intros [->|[->| ->]] [->|[->| ->]]; cbn; auto; discriminate. Qed.
Lemma deep_col_tag t : deep_col t -> t_tag t <> 0.
Proof. intros [->|[->| ->]]; cbn; discriminate. Qed.
Lemma w_deep_nested : Forall (nested_contrib deep_col) w_deep.
Proof.
  assert (OF : forall t, t_resources t = [] -> owner_free t) by (intros t E r H; rewrite E in H; contradiction).
  repeat constructor; apply (ncontrib_b_sound deep_col 4 3); cbn [fst snd]; try (apply OF; reflexivity);
    try (vm_compute; reflexivity); unfold deep_col; auto.
Qed.
Example deep_run :
  exists a s, run w_deep = inl (a, s) /\ map fst (imports a) = [n_023] /\
    merged_tree a n_021 =
    Some (XInst [([110], XInst [([112], XInst [([102], XFunc (mkft [] None false));
                                               ([103], XFunc (mkft [([120], VTPrim PU8)] None false))]);
                                ([113], XInst [([102], XFunc (mkft [] None false))])]);
                 ([104], XFunc (mkft [] (Some (VTPrim PString)) false));
                 ([107], XFunc (mkft [] None false))]) /\
    spec_merge [(n_021, XInst [([110], XInst [([112], XInst [([102], XFunc (mkft [] None false))])]);
                               ([104], XFunc (mkft [] (Some (VTPrim PString)) false))]);
                (n_020, XInst [([110], XInst [([112], XInst [([103], XFunc (mkft [([120], VTPrim PU8)] None false))]);
                                              ([113], XInst [([102], XFunc (mkft [] None false))])])]);
                (n_023, XInst [([110], XInst [([112], XInst [([102], XFunc (mkft [] None false))])]);
                               ([107], XFunc (mkft [] None false))])] =
    match merged_tree a n_021 with Some t => Some [(n_023, t)] | None => None end.
Proof. eexists _, _. conj_vc. Qed.

(** * Regression (known finding nested-interface-with-two-parents, repaired): a nested interface with TWO parents inside
      one contributor.
      foo: {n: I, m: I} with I = {f}  (one anonymous interface under two export names), then foo: {n: {g}}.
      Before the repair [remap_interface] copied I once and the merge below [n] also enlarged [m]: the merged requirement
      demanded [g] of [m] although no contributor asked for it.  Now every mention of I gets its own copy and the merged
      requirement is the union {n: {f, g}, m: {f}}.  Both contributions are nested contributions ([ncontrib_b]): the
      theorems of section 4 of props/C09.v apply to this history. *)
Definition w_dag_t0 : types :=
  mktypes 1 [] [] [mkfunc [] None false]
    [mkif None [] [([102], KFunc (mkid 1 0))];
     mkif None [] [([110], KInstance (mkid 1 0)); ([109], KInstance (mkid 1 0))]] [] [].
Definition w_dag_t1 : types :=
  mktypes 2 [] [] [mkfunc [] None false]
    [mkif None [] [([103], KFunc (mkid 2 0))];
     mkif None [] [([110], KInstance (mkid 2 0))]] [] [].
Definition w_dag_t2 : types :=
  mktypes 3 [] [] [mkfunc [([120], VPrim PU8)] None false]
    [mkif None [] [([103], KFunc (mkid 3 0))];
     mkif None [] [([109], KInstance (mkid 3 0))]] [] [].
Definition foo : str := [102;111;111].
Definition w_dag : list (str * (types * kind)) :=
  [(foo, (w_dag_t0, KInstance (mkid 1 1))); (foo, (w_dag_t1, KInstance (mkid 2 1)))].
Definition w_dag3 : list (str * (types * kind)) := w_dag ++ [(foo, (w_dag_t2, KInstance (mkid 3 1)))].
Definition dag_col (t : types) : Prop := t = w_dag_t0 \/ t = w_dag_t1 \/ t = w_dag_t2.
Lemma dag_col_same t1 t2 : dag_col t1 -> dag_col t2 -> t_tag t1 = t_tag t2 -> t1 = t2.
Proof. intros [->|[->| ->]] [->|[->| ->]]; cbn; auto; discriminate. Qed.
Lemma dag_col_tag t : dag_col t -> t_tag t <> 0.
Proof. intros [->|[->| ->]]; cbn; discriminate. Qed.
Lemma w_dag3_nested : Forall (nested_contrib dag_col) w_dag3.
Proof.
  assert (OF : forall t, t_resources t = [] -> owner_free t) by (intros t E r H; rewrite E in H; contradiction).
  repeat constructor; apply (ncontrib_b_sound dag_col 4 3); cbn [fst snd]; try (apply OF; reflexivity);
    try (vm_compute; reflexivity); unfold dag_col; auto.
Qed.

Theorem shared_child_now_union :
  exists a s tm ta tb, run w_dag = inl (a, s) /\ merged_tree a foo = Some tm /\
    req_tree (nth 0 w_dag dflt) = Some ta /\ req_tree (nth 1 w_dag dflt) = Some tb /\ tmerge ta tb = Some tm /\
    tm = XInst [([110], XInst [([102], XFunc (mkft [] None false)); ([103], XFunc (mkft [] None false))]);
                ([109], XInst [([102], XFunc (mkft [] None false))])] /\
    sub_b tm ta = true /\ sub_b tm tb = true /\
    ncontrib_b 4 3 (nth 0 w_dag dflt) = true /\ ncontrib_b 4 3 (nth 1 w_dag dflt) = true.
Proof. eexists _, _, _, _, _. conj_vc. Qed.

(** ... and a third contribution {m: {g: func(x: u8)}}, which conflicts with nothing anybody required (the specification
    merges all three), is accepted in every order; the merged requirement is the specification's in both orders (before the
    repair the order 1,2,3 failed and 2,3,1 succeeded) *)
Theorem shared_child_order_independent :
  exists l' a s a' s' ta tb tc tab tabc, Permutation w_dag3 l' /\ run w_dag3 = inl (a, s) /\ run l' = inl (a', s') /\
    req_tree (nth 0 w_dag3 dflt) = Some ta /\ req_tree (nth 1 w_dag3 dflt) = Some tb /\ req_tree (nth 2 w_dag3 dflt) = Some tc /\
    tmerge ta tb = Some tab /\ tmerge tab tc = Some tabc /\ merged_tree a foo = Some tabc /\
    exists t', merged_tree a' foo = Some t' /\ sub_b t' tabc = true /\ sub_b tabc t' = true.
Proof.
  exists [nth 1 w_dag3 dflt; nth 2 w_dag3 dflt; nth 0 w_dag3 dflt]. eexists _, _, _, _, _, _, _, _, _.
  split; [unfold w_dag3, w_dag; cbn [app nth]; apply Permutation_cons_append|].
  repeat (match goal with |- _ /\ _ => split; [vm_compute; reflexivity|] end). eexists. conj_vc.
Qed.

(** * Refutation: sharing through the interface table.  A nested interface with an identifier is unified with the
      interface of that identifier already in the table: foo: {n: d{f}}, then bar: {n: d{g}} - both [n]s are ONE interface
      afterwards, so foo requires [g] below [n] although only bar asked for it (known finding
      interface-id-under-two-import-names, nested form). *)
Definition w_tab_t0 : types :=
  mktypes 1 [] [] [mkfunc [] None false]
    [mkif (Some [100]) [] [([102], KFunc (mkid 1 0))];
     mkif None [] [([110], KInstance (mkid 1 0))]] [] [].
Definition w_tab_t1 : types :=
  mktypes 2 [] [] [mkfunc [] None false]
    [mkif (Some [100]) [] [([103], KFunc (mkid 2 0))];
     mkif None [] [([110], KInstance (mkid 2 0))]] [] [].
Definition bar : str := [98;97;114].
Definition w_tab : list (str * (types * kind)) :=
  [(foo, (w_tab_t0, KInstance (mkid 1 1))); (bar, (w_tab_t1, KInstance (mkid 2 1)))].
Theorem table_shared_child_not_union :
  exists l a s tm ta, run l = inl (a, s) /\ length l = 2%nat /\ compat_spec_b (fst (nth 0 l dflt)) (fst (nth 1 l dflt)) = false /\
    merged_tree a (fst (nth 0 l dflt)) = Some tm /\ req_tree (nth 0 l dflt) = Some ta /\
    sub_b ta tm = false /\ sub_b tm ta = true.
Proof. exists w_tab. eexists _, _, _, _. conj_vc. Qed.
