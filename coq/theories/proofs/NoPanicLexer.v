(** C14, lexer part: [lex] is total in the strong sense -- with the fuel it gives itself it never
    produces the out-of-fuel item, the [unwrap] in [Lexer::comments] is unreachable, every token
    consumes at least one byte, every span (of a token or of the final error) lies inside the source on
    character boundaries, and the texts of string / package tokens have the shape the parser's
    [unwrap]s and slices rely on. *)
From WacV Require Import Str Token Lexer LexTables LexImpl LexerProofs LexerSound.
From Coq Require Import ZArith ZifyBool ZifyN Lia.
Local Open Scope nat_scope.

(* ------------------------------------------------------------------ spans inside the source *)

(** [n] is the byte offset of a character boundary of [src] (hence [n <= byte_len src]). *)
Definition boundary (src : str) (n : N) : Prop := exists pre post, src = pre ++ post /\ n = byte_len pre.

(** The property's span predicate: both ends on character boundaries of the source. *)
Definition span_ok (src : str) (sp : span) : Prop :=
  boundary src (off sp) /\ boundary src (off sp + slen sp)%N.

Lemma boundary_le src n : boundary src n -> (n <= byte_len src)%N.
Proof. intros (pre & post & -> & ->). rewrite byte_len_app. lia. Qed.

Lemma span_ok_in_bounds src sp : span_ok src sp -> (off sp + slen sp <= byte_len src)%N.
Proof. intros [_ H]. now apply boundary_le. Qed.

Lemma boundary_0 src : boundary src 0%N.
Proof. exists [], src. auto. Qed.

Lemma boundary_end src : boundary src (byte_len src).
Proof. exists src, []. now rewrite app_nil_r. Qed.

Lemma boundary_app src a b : src = a ++ b -> boundary src (byte_len a).
Proof. intros ->. now exists a, b. Qed.

(** A slice [mid] of the source starting after [pre] gives a good span. *)
Lemma span_ok_slice src pre mid post o l :
  src = pre ++ mid ++ post -> o = byte_len pre -> l = byte_len mid -> span_ok src {| off := o; slen := l |}.
Proof.
  intros -> -> ->. split; cbn [off slen].
  - now exists pre, (mid ++ post).
  - exists (pre ++ mid), post. rewrite <- app_assoc, byte_len_app. auto.
Qed.

(* ------------------------------------------------------------------ matching on numeric literals *)

(** Case analysis on a code point down to the depth of the numerals the lexer matches on. *)
Ltac numcase x tac :=
  let p := fresh "p" in
  destruct x as [|p]; [tac|];
  repeat (first [destruct p as [p|p|]]; try tac); try tac.

(* ------------------------------------------------------------------ doc-comment scanner: the unwrap is unreachable *)

Lemma doc_of_comment_line rest : doc_of_comment (47 :: 47 :: rest)%N <> None.
Proof.
  destruct rest as [|x t]; [cbn; discriminate|].
  numcase x ltac:(cbn; discriminate).
Qed.

Lemma strip_suffix2_app a b body : strip_suffix2 a b (body ++ [a; b]) = Some body.
Proof.
  unfold strip_suffix2. rewrite rev_app_distr. cbn [rev app]. rewrite !N.eqb_refl. cbn. now rewrite rev_involutive.
Qed.

Lemma doc_of_comment_block body : doc_of_comment (47 :: 42 :: body ++ [42; 47])%N <> None.
Proof.
  destruct body as [|x body]; [cbn; discriminate|].
  cbn [app].
  numcase x ltac:(cbn; discriminate).
  (* x = 42: a doc block comment `/** ... */` *)
  change (match body ++ [42; 47]%N with
          | [47%N] => Some None
          | _ => match strip_suffix2 c_star c_slash (body ++ [42; 47]%N) with
                 | Some b => Some (Some (trim b)) | None => None end
          end <> None).
  change [42; 47]%N with [c_star; c_slash]. rewrite strip_suffix2_app.
  destruct body as [|y body]; [cbn; discriminate|]. cbn [app].
  destruct body as [|z body]; cbn [app]; numcase y ltac:(cbn; discriminate).
Qed.

(** The text of a closed block comment ends in [*/]. *)
Lemma block_len_suffix : forall k s depth n,
  length s <= k -> block_len depth s = Some n -> exists pre, firstn n s = pre ++ [c_star; c_slash].
Proof.
  induction k as [|k IH]; intros s depth n Hk; destruct s as [|c r]; cbn [block_len]; try discriminate.
  { cbn in Hk. lia. }
  destruct r as [|c2 r2]; [discriminate|]. cbn [length] in Hk.
  destruct ((c =? c_slash)%N && (c2 =? c_star)%N) eqn:E1.
  - destruct (block_len (S depth) r2) as [m|] eqn:Em; [|discriminate]. intros H; inversion H; subst.
    destruct (IH r2 _ _ ltac:(lia) Em) as (pre & Hp). exists (c :: c2 :: pre). cbn [firstn app]. now rewrite Hp.
  - destruct ((c =? c_star)%N && (c2 =? c_slash)%N) eqn:E2.
    + destruct depth as [|d].
      * intros H; inversion H; subst. apply andb_true_iff in E2. destruct E2 as [Ea Eb].
        apply N.eqb_eq in Ea, Eb. subst. now exists [].
      * destruct (block_len d r2) as [m|] eqn:Em; [|discriminate]. intros H; inversion H; subst.
        destruct (IH r2 _ _ ltac:(lia) Em) as (pre & Hp). exists (c :: c2 :: pre). cbn [firstn app]. now rewrite Hp.
    + destruct (block_len depth (c2 :: r2)) as [m|] eqn:Em; [|discriminate]. intros H; inversion H; subst.
      destruct (IH (c2 :: r2) _ _ ltac:(cbn; lia) Em) as (pre & Hp). exists (c :: pre).
      change (firstn (S m) (c :: c2 :: r2)) with (c :: firstn m (c2 :: r2)). now rewrite Hp.
Qed.

Lemma block_comment_text r2 n :
  block_comment_length r2 = Some n ->
  exists body, firstn n (c_slash :: c_star :: r2) = c_slash :: c_star :: body ++ [c_star; c_slash].
Proof.
  unfold block_comment_length. destruct (block_len 0 r2) as [m|] eqn:E; [|discriminate].
  intros H; inversion H; subst. destruct (block_len_suffix _ _ _ _ (le_n _) E) as (pre & Hp).
  exists pre. cbn [firstn]. now rewrite Hp.
Qed.

Lemma push_doc_line alive docs rest o : push_doc alive docs (c_slash :: c_slash :: rest) o <> None.
Proof.
  unfold push_doc. destruct alive; [|discriminate].
  pose proof (doc_of_comment_line rest) as H. change (47 :: 47 :: rest)%N with (c_slash :: c_slash :: rest) in H.
  destruct (doc_of_comment (c_slash :: c_slash :: rest)) as [[d|]|]; try discriminate. congruence.
Qed.

Lemma push_doc_block alive docs body o :
  push_doc alive docs (c_slash :: c_star :: body ++ [c_star; c_slash]) o <> None.
Proof.
  unfold push_doc. destruct alive; [|discriminate].
  pose proof (doc_of_comment_block body) as H.
  change (47 :: 42 :: body ++ [42; 47])%N with (c_slash :: c_star :: body ++ [c_star; c_slash]) in H.
  destruct (doc_of_comment (c_slash :: c_star :: body ++ [c_star; c_slash])) as [[d|]|]; try discriminate. congruence.
Qed.

(* ------------------------------------------------------------------ skip_gap: enough fuel, no panic *)

Definition gap_fine (s : str) (g : gapres) : Prop :=
  match g with
  | GapOk _ s' _ => length s' <= length s
  | GapErr _ _ => True
  | GapPanic | GapFuel => False
  end.

Lemma skip_gap_fine fuel : forall o s alive docs, length s < fuel -> gap_fine s (skip_gap fuel o s alive docs).
Proof.
  induction fuel as [|f IH]; intros o s alive docs Hf; [lia|]. cbn [skip_gap].
  destruct s as [|c r]; [cbn; lia|]. cbn [length] in Hf.
  destruct (is_ws c).
  { specialize (IH (o + 1)%N r (alive && is_doc_ws c) docs ltac:(lia)).
    destruct (skip_gap f (o + 1) r (alive && is_doc_ws c) docs); cbn in *; auto; lia. }
  destruct (c =? c_slash)%N eqn:Esl; [|cbn; lia]. apply N.eqb_eq in Esl. subst c.
  destruct r as [|c2 r2]; [cbn; lia|]. cbn [length] in Hf.
  destruct (c2 =? c_slash)%N eqn:E2.
  { apply N.eqb_eq in E2. subst c2.
    set (n := run_len (fun x => negb (x =? c_nl)%N) r2).
    pose proof (push_doc_line alive docs (firstn n r2) o) as Hp.
    destruct (push_doc alive docs (c_slash :: c_slash :: firstn n r2) o) as [docs1|]; [|congruence].
    assert (Hl : length (skipn n r2) <= length r2) by (rewrite skipn_length; lia).
    specialize (IH (o + byte_len (c_slash :: c_slash :: firstn n r2))%N (skipn n r2) alive docs1 ltac:(lia)).
    destruct (skip_gap f _ (skipn n r2) alive docs1); cbn in *; auto; lia. }
  destruct (c2 =? c_star)%N eqn:E3; [|cbn; lia]. apply N.eqb_eq in E3. subst c2.
  destruct (block_comment_length r2) as [n|] eqn:Eb; [|exact I].
  destruct (block_comment_text _ _ Eb) as (body & Ht). rewrite Ht.
  pose proof (push_doc_block alive docs body o) as Hp.
  destruct (push_doc alive docs (c_slash :: c_star :: body ++ [c_star; c_slash]) o) as [docs1|]; [|congruence].
  assert (Hn : 0 < n).
  { unfold block_comment_length in Eb. destruct (block_len 0 r2); inversion Eb. lia. }
  assert (Hl : length (skipn n (c_slash :: c_star :: r2)) < length (c_slash :: c_star :: r2)).
  { rewrite skipn_length. cbn [length]. lia. }
  cbn [length] in Hl.
  specialize (IH (o + byte_len (c_slash :: c_star :: body ++ [c_star; c_slash]))%N
                 (skipn n (c_slash :: c_star :: r2)) alive docs1 ltac:(lia)).
  destruct (skip_gap f _ (skipn n (c_slash :: c_star :: r2)) alive docs1); cbn [gap_fine length] in *; auto; lia.
Qed.

(** Position and length of the one lexer error [skip_gap] can report. *)
Lemma skip_gap_err_span fuel : forall o s alive docs e sp,
  skip_gap fuel o s alive docs = GapErr e sp ->
  exists g rest, s = g ++ rest /\ off sp = (o + byte_len g)%N /\ slen sp = byte_len rest.
Proof.
  induction fuel as [|f IH]; intros o s alive docs e sp; cbn [skip_gap]; [discriminate|].
  destruct s as [|c r]; [discriminate|].
  destruct (is_ws c) eqn:Ews.
  { intros H. apply IH in H. destruct H as (g & rest & -> & Ho & Hl). exists (c :: g), rest. repeat split; auto.
    cbn [byte_len]. rewrite (is_ws_byte _ Ews). lia. }
  destruct (c =? c_slash)%N eqn:Esl; [|discriminate]. apply N.eqb_eq in Esl. subst c.
  destruct r as [|c2 r2]; [discriminate|].
  destruct (c2 =? c_slash)%N eqn:E2.
  { apply N.eqb_eq in E2. subst c2.
    set (n := run_len (fun x => negb (x =? c_nl)%N) r2).
    destruct (push_doc alive docs (c_slash :: c_slash :: firstn n r2) o) as [docs1|]; [|discriminate].
    intros H. apply IH in H. destruct H as (g & rest & Hs & Ho & Hl).
    exists (c_slash :: c_slash :: firstn n r2 ++ g), rest. repeat split; auto.
    - cbn [app]. do 2 f_equal. rewrite <- app_assoc, <- Hs. symmetry. apply firstn_skipn.
    - change (c_slash :: c_slash :: firstn n r2 ++ g) with ((c_slash :: c_slash :: firstn n r2) ++ g).
      rewrite byte_len_app. lia. }
  destruct (c2 =? c_star)%N eqn:E3; [|discriminate]. apply N.eqb_eq in E3. subst c2.
  destruct (block_comment_length r2) as [n|] eqn:Eb.
  - destruct (push_doc alive docs (firstn n (c_slash :: c_star :: r2)) o) as [docs1|]; [|discriminate].
    intros H. apply IH in H. destruct H as (g & rest & Hs & Ho & Hl).
    exists (firstn n (c_slash :: c_star :: r2) ++ g), rest. repeat split; auto.
    + rewrite <- app_assoc, <- Hs. symmetry. apply firstn_skipn.
    + rewrite byte_len_app. lia.
  - intros H; inversion H; subst. exists [], (c_slash :: c_star :: r2). repeat split; cbn; lia.
Qed.

(* ------------------------------------------------------------------ scan_token: shapes of results *)

Lemma find_char_split c : forall s n, find_char c s = Some n -> firstn (S n) s = firstn n s ++ [c].
Proof.
  induction s as [|x s IH]; intros n; cbn [find_char]; [discriminate|].
  destruct (x =? c)%N eqn:E.
  - intros H; inversion H; subst. apply N.eqb_eq in E. now subst.
  - destruct (find_char c s) as [m|]; [|discriminate]. intros H; inversion H; subst.
    change (firstn (S (S m)) (x :: s)) with (x :: firstn (S m) s).
    change (firstn (S m) (x :: s)) with (x :: firstn m s). rewrite (IH m eq_refl). reflexivity.
Qed.

Lemma find_char_In c : forall s, In c s -> find_char c s <> None.
Proof.
  induction s as [|x s IH]; intros Hin; [destruct Hin|]. cbn [find_char].
  destruct (x =? c)%N eqn:E; [discriminate|]. destruct Hin as [->|Hin]; [rewrite N.eqb_refl in E; discriminate|].
  specialize (IH Hin). destruct (find_char c s); [discriminate|congruence].
Qed.

(** A scan error sits on the first character and spans it (the unterminated string: its quote). *)
Lemma scan_token_err cfg fuel s e n :
  scan_token cfg fuel s = ScanErr e n -> s <> [] -> exists c r, s = c :: r /\ n = utf8_len c.
Proof.
  unfold scan_token. destruct s as [|c r]; [congruence|]. intros H _. exists c, r. split; [reflexivity|].
  destruct (c =? c_quote)%N eqn:Eq.
  { apply N.eqb_eq in Eq. subst c. destruct (find_char c_quote r); inversion H. reflexivity. }
  destruct (id_len (allow_upper cfg) (c :: r)) as [|n0].
  { destruct (best_symbol (symbols cfg) (c :: r)) as [[k m]|]; inversion H. reflexivity. }
  set (rest1 := skipn (S n0) (c :: r)) in *.
  destruct (head_is c_minus rest1).
  { destruct (q_pkgzone cfg && is_kw_prefix (firstn (S n0) (c :: r)) (keywords cfg)); [discriminate|].
    destruct (q_dash cfg); discriminate. }
  destruct (seg_loop fuel (allow_upper cfg) c_colon rest1) as [|m2].
  { destruct (head_is c_colon rest1 && q_kwcolon cfg); discriminate. }
  set (after := skipn (S n0 + S m2) (c :: r)) in *.
  destruct (q_pkgzone cfg && (head_is c_minus after || head_is c_colon after)); [discriminate|].
  destruct (seg_loop fuel (allow_upper cfg) c_slash after); discriminate.
Qed.

(** Token kinds that only the dedicated scanner branches may produce. *)
Definition special_kind (k : token) : bool :=
  match k with TString | TPackageName | TPackagePath => true | _ => false end.

Definition tables_sane (cfg : lexcfg) : bool :=
  forallb (fun p => negb (special_kind (snd p))) (keywords cfg ++ symbols cfg).

Lemma impl_tables_sane : tables_sane impl_cfg = true.
Proof. vm_compute. reflexivity. Qed.

Lemma lookup_str_in k tbl t : lookup_str k tbl = Some t -> In t (map snd tbl).
Proof.
  induction tbl as [|[x t'] tbl IH]; cbn; [discriminate|]. destruct (str_eqb x k).
  - intros H; inversion H. now left.
  - intros H. right. auto.
Qed.

Lemma best_symbol_in tbl s t n : best_symbol tbl s = Some (t, n) -> In t (map snd tbl).
Proof.
  revert t n. induction tbl as [|[x t'] tbl IH]; intros t n; cbn [best_symbol map snd In]; [discriminate|].
  destruct (starts_with x s && negb (is_nil_str x)).
  - destruct (best_symbol tbl s) as [[t2 n2]|] eqn:Eb.
    + destruct (length x <? n2).
      * intros H; inversion H; subst. right. eapply IH; eauto.
      * intros H; inversion H; subst. now left.
    + intros H; inversion H. now left.
  - intros H. right. eapply IH; eauto.
Qed.

Lemma sane_not_special cfg t :
  tables_sane cfg = true -> In t (map snd (keywords cfg)) \/ In t (map snd (symbols cfg)) -> special_kind t = false.
Proof.
  unfold tables_sane. rewrite forallb_forall. intros Hs Hin.
  assert (In t (map snd (keywords cfg ++ symbols cfg))) as Hi by (rewrite map_app; apply in_or_app; exact Hin).
  apply in_map_iff in Hi. destruct Hi as ([x t'] & <- & Hi). apply Hs in Hi. now apply negb_true_iff in Hi.
Qed.

Lemma seg_loop_head fuel au sep s m : seg_loop fuel au sep s = S m -> exists r, s = sep :: r.
Proof.
  destruct fuel as [|f]; cbn [seg_loop]; [discriminate|]. destruct s as [|c r]; [discriminate|].
  destruct (c =? sep)%N eqn:E; [|discriminate]. apply N.eqb_eq in E. subst. eauto.
Qed.

Lemma firstn_skipn_In {A} (x : A) n m l r : skipn n l = x :: r -> n < m -> In x (firstn m l).
Proof.
  revert m l. induction n as [|n IH]; intros m l Hs Hm.
  - cbn in Hs. subst l. destruct m; [lia|]. now left.
  - destruct l as [|y l]; [discriminate|]. destruct m as [|m]; [lia|]. cbn [firstn]. right.
    apply (IH m l); [exact Hs|lia].
Qed.

(* ------------------------------------------------------------------ package tokens are ASCII *)

Definition ascii (c : N) : Prop := (c < 128)%N.

Lemma lower_cont_ascii c : lower_cont c = true -> ascii c.
Proof. unfold lower_cont, is_lower, is_digit, ascii. lia. Qed.
Lemma upper_cont_ascii c : upper_cont c = true -> ascii c.
Proof. unfold upper_cont, is_upper, is_digit, ascii. lia. Qed.
Lemma is_lower_ascii c : is_lower c = true -> ascii c.
Proof. unfold is_lower, ascii. lia. Qed.
Lemma is_upper_ascii c : is_upper c = true -> ascii c.
Proof. unfold is_upper, ascii. lia. Qed.
Lemma semver_char_ascii c : semver_char c = true -> ascii c.
Proof. unfold semver_char, is_digit, is_alpha, is_upper, is_lower, ascii. lia. Qed.

Lemma id_tail_len_ascii au : forall k s up, length s <= k -> Forall ascii (firstn (id_tail_len au up s) s).
Proof.
  induction k as [|k IH]; intros s up Hk; destruct s as [|c r]; cbn [id_tail_len firstn]; try constructor.
  { cbn in Hk. lia. }
  cbn [length] in Hk.
  destruct (if up then upper_cont c else lower_cont c) eqn:Ec.
  { cbn [firstn]. constructor; [destruct up; [now apply upper_cont_ascii|now apply lower_cont_ascii]|]. apply IH. lia. }
  destruct (c =? c_minus)%N eqn:Em; [|constructor]. apply N.eqb_eq in Em. subst c.
  destruct r as [|c2 r2]; [constructor|]. cbn [length] in Hk.
  destruct (is_lower c2) eqn:El.
  { cbn [firstn]. constructor; [unfold ascii, c_minus; lia|]. constructor; [now apply is_lower_ascii|]. apply IH. lia. }
  destruct (au && is_upper c2) eqn:Eu; [|constructor].
  apply andb_true_iff in Eu. destruct Eu as [_ Eu].
  cbn [firstn]. constructor; [unfold ascii, c_minus; lia|]. constructor; [now apply is_upper_ascii|]. apply IH. lia.
Qed.

Lemma words_len_ascii au s : Forall ascii (firstn (words_len au s) s).
Proof.
  destruct s as [|c r]; cbn [words_len firstn]; [constructor|].
  destruct (is_lower c) eqn:El.
  { cbn [firstn]. constructor; [now apply is_lower_ascii|]. eapply id_tail_len_ascii. apply le_n. }
  destruct (au && is_upper c) eqn:Eu; [|constructor]. apply andb_true_iff in Eu. destruct Eu as [_ Eu].
  cbn [firstn]. constructor; [now apply is_upper_ascii|]. eapply id_tail_len_ascii. apply le_n.
Qed.

Lemma id_len_ascii au s : Forall ascii (firstn (id_len au s) s).
Proof.
  destruct s as [|c r]; cbn [id_len firstn]; [constructor|]. destruct (c =? c_percent)%N eqn:E.
  - apply N.eqb_eq in E. subst c. pose proof (words_len_ascii au r) as H.
    destruct (words_len au r) as [|n]; [constructor|]. cbn [firstn]. constructor; [unfold ascii, c_percent; lia|exact H].
  - apply (words_len_ascii au (c :: r)).
Qed.

Lemma firstn_add {A} a b (l : list A) : firstn (a + b) l = firstn a l ++ firstn b (skipn a l).
Proof.
  revert l. induction a as [|a IH]; intros l; [reflexivity|]. destruct l as [|x l]; cbn [plus firstn skipn app].
  - now rewrite firstn_nil.
  - now rewrite IH.
Qed.

Lemma seg_loop_ascii fuel au sep : ascii sep -> forall s, Forall ascii (firstn (seg_loop fuel au sep s) s).
Proof.
  intros Hsep. induction fuel as [|f IH]; intros s; cbn [seg_loop]; [constructor|].
  destruct s as [|c r]; [constructor|]. destruct (c =? sep)%N eqn:E; [|constructor]. apply N.eqb_eq in E. subst c.
  pose proof (id_len_ascii au r) as Hid. destruct (id_len au r) as [|n]; [constructor|].
  change (S (S n) + seg_loop f au sep (skipn (S n) r)) with (S (S n + seg_loop f au sep (skipn (S n) r))).
  cbn [firstn]. constructor; [exact Hsep|]. rewrite firstn_add. apply Forall_app. split; [exact Hid|apply IH].
Qed.

Lemma run_len_digit_ascii s : Forall ascii (firstn (run_len is_digit s) s).
Proof.
  induction s as [|c s IH]; cbn [run_len firstn]; [constructor|]. destruct (is_digit c) eqn:E; [|constructor].
  cbn [firstn]. constructor; [unfold is_digit, ascii in *; lia|exact IH].
Qed.

Lemma semver_rest_ascii : forall k s ing, length s <= k -> Forall ascii (firstn (semver_rest ing s) s).
Proof.
  induction k as [|k IH]; intros s ing Hk; destruct s as [|c r]; cbn [semver_rest firstn]; try constructor.
  { cbn in Hk. lia. }
  cbn [length] in Hk.
  destruct (ing && semver_char c) eqn:E1.
  { apply andb_true_iff in E1. destruct E1 as [_ E1]. cbn [firstn].
    constructor; [now apply semver_char_ascii|]. apply IH. lia. }
  destruct (c =? c_period)%N eqn:Ep; [|constructor]. apply N.eqb_eq in Ep. subst c.
  destruct r as [|c2 r2]; [constructor|]. cbn [length] in Hk.
  destruct (semver_char c2) eqn:E2; [|constructor]. cbn [firstn].
  constructor; [unfold ascii, c_period; lia|]. constructor; [now apply semver_char_ascii|]. apply IH. lia.
Qed.

Lemma semver_len_ascii s : Forall ascii (firstn (semver_len s) s).
Proof.
  unfold semver_len. pose proof (run_len_digit_ascii s) as Hd.
  destruct (run_len is_digit s) as [|dd]; [constructor|]. rewrite firstn_add. apply Forall_app. split; [exact Hd|].
  eapply semver_rest_ascii. apply le_n.
Qed.

Lemma version_tail_len_ascii s : Forall ascii (firstn (version_tail_len s) s).
Proof.
  destruct s as [|c r]; cbn [version_tail_len firstn]; [constructor|]. destruct (c =? c_atsign)%N eqn:E; [|constructor].
  apply N.eqb_eq in E. subst c. pose proof (semver_len_ascii r) as H.
  destruct (semver_len r) as [|n]; [constructor|]. cbn [firstn]. constructor; [unfold ascii, c_atsign; lia|exact H].
Qed.

(** For ASCII text, character index = byte offset. *)
Lemma byte_len_ascii s : Forall ascii s -> byte_len s = N.of_nat (length s).
Proof.
  induction 1 as [|c s Hc _ IH]; [reflexivity|]. cbn [byte_len length]. rewrite IH.
  unfold utf8_len. unfold ascii in Hc. apply N.ltb_lt in Hc. rewrite Hc. lia.
Qed.

(** The shape facts the parser's [unwrap]s, slices and span arithmetic rely on. *)
Definition text_shape (k : token) (text : str) : Prop :=
  match k with
  | TString => exists body, text = c_quote :: body ++ [c_quote]
  | TPackageName => Forall ascii text
  | TPackagePath => find_char c_slash text <> None /\ Forall ascii text
  | _ => True
  end.

Lemma scan_token_shape cfg fuel s k n :
  tables_sane cfg = true -> scan_token cfg fuel s = ScanTok k n -> text_shape k (firstn n s).
Proof.
  intros Hsane. unfold scan_token. destruct s as [|c r]; [discriminate|].
  destruct (c =? c_quote)%N eqn:Eq.
  { apply N.eqb_eq in Eq. subst c. destruct (find_char c_quote r) as [m|] eqn:Ef; [|discriminate].
    intros H; inversion H; subst. cbn [text_shape]. exists (firstn m r).
    change (firstn (S (S m)) (c_quote :: r)) with (c_quote :: firstn (S m) r). now rewrite (find_char_split _ _ _ Ef). }
  assert (Hkw : forall key, special_kind (match lookup_str key (keywords cfg) with Some k0 => k0 | None => TIdent end) = false).
  { intros key. destruct (lookup_str key (keywords cfg)) as [k0|] eqn:El; [|reflexivity].
    eapply sane_not_special; eauto. left. eapply lookup_str_in; eauto. }
  assert (Hns : forall k0 txt, special_kind k0 = false -> text_shape k0 txt).
  { intros k0 txt. destruct k0; cbn; try discriminate; auto. }
  pose proof (id_len_ascii (allow_upper cfg) (c :: r)) as Ha1.
  destruct (id_len (allow_upper cfg) (c :: r)) as [|n0] eqn:Eid.
  { destruct (best_symbol (symbols cfg) (c :: r)) as [[k' n']|] eqn:Eb; [|discriminate].
    intros H; inversion H; subst. apply Hns. eapply sane_not_special; eauto. right. eapply best_symbol_in; eauto. }
  set (rest1 := skipn (S n0) (c :: r)) in *.
  destruct (head_is c_minus rest1).
  { destruct (q_pkgzone cfg && is_kw_prefix (firstn (S n0) (c :: r)) (keywords cfg)); [discriminate|].
    destruct (q_dash cfg); intros H; inversion H; subst; [exact I|]. apply Hns, Hkw. }
  pose proof (seg_loop_ascii fuel (allow_upper cfg) c_colon ltac:(unfold ascii, c_colon; lia) rest1) as Ha2.
  destruct (seg_loop fuel (allow_upper cfg) c_colon rest1) as [|m2] eqn:Es2.
  { destruct (head_is c_colon rest1 && q_kwcolon cfg); intros H; inversion H; subst; [exact I|]. apply Hns, Hkw. }
  set (pkg := S n0 + S m2) in *. set (after := skipn pkg (c :: r)) in *.
  assert (Hpkg : Forall ascii (firstn pkg (c :: r))).
  { unfold pkg. rewrite firstn_add. apply Forall_app. split; [exact Ha1|exact Ha2]. }
  destruct (q_pkgzone cfg && (head_is c_minus after || head_is c_colon after)); [discriminate|].
  pose proof (seg_loop_ascii fuel (allow_upper cfg) c_slash ltac:(unfold ascii, c_slash; lia) after) as Ha3.
  assert (Hname : Forall ascii (firstn (pkg + version_tail_len after) (c :: r))).
  { rewrite firstn_add. apply Forall_app. split; [exact Hpkg|]. apply version_tail_len_ascii. }
  destruct (seg_loop fuel (allow_upper cfg) c_slash after) as [|m3] eqn:Es3.
  - intros H; injection H as <- <-. exact Hname.
  - assert (Hpath : Forall ascii (firstn (pkg + S m3 + version_tail_len (skipn (pkg + S m3) (c :: r))) (c :: r))).
    { rewrite firstn_add. apply Forall_app. split; [|apply version_tail_len_ascii].
      rewrite firstn_add. apply Forall_app. split; [exact Hpkg|exact Ha3]. }
    assert (Hslash : forall m, pkg < m -> find_char c_slash (firstn m (c :: r)) <> None).
    { intros m Hm. apply find_char_In. destruct (seg_loop_head _ _ _ _ _ Es3) as (rr & Hr). unfold after in Hr.
      eapply firstn_skipn_In; [exact Hr|exact Hm]. }
    intros H; injection H as <- <-. split; [apply Hslash; lia|exact Hpath].
Qed.

(* ------------------------------------------------------------------ the token stream *)

(** What the parser may assume about an item of the stream: a token's text is the slice of the
    source at its span, it is not empty, it has the shape of its kind, and the doc comments attached to
    it carry good spans. *)
Definition item_wf (src : str) (it : lexitem) : Prop :=
  match it with
  | LTok t => (exists a b, src = a ++ ttext t ++ b /\ off (tsp t) = byte_len a) /\
              slen (tsp t) = byte_len (ttext t) /\ ttext t <> [] /\ text_shape (tk t) (ttext t) /\
              Forall (span_ok src) (map snd (tdocs t))
  | LErr _ sp => span_ok src sp
  | LUnmodelled _ => True
  | LPanic | LFuel => False
  end.

Lemma utf8_len_pos c : (0 < utf8_len c)%N.
Proof. unfold utf8_len. destruct (c <? 128)%N, (c <? 2048)%N, (c <? 65536)%N; lia. Qed.

Lemma byte_len_pos s : s <> [] -> (0 < byte_len s)%N.
Proof. destruct s as [|c s]; [congruence|]. intros _. cbn [byte_len]. pose proof (utf8_len_pos c). lia. Qed.

Lemma item_wf_span src t : item_wf src (LTok t) -> span_ok src (tsp t).
Proof.
  intros ((a & b & Hs & Ho) & Hl & _). destruct (tsp t) as [o l]. cbn [off slen] in *.
  eapply span_ok_slice; eauto.
Qed.

Lemma item_wf_progress src t : item_wf src (LTok t) -> (0 < slen (tsp t))%N.
Proof. intros (_ & Hl & Hne & _). rewrite Hl. now apply byte_len_pos. Qed.

Lemma push_doc_ok src alive docs text o docs1 pre post :
  src = pre ++ text ++ post -> o = byte_len pre -> Forall (span_ok src) (map snd docs) ->
  push_doc alive docs text o = Some docs1 -> Forall (span_ok src) (map snd docs1).
Proof.
  intros Hs Ho Hd. unfold push_doc. destruct alive; [|intros H; now inversion H; subst].
  destruct (doc_of_comment text) as [[d|]|]; intros H; inversion H; subst; auto.
  rewrite map_app. apply Forall_app. split; [exact Hd|]. constructor; [|constructor]. cbn [snd].
  eapply span_ok_slice; eauto.
Qed.

Lemma skip_gap_docs src fuel : forall o s alive docs pre o' s' docs',
  src = pre ++ s -> o = byte_len pre -> Forall (span_ok src) (map snd docs) ->
  skip_gap fuel o s alive docs = GapOk o' s' docs' -> Forall (span_ok src) (map snd docs').
Proof.
  induction fuel as [|f IH]; intros o s alive docs pre o' s' docs' Hsrc Ho Hd; cbn [skip_gap]; [discriminate|].
  destruct s as [|c r]; [intros H; now inversion H; subst|].
  destruct (is_ws c) eqn:Ews.
  { apply (IH _ _ _ _ (pre ++ [c])); auto.
    - now rewrite <- app_assoc.
    - rewrite byte_len_app. cbn [byte_len]. rewrite (is_ws_byte _ Ews). lia. }
  destruct (c =? c_slash)%N eqn:Esl; [|intros H; now inversion H; subst]. apply N.eqb_eq in Esl. subst c.
  destruct r as [|c2 r2]; [intros H; now inversion H; subst|].
  destruct (c2 =? c_slash)%N eqn:E2.
  { apply N.eqb_eq in E2. subst c2.
    set (n := run_len (fun x => negb (x =? c_nl)%N) r2).
    set (text := c_slash :: c_slash :: firstn n r2).
    assert (Hsplit : c_slash :: c_slash :: r2 = text ++ skipn n r2).
    { unfold text. cbn [app]. now rewrite firstn_skipn. }
    destruct (push_doc alive docs text o) as [docs1|] eqn:Ep; [|discriminate].
    apply (IH _ _ _ _ (pre ++ text)).
    - now rewrite Hsrc, Hsplit, <- app_assoc.
    - rewrite byte_len_app. lia.
    - eapply push_doc_ok; [| |exact Hd|exact Ep]; [rewrite Hsrc, Hsplit; reflexivity|exact Ho]. }
  destruct (c2 =? c_star)%N eqn:E3; [|intros H; now inversion H; subst]. apply N.eqb_eq in E3. subst c2.
  destruct (block_comment_length r2) as [n|] eqn:Eb; [|discriminate].
  set (text := firstn n (c_slash :: c_star :: r2)).
  assert (Hsplit : c_slash :: c_star :: r2 = text ++ skipn n (c_slash :: c_star :: r2)).
  { unfold text. now rewrite firstn_skipn. }
  destruct (push_doc alive docs text o) as [docs1|] eqn:Ep; [|discriminate].
  apply (IH _ _ _ _ (pre ++ text)).
  - now rewrite Hsrc, Hsplit at 1; rewrite <- app_assoc.
  - rewrite byte_len_app. lia.
  - eapply push_doc_ok; [| |exact Hd|exact Ep]; [rewrite Hsrc, Hsplit at 1; reflexivity|exact Ho].
Qed.

Lemma lex_loop_wf cfg (Hsane : tables_sane cfg = true) src fuel : forall o s pre,
  src = pre ++ s -> o = byte_len pre -> length s < fuel -> Forall (item_wf src) (lex_loop fuel cfg o s).
Proof.
  induction fuel as [|f IH]; intros o s pre Hsrc Ho Hf; [lia|]. cbn [lex_loop].
  pose proof (skip_gap_fine (S f) o s true [] Hf) as Hfine.
  destruct (skip_gap (S f) o s true []) as [o1 s1 docs|e sp| |] eqn:Eg; cbn [gap_fine] in Hfine; try contradiction.
  - pose proof (skip_gap_docs src _ _ _ _ [] pre _ _ _ Hsrc Ho (Forall_nil _) Eg) as Hdocs.
    apply skip_gap_ok in Eg. destruct Eg as (g & -> & _ & ->).
    destruct s1 as [|c1 r1]; [constructor|].
    destruct (scan_token cfg (S f) (c1 :: r1)) as [k n|e n|] eqn:Es.
    + pose proof (scan_token_bound _ _ _ _ _ Es) as [Hn1 Hn2].
      pose proof (scan_token_shape _ _ _ _ _ Hsane Es) as Hshape.
      set (text := firstn n (c1 :: r1)) in *. set (rest := skipn n (c1 :: r1)).
      assert (Hsplit : c1 :: r1 = text ++ rest) by (symmetry; apply firstn_skipn).
      assert (Hne : text <> []) by (unfold text; destruct n; [lia|discriminate]).
      constructor.
      * cbn [item_wf tsp tk ttext tdocs off slen]. repeat split; auto.
        exists (pre ++ g), rest. rewrite Hsrc, Hsplit, byte_len_app, <- !app_assoc. split; [reflexivity|lia].
      * apply (IH _ _ ((pre ++ g) ++ text)).
        -- rewrite Hsrc, Hsplit, <- !app_assoc. reflexivity.
        -- rewrite !byte_len_app. lia.
        -- unfold rest. rewrite skipn_length. rewrite app_length in Hf. cbn [length] in *. lia.
    + destruct (scan_token_err _ _ _ _ _ Es ltac:(discriminate)) as (c & r & Hcr & ->). inversion Hcr; subst c r.
      constructor; [|constructor]. cbn [item_wf].
      apply (span_ok_slice _ (pre ++ g) [c1] r1); [now rewrite Hsrc, <- app_assoc|rewrite byte_len_app; lia|cbn; lia].
    + constructor; [exact I|constructor].
  - apply skip_gap_err_span in Eg. destruct Eg as (g & rest & -> & Hoff & Hlen).
    constructor; [|constructor]. cbn [item_wf]. destruct sp as [so sl]. cbn [off slen] in *.
    apply (span_ok_slice _ (pre ++ g) rest []); [now rewrite Hsrc, app_nil_r, <- app_assoc|rewrite byte_len_app; lia|auto].
Qed.

(** [lexer_total]: for every source the lexer returns a finite stream of well-formed items: tokens
    (each consuming at least one byte, inside the source, on character boundaries, of the shape the
    parser relies on), possibly ended by ONE lexer error whose span has the same properties (or by
    the not-modelled marker) -- never the panic item, never the out-of-fuel item. *)
Lemma lex_wf cfg src : tables_sane cfg = true -> Forall (item_wf src) (lex cfg src).
Proof.
  intros Hsane. unfold lex. destruct (screen cfg src) as [[e sp]|] eqn:Es.
  - constructor; [|constructor]. cbn [item_wf]. unfold screen in Es.
    apply screen_from_some in Es. destruct Es as (pre & c & post & -> & _ & _ & ->).
    apply (span_ok_slice _ pre [c] post); auto; cbn; lia.
  - apply (lex_loop_wf cfg Hsane src _ 0%N src []); auto.
Qed.

(** Errors and the not-modelled marker only ever END the stream. *)
Lemma lex_loop_stops fuel cfg : forall o s pre it post,
  lex_loop fuel cfg o s = pre ++ it :: post -> post <> [] -> exists t, it = LTok t.
Proof.
  induction fuel as [|f IH]; intros o s pre it post; cbn [lex_loop].
  { destruct pre as [|x pre]; cbn; intros H; inversion H; [congruence|]. destruct pre; discriminate. }
  assert (Hone : forall x : lexitem, [x] = pre ++ it :: post -> post <> [] -> exists t, it = LTok t).
  { intros x H Hp. destruct pre as [|y pre]; cbn in H; inversion H; [congruence|]. destruct pre; discriminate. }
  destruct (skip_gap (S f) o s true []) as [o1 s1 docs|e sp| |]; try apply Hone.
  destruct s1 as [|c1 r1]; [destruct pre; discriminate|].
  destruct (scan_token cfg (S f) (c1 :: r1)) as [k n|e n|]; try apply Hone.
  destruct pre as [|x pre]; cbn [app]; intros H Hp; inversion H; subst; eauto.
Qed.
