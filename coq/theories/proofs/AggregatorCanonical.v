(** The aggregator's name bookkeeping follows [NStep]; consequences for whole aggregation histories. *)
From WacV Require Import Str Ord Semver Names NamesSpec Types Checker Aggregator AggregatorSpec.
From WacV Require Import SemverProofs SemverText NamesProofs CheckerEq AggregatorNames AggregatorFrame.

Lemma find_on_track_some {V} ak (l : list (str * V)) n v :
  find_on_track ak l = Some (n, v) -> In (n, v) l /\ exists ver, alt_key n = Some (ak, ver).
Proof.
  induction l as [|[n' v'] l IH]; cbn [find_on_track]; [discriminate|].
  destruct (alt_key n') as [[k ver]|] eqn:A.
  - destruct (str_eqb k ak) eqn:E.
    + intros H. injection H as <- <-. apply str_eqb_eq in E. subst k. split; [now left | eauto].
    + intros H. apply IH in H as [H1 H2]. split; [now right | auto].
  - intros H. apply IH in H as [H1 H2]. split; [now right | auto].
Qed.
Lemma find_on_track_none {V} ak (l : list (str * V)) :
  find_on_track ak l = None -> forall n v k ver, In (n, v) l -> alt_key n = Some (k, ver) -> k <> ak.
Proof.
  induction l as [|[n' v'] l IH]; cbn [find_on_track]; intros H n v k ver Hin A; [contradiction|].
  destruct Hin as [E|Hin].
  - injection E as -> ->. rewrite A in H. destruct (str_eqb k ak) eqn:E; [discriminate|]. now apply str_eqb_neq.
  - destruct (alt_key n') as [[k' ver']|]; [destruct (str_eqb k' ak); [discriminate|]|]; eapply IH; eauto.
Qed.

Lemma in_keys_assoc {V} k (l : list (str * V)) : In k (map fst l) -> exists v, assoc k l = Some v.
Proof.
  intros H. destruct (assoc k l) eqn:E; eauto. apply assoc_none_keys in E. contradiction.
Qed.

Section Step.
  Variable ord : list (str * id) -> list (str * id).
  Variable cf : nat.

  Lemma aggregate_NStep fuel a s name t k a' s' :
    owner_free t -> NoDup (map fst (a_imports a)) ->
    aggregate ord cf fuel a s name t k = AOk (a', s') ->
    NStep (map fst (a_imports a)) (a_redirects a) name (map fst (a_imports a')) (a_redirects a').
  Proof.
    intros OF ND. unfold aggregate.
    destruct (assoc name (a_imports a)) as [existing|] eqn:Ea.
    - (* exact name *)
      destruct (merge_item_kind ord cf fuel existing t k (core_of a s)) as [[u c]| | |] eqn:Em; try discriminate.
      intros H. injection H as <- <-. cbn [a_imports a_redirects agg_of].
      pose proof (si_merge_item_kind ord cf t OF fuel existing k _ _ _ Em) as Hc. unfold same_imports in Hc.
      cbn [core_of c_imports] in Hc. rewrite Hc.
      apply NS_exact. eapply assoc_in_keys; eauto.
    - assert (Hnin : ~ In name (map fst (a_imports a))) by now apply assoc_none_keys.
      destruct (find_compat name (a_imports a)) as [[en ek]|] eqn:Ef.
      + (* a semver-compatible import *)
        destruct (merge_item_kind ord cf fuel ek t k (core_of a s)) as [[u c]| | |] eqn:Em; try discriminate.
        pose proof (si_merge_item_kind ord cf t OF fuel ek k _ _ _ Em) as Hc. unfold same_imports in Hc. cbn [core_of c_imports] in Hc.
        rewrite Hc. unfold find_compat in Ef. destruct (alt_key name) as [[ak nv]|] eqn:An; [|discriminate].
        apply find_on_track_some in Ef as [Hin [ev Ae]].
        unfold rename. rewrite An, Ae.
        assert (Hen : In en (map fst (a_imports a))) by (apply (in_map fst) in Hin; exact Hin).
        destruct (version_gtb nv ev) eqn:Hv.
        * destruct (assoc en (a_imports a)) as [mk|] eqn:Eme; [|discriminate].
          intros H. injection H as <- <-. cbn [a_imports a_redirects agg_of].
          assert (Hnr : assoc name (rem en (a_imports a)) = None).
          { apply assoc_none_keys. intros X. apply in_keys_rem in X; auto. tauto. }
          rewrite (keys_ins_new _ _ _ Hnr).
          eapply (NS_high _ _ _ en ak nv ev); eauto.
          -- apply NoDup_app_one_tail; [now apply nodup_keys_rem|]. intros X. apply in_keys_rem in X; auto. tauto.
          -- intros x. rewrite in_app_iff, in_keys_rem by auto. cbn [In]. intuition.
        * intros H. injection H as <- <-. cbn [a_imports a_redirects agg_of].
          eapply (NS_low _ _ _ en ak nv ev); eauto.
      + (* a new import *)
        destruct (remap_item_kind ord cf fuel t k (core_of a s)) as [[k' c]| | |] eqn:Em; try discriminate.
        pose proof (si_remap_item_kind ord cf t OF fuel k _ _ _ Em) as Hc. unfold same_imports in Hc. cbn [core_of c_imports] in Hc.
        rewrite Hc. destruct (has_key name (a_imports a)); [discriminate|].
        intros H. injection H as <- <-. cbn [a_imports a_redirects agg_of].
        rewrite (keys_ins_new _ _ _ Ea). apply NS_new; auto.
        intros e He [ak [nv [ev [An Ae]]]]. unfold find_compat in Ef. rewrite An in Ef.
        apply in_keys_assoc in He as [v Hv]. apply assoc_in in Hv.
        now apply (find_on_track_none _ _ Ef e v ak ev Hv Ae).
  Qed.

  Lemma aggregate_all_inv fuel : forall l a s pos a' s' names,
    Forall (fun c : str * (types * kind) => owner_free (fst (snd c))) l ->
    NInv (map fst (a_imports a)) (a_redirects a) names ->
    aggregate_all ord cf fuel a s l pos = inl (a', s') ->
    NInv (map fst (a_imports a')) (a_redirects a') (rev (map fst l) ++ names).
  Proof.
    induction l as [|[name [t k]] l IH]; intros a s pos a' s' names HF I; cbn [aggregate_all].
    - intros H. injection H as <- <-. exact I.
    - inversion HF as [|? ? OF HF']; subst. cbn [fst snd] in OF.
      destruct (aggregate ord cf fuel a s name t k) as [[a1 s1]| | |] eqn:E; try discriminate.
      intros H. apply aggregate_NStep in E; auto; [|apply (ni_nodup _ _ _ I)].
      pose proof (NStep_preserves _ _ _ _ _ _ I E) as I1.
      specialize (IH _ _ _ _ _ _ HF' I1 H). cbn [map fst rev]. now rewrite <- app_assoc.
  Qed.

  (** one step leaves names of other tracks alone *)
  Lemma aggregate_other_tracks fuel a s name t k a' s' names m :
    owner_free t -> NInv (map fst (a_imports a)) (a_redirects a) names ->
    aggregate ord cf fuel a s name t k = AOk (a', s') ->
    compat m name = false -> Aggregator.canonical a' m = Aggregator.canonical a m.
  Proof.
    intros OF I E C. apply aggregate_NStep in E; auto; [|apply (ni_nodup _ _ _ I)].
    exact (NStep_other_tracks _ _ _ _ _ _ m I E C).
  Qed.
End Step.

(** * Whole histories, from the empty aggregator *)
Section History.
  Variable ord : list (str * id) -> list (str * id).
  Variables (cf fuel : nat) (tag : N).
  Variable l : list (str * (types * kind)).
  Variables (a : agg) (s : st).
  Hypothesis OFl : Forall (fun c : str * (types * kind) => owner_free (fst (snd c))) l.
  Hypothesis Hrun : aggregate_all ord cf fuel (agg0 tag) st0 l 0 = inl (a, s).

  Let names := map fst l.

  Lemma history_inv : NInv (map fst (imports a)) (a_redirects a) (rev names).
  Proof.
    pose proof (aggregate_all_inv ord cf fuel l (agg0 tag) st0 0 a s [] OFl NInv_nil Hrun) as H.
    now rewrite app_nil_r in H.
  Qed.

  Lemma in_names n : In n names <-> In n (rev names).
  Proof. apply in_rev. Qed.

  Lemma compat_b n m : compat n m = compat_spec_b n m.
  Proof. apply compat_is_spec_b. Qed.

  Theorem history_canonical_is_highest n : In n names ->
    In (Aggregator.canonical a n) names /\ compat_spec_b n (Aggregator.canonical a n) = true /\
    (forall m, In m names -> compat_spec_b n m = true -> higher m (Aggregator.canonical a n) = false) /\
    (forall m, In m names -> compat_spec_b n m = true -> Aggregator.canonical a m = Aggregator.canonical a n).
  Proof.
    intros Hn. apply in_names in Hn. destruct (inv_highest _ _ _ history_inv n Hn) as [H1 [H2 H3]].
    repeat split.
    - now apply in_names.
    - now rewrite <- compat_b.
    - intros m Hm C. apply H3; [now apply in_names | now rewrite compat_b].
    - intros m Hm C. symmetry. apply (inv_one _ _ _ history_inv); auto; [now apply in_names | now rewrite compat_b].
  Qed.

  Theorem history_redirects_total n : In n names -> In (Aggregator.canonical a n) (map fst (imports a)).
  Proof. intros Hn. apply (inv_total _ _ _ history_inv). now apply in_names. Qed.

  Theorem history_canonical_idempotent n : Aggregator.canonical a (Aggregator.canonical a n) = Aggregator.canonical a n.
  Proof. apply (inv_idempotent _ _ _ history_inv). Qed.

  (** at most one import per track *)
  Theorem history_one_import_per_track k1 k2 :
    In k1 (map fst (imports a)) -> In k2 (map fst (imports a)) -> compat_spec_b k1 k2 = true -> k1 = k2.
  Proof. intros H1 H2 C. apply (ni_one _ _ _ history_inv); auto. now rewrite compat_b. Qed.

  Theorem history_imports_contributed k : In k (map fst (imports a)) -> In k names /\ Aggregator.canonical a k = k.
  Proof.
    intros H. split.
    - apply in_names. now apply (ni_contrib _ _ _ history_inv).
    - unfold Aggregator.canonical. destruct (assoc k (a_redirects a)) eqn:E; auto.
      apply (ni_rd _ _ _ history_inv) in E. unfold imports in H. tauto.
  Qed.
End History.

(** * The executable specification [spec_canonical] computes the canonical name *)
Lemma higher_versions m b : higher m b = true -> exists vm vb, version_of m = Some vm /\ version_of b = Some vb /\ version_gt vm vb = true.
Proof. unfold higher. destruct (version_of m) as [vm|], (version_of b) as [vb|]; try discriminate. eauto. Qed.
Lemma version_gt_trans a b c : version_gt a b = true -> version_gt b c = true -> version_gt a c = true.
Proof.
  unfold version_gt. pose proof cmp_version_total as T.
  destruct (cmp_version a b) eqn:E1; try discriminate. destruct (cmp_version b c) eqn:E2; try discriminate. intros _ _.
  apply (total_gt_lt _ T) in E1, E2. pose proof (tc_trans _ T _ _ _ E2 E1) as E3.
  apply (total_gt_lt _ T) in E3. now rewrite E3.
Qed.
Lemma higher_trans a b c : higher a b = true -> higher b c = true -> higher a c = true.
Proof.
  intros H1 H2. apply higher_versions in H1 as [va [vb [Ea [Eb G1]]]]. apply higher_versions in H2 as [vb' [vc [Eb' [Ec G2]]]].
  unfold higher. rewrite Ea, Ec. assert (vb' = vb) by congruence. subst vb'. eapply version_gt_trans; eauto.
Qed.
Lemma higher_trans_neg a b c : higher a b = false -> higher c b = true -> higher a c = false.
Proof.
  intros H1 H2. apply higher_versions in H2 as [vc [vb [Ec [Eb G]]]]. unfold higher in *. rewrite Eb in H1. rewrite Ec.
  destruct (version_of a) as [va|]; auto. eapply not_gt_trans; eauto.
Qed.

Section SpecCanonical.
  Variable n : str.
  Let f (best m : str) : str := if same_track n m && higher m best then m else best.

  Lemma spec_fold_inv : forall l best,
    let c := fold_left f l best in
    (c = best \/ (In c l /\ same_track n c = true /\ higher c best = true)) /\
    (forall m, In m l -> same_track n m = true -> higher m c = false) /\
    (forall x, higher x best = false -> higher x c = false).
  Proof.
    induction l as [|m r IH]; intros best; cbn [fold_left].
    - split; [now left|]. split; [intros ? []|auto].
    - destruct (IH (f best m)) as [A [B C]]. set (c := fold_left f r (f best m)) in *.
      assert (Hdom : forall x, higher x best = false -> higher x (f best m) = false).
      { intros x Hx. unfold f. destruct (same_track n m && higher m best) eqn:E; auto.
        apply andb_true_iff in E as [_ E]. eapply higher_trans_neg; eauto. }
      split; [|split].
      + destruct A as [A|[A1 [A2 A3]]].
        * unfold f in A. destruct (same_track n m && higher m best) eqn:E; [|now left].
          apply andb_true_iff in E as [E1 E2]. right. rewrite A. cbn [In]. auto.
        * right. split; [now right|]. split; auto. unfold f in A3.
          destruct (same_track n m && higher m best) eqn:E; auto. apply andb_true_iff in E as [_ E]. eapply higher_trans; eauto.
      + intros m' [<-|Hm'] Ht; [|now apply B]. apply C. unfold f. rewrite Ht. cbn [andb].
        destruct (higher m best) eqn:E; [apply higher_irrefl|exact E].
      + intros x Hx. apply C. now apply Hdom.
  Qed.

  Lemma spec_canonical_props names :
    let c := spec_canonical names n in
    (c = n \/ (In c names /\ same_track n c = true)) /\
    (forall m, In m names -> same_track n m = true -> higher m c = false).
  Proof.
    destruct (spec_fold_inv names n) as [A [B _]]. unfold spec_canonical. fold f. split; auto.
    destruct A as [A|[A1 [A2 _]]]; auto.
  Qed.
End SpecCanonical.

Lemma same_track_version_inj a b : same_track a b = true -> version_of a = version_of b -> a = b.
Proof.
  unfold same_track, version_of. destruct (name_track a) as [[[ba ta] va]|] eqn:A; [|discriminate].
  destruct (name_track b) as [[[bb tb] vb]|] eqn:B; [|discriminate]. intros H E. injection E as ->.
  apply andb_true_iff in H as [H _]. apply str_eqb_eq in H. subst bb.
  apply name_track_shape in A as [ra [-> [_ [Pa _]]]]. apply name_track_shape in B as [rb [-> [_ [Pb _]]]].
  now rewrite (parse_version_inj _ _ _ Pa Pb).
Qed.
Lemma same_track_refl_of a b : same_track a b = true -> same_track a a = true.
Proof.
  unfold same_track. destruct (name_track a) as [[[ba ta] va]|]; [|discriminate]. intros _.
  rewrite str_eqb_refl. cbn [andb]. now apply track_eqb_eq.
Qed.
Lemma higher_false_both a b va vb :
  version_of a = Some va -> version_of b = Some vb -> higher a b = false -> higher b a = false -> va = vb.
Proof.
  unfold higher. intros -> ->. unfold version_gt. pose proof cmp_version_total as T. rewrite (tc_anti _ T vb va).
  destruct (cmp_version vb va) eqn:E; cbn [CompOpp]; try discriminate. intros _ _. symmetry. now apply (tc_eq _ T).
Qed.

Lemma same_track_version a b : same_track a b = true -> exists vb, version_of b = Some vb.
Proof.
  unfold same_track, version_of. destruct (name_track a) as [[[ba ta] va]|]; [|discriminate].
  destruct (name_track b) as [[[bb tb] vb]|]; [|discriminate]. eauto.
Qed.

Section History2.
  Variable ord : list (str * id) -> list (str * id).
  Variables (cf fuel : nat) (tag : N).
  Variable l : list (str * (types * kind)).
  Variables (a : agg) (s : st).
  Hypothesis OFl : Forall (fun c : str * (types * kind) => owner_free (fst (snd c))) l.
  Hypothesis Hrun : aggregate_all ord cf fuel (agg0 tag) st0 l 0 = inl (a, s).

  (** the canonical name is the one the executable specification computes from the list of contributed names *)
  Theorem history_canonical_is_spec n : In n (map fst l) -> Aggregator.canonical a n = spec_canonical (map fst l) n.
  Proof.
    intros Hn. destruct (history_canonical_is_highest ord cf fuel tag l a s OFl Hrun n Hn) as [H1 [H2 [H3 _]]].
    destruct (spec_canonical_props n (map fst l)) as [A B].
    set (c1 := Aggregator.canonical a n) in *. set (c2 := spec_canonical (map fst l) n) in *.
    unfold compat_spec_b in H2. apply orb_true_iff in H2.
    destruct (same_track n n) eqn:Tn.
    - assert (T1 : same_track n c1 = true) by (destruct H2 as [E|E]; auto; apply str_eqb_eq in E; now rewrite <- E).
      assert (T2 : same_track n c2 = true) by (destruct A as [->|[_ E]]; auto).
      assert (I2 : In c2 (map fst l)) by (destruct A as [->|[E _]]; auto).
      pose proof (B c1 H1 T1) as G12.
      assert (G21 : higher c2 c1 = false) by (apply H3; auto; unfold compat_spec_b; rewrite T2; apply orb_true_r).
      destruct (same_track_version _ _ T1) as [v1 V1]. destruct (same_track_version _ _ T2) as [v2 V2].
      pose proof (higher_false_both _ _ _ _ V1 V2 G12 G21) as ->.
      apply same_track_version_inj; [|congruence].
      rewrite same_track_sym in T1. apply (same_track_trans _ _ _ T1 T2).
    - assert (forall x, same_track n x = false).
      { intros x. destruct (same_track n x) eqn:E; auto. apply same_track_refl_of in E. congruence. }
      destruct H2 as [E|E]; [|rewrite H in E; discriminate]. apply str_eqb_eq in E.
      destruct A as [->|[_ E2]]; [now symmetry|]. rewrite H in E2. discriminate.
  Qed.
End History2.

(** * Order independence of the canonical names *)
Lemma highest_unique names n c1 c2 :
  In c1 names -> In c2 names -> compat_spec_b n c1 = true -> compat_spec_b n c2 = true ->
  (forall m, In m names -> compat_spec_b n m = true -> higher m c1 = false) ->
  (forall m, In m names -> compat_spec_b n m = true -> higher m c2 = false) -> c1 = c2.
Proof.
  intros I1 I2 C1 C2 H1 H2. unfold compat_spec_b in C1, C2. apply orb_true_iff in C1, C2.
  destruct (same_track n n) eqn:Tn.
  - assert (T1 : same_track n c1 = true) by (destruct C1 as [E|E]; auto; apply str_eqb_eq in E; now rewrite <- E).
    assert (T2 : same_track n c2 = true) by (destruct C2 as [E|E]; auto; apply str_eqb_eq in E; now rewrite <- E).
    assert (G12 : higher c1 c2 = false) by (apply H2; auto; unfold compat_spec_b; rewrite T1; apply orb_true_r).
    assert (G21 : higher c2 c1 = false) by (apply H1; auto; unfold compat_spec_b; rewrite T2; apply orb_true_r).
    destruct (same_track_version _ _ T1) as [v1 V1]. destruct (same_track_version _ _ T2) as [v2 V2].
    pose proof (higher_false_both _ _ _ _ V1 V2 G12 G21) as ->.
    apply same_track_version_inj; [|congruence]. rewrite same_track_sym in T1. apply (same_track_trans _ _ _ T1 T2).
  - assert (forall x, same_track n x = false).
    { intros x. destruct (same_track n x) eqn:E; auto. apply same_track_refl_of in E. congruence. }
    destruct C1 as [E1|E1]; [|rewrite H in E1; discriminate]. destruct C2 as [E2|E2]; [|rewrite H in E2; discriminate].
    apply str_eqb_eq in E1, E2. congruence.
Qed.

Section TwoOrders.
  Variables ord ord' : list (str * id) -> list (str * id).
  Variables (cf fuel cf' fuel' : nat) (tag tag' : N).
  Variables l l' : list (str * (types * kind)).
  Variables (a a' : agg) (s s' : st).
  Hypothesis OFl : Forall (fun c : str * (types * kind) => owner_free (fst (snd c))) l.
  Hypothesis OFl' : Forall (fun c : str * (types * kind) => owner_free (fst (snd c))) l'.
  Hypothesis Hperm : forall n, In n (map fst l) <-> In n (map fst l').
  Hypothesis Hrun : aggregate_all ord cf fuel (agg0 tag) st0 l 0 = inl (a, s).
  Hypothesis Hrun' : aggregate_all ord' cf' fuel' (agg0 tag') st0 l' 0 = inl (a', s').

  (** two successful histories over the same contributed names agree on every canonical name ... *)
  Theorem canonical_order_indep n : In n (map fst l) -> Aggregator.canonical a n = Aggregator.canonical a' n.
  Proof.
    intros Hn. destruct (history_canonical_is_highest ord cf fuel tag l a s OFl Hrun n Hn) as [A1 [A2 [A3 _]]].
    destruct (history_canonical_is_highest ord' cf' fuel' tag' l' a' s' OFl' Hrun' n (proj1 (Hperm n) Hn)) as [B1 [B2 [B3 _]]].
    apply (highest_unique (map fst l) n); auto.
    - now apply Hperm.
    - intros m Hm. apply B3. now apply Hperm.
  Qed.

  (** ... and import the same set of names *)
  Theorem import_names_order_indep k : In k (map fst (imports a)) -> In k (map fst (imports a')).
  Proof.
    intros Hk. destruct (history_imports_contributed ord cf fuel tag l a s OFl Hrun k Hk) as [Hn Hc].
    rewrite <- Hc, (canonical_order_indep k Hn).
    apply (history_redirects_total ord' cf' fuel' tag' l' a' s' OFl' Hrun'). now apply Hperm.
  Qed.
End TwoOrders.
