(** The aggregator's name bookkeeping follows [NStep]; consequences for whole aggregation histories. *)
From WacV Require Import Str Ord Semver Names NamesSpec Types Checker Aggregator AggregatorSpec.
From WacV Require Import SemverProofs SemverText NamesProofs CheckerEq AggregatorNames AggregatorFrame.

Lemma find_on_track_some {V} ak (l : list (str * V)) n v :
  find_on_track ak l = Some (n, v) -> In (n, v) l /\ exists ver, alt_key n = Some (ak, ver).
Proof.
  induction l as [|[n' v'] l IH]; cbn [find_on_track]; [discriminate|].
  destruct (alt_key n') as [[k ver]|] eqn:A.
  - destruct (str_eqb k ak) eqn:E.
    + intros H. injection H as <- <-. apply str_eqb_eq in E. subst k. split; [now left | eauto].
    + intros H. apply IH in H as [H1 H2]. split; [now right | auto].
  - intros H. apply IH in H as [H1 H2]. split; [now right | auto].
Qed.
Lemma find_on_track_none {V} ak (l : list (str * V)) :
  find_on_track ak l = None -> forall n v k ver, In (n, v) l -> alt_key n = Some (k, ver) -> k <> ak.
Proof.
  induction l as [|[n' v'] l IH]; cbn [find_on_track]; intros H n v k ver Hin A; [contradiction|].
  destruct Hin as [E|Hin].
  - injection E as -> ->. rewrite A in H. destruct (str_eqb k ak) eqn:E; [discriminate|]. now apply str_eqb_neq.
  - destruct (alt_key n') as [[k' ver']|]; [destruct (str_eqb k' ak); [discriminate|]|]; eapply IH; eauto.
Qed.

Lemma in_keys_assoc {V} k (l : list (str * V)) : In k (map fst l) -> exists v, assoc k l = Some v.
Proof.
  intros H. destruct (assoc k l) eqn:E; eauto. apply assoc_none_keys in E. contradiction.
Qed.

Section Step.
  Variable ord : list (str * id) -> list (str * id).
  Variable cf : nat.

  Lemma aggregate_NStep fuel a s name t k a' s' :
    owner_free t -> NoDup (map fst (a_imports a)) ->
    aggregate ord cf fuel a s name t k = AOk (a', s') ->
    NStep (map fst (a_imports a)) (a_redirects a) name (map fst (a_imports a')) (a_redirects a').
  Proof.
    intros OF ND. unfold aggregate.
    destruct (assoc name (a_imports a)) as [existing|] eqn:Ea.
    - (* exact name *)
      destruct (merge_item_kind ord cf fuel existing t k (core_of a s)) as [[u c]| | |] eqn:Em; try discriminate.
      intros H. injection H as <- <-. cbn [a_imports a_redirects agg_of].
      pose proof (si_merge_item_kind ord cf t OF fuel existing k _ _ _ Em) as Hc. unfold same_imports in Hc.
      cbn [core_of c_imports] in Hc. rewrite Hc.
      apply NS_exact. eapply assoc_in_keys; eauto.
    - assert (Hnin : ~ In name (map fst (a_imports a))) by now apply assoc_none_keys.
      destruct (find_compat name (a_imports a)) as [[en ek]|] eqn:Ef.
      + (* a semver-compatible import *)
        destruct (merge_item_kind ord cf fuel ek t k (core_of a s)) as [[u c]| | |] eqn:Em; try discriminate.
        pose proof (si_merge_item_kind ord cf t OF fuel ek k _ _ _ Em) as Hc. unfold same_imports in Hc. cbn [core_of c_imports] in Hc.
        rewrite Hc. unfold find_compat in Ef. destruct (alt_key name) as [[ak nv]|] eqn:An; [|discriminate].
        apply find_on_track_some in Ef as [Hin [ev Ae]].
        unfold rename. rewrite An, Ae.
        assert (Hen : In en (map fst (a_imports a))) by (apply (in_map fst) in Hin; exact Hin).
        destruct (version_gtb nv ev) eqn:Hv.
        * destruct (assoc en (a_imports a)) as [mk|] eqn:Eme; [|discriminate].
          intros H. injection H as <- <-. cbn [a_imports a_redirects agg_of].
          assert (Hnr : assoc name (rem en (a_imports a)) = None).
          { apply assoc_none_keys. intros X. apply in_keys_rem in X; auto. tauto. }
          rewrite (keys_ins_new _ _ _ Hnr).
          eapply (NS_high _ _ _ en ak nv ev); eauto.
          -- apply NoDup_app_one_tail; [now apply nodup_keys_rem|]. intros X. apply in_keys_rem in X; auto. tauto.
          -- intros x. rewrite in_app_iff, in_keys_rem by auto. cbn [In]. intuition.
        * intros H. injection H as <- <-. cbn [a_imports a_redirects agg_of].
          eapply (NS_low _ _ _ en ak nv ev); eauto.
      + (* a new import *)
        destruct (remap_item_kind ord cf fuel t k (core_of a s)) as [[k' c]| | |] eqn:Em; try discriminate.
        pose proof (si_remap_item_kind ord cf t OF fuel k _ _ _ Em) as Hc. unfold same_imports in Hc. cbn [core_of c_imports] in Hc.
        rewrite Hc. destruct (has_key name (a_imports a)); [discriminate|].
        intros H. injection H as <- <-. cbn [a_imports a_redirects agg_of].
        rewrite (keys_ins_new _ _ _ Ea). apply NS_new; auto.
        intros e He [ak [nv [ev [An Ae]]]]. unfold find_compat in Ef. rewrite An in Ef.
        apply in_keys_assoc in He as [v Hv]. apply assoc_in in Hv.
        now apply (find_on_track_none _ _ Ef e v ak ev Hv Ae).
  Qed.

  Lemma aggregate_all_inv fuel : forall l a s pos a' s' names,
    Forall (fun c : str * (types * kind) => owner_free (fst (snd c))) l ->
    NInv (map fst (a_imports a)) (a_redirects a) names ->
    aggregate_all ord cf fuel a s l pos = inl (a', s') ->
    NInv (map fst (a_imports a')) (a_redirects a') (rev (map fst l) ++ names).
  Proof.
    induction l as [|[name [t k]] l IH]; intros a s pos a' s' names HF I; cbn [aggregate_all].
    - intros H. injection H as <- <-. exact I.
    - inversion HF as [|? ? OF HF']; subst. cbn [fst snd] in OF.
      destruct (aggregate ord cf fuel a s name t k) as [[a1 s1]| | |] eqn:E; try discriminate.
      intros H. apply aggregate_NStep in E; auto; [|apply (ni_nodup _ _ _ I)].
      pose proof (NStep_preserves _ _ _ _ _ _ I E) as I1.
      specialize (IH _ _ _ _ _ _ HF' I1 H). cbn [map fst rev]. now rewrite <- app_assoc.
  Qed.

  (** one step leaves names of other tracks alone *)
  Lemma aggregate_other_tracks fuel a s name t k a' s' names m :
    owner_free t -> NInv (map fst (a_imports a)) (a_redirects a) names ->
    aggregate ord cf fuel a s name t k = AOk (a', s') ->
    compat m name = false -> Aggregator.canonical a' m = Aggregator.canonical a m.
  Proof.
    intros OF I E C. apply aggregate_NStep in E; auto; [|apply (ni_nodup _ _ _ I)].
    exact (NStep_other_tracks _ _ _ _ _ _ m I E C).
  Qed.
End Step.

(** * Whole histories, from the empty aggregator *)
Section History.
  Variable ord : list (str * id) -> list (str * id).
  Variables (cf fuel : nat) (tag : N).
  Variable l : list (str * (types * kind)).
  Variables (a : agg) (s : st).
  Hypothesis OFl : Forall (fun c : str * (types * kind) => owner_free (fst (snd c))) l.
  Hypothesis Hrun : aggregate_all ord cf fuel (agg0 tag) st0 l 0 = inl (a, s).

  Let names := map fst l.

  Lemma history_inv : NInv (map fst (imports a)) (a_redirects a) (rev names).
  Proof.
    pose proof (aggregate_all_inv ord cf fuel l (agg0 tag) st0 0 a s [] OFl NInv_nil Hrun) as H.
    now rewrite app_nil_r in H.
  Qed.

  Lemma in_names n : In n names <-> In n (rev names).
  Proof. apply in_rev. Qed.

  Lemma compat_b n m : compat n m = compat_spec_b n m.
  Proof. apply compat_is_spec_b. Qed.

  Theorem history_canonical_is_highest n : In n names ->
    In (Aggregator.canonical a n) names /\ compat_spec_b n (Aggregator.canonical a n) = true /\
    (forall m, In m names -> compat_spec_b n m = true -> higher m (Aggregator.canonical a n) = false) /\
    (forall m, In m names -> compat_spec_b n m = true -> Aggregator.canonical a m = Aggregator.canonical a n).
  Proof.
    intros Hn. apply in_names in Hn. destruct (inv_highest _ _ _ history_inv n Hn) as [H1 [H2 H3]].
    repeat split.
    - now apply in_names.
    - now rewrite <- compat_b.
    - intros m Hm C. apply H3; [now apply in_names | now rewrite compat_b].
    - intros m Hm C. symmetry. apply (inv_one _ _ _ history_inv); auto; [now apply in_names | now rewrite compat_b].
  Qed.

  Theorem history_redirects_total n : In n names -> In (Aggregator.canonical a n) (map fst (imports a)).
  Proof. intros Hn. apply (inv_total _ _ _ history_inv). now apply in_names. Qed.

  Theorem history_canonical_idempotent n : Aggregator.canonical a (Aggregator.canonical a n) = Aggregator.canonical a n.
  Proof. apply (inv_idempotent _ _ _ history_inv). Qed.

  (** at most one import per track *)
  Theorem history_one_import_per_track k1 k2 :
    In k1 (map fst (imports a)) -> In k2 (map fst (imports a)) -> compat_spec_b k1 k2 = true -> k1 = k2.
  Proof. intros H1 H2 C. apply (ni_one _ _ _ history_inv); auto. now rewrite compat_b. Qed.

  Theorem history_imports_contributed k : In k (map fst (imports a)) -> In k names /\ Aggregator.canonical a k = k.
  Proof.
    intros H. split.
    - apply in_names. now apply (ni_contrib _ _ _ history_inv).
    - unfold Aggregator.canonical. destruct (assoc k (a_redirects a)) eqn:E; auto.
      apply (ni_rd _ _ _ history_inv) in E. unfold imports in H. tauto.
  Qed.
End History.
