(** Reflection lemmas for the boolean equalities used by Types.v / Checker.v / SubSpec.v, and
    facts about association lists. *)
From Coq Require Import ZArith ZifyBool ZifyN.
From WacV Require Import Str Types.

Lemma seqb_eq a b : str_eqb a b = true <-> a = b.
Proof.
  revert b; induction a as [|x a IH]; intros [|y b]; cbn [str_eqb]; split; intro H; try congruence; try discriminate.
  - apply andb_true_iff in H as [H1 H2]. apply N.eqb_eq in H1. apply IH in H2. congruence.
  - injection H as -> ->. rewrite N.eqb_refl. cbn. now apply IH.
Qed.
Lemma seqb_refl a : str_eqb a a = true.
Proof. now apply seqb_eq. Qed.
Lemma seqb_neq a b : str_eqb a b = false <-> a <> b.
Proof.
  split; intro H.
  - intros ->. rewrite seqb_refl in H. discriminate.
  - destruct (str_eqb a b) eqn:E; [apply seqb_eq in E; contradiction | reflexivity].
Qed.
Lemma seqb_sym a b : str_eqb a b = str_eqb b a.
Proof.
  destruct (str_eqb a b) eqn:E.
  - apply seqb_eq in E as ->. now rewrite seqb_refl.
  - symmetry. apply seqb_neq. apply seqb_neq in E. congruence.
Qed.

Lemma ideqb_eq a b : id_eqb a b = true <-> a = b.
Proof.
  destruct a as [t i], b as [u j]; unfold id_eqb; cbn [id_tag id_idx]. split; intro H.
  - apply andb_true_iff in H as [H1 H2]. apply N.eqb_eq in H1. apply Nat.eqb_eq in H2. congruence.
  - injection H as -> ->. now rewrite N.eqb_refl, Nat.eqb_refl.
Qed.
Lemma ideqb_refl a : id_eqb a a = true.
Proof. now apply ideqb_eq. Qed.

Lemma primeqb_eq a b : prim_eqb a b = true <-> a = b.
Proof.
  unfold prim_eqb. split; intro H.
  - apply N.eqb_eq in H. destruct a, b; cbn in H; try reflexivity; discriminate.
  - subst. apply N.eqb_refl.
Qed.
Lemma primeqb_refl a : prim_eqb a a = true.
Proof. now apply primeqb_eq. Qed.

Lemma vteqb_eq a b : valtype_eqb a b = true <-> a = b.
Proof.
  destruct a, b; cbn [valtype_eqb]; split; intro H; try discriminate; try congruence;
    try (apply primeqb_eq in H; congruence); try (apply ideqb_eq in H; congruence);
    try (injection H as ->; first [apply primeqb_refl | apply ideqb_refl]).
Qed.
Lemma tyeqb_eq a b : ty_eqb a b = true <-> a = b.
Proof.
  destruct a, b; cbn [ty_eqb]; split; intro H; try discriminate; try congruence;
    try (apply ideqb_eq in H; congruence); try (apply vteqb_eq in H; congruence);
    try (injection H as ->; first [apply ideqb_refl | now apply vteqb_eq]).
Qed.
Lemma kindeqb_eq a b : kind_eqb a b = true <-> a = b.
Proof.
  destruct a, b; cbn [kind_eqb]; split; intro H; try discriminate; try congruence;
    try (apply ideqb_eq in H; congruence); try (apply vteqb_eq in H; congruence); try (apply tyeqb_eq in H; congruence);
    try (injection H as ->; first [apply ideqb_refl | now apply vteqb_eq | now apply tyeqb_eq]).
Qed.

Lemma booleqb_eq a b : Bool.eqb a b = true <-> a = b.
Proof. destruct a, b; cbn; split; congruence. Qed.

Lemma heapeqb_eq a b : heap_eqb a b = true <-> a = b.
Proof.
  unfold heap_eqb. split; intro H.
  - apply andb_true_iff in H as [H1 H2]. apply N.eqb_eq in H1, H2.
    destruct a, b; cbn in H1, H2; try reflexivity; try discriminate. congruence.
  - subst. now rewrite !N.eqb_refl.
Qed.
Lemma refeqb_eq a b : reftype_eqb a b = true <-> a = b.
Proof.
  destruct a as [n h], b as [m g]; unfold reftype_eqb; cbn [r_nullable r_heap]. split; intro H.
  - apply andb_true_iff in H as [H1 H2]. apply (proj1 (booleqb_eq _ _)) in H1. apply (proj1 (heapeqb_eq _ _)) in H2. subst. reflexivity.
  - injection H as -> ->. apply andb_true_iff. split; [now apply booleqb_eq | now apply heapeqb_eq].
Qed.
Lemma cteqb_eq a b : coretype_eqb a b = true <-> a = b.
Proof.
  destruct a, b; cbn [coretype_eqb]; split; intro H; try discriminate; try congruence.
  - apply refeqb_eq in H. congruence.
  - injection H as ->. now apply refeqb_eq.
Qed.
Lemma listeqb_eq {A} (eqb : A -> A -> bool) (Heq : forall x y, eqb x y = true <-> x = y) a b :
  list_eqb eqb a b = true <-> a = b.
Proof.
  revert b; induction a as [|x a IH]; intros [|y b]; cbn [list_eqb]; split; intro H; try discriminate; try congruence.
  - apply andb_true_iff in H as [H1 H2]. apply Heq in H1. apply IH in H2. congruence.
  - injection H as -> ->. apply andb_true_iff. split; [now apply Heq | now apply IH].
Qed.
Lemma cfeqb_eq a b : corefunc_eqb a b = true <-> a = b.
Proof.
  destruct a as [p r], b as [q s]; unfold corefunc_eqb; cbn [cf_params cf_results]. split; intro H.
  - apply andb_true_iff in H as [H1 H2]. apply (listeqb_eq _ cteqb_eq) in H1, H2. congruence.
  - injection H as -> ->. apply andb_true_iff. split; now apply (listeqb_eq _ cteqb_eq).
Qed.
Lemma optNeqb_eq (a b : option N) :
  match a, b with Some x, Some y => x =? y | None, None => true | _, _ => false end = true <-> a = b.
Proof.
  destruct a, b; split; intro H; try discriminate; try congruence.
  - apply N.eqb_eq in H. congruence.
  - injection H as ->. apply N.eqb_refl.
Qed.

(** association lists *)
Lemma assoc_in {B} k (l : list (str * B)) v : assoc k l = Some v -> In (k, v) l.
Proof.
  induction l as [|[k' v'] l IH]; cbn [assoc]; [discriminate|].
  destruct (str_eqb k k') eqn:E; intro H.
  - apply seqb_eq in E. injection H as ->. left. congruence.
  - right. now apply IH.
Qed.
Lemma in_assoc {B} k (l : list (str * B)) v : NoDup (keys l) -> In (k, v) l -> assoc k l = Some v.
Proof.
  induction l as [|[k' v'] l IH]; cbn [assoc keys map fst]; [intros _ []|].
  intros Hnd [H|H].
  - injection H as -> ->. now rewrite seqb_refl.
  - inversion Hnd as [|? ? Hn Hnd']; subst.
    destruct (str_eqb k k') eqn:E.
    + apply seqb_eq in E as ->. exfalso. apply Hn. unfold keys. change k' with (fst (k', v)). now apply in_map.
    + now apply IH.
Qed.
Lemma assoc_none {B} k (l : list (str * B)) : assoc k l = None <-> ~ In k (keys l).
Proof.
  induction l as [|[k' v'] l IH]; cbn [assoc keys map fst]; [tauto|].
  destruct (str_eqb k k') eqn:E.
  - apply seqb_eq in E as ->. split; [discriminate | intro H; exfalso; apply H; now left].
  - apply seqb_neq in E. rewrite IH. unfold keys. cbn. intuition congruence.
Qed.

Lemma key2eqb_eq a b : key2_eqb a b = true <-> a = b.
Proof.
  destruct a as [a1 a2], b as [b1 b2]; unfold key2_eqb; cbn [fst snd]. split; intro H.
  - apply andb_true_iff in H as [H1 H2]. apply seqb_eq in H1, H2. congruence.
  - injection H as -> ->. now rewrite !seqb_refl.
Qed.
Lemma assoc2_in {B} k (l : list ((str * str) * B)) v : assoc2 k l = Some v -> In (k, v) l.
Proof.
  induction l as [|[k' v'] l IH]; cbn [assoc2]; [discriminate|].
  destruct (key2_eqb k k') eqn:E; intro H.
  - apply key2eqb_eq in E. injection H as ->. left. congruence.
  - right. now apply IH.
Qed.
Lemma in_assoc2 {B} k (l : list ((str * str) * B)) v : NoDup (keys l) -> In (k, v) l -> assoc2 k l = Some v.
Proof.
  induction l as [|[k' v'] l IH]; cbn [assoc2 keys map fst]; [intros _ []|].
  intros Hnd [H|H].
  - injection H as -> ->. assert (E : key2_eqb k k = true) by now apply key2eqb_eq. now rewrite E.
  - inversion Hnd as [|? ? Hn Hnd']; subst.
    destruct (key2_eqb k k') eqn:E.
    + apply key2eqb_eq in E as ->. exfalso. apply Hn. unfold keys. change k' with (fst (k', v)). now apply in_map.
    + now apply IH.
Qed.
