(** Histories of NESTED instance contributions: the invariant [NestInv] and the C09 statements derived from it.

    A nested contribution is an import name with [KInstance i] where [i] is the root of a nest of interfaces of the
    contributor's collection ([SIDen]): no uses, pairwise different export names, leaves are resource-free functions, values
    and value types, inner interfaces are anonymous; the root has no identifier or the import name as identifier.  One
    interface may be mentioned in several places of one contribution and by several contributions (the repaired aggregator
    copies an anonymous interface once per mention), and one contribution may occur several times in a history.

    [NestInv a s done]: every import of [a] is the root of such a tree in the aggregator's collection; the trees of
    different imports are disjoint ([n_roots], the ownership part: a merged nested interface has exactly one parent); and the
    tree of import [n] is the left-to-right [tmerge] of the trees of the contributions whose canonical name is [n], in the
    order in which they arrived ([MergedOf], the semantic part: recursively the first-seen union). *)
From Coq Require Import ZArith ZifyBool ZifyN Lia Permutation.
From WacV Require Import Str Names NamesSpec Types Checker SubSpec CheckerEq SubSpecProofs CheckerValue CheckerProofs.
From WacV Require Import Aggregator AggregatorSpec AggregatorFrame AggregatorRemap AggregatorChecker AggregatorNames
     AggregatorCanonical AggregatorFlat AggregatorHistory NamesProofs
     AggregatorNestedSpec AggregatorNestedDen AggregatorNestedRemap AggregatorNestedMerge.

Lemma id_dec (a b : id) : {a = b} + {a <> b}.
Proof. decide equality; [apply Nat.eq_dec | apply N.eq_dec]. Qed.

(** the canonical name after a higher version took an import over *)
Lemma canon_high keys rd names name en n0 :
  NInv keys rd names -> In en keys ->
  canon (ins en name (map (retarget en name) rd)) n0 = if str_eqb (canon rd n0) en then name else canon rd n0.
Proof.
  intros I Hen. unfold canon. destruct (str_eqb en n0) eqn:E.
  - apply seqb_eq in E. subst n0. rewrite assoc_ins_same.
    assert (assoc en rd = None) as ->.
    { destruct (assoc en rd) eqn:X; auto. apply (ni_rd _ _ _ I) in X. tauto. }
    now rewrite seqb_refl.
  - assert (N : en <> n0) by (intros ->; rewrite seqb_refl in E; discriminate).
    rewrite assoc_ins_other by auto. rewrite assoc_map_retarget. destruct (assoc n0 rd) as [b|]; auto.
    destruct (str_eqb n0 en) eqn:E2; auto. apply seqb_eq in E2. congruence.
Qed.

Section NHist.
  Variable ord : list (str * id) -> list (str * id).
  Hypothesis ord_incl : forall l x, In x (ord l) -> In x l.
  Variables (cf fuel : nat).
  Variable Col : types -> Prop.
  Hypothesis Col_same : forall t1 t2, Col t1 -> Col t2 -> t_tag t1 = t_tag t2 -> t1 = t2.
  Variable tag0 : N.
  Hypothesis Col_tag : forall t, Col t -> t_tag t <> tag0.

  Notation contrib := (str * (types * kind))%type.
  Notation MI := (MInv Col tag0).

  (** contribution [c] requires the tree [tr] and uses the interfaces [ids] of its collection *)
  Definition ncontrib (c : contrib) (tr : tree) (ids : list id) : Prop :=
    Col (fst (snd c)) /\ owner_free (fst (snd c)) /\
    exists d i oid e, snd (snd c) = KInstance i /\ SIDen d (fst (snd c)) i oid e ids /\ tr = XInst e /\
                      (oid = None \/ oid = Some (fst c)).
  Definition nested_contrib (c : contrib) : Prop := exists tr ids, ncontrib c tr ids.
  Lemma ncontrib_tag c tr ids j : ncontrib c tr ids -> In j ids -> id_tag j = t_tag (fst (snd c)).
  Proof.
    intros [_ [_ [d [i [oid [e [_ [ID _]]]]]]]] Hj. destruct (IDen_exist _ _ _ _ _ _ ID j Hj) as [z Hz]. now apply get_if_lt in Hz.
  Qed.

  Lemma ncontrib_wt c tr ids : ncontrib c tr ids -> exists d, wt d tr.
  Proof. intros [_ [_ [d [i [oid [e [_ [ID [-> _]]]]]]]]]. exists (S d). eapply IDen_wt; eauto. Qed.
  Lemma ncontrib_unf c tr ids : ncontrib c tr ids -> UnfK (fst (snd c)) (snd (snd c)) tr.
  Proof. intros [_ [_ [d [i [oid [e [-> [ID [-> _]]]]]]]]]. eapply IDen_unf; eauto. Qed.
  Lemma ncontrib_det c tr ids tr' ids' : ncontrib c tr ids -> ncontrib c tr' ids' -> tr = tr'.
  Proof. intros H1 H2. eapply UnfK_det; eapply ncontrib_unf; eauto. Qed.

  (** * The merged requirement of a list of contributions (latest first) *)
  Inductive MergedOf : list contrib -> tree -> Prop :=
  | MO_one c tr ids : ncontrib c tr ids -> MergedOf [c] tr
  | MO_cons c cs ta tb ids tm : MergedOf cs ta -> ncontrib c tb ids -> tmerge ta tb = Some tm -> MergedOf (c :: cs) tm.

  Lemma wt_common d1 d2 a b : wt d1 a -> wt d2 b -> wt (Nat.max d1 d2) a /\ wt (Nat.max d1 d2) b.
  Proof. intros H1 H2. split; [apply (wt_mono d1)|apply (wt_mono d2)]; auto; lia. Qed.
  Lemma MergedOf_wt cs tm : MergedOf cs tm -> exists d, wt d tm.
  Proof.
    induction 1 as [c tr ids Hc | c cs ta tb ids tm _ [d1 W1] Hc Hm]; [eapply ncontrib_wt; eauto|].
    destruct (ncontrib_wt _ _ _ Hc) as [d2 W2]. destruct (wt_common _ _ _ _ W1 W2) as [Wa Wb].
    exists (Nat.max d1 d2). now destruct (tmerge_upper _ _ _ _ Wa Wb Hm).
  Qed.
  Lemma MergedOf_upper cs tm : MergedOf cs tm ->
    forall c tr ids, In c cs -> ncontrib c tr ids -> forall z, SubCM tr z -> SubCM tm z.
  Proof.
    induction 1 as [c0 tr0 ids0 Hc0 | c0 cs ta tb ids0 tm HM IH Hc0 Hm]; intros c tr ids Hin Hc z Hz.
    - destruct Hin as [<-|[]]. now rewrite (ncontrib_det _ _ _ _ _ Hc0 Hc).
    - destruct (MergedOf_wt _ _ HM) as [d1 W1]. destruct (ncontrib_wt _ _ _ Hc0) as [d2 W2].
      destruct (wt_common _ _ _ _ W1 W2) as [Wa Wb]. destruct (tmerge_upper _ _ _ _ Wa Wb Hm) as [_ [_ [_ [Ma Mb]]]].
      destruct Hin as [<-|Hin].
      + apply Mb. now rewrite (ncontrib_det _ _ _ _ _ Hc0 Hc).
      + apply Ma. eapply IH; eauto.
  Qed.
  Lemma MergedOf_glb cs tm : MergedOf cs tm ->
    forall z, (forall c tr ids, In c cs -> ncontrib c tr ids -> SubCM z tr) -> SubCM z tm.
  Proof.
    induction 1 as [c0 tr0 ids0 Hc0 | c0 cs ta tb ids0 tm HM IH Hc0 Hm]; intros z Hz.
    - apply (Hz c0 tr0 ids0); auto. now left.
    - destruct (MergedOf_wt _ _ HM) as [d1 W1]. destruct (ncontrib_wt _ _ _ Hc0) as [d2 W2].
      destruct (wt_common _ _ _ _ W1 W2) as [Wa Wb]. apply (tmerge_glb _ _ _ _ z Wa Wb Hm).
      + apply IH. intros c tr ids Hin. apply Hz. now right.
      + apply (Hz c0 tb ids0); auto. now left.
  Qed.
  Lemma MergedOf_nonempty cs tm : MergedOf cs tm -> cs <> [].
  Proof. destruct 1; discriminate. Qed.

  (** * The invariant *)
  Definition on_import (rd : list (str * str)) (n : str) (c : contrib) : bool := str_eqb (canon rd (fst c)) n.

  Record NestInv (a : agg) (s : st) (done : list contrib) : Prop := {
    n_names : NInv (map fst (a_imports a)) (a_redirects a) (map fst done);
    n_minv : MI (core_of a s);
    n_roots : exists rown : str -> list id,
        (forall n k, In (n, k) (a_imports a) ->
                     exists y oid e d, k = KInstance y /\ IDen d (a_types a) y oid e (rown n) /\
                                       MergedOf (filter (on_import (a_redirects a) n) done) (XInst e)) /\
        (forall n m j, In n (map fst (a_imports a)) -> In m (map fst (a_imports a)) -> n <> m ->
                       In j (rown n) -> ~ In j (rown m));
    n_ifaces : forall n1 y1, In (n1, y1) (a_ifaces a) -> In n1 (map fst done);
    n_ifkeys : forall i v, rm_get (TInterface i) (a_remapped a) = Some v ->
                           exists c tr ids, In c done /\ ncontrib c tr ids /\ In i ids }.

  Lemma NestInv_nil : NestInv (agg0 tag0) st0 [].
  Proof.
    split; cbn; try tauto; try discriminate.
    - apply NInv_nil.
    - split; cbn; auto; intros ? ? H; try discriminate; contradiction.
    - exists (fun _ => []). split; [intros ? ? []|intros ? ? ? []].
  Qed.

  (** no contributed name is on the track of a name that is neither an import nor compatible with one *)
  Lemma no_name_on_track imports rd names name :
    NInv (map fst imports) rd names ->
    assoc name imports = None -> find_compat name (imports : list (str * kind)) = None ->
    forall n1, In n1 names -> compat n1 name = true -> False.
  Proof.
    intros I0 Ea Ef.
    { intros n1 Hn1 C. pose proof (ni_total _ _ _ I0 n1 Hn1) as Hk. pose proof (canon_compat _ _ _ n1 I0) as Cc.
      set (k := canon rd n1) in *.
      assert (Ck : compat name k = true) by (rewrite compat_sym in C; apply (compat_trans _ _ _ C Cc)).
      destruct (str_eqb name k) eqn:E.
      - apply SemverProofs.str_eqb_eq in E. subst k. rewrite <- E in Hk. apply assoc_none_keys in Ea. contradiction.
      - apply SemverProofs.str_eqb_neq in E. destruct (compat_on_track _ _ Ck E) as [ak [nv [ev [An Ae]]]].
        unfold find_compat in Ef. rewrite An in Ef. apply in_keys_assoc in Hk as [v Hv]. apply assoc_in in Hv.
        now apply (find_on_track_none _ _ Ef k v ak ev Hv Ae). }
  Qed.
  Lemma no_iface_on_track_n imports rd names ifaces name :
    NInv (map fst imports) rd names -> (forall n1 (y1 : id), In (n1, y1) ifaces -> In n1 names) ->
    assoc name imports = None -> find_compat name (imports : list (str * kind)) = None ->
    assoc name ifaces = None /\ find_compat name (ord ifaces) = None.
  Proof.
    intros I0 Hif Ea Ef. pose proof (no_name_on_track imports rd names name I0 Ea Ef) as Hno.
    split.
    - destruct (assoc name ifaces) as [y1|] eqn:E; auto. exfalso.
      apply (Hno name); [apply (Hif name y1 (assoc_in _ _ _ E)) | apply compat_refl].
    - destruct (find_compat name (ord ifaces)) as [[n1 y1]|] eqn:E; auto. exfalso.
      unfold find_compat in E. destruct (alt_key name) as [[ak nv]|] eqn:An; [|discriminate].
      apply find_on_track_some in E as [Hin [ev Ae]]. apply ord_incl in Hin.
      apply (Hno n1); [apply (Hif n1 y1 Hin)|]. apply (compat_same_key _ _ _ _ _ _ Ae An). reflexivity.
  Qed.

  (** merging a nested contribution into the import rooted at [y] *)
  Lemma nmerge_into a s done t i d oid eb ids y oidr e d0 idsr cc :
    NestInv a s done -> Col t -> SIDen d t i oid eb ids ->
    IDen d0 (a_types a) y oidr e idsr ->
    merge_item_kind ord cf fuel (KInstance y) t (KInstance i) (core_of a s) = AOk (tt, cc) ->
    exists em idsr' d1, tmerge (XInst e) (XInst eb) = Some (XInst em) /\ IDen d1 (c_types cc) y oidr em idsr' /\
       MI cc /\ MFrame idsr (core_of a s) cc /\ rm_frame ids (core_of a s) cc /\
       (forall j, In j idsr' -> In j idsr \/ (length (t_interfaces (a_types a)) <= id_idx j)%nat).
  Proof.
    intros HI Ct IDc IDr H. cbn [merge_item_kind] in H.
    destruct (ML_all ord cf Col Col_same tag0 Col_tag t Ct (Nat.max d d0) fuel y oidr e idsr i oid eb ids (core_of a s) cc
                     (n_minv _ _ _ HI) (IDen_mono _ _ _ _ _ _ _ (Nat.le_max_r d d0) IDr)
                     (IDen_mono _ _ _ _ _ _ _ (Nat.le_max_l d d0) IDc) H)
      as [em [idsr' [[n Hn] [ID' [I' [Fr [Rm Sub]]]]]]].
    exists em, idsr', (Nat.max d d0). split; [|auto 6].
    apply (tmerge_complete (S n)). cbn [tmerge_f]. now rewrite Hn.
  Qed.

  Lemma NestInv_assemble a s done c tr ids cc im rd' (rown' : str -> list id) :
    NestInv a s done -> ncontrib c tr ids ->
    NInv (map fst im) rd' (fst c :: map fst done) -> MI cc ->
    rm_frame ids (core_of a s) cc ->
    (forall n1 y1, In (n1, y1) (c_ifaces cc) -> In n1 (fst c :: map fst done)) ->
    (forall n k, In (n, k) im -> exists y oid e d, k = KInstance y /\ IDen d (c_types cc) y oid e (rown' n) /\
                                     MergedOf (filter (on_import rd' n) (c :: done)) (XInst e)) ->
    (forall n m j, In n (map fst im) -> In m (map fst im) -> n <> m -> In j (rown' n) -> ~ In j (rown' m)) ->
    NestInv (agg_of cc im rd') (c_chk cc) (c :: done).
  Proof.
    intros HI Hc I' M Rm Hif Hroots Hdisj. split; cbn [a_imports a_redirects a_types a_remapped a_ifaces agg_of map fst].
    - exact I'.
    - now apply MInv_core_of.
    - exists rown'. split; auto.
    - exact Hif.
    - intros i0 v Hv. destruct (in_dec id_dec i0 ids) as [Hin|Hnin].
      + exists c, tr, ids. split; [now left|auto].
      + rewrite (Rm i0 Hnin) in Hv. destruct (n_ifkeys _ _ _ HI i0 v Hv) as [c0 [tr0 [ids0 [X Y]]]].
        exists c0, tr0, ids0. split; [now right|exact Y].
  Qed.

  (** an import that the step does not merge into keeps its tree *)
  Lemma root_untouched a s cc (idsr ids0 : list id) y0 oid0 e0 d0 :
    MFrame idsr (core_of a s) cc -> (forall j, In j ids0 -> ~ In j idsr) ->
    IDen d0 (a_types a) y0 oid0 e0 ids0 -> IDen d0 (c_types cc) y0 oid0 e0 ids0.
  Proof.
    intros Fr Hd ID. eapply IDen_frame; [apply Fr| |exact ID]. intros j z Hj Hz. apply (mf_other _ _ _ Fr); auto.
  Qed.

  Lemma filter_cons_true {A} (f : A -> bool) x l : f x = true -> filter f (x :: l) = x :: filter f l.
  Proof. intros E. cbn [filter]. now rewrite E. Qed.
  Lemma filter_cons_false {A} (f : A -> bool) x l : f x = false -> filter f (x :: l) = filter f l.
  Proof. intros E. cbn [filter]. now rewrite E. Qed.
  Lemma filter_none {A} (f : A -> bool) l : (forall x, In x l -> f x = false) -> filter f l = [].
  Proof. induction l as [|x l IH]; intros H; auto. rewrite filter_cons_false; [apply IH; intros; apply H; now right | apply H; now left]. Qed.
  Lemma seqb_false a b : a <> b -> str_eqb a b = false.
  Proof. intros N. destruct (str_eqb a b) eqn:E; auto. apply seqb_eq in E. contradiction. Qed.

  Lemma old_ids_lt a done rown n k j :
    (forall n k, In (n, k) (a_imports a) ->
                 exists y oid e d, k = KInstance y /\ IDen d (a_types a) y oid e (rown n) /\
                                   MergedOf (filter (on_import (a_redirects a) n) done) (XInst e)) ->
    In (n, k) (a_imports a) -> In j (rown n) -> (id_idx j < length (t_interfaces (a_types a)))%nat.
  Proof.
    intros Hroots Hin Hj. destruct (Hroots n k Hin) as [y [oid [e [d [_ [ID _]]]]]].
    destruct (IDen_exist _ _ _ _ _ _ ID j Hj) as [z Hz]. now apply get_if_lt in Hz.
  Qed.

  Theorem NestInv_step a s done c tr ids a' s' :
    NestInv a s done -> ncontrib c tr ids ->
    aggregate ord cf fuel a s (fst c) (fst (snd c)) (snd (snd c)) = AOk (a', s') -> NestInv a' s' (c :: done).
  Proof.
    intros HI Hc H. destruct c as [name [t k]]. cbn [fst snd] in *.
    pose proof Hc as [Ct [OF [d [i [oid [eb [Ek [IDc [Etr Hoid]]]]]]]]]. cbn [fst snd] in *. subst k tr.
    pose proof (n_names _ _ _ HI) as I0.
    pose proof (aggregate_NStep ord cf fuel a s name t _ a' s' OF (ni_nodup _ _ _ I0) H) as NS.
    pose proof (NStep_preserves _ _ _ _ _ _ I0 NS) as I'.
    destruct (n_roots _ _ _ HI) as [rown [Hroots Hrdisj]].
    pose proof (ni_nodup _ _ _ I0) as NDim.
    assert (Hif_old : forall cc, c_ifaces cc = a_ifaces a ->
                                 forall n1 y1, In (n1, y1) (c_ifaces cc) -> In n1 (name :: map fst done)).
    { intros cc E n1 y1 Hin. rewrite E in Hin. right. apply (n_ifaces _ _ _ HI n1 y1 Hin). }
    assert (Hdone_key : forall c0, In c0 done -> In (canon (a_redirects a) (fst c0)) (map fst (a_imports a))).
    { intros c0 Hc0. apply (ni_total _ _ _ I0). now apply in_map. }
    apply aggregate_cases in H as [[existing [cc [Ea [Hm [-> ->]]]]] | [[en [ek [cc [im [rd' [Ea [Ef [Hm [Hr [-> ->]]]]]]]]]] | [k' [cc [Ea [Ef [Hm [Hh [-> ->]]]]]]]]].
    - (* the name is an import already *)
      destruct (Hroots name existing (assoc_in _ _ _ Ea)) as [y [oidr [e [d0 [-> [IDr MO]]]]]].
      destruct (nmerge_into a s done t i d oid eb ids y oidr e d0 (rown name) cc HI Ct IDc IDr Hm)
        as [em [idsr' [d1 [Htm [ID' [M [Fr [Rm Sub]]]]]]]].
      pose proof (mf_imports _ _ _ Fr) as Him. cbn [c_imports core_of] in Him.
      cbn [a_imports a_redirects agg_of] in I'. rewrite Him in *.
      assert (Hkname : In name (map fst (a_imports a))) by (eapply assoc_in_keys; eauto).
      apply (NestInv_assemble a s done (name, (t, KInstance i)) (XInst eb) ids cc (a_imports a) (a_redirects a) (upd rown name idsr'));
        auto.
      + apply Hif_old. apply (mf_ifaces _ _ _ Fr).
      + intros n k Hin. destruct (str_eqb n name) eqn:En.
        * apply seqb_eq in En. subst n. assert (k = KInstance y) as -> by (apply in_assoc in Hin; auto; congruence).
          exists y, oidr, em, d1. split; auto. rewrite upd_same. split; auto.
          rewrite filter_cons_true; [|unfold on_import; cbn [fst]; rewrite (canon_key _ _ _ name I0 Hkname); apply seqb_refl].
          eapply MO_cons; eauto.
        * assert (N : n <> name) by (intros ->; rewrite seqb_refl in En; discriminate).
          destruct (Hroots n k Hin) as [y0 [oid0 [e0 [d2 [-> [ID0 MO0]]]]]]. exists y0, oid0, e0, d2. split; auto.
          rewrite upd_other by auto. split.
          -- eapply root_untouched; [exact Fr| |exact ID0]. intros j Hj. apply (Hrdisj n name j); auto.
             change n with (fst (n, KInstance y0)). now apply in_map.
          -- rewrite filter_cons_false; auto. unfold on_import. cbn [fst]. rewrite (canon_key _ _ _ name I0 Hkname).
             apply seqb_false. auto.
      + intros n m j Hn Hm' Nnm Hjn Hjm. unfold upd in Hjn, Hjm.
        destruct (in_keys_assoc _ _ Hn) as [kn Hkn]. destruct (in_keys_assoc _ _ Hm') as [km Hkm].
        apply assoc_in in Hkn, Hkm.
        destruct (str_eqb n name) eqn:En, (str_eqb m name) eqn:Em.
        * apply seqb_eq in En, Em. congruence.
        * apply seqb_eq in En. subst n. destruct (Sub j Hjn) as [X|X]; [exact (Hrdisj name m j Hn Hm' Nnm X Hjm)|].
          pose proof (old_ids_lt a done rown m km j Hroots Hkm Hjm). lia.
        * apply seqb_eq in Em. subst m. destruct (Sub j Hjm) as [X|X]; [exact (Hrdisj n name j Hn Hm' Nnm Hjn X)|].
          pose proof (old_ids_lt a done rown n kn j Hroots Hkn Hjn). lia.
        * exact (Hrdisj n m j Hn Hm' Nnm Hjn Hjm).
    - (* a semver-compatible import *)
      assert (Hen : In (en, ek) (a_imports a) /\ compat name en = true).
      { unfold find_compat in Ef. destruct (alt_key name) as [[ak nv]|] eqn:An; [|discriminate].
        apply find_on_track_some in Ef as [Hin [ev Ae]]. split; auto. apply (compat_same_key _ _ _ _ _ _ An Ae). reflexivity. }
      destruct Hen as [Hin Hcompat].
      assert (Hek : assoc en (a_imports a) = Some ek) by (apply in_assoc; [exact NDim|exact Hin]).
      assert (Hnin : ~ In name (map fst (a_imports a))) by now apply assoc_none_keys.
      assert (Hken : In en (map fst (a_imports a))) by (eapply assoc_in_keys; eauto).
      assert (Nne : name <> en) by (intros ->; contradiction).
      destruct (Hroots en ek Hin) as [y [oidr [e [d0 [-> [IDr MO]]]]]].
      destruct (nmerge_into a s done t i d oid eb ids y oidr e d0 (rown en) cc HI Ct IDc IDr Hm)
        as [em [idsr' [d1 [Htm [ID' [M [Fr [Rm Sub]]]]]]]].
      pose proof (mf_imports _ _ _ Fr) as Him. cbn [c_imports core_of] in Him.
      rewrite Him in Hr. unfold rename in Hr.
      destruct (alt_key name) as [[ak nv]|]; [|discriminate]. destruct (alt_key en) as [[ak' ev]|]; [|discriminate].
      destruct (version_gtb nv ev).
      + (* the new name takes over *)
        rewrite Hek in Hr. injection Hr as <- <-. cbn [a_imports a_redirects agg_of] in I'.
        change (map (fun r : str * str => if str_eqb (snd r) en then (fst r, name) else r) (a_redirects a))
          with (map (retarget en name) (a_redirects a)) in *.
        set (rd' := ins en name (map (retarget en name) (a_redirects a))) in *.
        set (im := ins name (KInstance y) (rem en (a_imports a))) in *.
        assert (Hnr : assoc name (rem en (a_imports a)) = None).
        { apply assoc_none_keys. intros X. apply in_keys_rem in X; [tauto|exact NDim]. }
        assert (Hk' : In name (map fst im)) by (eapply assoc_in_keys; apply assoc_ins_same).
        assert (Hcan : forall c0, In c0 done ->
                   canon rd' (fst c0) = if str_eqb (canon (a_redirects a) (fst c0)) en then name else canon (a_redirects a) (fst c0)).
        { intros c0 _. apply (canon_high _ _ _ name en (fst c0) I0 Hken). }
        assert (Him_in : forall n k, In (n, k) im -> (n = name /\ k = KInstance y) \/ (n <> name /\ n <> en /\ In (n, k) (a_imports a))).
        { intros n k Hnk. apply in_ins in Hnk as [[-> ->]|Hnk]; [now left|]. right.
          assert (Hkn : In n (map fst (rem en (a_imports a)))) by (change n with (fst (n, k)); now apply in_map).
          apply in_keys_rem in Hkn as [Hkn Nn]; [|exact NDim]. split; [intros ->; contradiction|]. split; auto. eapply in_rem; eauto. }
        apply (NestInv_assemble a s done (name, (t, KInstance i)) (XInst eb) ids cc im rd' (upd rown name idsr')); auto.
        * apply Hif_old. apply (mf_ifaces _ _ _ Fr).
        * intros n k Hnk. destruct (Him_in n k Hnk) as [[-> ->]|[Nn [Nen Hold]]].
          -- exists y, oidr, em, d1. split; auto. rewrite upd_same. split; auto.
             rewrite filter_cons_true; [|unfold on_import; cbn [fst]; rewrite (canon_key _ _ _ name I' Hk'); apply seqb_refl].
             assert (Ef' : filter (on_import rd' name) done = filter (on_import (a_redirects a) en) done).
             { apply filter_ext_in. intros c0 Hc0. unfold on_import. rewrite (Hcan c0 Hc0).
               destruct (str_eqb (canon (a_redirects a) (fst c0)) en) eqn:E; [apply seqb_refl|].
               apply seqb_false. intros X. apply Hnin. rewrite <- X. now apply Hdone_key. }
             rewrite Ef'. eapply MO_cons; eauto.
          -- destruct (Hroots n k Hold) as [y0 [oid0 [e0 [d2 [-> [ID0 MO0]]]]]]. exists y0, oid0, e0, d2. split; auto.
             rewrite upd_other by auto. split.
             ++ eapply root_untouched; [exact Fr| |exact ID0]. intros j Hj. apply (Hrdisj n en j); auto.
                change n with (fst (n, KInstance y0)). now apply in_map.
             ++ rewrite filter_cons_false; [|unfold on_import; cbn [fst]; rewrite (canon_key _ _ _ name I' Hk'); apply seqb_false; auto].
                assert (Ef' : filter (on_import rd' n) done = filter (on_import (a_redirects a) n) done).
                { apply filter_ext_in. intros c0 Hc0. unfold on_import. rewrite (Hcan c0 Hc0).
                  destruct (str_eqb (canon (a_redirects a) (fst c0)) en) eqn:E; auto.
                  apply seqb_eq in E. rewrite E. rewrite (seqb_false name n), (seqb_false en n); auto. }
                now rewrite Ef'.
        * intros n m j Hn Hm' Nnm Hjn Hjm. unfold upd in Hjn, Hjm.
          destruct (in_keys_assoc _ _ Hn) as [kn Hkn]. destruct (in_keys_assoc _ _ Hm') as [km Hkm].
          apply assoc_in in Hkn, Hkm. apply Him_in in Hkn, Hkm.
          destruct (str_eqb n name) eqn:En, (str_eqb m name) eqn:Em.
          -- apply seqb_eq in En, Em. congruence.
          -- apply seqb_eq in En. subst n. destruct Hkm as [[-> _]|[_ [Nm Hkm]]]; [now rewrite seqb_refl in Em|].
             assert (Hm2 : In m (map fst (a_imports a))) by (change m with (fst (m, km)); now apply in_map).
             destruct (Sub j Hjn) as [X|X]; [apply (Hrdisj en m j Hken Hm2); auto|].
             pose proof (old_ids_lt a done rown m km j Hroots Hkm Hjm). lia.
          -- apply seqb_eq in Em. subst m. destruct Hkn as [[-> _]|[_ [Nn Hkn]]]; [now rewrite seqb_refl in En|].
             assert (Hn2 : In n (map fst (a_imports a))) by (change n with (fst (n, kn)); now apply in_map).
             destruct (Sub j Hjm) as [X|X]; [apply (Hrdisj n en j Hn2 Hken); auto|].
             pose proof (old_ids_lt a done rown n kn j Hroots Hkn Hjn). lia.
          -- destruct Hkn as [[-> _]|[_ [Nn Hkn]]]; [now rewrite seqb_refl in En|].
             destruct Hkm as [[-> _]|[_ [Nm Hkm]]]; [now rewrite seqb_refl in Em|].
             apply (Hrdisj n m j); auto; [change n with (fst (n, kn)) | change m with (fst (m, km))]; now apply in_map.
      + (* the existing name stays *)
        injection Hr as <- <-. cbn [a_imports a_redirects agg_of] in I'.
        set (rd' := ins name en (a_redirects a)) in *.
        assert (Hcan : forall c0, In c0 done -> canon rd' (fst c0) = canon (a_redirects a) (fst c0)).
        { intros c0 Hc0. apply (rename_low_track _ _ _ I0 name en (KInstance y) Hnin Hek Hcompat). now apply in_map. }
        assert (Hcn : canon rd' name = en) by (unfold canon, rd'; now rewrite assoc_ins_same).
        apply (NestInv_assemble a s done (name, (t, KInstance i)) (XInst eb) ids cc (a_imports a) rd' (upd rown en idsr')); auto.
        * apply Hif_old. apply (mf_ifaces _ _ _ Fr).
        * intros n k Hnk. destruct (str_eqb n en) eqn:En.
          -- apply seqb_eq in En. subst n. assert (k = KInstance y) as -> by (apply in_assoc in Hnk; auto; congruence).
             exists y, oidr, em, d1. split; auto. rewrite upd_same. split; auto.
             rewrite filter_cons_true; [|unfold on_import; cbn [fst]; rewrite Hcn; apply seqb_refl].
             assert (Ef' : filter (on_import rd' en) done = filter (on_import (a_redirects a) en) done).
             { apply filter_ext_in. intros c0 Hc0. unfold on_import. now rewrite (Hcan c0 Hc0). }
             rewrite Ef'. eapply MO_cons; eauto.
          -- assert (N : n <> en) by (intros ->; rewrite seqb_refl in En; discriminate).
             destruct (Hroots n k Hnk) as [y0 [oid0 [e0 [d2 [-> [ID0 MO0]]]]]]. exists y0, oid0, e0, d2. split; auto.
             rewrite upd_other by auto. split.
             ++ eapply root_untouched; [exact Fr| |exact ID0]. intros j Hj. apply (Hrdisj n en j); auto.
                change n with (fst (n, KInstance y0)). now apply in_map.
             ++ rewrite filter_cons_false; [|unfold on_import; cbn [fst]; rewrite Hcn; apply seqb_false; auto].
                assert (Ef' : filter (on_import rd' n) done = filter (on_import (a_redirects a) n) done).
                { apply filter_ext_in. intros c0 Hc0. unfold on_import. now rewrite (Hcan c0 Hc0). }
                now rewrite Ef'.
        * intros n m j Hn Hm' Nnm Hjn Hjm. unfold upd in Hjn, Hjm.
          destruct (in_keys_assoc _ _ Hn) as [kn Hkn]. destruct (in_keys_assoc _ _ Hm') as [km Hkm].
          apply assoc_in in Hkn, Hkm.
          destruct (str_eqb n en) eqn:En, (str_eqb m en) eqn:Em.
          -- apply seqb_eq in En, Em. congruence.
          -- apply seqb_eq in En. subst n. destruct (Sub j Hjn) as [X|X]; [exact (Hrdisj en m j Hn Hm' Nnm X Hjm)|].
             pose proof (old_ids_lt a done rown m km j Hroots Hkm Hjm). lia.
          -- apply seqb_eq in Em. subst m. destruct (Sub j Hjm) as [X|X]; [exact (Hrdisj n en j Hn Hm' Nnm Hjn X)|].
             pose proof (old_ids_lt a done rown n kn j Hroots Hkn Hjn). lia.
          -- exact (Hrdisj n m j Hn Hm' Nnm Hjn Hjm).
    - (* a new import *)
      destruct fuel as [|f]; [discriminate|]. cbn [remap_item_kind] in Hm.
      apply bindM_ok in Hm as [y [c1 [H1 H2]]]. apply ret_ok in H2 as [-> ->].
      assert (Hlook : forall nm, oid = Some nm ->
                                 assoc nm (c_ifaces (core_of a s)) = None /\ find_compat nm (ord (c_ifaces (core_of a s))) = None /\
                                 rm_get (TInterface i) (c_remapped (core_of a s)) = None).
      { intros nm Hnm. destruct Hoid as [X|X]; [congruence|]. assert (nm = name) as -> by congruence.
        cbn [c_ifaces c_remapped core_of].
        destruct (no_iface_on_track_n (a_imports a) (a_redirects a) (map fst done) (a_ifaces a) name I0 (n_ifaces _ _ _ HI) Ea Ef) as [L1 L2].
        split; [exact L1|]. split; [exact L2|].
        (* a recorded interface with an identifier is the root of an earlier contribution of that name: the name would be
           an import (or compatible with one) already *)
        destruct (rm_get (TInterface i) (a_remapped a)) as [v|] eqn:Xr; auto. exfalso.
        destruct (n_ifkeys _ _ _ HI _ _ Xr) as [c0 [tr0 [ids0 [Hin0 [Hc0 Hj0]]]]].
        pose proof (ncontrib_tag _ _ _ _ Hc0 Hj0) as Tg0.
        destruct Hc0 as [Ct0 [_ [d0 [i0 [oid0 [e0 [_ [ID0 [_ Hoid0]]]]]]]]].
        destruct (IDen_root _ _ _ _ _ _ IDc) as [_ [x [Hgx Hix]]].
        assert (Et : fst (snd c0) = t).
        { apply Col_same; auto. rewrite <- Tg0. now destruct (get_if_lt _ _ _ Hgx). }
        rewrite Et in ID0.
        destruct (IDen_anon _ _ _ _ _ _ ID0 i Hj0) as [->|[x' [Hgx' Hix']]]; [|rewrite Hgx in Hgx'; congruence].
        destruct (IDen_root _ _ _ _ _ _ ID0) as [_ [x0 [Hgx0 Hix0]]]. rewrite Hgx in Hgx0. injection Hgx0 as <-.
        assert (E0 : fst c0 = name) by (destruct Hoid0; congruence).
        apply (no_name_on_track (a_imports a) (a_redirects a) (map fst done) name I0 Ea Ef name);
          [rewrite <- E0; now apply in_map | apply compat_refl]. }
      destruct (RI_all ord cf Col Col_same tag0 Col_tag t Ct d f i oid eb ids (core_of a s) y c1 (n_minv _ _ _ HI) IDc Hlook H1)
        as [ids' [ID' [M [E [Nw [Rm0 Hifc]]]]]].
      assert (Rm : rm_frame ids (core_of a s) c1).
      { eapply rm_frame_weaken; [|exact Rm0]. intros j Hj. destruct oid; [|destruct Hj].
        destruct Hj as [<-|[]]. now destruct (IDen_root _ _ _ _ _ _ IDc). }
      pose proof (ax_imports _ _ E) as Him. cbn [c_imports core_of] in Him.
      rewrite Him in *. cbn [a_imports a_redirects agg_of] in I'.
      assert (Hnin : ~ In name (map fst (a_imports a))) by now apply assoc_none_keys.
      set (im := ins name (KInstance y) (a_imports a)) in *.
      assert (Hk' : In name (map fst im)) by (eapply assoc_in_keys; apply assoc_ins_same).
      assert (Him_in : forall n k, In (n, k) im -> (n = name /\ k = KInstance y) \/ (n <> name /\ In (n, k) (a_imports a))).
      { intros n k Hnk. apply in_ins in Hnk as [[-> ->]|Hnk]; [now left|]. right. split; auto.
        intros ->. apply Hnin. change name with (fst (name, k)). now apply in_map. }
      apply (NestInv_assemble a s done (name, (t, KInstance i)) (XInst eb) ids c1 im (a_redirects a) (upd rown name ids')); auto.
      + intros n1 y1 Hin1. cbn [fst]. rewrite Hifc in Hin1. cbn [c_ifaces core_of] in Hin1. destruct oid as [nm|].
        * apply in_ins in Hin1 as [[-> _]|Hin1]; [|right; apply (n_ifaces _ _ _ HI n1 y1 Hin1)].
          destruct Hoid as [X|X]; [discriminate|]. injection X as ->. now left.
        * right. apply (n_ifaces _ _ _ HI n1 y1 Hin1).
      + intros n k Hnk. destruct (Him_in n k Hnk) as [[-> ->]|[Nn Hold]].
        * exists y, oid, eb, d. split; auto. rewrite upd_same. split; auto.
          rewrite filter_cons_true; [|unfold on_import; cbn [fst]; rewrite (canon_key _ _ _ name I' Hk'); apply seqb_refl].
          assert (Ef' : filter (on_import (a_redirects a) name) done = []).
          { apply filter_none. intros c0 Hc0. unfold on_import. apply seqb_false. intros X. apply Hnin. rewrite <- X.
            now apply Hdone_key. }
          rewrite Ef'. eapply MO_one; eauto.
        * destruct (Hroots n k Hold) as [y0 [oid0 [e0 [d2 [-> [ID0 MO0]]]]]]. exists y0, oid0, e0, d2. split; auto.
          rewrite upd_other by auto. split.
          -- eapply IDen_frame; [apply E| |exact ID0]. intros j z _ Hz. now apply (AExt_get_if _ _ _ _ E).
          -- rewrite filter_cons_false; auto. unfold on_import. cbn [fst]. rewrite (canon_key _ _ _ name I' Hk').
             apply seqb_false; auto.
      + intros n m j Hn Hm' Nnm Hjn Hjm. unfold upd in Hjn, Hjm.
        destruct (in_keys_assoc _ _ Hn) as [kn Hkn]. destruct (in_keys_assoc _ _ Hm') as [km Hkm].
        apply assoc_in in Hkn, Hkm. apply Him_in in Hkn, Hkm.
        destruct (str_eqb n name) eqn:En, (str_eqb m name) eqn:Em.
        * apply seqb_eq in En, Em. congruence.
        * destruct Hkm as [[-> _]|[_ Hkm]]; [now rewrite seqb_refl in Em|].
          pose proof (Nw j Hjn) as X. cbn [c_types core_of] in X. pose proof (old_ids_lt a done rown m km j Hroots Hkm Hjm). lia.
        * destruct Hkn as [[-> _]|[_ Hkn]]; [now rewrite seqb_refl in En|].
          pose proof (Nw j Hjm) as X. cbn [c_types core_of] in X. pose proof (old_ids_lt a done rown n kn j Hroots Hkn Hjn). lia.
        * destruct Hkn as [[-> _]|[_ Hkn]]; [now rewrite seqb_refl in En|].
          destruct Hkm as [[-> _]|[_ Hkm]]; [now rewrite seqb_refl in Em|].
          apply (Hrdisj n m j); auto; [change n with (fst (n, kn)) | change m with (fst (m, km))]; now apply in_map.
  Qed.
End NHist.
