(** C14: the nesting depth of a returned expression is a LOWER bound of the recursion depth of the
    parser: [parse_expr_f f] spends one unit of fuel per activation of [Expr::parse] on the current
    path, and an expression of depth [n] is never returned with less than [n] units. Together with
    [NoPanicDepth.deep_parse] this makes [rec_depth] what its name says. *)
From WacV Require Import Str Token Lexer Semver Ast Parser ParserComb NoPanicSpans.
From Coq Require Import Lia.
Local Open Scope nat_scope.

Lemma list_max_le l n : Forall (fun x => x <= n) l -> list_max l <= n.
Proof. induction 1 as [|x l Hx _ IH]; cbn [list_max fold_right]; [lia|]. unfold list_max in IH. lia. Qed.

Lemma delim_loop_forall {A} (Q : A -> Prop) e until commas first (p : parser A) :
  (forall ts a r, p ts = POk a r -> Q a) ->
  forall n ts items tr r, delim_loop n e until commas first p ts = POk (items, tr) r -> Forall Q items.
Proof.
  intros Hp. induction n as [|n IH]; intros ts items tr r; cbn [delim_loop]; [discriminate|].
  destruct (peek_kind ts) as [k|]; [|intros H; now apply la_fail_not_ok in H].
  destruct (token_eqb k until); [intros H; inversion H; constructor|].
  destruct (mem_tok k first); [|intros H; now apply la_fail_not_ok in H].
  intros H. apply bind_ok in H. destruct H as (a & r1 & Ha & H).
  destruct (peek_kind r1) as [k2|]; [|now apply la_fail_not_ok in H].
  destruct (token_eqb k2 until); [inversion H; subst; constructor; [eapply Hp; eauto|constructor]|].
  destruct commas.
  - apply bind_ok in H. destruct H as (sp & r2 & _ & H). apply bind_ok in H.
    destruct H as ([its tr'] & r3 & Hrec & H). inversion H; subst. constructor; [eapply Hp; eauto|eapply IH; eauto].
  - apply bind_ok in H. destruct H as ([its tr'] & r3 & Hrec & H). inversion H; subst.
    constructor; [eapply Hp; eauto|eapply IH; eauto].
Qed.

Section Bound.
Variable e : env.

Lemma inst_arg_depth (self : parser expr) f :
  (forall ts x r, self ts = POk x r -> expr_depth x <= f) ->
  forall ts a r, parse_inst_arg self e ts = POk a r -> arg_depth a <= f.
Proof.
  intros Hs ts a r. unfold parse_inst_arg.
  destruct (peek_kind ts) as [k|]; [|intros H; now apply la_fail_not_ok in H].
  destruct (token_eqb k TEllipsis).
  - intros H. apply bind_ok in H. destruct H as (t & r1 & _ & H).
    destruct (peek_in [TComma; TCloseBrace] r1); [inversion H; cbn; lia|].
    apply bind_ok in H. destruct H as (i & r2 & _ & H). inversion H. cbn. lia.
  - destruct (mem_tok k [TIdent; TString]); [|intros H; now apply la_fail_not_ok in H].
    destruct (is_colon (peek2_kind ts)).
    + intros H. apply bind_ok in H. destruct H as (n & r1 & _ & H). apply bind_ok in H.
      destruct H as (sp & r2 & _ & H). apply bind_ok in H. destruct H as (x & r3 & Hx & H). inversion H; subst.
      cbn [arg_depth]. eapply Hs; eauto.
    + intros H. apply bind_ok in H. destruct H as (i & r1 & _ & H). inversion H. cbn. lia.
Qed.

Lemma primary_step_depth (self : parser expr) f :
  (forall ts x r, self ts = POk x r -> expr_depth x <= f) ->
  forall ts p r, primary_step self e ts = POk p r -> primary_depth p <= S f.
Proof.
  intros Hs ts p r H. unfold primary_step in H. apply alt_ok in H.
  destruct H as (k & first & q & _ & _ & Hq & Hin & _).
  cbn [In] in Hin. destruct Hin as [Hin|[Hin|[Hin|[]]]]; inversion Hin; subst; clear Hin.
  - apply bind_ok in Hq. destruct Hq as (start & r1 & _ & H). apply bind_ok in H. destruct H as (pkg & r2 & _ & H).
    apply bind_ok in H. destruct H as (ob & r3 & _ & H). apply bind_ok in H. destruct H as ([args tr] & r4 & Hd & H).
    destruct (args_ok (dv e) args tr); [|discriminate]. apply bind_ok in H. destruct H as (close & r5 & _ & H).
    inversion H; subst. cbn [primary_depth]. apply le_n_S. apply list_max_le. apply Forall_map.
    unfold delimited in Hd. eapply delim_loop_forall; [|exact Hd]. apply inst_arg_depth. exact Hs.
  - apply bind_ok in Hq. destruct Hq as (start & r1 & _ & H). apply bind_ok in H. destruct H as (inner & r2 & Hi & H).
    apply bind_ok in H. destruct H as (close & r3 & _ & H). inversion H; subst. cbn [primary_depth].
    apply le_n_S. eapply Hs; eauto.
  - apply bind_ok in Hq. destruct Hq as (i & r1 & _ & H). inversion H. cbn. lia.
Qed.

(** An expression of depth [n] costs at least [n] units of recursion fuel. *)
Lemma parse_expr_f_depth : forall f ts x r, parse_expr_f f e ts = POk x r -> expr_depth x <= f.
Proof.
  induction f as [|f IH]; intros ts x r; cbn [parse_expr_f]; [discriminate|].
  unfold expr_step. intros H. apply bind_ok in H. destruct H as (p & r1 & Hp & H).
  apply bind_ok in H. destruct H as (post & r2 & _ & H). inversion H; subst.
  unfold mk_expr. cbn [expr_depth]. eapply primary_step_depth; [|exact Hp]. exact IH.
Qed.

End Bound.
