(** C02: the end-to-end form over API histories: for every graph built through the API (any sequence of
    operations, accepted or rejected), whenever the model of [encode] (its own [toposort] included)
    succeeds, the log decodes to the wiring specification for the order that [toposort] computed; and a
    graph with a cycle gets the cycle error. Combines [ToposortMain] with the C06 invariant
    ([reach_inv]) and the derivation of [EncInv] for reachable graphs (C01 [enc_inv_reachable]). *)
From Coq Require Import List Arith Bool NArith Permutation.
From WacV Require Import Str Graph Wiring WiringSpec EncodeModel GraphInv GraphTheorems WiringDecode WiringSim
  WiringCorrect ValidEncInv ToposortDfs ToposortPhase1 ToposortPhase2 ToposortMain.
Import ListNotations.
Local Open Scope nat_scope.

Lemma wiring_correct_reachable e u ops dc tau st names :
  UnivOK e u ->
  encode_model e u (run u ops) dc tau = ROk (st, names) ->
  (forall p, In p (e_dedup st) -> fst p = snd p) ->
  exists ord, toposort_full (run u ops) = inl ord /\ Permutation ord (node_ids (run u ops)) /\ ~ has_cycle (run u ops) /\
    option_map (erase_defs (def_names e (run u ops))) (decode_wiring names (e_log st))
    = Some (wiring_spec e u (run u ops) dc ord).
Proof.
  intros UO. apply wiring_correct_encode_model; [apply reach_inv | now apply enc_inv_reachable].
Qed.

Lemma encode_reachable_cycle e u ops dc tau :
  has_cycle (run u ops) -> encode_model e u (run u ops) dc tau = RErr ECycle.
Proof. apply encode_model_cycle. apply reach_inv. Qed.
