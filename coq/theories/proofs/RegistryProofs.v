(** Proofs for property C20 (model/Registry.v against spec/RegistrySpec.v). *)
From Coq Require Import Permutation.
From WacV Require Import Str Ord Semver Registry RegistrySpec SemverProofs.

(** * Equality tests *)
Lemma ver_eqb_eq a b : ver_eqb a b = true <-> a = b.
Proof.
  unfold ver_eqb. split.
  - destruct (cmp_version a b) eqn:E; try discriminate. intros _.
    exact (tc_eq _ cmp_version_total a b E).
  - intros ->. now rewrite (tc_refl _ cmp_version_total).
Qed.

Lemma over_eqb_eq a b : over_eqb a b = true <-> a = b.
Proof.
  destruct a as [x|], b as [y|]; cbn; try (split; congruence).
  rewrite ver_eqb_eq. split; congruence.
Qed.

Lemma pkey_eqb_eq a b : pkey_eqb a b = true <-> a = b.
Proof.
  destruct a as [n v], b as [n' v']. unfold pkey_eqb; cbn.
  rewrite andb_true_iff, str_eqb_eq, over_eqb_eq. split; [intros [-> ->]; reflexivity | intros [= -> ->]; auto].
Qed.

Lemma is_nil_true {A} (l : list A) : is_nil l = true <-> l = [].
Proof. destruct l; cbn; split; congruence. Qed.

Lemma cmp_le_trans {A} (cmp : A -> A -> comparison) (T : total_cmp cmp) a b c :
  cmp a b <> Gt -> cmp b c <> Gt -> cmp a c <> Gt.
Proof.
  intros H1 H2. destruct (cmp a b) eqn:E1; [apply (tc_eq _ T) in E1; subst; exact H2 | | congruence].
  destruct (cmp b c) eqn:E2; [apply (tc_eq _ T) in E2; subst; rewrite E1; discriminate | | congruence].
  rewrite (tc_trans _ T _ _ _ E1 E2). discriminate.
Qed.

(** * IndexMap facts *)
Section IMLemmas.
  Context {K V : Type} (eqb : K -> K -> bool).
  Hypothesis eqb_eq : forall a b, eqb a b = true <-> a = b.

  Lemma im_eqb_refl a : eqb a a = true.
  Proof. now apply eqb_eq. Qed.

  Lemma im_eqb_neq a b : eqb a b = false <-> a <> b.
  Proof.
    destruct (eqb a b) eqn:E; split; try congruence.
    - apply eqb_eq in E. congruence.
    - intros _ H. apply eqb_eq in H. congruence.
  Qed.

  Lemma im_get_In (m : list (K * V)) k v : im_get eqb m k = Some v -> In (k, v) m.
  Proof.
    induction m as [|[k' v'] r IH]; cbn; [discriminate|]. destruct (eqb k' k) eqn:E.
    - intros [= ->]. apply eqb_eq in E. subst. now left.
    - intros H. right. auto.
  Qed.

  Lemma im_get_None (m : list (K * V)) k : im_get eqb m k = None <-> ~ In k (map fst m).
  Proof.
    induction m as [|[k' v'] r IH]; cbn.
    - tauto.
    - destruct (eqb k' k) eqn:E.
      + apply eqb_eq in E. split; [discriminate | intros H; exfalso; apply H; now left].
      + apply im_eqb_neq in E. rewrite IH. tauto.
  Qed.

  Lemma In_im_get (m : list (K * V)) k v : NoDup (map fst m) -> In (k, v) m -> im_get eqb m k = Some v.
  Proof.
    induction m as [|[k' v'] r IH]; cbn; [tauto|]. intros ND [H|H].
    - injection H as -> ->. now rewrite im_eqb_refl.
    - inversion ND as [|? ? Hn ND']; subst. destruct (eqb k' k) eqn:E.
      + apply eqb_eq in E. subst. exfalso. apply Hn. apply (in_map fst) in H. exact H.
      + auto.
  Qed.

  Lemma im_insert_fresh (m : list (K * V)) k v : ~ In k (map fst m) -> im_insert eqb m k v = m ++ [(k, v)].
  Proof.
    induction m as [|[k' v'] r IH]; cbn; [reflexivity|]. intros H.
    destruct (eqb k' k) eqn:E.
    - apply eqb_eq in E. exfalso. apply H. now left.
    - f_equal. apply IH. tauto.
  Qed.

  Lemma im_insert_In (m : list (K * V)) k v k0 v0 :
    In (k0, v0) (im_insert eqb m k v) -> In (k0, v0) m \/ (k0 = k /\ v0 = v).
  Proof.
    induction m as [|[k' v'] r IH]; cbn.
    - intros [[= <- <-]|[]]. now right.
    - destruct (eqb k' k) eqn:E; cbn.
      + apply eqb_eq in E. subst k'. intros [[= <- <-]|H]; [now right | left; now right].
      + intros [H|H]; [left; now left|]. destruct (IH H) as [H'|H']; [left; now right | now right].
  Qed.

  Lemma im_insert_new (m : list (K * V)) k v : In (k, v) (im_insert eqb m k v).
  Proof.
    induction m as [|[k' v'] r IH]; cbn; [now left|].
    destruct (eqb k' k) eqn:E; cbn.
    - apply eqb_eq in E. subst. now left.
    - now right.
  Qed.

  Lemma im_insert_other (m : list (K * V)) k v k0 v0 :
    In (k0, v0) m -> k0 <> k -> In (k0, v0) (im_insert eqb m k v).
  Proof.
    induction m as [|[k' v'] r IH]; cbn; [tauto|]. intros [H|H] Hn.
    - injection H as -> ->. destruct (eqb k0 k) eqn:E; cbn; [|now left].
      apply eqb_eq in E. congruence.
    - destruct (eqb k' k); cbn; right; auto.
  Qed.

  Lemma im_insert_NoDup (m : list (K * V)) k v : NoDup (map fst m) -> NoDup (map fst (im_insert eqb m k v)).
  Proof.
    induction m as [|[k' v'] r IH]; cbn; intros ND.
    - constructor; [tauto | constructor].
    - inversion ND as [|? ? Hn ND']; subst. destruct (eqb k' k) eqn:E; cbn.
      + constructor; assumption.
      + constructor; [|auto]. intros HI. apply in_map_iff in HI. destruct HI as [[k1 v1] [E1 HI]]. cbn in E1. subst k1.
        destruct (im_insert_In _ _ _ _ _ HI) as [H|[H _]].
        * apply Hn. apply (in_map fst) in H. exact H.
        * apply im_eqb_neq in E. congruence.
  Qed.

  Lemma im_insert_length (m : list (K * V)) k v : (length (im_insert eqb m k v) <= S (length m))%nat.
  Proof. induction m as [|[k' v'] r IH]; cbn; [lia|]. destruct (eqb k' k); cbn; lia. Qed.

  Lemma im_insert_keys_incl (m : list (K * V)) k v x : In x (map fst m) -> In x (map fst (im_insert eqb m k v)).
  Proof.
    induction m as [|[k' v'] r IH]; cbn; [tauto|]. destruct (eqb k' k); cbn; tauto.
  Qed.
End IMLemmas.

(** * Maxima *)
Lemma fold_max_none l acc : fold_left max_step l acc = None -> l = [] /\ acc = None.
Proof.
  revert acc. induction l as [|a l IH]; cbn; intros acc H; [auto|].
  destruct (IH _ H) as [_ H']. unfold max_step in H'. destruct acc as [a0|]; [|discriminate].
  destruct (cmp_version (fst a0) (fst a)); discriminate.
Qed.

Lemma fold_max_spec l : forall acc r, fold_left max_step l acc = Some r ->
  (In r l \/ acc = Some r) /\
  (forall x, In x l \/ acc = Some x -> cmp_version (fst x) (fst r) <> Gt).
Proof.
  induction l as [|a l IH]; cbn; intros acc r H.
  - split; [now right|]. intros x [[]|Hx]. rewrite H in Hx. injection Hx as ->.
    rewrite (tc_refl _ cmp_version_total). discriminate.
  - destruct (IH _ _ H) as [A B]. split.
    + destruct A as [A|A]; [left; now right|]. unfold max_step in A. destruct acc as [a0|].
      * destruct (cmp_version (fst a0) (fst a)); injection A as <-; auto.
      * injection A as <-. auto.
    + intros x [[<-|Hx]|Hx].
      * unfold max_step in B. destruct acc as [a0|].
        -- destruct (cmp_version (fst a0) (fst a)) eqn:E; try (apply B; now right).
           apply (cmp_le_trans _ cmp_version_total _ (fst a0)).
           ++ rewrite (tc_anti _ cmp_version_total), E. discriminate.
           ++ apply B. now right.
        -- apply B. now right.
      * apply B. now left.
      * subst acc. cbn in B. destruct (cmp_version (fst x) (fst a)) eqn:E; try (apply B; now right).
        -- apply (cmp_le_trans _ cmp_version_total _ (fst a)); [rewrite E; discriminate | apply B; now right].
        -- apply (cmp_le_trans _ cmp_version_total _ (fst a)); [rewrite E; discriminate | apply B; now right].
Qed.

Lemma eligible_iff r : eligible r = true <-> exists c, snd r = Released c /\ pre (fst r) = [].
Proof.
  unfold eligible, star_matches. destruct (snd r) as [c|].
  - rewrite is_nil_true. split; [eauto | intros (c' & _ & H); exact H].
  - split; [discriminate | intros (c' & H & _); discriminate].
Qed.

(** The model's [find_latest_release]. *)
Lemma find_latest_some rels v st : find_latest_release rels = Some (v, st) ->
  exists c, st = Released c /\ In (v, Released c) rels /\ pre v = [] /\
            forall v' c', In (v', Released c') rels -> pre v' = [] -> cmp_version v' v <> Gt.
Proof.
  unfold find_latest_release. intros H. destruct (fold_max_spec _ _ _ H) as [[A|A] B]; [|discriminate].
  apply filter_In in A. destruct A as [A E]. apply eligible_iff in E. destruct E as (c & E1 & E2). cbn in *. subst st.
  exists c. repeat split; auto. intros v' c' I P.
  apply (B (v', Released c')). left. apply filter_In. split; [exact I|]. apply eligible_iff. exists c'. auto.
Qed.

Lemma find_latest_none rels : find_latest_release rels = None ->
  forall v c, In (v, Released c) rels -> pre v = [] -> False.
Proof.
  unfold find_latest_release. intros H v c I P. apply fold_max_none in H. destruct H as [H _].
  assert (X : In (v, Released c) (filter eligible rels)).
  { apply filter_In. split; [exact I|]. apply eligible_iff. exists c. auto. }
  rewrite H in X. exact X.
Qed.

(** The specification's [latest_b]. *)
Lemma latest_b_some rels c : latest_b rels = Some c ->
  exists v, In (v, Released c) rels /\ pre v = [] /\
            forall v' c', In (v', Released c') rels -> pre v' = [] -> cmp_version v' v <> Gt.
Proof.
  unfold latest_b. change (filter _ rels) with (filter eligible rels).
  set (cands := filter eligible rels).
  set (is_max := fun r : version * rstate =>
     forallb (fun r' => match cmp_version (fst r') (fst r) with Gt => false | _ => true end) cands).
  destruct (filter is_max cands) as [|[v0 [c0|]] rest] eqn:F; try discriminate.
  intros [= ->]. assert (I : In (v0, Released c) (filter is_max cands)) by (rewrite F; now left).
  apply filter_In in I. destruct I as [I M]. unfold cands in I. apply filter_In in I. destruct I as [I E].
  apply eligible_iff in E. destruct E as (c' & _ & P). cbn in P.
  exists v0. repeat split; auto. intros v' c'' I' P'.
  unfold is_max in M. rewrite forallb_forall in M.
  assert (X : In (v', Released c'') cands).
  { apply filter_In. split; [exact I'|]. apply eligible_iff. exists c''. auto. }
  specialize (M _ X). cbn in M. destruct (cmp_version v' v0); congruence.
Qed.

Lemma latest_b_none rels : latest_b rels = None ->
  forall v c, In (v, Released c) rels -> pre v = [] -> False.
Proof.
  unfold latest_b. change (filter _ rels) with (filter eligible rels).
  set (cands := filter eligible rels).
  set (is_max := fun r : version * rstate =>
     forallb (fun r' => match cmp_version (fst r') (fst r) with Gt => false | _ => true end) cands).
  intros H v c I P.
  assert (X : In (v, Released c) cands).
  { apply filter_In. split; [exact I|]. apply eligible_iff. exists c. auto. }
  destruct (fold_left max_step cands None) as [r|] eqn:F.
  - destruct (fold_max_spec _ _ _ F) as [[A|A] B]; [|discriminate].
    assert (M : In r (filter is_max cands)).
    { apply filter_In. split; [exact A|]. unfold is_max. apply forallb_forall. intros x Hx.
      specialize (B x (or_introl Hx)). destruct (cmp_version (fst x) (fst r)); congruence. }
    destruct (filter is_max cands) as [|[v0 [c0|]] rest] eqn:F2; try discriminate; [exact M|].
    assert (Y : In (v0, Yanked) (filter is_max cands)) by (rewrite F2; now left).
    apply filter_In in Y. destruct Y as [Y _]. apply filter_In in Y. destruct Y as [_ Y].
    apply eligible_iff in Y. destruct Y as (c' & Y & _). discriminate.
  - apply fold_max_none in F. destruct F as [F _]. rewrite F in X. exact X.
Qed.

(** * Registry lookups *)
Lemma release_In rels v st : release rels v = Some st -> In (v, st) rels.
Proof. apply im_get_In. exact ver_eqb_eq. Qed.

Lemma In_release rels v st : NoDup (map fst rels) -> In (v, st) rels -> release rels v = Some st.
Proof. apply In_im_get. exact ver_eqb_eq. Qed.

Lemma wf_rels reg n rels : wf_reg reg -> reg_find reg n = Some rels -> NoDup (map fst rels).
Proof.
  intros [_ W] H. apply (W n). eapply im_get_In; [exact str_eqb_eq | exact H].
Qed.

Lemma published_iff reg n rels v c : reg_find reg n = Some rels ->
  (Published reg n v c <-> release rels v = Some (Released c)).
Proof.
  intros H. unfold Published. split.
  - intros (rels' & H1 & H2). congruence.
  - intros H2. eauto.
Qed.

Lemma latest_unique reg n v c v' c' : Latest reg n v c -> Latest reg n v' c' -> v = v' /\ c = c'.
Proof.
  intros [[P1 Q1] M1] [[P2 Q2] M2].
  assert (E : v = v').
  { specialize (M1 v' c' (conj P2 Q2)). specialize (M2 v c (conj P1 Q1)).
    destruct (cmp_version v' v) eqn:E; try congruence.
    - symmetry. exact (tc_eq _ cmp_version_total _ _ E).
    - exfalso. apply M2. rewrite (tc_anti _ cmp_version_total), E. reflexivity. }
  subst v'. split; [reflexivity|].
  destruct P1 as (r1 & A1 & B1), P2 as (r2 & A2 & B2). congruence.
Qed.

(** * The executable per-key outcome is the declarative one. *)
Section Outcomes.
  Variable valid_name : str -> bool.
  Variable reg : registry.
  Hypothesis wf : wf_reg reg.

  Lemma latest_of_scan n rels v c : reg_find reg n = Some rels ->
    In (v, Released c) rels -> pre v = [] ->
    (forall v' c', In (v', Released c') rels -> pre v' = [] -> cmp_version v' v <> Gt) ->
    Latest reg n v c.
  Proof.
    intros F I P M. pose proof (wf_rels _ _ _ wf F) as ND.
    split; [split; [|exact P]|].
    - apply (published_iff _ _ _ _ _ F). now apply In_release.
    - intros v' c' [Pb Pr]. apply (published_iff _ _ _ _ _ F) in Pb. apply release_In in Pb. eauto.
  Qed.

  Lemma no_candidate_of_scan n rels : reg_find reg n = Some rels ->
    (forall v c, In (v, Released c) rels -> pre v = [] -> False) ->
    forall v c, ~ Candidate reg n v c.
  Proof.
    intros F N v c [Pb Pr]. apply (published_iff _ _ _ _ _ F) in Pb. apply release_In in Pb. eauto.
  Qed.

  Lemma key_outcome_sound ks : KeyOutcome valid_name reg ks (key_outcome_b valid_name reg ks).
  Proof.
    destruct ks as [[n ov] s]. unfold key_outcome_b.
    destruct (valid_name n) eqn:Vn; cbn [negb]; [|now constructor].
    destruct (reg_find reg n) as [rels|] eqn:F.
    2:{ apply KO_nopkg; [exact Vn|]. intros [rels F']. congruence. }
    assert (Ex : Exists_pkg reg n) by (exists rels; exact F).
    destruct ov as [v|].
    - destruct (release rels v) as [[c|]|] eqn:R.
      + apply KO_exact; [exact Vn|]. apply (published_iff _ _ _ _ _ F). exact R.
      + apply KO_nover; auto. intros c P. apply (published_iff _ _ _ _ _ F) in P. congruence.
      + apply KO_nover; auto. intros c P. apply (published_iff _ _ _ _ _ F) in P. congruence.
    - destruct (latest_b rels) as [c|] eqn:L.
      + destruct (latest_b_some _ _ L) as (v & I & P & M). apply (KO_latest _ _ _ _ v); [exact Vn|].
        eapply latest_of_scan; eauto.
      + apply KO_norel; auto. eapply no_candidate_of_scan; [exact F|]. exact (latest_b_none _ L).
  Qed.

  Lemma key_outcome_complete ks o : KeyOutcome valid_name reg ks o -> o = key_outcome_b valid_name reg ks.
  Proof.
    intros H. pose proof (key_outcome_sound ks) as S. revert S. generalize (key_outcome_b valid_name reg ks) as o'.
    intros o' S. inversion H; subst; inversion S; subst; try congruence; try tauto.
    all: repeat match goal with
         | [ H : Published _ _ _ _ |- _ ] => let r := fresh "r" in let A := fresh "A" in let B := fresh "B" in
                                             destruct H as (r & A & B)
         end.
    all: try (exfalso; match goal with [ H : ~ Exists_pkg _ _ |- _ ] => apply H; eexists; eassumption end).
    all: try congruence.
    all: try (exfalso; match goal with [ H : forall c, ~ Published _ _ _ c |- _ ] => eapply H; eexists; split; eassumption end).
    all: try (match goal with [ H1 : Latest _ _ _ _, H2 : Latest _ _ _ _ |- _ ] =>
                destruct (latest_unique _ _ _ _ _ _ H1 H2) as [_ ->]; reflexivity end).
    all: try (exfalso; match goal with [ H1 : Latest _ _ _ _, H2 : forall v c, ~ Candidate _ _ v c |- _ ] =>
                destruct H1 as [H1 _]; exact (H2 _ _ H1) end).
    all: exfalso; match goal with [ H1 : Latest _ _ _ _, H2 : ~ Exists_pkg _ _ |- _ ] =>
                destruct H1 as [[(r & A & B) _] _]; apply H2; eexists; eassumption end.
  Qed.

  Lemma key_outcome_det ks o o' : KeyOutcome valid_name reg ks o -> KeyOutcome valid_name reg ks o' -> o = o'.
  Proof. intros H H'. rewrite (key_outcome_complete _ _ H), (key_outcome_complete _ _ H'). reflexivity. Qed.
End Outcomes.

(** * The executable whole-answer check is the declarative one. *)
Lemma rerror_eqb_eq a b : rerror_eqb a b = true <-> a = b.
Proof.
  destruct a, b; cbn; try (split; congruence);
    rewrite ?andb_true_iff, ?str_eqb_eq, ?ver_eqb_eq, ?N.eqb_eq; split; try tauto.
  all: try (intros [-> ->]; reflexivity).
  all: try (intros [= -> ->]; auto).
  all: try (intros [[-> ->] ->]; reflexivity).
  all: try (intros [= -> -> ->]; auto).
Qed.

Lemma nodup_keys_b_iff (m : list (pkey * content)) : nodup_keys_b m = true <-> NoDup (map fst m).
Proof.
  induction m as [|[k c] r IH]; cbn.
  - split; [constructor | reflexivity].
  - rewrite andb_true_iff, negb_true_iff, IH. split.
    + intros [H ND]. constructor; [|exact ND]. intros I. apply in_map_iff in I. destruct I as [[k' c'] [E I]].
      cbn in E. subst k'. assert (X : existsb (fun x => pkey_eqb (fst x) k) r = true).
      { apply existsb_exists. exists (k, c'). split; [exact I|]. now apply pkey_eqb_eq. }
      congruence.
    + intros ND. inversion ND as [|? ? Hn ND']; subst. split; [|exact ND'].
      destruct (existsb (fun x => pkey_eqb (fst x) k) r) eqn:E; [|reflexivity].
      apply existsb_exists in E. destruct E as [[k' c'] [I E]]. cbn in E. apply pkey_eqb_eq in E. subst k'.
      exfalso. apply Hn. apply (in_map fst) in I. exact I.
Qed.

Section SpecCheck.
  Variable valid_name : str -> bool.
  Variable reg : registry.
  Hypothesis wf : wf_reg reg.

  Theorem spec_check_iff keys r : spec_check valid_name reg keys r = true <-> Resolve_spec valid_name reg keys r.
  Proof.
    split.
    - destruct r as [m|e|]; cbn [spec_check]; [| |discriminate].
      + rewrite !andb_true_iff, nodup_keys_b_iff, !forallb_forall. intros [[ND A] B].
        assert (A' : forall k s, In (k, s) keys -> exists c, key_outcome_b valid_name reg (k, s) = KOk c /\ In (k, c) m).
        { intros k s I. specialize (A _ I). cbn [fst] in A. destruct (key_outcome_b valid_name reg (k, s)) as [c|]; [|discriminate].
          destruct (im_get pkey_eqb m k) as [c'|] eqn:G; [|discriminate]. apply N.eqb_eq in A. subst c'.
          exists c. split; [reflexivity|]. eapply im_get_In; [exact pkey_eqb_eq | exact G]. }
        apply RS_ok; [exact ND | |].
        * intros k c. split.
          -- intros I. specialize (B _ I). apply existsb_exists in B. destruct B as [[k' s] [I' E]]. cbn in E.
             apply pkey_eqb_eq in E. subst k'. exists s. split; [exact I'|].
             destruct (A' _ _ I') as (c0 & O & I0).
             assert (c0 = c).
             { pose proof (In_im_get _ pkey_eqb_eq _ _ _ ND I0). pose proof (In_im_get _ pkey_eqb_eq _ _ _ ND I). congruence. }
             subst c0. rewrite <- O. apply key_outcome_sound. exact wf.
          -- intros (s & I & O). destruct (A' _ _ I) as (c0 & O' & I0).
             apply (key_outcome_complete _ _ wf) in O. rewrite O' in O. injection O as <-. exact I0.
        * intros k s I. destruct (A' _ _ I) as (c & O & _). exists c. rewrite <- O. apply key_outcome_sound. exact wf.
      + intros H. apply existsb_exists in H. destruct H as [[k s] [I E]].
        destruct (key_outcome_b valid_name reg (k, s)) as [|e'] eqn:O; [discriminate|]. apply rerror_eqb_eq in E. subst e'.
        apply (RS_err _ _ _ _ k s I). rewrite <- O. apply key_outcome_sound. exact wf.
    - intros H. destruct H as [m ND A B | e k s I O]; cbn [spec_check].
      + rewrite !andb_true_iff, nodup_keys_b_iff, !forallb_forall. repeat split; [exact ND | |].
        * intros [k s] I. cbn [fst]. destruct (B _ _ I) as [c O]. pose proof O as O'.
          apply (key_outcome_complete _ _ wf) in O. rewrite <- O.
          assert (Im : In (k, c) m) by (apply A; eauto).
          rewrite (In_im_get _ pkey_eqb_eq _ _ _ ND Im). apply N.eqb_refl.
        * intros [k c] I. apply A in I. destruct I as (s & I & _). apply existsb_exists. exists (k, s).
          split; [exact I|]. now apply pkey_eqb_eq.
      + apply existsb_exists. exists (k, s). split; [exact I|].
        apply (key_outcome_complete _ _ wf) in O. rewrite <- O. now apply rerror_eqb_eq.
  Qed.
End SpecCheck.

(** * The resolver *)
Definition entry_of (ks : pkey * span) : str * (option version * span) :=
  (kname (fst ks), (kver (fst ks), snd ks)).

Definition tkey (t : task) : pkey := (t_name t, t_version t).
Definition task_key_ok (keys : keys_t) (t : task) : Prop :=
  nth_error keys (t_index t) = Some (tkey t, t_span t).

Lemma spawn_In tbl : forall i t, In t (spawn tbl i) -> In (t_name t, (t_version t, t_span t)) tbl.
Proof.
  induction tbl as [|[n [v s]] r IH]; cbn; intros i t; [tauto|].
  intros [<-|H]; [now left | right; eauto].
Qed.

Lemma spawn_names tbl : forall i, map t_name (spawn tbl i) = map fst tbl.
Proof. induction tbl as [|[n [v s]] r IH]; cbn; intros i; [reflexivity|]. now rewrite IH. Qed.

Lemma spawn_length tbl : forall i, length (spawn tbl i) = length tbl.
Proof. induction tbl as [|[n [v s]] r IH]; cbn; intros i; [reflexivity|]. now rewrite IH. Qed.

Lemma spawn_index tbl : forall i t, In t (spawn tbl i) -> (i <= t_index t < i + length tbl)%nat.
Proof.
  induction tbl as [|[n [v s]] r IH]; cbn; intros i t; [tauto|].
  intros [<-|H]; cbn; [lia|]. specialize (IH _ _ H). lia.
Qed.

Lemma spawn_key_ok keys : forall front t,
  In t (spawn (map entry_of keys) (length front)) -> task_key_ok (front ++ keys) t.
Proof.
  induction keys as [|[[n v] s] r IH]; cbn; intros front t; [tauto|].
  intros [<-|H].
  - unfold task_key_ok; cbn. rewrite nth_error_app2 by lia. now rewrite Nat.sub_diag.
  - specialize (IH (front ++ [((n, v), s)]) t). rewrite app_length, Nat.add_1_r in IH.
    rewrite <- app_assoc in IH. apply IH. exact H.
Qed.

Lemma spawn_has keys : forall i ks, In ks keys ->
  exists t, In t (spawn (map entry_of keys) i) /\ (tkey t, t_span t) = ks.
Proof.
  induction keys as [|[[n v] s] r IH]; cbn; intros i ks; [tauto|].
  intros [<-|H].
  - eexists. split; [now left | reflexivity].
  - destruct (IH (S i) _ H) as (t & I & E). exists t. split; [now right | exact E].
Qed.

Section ResolveProofs.
  Variable valid_name : str -> bool.
  Variable reg : registry.

  Lemma collect_err keys : forall tbl e, collect valid_name keys tbl = inr e ->
    exists k s, In (k, s) keys /\ valid_name (kname k) = false /\ e = EInvalidPackageName (kname k) s.
  Proof.
    induction keys as [|[k s] r IH]; cbn; intros tbl e; [discriminate|].
    destruct (valid_name (kname k)) eqn:E.
    - intros H. destruct (IH _ _ H) as (k0 & s0 & I & Vn & ->). exists k0, s0. auto.
    - intros [= <-]. exists k, s. auto.
  Qed.

  Lemma collect_ok keys : forall tbl tbl', collect valid_name keys tbl = inl tbl' ->
    (forall k s, In (k, s) keys -> valid_name (kname k) = true) /\
    (forall n v s, In (n, (v, s)) tbl' -> In (n, (v, s)) tbl \/ In ((n, v), s) keys) /\
    (length tbl' <= length tbl + length keys)%nat.
  Proof.
    induction keys as [|[k s] r IH]; cbn; intros tbl tbl'.
    - intros [= ->]. repeat split; [tauto | auto | lia].
    - destruct (valid_name (kname k)) eqn:E; [|discriminate]. intros H.
      destruct (IH _ _ H) as (A & B & C). repeat split.
      + intros k0 s0 [[= <- <-]|I]; eauto.
      + intros n v s0 I. destruct (B _ _ _ I) as [I'|I']; [|right; now right].
        destruct (im_insert_In _ str_eqb_eq _ _ _ _ _ I') as [I''|[-> [= -> ->]]]; [now left|].
        right; left. destruct k; reflexivity.
      + pose proof (im_insert_length str_eqb tbl (kname k) (kver k, s)). lia.
  Qed.

  Lemma collect_distinct keys : forall tbl,
    (forall k s, In (k, s) keys -> valid_name (kname k) = true) ->
    NoDup (map fst tbl ++ map (fun ks => kname (fst ks)) keys) ->
    collect valid_name keys tbl = inl (tbl ++ map entry_of keys).
  Proof.
    induction keys as [|[k s] r IH]; cbn; intros tbl Hv ND.
    - now rewrite app_nil_r.
    - rewrite (Hv k s (or_introl eq_refl)).
      rewrite (im_insert_fresh _ str_eqb_eq).
      + rewrite IH.
        * now rewrite <- app_assoc.
        * intros; eapply Hv; right; eauto.
        * rewrite map_app; cbn. now rewrite <- app_assoc.
      + apply NoDup_remove_2 in ND. intros I. apply ND. apply in_or_app. now left.
  Qed.

  Lemma first_missing_some names n : first_missing reg names = Some n -> In n names /\ reg_find reg n = None.
  Proof.
    induction names as [|x r IH]; cbn; [discriminate|]. destruct (reg_find reg x) eqn:F.
    - intros H. destruct (IH H). auto.
    - intros [= <-]. auto.
  Qed.

  Lemma first_missing_none names : first_missing reg names = None ->
    forall n, In n names -> exists rels, reg_find reg n = Some rels.
  Proof using.
    induction names as [|x r IH]; cbn; [intros _ n []|]. destruct (reg_find reg x) as [r0|] eqn:F; [|discriminate].
    intros H n [<-|I]; [exists r0; exact F | exact (IH H n I)].
  Qed.

  (** ** Download tasks against the per-key specification *)
  Lemma run_task_err t e rels : reg_find reg (t_name t) = Some rels -> valid_name (t_name t) = true ->
    run_task reg t = inr e -> KeyOutcome valid_name reg ((t_name t, t_version t), t_span t) (KErr e).
  Proof.
    intros F Vn. unfold run_task. rewrite F.
    assert (Ex : Exists_pkg reg (t_name t)) by (exists rels; exact F).
    destruct (t_version t) as [v|].
    - destruct (release rels v) as [[c|]|] eqn:R; [discriminate| |]; intros [= <-];
        (apply KO_nover; auto; intros c P; apply (published_iff _ _ _ _ _ F) in P; congruence).
    - destruct (find_latest_release rels) as [[v [c|]]|] eqn:L; [discriminate| |].
      + destruct (find_latest_some _ _ _ L) as (c & E & _). discriminate.
      + intros [= <-]. apply KO_norel; auto. intros v c [Pb Pr].
        apply (published_iff _ _ _ _ _ F) in Pb. apply release_In in Pb. exact (find_latest_none _ L _ _ Pb Pr).
  Qed.

  Lemma run_task_ok t c rels : wf_reg reg -> reg_find reg (t_name t) = Some rels -> valid_name (t_name t) = true ->
    run_task reg t = inl c -> KeyOutcome valid_name reg ((t_name t, t_version t), t_span t) (KOk c).
  Proof.
    intros wf F Vn. unfold run_task. rewrite F.
    destruct (t_version t) as [v|].
    - destruct (release rels v) as [[c'|]|] eqn:R; try discriminate. intros [= <-].
      apply KO_exact; [exact Vn|]. apply (published_iff _ _ _ _ _ F). exact R.
    - destruct (find_latest_release rels) as [[v [c'|]]|] eqn:L; try discriminate. intros [= <-].
      destruct (find_latest_some _ _ _ L) as (c & [= <-] & I & P & M).
      apply (KO_latest _ _ _ _ v); [exact Vn|]. eapply latest_of_scan; eauto.
  Qed.

  (** ** The completion loop *)
  Lemma complete_len keys sched : forall pk f m f',
    complete reg keys sched pk f = inl (m, f') -> f' = (f + length sched)%nat.
  Proof.
    induction sched as [|t r IH]; cbn; intros pk f m f'.
    - intros [= _ <-]. lia.
    - destruct (run_task reg t); [|discriminate]. destruct (nth_error keys (t_index t)) as [[k s]|]; [|discriminate].
      intros H. rewrite (IH _ _ _ _ H). lia.
  Qed.

  Lemma complete_nodup keys sched : forall pk f m f',
    complete reg keys sched pk f = inl (m, f') -> NoDup (map fst pk) -> NoDup (map fst m).
  Proof.
    induction sched as [|t r IH]; cbn; intros pk f m f'.
    - intros [= <- _]. auto.
    - destruct (run_task reg t); [|discriminate]. destruct (nth_error keys (t_index t)) as [[k s]|]; [|discriminate].
      intros H ND. eapply IH; [exact H|]. apply im_insert_NoDup; [exact pkey_eqb_eq | exact ND].
  Qed.

  Lemma complete_err keys sched : forall pk f r,
    complete reg keys sched pk f = inr r ->
    (r = RPanic /\ exists t, In t sched /\ nth_error keys (t_index t) = None) \/
    (exists t e, In t sched /\ run_task reg t = inr e /\ r = RErr e).
  Proof.
    induction sched as [|t rest IH]; cbn; intros pk f r; [discriminate|].
    destruct (run_task reg t) as [c|e] eqn:R.
    - destruct (nth_error keys (t_index t)) as [[k s]|] eqn:Nt.
      + intros H. destruct (IH _ _ _ H) as [[-> (t' & I & N')]|(t' & e & I & R' & ->)].
        * left. split; [reflexivity|]. exists t'. auto.
        * right. exists t', e. auto.
      + intros [= <-]. left. split; [reflexivity|]. exists t. auto.
    - intros [= <-]. right. exists t, e. auto.
  Qed.

  Lemma complete_In keys sched : forall pk f m f',
    complete reg keys sched pk f = inl (m, f') ->
    (forall t, In t sched -> task_key_ok keys t) ->
    forall k c, In (k, c) m ->
      In (k, c) pk \/ exists t, In t sched /\ run_task reg t = inl c /\ k = tkey t.
  Proof.
    induction sched as [|t rest IH]; cbn; intros pk f m f'.
    - intros [= <- _]. auto.
    - destruct (run_task reg t) as [c0|] eqn:R; [|discriminate]. intros H Hk.
      rewrite (Hk t (or_introl eq_refl)) in H. intros k c I.
      destruct (IH _ _ _ _ H (fun t' I' => Hk t' (or_intror I')) _ _ I) as [I'|(t' & I' & R' & E)].
      + destruct (im_insert_In _ pkey_eqb_eq _ _ _ _ _ I') as [I''|[-> ->]]; [now left|].
        right. exists t. auto.
      + right. exists t'. auto.
  Qed.

  Lemma complete_keeps keys sched : forall pk f m f',
    complete reg keys sched pk f = inl (m, f') ->
    (forall t, In t sched -> task_key_ok keys t) ->
    forall k0 c0, In (k0, c0) pk -> ~ In k0 (map tkey sched) -> In (k0, c0) m.
  Proof.
    induction sched as [|t rest IH]; cbn; intros pk f m f'.
    - intros [= <- _]. auto.
    - destruct (run_task reg t) as [c|] eqn:R; [|discriminate]. intros H Hk.
      rewrite (Hk t (or_introl eq_refl)) in H. intros k0 c0 I Hn.
      eapply IH; [exact H | intros; apply Hk; now right | | tauto].
      apply im_insert_other; [exact pkey_eqb_eq | exact I|]. intros ->. apply Hn. now left.
  Qed.

  Lemma complete_has keys sched : forall pk f m f',
    complete reg keys sched pk f = inl (m, f') ->
    (forall t, In t sched -> task_key_ok keys t) ->
    NoDup (map tkey sched) ->
    forall t, In t sched -> exists c, run_task reg t = inl c /\ In (tkey t, c) m.
  Proof.
    induction sched as [|t0 rest IH]; cbn; intros pk f m f'; [tauto|].
    destruct (run_task reg t0) as [c0|] eqn:R; [|discriminate]. intros H Hk ND.
    rewrite (Hk t0 (or_introl eq_refl)) in H. inversion ND as [|? ? Hn ND']; subst.
    intros t [<-|I].
    - exists c0. split; [exact R|].
      eapply complete_keeps; [exact H | intros; apply Hk; now right | | exact Hn].
      apply im_insert_new. exact pkey_eqb_eq.
    - eapply IH; [exact H | intros; apply Hk; now right | exact ND' | exact I].
  Qed.

  (** A completed loop meets the specification as soon as every requested key has exactly one task,
      tagged with that key's position. *)
  Lemma complete_meets_spec keys sched m f :
    wf_reg reg ->
    complete reg keys sched [] 0 = inl (m, f) ->
    (forall t, In t sched -> task_key_ok keys t) ->
    NoDup (map tkey sched) ->
    (forall t, In t sched -> exists rels, reg_find reg (t_name t) = Some rels) ->
    (forall t, In t sched -> valid_name (t_name t) = true) ->
    (forall k s, In (k, s) keys -> exists t, In t sched /\ (tkey t, t_span t) = (k, s)) ->
    Resolve_spec valid_name reg keys (ROk m).
  Proof.
    intros wf Cm Hk NDn Hreg Hval Htask.
    assert (Hok : forall k s, In (k, s) keys -> exists c, KeyOutcome valid_name reg (k, s) (KOk c) /\ In (k, c) m).
    { intros k s I. destruct (Htask _ _ I) as (t & It & E).
      destruct (complete_has _ _ _ _ _ _ Cm Hk NDn t It) as (c & Rt & Im).
      destruct (Hreg _ It) as [rels F]. exists c. injection E as E1 E2. rewrite <- E1, <- E2. split; [|exact Im].
      eapply run_task_ok; eauto. }
    apply RS_ok.
    - eapply complete_nodup; [exact Cm | constructor].
    - intros k c. split.
      + intros Im. destruct (complete_In _ _ _ _ _ _ Cm Hk _ _ Im) as [[]|(t & It & Rt & ->)].
        exists (t_span t). split.
        * specialize (Hk _ It). unfold task_key_ok in Hk. apply nth_error_In in Hk. exact Hk.
        * destruct (Hreg _ It) as [rels F]. eapply run_task_ok; eauto.
      + intros (s & I & O). destruct (Hok _ _ I) as (c' & O' & Im).
        pose proof (key_outcome_det _ _ wf _ _ _ O O') as E. injection E as ->. exact Im.
    - intros k s I. destruct (Hok _ _ I) as (c & O & _). eauto.
  Qed.

  (** ** The repaired algorithm's bookkeeping *)
  Lemma collect_list_err keys : forall e, collect_list valid_name keys = inr e ->
    exists k s, In (k, s) keys /\ valid_name (kname k) = false /\ e = EInvalidPackageName (kname k) s.
  Proof.
    induction keys as [|[k s] r IH]; cbn; intros e; [discriminate|].
    destruct (valid_name (kname k)) eqn:E.
    - destruct (collect_list valid_name r) as [l|e0]; [discriminate|]. intros [= <-].
      destruct (IH _ eq_refl) as (k0 & s0 & I & Vn & ->). exists k0, s0. auto.
    - intros [= <-]. exists k, s. auto.
  Qed.

  Lemma collect_list_ok keys : forall lst, collect_list valid_name keys = inl lst ->
    lst = map entry_of keys /\ forall k s, In (k, s) keys -> valid_name (kname k) = true.
  Proof.
    induction keys as [|[k s] r IH]; cbn; intros lst.
    - intros [= <-]. split; [reflexivity | tauto].
    - destruct (valid_name (kname k)) eqn:E; [|discriminate].
      destruct (collect_list valid_name r) as [l|e0]; [|discriminate]. intros [= <-].
      destruct (IH _ eq_refl) as [-> Hv]. split; [reflexivity|].
      intros k0 s0 [[= <- <-]|I]; eauto.
  Qed.

  Lemma or_insert_In m n s n0 s0 : In (n0, s0) (or_insert m n s) -> In (n0, s0) m \/ (n0 = n /\ s0 = s).
  Proof.
    unfold or_insert. destruct (im_get str_eqb m n); [auto|]. intros I. apply in_app_or in I.
    destruct I as [I|[[= <- <-]|[]]]; auto.
  Qed.

  Lemma or_insert_has m n s : In n (map fst (or_insert m n s)).
  Proof.
    unfold or_insert. destruct (im_get str_eqb m n) eqn:G.
    - apply (im_get_In _ str_eqb_eq) in G. apply (in_map fst) in G. exact G.
    - rewrite map_app. apply in_or_app. right. now left.
  Qed.

  Lemma or_insert_incl m n s x : In x (map fst m) -> In x (map fst (or_insert m n s)).
  Proof.
    unfold or_insert. destruct (im_get str_eqb m n); [auto|]. intros I. rewrite map_app. apply in_or_app. now left.
  Qed.

  Lemma names_of_spec (lst : table_t) : forall m : list (str * span),
    let r := fold_left (fun m (e : str * (option version * span)) => or_insert m (fst e) (snd (snd e))) lst m in
    (forall n s, In (n, s) r -> In (n, s) m \/ exists v, In (n, (v, s)) lst) /\
    (forall n, In n (map fst m) \/ In n (map fst lst) -> In n (map fst r)).
  Proof.
    induction lst as [|[n0 [v0 s0]] l IH]; cbn; intros m.
    - split; [auto | intros n [H|[]]; exact H].
    - destruct (IH (or_insert m n0 s0)) as [A B]. split.
      + intros n s I. destruct (A _ _ I) as [I'|[v I']]; [|right; exists v; now right].
        destruct (or_insert_In _ _ _ _ _ I') as [I''|[-> ->]]; [now left | right; exists v0; now left].
      + intros n [H|[<-|H]]; apply B.
        * left. now apply or_insert_incl.
        * left. apply or_insert_has.
        * now right.
  Qed.
End ResolveProofs.

(** * Main results *)
Lemma spawn_tkeys keys : forall i, map (fun t => (tkey t, t_span t)) (spawn (map entry_of keys) i) = keys.
Proof.
  induction keys as [|[[n v] s] r IH]; cbn; intros i; [reflexivity|]. now rewrite IH.
Qed.

Section Main.
  Variable valid_name : str -> bool.
  Variable reg : registry.

  (** ** The code as found *)

  (** Errors are always attributed to a requesting key that is owed exactly that error — also when
      keys share a name (the table then holds the LAST key of each name, and that key is in [keys]). *)
  Theorem error_attributed_full keys sched e :
    incl sched (tasks_of valid_name keys) ->
    resolve valid_name reg keys sched = RErr e ->
    exists k s, In (k, s) keys /\ KeyOutcome valid_name reg (k, s) (KErr e).
  Proof.
    unfold resolve, tasks_of. intros Hs.
    destruct (collect valid_name keys []) as [tbl|e0] eqn:C.
    2:{ intros [= <-]. destruct (collect_err _ _ _ _ C) as (k & s & I & Vn & ->).
        exists k, s. split; [exact I|]. destruct k as [n ov]. now constructor. }
    destruct (collect_ok _ _ _ _ C) as (Hv & Hin & _).
    assert (Hkey : forall n v s, In (n, (v, s)) tbl -> In ((n, v), s) keys /\ valid_name n = true).
    { intros n v s I. destruct (Hin _ _ _ I) as [[]|I']. split; [exact I'|]. exact (Hv _ _ I'). }
    destruct (first_missing reg (map fst tbl)) as [name|] eqn:FM.
    - destruct (first_missing_some _ _ _ FM) as [_ Fn].
      destruct (im_get str_eqb tbl name) as [[v s]|] eqn:G; [|discriminate]. intros [= <-].
      apply (im_get_In _ str_eqb_eq) in G. destruct (Hkey _ _ _ G) as [I Vn].
      exists (name, v), s. split; [exact I|]. apply KO_nopkg; [exact Vn|]. intros [rels F]. congruence.
    - destruct (complete reg keys sched [] 0) as [[m f]|r] eqn:Cm.
      + destruct (Nat.eqb f (length (spawn tbl 0))); discriminate.
      + intros ->. destruct (complete_err _ _ _ _ _ _ Cm) as [[X _]|(t & e' & It & R & [= <-])]; [discriminate|].
        apply Hs in It. apply spawn_In in It. destruct (Hkey _ _ _ It) as [I Vn].
        destruct (first_missing_none _ _ FM (t_name t)) as [rels F].
        { apply in_map_iff. exists (t_name t, (t_version t, t_span t)). auto. }
        exists (t_name t, t_version t), (t_span t). split; [exact I|]. eapply run_task_err; eauto.
  Qed.

  (** [resolve] never reaches one of its [unwrap]/[assert_eq!] failures, shared names or not. *)
  Theorem resolve_never_panics keys sched :
    Permutation sched (tasks_of valid_name keys) -> resolve valid_name reg keys sched <> RPanic.
  Proof.
    unfold resolve, tasks_of. intros P.
    destruct (collect valid_name keys []) as [tbl|e0] eqn:C; [|discriminate].
    destruct (collect_ok _ _ _ _ C) as (_ & _ & Len). cbn in Len.
    destruct (first_missing reg (map fst tbl)) as [name|] eqn:FM.
    - destruct (first_missing_some _ _ _ FM) as [In' _].
      destruct (im_get str_eqb tbl name) as [[v s]|] eqn:G; [discriminate|].
      apply (im_get_None _ str_eqb_eq) in G. contradiction.
    - destruct (complete reg keys sched [] 0) as [[m f]|r] eqn:Cm.
      + rewrite (complete_len _ _ _ _ _ _ _ Cm). cbn. rewrite (Permutation_length P), Nat.eqb_refl. discriminate.
      + destruct (complete_err _ _ _ _ _ _ Cm) as [[_ (t & It & Nt)]|(t & e' & _ & _ & ->)]; [|discriminate].
        exfalso. apply (Permutation_in _ P) in It. apply spawn_index in It. apply nth_error_None in Nt. lia.
  Qed.

  (** ** The repaired algorithm: same two facts *)
  Theorem fixed_error_attributed keys sched e :
    incl sched (tasks_of_fixed valid_name keys) ->
    resolve_fixed valid_name reg keys sched = RErr e ->
    exists k s, In (k, s) keys /\ KeyOutcome valid_name reg (k, s) (KErr e).
  Proof.
    unfold resolve_fixed, tasks_of_fixed. intros Hs.
    destruct (collect_list valid_name keys) as [lst|e0] eqn:C.
    2:{ intros [= <-]. destruct (collect_list_err _ _ _ C) as (k & s & I & Vn & ->).
        exists k, s. split; [exact I|]. destruct k as [n ov]. now constructor. }
    destruct (collect_list_ok _ _ _ C) as [-> Hv].
    assert (Hkey : forall n v s, In (n, (v, s)) (map entry_of keys) -> In ((n, v), s) keys /\ valid_name n = true).
    { intros n v s I. apply in_map_iff in I. destruct I as [[[n' v'] s'] [[= -> -> ->] I]]. split; [exact I|]. exact (Hv _ _ I). }
    destruct (names_of_spec (map entry_of keys) []) as [NA NB]. fold (names_of (map entry_of keys)) in NA, NB.
    destruct (first_missing reg (map fst (names_of (map entry_of keys)))) as [name|] eqn:FM.
    - destruct (first_missing_some _ _ _ FM) as [_ Fn].
      destruct (im_get str_eqb (names_of (map entry_of keys)) name) as [s|] eqn:G; [|discriminate]. intros [= <-].
      apply (im_get_In _ str_eqb_eq) in G. destruct (NA _ _ G) as [[]|[v I0]]. destruct (Hkey _ _ _ I0) as [I Vn].
      exists (name, v), s. split; [exact I|]. apply KO_nopkg; [exact Vn|]. intros [rels F]. congruence.
    - destruct (complete reg keys sched [] 0) as [[m f]|r] eqn:Cm.
      + destruct (Nat.eqb f (length (spawn (map entry_of keys) 0))); discriminate.
      + intros ->. destruct (complete_err _ _ _ _ _ _ Cm) as [[X _]|(t & e' & It & R & [= <-])]; [discriminate|].
        apply Hs in It. apply spawn_In in It. destruct (Hkey _ _ _ It) as [I Vn].
        destruct (first_missing_none _ _ FM (t_name t)) as [rels F].
        { apply NB. right. apply in_map_iff. exists (t_name t, (t_version t, t_span t)). auto. }
        exists (t_name t, t_version t), (t_span t). split; [exact I|]. eapply run_task_err; eauto.
  Qed.

  Theorem fixed_never_panics keys sched :
    Permutation sched (tasks_of_fixed valid_name keys) -> resolve_fixed valid_name reg keys sched <> RPanic.
  Proof.
    unfold resolve_fixed, tasks_of_fixed. intros P.
    destruct (collect_list valid_name keys) as [lst|e0] eqn:C; [|discriminate].
    destruct (collect_list_ok _ _ _ C) as [-> _].
    destruct (first_missing reg (map fst (names_of (map entry_of keys)))) as [name|] eqn:FM.
    - destruct (first_missing_some _ _ _ FM) as [In' _].
      destruct (im_get str_eqb (names_of (map entry_of keys)) name) as [s|] eqn:G; [discriminate|].
      apply (im_get_None _ str_eqb_eq) in G. contradiction.
    - destruct (complete reg keys sched [] 0) as [[m f]|r] eqn:Cm.
      + rewrite (complete_len _ _ _ _ _ _ _ Cm). cbn. rewrite (Permutation_length P), Nat.eqb_refl. discriminate.
      + destruct (complete_err _ _ _ _ _ _ Cm) as [[_ (t & It & Nt)]|(t & e' & _ & _ & ->)]; [|discriminate].
        exfalso. apply (Permutation_in _ P) in It. apply spawn_index in It. apply nth_error_None in Nt.
        rewrite map_length in It. lia.
  Qed.

  Hypothesis wf : wf_reg reg.

  (** The property for the code as found, for key sets in which no two keys share a package name. *)
  Theorem resolve_distinct_names keys sched :
    wf_keys keys -> no_shared_name keys ->
    Permutation sched (tasks_of valid_name keys) ->
    Resolve_spec valid_name reg keys (resolve valid_name reg keys sched).
  Proof.
    intros WK NS P.
    destruct (resolve valid_name reg keys sched) as [m|e|] eqn:R.
    - (* success *)
      revert R P. unfold resolve, tasks_of.
      destruct (collect valid_name keys []) as [tbl|e0] eqn:C; [|discriminate].
      destruct (collect_ok _ _ _ _ C) as (Hv & _ & _).
      rewrite (collect_distinct valid_name keys [] Hv NS) in C. injection C as <-. cbn [app].
      destruct (first_missing reg (map fst (map entry_of keys))) as [name|] eqn:FM.
      { destruct (im_get str_eqb (map entry_of keys) name) as [[? ?]|]; discriminate. }
      destruct (complete reg keys sched [] 0) as [[m' f]|r] eqn:Cm; [|intros ->; destruct (complete_err _ _ _ _ _ _ Cm) as [[X _]|(? & ? & _ & _ & X)]; discriminate].
      destruct (Nat.eqb f (length (spawn (map entry_of keys) 0))); [|discriminate]. intros [= ->] P.
      apply (complete_meets_spec valid_name reg keys sched m f wf Cm).
      + intros t It. apply (Permutation_in _ P) in It. exact (spawn_key_ok keys [] t It).
      + apply (NoDup_map_inv fst). rewrite map_map. change (fun x => fst (tkey x)) with t_name.
        apply (Permutation_NoDup (l := map t_name (spawn (map entry_of keys) 0))).
        * apply Permutation_map. now apply Permutation_sym.
        * rewrite spawn_names, map_map. exact NS.
      + intros t It. apply (first_missing_none _ _ FM). rewrite <- (spawn_names _ 0).
        apply in_map. exact (Permutation_in _ P It).
      + intros t It. apply (Permutation_in _ P) in It. apply spawn_In in It. apply in_map_iff in It.
        destruct It as [[k s] [E I]]. injection E as <- _ _. exact (Hv _ _ I).
      + intros k s I. destruct (spawn_has keys 0 _ I) as (t & It & E). exists t. split; [|exact E].
        apply (Permutation_in _ (Permutation_sym P)). exact It.
    - (* error *)
      destruct (error_attributed_full keys sched e) as (k & s & I & O); [|exact R|].
      + intros t It. exact (Permutation_in _ P It).
      + exact (RS_err _ _ _ _ k s I O).
    - exfalso. exact (resolve_never_panics keys sched P R).
  Qed.

  (** The property for the repaired algorithm, at full strength: any number of keys may share a name. *)
  Theorem fixed_meets_spec keys sched :
    wf_keys keys ->
    Permutation sched (tasks_of_fixed valid_name keys) ->
    Resolve_spec valid_name reg keys (resolve_fixed valid_name reg keys sched).
  Proof.
    intros WK P.
    destruct (resolve_fixed valid_name reg keys sched) as [m|e|] eqn:R.
    - revert R P. unfold resolve_fixed, tasks_of_fixed.
      destruct (collect_list valid_name keys) as [lst|e0] eqn:C; [|discriminate].
      destruct (collect_list_ok _ _ _ C) as [-> Hv].
      destruct (names_of_spec (map entry_of keys) []) as [_ NB]. fold (names_of (map entry_of keys)) in NB.
      destruct (first_missing reg (map fst (names_of (map entry_of keys)))) as [name|] eqn:FM.
      { destruct (im_get str_eqb (names_of (map entry_of keys)) name); discriminate. }
      destruct (complete reg keys sched [] 0) as [[m' f]|r] eqn:Cm; [|intros ->; destruct (complete_err _ _ _ _ _ _ Cm) as [[X _]|(? & ? & _ & _ & X)]; discriminate].
      destruct (Nat.eqb f (length (spawn (map entry_of keys) 0))); [|discriminate]. intros [= ->] P.
      apply (complete_meets_spec valid_name reg keys sched m f wf Cm).
      + intros t It. apply (Permutation_in _ P) in It. exact (spawn_key_ok keys [] t It).
      + apply (Permutation_NoDup (l := map tkey (spawn (map entry_of keys) 0))).
        * apply Permutation_map. now apply Permutation_sym.
        * pose proof (spawn_tkeys keys 0) as E. apply (f_equal (map fst)) in E. rewrite map_map in E. cbn in E.
          rewrite (map_ext _ tkey (fun t => eq_refl)) in E. rewrite E. exact WK.
      + intros t It. apply (first_missing_none _ _ FM). apply NB. right. rewrite <- (spawn_names _ 0).
        apply in_map. exact (Permutation_in _ P It).
      + intros t It. apply (Permutation_in _ P) in It. apply spawn_In in It. apply in_map_iff in It.
        destruct It as [[k s] [E I]]. injection E as <- _ _. exact (Hv _ _ I).
      + intros k s I. destruct (spawn_has keys 0 _ I) as (t & It & E). exists t. split; [|exact E].
        apply (Permutation_in _ (Permutation_sym P)). exact It.
    - destruct (fixed_error_attributed keys sched e) as (k & s & I & O); [|exact R|].
      + intros t It. exact (Permutation_in _ P It).
      + exact (RS_err _ _ _ _ k s I O).
    - exfalso. exact (fixed_never_panics keys sched P R).
  Qed.

  (** ** Consequences of meeting the specification (used for both variants) *)
  Lemma spec_no_key_dropped keys m :
    Resolve_spec valid_name reg keys (ROk m) ->
    forall k s, In (k, s) keys -> exists c, In (k, c) m /\ KeyOutcome valid_name reg (k, s) (KOk c).
  Proof.
    intros S k s I. inversion S as [m' ND A B|]; subst. destruct (B _ _ I) as [c O]. exists c. split; [|exact O].
    apply A. eauto.
  Qed.

  Lemma spec_error_reported keys r k s e :
    Resolve_spec valid_name reg keys r -> In (k, s) keys -> KeyOutcome valid_name reg (k, s) (KErr e) ->
    exists e', r = RErr e'.
  Proof.
    intros S I O. inversion S as [m ND A B HR | e' k' s' I' O' HR]; [|eauto].
    destruct (B _ _ I) as [c O']. pose proof (key_outcome_det _ _ wf _ _ _ O O'). discriminate.
  Qed.

  Definition same_answer (r r' : result) : Prop :=
    match r, r' with
    | ROk m, ROk m' => forall k c, In (k, c) m <-> In (k, c) m'
    | RErr _, RErr _ => True
    | _, _ => False
    end.

  Lemma spec_same_answer keys keys' r r' :
    (forall ks, In ks keys <-> In ks keys') ->
    Resolve_spec valid_name reg keys r -> Resolve_spec valid_name reg keys' r' -> same_answer r r'.
  Proof.
    intros E S S'. destruct S as [m ND A B|e k s I O]; destruct S' as [m' ND' A' B'|e' k' s' I' O']; cbn; auto.
    - intros k c. rewrite A, A'. split; intros (s & I & O); exists s; (split; [apply E; exact I | exact O]).
    - apply E in I'. destruct (B _ _ I') as [c O]. pose proof (key_outcome_det _ _ wf _ _ _ O O'). discriminate.
    - apply E in I. destruct (B' _ _ I) as [c O']. pose proof (key_outcome_det _ _ wf _ _ _ O O'). discriminate.
  Qed.

  Theorem request_order_indep_distinct keys keys' sched sched' :
    wf_keys keys -> no_shared_name keys -> Permutation keys keys' ->
    Permutation sched (tasks_of valid_name keys) -> Permutation sched' (tasks_of valid_name keys') ->
    same_answer (resolve valid_name reg keys sched) (resolve valid_name reg keys' sched').
  Proof.
    intros WK NS PK P P'.
    assert (WK' : wf_keys keys') by (eapply Permutation_NoDup; [apply Permutation_map; exact PK | exact WK]).
    assert (NS' : no_shared_name keys') by (eapply Permutation_NoDup; [apply Permutation_map; exact PK | exact NS]).
    eapply spec_same_answer; [| apply resolve_distinct_names; eassumption | apply resolve_distinct_names; eassumption].
    intros ks. split; apply Permutation_in; [exact PK | apply Permutation_sym; exact PK].
  Qed.

  Theorem fixed_request_order_indep keys keys' sched sched' :
    wf_keys keys -> Permutation keys keys' ->
    Permutation sched (tasks_of_fixed valid_name keys) -> Permutation sched' (tasks_of_fixed valid_name keys') ->
    same_answer (resolve_fixed valid_name reg keys sched) (resolve_fixed valid_name reg keys' sched').
  Proof.
    intros WK PK P P'.
    assert (WK' : wf_keys keys') by (eapply Permutation_NoDup; [apply Permutation_map; exact PK | exact WK]).
    eapply spec_same_answer; [| apply fixed_meets_spec; eassumption | apply fixed_meets_spec; eassumption].
    intros ks. split; apply Permutation_in; [exact PK | apply Permutation_sym; exact PK].
  Qed.
End Main.
