(** C13: the lexer's keyword-before-colon artefact. An identifier TOKEN spelled like a keyword exists
    only directly before a colon; in every derivation it therefore sits where the grammar has
    [id ':'], and there the printer writes the colon directly after the copy. Hence the side condition
    [kwcb] of [render_lex] holds for every parsed document. *)
From WacV Require Import Str Token Lexer LexTables LexImpl LexerSound Semver Ast Parser Grammar ParserComb ParserProofs ParserTop.
From WacV Require Import Printer PrintSpec PrinterText PrinterProofs PrinterWf PrinterLexFacts PrinterLex PrinterScan PrinterLeaves.
From Coq Require Import Lia.
Local Open Scope nat_scope.

(* ------------------------------------------------------------------ the lexer side *)

Definition kwtok (t : rtoken) : Prop := tk t = TIdent /\ kw_text (ttext t) = true.

(** Token stream invariant: spans are accurate, and a keyword-spelled identifier token is directly
    followed by a colon token. *)
Fixpoint Inv (src : str) (ts : list lexitem) : Prop :=
  match ts with
  | [] => True
  | it :: r =>
      match it with
      | LTok t => slice src (tsp t) = Some (ttext t) /\ (kwtok t -> peek_kind r = Some TColon)
      | _ => True
      end /\ Inv src r
  end.

Lemma kw_ident_path F s n :
  scan_token impl_cfg F s = ScanTok TIdent n -> kw_text (firstn n s) = true ->
  exists x, skipn n s = c_colon :: x.
Proof.
  intros H Hk. apply scan_token_path in H.
  destruct H as [r m _ _ Hkd _|Hi Hq Hb|n1 Hi Hp Hd Hkp _ Hn|n1 Hi Hp Hq Hd Hs Hn Hkd|n1 n2 m Hi Hp Hq Hd Hs Hp2 Hd2 Hc2 Hm Hkd].
  - discriminate Hkd.
  - apply best_symbol_kind in Hb. assert (Hx : src_kind TIdent = false) by (apply table_kinds_not_src; now left). discriminate Hx.
  - (* dangling dash: the keyword table has no row ending in a dash that is also a prefix... *)
    subst n. exfalso. unfold kw_text in Hk. destruct (lookup_str (firstn (Datatypes.S n1) s) (keywords impl_cfg)) as [k|] eqn:E; [|discriminate].
    (* the text is a keyword, so its first n1 characters are a prefix of a keyword *)
    assert (Hpre : is_kw_prefix (firstn n1 s) (keywords impl_cfg) = true).
    { clear -E. revert E. generalize (keywords impl_cfg) as tbl. induction tbl as [|[y t] tbl IH]; cbn [lookup_str is_kw_prefix]; [discriminate|].
      destruct (str_eqb y (firstn (Datatypes.S n1) s)) eqn:Ey.
      - intros _. apply orb_true_iff. left.
        assert (Hy : y = firstn (Datatypes.S n1) s).
        { clear -Ey. revert Ey. generalize (firstn (Datatypes.S n1) s) as z. induction y as [|a y IHy]; intros [|b z]; cbn; try discriminate; auto.
          intros H. apply andb_true_iff in H. destruct H as [H1 H2]. apply N.eqb_eq in H1. subst. f_equal. auto. }
        subst y. clear. revert s. induction n1 as [|n1 IH]; intros s; [destruct s; reflexivity|].
        destruct s as [|c s]; [reflexivity|]. cbn [firstn starts_with]. rewrite N.eqb_refl. cbn [andb]. apply (IH s).
      - intros H. apply orb_true_iff. right. now apply IH. }
    congruence.
  - subst n. destruct (head_is c_colon (skipn n1 s)) eqn:Ec; [now apply head_is_true|].
    exfalso. unfold kw_or_ident, kw_text in *. destruct (lookup_str (firstn n1 s) (keywords impl_cfg)) as [k|] eqn:E; [|discriminate Hk].
    assert (Hx : src_kind k = false) by (apply table_kinds_not_src; right; eapply lookup_str_kind; eauto).
    rewrite <- Hkd in Hx. discriminate Hx.
  - destruct Hkd as [(_ & Hkd & _)|(_ & Hkd & _)]; discriminate Hkd.
Qed.

Lemma lex_loop_colon f o x :
  0 < f -> peek_kind (lex_loop f impl_cfg o (c_colon :: x)) = Some TColon.
Proof.
  intros Hf. destruct f as [|f]; [lia|]. cbn [lex_loop skip_gap].
  change (is_ws c_colon) with false. cbv iota. change ((c_colon =? c_slash)%N) with false. cbv iota.
  assert (H : scan_token impl_cfg (Datatypes.S f) (fixed_text TColon ++ x) = ScanTok TColon (length (fixed_text TColon)))
    by (apply rescan_sym; [reflexivity|discriminate]).
  change (fixed_text TColon ++ x) with (c_colon :: x) in H. rewrite H. reflexivity.
Qed.

(** Successor relation on the lexer's output (pairs of adjacent items). *)
Fixpoint Kwnext (ts : list lexitem) : Prop :=
  match ts with
  | [] => True
  | it :: r => match it with LTok t => kwtok t -> peek_kind r = Some TColon | _ => True end /\ Kwnext r
  end.

Lemma lex_loop_kwnext fuel : forall o s, length s < fuel -> Kwnext (lex_loop fuel impl_cfg o s).
Proof.
  induction fuel as [|f IH]; intros o s Hl; [lia|]. cbn [lex_loop].
  destruct (skip_gap (Datatypes.S f) o s true []) as [o1 s1 docs| | |] eqn:Eg; try (cbn; auto).
  assert (Hs1 : length s1 <= length s).
  { destruct (skip_gap_facts s _ _ _ _ _ _ _ _ Eg (incl_refl s) (Forall_nil _)) as (H & _). exact H. }
  destruct s1 as [|c1 r1]; [exact I|].
  destruct (scan_token impl_cfg (Datatypes.S f) (c1 :: r1)) as [k n|e n|] eqn:Es; try (cbn; auto).
  pose proof (scan_token_pos _ _ _ _ _ Es) as Hn.
  cbn [Kwnext]. split.
  - intros [Hk Hkw]. cbn [tk ttext] in *. subst k. destruct (kw_ident_path _ _ _ Es Hkw) as (x & Hx). rewrite Hx.
    apply lex_loop_colon. assert (length (skipn n (c1 :: r1)) < f) by (rewrite skipn_length; cbn [length] in *; lia).
    rewrite Hx in H. cbn [length] in H. lia.
  - apply IH. rewrite skipn_length. cbn [length] in *. lia.
Qed.

Lemma lex_inv src : Inv src (lex impl_cfg src).
Proof.
  assert (H1 : Kwnext (lex impl_cfg src)).
  { unfold lex. destruct (screen impl_cfg src) as [[e sp]|]; [cbn; auto|]. apply lex_loop_kwnext. lia. }
  pose proof (lex_acc impl_cfg src) as H2. unfold Acc in H2.
  induction H2 as [|it l Hit _ IH]; [exact I|]. cbn [Kwnext Inv] in *. destruct H1 as [Ha Hb]. split; [|auto].
  destruct it; auto.
Qed.

Combined Scheme g_type_comb from g_type_mut, g_types_mut.

(* ------------------------------------------------------------------ the printer side *)

Section Colon.
Variable src : str.
Let d := impl_flags.
Let fx := repaired.

(** The copy at [sp] is not spelled like a keyword. *)
Definition plain (sp : span) : Prop := forall t, slice src sp = Some t -> kw_text t = false.

(** Every identifier copy is plain or directly followed by the colon; [nk]: the kind of the token that
    followed the node in the source, for an identifier copy at the very end. *)
Fixpoint kq (cs : list cmd) (nk : option token) : Prop :=
  match cs with
  | [] => True
  | CSrc TIdent sp :: r =>
      (plain sp \/ match r with [] => nk = Some TColon | CTok k :: _ => k = TColon | _ => False end) /\ kq r nk
  | _ :: r => kq r nk
  end.

Definition link (nka : option token) (b : list cmd) (nk : option token) : Prop :=
  nka <> Some TColon \/ (exists b', b = CTok TColon :: b') \/ (b = [] /\ nka = nk).

Lemma kq_app a : forall b nka nk, kq a nka -> kq b nk -> link nka b nk -> kq (a ++ b) nk.
Proof.
  induction a as [|c a IH]; intros b nka nk Ha Hb Hl; [exact Hb|].
  assert (Hrest : kq a nka -> kq (a ++ b) nk) by (intros H; eapply IH; eauto).
  destruct c; cbn [app kq] in *; auto.
  destruct k; auto. destruct Ha as [Ha1 Ha2]. split; [|auto].
  destruct Ha1 as [Hp|Hn]; [now left|]. destruct a as [|c2 a2]; [|cbn [app]; now right].
  cbn [app]. subst nka. destruct Hl as [Hl|[(b' & ->)|(-> & <-)]]; [congruence|now right|now right].
Qed.

Lemma kq_closed_app a b nk : (forall n, kq a n) -> kq b nk -> kq (a ++ b) nk.
Proof. intros Ha Hb. apply (kq_app a b None nk); auto. left. discriminate. Qed.

Definition stepk {A} (G : drel A) (pr : A -> list cmd) : Prop :=
  forall ts r x, G ts r x -> Inv src ts -> kq (pr x) (peek_kind r) /\ Inv src r.
Definition stepc {A} (G : drel A) (pr : A -> list cmd) : Prop :=
  forall ts r x, G ts r x -> Inv src ts -> (forall nk, kq (pr x) nk) /\ Inv src r.

Lemma tok_inv k ts r t : tok k ts r t -> Inv src ts ->
  slice src (tsp t) = Some (ttext t) /\ (kwtok t -> peek_kind r = Some TColon) /\ tk t = k /\ Inv src r.
Proof. intros [-> Hk] H. cbn [Inv] in H. tauto. Qed.

Lemma tok_peek' k ts r t : tok k ts r t -> peek_kind ts = Some k.
Proof. intros [-> <-]. reflexivity. Qed.

Lemma k_id : stepk g_id (fun i => [src_id i]).
Proof.
  intros ts r i (t & Ht & ->) Hi. destruct (tok_inv _ _ _ _ Ht Hi) as (Hs & Hk & Hkd & Hr). split; [|exact Hr].
  cbn [kq src_id mk_ident id_span]. split; [|exact I].
  destruct (kw_text (ttext t)) eqn:E.
  - right. apply Hk. split; auto.
  - left. intros t' Ht'. rewrite Hs in Ht'. inversion Ht'; subst. exact E.
Qed.

(** Copies of other kinds carry no obligation. *)
Lemma kq_nonident cs : Forall (fun c => match c with CSrc TIdent _ => False | _ => True end) cs -> forall nk, kq cs nk.
Proof. induction 1 as [|c cs Hc _ IH]; intros nk; [exact I|]. destruct c; cbn [kq]; auto. destruct k; auto. destruct Hc. Qed.

Lemma kq_docs ds nk : kq (p_docs fx ds) nk.
Proof. apply kq_nonident. rewrite p_docs_flat. apply Forall_forall. intros c Hc. apply in_map_iff in Hc. destruct Hc as (l & <- & _). exact I. Qed.

(** Unpacking steps. [ktok]: consume a token of the derivation, recording the kind seen by the node
    before it; [kfix]: an identifier copy followed in the source by a token that is not a colon is plain. *)
Ltac ktok :=
  match goal with
  | Ht : tok ?k ?ts _ _, Hi : Inv src ?ts |- _ =>
      let Hp := fresh "Hpk" in let H1 := fresh "Hsl" in let H2 := fresh "Hkc" in let H3 := fresh "Hkd" in let H4 := fresh "Hi" in
      pose proof (tok_peek' _ _ _ _ Ht) as Hp;
      destruct (tok_inv _ _ _ _ Ht Hi) as (H1 & H2 & H3 & H4); clear Ht H1 H2 H3
  end.
Ltac kid :=
  match goal with
  | Hg : g_id ?ts _ _, Hi : Inv src ?ts |- _ =>
      let H1 := fresh "Hid" in let H2 := fresh "Hi" in
      destruct (k_id _ _ _ Hg Hi) as [H1 H2]; clear Hg; cbn [kq src_id] in H1; destruct H1 as [H1 _]
  end.
Ltac kfix :=
  repeat match goal with
         | Hp : peek_kind ?r = Some _, H : context [peek_kind ?r] |- _ =>
             lazymatch type of H with peek_kind r = Some _ => fail | _ => rewrite Hp in H end
         end;
  repeat match goal with
         | H : plain _ \/ Some ?k = Some TColon |- _ =>
             destruct H as [H|H]; [|first [discriminate H | fail 2]]
         end.
Ltac kuse IH :=
  match goal with
  | Hi : Inv src ?ts |- _ =>
      let H1 := fresh "Hq" in let H2 := fresh "Hi" in destruct (IH Hi) as [H1 H2]; clear IH
  end.

(** Assembling [kq] of a concrete command list around sub-node facts. *)
Ltac kasm :=
  unfold src_id, src_str, src_path;
  repeat first
    [ exact I
    | assumption
    | progress cbn [app]
    | rewrite <- app_assoc
    | match goal with
      | |- kq [] _ => exact I
      | |- _ /\ _ => split
      | |- plain _ \/ _ => first [assumption | left; assumption | right; reflexivity | right; assumption]
      | |- kq (CSrc TIdent _ :: _) _ => cbn [kq]; split; [first [assumption | right; reflexivity | left; assumption | right; assumption]|]
      | |- kq (_ :: _) _ => progress cbn [kq]
      | |- kq (p_docs _ _ ++ _) _ => apply kq_closed_app; [intros; apply kq_docs|]
      | |- kq (p_docs _ _) _ => apply kq_docs
      | H : forall n, kq ?a n |- kq (?a ++ _) _ => apply kq_closed_app; [exact H|]
      | H : forall n, kq ?a n |- kq ?a _ => apply H
      | |- kq (_ ++ _) _ => eapply kq_app; [eassumption| |first [left; discriminate | right; left; eexists; reflexivity | right; right; split; reflexivity]]
      end ].

Ltac kpeeks :=
  repeat match goal with
         | Ht : tok ?k ?ts _ _ |- _ =>
             lazymatch goal with
             | _ : peek_kind ts = Some k |- _ => fail
             | _ => pose proof (tok_peek' _ _ _ _ Ht)
             end
         end.
Ltac unpack2 :=
  repeat match goal with
         | H : exists _, _ |- _ => destruct H
         | H : _ /\ _ |- _ => destruct H
         end.
Ltac kext := fail.
Ltac kuse2 L :=
  match goal with
  | Hg : _ ?ts _ _, Hi : Inv src ?ts |- _ =>
      let H1 := fresh "Hq" in let H2 := fresh "Hi" in destruct (L _ _ _ Hg Hi) as [H1 H2]; clear Hg Hi
  end.
Ltac kchain :=
  kpeeks;
  repeat match goal with
         | Hi : Inv src (LTok _ :: _) |- _ => cbn [Inv] in Hi; destruct Hi as [_ Hi]
         | Ht : tok _ ?ts _ _, Hi : Inv src ?ts |- _ =>
             let H1 := fresh "Hsl" in let H2 := fresh "Hkc" in let H3 := fresh "Hkd" in let H4 := fresh "Hi" in
             destruct (tok_inv _ _ _ _ Ht Hi) as (H1 & H2 & H3 & H4); clear Ht H1 H2 H3 Hi
         | Hg : g_id ?ts _ _, Hi : Inv src ?ts |- _ =>
             let H1 := fresh "Hid" in let H2 := fresh "Hi" in
             destruct (k_id _ _ _ Hg Hi) as [H1 H2]; clear Hg Hi; cbn [kq src_id] in H1; destruct H1 as [H1 _]
         | IH : Inv src ?ts -> kq _ _ /\ _, Hi : Inv src ?ts |- _ =>
             let H1 := fresh "Hq" in let H2 := fresh "Hi" in destruct (IH Hi) as [H1 H2]; clear IH Hi
         | IH : Inv src ?ts -> (forall _, kq _ _) /\ _, Hi : Inv src ?ts |- _ =>
             let H1 := fresh "Hq" in let H2 := fresh "Hi" in destruct (IH Hi) as [H1 H2]; clear IH Hi
         | IH : Inv src ?ts -> peek_kind ?r <> Some TColon -> forall b, _, Hi : Inv src ?ts, Hp : peek_kind ?r = Some _ |- _ =>
             let Hn := fresh "Hn" in let H1 := fresh "Hq" in let H2 := fresh "Hi" in
             assert (Hn : peek_kind r <> Some TColon) by (rewrite Hp; discriminate);
             destruct (IH Hi Hn true) as [H1 H2]; clear IH Hi
         | IH : Inv src ?ts -> peek_kind ?r <> Some TColon -> (forall _, kq _ _) /\ _, Hi : Inv src ?ts, Hp : peek_kind ?r = Some _ |- _ =>
             let Hn := fresh "Hn" in let H1 := fresh "Hq" in let H2 := fresh "Hi" in
             assert (Hn : peek_kind r <> Some TColon) by (rewrite Hp; discriminate);
             destruct (IH Hi Hn) as [H1 H2]; clear IH Hi
         | _ => kext
         end;
  kfix.
Ltac kdone := (split; [|assumption]); kasm.

Lemma k_type_both :
  (forall ts r t, g_type d ts r t -> Inv src ts -> kq (p_ty t) (peek_kind r) /\ Inv src r) /\
  (forall ts r x, g_types d ts r x -> Inv src ts -> peek_kind r <> Some TColon ->
                  forall b, kq (comma_sep p_ty b (fst x)) (peek_kind r) /\ Inv src r).
Proof.
  apply (g_type_comb d (fun ts r t => Inv src ts -> kq (p_ty t) (peek_kind r) /\ Inv src r)
                       (fun ts r x => Inv src ts -> peek_kind r <> Some TColon ->
                                      forall b, kq (comma_sep p_ty b (fst x)) (peek_kind r) /\ Inv src r));
    intros; subst; cbn [fst] in *.
  all: try match goal with |- kq (p_ty _) _ /\ _ => try discriminate; kchain; try rewrite p_ty_tuple; cbn [p_ty]; kdone end.
  - split; [exact I|assumption].
  - kchain. split; [|assumption]. cbn [comma_sep]. destruct b; cbn [app kq]; rewrite app_nil_r; exact Hq.
  - kchain. split; [|assumption]. cbn [comma_sep].
    assert (Hq' : kq (p_ty a ++ []) (peek_kind r)) by (eapply kq_app; [exact Hq|exact I|left; discriminate]).
    destruct b; cbn [app kq]; exact Hq'.
  - match goal with IH : Inv src ?ts -> peek_kind _ <> _ -> forall b, _ |- _ => rename IH into IHl end.
    kchain.
    match goal with Hn : peek_kind r <> Some TColon, Hi : Inv src _ |- _ => destruct (IHl Hi Hn false) as [Hq2 Hi2] end.
    split; [|assumption]. cbn [comma_sep].
    destruct b; cbn [app kq]; (eapply kq_app; [exact Hq|cbn [kq]; exact Hq2|left; discriminate]).
Qed.
Definition k_type : stepk (g_type d) p_ty := proj1 k_type_both.

Ltac kext ::= kuse2 k_type.

(* ------------------------------------------------------------------ lists *)

Lemma k_seplist_sep {A} (G : drel A) (pr : A -> list cmd) : stepk G pr ->
  forall ts r x, seplist G ts r x -> Inv src ts -> peek_kind r <> Some TColon ->
  forall b, kq (comma_sep pr b (fst x)) (peek_kind r) /\ Inv src r.
Proof.
  intros HG ts r x H. induction H as [ts|ts r a Ha|ts r1 r a c Ha Hc|ts r1 r2 r a c l tr Ha Hc Hl IH Hne]; intros Hi Hn b; cbn [fst].
  - split; [exact I|exact Hi].
  - destruct (HG _ _ _ Ha Hi) as [Hq Hi1]. split; [|exact Hi1]. cbn [comma_sep]. destruct b; cbn [app kq]; rewrite app_nil_r; exact Hq.
  - destruct (HG _ _ _ Ha Hi) as [Hq Hi1]. pose proof (tok_peek' _ _ _ _ Hc) as Hp. destruct (tok_inv _ _ _ _ Hc Hi1) as (_ & _ & _ & Hi2).
    split; [|exact Hi2]. rewrite Hp in Hq. cbn [comma_sep].
    assert (Hq' : kq (pr a ++ []) (peek_kind r)) by (eapply kq_app; [exact Hq|exact I|left; discriminate]).
    destruct b; cbn [app kq]; exact Hq'.
  - destruct (HG _ _ _ Ha Hi) as [Hq Hi1]. pose proof (tok_peek' _ _ _ _ Hc) as Hp. destruct (tok_inv _ _ _ _ Hc Hi1) as (_ & _ & _ & Hi2).
    destruct (IH Hi2 Hn false) as [Hq2 Hi3]. split; [|exact Hi3]. rewrite Hp in Hq. cbn [comma_sep fst] in *.
    destruct b; cbn [app kq]; (eapply kq_app; [exact Hq|cbn [kq]; exact Hq2|left; discriminate]).
Qed.

Lemma k_seplist_lines {A} (G : drel A) (pr : A -> list cmd) : stepk G pr ->
  forall ts r x, seplist G ts r x -> Inv src ts -> peek_kind r <> Some TColon ->
  (forall nk, kq (comma_lines pr (fst x)) nk) /\ Inv src r.
Proof.
  intros HG ts r x H. unfold comma_lines.
  induction H as [ts|ts r a Ha|ts r1 r a c Ha Hc|ts r1 r2 r a c l tr Ha Hc Hl IH Hne]; intros Hi Hn; cbn [fst flat_map].
  - split; [intros; exact I|exact Hi].
  - destruct (HG _ _ _ Ha Hi) as [Hq Hi1]. split; [|exact Hi1]. intros nk. rewrite app_nil_r.
    eapply kq_app; [exact Hq|exact I|left; exact Hn].
  - destruct (HG _ _ _ Ha Hi) as [Hq Hi1]. pose proof (tok_peek' _ _ _ _ Hc) as Hp. destruct (tok_inv _ _ _ _ Hc Hi1) as (_ & _ & _ & Hi2).
    split; [|exact Hi2]. intros nk. rewrite Hp in Hq. rewrite app_nil_r. eapply kq_app; [exact Hq|exact I|left; discriminate].
  - destruct (HG _ _ _ Ha Hi) as [Hq Hi1]. pose proof (tok_peek' _ _ _ _ Hc) as Hp. destruct (tok_inv _ _ _ _ Hc Hi1) as (_ & _ & _ & Hi2).
    destruct (IH Hi2 Hn) as [Hq2 Hi3]. split; [|exact Hi3]. intros nk. rewrite Hp in Hq. cbn [fst] in *.
    rewrite <- app_assoc. eapply kq_app; [exact Hq|cbn [app kq]; apply Hq2|left; discriminate].
Qed.

Lemma k_many {A} (G : drel A) (pr : A -> list cmd) : stepc G pr ->
  forall ts r l, many G ts r l -> Inv src ts -> (forall b nk, kq (spaced pr b l) nk) /\ Inv src r.
Proof.
  intros HG ts r l H. induction H as [ts|ts r1 r a l Ha Hl IH]; intros Hi.
  - split; [intros; exact I|exact Hi].
  - destruct (HG _ _ _ Ha Hi) as [Hq Hi1]. destruct (IH Hi1) as [Hq2 Hi2]. split; [|exact Hi2].
    intros b nk. cbn [spaced]. destruct b; cbn [app kq]; (apply kq_closed_app; [exact Hq|cbn [app kq]; apply Hq2]).
Qed.

(* ------------------------------------------------------------------ function types *)

Lemma k_named_type : stepk (g_named_type d) p_named_type.
Proof.
  intros ts r x H Hi. unfold g_named_type in H. unpack2. subst. unfold p_named_type. cbn [nt_id nt_ty]. kchain. kdone.
Qed.

Lemma k_params ts r ps : g_params d ts r ps -> Inv src ts -> peek_kind r <> Some TColon ->
  kq (p_named_types ps) (peek_kind r) /\ Inv src r.
Proof. intros [tr H] Hi Hn. exact (k_seplist_sep _ _ k_named_type _ _ _ H Hi Hn true). Qed.

Ltac kparams :=
  match goal with
  | Hg : g_params _ ?ts ?r _, Hi : Inv src ?ts, Hp : peek_kind ?r = Some _ |- _ =>
      let Hn := fresh "Hn" in let H1 := fresh "Hq" in let H2 := fresh "Hi" in
      assert (Hn : peek_kind r <> Some TColon) by (rewrite Hp; discriminate);
      destruct (k_params _ _ _ Hg Hi Hn) as [H1 H2]; clear Hg Hi
  end.
Ltac kext ::= first [kuse2 k_type | kuse2 k_named_type | kparams].

Lemma k_func_type : stepk (g_func_type d) p_func_type.
Proof.
  intros ts r x H Hi. unfold g_func_type in H. unpack2. subst. unfold p_func_type. cbn [ft_params ft_results].
  match goal with Ho : opt _ _ _ _ _ |- _ => destruct Ho as [r4|r4 r5 r' ar res Har Hres] end.
  - kchain. kdone.
  - destruct Hres; try (match goal with H : named_results _ = true |- _ => discriminate H end); kchain; kdone.
Qed.

Ltac kext ::= first [kuse2 k_type | kuse2 k_named_type | kparams | kuse2 k_func_type].

(* ------------------------------------------------------------------ type declarations *)

Lemma k_variant_case : stepk (g_variant_case d) (fun c => CIndent :: p_variant_case fx c).
Proof.
  intros ts r x H Hi. unfold g_variant_case in H. unpack2. subst. unfold p_variant_case. cbn [vc_docs vc_id vc_ty].
  match goal with Ho : opt _ _ _ _ _ |- _ => destruct Ho end; unpack2; kchain; kdone.
Qed.

Lemma k_field : stepk (g_field d) (p_field fx).
Proof.
  intros ts r x H Hi. unfold g_field in H. unpack2. subst. unfold p_field. cbn [fd_docs fd_id fd_ty].
  match goal with Hn : g_named_type _ _ _ _ |- _ => unfold g_named_type in Hn end. unpack2. subst. cbn [nt_id nt_ty]. kchain. kdone.
Qed.

Lemma k_flag : stepk g_flag (p_flag fx).
Proof. intros ts r x H Hi. unfold g_flag in H. unpack2. subst. unfold p_flag. cbn [fl_docs fl_id]. kchain. kdone. Qed.

Lemma k_enum_case : stepk g_enum_case (p_enum_case fx).
Proof. intros ts r x H Hi. unfold g_enum_case in H. unpack2. subst. unfold p_enum_case. cbn [ec_docs ec_id]. kchain. kdone. Qed.

Lemma k_braced {A} kw (item : drel A) (pr : A -> list cmd) mk :
  stepk item pr ->
  forall ts r x, g_braced kw item mk ts r x -> Inv src ts ->
  (exists dcs i items, x = mk dcs i items /\ forall nk, kq (p_block fx dcs kw i (comma_lines pr items)) nk) /\ Inv src r.
Proof.
  intros Hs ts r x H Hi. unfold g_braced in H. unpack2. subst. kchain.
  match goal with Hl : seplist _ ?a ?b _, Hp : peek_kind ?b = Some _ |- _ =>
    assert (Hn : peek_kind b <> Some TColon) by (rewrite Hp; discriminate) end.
  match goal with Hl : seplist _ ?a _ _, Hi' : Inv src ?a |- _ => destruct (k_seplist_lines _ _ Hs _ _ _ Hl Hi' Hn) as [Hq Hi2] end.
  kchain. split; [|assumption]. do 3 eexists. split; [reflexivity|]. intros nk. unfold p_block. cbn [fst] in Hq. kasm.
Qed.

Lemma k_type_decl : stepc (g_type_decl d) (p_item_type_decl fx).
Proof.
  intros ts r x H Hi. destruct H.
  - destruct (k_braced _ _ _ DVariant k_variant_case _ _ _ H Hi) as [(dcs & i & items & -> & H1) H2]. cbn [p_item_type_decl]. auto.
  - destruct (k_braced _ _ _ DRecord k_field _ _ _ H Hi) as [(dcs & i & items & -> & H1) H2]. cbn [p_item_type_decl]. auto.
  - destruct (k_braced _ _ _ DFlags k_flag _ _ _ H Hi) as [(dcs & i & items & -> & H1) H2]. cbn [p_item_type_decl]. auto.
  - destruct (k_braced _ _ _ DEnum k_enum_case _ _ _ H Hi) as [(dcs & i & items & -> & H1) H2]. cbn [p_item_type_decl]. auto.
  - kchain. split; [|assumption]. intros nk. cbn [p_item_type_decl]. kasm.
  - kchain. split; [|assumption]. intros nk. cbn [p_item_type_decl]. kasm.
Qed.

Lemma k_resource_item : stepc (g_resource_item d) (p_resource_method fx).
Proof.
  intros ts r x H Hi. destruct H; cbn [p_resource_method].
  - kchain. split; [|assumption]. intros nk. kasm.
  - match goal with Ho : opt _ _ _ _ _ |- _ => destruct Ho end; subst; kchain; (split; [|assumption]); intros nk; kasm.
Qed.

Lemma k_item_type_decl : stepc (g_item_type_decl d) (p_item_type_decl fx).
Proof.
  intros ts r x H Hi. destruct H.
  - kchain. split; [|assumption]. intros nk. cbn [p_item_type_decl]. unfold p_block. cbn [spaced]. kasm.
  - kchain.
    match goal with Hm : many _ ?a _ _, Hi' : Inv src ?a |- _ => destruct (k_many _ _ k_resource_item _ _ _ Hm Hi') as [Hq Hi2] end.
    kchain. split; [|assumption]. intros nk. cbn [p_item_type_decl]. unfold p_block. specialize (Hq true). kasm.
  - exact (k_type_decl _ _ _ H Hi).
Qed.

Ltac kusec L :=
  match goal with
  | Hg : _ ?ts _ _, Hi : Inv src ?ts |- _ =>
      let H1 := fresh "Hq" in let H2 := fresh "Hi" in destruct (L _ _ _ Hg Hi) as [H1 H2]; clear Hg Hi
  end.
Ltac kext ::= first [kuse2 k_type | kuse2 k_named_type | kparams | kuse2 k_func_type | kusec k_item_type_decl].

(* ------------------------------------------------------------------ interfaces and worlds *)

Lemma k_use_item : stepk g_use_item p_use_item.
Proof.
  intros ts r x H Hi. unfold g_use_item in H. unpack2. subst. unfold p_use_item. cbn [ui_id ui_as].
  match goal with Ho : opt _ _ _ _ _ |- _ => destruct Ho end; kchain; kdone.
Qed.

Lemma k_use : stepc (g_use d) (p_use fx).
Proof.
  intros ts r x H Hi. unfold g_use in H. unpack2. subst. unfold p_use. cbn [u_docs u_path u_items].
  match goal with Hp : g_use_path _ _ _ |- _ => destruct Hp as [? ? ? (tp & Htp & _)|] end; cbn [p_use_path]; kchain;
  (match goal with Hl : seplist _ ?a ?b _, Hp : peek_kind ?b = Some _, Hi' : Inv src ?a |- _ =>
     let Hn := fresh "Hn" in assert (Hn : peek_kind b <> Some TColon) by (rewrite Hp; discriminate);
     destruct (k_seplist_sep _ _ k_use_item _ _ _ Hl Hi' Hn true) as [Hq Hi2] end);
  kchain; (split; [|assumption]); intros nk; cbn [fst] in *; kasm.
Qed.

Lemma k_func_type_ref : stepk (g_func_type_ref d) p_func_type_ref.
Proof. intros ts r x H Hi. destruct H; cbn [p_func_type_ref]; kchain; kdone. Qed.

Lemma k_interface_item : stepc (g_interface_item d) (p_interface_item fx).
Proof.
  intros ts r x H Hi. destruct H; cbn [p_interface_item].
  - exact (k_use _ _ _ H Hi).
  - exact (k_item_type_decl _ _ _ H Hi).
  - kchain. kuse2 k_func_type_ref. kchain. split; [|assumption]. intros nk. kasm.
Qed.

Lemma k_interface_body : stepc (g_interface_body d) (fun items => CTok TOpenBrace :: p_items (p_interface_item fx) items).
Proof.
  intros ts r x H Hi. unfold g_interface_body in H. unpack2. kchain.
  match goal with Hm : many _ ?a _ _, Hi' : Inv src ?a |- _ => destruct (k_many _ _ k_interface_item _ _ _ Hm Hi') as [Hq Hi2] end.
  kchain. split; [|assumption]. intros nk. unfold p_items. specialize (Hq true). kasm.
Qed.

Lemma k_inline_interface : stepc (g_inline_interface d) (p_inline_interface fx).
Proof.
  intros ts r x H Hi. unfold g_inline_interface in H. unpack2. kchain. kusec k_interface_body.
  split; [|assumption]. intros nk. unfold p_inline_interface. specialize (Hq nk). cbn [kq] in Hq. kasm.
Qed.

Lemma k_extern_type : stepk (g_extern_type d) (p_extern_type fx).
Proof.
  intros ts r x H Hi. destruct H; cbn [p_extern_type]; [kchain; kdone| |kchain; kdone].
  destruct (k_inline_interface _ _ _ H Hi) as [Hq Hi2]. split; [apply Hq|exact Hi2].
Qed.

Lemma k_world_item_path : stepk (g_world_item_path d) (p_world_item_path fx).
Proof.
  intros ts r x H Hi. destruct H as [? ? ? ? ? ? ? ? ?|? ? ? (tp & Htp & _)|]; cbn [p_world_item_path]; kchain; try kuse2 k_extern_type; kdone.
Qed.

Lemma k_include_item : stepk g_include_item p_include_item.
Proof. intros ts r x H Hi. unfold g_include_item in H. unpack2. subst. unfold p_include_item. cbn [ii_from ii_to]. kchain. kdone. Qed.

Lemma k_world_item : stepc (g_world_item d) (p_world_item fx).
Proof.
  intros ts r x H Hi. destruct H; cbn [p_world_item].
  - exact (k_use _ _ _ H Hi).
  - exact (k_item_type_decl _ _ _ H Hi).
  - kchain. kuse2 k_world_item_path. kchain. split; [|assumption]. intros nk. kasm.
  - kchain. kuse2 k_world_item_path. kchain. split; [|assumption]. intros nk. kasm.
  - match goal with Hw : g_world_ref _ _ _ |- _ => destruct Hw as [? ? ? (tp & Htp & _)|] end; cbn [p_world_ref];
    (match goal with Ho : opt _ _ _ _ _ |- _ => destruct Ho end); unpack2; kchain;
    try (match goal with Hl : seplist _ ?a ?b _, Hp : peek_kind ?b = Some _, Hi' : Inv src ?a |- _ =>
           let Hn := fresh "Hn" in assert (Hn : peek_kind b <> Some TColon) by (rewrite Hp; discriminate);
           destruct (k_seplist_lines _ _ k_include_item _ _ _ Hl Hi' Hn) as [Hq Hi2] end; kchain);
    (split; [|assumption]); intros nk; cbn [fst] in *;
    try (match goal with |- context [match ?l with [] => _ | _ :: _ => _ end] => destruct l end); kasm.
Qed.

Lemma k_type_statement : stepc (g_type_statement d) (p_type_statement fx).
Proof.
  intros ts r x H Hi. destruct H; cbn [p_type_statement].
  - match goal with Hb : g_interface_body _ _ _ _ |- _ => unfold g_interface_body in Hb end. unpack2. kchain.
    match goal with Hm : many _ ?a _ _, Hi' : Inv src ?a |- _ => destruct (k_many _ _ k_interface_item _ _ _ Hm Hi') as [Hq Hi2] end.
    kchain. split; [|assumption]. intros nk. unfold p_items. specialize (Hq true). kasm.
  - kchain.
    match goal with Hm : many _ ?a _ _, Hi' : Inv src ?a |- _ => destruct (k_many _ _ k_world_item _ _ _ Hm Hi') as [Hq Hi2] end.
    kchain. split; [|assumption]. intros nk. unfold p_items. specialize (Hq true). kasm.
  - exact (k_type_decl _ _ _ H Hi).
Qed.

(* ------------------------------------------------------------------ expressions *)

Lemma k_postfix : stepk g_postfix p_postfix.
Proof. intros ts r x H Hi. destruct H as [| ? ? ? ? ? ? ? ? (st & Hst & _) ?]; cbn [p_postfix]; kchain; kdone. Qed.

Lemma postfix_first ts r x : g_postfix ts r x -> peek_kind ts <> Some TColon.
Proof. intros H. destruct H as [? ? ? ? ? Ht|? ? ? ? ? ? ? Ht]; rewrite (tok_peek' _ _ _ _ Ht); discriminate. Qed.

Lemma k_postfixes ts r post : many g_postfix ts r post -> Inv src ts -> kq (flat_map p_postfix post) (peek_kind r) /\ Inv src r.
Proof.
  intros H. induction H as [ts|ts r1 r a l Ha Hl IH]; intros Hi; [split; [exact I|exact Hi]|].
  destruct (k_postfix _ _ _ Ha Hi) as [Hq Hi1]. destruct (IH Hi1) as [Hq2 Hi2]. split; [|exact Hi2].
  cbn [flat_map]. eapply kq_app; [exact Hq|exact Hq2|].
  destruct Hl as [ts0|ts0 r2 r0 a0 l0 Ha0 Hl0]; [right; right; split; reflexivity|left; eapply postfix_first; eauto].
Qed.

Lemma k_arg_name : stepk g_arg_name p_arg_name.
Proof. intros ts r x H Hi. destruct H as [|? ? ? (st & Hst & _)]; cbn [p_arg_name]; kchain; kdone. Qed.

Lemma kq_fill_closed a : is_fill a = true -> forall nk, kq (p_arg0 a) nk.
Proof. destruct a; try discriminate. intros _ nk. exact I. Qed.

Lemma k_expr_all :
  forall ts r x, g_expr d ts r x -> Inv src ts -> kq (p_expr fx x) (peek_kind r) /\ Inv src r.
Proof.
  apply (g_expr_mut d (fun ts r x => Inv src ts -> kq (p_expr fx x) (peek_kind r) /\ Inv src r)
                      (fun ts r p => Inv src ts -> kq (p_primary fx p) (peek_kind r) /\ Inv src r)
                      (fun ts r x => Inv src ts -> peek_kind r <> Some TColon -> (forall nk, kq (p_args (fst x)) nk) /\ Inv src r)
                      (fun ts r a => Inv src ts -> kq (p_arg0 a) (peek_kind r) /\ Inv src r));
    intros; subst; cbn [fst] in *.
  - (* expr *) kchain.
    match goal with Hm : many g_postfix ?a _ _, Hi' : Inv src ?a |- _ => destruct (k_postfixes _ _ _ Hm Hi') as [Hq2 Hi2] end.
    split; [|assumption]. unfold mk_expr. cbn [p_expr]. eapply kq_app; [eassumption|exact Hq2|].
    match goal with Hm : many g_postfix _ _ _ |- _ => destruct Hm as [ts0|ts0 r2 r0 a0 l0 Ha0 Hl0] end;
      [right; right; split; reflexivity|left; eapply postfix_first; eauto].
  - (* new *) match goal with Hp : g_package_name _ _ _ |- _ => destruct Hp as (tp & Htp & _) end. kchain.
    split; [|assumption]. rewrite p_new_eq. unfold p_new_args.
    repeat match goal with |- context [match ?l with [] => _ | _ :: _ => _ end] => destruct l end;
    repeat match goal with |- context [match ?a with AFill _ => _ | _ => _ end] => destruct a end; kasm.
  - (* nested *) kchain. kdone. cbn [p_primary]. kasm.
  - (* ident *) kchain. split; [|assumption]. cbn [p_primary src_id kq]. auto.
  - (* no arguments *) split; [intros; exact I|assumption].
  - (* one argument *) kchain. split; [|assumption]. intros nk. cbn [p_args nil_args]. unfold p_arg_line.
    destruct (is_fill a) eqn:Ef; cbn [andb app kq]; [rewrite app_nil_r; apply kq_closed_app; [now apply kq_fill_closed|exact I]|].
    rewrite <- app_assoc. eapply kq_app; [exact Hq|exact I|left; assumption].
  - (* one argument and a comma *) kchain. split; [|assumption]. intros nk. cbn [p_args nil_args]. unfold p_arg_line.
    destruct (is_fill a) eqn:Ef; cbn [andb app kq]; [rewrite app_nil_r; apply kq_closed_app; [now apply kq_fill_closed|exact I]|].
    rewrite <- app_assoc. eapply kq_app; [exact Hq|exact I|left; discriminate].
  - (* several *)
    match goal with IH : Inv src ?ts -> peek_kind _ <> _ -> (forall _, _) /\ _ |- _ => rename IH into IHl end.
    kchain.
    match goal with Hn : peek_kind r <> Some TColon, Hi' : Inv src _ |- _ => destruct (IHl Hi' Hn) as [Hq2 Hi2] end.
    split; [|assumption]. intros nk. destruct l as [|b l']; [congruence|]. rewrite p_args_cons. unfold p_arg_line. cbn [nil_args].
    rewrite andb_false_r. cbn [kq]. rewrite <- app_assoc. eapply kq_app; [exact Hq|cbn [app kq]; apply Hq2|left; discriminate].
  - (* inferred *) kchain. split; [|assumption]. cbn [p_arg0 src_id kq]. auto.
  - (* spread *) kchain. split; [|assumption]. cbn [p_arg0 src_id kq]. auto.
  - (* named *) kuse2 k_arg_name. kchain. split; [|assumption]. cbn [p_arg0]. kasm.
  - (* fill *) kchain. split; [|assumption]. exact I.
Qed.

Ltac kext ::= first [kuse2 k_type | kuse2 k_named_type | kparams | kuse2 k_func_type | kusec k_item_type_decl | kuse2 k_expr_all].

(* ------------------------------------------------------------------ statements, document *)

Lemma k_extern_name : stepk g_extern_name p_extern_name.
Proof. intros ts r x H Hi. destruct H as [|? ? ? (st & Hst & _)]; cbn [p_extern_name]; kchain; kdone. Qed.

Lemma k_import_type : stepk (g_import_type d) (p_import_type fx).
Proof.
  intros ts r x H Hi. destruct H as [? ? ? (tp & Htp & _)| | |]; cbn [p_import_type]; [kchain; kdone|kchain; kdone| |kchain; kdone].
  destruct (k_inline_interface _ _ _ H Hi) as [Hq Hi2]. split; [apply Hq|exact Hi2].
Qed.

Lemma k_statement : stepc (g_statement d) (p_statement fx).
Proof.
  intros ts r x H Hi. destruct H; cbn [p_statement].
  - match goal with Ho : opt _ _ _ _ _ |- _ => destruct Ho end; kchain; try kuse2 k_extern_name; kchain;
      kuse2 k_import_type; kchain; (split; [|assumption]); intros nk; kasm.
  - exact (k_type_statement _ _ _ H Hi).
  - kchain. split; [|assumption]. intros nk. kasm.
  - kchain.
    match goal with Ho : g_export_options _ _ _ |- _ => destruct Ho end; kchain; try kuse2 k_extern_name; kchain;
      (split; [|assumption]); intros nk; kasm.
Qed.

Theorem k_document ts x : g_document d ts [] x -> Inv src ts -> forall nk, kq (p_document fx x) nk.
Proof.
  intros H Hi nk. unfold g_document in H. unpack2. subst. unfold g_package_decl in *. unpack2. subst.
  unfold p_document, p_directive. cbn [doc_docs doc_directive pd_package pd_targets doc_statements fx_targets_keyword fx repaired].
  match goal with Hp : g_package_name _ _ _ |- _ => destruct Hp as (tp & Htp & _) end.
  match goal with Ho : opt _ _ _ _ _ |- _ => destruct Ho as [|? ? ? ? ? ? (tq & Htq & _)] end; kchain;
  (match goal with Hm : many _ ?a _ _, Hi' : Inv src ?a |- _ => destruct (k_many _ _ k_statement _ _ _ Hm Hi') as [Hq Hi2] end);
  specialize (Hq true); kasm.
Qed.

(** From the commands to the pieces. *)
Lemma layout_kq_kwcb cs : kq cs None -> forall ind b ps, layout src ind b cs = Some ps -> kwcb ps = true.
Proof.
  induction cs as [|c cs IH]; intros Hk ind b ps H; cbn [layout] in H; [inversion H; reflexivity|].
  destruct c.
  - cbn [kq] in Hk. destruct (layout src ind b cs) eqn:E; inversion H; subst.
    destruct k; cbn [kwcb]; eauto.
    assert (Ek : kw_text (fixed_text TIdent) = false) by (vm_compute; reflexivity). rewrite Ek. cbn [negb orb andb]. eauto.
  - destruct (slice src sp) as [t|] eqn:Es; [|discriminate]. destruct (layout src ind b cs) as [ps'|] eqn:E; inversion H; subst.
    destruct k; cbn [kq kwcb] in *; eauto.
    destruct Hk as [Hk1 Hk2]. rewrite (IH Hk2 _ _ _ E), andb_true_r.
    destruct Hk1 as [Hp|Hn]; [rewrite (Hp t Es); reflexivity|].
    destruct cs as [|c2 cs2]; [discriminate Hn|]. destruct c2 as [k2|k2 sp2| | | | | | |]; try contradiction.
    rewrite Hn in E. cbn [layout] in E. destruct (layout src ind b cs2); inversion E; subst. apply orb_true_r.
  - cbn [kq] in Hk. destruct (layout src ind b cs) eqn:E; inversion H; subst. cbn [kwcb]. eauto.
  - cbn [kq] in Hk. destruct (layout src ind false cs) eqn:E; [|destruct b; discriminate]. destruct b; inversion H; subst; cbn [kwcb]; eauto.
  - cbn [kq] in Hk. destruct b; [eauto|]. destruct (layout src ind true cs) eqn:E; inversion H; subst. cbn [kwcb]. eauto.
  - cbn [kq] in Hk. destruct (layout src ind false cs) eqn:E; inversion H; subst. cbn [kwcb]. eauto.
  - cbn [kq] in Hk. destruct (layout src ind b cs) eqn:E; inversion H; subst. cbn [kwcb]. eauto.
  - cbn [kq] in Hk. eauto.
  - cbn [kq] in Hk. eauto.
Qed.

End Colon.

(** The side condition of [render_lex] holds for every parsed document. *)
Theorem parsed_kwcb src doc r ps :
  parse_document impl_flags impl_cfg src = POk doc r -> print_pieces repaired src doc = Some ps -> kwcb ps = true.
Proof.
  intros H Hp. unfold print_pieces in Hp. apply parse_document_sound in H. destruct H as [_ H].
  change (cfg_with impl_flags impl_cfg) with impl_cfg in H.
  eapply layout_kq_kwcb; [|exact Hp]. eapply k_document; [exact H|apply lex_inv].
Qed.
