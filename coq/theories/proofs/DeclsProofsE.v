(** C05, part E: documents; the rejection of borrows in results; example documents. *)
From Coq Require Import String.
From Coq Require Import ZArith ZifyBool ZifyN Lia.
From WacV Require Import Str StrLit Types CheckerEq CheckerValue CheckerProofs Decls WitDenote
     DeclsProofsA DeclsProofsB DeclsProofsF DeclsProofsC DeclsProofsD.
From WacV Require Ast.
Set Warnings "-unused-intro-pattern".

(** * Type statements *)
Lemma item_id_wit pn n : item_id pn n = wit_id pn n.
Proof. reflexivity. Qed.

Lemma type_statement_sim pn pkgs penv s genv x s' :
  flat (r_types s) -> Renv (r_types s) (r_root s) genv -> Rpk (r_types s) pkgs penv ->
  type_statement pn pkgs s x = DOk s' ->
  aext (r_types s) (r_types s') /\
  exists n y sm, den_statement pn penv genv x = Some (n, sm) /\ bound n genv = false /\
                 r_root s' = (n, y) :: r_root s /\ r_defs s' = r_defs s ++ [(n, KType y)] /\
                 rel_item (r_types s') y sm.
Proof.
  intros Hf Hg Hp H. unfold type_statement in H. dinv H as [[[n y] t1] [E1 H]].
  destruct (mem n (r_exports s)); [discriminate|]. dinv H as [root1 [E2 H]]. apply register_ok in E2 as [Eh ->].
  injection H as <-. cbn [r_types r_root r_defs].
  assert (Hs : aext (r_types s) t1 /\ exists sm, den_statement pn penv genv x = Some (n, sm) /\ rel_item t1 y sm).
  { destruct x as [docs i items|docs i items|d]; cbn [den_statement] in *.
    - dinv E1 as [[j t0] [E0 E1]]. injection E1 as <- <- <-.
      destruct (interface_body_sim _ _ _ _ _ _ _ _ _ Hf Hg Hp E0) as [X1 [e [D1 [R1 _]]]]. split; [exact X1|].
      rewrite D1. cbn [option_map]. eexists. split; [reflexivity|]. rewrite <- item_id_wit. exact R1.
    - dinv E1 as [[j t0] [E0 E1]]. injection E1 as <- <- <-.
      destruct (world_body_sim _ _ _ _ _ _ _ _ _ Hf Hg Hp E0) as [X1 [wi [we [D1 R1]]]]. split; [exact X1|].
      rewrite D1. cbn [option_map fst snd]. eexists. split; [reflexivity | exact R1].
    - destruct d as [docs id ms|docs id cs|docs id fs|docs id fl|docs id cs|docs id k]; [discriminate| | | | |];
        (dinv E1 as [[y0 t0] [E0 E1]]; injection E1 as <- <- <-;
         destruct (plain_decl_sim _ _ _ _ _ _ Hg E0) as [X1 [sm [D1 R1]]]; split; [exact X1|];
         rewrite D1; cbn [option_map]; eexists; split; [reflexivity | exact R1]). }
  destruct Hs as [X1 [sm [D1 R1]]]. split; [exact X1|]. exists n, y, sm. rewrite <- (R2_has _ _ _ n Hg). auto.
Qed.

Lemma statements_go_sim pn pkgs penv : forall l s genv acc s',
  flat (r_types s) -> Renv (r_types s) (r_root s) genv -> Rpk (r_types s) pkgs penv -> Rexts (r_types s) (r_defs s) acc ->
  statements_go pn pkgs s l = DOk s' ->
  aext (r_types s) (r_types s') /\
  exists defs genv', den_statements pn penv genv acc l = Some defs /\ Rexts (r_types s') (r_defs s') defs /\
                     Renv (r_types s') (r_root s') genv'.
Proof.
  induction l as [|st rest IH]; intros s genv acc s' Hf Hg Hp Ha H.
  - cbn in H. injection H as <-. split; [apply aext_refl|]. exists acc, genv. auto.
  - destruct st as [| x | |]; cbn [statements_go] in H; try discriminate. dinv H as [s1 [E1 H]].
    destruct (type_statement_sim _ _ _ _ _ _ _ Hf Hg Hp E1) as [X1 [n [y [sm [D1 [Hb [Hroot [Hdefs R1]]]]]]]].
    assert (Hg1 : Renv (r_types s1) (r_root s1) ((n, sm) :: genv)).
    { rewrite Hroot. apply R2_cons; [exact R1 | eapply Renv_aext; eassumption]. }
    assert (Ha1 : Rexts (r_types s1) (r_defs s1) (acc ++ [(n, sem_tree sm)])).
    { rewrite Hdefs. apply R2_snoc; [eapply Rexts_aext; eassumption | now apply rel_item_uk]. }
    destruct (IH _ _ _ _ (type_statement_flat _ _ _ _ _ Hf E1) Hg1 (Rpk_aext _ _ _ _ X1 Hp) Ha1 H)
      as [X2 [defs [genv' [D2 [R2' G2]]]]].
    split; [eapply aext_trans; eassumption|]. exists defs, genv'. cbn [den_statements]. rewrite D1, Hb. auto.
Qed.

Lemma resolve_document_sim ext eext t0 d s :
  flat t0 -> Renv t0 ext eext -> resolve_document ext t0 d = DOk s ->
  aext t0 (r_types s) /\ exists defs, den_document eext d = Some defs /\ Rexts (r_types s) (r_defs s) defs.
Proof.
  intros Hf He H. unfold resolve_document, den_document in *. cbv zeta in *.
  destruct (Ast.pd_targets (Ast.doc_directive d)); [discriminate|].
  pose proof (fun hf hg hp ha =>
                statements_go_sim _ _ (mkpenv (Ast.pn_name (Ast.pd_package (Ast.doc_directive d))) eext) _ _ [] [] _
                                  hf hg hp ha H) as Hsim.
  cbn [r_types r_root r_defs] in Hsim.
  destruct (Hsim Hf (R2_nil _) (conj eq_refl He) (R2_nil _)) as [X1 [defs [genv' [D1 [R1 _]]]]].
  split; [exact X1|]. exists defs. auto.
Qed.

(** * A borrow in a result is rejected *)
Lemma borrow_rejected cur t e ps y k res rname v :
  Renv t cur e -> (forall r, res = Some r -> un t r rname) -> den_ty e y = Some v -> has_borrow v = true ->
  forall r, func_type cur t ps (Ast.RLScalar y) k res <> DOk r.
Proof.
  intros He Hres Hv Hb [i t'] H. destruct (func_type_sim _ _ _ _ _ _ _ _ _ _ He Hres H) as [_ [ft [D _]]].
  unfold den_func in D. destruct (den_params e ps); [|discriminate]. cbv zeta in D.
  destruct (negb _); [discriminate|]. rewrite Hv, Hb in D. discriminate.
Qed.

(** once the parameters and the result type themselves resolve, the outcome is exactly [BorrowInResult] (or the
    fuel of [contains_borrow] ran out, which needs an acyclicity invariant of the arenas to exclude) *)
Lemma borrow_rejected_exact cur t e ps y k res v params t1 vr t2 :
  Renv t cur e -> den_ty e y = Some v -> has_borrow v = true ->
  (k = FMethod -> res <> None) ->
  params_go cur t (self_pre k res) ps = DOk (params, t1) -> resolve_ty cur t1 y = DOk (vr, t2) ->
  func_type cur t ps (Ast.RLScalar y) k res = DErr EBorrowInResult \/ func_type cur t ps (Ast.RLScalar y) k res = DFuel.
Proof.
  intros He Hv Hb Hk Hp Hr. unfold func_type.
  assert (E0 : match k with
               | FMethod => match res with Some r => DOk [(self_name, VBorrow r)] | None => DPanic 1 end
               | _ => DOk []
               end = DOk (self_pre k res)).
  { destruct k; try reflexivity. destruct res; [reflexivity|]. exfalso. now apply Hk. }
  rewrite E0. cbn [dbind]. rewrite Hp. cbn [dbind]. rewrite Hr. cbn [dbind].
  destruct (params_go_frame _ _ _ _ _ _ Hp) as [[X1 _] _].
  destruct (resolve_ty_sim _ _ _ _ _ _ (Renv_aext _ _ _ _ X1 He) Hr) as [_ [tr [D U]]].
  rewrite Hv in D. injection D as <-.
  destruct (cb_vt (cb_fuel t2) t2 vr) as [[|]|] eqn:Ecb; cbn [dbind]; auto.
  pose proof (cb_vt_spec _ _ _ _ _ Ecb U). congruence.
Qed.

(** * Example documents (non-vacuity) *)
Definition empty_types : types := mktypes 0 [] [] [] [] [] [].
Lemma flat_empty : flat empty_types.
Proof. split; intros x []. Qed.

Definition xsp : Token.span := {| Token.off := 0; Token.slen := 0 |}.
Definition xid (s : str) : Ast.ident := {| Ast.id_string := s; Ast.id_span := xsp |}.
Definition xprim (p : Ast.prim) : Ast.ty := Ast.TyPrim p xsp.
Definition xnt (n : str) (t : Ast.ty) : Ast.named_type := {| Ast.nt_id := xid n; Ast.nt_ty := t |}.
Definition xpn : Ast.package_name :=
  {| Ast.pn_string := L"test:pkg"; Ast.pn_name := L"test:pkg"; Ast.pn_version := None; Ast.pn_span := xsp |}.
Definition xdoc (l : list Ast.type_statement) : Ast.document :=
  {| Ast.doc_docs := []; Ast.doc_directive := {| Ast.pd_package := xpn; Ast.pd_targets := None |};
     Ast.doc_statements := map Ast.SType l |}.

(** interface i {
      record r { a: u8, b: string }
      resource res { constructor(x: u8); m: func(y: r) -> u32; s: static func() -> res; }
      f: func(p: borrow<res>) -> list<r>;
    } *)
Definition ex_iface : Ast.type_statement :=
  Ast.TSInterface [] (xid (L"i"))
    [ Ast.IIType (Ast.DRecord [] (xid (L"r"))
        [ {| Ast.fd_docs := []; Ast.fd_id := xid (L"a"); Ast.fd_ty := xprim Ast.PU8 |};
          {| Ast.fd_docs := []; Ast.fd_id := xid (L"b"); Ast.fd_ty := xprim Ast.PString |} ]);
      Ast.IIType (Ast.DResource [] (xid (L"res"))
        [ Ast.RMConstructor [] xsp [xnt (L"x") (xprim Ast.PU8)];
          Ast.RMMethod [] (xid (L"m")) false
            {| Ast.ft_params := [xnt (L"y") (Ast.TyIdent (xid (L"r")))]; Ast.ft_results := Ast.RLScalar (xprim Ast.PU32) |};
          Ast.RMMethod [] (xid (L"s")) true
            {| Ast.ft_params := []; Ast.ft_results := Ast.RLScalar (Ast.TyIdent (xid (L"res"))) |} ]);
      Ast.IIExport [] (xid (L"f"))
        (Ast.FRFunc {| Ast.ft_params := [xnt (L"p") (Ast.TyBorrow (xid (L"res")) xsp)];
                       Ast.ft_results := Ast.RLScalar (Ast.TyList (Ast.TyIdent (xid (L"r"))) xsp) |}) ].

(** world w1 { import i; export f: func(); import g: func(); }
    world w2 { use i.{r as rr}; export f: func(x: rr); include w1 with { g as h }; } *)
Definition xfunc0 : Ast.func_type := {| Ast.ft_params := []; Ast.ft_results := Ast.RLEmpty |}.
Definition ex_w1 : Ast.type_statement :=
  Ast.TSWorld [] (xid (L"w1"))
    [ Ast.WIImport [] (Ast.WPIdent (xid (L"i")));
      Ast.WIExport [] (Ast.WPNamed (xid (L"f")) (Ast.ETFunc xfunc0));
      Ast.WIImport [] (Ast.WPNamed (xid (L"g")) (Ast.ETFunc xfunc0)) ].
Definition ex_w2 : Ast.type_statement :=
  Ast.TSWorld [] (xid (L"w2"))
    [ Ast.WIUse {| Ast.u_docs := []; Ast.u_path := Ast.UPIdent (xid (L"i"));
                   Ast.u_items := [{| Ast.ui_id := xid (L"r"); Ast.ui_as := Some (xid (L"rr")) |}] |};
      Ast.WIInclude [] (Ast.WRIdent (xid (L"w1"))) [{| Ast.ii_from := xid (L"g"); Ast.ii_to := xid (L"h") |}];
      Ast.WIExport [] (Ast.WPNamed (xid (L"f2"))
                        (Ast.ETFunc {| Ast.ft_params := [xnt (L"x") (Ast.TyIdent (xid (L"rr")))]; Ast.ft_results := Ast.RLEmpty |})) ].

Definition ex_doc1 : Ast.document := xdoc [ex_iface].
Definition ex_doc2 : Ast.document := xdoc [ex_iface; ex_w1; ex_w2].

(** the model's definitions unfolded to trees *)
Definition defs_trees (fuel : nat) (r : dres rst) : option (list (str * tree)) :=
  match r with DOk s => map_snd (unfold fuel (r_types s)) (r_defs s) | _ => None end.

(** * [use_type] is [use_source] followed by [use_items] *)
Lemma use_type_split root pkgs l u l' :
  use_type root pkgs l u = DOk l' ->
  exists iface, use_source root pkgs (l_types l) (Ast.u_path u) = DOk iface /\ use_items iface l (Ast.u_items u) = DOk l'.
Proof. unfold use_type. intro H. dinv H as [iface [E1 H]]. eauto. Qed.

(** the conclusion of [resolve_document_sim] with one common fuel: the unfolded definitions ARE the denotation *)
Lemma resolve_document_trees ext eext t0 d s :
  flat t0 -> Renv t0 ext eext -> resolve_document ext t0 d = DOk s ->
  exists F defs, den_document eext d = Some defs /\ defs_trees F (resolve_document ext t0 d) = Some defs.
Proof.
  intros Hf He H. destruct (resolve_document_sim _ _ _ _ _ Hf He H) as [_ [defs [D R]]].
  destruct (Rexts_collect _ _ _ R) as [F HF]. exists F, defs. rewrite H. cbn [defs_trees]. auto.
Qed.
