(** C05, part R: fuel sufficiency of [contains_borrow] ([cb_vt]) on arenas whose defined types only refer to
    older slots, and the exact outcome of [func_type] on a result type that contains a borrow. *)
From Coq Require Import String.
From Coq Require Import ZArith ZifyBool ZifyN Lia.
From WacV Require Import Str StrLit Types CheckerEq CheckerValue CheckerProofs Decls WitDenote
     DeclsProofsA DeclsProofsB DeclsProofsF DeclsProofsE.
From WacV Require Ast.
Set Warnings "-unused-intro-pattern".

(** a value type refers to a defined slot below [n] of this collection (or to no defined slot) *)
Definition vbelow (t : types) (n : nat) (v : valtype) : Prop :=
  match v with VDefined j => id_tag j = t_tag t /\ (id_idx j < n)%nat | _ => True end.
Definition vbounded (t : types) (v : valtype) : Prop := vbelow t (length (t_defined t)) v.
(** creation order is a ranking of the defined arena *)
Definition def_ranked (t : types) : Prop :=
  forall i d, nth_error (t_defined t) i = Some d -> forall v, In v (def_children d) -> vbelow t i v.
(** the value types bound in a scope are in range *)
Definition scope_ok (t : types) (cur : scope) : Prop :=
  forall n v, assoc n cur = Some (TValue v) -> vbounded t v.

Lemma vbelow_le t n m v : (n <= m)%nat -> vbelow t n v -> vbelow t m v.
Proof. destruct v; cbn; auto. intros H [H1 H2]. split; [exact H1 | lia]. Qed.

(** * [cb_vt] does not run out of fuel *)
Lemma any_o_total {A} (p : A -> option bool) l : (forall x, In x l -> p x <> None) -> any_o p l <> None.
Proof.
  induction l as [|x l IH]; intro H; [discriminate|]. rewrite any_o_cons.
  destruct (p x) as [[|]|] eqn:E; [discriminate | | exfalso; apply (H x); [now left | exact E]].
  apply IH. intros y Hy. apply H. now right.
Qed.
Lemma opt_o_total (C : valtype -> option bool) o : (forall v, In v (ov_list o) -> C v <> None) -> opt_o C o <> None.
Proof. destruct o as [v|]; cbn [opt_o ov_list]; [|discriminate]. intro H. apply H. now left. Qed.

Lemma cb_vt_total t : def_ranked t -> forall f n v,
  vbelow t n v -> (n <= length (t_defined t))%nat -> (n < f)%nat -> cb_vt f t v <> None.
Proof.
  intros Hr. induction f as [|f IH]; intros n v Hv Hn Hf; [lia|]. cbn [cb_vt].
  destruct v as [p|r|r|d]; try discriminate. destruct Hv as [Htag Hidx].
  assert (Hg : exists x, get_def t d = Some x /\ nth_error (t_defined t) (id_idx d) = Some x).
  { unfold get_def, lookup. rewrite Htag, N.eqb_refl. destruct (nth_error (t_defined t) (id_idx d)) as [x|] eqn:E; [eauto|].
    apply nth_error_None in E. lia. }
  destruct Hg as [x [-> Hnth]].
  assert (HC : forall v, In v (def_children x) -> cb_vt f t v <> None).
  { intros v Hin. apply (IH (id_idx d)); [apply (Hr _ _ Hnth _ Hin) | lia | lia]. }
  destruct x; cbn [def_children] in HC.
  - apply any_o_total. exact HC.
  - apply HC. now left.
  - apply HC. now left.
  - apply HC. now left.
  - assert (H1 : opt_o (cb_vt f t) ok <> None) by (apply opt_o_total; intros v Hin; apply HC, in_or_app; now left).
    assert (H2 : opt_o (cb_vt f t) err <> None) by (apply opt_o_total; intros v Hin; apply HC, in_or_app; now right).
    destruct (opt_o (cb_vt f t) ok) as [[|]|]; [discriminate | exact H2 | congruence].
  - apply any_o_total. intros kv Hin. apply opt_o_total. intros v Hv. apply HC. apply in_flat_map. eauto.
  - apply any_o_total. intros kv Hin. apply HC. now apply in_map.
  - discriminate.
  - discriminate.
  - apply HC. now left.
  - apply opt_o_total. exact HC.
  - apply opt_o_total. exact HC.
Qed.

Lemma cb_fuel_suffices t v : def_ranked t -> vbounded t v -> cb_vt (cb_fuel t) t v <> None.
Proof. intros Hr Hv. apply (cb_vt_total t Hr _ (length (t_defined t))); [exact Hv | lia | unfold cb_fuel; lia]. Qed.

(** * The resolver keeps the defined arena ranked *)
Lemma vbounded_aext t t' v : aext t t' -> vbounded t v -> vbounded t' v.
Proof.
  intros [H0 [l H] _ _ _ _ _]. unfold vbounded. destruct v; cbn; auto. rewrite H0, H, app_length. intros [H1 H2]. split; [exact H1 | lia].
Qed.
Lemma scope_ok_aext t t' cur : aext t t' -> scope_ok t cur -> scope_ok t' cur.
Proof. intros Hx H n v Ha. eapply vbounded_aext; [exact Hx | eapply H; exact Ha]. Qed.

Lemma ranked_add_defined t d :
  def_ranked t -> (forall v, In v (def_children d) -> vbounded t v) -> def_ranked (fst (add_defined t d)).
Proof.
  intros Hr Hd i x Hnth v Hin. cbn [add_defined fst t_defined t_tag] in *.
  destruct (Nat.lt_ge_cases i (length (t_defined t))) as [Hlt|Hge].
  - rewrite nth_error_app1 in Hnth by exact Hlt. apply (Hr _ _ Hnth _ Hin).
  - rewrite nth_error_app2 in Hnth by exact Hge. destruct (i - length (t_defined t))%nat as [|k] eqn:Ek.
    + cbn in Hnth. injection Hnth as <-. eapply vbelow_le; [|apply Hd; exact Hin]. lia.
    + cbn in Hnth. destruct k; discriminate.
Qed.
Lemma defined_ranked t d v t' :
  def_ranked t -> (forall c, In c (def_children d) -> vbounded t c) -> defined t d = DOk (v, t') ->
  def_ranked t' /\ vbounded t' v.
Proof.
  intros Hr Hd H. unfold defined in H. injection H as <- <-. split; [now apply ranked_add_defined|].
  unfold vbounded. cbn. rewrite app_length. cbn. split; [reflexivity | lia].
Qed.

Definition ty_ranked (x : Ast.ty) : Prop :=
  forall cur t v t', def_ranked t -> scope_ok t cur -> resolve_ty cur t x = DOk (v, t') -> def_ranked t' /\ vbounded t' v.

Lemma tys_go_ranked ts : Forall ty_ranked ts ->
  forall cur t vs t', def_ranked t -> scope_ok t cur -> tys_go cur t ts = DOk (vs, t') ->
    def_ranked t' /\ forall v, In v vs -> vbounded t' v.
Proof.
  induction 1 as [|y r Hy _ IH]; intros cur t vs t' Hr Hs H.
  - cbn in H. injection H as <- <-. split; [exact Hr | intros v []].
  - cbn [tys_go] in H. dinv H as [[v t1] [E1 H]]. dinv H as [[vs' t2] [E2 H]]. injection H as <- <-.
    destruct (Hy _ _ _ _ Hr Hs E1) as [Hr1 Hv1].
    pose proof (frame_aext _ _ (resolve_ty_frame _ _ _ _ _ E1)) as X1.
    destruct (IH _ _ _ _ Hr1 (scope_ok_aext _ _ _ X1 Hs) E2) as [Hr2 Hv2]. split; [exact Hr2|].
    intros w [<-|Hin]; [|now apply Hv2].
    eapply vbounded_aext; [|exact Hv1]. apply frame_aext. eapply tys_go_frame; [|exact E2].
    clear. induction r; constructor; [apply resolve_ty_frame | assumption].
Qed.
Lemma oty_ranked o : optP ty_ranked o ->
  forall cur t ov t', def_ranked t -> scope_ok t cur -> oty_step cur t o = DOk (ov, t') ->
    def_ranked t' /\ forall v, In v (ov_list ov) -> vbounded t' v.
Proof.
  destruct o as [y|]; intros Hy cur t ov t' Hr Hs H; cbn [oty_step] in H.
  - dinv H as [[v t1] [E1 H]]. injection H as <- <-. destruct (Hy _ _ _ _ Hr Hs E1) as [Hr1 Hv1].
    split; [exact Hr1|]. intros w [<-|[]]. exact Hv1.
  - injection H as <- <-. split; [exact Hr | intros v []].
Qed.

Lemma resolve_ty_ranked : forall x, ty_ranked x.
Proof.
  apply ty_ind'; unfold ty_ranked.
  - intros p sp cur t v t' Hr Hs H. cbn in H. injection H as <- <-. split; [exact Hr | exact I].
  - intros ts sp Hts cur t v t' Hr Hs H. rewrite resolve_tuple_eq in H. dinv H as [[vs t1] [E1 H]].
    destruct (tys_go_ranked ts Hts _ _ _ _ Hr Hs E1) as [Hr1 Hv1]. apply (defined_ranked t1 (DTuple vs) v t' Hr1 Hv1 H).
  - intros y sp IH cur t v t' Hr Hs H. cbn [resolve_ty] in H. dinv H as [[v1 t1] [E1 H]].
    destruct (IH _ _ _ _ Hr Hs E1) as [Hr1 Hv1]. refine (defined_ranked t1 _ v t' Hr1 _ H).
    intros c [<-|[]]. exact Hv1.
  - intros y sp IH cur t v t' Hr Hs H. cbn [resolve_ty] in H. dinv H as [[v1 t1] [E1 H]].
    destruct (IH _ _ _ _ Hr Hs E1) as [Hr1 Hv1]. refine (defined_ranked t1 _ v t' Hr1 _ H).
    intros c [<-|[]]. exact Hv1.
  - intros o r sp Ho Hro cur t v t' Hr Hs H.
    change (resolve_ty cur t (Ast.TyResult o r sp))
      with (do (ov, t1) <- oty_step cur t o ;; do (ev, t2) <- oty_step cur t1 r ;; defined t2 (DResult ov ev)) in H.
    dinv H as [[ov t1] [E1 H]]. dinv H as [[ev t2] [E2 H]].
    destruct (oty_ranked o Ho _ _ _ _ Hr Hs E1) as [Hr1 Hv1].
    pose proof (frame_aext _ _ (oty_step_frame _ _ _ _ _ E1)) as X1.
    pose proof (frame_aext _ _ (oty_step_frame _ _ _ _ _ E2)) as X2.
    destruct (oty_ranked r Hro _ _ _ _ Hr1 (scope_ok_aext _ _ _ X1 Hs) E2) as [Hr2 Hv2].
    refine (defined_ranked t2 _ v t' Hr2 _ H). cbn [def_children]. intros c Hin. apply in_app_or in Hin as [Hin|Hin].
    + eapply vbounded_aext; [exact X2 | now apply Hv1].
    + now apply Hv2.
  - intros i sp cur t v t' Hr Hs H. cbn [resolve_ty] in H. dinv H as [it [E1 H]]. destruct it; try discriminate.
    injection H as <- <-. split; [exact Hr | exact I].
  - intros y sp _ cur t v t' Hr Hs H. discriminate H.
  - intros i cur t v t' Hr Hs H. cbn [resolve_ty] in H. dinv H as [it [E1 H]]. apply lookup_in_ok in E1.
    destruct it; try discriminate; injection H as <- <-; (split; [exact Hr|]); [exact I | eapply Hs; exact E1].
Qed.

Lemma params_go_ranked : forall ps cur t acc ps' t',
  def_ranked t -> scope_ok t cur -> params_go cur t acc ps = DOk (ps', t') -> def_ranked t'.
Proof.
  induction ps as [|p r IH]; intros cur t acc ps' t' Hr Hs H.
  - cbn in H. now injection H as <- <-.
  - cbn [params_go] in H. dinv H as [[v t1] [E1 H]]. destruct (has _ acc); [discriminate|].
    destruct (resolve_ty_ranked _ _ _ _ _ Hr Hs E1) as [Hr1 _].
    eapply IH; [exact Hr1 | | exact H]. eapply scope_ok_aext; [|exact Hs]. apply frame_aext. eapply resolve_ty_frame; exact E1.
Qed.

(** * Exactly [BorrowInResult] *)
Lemma borrow_rejected_ranked cur t e ps y k res v params t1 vr t2 :
  def_ranked t -> scope_ok t cur ->
  Renv t cur e -> den_ty e y = Some v -> has_borrow v = true -> (k = FMethod -> res <> None) ->
  params_go cur t (self_pre k res) ps = DOk (params, t1) -> resolve_ty cur t1 y = DOk (vr, t2) ->
  func_type cur t ps (Ast.RLScalar y) k res = DErr EBorrowInResult.
Proof.
  intros Hr Hs He Hv Hb Hk Hp Hy.
  destruct (borrow_rejected_exact _ _ _ _ _ _ _ _ _ _ _ _ He Hv Hb Hk Hp Hy) as [H|H]; [exact H|]. exfalso.
  pose proof (params_go_ranked _ _ _ _ _ _ Hr Hs Hp) as Hr1.
  destruct (params_go_frame _ _ _ _ _ _ Hp) as [[X1 _] _].
  destruct (resolve_ty_ranked _ _ _ _ _ Hr1 (scope_ok_aext _ _ _ X1 Hs) Hy) as [Hr2 Hv2].
  pose proof (cb_fuel_suffices _ _ Hr2 Hv2) as Hfuel.
  unfold func_type in H.
  assert (E0 : match k with
               | FMethod => match res with Some r => DOk [(self_name, VBorrow r)] | None => DPanic 1 end
               | _ => DOk []
               end = DOk (self_pre k res)).
  { destruct k; try reflexivity. destruct res; [reflexivity|]. exfalso. now apply Hk. }
  rewrite E0 in H. cbn [dbind] in H. rewrite Hp in H. cbn [dbind] in H. rewrite Hy in H. cbn [dbind] in H.
  destruct (cb_vt (cb_fuel t2) t2 vr) as [[|]|]; cbn [dbind] in H; try discriminate. now apply Hfuel.
Qed.

(** the empty collection is ranked and the empty scope is in range *)
Lemma ranked_empty : def_ranked empty_types.
Proof. intros i d H. destruct i; discriminate. Qed.
Lemma scope_ok_nil t : scope_ok t [].
Proof. intros n v H. discriminate. Qed.
