(** C06: alias nodes. In every reachable state an alias edge runs from a live node whose kind has
    instance exports to a live alias node of the same package, with an export index in range and the
    kind recorded in the alias node; and every alias node has such an edge. So [get_alias_source]
    answers for exactly the alias nodes. *)
From Coq Require Import List Arith Bool NArith Lia.
From WacV Require Import Graph GraphInv GraphPrims GraphSteps GraphRemove GraphUnreg GraphTheorems GraphLive GraphAcyclic GraphRank.
Import ListNotations.

Definition nrel3 (a b : node) : Prop := nitem b = nitem a /\ npkg b = npkg a /\ kclass (nk a) (nk b).

Lemma nrel3_refl a : nrel3 a a.
Proof. repeat split. apply kclass_refl. Qed.

Record AliasC (u : universe) (ns : list (option node)) (es : list edge) : Prop := {
  ao_edge : forall e i, In e es -> ek e = EAlias i ->
            exists sn ex nd nm, getn ns (esrc e) = Some sn /\ u_inst_exports u (nitem sn) = Some ex /\
              getn ns (etgt e) = Some nd /\ nk nd = NAlias /\ npkg sn = npkg nd /\
              nth_error ex i = Some (nm, nitem nd);
  ao_has : forall n nd, getn ns n = Some nd -> nk nd = NAlias ->
           exists e i, In e es /\ etgt e = n /\ ek e = EAlias i }.

Lemma kclass_alias k k' : kclass k k' -> (k = NAlias <-> k' = NAlias).
Proof. destruct k, k'; cbn; intros H; split; intros E; try discriminate; congruence. Qed.

(** the generic step: nothing is re-created, no alias node appears, alias edges are old, and an alias
    edge survives with its target *)
Lemma AliasC_step u ns ns' es es' :
  AliasC u ns es ->
  (forall m a b, getn ns m = Some a -> getn ns' m = Some b -> nrel3 a b) ->
  (forall m b, getn ns m = None -> getn ns' m = Some b -> nk b <> NAlias) ->
  (forall e i, In e es' -> ek e = EAlias i -> In e es) ->
  EdgeOK ns' es' ->
  (forall e i, In e es -> ek e = EAlias i -> liveb ns' (etgt e) = true -> In e es') ->
  AliasC u ns' es'.
Proof.
  intros [A B] H1 H2 H3 O H5. constructor.
  - intros e i He K. pose proof (H3 e i He K) as Hold. destruct (A e i Hold K) as (sn & ex & nd & nm & G1 & U & G2 & K2 & P & N).
    destruct (eo_live _ _ O e He) as [L1 L2]. apply liveb_true in L1 as [sn' L1], L2 as [nd' L2].
    destruct (H1 _ _ _ G1 L1) as (I1 & P1 & _). destruct (H1 _ _ _ G2 L2) as (I2 & P2 & C2).
    exists sn', ex, nd', nm. repeat split; auto; try congruence.
    now apply (kclass_alias _ _ C2).
  - intros n nd' G' K'. destruct (getn ns n) as [a|] eqn:G.
    + destruct (H1 _ _ _ G G') as (_ & _ & C). apply (kclass_alias _ _ C) in K'.
      destruct (B n a G K') as (e & i & He & T & K). exists e, i. repeat split; auto.
      apply (H5 e i He K). rewrite T. apply liveb_true. eauto.
    + exfalso. eapply H2; eauto.
Qed.

(** * what one operation does to the nodes and the alias edges *)
Definition Delta (s s' : gstate) : Prop :=
  (forall m a b, get_node s m = Some a -> get_node s' m = Some b -> nrel3 a b) /\
  (forall m b, get_node s m = None -> get_node s' m = Some b -> nk b <> NAlias) /\
  (forall e i, ek e = EAlias i -> (In e (edges s') <-> In e (edges s))).

Lemma Delta_eq s s' : nodes s' = nodes s -> edges s' = edges s -> Delta s s'.
Proof.
  intros Hn He. split; [|split].
  - intros m a b G1 G2. unfold get_node in *. rewrite Hn in G2. rewrite G1 in G2. injection G2 as <-. apply nrel3_refl.
  - intros m b G1 G2. unfold get_node in *. rewrite Hn in G2. congruence.
  - intros e i _. now rewrite He.
Qed.

Lemma Delta_refl s : Delta s s.
Proof. now apply Delta_eq. Qed.

Lemma Delta_set_node s s' n nd nd' :
  get_node s n = Some nd -> nrel3 nd nd' -> nodes s' = set_nth (nodes s) n (Some nd') ->
  (forall e i, ek e = EAlias i -> (In e (edges s') <-> In e (edges s))) -> Delta s s'.
Proof.
  intros G R Hn He. rewrite get_node_getn in G. split; [|split; auto].
  - intros m a b G1 G2. rewrite get_node_getn in *. rewrite Hn in G2. erewrite getn_set_live in G2 by eauto.
    destruct (Nat.eqb_spec m n) as [->|_]; [congruence|]. rewrite G1 in G2. injection G2 as <-. apply nrel3_refl.
  - intros m b G1 G2. rewrite get_node_getn in *. rewrite Hn in G2. erewrite getn_set_live in G2 by eauto.
    destruct (Nat.eqb_spec m n) as [->|_]; congruence.
Qed.

Lemma Delta_add_node u s nd s1 idx s' :
  InvC u s -> add_node s nd = (s1, idx) -> nk nd <> NAlias -> nodes s' = nodes s1 ->
  (forall e i, ek e = EAlias i -> (In e (edges s') <-> In e (edges s))) -> Delta s s'.
Proof.
  intros HI A K Hn He. apply add_node_spec in A as ([Fd Fu] & _); [|apply HI]. split; [|split; auto].
  - intros m a b G1 G2. rewrite get_node_getn in *. rewrite Hn, Fu in G2.
    destruct (Nat.eqb_spec m idx) as [->|_]; [congruence|]. rewrite G1 in G2. injection G2 as <-. apply nrel3_refl.
  - intros m b G1 G2. rewrite get_node_getn in *. rewrite Hn, Fu in G2.
    destruct (Nat.eqb_spec m idx) as [->|_]; congruence.
Qed.

Lemma remove_first_other f es e : f e = false -> (In e (remove_first f es) <-> In e es).
Proof.
  intros H. induction es as [|x es IH]; cbn; [tauto|]. destruct (f x) eqn:E.
  - split; auto. intros [->|Hi]; [congruence|auto].
  - cbn. tauto.
Qed.

Lemma register_delta u s p : Delta s (fst (register u s p)).
Proof.
  unfold register. destruct (find_pkg_slot s p); [apply Delta_refl|].
  destruct (free_pkgs s); [apply Delta_eq; reflexivity|].
  destruct (nth_error (pkgs s) n); [apply Delta_eq; reflexivity|apply Delta_refl].
Qed.

Lemma import_delta u s nm k : InvC u s -> Delta s (fst (import_ u s nm k)).
Proof.
  intros HI. unfold import_. destruct (nth_error (u_lkinds u) k); [|apply Delta_refl].
  destruct (alist_get N.eqb (imports s) nm); [apply Delta_refl|]. destruct (negb _); [apply Delta_refl|].
  destruct (add_node s _) as [s1 idx] eqn:A. pose proof (add_node_same s (mk_node (NImport nm) k0 None)) as [X Y].
  rewrite A in X. cbn [fst] in *. eapply Delta_add_node; eauto; cbn; [discriminate|].
  intros e i _. now rewrite X.
Qed.

Lemma instantiate_delta u s id : InvC u s -> Delta s (fst (instantiate u s id)).
Proof.
  intros HI. unfold instantiate. destruct (pkg_desc u s id) as [pd|]; [|apply Delta_refl].
  destruct (add_node s _) as [s1 idx] eqn:A. pose proof (add_node_same s (mk_node (NInst []) (pd_inst pd) (Some id))) as [X Y].
  rewrite A in X. cbn [fst] in *. eapply Delta_add_node; eauto; cbn; [discriminate|].
  intros e i _. now rewrite X.
Qed.

Lemma set_name_delta s n nm : Delta s (fst (set_name s n nm)).
Proof.
  unfold set_name, update_node. destruct (get_node s n) as [nd|] eqn:G; [|apply Delta_refl]. cbn [fst].
  eapply Delta_set_node; eauto; [|reflexivity|reflexivity]. repeat split. apply kclass_refl.
Qed.

Lemma export_delta u s n e : Delta s (fst (export_ u s n e)).
Proof.
  unfold export_, update_node. destruct (alist_get N.eqb (exports s) e); [apply Delta_refl|].
  destruct (negb _); [apply Delta_refl|]. destruct (get_node s n) as [nd|] eqn:G; [|apply Delta_refl]. cbn [fst].
  eapply Delta_set_node; eauto; [|reflexivity|reflexivity]. repeat split. apply kclass_refl.
Qed.

Lemma unexport_delta s n : Delta s (fst (unexport s n)).
Proof.
  unfold unexport. destruct (get_node s n) as [nd|] eqn:G; [|apply Delta_refl].
  destruct (nk nd) eqn:K; [apply Delta_refl| | |];
    (match goal with |- context [match ?x with inl _ => _ | inr _ => _ end] => destruct x end;
     [|apply Delta_refl]; cbn [fst]; eapply Delta_set_node; eauto; [|reflexivity|reflexivity];
     repeat split; cbn; rewrite K; apply kclass_refl).
Qed.

Lemma set_arg_delta u s inst a arg : Delta s (fst (set_arg u s inst a arg)).
Proof.
  unfold set_arg. destruct (get_node s inst) as [nd|] eqn:G; [|apply Delta_refl].
  destruct (nk nd) eqn:K; try apply Delta_refl. destruct (inst_imports u s nd); [|apply Delta_refl].
  destruct (get_full l a 0) as [[index expected]|]; [|apply Delta_refl].
  destruct (scan_incoming _ index arg); try apply Delta_refl.
  destruct (get_node s arg) as [an|]; [|apply Delta_refl]. destruct (negb _); [apply Delta_refl|].
  destruct (add_satisfied _ inst index) as [[s2|]|] eqn:AS; try apply Delta_refl. cbn [fst].
  unfold add_satisfied in AS. change (get_node (add_edge s _) inst) with (get_node s inst) in AS.
  rewrite G, K in AS. destruct (existsb _ sat); [discriminate|]. injection AS as <-.
  eapply Delta_set_node; eauto; [|reflexivity|].
  - repeat split. cbn. now rewrite K.
  - intros e i Ke. cbn. split; [intros [<-|H]; [discriminate|auto]|auto].
Qed.

Lemma unset_arg_delta u s inst a arg : Delta s (fst (unset_arg u s inst a arg)).
Proof.
  unfold unset_arg. destruct (get_node s inst) as [nd|] eqn:G; [|apply Delta_refl].
  destruct (nk nd) eqn:K; try apply Delta_refl. destruct (inst_imports u s nd); [|apply Delta_refl].
  destruct (get_full l a 0) as [[index expected]|]; [|apply Delta_refl].
  destruct (scan_connecting _ index); try apply Delta_refl.
  destruct (remove_satisfied s inst index) as [s1|] eqn:RS; [|apply Delta_refl].
  apply remove_satisfied_inv in RS as [x [st [G' [K' ->]]]]. cbn [fst]. rewrite G in G'. injection G' as <-.
  eapply Delta_set_node; eauto; [|reflexivity|].
  - repeat split. cbn. now rewrite K'.
  - intros e i Ke. cbn. apply remove_first_other. rewrite Ke. apply andb_false_r.
Qed.

Lemma define_type_delta u s nm t : InvC u s -> Delta s (fst (define_type u s nm t)).
Proof.
  intros HI. unfold define_type. destruct (nth_error (u_tys u) t) as [td|]; [|apply Delta_refl].
  destruct (existsb (fun p => fst p =? t) (defined s)); [apply Delta_refl|]. destruct (td_res td); [apply Delta_refl|].
  destruct (existsb (fun p => N.eqb (fst p) nm) (exports s)); [apply Delta_refl|].
  destruct (negb (u_import_name_ok u nm)); [apply Delta_refl|].
  destruct (add_node s _) as [s1 idx] eqn:A. cbn [fst].
  match type of A with add_node s ?nd = _ => pose proof (add_node_same s nd) as [X _] end. rewrite A in X. cbn [fst] in X.
  set (Q := fun s' : gstate => nodes s' = nodes s1 /\ forall e i, ek e = EAlias i -> (In e (edges s') <-> In e (edges s1))).
  assert (Qadd : forall s' a b, Q s' -> Q (add_edge s' {| esrc := a; etgt := b; ek := EDep |})).
  { intros s' a b [Q1 Q2]. split; [exact Q1|]. intros e i Ke. cbn. rewrite <- (Q2 e i Ke).
    split; [intros [<-|H]; [discriminate|auto]|auto]. }
  assert (Q1 : Q s1) by (split; [reflexivity|tauto]).
  match goal with |- Delta s (with_maps ?s3 _ _ _) => assert (Q3 : Q s3) end.
  { apply fold_left_ind.
    - intros a0 [ot on] _ Qa. cbn [fst snd]. destruct (nth_error (u_tys u) ot); auto.
      apply fold_left_ind; auto. intros b d _ Qb. destruct ((d =? t) && _); auto.
    - apply fold_left_ind; auto. intros a0 d _ Qa. destruct (d =? t); auto.
      destruct (alist_get Nat.eqb (defined a0) d); auto. destruct (has_dep_edge a0 n idx); auto. }
  destruct Q3 as [Q3n Q3e]. eapply Delta_add_node; eauto; cbn; [discriminate|].
  intros e i Ke. rewrite (Q3e e i Ke). now rewrite X.
Qed.

(** * per-operation preservation *)
Definition AliasS (u : universe) (s : gstate) : Prop := AliasC u (nodes s) (edges s).

Lemma AliasS_delta u s s' : AliasS u s -> Delta s s' -> InvC u s' -> AliasS u s'.
Proof.
  intros A (D1 & D2 & D3) HI. eapply AliasC_step; eauto; [|apply HI|].
  - intros e i He K. now apply (D3 e i K).
  - intros e i He K _. now apply (D3 e i K).
Qed.

Lemma get_full_nth {B} (l : list (name * B)) k : forall i j v,
  get_full l k i = Some (j, v) -> i <= j /\ nth_error l (j - i) = Some (k, v).
Proof.
  induction l as [|[k' v'] l IH]; intros i j v; cbn; [discriminate|].
  destruct (N.eqb_spec k' k) as [->|Hne].
  - intros [= <- <-]. rewrite Nat.sub_diag. auto.
  - intros H. apply IH in H as [L H]. split; [lia|]. replace (j - i) with (S (j - S i)) by lia. exact H.
Qed.

Lemma alias_aliasS u s n e : InvC u s -> AliasS u s -> AliasS u (fst (alias u s n e)).
Proof.
  intros HI HA. unfold alias. destruct (get_node s n) as [nd|] eqn:G; auto.
  destruct (u_inst_exports u (nitem nd)) as [ex|] eqn:U; auto.
  destruct (get_full ex e 0) as [[index kind]|] eqn:Gf; auto. destruct (find _ (outgoing s n)); auto.
  destruct (add_node s _) as [s1 idx] eqn:A. cbn [fst]. pose proof HI as [F E X I D P].
  apply add_node_spec in A as ([Fd Fu] & _ & E1 & _); [|exact F].
  rewrite get_node_getn in G. assert (Hn : n <> idx) by (intros ->; congruence).
  apply get_full_nth in Gf as [_ Gf]. rewrite Nat.sub_0_r in Gf.
  destruct HA as [A1 A2]. unfold AliasS. cbn [add_edge nodes edges]. rewrite E1. constructor.
  - intros x i [<-|Hx] K; cbn [esrc etgt ek] in *.
    + injection K as <-. exists nd, ex, (mk_node NAlias kind (npkg nd)), e. rewrite !Fu, Nat.eqb_refl.
      apply Nat.eqb_neq in Hn. rewrite Hn. repeat split; auto.
    + destruct (A1 x i Hx K) as (sn & ex' & nd' & nm & G1 & U' & G2 & K2 & P' & N).
      exists sn, ex', nd', nm. rewrite !Fu.
      destruct (Nat.eqb_spec (esrc x) idx) as [Eq|_]; [congruence|].
      destruct (Nat.eqb_spec (etgt x) idx) as [Eq|_]; [congruence|]. repeat split; auto.
  - intros m b Gm K. rewrite Fu in Gm. destruct (Nat.eqb_spec m idx) as [->|_].
    + eexists _, index. split; [left; reflexivity|]. cbn. auto.
    + destruct (A2 m b Gm K) as (x & i & Hx & T & Kx). exists x, i. repeat split; auto. now right.
Qed.

(** removals *)
Lemma remove_satisfied_all_nitem l : forall s s',
  remove_satisfied_all s l = inl s' ->
  forall m, orel (fun a b => nitem b = nitem a) (getn (nodes s) m) (getn (nodes s') m).
Proof.
  induction l as [|[t i] r IH]; intros s s' H m; cbn in H.
  - injection H as <-. destruct (getn (nodes s) m); cbn; auto.
  - destruct (remove_satisfied s t i) as [s1|] eqn:R; [|discriminate].
    apply remove_satisfied_inv in R as [nd [sat [G [K ->]]]]. rewrite get_node_getn in G.
    specialize (IH _ _ H m). cbn in IH. erewrite getn_set_live in IH by eauto.
    destruct (Nat.eqb_spec m t) as [Eq|_]; [|exact IH]. subst m. rewrite G. exact IH.
Qed.

Lemma remove_one_delta s n s' :
  remove_one s n = inl s' ->
  edges s' = filter (fun e => negb (esrc e =? n) && negb (etgt e =? n)) (edges s) /\
  get_node s' n = None /\
  forall m, m <> n -> orel nrel3 (get_node s m) (get_node s' m).
Proof.
  unfold remove_one. destruct (remove_satisfied_all s _) as [s1|] eqn:R; [|discriminate].
  pose proof (remove_satisfied_all_nitem _ _ _ R) as Hi.
  apply remove_satisfied_all_spec in R as (Hc & _ & _ & R2 & _).
  destruct (get_node s1 n) as [nd|]; [|discriminate].
  assert (Hm : forall m, m <> n -> orel nrel3 (getn (nodes s) m) (getn (set_nth (nodes s1) n None) m)).
  { intros m Hne. rewrite getn_set_none. apply Nat.eqb_neq in Hne. rewrite Hne. specialize (Hc m). specialize (Hi m).
    destruct (getn (nodes s) m) as [n0|], (getn (nodes s1) m) as [n1|]; cbn in *; auto.
    destruct Hc as (C1 & _ & C3). repeat split; auto.
    destruct (nk n0); rewrite C3; cbn; auto. }
  repeat break_goal_match; intros [= <-]; cbn [with_maps drop_node edges]; rewrite R2;
    (split; [reflexivity|split; [|exact Hm]]); rewrite get_node_getn; cbn [with_maps drop_node nodes];
    rewrite getn_set_none; now rewrite Nat.eqb_refl.
Qed.

Lemma remove_one_aliasS u s n nd0 s' :
  InvC u s -> AliasS u s -> get_node s n = Some nd0 ->
  (forall e, In e (edges s) -> dep_edge e -> esrc e <> n) ->
  remove_one s n = inl s' -> AliasS u s'.
Proof.
  intros HI HA G Hno R. destruct (remove_one_live u s n nd0 HI G) as [s'' [R' (I' & _)]].
  rewrite R in R'. injection R' as <-. destruct (remove_one_delta s n s' R) as (De & Dn & Dm).
  eapply AliasC_step; eauto; [| | |apply I'|].
  - intros m a b G1 G2. destruct (Nat.eq_dec m n) as [->|Hne].
    + rewrite get_node_getn in Dn. congruence.
    + specialize (Dm m Hne). rewrite !get_node_getn, G1, G2 in Dm. exact Dm.
  - intros m b G1 G2. destruct (Nat.eq_dec m n) as [->|Hne].
    + rewrite get_node_getn in *. congruence.
    + specialize (Dm m Hne). rewrite !get_node_getn, G1, G2 in Dm. destruct Dm.
  - intros e i He _. rewrite De in He. apply filter_In in He. tauto.
  - intros e i He K L. rewrite De. apply filter_In. split; auto.
    assert (S1 : esrc e <> n) by (apply Hno; auto; intros j; congruence).
    assert (S2 : etgt e <> n).
    { intros Eq. rewrite Eq in L. apply liveb_true in L as [x L]. rewrite get_node_getn in Dn. congruence. }
    apply Nat.eqb_neq in S1, S2. now rewrite S1, S2.
Qed.

Lemma dependants_In s n e :
  In e (edges s) -> esrc e = n -> dep_edge e -> In (etgt e) (dependants s n).
Proof.
  intros He Es De. unfold dependants, outgoing. apply in_flat_map. exists e. split.
  - apply filter_In. split; auto. now apply Nat.eqb_eq.
  - destruct (ek e) as [j|j|] eqn:K; cbn; auto. exfalso. now apply (De j).
Qed.

(** [remove_node_rec]: the invariant, and that the node is gone afterwards *)
Lemma remove_node_rec_aliasS u fuel : forall s n s',
  InvC u s -> AliasS u s -> remove_node_rec fuel s n = inl s' -> AliasS u s'.
Proof.
  induction fuel as [|f IH]; intros s n s' HI HA; [discriminate|]. rewrite remove_node_rec_S.
  assert (G : forall l s0 s1, InvC u s0 -> AliasS u s0 -> go_list (remove_node_rec f) s0 l = inl s1 ->
              InvC u s1 /\ AliasS u s1 /\ (forall m, live s1 m = true -> live s0 m = true) /\
              (forall e, In e (edges s1) -> In e (edges s0)) /\ (forall m, In m l -> live s1 m = false)).
  { induction l as [|m r IHl]; intros s0 s1 H0 A0; cbn.
    - intros [= <-]. split; [exact H0|split; [exact A0|split; [auto|split; [auto|intros m []]]]].
    - destruct (live s0 m) eqn:Lm.
      + destruct (remove_node_rec f s0 m) as [s2|] eqn:R; [|discriminate]. intros Go.
        pose proof (remove_node_rec_ok u f s0 m H0) as Ok. rewrite R in Ok. destruct Ok as (I2 & Dm & Lv & Ed).
        destruct (IHl s2 s1 I2 (IH _ _ _ H0 A0 R) Go) as (J1 & J2 & J3 & J4 & J5).
        split; [exact J1|split; [exact J2|split; [auto|split; [auto|]]]].
        intros x [Eq|Hx]; [subst x|auto]. destruct (live s1 m) eqn:Lx; auto. apply J3 in Lx. congruence.
      + intros Go. destruct (IHl s0 s1 H0 A0 Go) as (J1 & J2 & J3 & J4 & J5).
        split; [exact J1|split; [exact J2|split; [auto|split; [auto|]]]].
        intros x [Eq|Hx]; [subst x|auto]. destruct (live s1 m) eqn:Lx; auto. apply J3 in Lx. congruence. }
  destruct (go_list _ s (dependants s n)) as [s1|] eqn:Go; [|discriminate].
  destruct (G _ _ _ HI HA Go) as (J1 & J2 & J3 & J4 & J5). intros R.
  destruct (get_node s1 n) as [nd|] eqn:Gn.
  - eapply remove_one_aliasS; eauto. intros e He De Es.
    assert (Hd : live s1 (etgt e) = false) by (apply J5; apply dependants_In; auto).
    destruct (eo_live _ _ (ic_edge _ _ J1) e He) as [_ L]. rewrite <- live_liveb in L. congruence.
  - rewrite (remove_one_dead u s1 n J1 Gn) in R. discriminate.
Qed.

Lemma remove_node_aliasS u s n : InvC u s -> AliasS u s -> AliasS u (fst (remove_node s n)).
Proof.
  intros HI HA. unfold remove_node. destruct (remove_node_rec _ s n) as [s'|] eqn:R; cbn [fst]; auto.
  eapply remove_node_rec_aliasS; eauto.
Qed.

(** unregister *)
Lemma unregister_delta s id s' :
  unregister s id = (s', OUnit) ->
  (forall e, In e (edges s') <-> In e (edges s) /\ node_pkg_is s id (esrc e) = false /\ node_pkg_is s id (etgt e) = false) /\
  (forall m, node_pkg_is s id m = true -> get_node s' m = None) /\
  (forall m, node_pkg_is s id m = false -> orel nrel3 (get_node s m) (get_node s' m)).
Proof.
  unfold unregister. destruct (nth_error (pkgs s) (fst id)) as [sl|]; [|discriminate].
  destruct (negb (ps_gen sl =? snd id)); [discriminate|]. destruct (negb _); [discriminate|].
  destruct (remove_satisfied_all _ _) as [s2|] eqn:R; [|discriminate].
  destruct (ps_pkg sl); [|discriminate]. intros [= <-].
  pose proof (remove_satisfied_all_nitem _ _ _ R) as Hi.
  apply remove_satisfied_all_spec in R as (Hc & _ & _ & R2 & _). cbn [with_maps nodes edges] in *.
  set (victims := nodes_where s2 (fun nd => pkg_eqb (npkg nd) (Some id))).
  assert (Hd_eq : forall m, mem victims m = node_pkg_is s id m).
  { intros m. apply eq_true_iff_eq. rewrite mem_In. unfold victims. rewrite nodes_where_In.
    unfold node_pkg_is. rewrite get_node_getn. specialize (Hc m).
    destruct (getn (nodes s) m) as [a|], (getn (nodes s2) m) as [b|]; cbn in Hc; try contradiction.
    - destruct Hc as (C1 & _). rewrite <- C1. split; [intros [x [[= <-] H]]; auto|eauto].
    - split; [intros [x [H _]]; discriminate|discriminate]. }
  split; [|split].
  - intros e. cbn [with_pkgs edges]. rewrite drop_all_edges, R2, filter_In, andb_true_iff, !negb_true_iff, !Hd_eq. tauto.
  - intros m Hm. rewrite get_node_getn. cbn [with_pkgs nodes]. rewrite drop_all_nodes, Hd_eq, Hm. reflexivity.
  - intros m Hm. rewrite !get_node_getn. cbn [with_pkgs nodes]. rewrite drop_all_nodes, Hd_eq, Hm.
    specialize (Hc m). specialize (Hi m).
    destruct (getn (nodes s) m) as [n0|], (getn (nodes s2) m) as [n1|]; cbn in *; auto.
    destruct Hc as (C1 & _ & C3). repeat split; auto. destruct (nk n0); rewrite C3; cbn; auto.
Qed.

Lemma unregister_aliasS u s id : InvC u s -> AliasS u s -> AliasS u (fst (unregister s id)).
Proof.
  intros HI HA. destruct (unregister s id) as [s' o] eqn:R. cbn [fst].
  assert (Hs : o <> OUnit -> s' = s).
  { revert R. unfold unregister. destruct (nth_error (pkgs s) (fst id)) as [sl|]; [|now intros [= <- <-]].
    destruct (negb (ps_gen sl =? snd id)); [now intros [= <- <-]|]. destruct (negb _); [now intros [= <- <-]|].
    destruct (remove_satisfied_all _ _); [|now intros [= <- <-]]. destruct (ps_pkg sl); [|now intros [= <- <-]].
    intros [= <- <-] H. now contradiction H. }
  destruct o; try (rewrite Hs by discriminate; exact HA).
  pose proof (unregister_inv u s id HI) as I'. rewrite R in I'. cbn [fst] in I'.
  destruct (unregister_delta s id s' R) as (De & Dd & Dk).
  eapply AliasC_step; eauto; [| | |apply I'|].
  - intros m a b G1 G2. destruct (node_pkg_is s id m) eqn:Np.
    + apply Dd in Np. rewrite get_node_getn in Np. congruence.
    + specialize (Dk m Np). rewrite !get_node_getn, G1, G2 in Dk. exact Dk.
  - intros m b G1 G2. destruct (node_pkg_is s id m) eqn:Np.
    + apply Dd in Np. rewrite get_node_getn in Np. congruence.
    + specialize (Dk m Np). rewrite !get_node_getn, G1, G2 in Dk. destruct Dk.
  - intros e i He _. now apply De in He.
  - intros e i He K L. apply De. split; auto.
    destruct (ao_edge _ _ _ HA e i He K) as (sn & ex & nd & nm & G1 & _ & G2 & _ & P & _).
    assert (T : node_pkg_is s id (etgt e) = false).
    { destruct (node_pkg_is s id (etgt e)) eqn:Np; auto. apply Dd in Np. apply liveb_true in L as [x L].
      rewrite get_node_getn in Np. congruence. }
    split; auto. unfold node_pkg_is in *. rewrite get_node_getn in *. rewrite G1. rewrite G2 in T. now rewrite P.
Qed.

(** * all operations, all histories *)
Lemma step_aliasS u s o : InvC u s -> AliasS u s -> AliasS u (fst (step u s o)).
Proof.
  intros HI HA. pose proof (step_invC u s o HI) as I'. destruct o; cbn [step] in *.
  - eapply AliasS_delta; eauto using register_delta.
  - now apply unregister_aliasS.
  - eapply AliasS_delta; eauto using define_type_delta.
  - eapply AliasS_delta; eauto using import_delta.
  - eapply AliasS_delta; eauto using instantiate_delta.
  - now apply alias_aliasS.
  - eapply AliasS_delta; eauto using set_arg_delta.
  - eapply AliasS_delta; eauto using unset_arg_delta.
  - eapply AliasS_delta; eauto using export_delta.
  - eapply AliasS_delta; eauto using unexport_delta.
  - eapply AliasS_delta; eauto using set_name_delta.
  - now apply remove_node_aliasS.
Qed.

Lemma reach_aliasS u ops : InvC u (run u ops) /\ AliasS u (run u ops).
Proof.
  unfold run.
  assert (H0 : InvC u empty_graph /\ AliasS u empty_graph).
  { split; [apply Inv_iff, inv_empty|]. constructor; cbn.
    - intros ? ? [].
    - intros n nd H. rewrite getn_nil in H. discriminate. }
  revert H0. generalize empty_graph. induction ops as [|o ops IH]; intros s [H1 H2]; cbn; auto.
  apply IH. split; [now apply step_invC|now apply step_aliasS].
Qed.

(** the statement over the state, as quoted by [props/C06.v] *)
Definition AliasInv (u : universe) (s : gstate) : Prop :=
  (forall e i, In e (edges s) -> ek e = EAlias i ->
     exists sn ex nd nm, get_node s (esrc e) = Some sn /\ u_inst_exports u (nitem sn) = Some ex /\
       get_node s (etgt e) = Some nd /\ nk nd = NAlias /\ npkg sn = npkg nd /\
       nth_error ex i = Some (nm, nitem nd)) /\
  (forall n nd, get_node s n = Some nd -> nk nd = NAlias ->
     exists e i, In e (edges s) /\ etgt e = n /\ ek e = EAlias i).

Lemma AliasInv_iff u s : AliasInv u s <-> AliasS u s.
Proof. split; [intros [A B]; constructor; auto|intros [A B]; split; auto]. Qed.

Lemma step_alias_inv u s o : Inv u s -> AliasInv u s -> AliasInv u (fst (step u s o)).
Proof. rewrite Inv_iff, !AliasInv_iff. apply step_aliasS. Qed.

Lemma reach_alias_inv u ops : AliasInv u (run u ops).
Proof. apply AliasInv_iff. apply reach_aliasS. Qed.

(** the alias-source query answers for exactly the alias nodes, with a live source *)
Lemma alias_source_reflects u s n :
  Inv u s -> AliasInv u s ->
  match get_node s n with
  | Some nd =>
      match nk nd with
      | NAlias => exists src i nm, get_alias_source u s n = Some (src, nm) /\ live s src = true /\
                                   In {| esrc := src; etgt := n; ek := EAlias i |} (edges s)
      | _ => get_alias_source u s n = None
      end
  | None => get_alias_source u s n = None
  end.
Proof.
  intros HI [A B].
  assert (Hnone : (forall nd, get_node s n = Some nd -> nk nd <> NAlias) -> get_alias_source u s n = None).
  { intros Hn. unfold get_alias_source. destruct (find _ (incoming s n)) as [e|] eqn:Fd; auto.
    apply find_some in Fd as [He K]. unfold incoming in He. apply filter_In in He as [He T]. apply Nat.eqb_eq in T.
    destruct (ek e) as [i|i|] eqn:Ke; try discriminate.
    destruct (A e i He Ke) as (sn & ex & nd & nm & _ & _ & G2 & K2 & _). rewrite T in G2. now apply Hn in G2. }
  destruct (get_node s n) as [nd|] eqn:G; [|apply Hnone; discriminate].
  destruct (nk nd) eqn:K; try (apply Hnone; intros x [= <-]; congruence).
  destruct (B n nd G K) as (e0 & i0 & He0 & T0 & K0).
  unfold get_alias_source. destruct (find _ (incoming s n)) as [e|] eqn:Fd.
  - apply find_some in Fd as [He Ke]. unfold incoming in He. apply filter_In in He as [He T]. apply Nat.eqb_eq in T.
    destruct (ek e) as [i|i|] eqn:Ki; try discriminate.
    destruct (A e i He Ki) as (sn & ex & nd' & nm & G1 & U & G2 & K2 & P & N).
    rewrite G1, U, N. exists (esrc e), i, nm. repeat split.
    + unfold live. now rewrite G1.
    + destruct e as [a b c]. cbn in *. subst. exact He.
  - exfalso. assert (Hin : In e0 (incoming s n)).
    { unfold incoming. apply filter_In. split; auto. now apply Nat.eqb_eq. }
    pose proof (find_none _ _ Fd e0 Hin) as Xf. cbn in Xf. rewrite K0 in Xf. discriminate.
Qed.

(** * two more queries *)
Lemma node_ids_live s n : In n (node_ids s) <-> live s n = true.
Proof.
  unfold node_ids. rewrite nodes_where_In, live_liveb, liveb_true. split; [intros [nd [H _]]; eauto|intros [nd H]; eauto].
Qed.

(** the satisfied set is the set of indexes carried by the incoming argument edges, one edge each *)
Lemma sat_iff_edge u s n nd sat :
  Inv u s -> get_node s n = Some nd -> nk nd = NInst sat ->
  forall i, In i sat <-> exists e, In e (edges s) /\ etgt e = n /\ ek e = EArg i.
Proof.
  intros H G K i. destruct (inv_sat_exact _ _ H n nd sat G K) as [_ Cn]. specialize (Cn i).
  change (count_arg s n i) with (count_arg_l (edges s) n i) in Cn. split.
  - intros Hi. apply existsb_eqb_In in Hi. rewrite Hi in Cn. unfold count_arg_l in Cn.
    destruct (filter (is_arg n i) (edges s)) as [|e r] eqn:F; [discriminate|].
    assert (He : In e (filter (is_arg n i) (edges s))) by (rewrite F; now left).
    apply filter_In in He as [He Ha]. apply is_arg_true in Ha as [T Ke]. eauto.
  - intros [e [He [T Ke]]]. apply existsb_eqb_In. destruct (existsb _ sat); auto.
    assert (1 <= count_arg_l (edges s) n i) by (eapply filter_length_pos; eauto; apply is_arg_true; auto). lia.
Qed.
