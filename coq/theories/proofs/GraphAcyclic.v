(** C06: [remove_node] on a live node does not panic when the alias/dependency edges are acyclic:
    the fuel [S (length (nodes s))] suffices (the chain of nested calls visits distinct live slots) and
    the node is still there after its dependants were removed (they are strictly above it). *)
From Coq Require Import List Arith Bool NArith Lia.
From WacV Require Import Graph GraphInv GraphPrims GraphSteps GraphRemove GraphUnreg GraphTheorems GraphLive.
Import ListNotations.

Definition dep_edge (e : edge) : Prop := forall i, ek e <> EArg i.
Definition Ranked (rk : nat -> nat) (s : gstate) : Prop :=
  forall e, In e (edges s) -> dep_edge e -> rk (esrc e) < rk (etgt e).
Definition Acyclic (s : gstate) : Prop := exists rk, Ranked rk s.

Ltac break_goal_match :=
  match goal with
  | |- (match ?x with _ => _ end) = _ -> _ => destruct x eqn:?; try discriminate
  end.

(** what [remove_one] and [remove_node_rec] leave alone, without any hypothesis *)
Lemma remove_one_shrinks s n s' :
  remove_one s n = inl s' ->
  length (nodes s') = length (nodes s) /\ incl (defined s') (defined s) /\ incl (edges s') (edges s).
Proof.
  unfold remove_one. destruct (remove_satisfied_all s _) as [s1|] eqn:R; [|discriminate].
  apply remove_satisfied_all_spec in R as (_ & L & _ & R2 & _ & _ & R5 & _).
  destruct (get_node s1 n) as [nd|]; [|discriminate].
  repeat break_goal_match; intros [= <-]; cbn; rewrite length_set_nth, R2, R5;
    (split; [exact L|split; [|intros e He; apply filter_In in He; tauto]]);
    try apply incl_refl; intros x Hx; apply filter_In in Hx; tauto.
Qed.

Lemma remove_node_rec_shrinks fuel : forall s n s',
  remove_node_rec fuel s n = inl s' ->
  length (nodes s') = length (nodes s) /\ incl (defined s') (defined s) /\ incl (edges s') (edges s).
Proof.
  induction fuel as [|f IH]; intros s n s'; [discriminate|]. rewrite remove_node_rec_S.
  assert (G : forall l s0 s1, go_list (remove_node_rec f) s0 l = inl s1 ->
              length (nodes s1) = length (nodes s0) /\ incl (defined s1) (defined s0) /\ incl (edges s1) (edges s0)).
  { induction l as [|m r IHl]; intros s0 s1; cbn.
    - intros [= <-]. auto using incl_refl.
    - destruct (live s0 m); [|apply IHl]. destruct (remove_node_rec f s0 m) as [s2|] eqn:R; [|discriminate].
      intros H. apply IH in R as (A1 & A2 & A3). apply IHl in H as (B1 & B2 & B3).
      split; [congruence|split; eapply incl_tran; eauto]. }
  destruct (go_list _ s (dependants s n)) as [s1|] eqn:Go; [|discriminate].
  intros H. apply G in Go as (A1 & A2 & A3). apply remove_one_shrinks in H as (B1 & B2 & B3).
  split; [congruence|split; eapply incl_tran; eauto].
Qed.

Lemma dependants_edge s n m :
  In m (dependants s n) -> exists e, In e (edges s) /\ esrc e = n /\ etgt e = m /\ dep_edge e.
Proof.
  unfold dependants, outgoing. rewrite in_flat_map. intros [e [He H]]. apply filter_In in He as [He Hs].
  apply Nat.eqb_eq in Hs. exists e. destruct (ek e) as [j|j|] eqn:K; cbn in H; try destruct H as [<-|[]]; try contradiction;
    repeat split; auto; intros i; congruence.
Qed.

Lemma live_lt s n : live s n = true -> n < length (nodes s).
Proof. intros H. apply live_get in H as [nd H]. eapply getn_lt. exact H. Qed.

Lemma stack_bound (stack : list nat) len : NoDup stack -> (forall x, In x stack -> x < len) -> length stack <= len.
Proof.
  intros ND H. rewrite <- (seq_length len 0). apply NoDup_incl_length; auto.
  intros x Hx. apply in_seq. specialize (H x Hx). lia.
Qed.

Lemma remove_node_rec_total u rk fuel : forall s n stack,
  InvC u s -> Ranked rk s -> live s n = true -> In n stack -> NoDup stack ->
  (forall x, In x stack -> x < length (nodes s) /\ rk x <= rk n) ->
  length (nodes s) < fuel + length stack ->
  exists s', remove_node_rec fuel s n = inl s' /\
             (forall m, rk m <= rk n -> m <> n -> live s' m = live s m).
Proof.
  induction fuel as [|f IH]; intros s n stack HI HR Ln Hin ND Hst Hf.
  { exfalso. assert (length stack <= length (nodes s)); [|lia].
    apply stack_bound; auto. intros x Hx. apply Hst. exact Hx. }
  rewrite remove_node_rec_S.
  assert (G : forall l s0, (forall m, In m l -> rk n < rk m) -> InvC u s0 -> Ranked rk s0 ->
              length (nodes s0) = length (nodes s) -> (forall x, rk x <= rk n -> live s0 x = live s x) ->
              exists s1, go_list (remove_node_rec f) s0 l = inl s1 /\ InvC u s1 /\
                         (forall x, rk x <= rk n -> live s1 x = live s x)).
  { induction l as [|m r IHl]; intros s0 Hl H0 R0 L0 Lv0; cbn; [eauto|].
    assert (Hr : forall m0, In m0 r -> rk n < rk m0) by (intros; apply Hl; now right).
    destruct (live s0 m) eqn:Lm; [|apply IHl; auto].
    assert (Hm : rk n < rk m) by (apply Hl; now left).
    destruct (IH s0 m (m :: stack) H0 R0 Lm) as [s1 [E1 Lv1]].
    - now left.
    - constructor; auto. intros Hx. apply Hst in Hx. lia.
    - intros x [<-|Hx]; [split; [now apply live_lt|lia]|]. apply Hst in Hx. rewrite L0. lia.
    - cbn. lia.
    - rewrite E1. pose proof (remove_node_rec_ok u f s0 m H0) as Ok. rewrite E1 in Ok.
      destruct Ok as (I1 & _ & _ & I4). apply remove_node_rec_shrinks in E1 as (A1 & _ & _).
      apply IHl; auto.
      + intros e He. apply R0. auto.
      + congruence.
      + intros x Hx. rewrite <- Lv0 by auto. apply Lv1; [lia|intros ->; lia]. }
  destruct (G (dependants s n) s) as [s1 [E1 [I1 Lv1]]]; auto.
  { intros m Hm. apply dependants_edge in Hm as [e [He [Es [Et De]]]]. rewrite <- Es, <- Et. now apply HR. }
  rewrite E1. assert (Ln1 : live s1 n = true) by (rewrite Lv1; auto).
  apply live_get in Ln1 as [nd Gn]. destruct (remove_one_live u s1 n nd I1 Gn) as [s2 [-> (J1 & J2 & J3 & J4)]].
  eexists. split; [reflexivity|]. intros m Hm Hne. rewrite J3 by auto. now apply Lv1.
Qed.

Lemma remove_node_total u s n :
  InvC u s -> Acyclic s -> live s n = true -> exists s', remove_node s n = (s', OUnit).
Proof.
  intros HI [rk HR] L. unfold remove_node.
  destruct (remove_node_rec_total u rk (S (length (nodes s))) s n [n] HI HR L) as [s' [E _]].
  - now left.
  - constructor; [intros []|constructor].
  - intros x [<-|[]]. split; [now apply live_lt|lia].
  - cbn. lia.
  - rewrite E. eauto.
Qed.

Lemma step_no_panic_live_acyclic u s o :
  Inv u s -> Acyclic s -> LiveOp u s o -> forall p, snd (step u s o) <> OPanic p.
Proof.
  intros H A L. destruct o; try (apply step_no_panic_live_but_remove; auto; intros; discriminate).
  cbn [step LiveOp] in *. apply Inv_iff in H. destruct (remove_node_total u s n H A L) as [s' ->]. discriminate.
Qed.
