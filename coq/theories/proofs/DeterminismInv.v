(** C16 (d): whole histories do not depend on the order oracles.
    The sorted scan of [define_type] is order-independent only when no two entries of [defined] share a node;
    that is an invariant of the graph model, proved here for EVERY operation history together with what it
    needs (definition entries point to live definition nodes without a package; the free list holds dead,
    pairwise distinct slots). *)
From Coq Require Import List Arith Bool NArith Permutation Lia.
From WacV Require Import Graph Determinism DeterminismProofs.
Import ListNotations.

(** * [set_nth], [get_node] *)
Lemma length_set_nth {A} (l : list A) n x : length (set_nth l n x) = length l.
Proof. revert n. induction l as [|y r IH]; intros [|n]; simpl; auto. Qed.

Lemma nth_error_set_nth_same {A} (l : list A) n x : n < length l -> nth_error (set_nth l n x) n = Some x.
Proof. revert n. induction l as [|y r IH]; intros [|n]; simpl; intros H; try lia; auto. apply IH. lia. Qed.

Lemma nth_error_set_nth_other {A} (l : list A) n m x : m <> n -> nth_error (set_nth l n x) m = nth_error l m.
Proof. revert n m. induction l as [|y r IH]; intros [|n] [|m]; simpl; intros H; try congruence; auto. Qed.

Lemma get_node_nth s n nd : get_node s n = Some nd <-> nth_error (nodes s) n = Some (Some nd).
Proof.
  unfold get_node. destruct (nth_error (nodes s) n) as [[x|]|]; split; intros H; try discriminate; inversion H; reflexivity.
Qed.

Lemma get_node_lt s n nd : get_node s n = Some nd -> n < length (nodes s).
Proof. intros H. apply get_node_nth in H. apply nth_error_Some. congruence. Qed.

Lemma get_node_same_nodes s s' n : nodes s' = nodes s -> get_node s' n = get_node s n.
Proof. intros E. unfold get_node. rewrite E. reflexivity. Qed.

(** * the invariant *)
Definition def_node (s : gstate) (n : nat) : Prop :=
  exists nd, get_node s n = Some nd /\ nk nd = NDef /\ npkg nd = None.

Record J (s : gstate) : Prop := {
  J1 : NoDup (map snd (defined s));
  J2 : forall p, In p (defined s) -> def_node s (snd p);
  J3 : forall i, In i (free_nodes s) -> nth_error (nodes s) i = Some None;
  J4 : NoDup (free_nodes s) }.

Lemma J_empty : J empty_graph.
Proof. constructor; simpl; try constructor; intros; contradiction. Qed.

Lemma def_node_same_nodes s s' n : nodes s' = nodes s -> def_node s n -> def_node s' n.
Proof. intros E [nd [H1 H2]]. exists nd. rewrite (get_node_same_nodes _ _ _ E). auto. Qed.

Lemma J_fields s s' :
  nodes s' = nodes s -> free_nodes s' = free_nodes s -> defined s' = defined s -> J s -> J s'.
Proof.
  intros En Ef Ed [H1 H2 H3 H4]. constructor.
  - rewrite Ed. exact H1.
  - rewrite Ed. intros p Hp. apply (def_node_same_nodes s); auto.
  - rewrite Ef, En. exact H3.
  - rewrite Ef. exact H4.
Qed.

Definition edges_only (s s' : gstate) : Prop :=
  nodes s' = nodes s /\ free_nodes s' = free_nodes s /\ defined s' = defined s.

Lemma edges_only_refl s : edges_only s s. Proof. repeat split. Qed.
Lemma edges_only_trans a b c : edges_only a b -> edges_only b c -> edges_only a c.
Proof. intros [A1 [A2 A3]] [B1 [B2 B3]]. repeat split; congruence. Qed.
Lemma edges_only_add_edge s e : edges_only s (add_edge s e). Proof. repeat split. Qed.
Lemma edges_only_fold {A} (F : gstate -> A -> gstate) :
  (forall s x, edges_only s (F s x)) -> forall l s, edges_only s (fold_left F l s).
Proof.
  intros HF. induction l as [|x r IH]; simpl; intros s; [apply edges_only_refl|].
  eapply edges_only_trans; [apply HF|apply IH].
Qed.
Lemma J_edges_only s s' : edges_only s s' -> J s -> J s'.
Proof. intros [A [B C]]. apply J_fields; assumption. Qed.

Lemma J_set_node s n nd nd' :
  J s -> get_node s n = Some nd ->
  (nk nd = NDef -> npkg nd = None -> nk nd' = NDef /\ npkg nd' = None) ->
  J (set_node s n (Some nd')).
Proof.
  intros [H1 H2 H3 H4] Hg Hk. pose proof (get_node_lt _ _ _ Hg) as Hlt.
  constructor; simpl.
  - exact H1.
  - intros p Hp. destruct (H2 p Hp) as [x [Gx [Kx Px]]].
    destruct (Nat.eq_dec (snd p) n) as [E|E].
    + rewrite E in *. rewrite Hg in Gx. inversion Gx; subst x.
      exists nd'. split; [|apply Hk; assumption].
      apply get_node_nth. simpl. apply nth_error_set_nth_same. exact Hlt.
    + exists x. split; [|auto]. apply get_node_nth. simpl. rewrite nth_error_set_nth_other by exact E.
      apply get_node_nth. exact Gx.
  - intros i Hi. pose proof (H3 i Hi) as Hn.
    assert (i <> n). { intros ->. apply get_node_nth in Hg. congruence. }
    rewrite nth_error_set_nth_other by assumption. exact Hn.
  - exact H4.
Qed.

Lemma J_add_node s nd s1 idx :
  J s -> add_node s nd = (s1, idx) ->
  J s1 /\ defined s1 = defined s /\ get_node s1 idx = Some nd /\ ~ In idx (map snd (defined s)).
Proof.
  intros [H1 H2 H3 H4] Ha. unfold add_node in Ha. destruct (free_nodes s) as [|i fr] eqn:Ef.
  - inversion Ha; subst; clear Ha. simpl.
    assert (Hni : ~ In (length (nodes s)) (map snd (defined s))).
    { intros Hin. apply in_map_iff in Hin. destruct Hin as [p [Ep Hp]]. destruct (H2 p Hp) as [x [Gx _]].
      apply get_node_lt in Gx. lia. }
    split; [|split; [reflexivity|split; [|exact Hni]]].
    + constructor; simpl.
      * exact H1.
      * intros p Hp. destruct (H2 p Hp) as [x [Gx Kx]]. exists x. split; [|exact Kx].
        apply get_node_nth. simpl. rewrite nth_error_app1 by (eapply get_node_lt; exact Gx). apply get_node_nth. exact Gx.
      * intros i [].
      * constructor.
    + apply get_node_nth. simpl. rewrite nth_error_app2 by lia. rewrite Nat.sub_diag. reflexivity.
  - inversion Ha; subst; clear Ha. simpl.
    assert (Hi : nth_error (nodes s) idx = Some None) by (apply H3; left; reflexivity).
    assert (Hlt : idx < length (nodes s)) by (apply nth_error_Some; congruence).
    assert (Hni : ~ In idx (map snd (defined s))).
    { intros Hin. apply in_map_iff in Hin. destruct Hin as [p [Ep Hp]]. destruct (H2 p Hp) as [x [Gx _]].
      rewrite Ep in Gx. apply get_node_nth in Gx. congruence. }
    inversion H4 as [|? ? Hnf Hnd]; subst.
    split; [|split; [reflexivity|split; [|exact Hni]]].
    + constructor; simpl.
      * exact H1.
      * intros p Hp. destruct (H2 p Hp) as [x [Gx Kx]]. exists x. split; [|exact Kx].
        assert (snd p <> idx) by (intros E; apply Hni; rewrite <- E; apply in_map; exact Hp).
        apply get_node_nth. simpl. rewrite nth_error_set_nth_other by assumption. apply get_node_nth. exact Gx.
      * intros j Hj. assert (j <> idx) by (intros ->; contradiction).
        rewrite nth_error_set_nth_other by assumption. apply H3. right. exact Hj.
      * exact Hnd.
    + apply get_node_nth. simpl. apply nth_error_set_nth_same. exact Hlt.
Qed.

Lemma NoDup_map_filter {A B} (f : A -> B) (g : A -> bool) (l : list A) :
  NoDup (map f l) -> NoDup (map f (filter g l)).
Proof.
  induction l as [|a r IH]; simpl; intros H; [constructor|]. inversion H as [|? ? Hn Hr]; subst.
  destruct (g a); simpl; [|auto]. constructor; [|auto].
  intros Hin. apply Hn. apply in_map_iff in Hin. destruct Hin as [x [Ex Hx]]. apply filter_In in Hx.
  rewrite <- Ex. apply in_map. tauto.
Qed.

(** dropping a live node and its definition entries *)
Lemma J_drop_filter s n nd im ex :
  J s -> get_node s n = Some nd ->
  J (with_maps (drop_node s n) im ex (filter (fun p => negb (snd p =? n)) (defined s))).
Proof.
  intros [H1 H2 H3 H4] Hg. pose proof (get_node_lt _ _ _ Hg) as Hlt.
  assert (Hnf : ~ In n (free_nodes s)).
  { intros Hin. apply H3 in Hin. apply get_node_nth in Hg. congruence. }
  constructor; simpl.
  - apply NoDup_map_filter. exact H1.
  - intros p Hp. apply filter_In in Hp. destruct Hp as [Hp Hne]. apply negb_true_iff, Nat.eqb_neq in Hne.
    destruct (H2 p Hp) as [x [Gx Kx]]. exists x. split; [|exact Kx].
    apply get_node_nth. simpl. rewrite nth_error_set_nth_other by exact Hne. apply get_node_nth. exact Gx.
  - intros i [<-|Hi].
    + apply nth_error_set_nth_same. exact Hlt.
    + assert (i <> n) by (intros ->; contradiction).
      rewrite nth_error_set_nth_other by assumption. apply H3. exact Hi.
  - constructor; assumption.
Qed.

Lemma filter_all {A} (f : A -> bool) (l : list A) : (forall x, In x l -> f x = true) -> filter f l = l.
Proof.
  induction l as [|a r IH]; simpl; intros H; [reflexivity|]. rewrite (H a) by (left; reflexivity).
  f_equal. apply IH. intros x Hx. apply H. right. exact Hx.
Qed.

(** a node that is no definition (or has a package) has no entry in [defined] *)
Lemma not_def_no_entry s n nd :
  J s -> get_node s n = Some nd -> (nk nd <> NDef \/ npkg nd <> None) ->
  forall p, In p (defined s) -> snd p <> n.
Proof.
  intros HJ Hg Hk p Hp E. destruct (J2 _ HJ p Hp) as [x [Gx [Kx Px]]]. rewrite E, Hg in Gx. inversion Gx; subst.
  destruct Hk; contradiction.
Qed.

Lemma J_drop_plain s n nd :
  J s -> get_node s n = Some nd -> (nk nd <> NDef \/ npkg nd <> None) -> J (drop_node s n).
Proof.
  intros HJ Hg Hk.
  pose proof (J_drop_filter s n nd (imports s) (exports s) HJ Hg) as H.
  rewrite filter_all in H.
  - eapply J_fields; [| | |exact H]; reflexivity.
  - intros p Hp. apply negb_true_iff, Nat.eqb_neq. exact (not_def_no_entry s n nd HJ Hg Hk p Hp).
Qed.

(** * satisfied-argument bookkeeping *)
Lemma J_add_satisfied s n i s' : J s -> add_satisfied s n i = inl (Some s') -> J s'.
Proof.
  intros HJ H. unfold add_satisfied in H. destruct (get_node s n) as [nd|] eqn:Hg; [|discriminate].
  destruct (nk nd) as [| |sat|] eqn:Hk; try discriminate.
  destruct (existsb (Nat.eqb i) sat); [discriminate|]. inversion H; subst.
  eapply J_set_node; [exact HJ|exact Hg|]. intros C. congruence.
Qed.

Lemma J_remove_satisfied s n i s' : J s -> remove_satisfied s n i = inl s' -> J s'.
Proof.
  intros HJ H. unfold remove_satisfied in H. destruct (get_node s n) as [nd|] eqn:Hg; [|discriminate].
  destruct (nk nd) as [| |sat|] eqn:Hk; try discriminate.
  destruct (existsb (Nat.eqb i) sat); [|discriminate]. inversion H; subst.
  eapply J_set_node; [exact HJ|exact Hg|]. intros C. congruence.
Qed.

Lemma J_remove_satisfied_all l : forall s s', J s -> remove_satisfied_all s l = inl s' -> J s'.
Proof.
  induction l as [|[t i] r IH]; simpl; intros s s' HJ H.
  - inversion H; subst. exact HJ.
  - destruct (remove_satisfied s t i) as [s1|] eqn:E; [|discriminate].
    eapply IH; [eapply J_remove_satisfied; eassumption|exact H].
Qed.

(** * remove_node *)
Lemma J_remove_one s n s' : J s -> remove_one s n = inl s' -> J s'.
Proof.
  intros HJ H. unfold remove_one in H.
  destruct (remove_satisfied_all s (arg_targets (outgoing s n))) as [s1|] eqn:E1; [|discriminate].
  pose proof (J_remove_satisfied_all _ _ _ HJ E1) as HJ1.
  destruct (get_node s1 n) as [nd|] eqn:Hg; [|discriminate].
  match type of H with (match ?X with inl _ => _ | inr _ => _ end) = _ => destruct X as [im|]; [|discriminate] end.
  match type of H with (match ?X with inl _ => _ | inr _ => _ end) = _ => destruct X as [ex|]; [|discriminate] end.
  destruct (nk nd) eqn:Hk.
  - destruct (existsb (fun p => snd p =? n) (defined (drop_node s1 n))); [|discriminate].
    inversion H; subst. simpl. apply (J_drop_filter s1 n nd); assumption.
  - inversion H; subst.
    eapply J_fields; [| | |apply (J_drop_plain s1 n nd HJ1 Hg); left; congruence]; reflexivity.
  - inversion H; subst.
    eapply J_fields; [| | |apply (J_drop_plain s1 n nd HJ1 Hg); left; congruence]; reflexivity.
  - inversion H; subst.
    eapply J_fields; [| | |apply (J_drop_plain s1 n nd HJ1 Hg); left; congruence]; reflexivity.
Qed.

Lemma J_remove_node_rec : forall fuel s n s', J s -> remove_node_rec fuel s n = inl s' -> J s'.
Proof.
  induction fuel as [|f IH]; intros s n s' HJ H; [discriminate|].
  simpl in H.
  match type of H with
  | (match ?G s (dependants s n) with inl _ => _ | inr _ => _ end) = _ =>
      assert (Hgo : forall l a b, J a -> G a l = inl b -> J b)
  end.
  { induction l as [|m r IHl]; intros a b Ha Hab.
    - inversion Hab; subst. exact Ha.
    - destruct (live a m).
      + destruct (remove_node_rec f a m) as [a'|] eqn:E; [|discriminate].
        eapply IHl; [eapply IH; eassumption|exact Hab].
      + eapply IHl; eassumption. }
  match type of H with
  | (match ?X with inl _ => _ | inr _ => _ end) = _ => destruct X as [s1|] eqn:E; [|discriminate]
  end.
  eapply J_remove_one; [eapply Hgo; eassumption|exact H].
Qed.

(** * unregister *)
Lemma nodes_where_aux (f : node -> bool) : forall (l : list (option node)) k,
    let r := flat_map (fun p => match snd p with Some nd => if f nd then [fst p] else [] | None => [] end)
                      (combine (seq k (length l)) l) in
    NoDup r /\ forall v, In v r -> k <= v /\ exists nd, nth_error l (v - k) = Some (Some nd) /\ f nd = true.
Proof.
  induction l as [|x r IH]; intros k; simpl.
  - split; [constructor|intros v []].
  - destruct (IH (S k)) as [Hnd Hin]. simpl in Hnd, Hin.
    assert (Hrest : forall v, In v (flat_map (fun p => match snd p with Some nd => if f nd then [fst p] else [] | None => [] end)
                                             (combine (seq (S k) (length r)) r)) ->
                    k <= v /\ exists nd, nth_error (x :: r) (v - k) = Some (Some nd) /\ f nd = true).
    { intros v Hv. destruct (Hin v Hv) as [Hle [nd [Hn Hf]]]. split; [lia|]. exists nd. split; [|exact Hf].
      replace (v - k) with (S (v - S k)) by lia. exact Hn. }
    destruct x as [nd|]; [destruct (f nd) eqn:Ef|]; simpl.
    + split.
      * constructor; [|exact Hnd]. intros Hv. apply Hin in Hv. lia.
      * intros v [<-|Hv]; [|auto]. split; [lia|]. exists nd. rewrite Nat.sub_diag. auto.
    + split; auto.
    + split; auto.
Qed.

Lemma nodes_where_spec s f :
  NoDup (nodes_where s f) /\ forall v, In v (nodes_where s f) -> exists nd, get_node s v = Some nd /\ f nd = true.
Proof.
  unfold nodes_where. destruct (nodes_where_aux f (nodes s) 0) as [Hnd Hin]. split; [exact Hnd|].
  intros v Hv. destruct (Hin v Hv) as [_ [nd [Hn Hf]]]. rewrite Nat.sub_0_r in Hn. exists nd. split; [|exact Hf].
  apply get_node_nth. exact Hn.
Qed.

Lemma J_fold_drop : forall vs s,
    J s -> NoDup vs -> (forall v, In v vs -> exists nd, get_node s v = Some nd /\ npkg nd <> None) ->
    J (fold_left drop_node vs s).
Proof.
  induction vs as [|v r IH]; simpl; intros s HJ Hnd Hv; [exact HJ|].
  inversion Hnd as [|? ? Hn Hr]; subst.
  destruct (Hv v (or_introl eq_refl)) as [nd [Hg Hp]].
  apply IH.
  - eapply J_drop_plain; [exact HJ|exact Hg|right; exact Hp].
  - exact Hr.
  - intros w Hw. destruct (Hv w (or_intror Hw)) as [x [Gx Px]]. exists x. split; [|exact Px].
    assert (w <> v) by (intros ->; contradiction).
    apply get_node_nth. simpl. rewrite nth_error_set_nth_other by assumption. apply get_node_nth. exact Gx.
Qed.

Lemma J_unregister s id : J s -> J (fst (unregister s id)).
Proof.
  intros HJ. unfold unregister.
  destruct (nth_error (pkgs s) (fst id)) as [sl|]; [|exact HJ].
  destruct (negb (ps_gen sl =? snd id)); [exact HJ|].
  match goal with |- context [if ?c then _ else _] => destruct c; [exact HJ|] end.
  cbv zeta.
  match goal with |- context [remove_satisfied_all ?S1 ?L] => destruct (remove_satisfied_all S1 L) as [s2|] eqn:E; [|exact HJ];
    assert (HJ1 : J S1) end.
  { destruct HJ as [H1 H2 H3 H4]. constructor; simpl.
    - apply NoDup_map_filter. exact H1.
    - intros p Hp. apply filter_In in Hp. destruct Hp as [Hp _]. exact (H2 p Hp).
    - exact H3.
    - exact H4. }
  pose proof (J_remove_satisfied_all _ _ _ HJ1 E) as HJ2.
  destruct (ps_pkg sl); [|exact HJ]. simpl.
  eapply J_fields; [| | |apply (J_fold_drop (nodes_where s2 (fun nd => pkg_eqb (npkg nd) (Some id))) s2 HJ2)]; try reflexivity.
  - apply nodes_where_spec.
  - intros v Hv. destruct (proj2 (nodes_where_spec s2 _) v Hv) as [nd [Hg Hf]]. exists nd. split; [exact Hg|].
    intros C. rewrite C in Hf. simpl in Hf. destruct id. discriminate.
Qed.

(** * the other operations *)
Lemma J_update_node s n f s' :
  (forall nd, nk (f nd) = nk nd /\ npkg (f nd) = npkg nd) -> J s -> update_node s n f = Some s' -> J s'.
Proof.
  intros Hf HJ H. unfold update_node in H. destruct (get_node s n) as [nd|] eqn:Hg; [|discriminate].
  inversion H; subst. eapply J_set_node; [exact HJ|exact Hg|]. destruct (Hf nd) as [A B]. rewrite A, B. auto.
Qed.

Lemma J_define_type u s nm t : J s -> J (fst (define_type u s nm t)).
Proof.
  intros HJ. unfold define_type.
  destruct (nth_error (u_tys u) t) as [td|]; [|exact HJ].
  repeat match goal with |- context [if ?c then _ else _] => destruct c; [exact HJ|] end.
  destruct (add_node s _) as [s1 idx] eqn:Ea.
  destruct (J_add_node _ _ _ _ HJ Ea) as [HJ1 [Ed [Hg Hni]]].
  cbv zeta.
  match goal with |- J (fst (with_maps (fold_left ?F2 ?L2 (fold_left ?F1 ?L1 s1)) _ _ _, _)) =>
    assert (Heo1 : edges_only s1 (fold_left F1 L1 s1));
    [|assert (Heo2 : edges_only (fold_left F1 L1 s1) (fold_left F2 L2 (fold_left F1 L1 s1)));
      [|pose proof (edges_only_trans _ _ _ Heo1 Heo2) as Heo; clear Heo1 Heo2;
        set (s3 := fold_left F2 L2 (fold_left F1 L1 s1)) in *]] end.
  { apply edges_only_fold. intros a x. destruct (x =? t); [apply edges_only_refl|].
    destruct (alist_get Nat.eqb (defined a) x); [|apply edges_only_refl].
    destruct (has_dep_edge a n idx); [apply edges_only_refl|apply edges_only_add_edge]. }
  { apply edges_only_fold. intros a x. destruct (nth_error (u_tys u) (fst x)); [|apply edges_only_refl].
    apply edges_only_fold. intros b y. destruct ((y =? t) && negb (has_dep_edge b idx (snd x))); [apply edges_only_add_edge|apply edges_only_refl]. }
  destruct Heo as [En [Ef Edd]]. simpl. destruct HJ1 as [H1 H2 H3 H4].
  constructor; simpl.
  - rewrite Edd, Ed. constructor; [exact Hni|]. rewrite <- Ed. exact H1.
  - intros p [<-|Hp].
    + simpl. exists {| nk := NDef; npkg := None; nitem := td_kind td; nname := None; nexport := Some nm |}.
      split; [|split; reflexivity]. rewrite <- Hg. apply get_node_same_nodes. exact En.
    + rewrite Edd in Hp. apply (def_node_same_nodes s1); [exact En|]. apply H2. exact Hp.
  - rewrite Ef, En. exact H3.
  - rewrite Ef. exact H4.
Qed.

Lemma J_step u s op : J s -> J (fst (step u s op)).
Proof.
  intros HJ. destruct op; simpl.
  - (* register *)
    unfold register. destruct (find_pkg_slot s p); [exact HJ|].
    destruct (free_pkgs s); [|destruct (nth_error (pkgs s) n); [|exact HJ]]; simpl;
      (eapply J_fields; [| | |exact HJ]; reflexivity).
  - apply J_unregister. exact HJ.
  - apply J_define_type. exact HJ.
  - (* import *)
    unfold import_. destruct (nth_error (u_lkinds u) k); [|exact HJ].
    destruct (alist_get N.eqb (imports s) n); [exact HJ|].
    destruct (negb (u_import_name_ok u n)); [exact HJ|].
    destruct (add_node s _) as [s1 idx] eqn:Ea. destruct (J_add_node _ _ _ _ HJ Ea) as [HJ1 _]. simpl.
    eapply J_fields; [| | |exact HJ1]; reflexivity.
  - (* instantiate *)
    unfold instantiate. destruct (pkg_desc u s id); [|exact HJ].
    destruct (add_node s _) as [s1 idx] eqn:Ea. destruct (J_add_node _ _ _ _ HJ Ea) as [HJ1 _]. exact HJ1.
  - (* alias *)
    unfold alias. destruct (get_node s n); [|exact HJ]. destruct (u_inst_exports u (nitem n0)); [|exact HJ].
    destruct (get_full l e 0) as [[index kind]|]; [|exact HJ].
    destruct (find _ (outgoing s n)); [exact HJ|].
    destruct (add_node s _) as [s1 idx] eqn:Ea. destruct (J_add_node _ _ _ _ HJ Ea) as [HJ1 _]. simpl.
    eapply J_edges_only; [apply edges_only_add_edge|exact HJ1].
  - (* set_arg *)
    unfold set_arg. destruct (get_node s i); [|exact HJ]. destruct (nk n0); try exact HJ.
    destruct (inst_imports u s n0); [|exact HJ]. destruct (get_full l a 0) as [[index expected]|]; [|exact HJ].
    destruct (scan_incoming (incoming s i) index n); try exact HJ.
    destruct (get_node s n); [|exact HJ]. destruct (negb (u_sub u (nitem n1) expected)); [exact HJ|].
    cbv zeta. match goal with |- context [add_satisfied ?S1 ?A ?B] => destruct (add_satisfied S1 A B) as [[s2|]|] eqn:E; try exact HJ end.
    simpl. eapply J_add_satisfied; [|exact E]. eapply J_edges_only; [apply edges_only_add_edge|exact HJ].
  - (* unset_arg *)
    unfold unset_arg. destruct (get_node s i); [|exact HJ]. destruct (nk n0); try exact HJ.
    destruct (inst_imports u s n0); [|exact HJ]. destruct (get_full l a 0) as [[index expected]|]; [|exact HJ].
    cbv zeta. destruct (scan_connecting _ index); try exact HJ.
    destruct (remove_satisfied s i index) as [s1|] eqn:E; [|exact HJ]. simpl.
    eapply J_fields; [| | |eapply J_remove_satisfied; [exact HJ|exact E]]; reflexivity.
  - (* export *)
    unfold export_. destruct (alist_get N.eqb (exports s) e); [exact HJ|].
    destruct (negb (u_export_name_ok u e)); [exact HJ|].
    destruct (update_node s n _) as [s1|] eqn:E; [|exact HJ]. simpl.
    eapply J_fields; [| | |eapply J_update_node; [|exact HJ|exact E]]; try reflexivity. intros nd. split; reflexivity.
  - (* unexport *)
    unfold unexport. destruct (get_node s n) as [nd|] eqn:Hg; [|exact HJ]. destruct (nk nd) eqn:Hk; try exact HJ;
    cbv zeta;
    match goal with |- J (fst (match ?X with inl _ => _ | inr _ => _ end)) => destruct X; [|exact HJ] end; simpl;
    (eapply J_fields; [| | |eapply J_set_node; [exact HJ|exact Hg|]]; try reflexivity; simpl; intros C; congruence).
  - (* set_name *)
    unfold set_name. destruct (update_node s n _) as [s1|] eqn:E; [|exact HJ]. simpl.
    eapply J_update_node; [|exact HJ|exact E]. intros nd. split; reflexivity.
  - (* remove_node *)
    unfold remove_node. destruct (remove_node_rec _ s n) as [s1|] eqn:E; [|exact HJ]. simpl.
    eapply J_remove_node_rec; eassumption.
Qed.

(** * the canonical run and the oracle runs coincide *)
Lemma add_node_defined s nd : defined (fst (add_node s nd)) = defined s.
Proof. unfold add_node. destruct (free_nodes s); reflexivity. Qed.

Theorem define_type_with_canonical u s nm t : define_type_with u s (defined s) nm t = define_type u s nm t.
Proof.
  unfold define_type_with, define_type.
  destruct (nth_error (u_tys u) t) as [td|]; [|reflexivity].
  repeat match goal with |- (if ?c then _ else _) = _ => destruct c; [reflexivity|] end.
  pose proof (add_node_defined s {| nk := NDef; npkg := None; nitem := td_kind td; nname := None; nexport := Some nm |}) as Ed.
  destruct (add_node s _) as [s1 idx]. simpl in Ed. cbv zeta. unfold sort_by_node.
  match goal with |- context [defined (fold_left ?F ?L s1)] =>
    assert (E : defined (fold_left F L s1) = defined s); [|rewrite E; reflexivity] end.
  rewrite <- Ed.
  match goal with |- defined (fold_left ?F ?L s1) = _ => pose proof (edges_only_fold F) as H end.
  apply H. intros a x. destruct (x =? t); [apply edges_only_refl|].
  destruct (alist_get Nat.eqb (defined a) x); [|apply edges_only_refl].
  destruct (has_dep_edge a n idx); [apply edges_only_refl|apply edges_only_add_edge].
Qed.

Lemma step_with_canonical o k u s op : valid_oracle o -> J s -> step_with o k u s op = step u s op.
Proof.
  intros Hv HJ. destruct op; try reflexivity; simpl.
  - apply unregister_with_canonical. exact Hv.
  - rewrite <- define_type_with_canonical. destruct Hv as [Hd _]. apply define_type_order_indep.
    + apply Hd.
    + eapply Permutation_NoDup; [apply Permutation_map, Permutation_sym, Hd|]. apply (J1 _ HJ).
Qed.

Lemma run_from_canonical o u : valid_oracle o -> forall ops k s, J s -> run_from o u k s ops = run_plain u s ops.
Proof.
  intros Hv. induction ops as [|op r IH]; intros k s HJ; simpl; [reflexivity|].
  rewrite (step_with_canonical o k u s op Hv HJ).
  pose proof (J_step u s op HJ) as HJ'. destruct (step u s op) as [s' out]. simpl in HJ'.
  rewrite (IH (S k) s' HJ'). reflexivity.
Qed.

(** for every operation history, the final state (nodes, free lists, adjacency order, all maps, package slots)
    and every returned value are the same whatever orders the hash maps iterate in *)
Theorem history_oracle_indep : forall u ops o1 o2,
    valid_oracle o1 -> valid_oracle o2 -> run_with o1 u ops = run_with o2 u ops.
Proof.
  intros u ops o1 o2 H1 H2. unfold run_with.
  rewrite (run_from_canonical o1 u H1 ops 0 empty_graph J_empty), (run_from_canonical o2 u H2 ops 0 empty_graph J_empty).
  reflexivity.
Qed.

(** the invariant behind it, for every history *)
Theorem defined_nodes_distinct : forall u ops o, valid_oracle o -> NoDup (map snd (defined (fst (run_with o u ops)))).
Proof.
  intros u ops o Hv. unfold run_with. rewrite (run_from_canonical o u Hv ops 0 empty_graph J_empty).
  assert (H : forall ops s, J s -> J (fst (run_plain u s ops))).
  { induction ops0 as [|op r IH]; intros s HJ; simpl; [exact HJ|].
    pose proof (J_step u s op HJ) as HJ'. destruct (step u s op) as [s' out]. simpl in HJ'.
    specialize (IH s' HJ'). destruct (run_plain u s' r). exact IH. }
  apply J1. apply H. apply J_empty.
Qed.
