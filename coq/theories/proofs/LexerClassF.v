(** Lexer classes, part F: [lex_longest] (maximal munch). For a token produced at the remaining
    input [s], no prefix of [s] longer than the token's text is a lexeme of ANY token rule. *)
From WacV Require Import Str Ord Token Lexer LexTables LexImpl LexSpec LexTablesProofs Semver Ast Parser LexClasses.
From WacV Require Import LexerSound NoPanicLexer LexerClassA LexerClassB LexerClassC LexerClassD LexerClassE.
From Coq Require Import Lia.
Local Open Scope nat_scope.

Section Longest.
Variable d : deviations.
Variable base : lexcfg.
Hypothesis Htab : tables_ok base.
Notation cfg := (cfg_with d base).
Notation au := (uppercase_words d).

(* ------------------------------------------------------------------ lexemes of the rules *)

Inductive lexeme (p : str) : Prop :=
| lx_id : id_b d p = true -> lexeme p
| lx_name i segs ver :
    p = i ++ chain_text c_colon segs ++ ver -> id_b d i = true -> segs <> [] -> forallb (id_b d) segs = true ->
    vtail_b ver = true -> lexeme p
| lx_path i segs path ver :
    p = i ++ chain_text c_colon segs ++ chain_text c_slash path ++ ver -> id_b d i = true -> segs <> [] ->
    forallb (id_b d) segs = true -> path <> [] -> forallb (id_b d) path = true -> vtail_b ver = true -> lexeme p
| lx_string : string_b p = true -> lexeme p
| lx_symbol k : In (p, k) doc_symbols -> lexeme p.

Lemma text_of_kind_In k : forall tbl x, text_of_kind k tbl = Some x -> In (x, k) tbl.
Proof.
  induction tbl as [|[y t] tbl IH]; intros x; cbn [text_of_kind]; [discriminate|]. destruct (token_eqb t k) eqn:E.
  - intros H; inversion H; subst. apply token_eqb_eq in E. subst. now left.
  - intros H. right. auto.
Qed.

Lemma tail_b_lower : forall r, forallb lower_or_digit r = true -> tail_b d false r = true.
Proof.
  induction r as [|c r IH]; [reflexivity|]. cbn [forallb]. intros H. apply andb_true_iff in H. destruct H as [Hc H].
  rewrite tail_b_cons. destruct (c =? c_minus)%N eqn:E; [apply N.eqb_eq in E; subst c; discriminate|].
  cbn [cont_b]. now rewrite Hc, IH.
Qed.

Lemma lower_word_id w : lower_word w = true -> id_b d w = true.
Proof.
  destruct w as [|c r]; [discriminate|]. cbn [lower_word]. intros H. apply andb_true_iff in H. destruct H as [Hc H].
  unfold id_b. cbn [strip_percent]. destruct (c =? c_percent)%N eqn:E; [apply N.eqb_eq in E; subst c; discriminate|].
  rewrite kebab_b_cons, Hc, tail_b_lower by exact H. reflexivity.
Qed.

Lemma rule_class_plain k p :
  special k = false -> rule_class d k p = match fixed_text k with Some x => str_eqb x p | None => false end.
Proof. destruct k; try discriminate; intros _; reflexivity. Qed.

Lemma rule_class_lexeme k p : rule_class d k p = true -> lexeme p.
Proof.
  destruct (special k) eqn:Esp.
  - destruct k; try discriminate Esp; cbn [rule_class]; intros H; try discriminate H.
    + now apply lx_id.
    + now apply lx_string.
    + destruct (pkg_name_inv d _ H) as (i & segs & ver & -> & Hi & Hne & Hs & Hv). eapply lx_name; eauto.
    + destruct (pkg_path_inv d _ H) as (i & segs & path & ver & -> & Hi & Hne & Hs & Hpne & Hp & Hv). eapply lx_path; eauto.
  - rewrite rule_class_plain by exact Esp. unfold fixed_text.
    destruct (text_of_kind k (doc_keywords ++ doc_symbols)) as [x|] eqn:E; [|discriminate]. intros H.
    apply lc_str_eqb_eq in H. subst x. apply text_of_kind_In in E. apply in_app_or in E. destruct E as [E|E].
    + apply lx_id. apply lower_word_id. now destruct (kw_row_facts d _ _ E) as (_ & _ & ?).
    + eapply lx_symbol; eauto.
Qed.

(** First character of a lexeme that starts with an id. *)
Definition id_start_char (c : N) : bool := is_alpha c || (c =? c_percent)%N.

Lemma id_b_first i : id_b d i = true -> exists c r, i = c :: r /\ id_start_char c = true.
Proof.
  intros H. apply id_b_starts in H. unfold starts_id in H. destruct i as [|c r]; [discriminate|]. exists c, r. split; [reflexivity|].
  unfold id_start_char. cbn [strip_percent] in H. destruct (c =? c_percent)%N; [now rewrite orb_true_r|].
  cbn [starts_word] in H. unfold is_alpha. apply orb_true_iff in H. destruct H as [->|H]; [now rewrite orb_true_r|].
  apply andb_true_iff in H. destruct H as [_ ->]. reflexivity.
Qed.

Lemma string_b_first p : string_b p = true -> exists r, p = c_quote :: r.
Proof. intros H. destruct (string_b_inv _ H) as (body & -> & _). eauto. Qed.

(** A lexeme starts with an id, with a double quote, or is a punctuation text. *)
Lemma lexeme_first p : lexeme p ->
  (exists i Z, p = i ++ Z /\ id_b d i = true) \/ (exists r, p = c_quote :: r) \/ (exists k, In (p, k) doc_symbols).
Proof.
  intros [H|i segs ver -> Hi _ _ _|i segs path ver -> Hi _ _ _ _ _|H|k H].
  - left. exists p, []. now rewrite app_nil_r.
  - left. eauto.
  - left. eauto.
  - right. left. now apply string_b_first.
  - right. right. eauto.
Qed.

Lemma firstn_prefix {A} m (s : list A) : exists tl, s = firstn m s ++ tl.
Proof. exists (skipn m s). symmetry. apply firstn_skipn. Qed.

Lemma firstn_starts_with x : forall s m, firstn m s = x -> starts_with x s = true.
Proof.
  induction x as [|a x IH]; intros s m H; [reflexivity|]. destruct m as [|m]; [discriminate|]. destruct s as [|b s]; [discriminate|].
  cbn [firstn] in H. inversion H; subst. cbn [starts_with]. rewrite N.eqb_refl. cbn [andb]. eapply IH; eauto.
Qed.

(* ------------------------------------------------------------------ longest: the three kinds of token start *)

(** [lia] after clearing the boolean and list hypotheses (with ZifyBool loaded, [lia] would otherwise
    preprocess every one of them). *)
Ltac blia :=
  repeat match goal with
         | H : _ = true |- _ => clear H
         | H : _ = false |- _ => clear H
         | H : _ -> _ = true |- _ => clear H
         | H : @eq (list _) _ _ |- _ => clear H
         | H : @eq str _ _ |- _ => clear H
         | H : lexeme _ |- _ => clear H
         | H : produced _ _ _ _ |- _ => clear H
         end; lia.

Lemma longest_string body rest0 m :
  nosep c_quote body = true -> S (S (length body)) < m -> m <= length (c_quote :: body ++ c_quote :: rest0) ->
  lexeme (firstn m (c_quote :: body ++ c_quote :: rest0)) -> False.
Proof.
  intros Hb Hm Hle Hlx.
  assert (Hp : exists t, firstn m (c_quote :: body ++ c_quote :: rest0) = c_quote :: body ++ c_quote :: t /\ t <> []).
  { destruct m as [|m]; [blia|]. cbn [firstn]. replace m with (length body + S (m - length body - 1)) by blia.
    rewrite firstn_plus, firstn_app_exact, skipn_app_exact. cbn [firstn]. eexists. split; [reflexivity|].
    cbn [length] in Hle. rewrite app_length in Hle. cbn [length] in Hle.
    destruct rest0 as [|y rest0]; [cbn [length] in Hle; blia|]. replace (m - length body - 1) with (S (m - length body - 2)) by blia.
    discriminate. }
  destruct Hp as (t & Hp & Ht). rewrite Hp in Hlx. destruct (lexeme_first _ Hlx) as [(i & Z & He & Hi)|[(r & He)|(k & Hk)]].
  - destruct (id_b_first _ Hi) as (c & r & -> & Hc). cbn [app] in He. inversion He; subst c. discriminate.
  - assert (Hs : string_b (c_quote :: body ++ c_quote :: t) = true).
    { inversion Hlx as [H|i segs ver He' Hi _ _ _|i segs path ver He' Hi _ _ _ _ _|H|k H]; auto.
      - apply id_b_first in H. destruct H as (c & r' & Hc & Hst). inversion Hc; subst c. discriminate.
      - destruct (id_b_first _ Hi) as (c & r' & -> & Hc). cbn [app] in He'. inversion He'; subst c. discriminate.
      - destruct (id_b_first _ Hi) as (c & r' & -> & Hc). cbn [app] in He'. inversion He'; subst c. discriminate.
      - destruct (sym_row_facts d _ _ H) as (_ & _ & c0 & r0 & Hc0 & _ & _ & Hq). inversion Hc0; subst c0. discriminate. }
    destruct (string_b_inv _ Hs) as (body' & He' & Hb'). inversion He' as [He2].
    pose proof (find_char_complete c_quote body t Hb) as F1. rewrite He2 in F1.
    pose proof (find_char_complete c_quote body' [] Hb') as F2. rewrite F2 in F1. inversion F1 as [Hl].
    apply (f_equal (@length N)) in He2. rewrite !app_length in He2. cbn [length] in He2. destruct t; [congruence|cbn [length] in He2; blia].
  - destruct (sym_row_facts d _ _ Hk) as (_ & _ & c0 & r0 & Hc0 & _ & _ & Hq). inversion Hc0; subst c0. discriminate.
Qed.

Lemma longest_symbol s k n m :
  id_len au s = 0 -> (forall r, s <> c_quote :: r) -> best_symbol (symbols base) s = Some (k, n) ->
  n < m -> m <= length s -> lexeme (firstn m s) -> False.
Proof.
  intros Hid Hq Hb Hm Hle Hlx. destruct (firstn_prefix m s) as (tl & Hs).
  destruct (lexeme_first _ Hlx) as [(i & Z & He & Hi)|[(r & He)|(k' & Hk)]].
  - pose proof (id_b_not_nil d _ Hi) as Hne. assert (Hfi : firstn (length i) s = i).
    { rewrite Hs, He, <- app_assoc. apply firstn_app_exact. }
    assert (Hli : length i <= length s).
    { rewrite Hs, He, !app_length. blia. }
    rewrite <- Hfi in Hi. pose proof (id_len_max d s (length i) Hli Hi) as H. rewrite Hid in H. destruct i; [congruence|cbn in H; blia].
  - rewrite He in Hs. cbn [app] in Hs. exact (Hq _ Hs).
  - destruct (best_symbol_spec _ _ _ _ Hb) as [_ Hmax]. apply Htab in Hk.
    assert (Hsw : starts_with (firstn m s) s = true) by (eapply firstn_starts_with; reflexivity).
    assert (Hne : firstn m s <> []) by (destruct m; [blia|destruct s; [cbn in Hle; blia|discriminate]]).
    specialize (Hmax _ _ Hk Hsw Hne). rewrite firstn_length_le in Hmax; blia.
Qed.

(** two decompositions of the same text starting with an id followed by a separator *)
Lemma id_prefix_unique i c Z w Y :
  is_sep c = true -> id_b d i = true -> i ++ c :: Z = w ++ Y -> id_len au (w ++ Y) = length w -> i = w /\ c :: Z = Y.
Proof.
  intros Hc Hi He Hn. destruct (id_len_exact d i (c :: Z) Hi) as [_ H]. rewrite He, Hn in H.
  specialize (H (id_follow_sep d i c Z Hc)).
  assert (Hw : firstn (length w) (i ++ c :: Z) = firstn (length w) (w ++ Y)) by now rewrite He.
  rewrite firstn_app_exact, H, firstn_app_exact in Hw. subst i. apply app_inv_head in He. now split.
Qed.

Lemma chain_head c segs : segs <> [] -> exists r, chain_text c segs = c :: r.
Proof. destruct segs as [|j segs]; [congruence|]. intros _. rewrite chain_text_cons. eauto. Qed.

Lemma chain_len_pos c segs : segs <> [] -> 0 < length (chain_text c segs).
Proof. intros H. destruct (chain_head c segs H) as (r & ->). cbn. blia. Qed.

(** The chain scanner on [chain ++ Y]: at least the chain; exactly the chain when a foreign separator follows. *)
Lemma seg_ge c (Hc : is_sep c = true) fuel segs Y :
  forallb (id_b d) segs = true -> length (chain_text c segs ++ Y) < fuel ->
  length (chain_text c segs) <= seg_loop fuel au c (chain_text c segs ++ Y).
Proof. intros Hs Hf. now destruct (seg_loop_exact d c Hc segs Y fuel Hs Hf). Qed.

Lemma seg_eq_sep c (Hc : is_sep c = true) fuel segs c' Y :
  forallb (id_b d) segs = true -> length (chain_text c segs ++ c' :: Y) < fuel -> is_sep c' = true -> (c' =? c)%N = false ->
  seg_loop fuel au c (chain_text c segs ++ c' :: Y) = length (chain_text c segs).
Proof.
  intros Hs Hf Hc' Hne. destruct (seg_loop_exact d c Hc segs (c' :: Y) fuel Hs Hf) as [_ H]. apply H.
  - now apply no_seg_other.
  - intros _. now apply id_follow_sep.
Qed.

Lemma longest_shape fuel s x k n m :
  length s < fuel -> shape_ok d fuel s x -> produced d x k n -> n < m -> m <= length s -> lexeme (firstn m s) -> False.
Proof.
  intros Hf Hx Hprod Hm Hle Hlx. pose proof (shape_text d _ _ _ Hx) as Hs.
  destruct Hx as (Hs0 & Hi & Hn1 & Hst & HidsC & HsC & HnoC & HfolC & HidsP & HsP & HnoP & HfolP & Hv & Hvl).
  destruct (firstn_prefix m s) as (tl & Hsm).
  assert (Hlm : length (firstn m s) = m) by (apply firstn_length_le; exact Hle).
  assert (Hn_ge : length (sh_id x) <= n).
  { destruct Hprod as [_ _ _ -> _| -> _ _|_ _ _ ->|_ _ _ ->]; rewrite ?app_length; blia. }
  rewrite Hs0 in Hn1.
  destruct (id_b_first _ Hi) as (c1 & r1 & Hw1 & Hc1).
  inversion Hlx as [H|i segs ver He Hi' Hne Hids Hver|i segs path ver He Hi' Hne Hids Hpne Hpids Hver|H|k' H].
  - (* a longer id *)
    pose proof (id_len_max d s m Hle H) as Hmax. rewrite Hs0, Hn1 in Hmax. blia.
  - (* a longer package name *)
    destruct (chain_head c_colon segs Hne) as (rC & HrC).
    assert (E1 : i ++ c_colon :: (rC ++ ver ++ tl) = sh_id x ++ after_id x).
    { rewrite <- Hs0, Hsm, He, HrC, <- !app_assoc. reflexivity. }
    destruct (id_prefix_unique _ _ _ _ _ is_sep_colon Hi' E1 Hn1) as [-> E2].
    assert (Haft : after_id x = chain_text c_colon segs ++ ver ++ tl) by (rewrite <- E2, HrC; reflexivity).
    assert (Hfa : length (after_id x) < fuel) by (rewrite Hs0, app_length in Hf; blia).
    pose proof (seg_ge c_colon is_sep_colon fuel segs (ver ++ tl) Hids ltac:(rewrite <- Haft; exact Hfa)) as Hge.
    rewrite <- Haft, HsC in Hge. pose proof (chain_len_pos c_colon segs Hne) as Hpos.
    assert (HneC : sh_colon x <> []) by (intros E; rewrite E in Hge; cbn in Hge; blia).
    assert (Hhd : head_is c_minus (after_id x) = false) by (rewrite Haft, HrC; reflexivity).
    assert (Hmlen : m = length (sh_id x) + length (chain_text c_colon segs) + length ver).
    { rewrite <- Hlm, He, !app_length. blia. }
    destruct (vtail_cases _ Hver) as [->|(v & -> & Hsv)].
    + (* without version: shorter than the chain the scanner found *)
      cbn [length] in Hmlen. destruct Hprod as [_ _ _ _ Hh|_ [Hw|Hw] _|_ _ _ ->|_ _ _ ->]; try congruence; rewrite !app_length in Hm; blia.
    + (* with a version: the chains agree, then the versions *)
      assert (HeqC : length (chain_text c_colon (sh_colon x)) = length (chain_text c_colon segs)).
      { rewrite <- HsC, Haft. rewrite Haft in Hfa. cbn [app] in *.
        apply (seg_eq_sep c_colon is_sep_colon fuel segs c_atsign (v ++ tl) Hids Hfa is_sep_at). reflexivity. }
      assert (Hac : after_colon x = c_atsign :: v ++ tl).
      { unfold after_id in Haft. apply (f_equal (skipn (length (chain_text c_colon segs)))) in Haft.
        rewrite <- HeqC in Haft at 1. now rewrite !skipn_app_exact in Haft. }
      destruct Hprod as [_ _ _ _ Hh|_ [Hw|Hw] _|_ HP _ ->|_ HP _ ->]; try congruence.
      * unfold after_colon in Hac. rewrite HP in Hac. cbn [chain_text map concat app] in Hac.
        unfold after_slash in Hvl. rewrite Hac in Hvl.
        destruct (version_tail_exact (c_atsign :: v) tl Hver) as [Hge2 _]. cbn [app] in Hge2. rewrite Hvl in Hge2.
        rewrite !app_length in Hm. cbn [length] in *. blia.
      * destruct (chain_head c_slash (sh_slash x) HP) as (rP & HrP). unfold after_colon in Hac. rewrite HrP in Hac. discriminate.
  - (* a longer package path *)
    destruct (chain_head c_colon segs Hne) as (rC & HrC). destruct (chain_head c_slash path Hpne) as (rP & HrP).
    assert (E1 : i ++ c_colon :: (rC ++ chain_text c_slash path ++ ver ++ tl) = sh_id x ++ after_id x).
    { rewrite <- Hs0, Hsm, He, HrC, <- !app_assoc. reflexivity. }
    destruct (id_prefix_unique _ _ _ _ _ is_sep_colon Hi' E1 Hn1) as [-> E2].
    assert (Haft : after_id x = chain_text c_colon segs ++ chain_text c_slash path ++ ver ++ tl) by (rewrite <- E2, HrC; reflexivity).
    assert (Hfa : length (after_id x) < fuel) by (rewrite Hs0, app_length in Hf; blia).
    assert (HeqC : length (chain_text c_colon (sh_colon x)) = length (chain_text c_colon segs)).
    { rewrite <- HsC, Haft, HrP. rewrite Haft, HrP in Hfa. cbn [app] in *.
      apply (seg_eq_sep c_colon is_sep_colon fuel segs c_slash (rP ++ ver ++ tl) Hids Hfa is_sep_slash). reflexivity. }
    pose proof (chain_len_pos c_colon segs Hne) as Hpos.
    assert (HneC : sh_colon x <> []) by (intros E; rewrite E in HeqC; cbn in HeqC; blia).
    assert (Hhd : head_is c_minus (after_id x) = false) by (rewrite Haft, HrC; reflexivity).
    assert (Hac : after_colon x = chain_text c_slash path ++ ver ++ tl).
    { unfold after_id in Haft. apply (f_equal (skipn (length (chain_text c_colon segs)))) in Haft.
      rewrite <- HeqC in Haft at 1. now rewrite !skipn_app_exact in Haft. }
    assert (Hfc : length (after_colon x) < fuel).
    { unfold after_id in Hfa. rewrite app_length in Hfa. blia. }
    pose proof (seg_ge c_slash is_sep_slash fuel path (ver ++ tl) Hpids ltac:(rewrite <- Hac; exact Hfc)) as Hge.
    rewrite <- Hac, HsP in Hge. pose proof (chain_len_pos c_slash path Hpne) as Hpos2.
    assert (HneP : sh_slash x <> []) by (intros E; rewrite E in Hge; cbn in Hge; blia).
    assert (Hmlen : m = length (sh_id x) + length (chain_text c_colon segs) + length (chain_text c_slash path) + length ver).
    { rewrite <- Hlm, He, !app_length. blia. }
    destruct Hprod as [_ _ _ _ Hh|_ [Hw|Hw] _|_ HP _ ->|_ HP _ ->]; try congruence.
    rewrite !app_length in Hm.
    destruct (vtail_cases _ Hver) as [->|(v & -> & Hsv)]; [cbn [length] in Hmlen; blia|].
    assert (HeqP : length (chain_text c_slash (sh_slash x)) = length (chain_text c_slash path)).
    { rewrite <- HsP, Hac. rewrite Hac in Hfc. cbn [app] in *.
      apply (seg_eq_sep c_slash is_sep_slash fuel path c_atsign (v ++ tl) Hpids Hfc is_sep_at). reflexivity. }
    assert (Has : after_slash x = c_atsign :: v ++ tl).
    { unfold after_colon in Hac. apply (f_equal (skipn (length (chain_text c_slash path)))) in Hac.
      rewrite <- HeqP in Hac at 1. now rewrite !skipn_app_exact in Hac. }
    rewrite Has in Hvl. destruct (version_tail_exact (c_atsign :: v) tl Hver) as [Hge2 _]. cbn [app] in Hge2. rewrite Hvl in Hge2.
    cbn [length] in *. blia.
  - (* a string *)
    destruct (string_b_first _ H) as (r & Hr). rewrite Hr in Hsm. rewrite Hs0, Hw1 in Hsm. cbn [app] in Hsm.
    inversion Hsm; subst c1. discriminate.
  - (* punctuation *)
    destruct (sym_row_facts d _ _ H) as (_ & _ & c0 & r0 & Hc0 & Ha & Hp & _). rewrite Hc0 in Hsm. rewrite Hs0, Hw1 in Hsm. cbn [app] in Hsm.
    inversion Hsm; subst c1. unfold id_start_char in Hc1. now rewrite Ha, Hp in Hc1.
Qed.

(* ------------------------------------------------------------------ lex_longest at scan_token level *)

Theorem scan_token_longest fuel s k n m k' :
  length s < fuel -> scan_token cfg fuel s = ScanTok k n -> n < m -> m <= length s -> rule_class d k' (firstn m s) = false.
Proof.
  intros Hf Hscan Hm Hle. destruct (rule_class d k' (firstn m s)) eqn:E; [|reflexivity]. exfalso.
  apply rule_class_lexeme in E. destruct (id_len au s) as [|n0] eqn:En.
  - rewrite scan_token_unfold in Hscan. destruct s as [|c r]; [discriminate|]. destruct (c =? c_quote)%N eqn:Eq.
    + apply N.eqb_eq in Eq. subst c. destruct (find_char c_quote r) as [j|] eqn:Ef; [|discriminate]. inversion Hscan; subst k n.
      destruct (find_char_spec _ _ _ Ef) as (body & rest0 & -> & <- & Hb). eapply longest_string; eauto.
    + cbn [allow_upper cfg_with symbols] in Hscan. rewrite En in Hscan.
      destruct (best_symbol (symbols base) (c :: r)) as [[k1 n1]|] eqn:Eb; [|discriminate]. inversion Hscan; subst k1 n1.
      eapply (longest_symbol (c :: r)); eauto. intros r' Hr'. inversion Hr'; subst c. discriminate.
  - destruct (scan_token_shape_eq d base Htab fuel s Hf) as (x & Hx & Hres); [congruence|]. rewrite Hres in Hscan.
    apply scan_result_produced in Hscan. eapply longest_shape; eauto.
Qed.

End Longest.
