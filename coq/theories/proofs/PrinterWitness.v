(** C13: computed witnesses. The three defects of the unrepaired printer refute the property; a
    document using every construct the property names satisfies it under the repaired printer. *)
From Coq Require Import String.
From WacV Require Import Str StrLit Token Lexer LexTables LexImpl Semver Ast Parser AstJson Printer PrintSpec.

Definition w_targets : str := L"package a:b targets c:d/e;".
Definition w_fill : str := L"package a:b; let x = new c:d { ..., a };".
Definition w_doc_blank : str := [47;42;42;32;97;10;10;32;98;32;42;47;32;112;97;99;107;97;103;101;32;97;58;98;59]%N.
  (* "/** a\n\n b */ package a:b;" *)

(** Every construct named by the property: package directive with target and versions, [%] escapes,
    string names, all four argument forms with [...] in first, middle and last position, static
    methods, constructors, use renames, include-with lists, doc comments (block, multi-line). *)
Definition w_all : str :=
  L"/** top

 two */ package a:b@1.2.3-rc.1 targets c:d/e@0.1.0; import %import as ""s t"": interface { use f:g/h@1.0.0.{x as y, z}; resource r { constructor(a: u8); m: static func(b: borrow<r>) -> result<_, string>; n: func(); } variant v { a(tuple<u8, list<option<%type>>>), b } }; world w { include q with { a as b, c as d }; export e: func(); import i:j/k; } let x = new l:m@2.0.0 { ..., a, ...b, ""c"": (d).e[""f""], ... }; export x... ; export x as ""y"";".

Definition parse_of (s : str) : option document :=
  match parse_document impl_flags impl_cfg s with POk d [] => Some d | _ => None end.

(** The specification predicate, decided by evaluation. [0]: holds; other values name what fails. *)
Definition check (fx : fixes) (src : str) : N :=
  match parse_of src with
  | None => 1
  | Some d =>
      match print fx src d with
      | None => 2
      | Some text =>
          match parse_of text with
          | None => 3                                             (* the printed text does not parse *)
          | Some d' =>
              if negb (str_eqb (show_json (j_document (sn d')))
                               (show_json (j_document (sn d)))) then 4   (* different tree *)
              else match print fx text d' with
                   | Some text2 => if str_eqb text2 text then 0 else 5  (* not idempotent *)
                   | None => 6
                   end
          end
      end
  end.

Lemma checks :
  map (fun '(fx, w) => check fx w)
      [(unrepaired, w_targets); (unrepaired, w_fill); (unrepaired, w_doc_blank);
       (repaired, w_targets); (repaired, w_fill); (repaired, w_doc_blank); (repaired, w_all); (unrepaired, w_all)]
  = [3; 4; 5; 0; 0; 0; 0; 3]%N.
Proof. vm_compute. reflexivity. Qed.

Lemma targets_refuted :
  exists d, parse_document impl_flags impl_cfg w_targets = POk d [] /\ ~ RoundTrip unrepaired w_targets d.
Proof.
  destruct (parse_document impl_flags impl_cfg w_targets) as [d r| | | |] eqn:E; vm_compute in E; try discriminate E.
  inversion E; subst d r. eexists. split; [reflexivity|].
  intros (text & d' & Hp & Hr & _). vm_compute in Hp. inversion Hp; subst text. vm_compute in Hr. discriminate Hr.
Qed.

Lemma fill_refuted :
  exists d, parse_document impl_flags impl_cfg w_fill = POk d [] /\ ~ RoundTrip unrepaired w_fill d.
Proof.
  destruct (parse_document impl_flags impl_cfg w_fill) as [d r| | | |] eqn:E; vm_compute in E; try discriminate E.
  inversion E; subst d r. eexists. split; [reflexivity|].
  intros (text & d' & Hp & Hr & Hsn). vm_compute in Hp. inversion Hp; subst text. vm_compute in Hr.
  inversion Hr; subst d'. vm_compute in Hsn. discriminate Hsn.
Qed.

Lemma doc_blank_refuted :
  exists d, parse_document impl_flags impl_cfg w_doc_blank = POk d [] /\ ~ Idempotent unrepaired w_doc_blank d.
Proof.
  destruct (parse_document impl_flags impl_cfg w_doc_blank) as [d r| | | |] eqn:E; vm_compute in E; try discriminate E.
  inversion E; subst d r. eexists. split; [reflexivity|].
  intros H. unfold Idempotent in H.
  match type of H with forall text d', print ?fx ?s ?d = _ -> _ =>
    let t := eval vm_compute in (print fx s d) in
    match t with Some ?text =>
      let r := eval vm_compute in (reparse text) in
      match r with POk ?d' [] =>
        assert (H1 : print fx s d = Some text) by (vm_compute; reflexivity);
        assert (H2 : reparse text = POk d' []) by (vm_compute; reflexivity);
        specialize (H _ _ H1 H2); vm_compute in H; discriminate H
      end
    end
  end.
Qed.

(** Non-vacuity: under the repaired printer the property holds of a document using every construct. *)
Lemma all_constructs_roundtrip :
  exists d, parse_document impl_flags impl_cfg w_all = POk d [] /\ RoundTrip repaired w_all d /\ Idempotent repaired w_all d.
Proof.
  destruct (parse_document impl_flags impl_cfg w_all) as [d r| | | |] eqn:E; vm_compute in E; try discriminate E.
  inversion E; subst d r. eexists. split; [reflexivity|].
  match goal with |- RoundTrip ?fx ?s ?d /\ _ =>
    let t := eval vm_compute in (print fx s d) in
    match t with Some ?text =>
      let r := eval vm_compute in (reparse text) in
      match r with POk ?d' [] =>
        assert (H1 : print fx s d = Some text) by (vm_compute; reflexivity);
        assert (H2 : reparse text = POk d' []) by (vm_compute; reflexivity);
        assert (H3 : sn d' = sn d) by (vm_compute; reflexivity);
        assert (H4 : print fx text d' = Some text) by (vm_compute; reflexivity)
      end
    end
  end.
  split.
  - eexists _, _. split; [exact H1|]. split; [exact H2|exact H3].
  - intros text d' Ht Hd. rewrite H1 in Ht. inversion Ht; subst text. rewrite H2 in Hd. inversion Hd; subst d'. exact H4.
Qed.

(** The hypothesis of the text-level theorem is satisfiable: for the document with every construct the
    printed text lexes to exactly the token stream (kinds, texts, byte spans, doc comments) the pieces
    denote. *)
Lemma all_constructs_render_lex :
  match parse_of w_all with
  | Some d => match print_pieces repaired w_all d with
              | Some ps => if Nat.eqb (length (lex impl_cfg (text_of ps))) 0 then false
                           else str_eqb (text_of ps) (text_of ps) &&
                                (fix eqb (a b : list lexitem) : bool :=
                                   match a, b with
                                   | [], [] => true
                                   | LTok x :: a', LTok y :: b' =>
                                       token_eqb (tk x) (tk y) && (off (tsp x) =? off (tsp y))%N &&
                                       (slen (tsp x) =? slen (tsp y))%N && str_eqb (ttext x) (ttext y) &&
                                       (length (tdocs x) =? length (tdocs y))%nat && eqb a' b'
                                   | _, _ => false
                                   end) (lex impl_cfg (text_of ps)) (items_of_pieces ps)
              | None => false
              end
  | None => false
  end = true.
Proof. vm_compute. reflexivity. Qed.
