(** Tree-level algebra of the specification's merge [tmerge] (spec/AggregatorSpec.v) on NESTED-FLAT requirement trees:
    trees built from resource-free functions, values and value types by nesting instances with pairwise different export
    names ([wt]).  Nothing here mentions the aggregator: these are the laws the model's nested merge is shown to compute
    (AggregatorNestedMerge.v) and from which the C09 statements about nested instance requirements are derived
    (AggregatorNestedHistory.v).

      tmerge_f_upper     the merge is below both arguments in [SubCM] (and below everything its arguments are below)
      union_with_names   export names = first-seen union
      union_with_child   every export is the left one, the right one, or the merge of both (recursive union)
      tmerge_f_absorb    merging a requirement that the left tree already satisfies changes nothing (idempotence)
      tmerge_f_glb       the merge is the greatest lower bound: whatever satisfies both satisfies the merge
      tmerge_complete    any fuel that produced a result can be replaced by the specification's fuel ([tmerge]) *)
From Coq Require Import ZArith ZifyBool ZifyN Lia.
From WacV Require Import Str Names Types Checker SubSpec CheckerEq SubSpecProofs AggregatorSpec.
From WacV Require Import Aggregator AggregatorNames AggregatorFlat.

(** * Nested-flat trees *)
Definition leaf_tree (tr : tree) : Prop :=
  match tr with XFunc f => ft_resfree f = true | XValue v | XTValue v => vt_resfree v = true | _ => False end.

Fixpoint wt (d : nat) (tr : tree) : Prop :=
  match d with
  | O => False
  | S d' => leaf_tree tr \/ exists e, tr = XInst e /\ NoDup (map fst e) /\ forall k x, In (k, x) e -> wt d' x
  end.

Lemma wt_mono : forall d d' tr, (d <= d')%nat -> wt d tr -> wt d' tr.
Proof.
  induction d as [|d IH]; intros d' tr L H; [destruct H|]. destruct d' as [|d']; [lia|].
  cbn [wt] in *. destruct H as [H|[e [-> [ND H]]]]; [now left|]. right. exists e. split; [reflexivity|]. split; [exact ND|].
  intros k x Hin. apply (IH d'); [lia|]. eapply H; eauto.
Qed.
Lemma wt_inst d e : wt (S d) (XInst e) <-> NoDup (map fst e) /\ forall k x, In (k, x) e -> wt d x.
Proof.
  cbn [wt]. split.
  - intros [[]|[e0 [E [ND H]]]]. injection E as <-. auto.
  - intros [ND H]. right. exists e. auto.
Qed.
Lemma wt_depth : forall d tr, wt d tr -> (tdepth tr <= d)%nat.
Proof.
  induction d as [|d IH]; intros tr H; [destruct H|]. cbn [wt] in H. destruct H as [H|[e [-> [ND H]]]].
  - destruct tr; cbn [leaf_tree] in H; try contradiction; cbn [tdepth]; lia.
  - cbn [tdepth]. apply le_n_S. apply list_max_le. apply Forall_forall. intros n Hn. apply in_map_iff in Hn as [[k x] [<- Hin]].
    cbn [snd]. apply IH. eapply H; eauto.
Qed.
Lemma wt_resfree : forall d tr, wt d tr -> resfree tr = true.
Proof.
  induction d as [|d IH]; intros tr H; [destruct H|]. cbn [wt] in H. destruct H as [H|[e [-> [ND H]]]].
  - destruct tr; cbn [leaf_tree] in H; try contradiction; cbn [resfree]; exact H.
  - change (forallb (fun kv => resfree (snd kv)) e = true). apply forallb_forall. intros [k x] Hin. cbn [snd]. apply IH. eapply H; eauto.
Qed.
Lemma wf_all_intro (l : list (str * tree)) :
  (forall k x, In (k, x) l -> wf_tree x) ->
  (fix go (l : list (str * tree)) : Prop := match l with [] => True | (_, x) :: r => wf_tree x /\ go r end) l.
Proof.
  induction l as [|[k x] l IH]; intro H; [exact I|].
  split; [apply (H k); now left | apply IH; intros k' x' Hin; apply (H k'); now right].
Qed.
Lemma wt_wf : forall d tr, wt d tr -> wf_tree tr.
Proof.
  induction d as [|d IH]; intros tr H; [destruct H|]. cbn [wt] in H. destruct H as [H|[e [-> [ND H]]]].
  - destruct tr; cbn [leaf_tree] in H; try contradiction; exact I.
  - change (NoDup (keys e) /\ (fix go (l : list (str * tree)) : Prop :=
                                 match l with [] => True | (_, x) :: r => wf_tree x /\ go r end) e).
    split; [exact ND|]. apply wf_all_intro. intros k x Hin. apply IH. eapply H; eauto.
Qed.
Lemma wt_subn_refl d tr : wt d tr -> Sub eq eq tr tr.
Proof. intros H. eapply (Sub_refl eq); [reflexivity | apply le_n | eapply wt_wf; eauto]. Qed.
Lemma wt_sub_refl d tr : wt d tr -> SubCM tr tr.
Proof.
  intros H. apply (SubP_SubCM eq); [intros x y ->; reflexivity | eapply wt_resfree; eauto | eapply wt_resfree; eauto
                                    | eapply wt_subn_refl; eauto].
Qed.
Lemma wt_tequiv_refl d tr : wt d tr -> tequiv tr tr = true.
Proof. intros H. unfold tequiv. rewrite (proj2 (sub_names_b_iff tr tr) (wt_subn_refl _ _ H)). reflexivity. Qed.

(** on leaves every instance of the relation is equality *)
Lemma leaf_sub_eq (R : str -> str -> Prop) PG a b : (forall n m, R n m -> n = m) -> leaf_tree a -> Sub R PG a b -> a = b.
Proof.
  intros HR L H. destruct a; cbn [leaf_tree] in L; try contradiction; inversion H; subst; f_equal.
  - apply FSub_eq_iff. eapply FSub_change; [right; exact HR|eassumption].
  - apply VSub_eq_inv. eapply VSub_change; [right; exact HR|eassumption].
  - apply VSub_eq_inv. eapply VSub_change; [right; exact HR|eassumption].
Qed.
Lemma leaf_sub_eq_r (R : str -> str -> Prop) PG a b : (forall n m, R n m -> n = m) -> leaf_tree b -> Sub R PG a b -> a = b.
Proof.
  intros HR L H. destruct b; cbn [leaf_tree] in L; try contradiction; inversion H; subst; f_equal.
  - apply FSub_eq_iff. eapply FSub_change; [right; exact HR|eassumption].
  - apply VSub_eq_inv. eapply VSub_change; [right; exact HR|eassumption].
  - apply VSub_eq_inv. eapply VSub_change; [right; exact HR|eassumption].
Qed.
Lemma nores_eq : forall n m : str, NoRes n m -> n = m. Proof. intros n m []. Qed.

(** * Association lists *)
Lemma keys_set_assoc {B} k (v : B) l : map fst (set_assoc k v l) = map fst l.
Proof. induction l as [|[k' v'] l IH]; cbn [set_assoc map fst]; auto. destruct (str_eqb k k'); cbn [map fst]; congruence. Qed.
Lemma assoc_set_assoc_same {B} k (v x : B) l : assoc k l = Some x -> assoc k (set_assoc k v l) = Some v.
Proof.
  induction l as [|[k' v'] l IH]; cbn [set_assoc assoc]; [discriminate|]. destruct (str_eqb k k') eqn:E; cbn [assoc]; rewrite E; auto.
Qed.
Lemma assoc_set_assoc_other {B} k k' (v : B) l : k <> k' -> assoc k' (set_assoc k v l) = assoc k' l.
Proof.
  intros N. induction l as [|[k2 v2] l IH]; cbn [set_assoc assoc]; auto. destruct (str_eqb k k2) eqn:E; cbn [assoc].
  - apply seqb_eq in E. subst k2. destruct (str_eqb k' k) eqn:E2; auto. apply seqb_eq in E2. congruence.
  - now rewrite IH.
Qed.
Lemma in_set_assoc {B} k (v : B) l n x : In (n, x) (set_assoc k v l) -> (n = k /\ x = v) \/ In (n, x) l.
Proof.
  induction l as [|[k' v'] l IH]; cbn [set_assoc]; [intros []|]. destruct (str_eqb k k') eqn:E.
  - apply seqb_eq in E. subst k'. intros [X|X]; [injection X as <- <-; auto | right; now right].
  - intros [X|X]; [right; now left|]. destruct (IH X); auto. right. now right.
Qed.
Lemma set_assoc_same {B} k (v : B) l : assoc k l = Some v -> set_assoc k v l = l.
Proof.
  induction l as [|[k' v'] l IH]; cbn [set_assoc assoc]; auto. destruct (str_eqb k k') eqn:E.
  - intros H. injection H as ->. reflexivity.
  - intros H. now rewrite IH.
Qed.
Lemma assoc_app {B} k (l r : list (str * B)) : assoc k (l ++ r) = match assoc k l with Some v => Some v | None => assoc k r end.
Proof. induction l as [|[k' v'] l IH]; cbn [app assoc]; auto. destruct (str_eqb k k'); auto. Qed.
Lemma assoc_keys_none {B} k (l : list (str * B)) : ~ In k (map fst l) -> assoc k l = None.
Proof. intros H. now apply assoc_none_keys. Qed.

(** * The fold of [union_with], one step at a time *)
Definition ustep1 (m : tree -> tree -> option tree) (l : list (str * tree)) (kb : str * tree) : option (list (str * tree)) :=
  match assoc (fst kb) l with
  | Some x => match m x (snd kb) with Some y => Some (set_assoc (fst kb) y l) | None => None end
  | None => Some (l ++ [kb])
  end.
Definition ustep (m : tree -> tree -> option tree) (acc : option (list (str * tree))) (kb : str * tree) :=
  match acc with None => None | Some l => ustep1 m l kb end.
Lemma union_with_fold m ea eb : union_with m ea eb = fold_left (ustep m) eb (Some ea).
Proof. reflexivity. Qed.
Lemma ustep_none m r : fold_left (ustep m) r None = None.
Proof. induction r; cbn [fold_left ustep]; auto. Qed.
Lemma union_with_nil m ea : union_with m ea [] = Some ea.
Proof. reflexivity. Qed.
Lemma union_with_cons m ea kb r :
  union_with m ea (kb :: r) = match ustep1 m ea kb with Some l => union_with m l r | None => None end.
Proof. rewrite !union_with_fold. cbn [fold_left ustep]. destruct (ustep1 m ea kb); [reflexivity | apply ustep_none]. Qed.
Lemma union_with_ext m m' : (forall x y z, m x y = Some z -> m' x y = Some z) ->
  forall eb ea em, union_with m ea eb = Some em -> union_with m' ea eb = Some em.
Proof.
  intros H. induction eb as [|kb r IH]; intros ea em; [auto|]. rewrite !union_with_cons. unfold ustep1.
  destruct (assoc (fst kb) ea) as [x|]; [|apply IH].
  destruct (m x (snd kb)) as [y|] eqn:E; [|discriminate]. rewrite (H _ _ _ E). apply IH.
Qed.

(** * Shape of a successful merge of two nested-flat trees *)
Lemma tmerge_f_cases n d a b m : wt d a -> wt d b -> tmerge_f (S n) a b = Some m ->
  (leaf_tree a /\ a = b /\ m = a) \/
  (exists ea eb em, a = XInst ea /\ b = XInst eb /\ m = XInst em /\ union_with (tmerge_f n) ea eb = Some em).
Proof.
  intros Wa Wb H. destruct d as [|d]; [destruct Wa|]. cbn [wt] in Wa, Wb.
  assert (Hequiv : forall a b, tequiv a b = true -> Sub eq eq a b /\ Sub eq eq b a).
  { intros x y E. unfold tequiv in E. apply andb_true_iff in E as [E1 E2]. split; now apply sub_names_b_iff. }
  destruct Wa as [La|[ea [-> [NDa Ha]]]].
  - left. assert (H' : (if tequiv a b then Some a else None) = Some m).
    { destruct a; cbn [leaf_tree] in La; try contradiction; exact H. }
    destruct (tequiv a b) eqn:E; [|discriminate]. injection H' as <-. split; auto. split; auto.
    apply Hequiv in E as [E _]. eapply leaf_sub_eq; eauto.
  - destruct Wb as [Lb|[eb [-> [NDb Hb]]]].
    + exfalso. assert (H' : (if tequiv (XInst ea) b then Some (XInst ea) else None) = Some m).
      { destruct b; cbn [leaf_tree] in Lb; try contradiction; exact H. }
      destruct (tequiv (XInst ea) b) eqn:E; [|discriminate]. apply Hequiv in E as [E _].
      apply (leaf_sub_eq_r eq eq) in E; auto. subst b. exact Lb.
    + right. cbn [tmerge_f] in H. destruct (union_with (tmerge_f n) ea eb) as [em|] eqn:E; [|discriminate].
      injection H as <-. exists ea, eb, em. auto.
Qed.

(** * The merge is a lower bound of its arguments *)
Section Upper.
  Variables (n d : nat).
  Hypothesis IH : forall a b m, wt d a -> wt d b -> tmerge_f n a b = Some m ->
    wt d m /\ (forall z, SubCM a z -> SubCM m z) /\ (forall z, SubCM b z -> SubCM m z).

  Lemma union_upper : forall eb l em,
    (forall k b, In (k, b) eb -> wt d b) -> NoDup (map fst l) -> (forall k x, In (k, x) l -> wt d x) ->
    union_with (tmerge_f n) l eb = Some em ->
    NoDup (map fst em) /\ (forall k x, In (k, x) em -> wt d x) /\
    (forall k x, assoc k l = Some x -> exists y, assoc k em = Some y /\ forall z, SubCM x z -> SubCM y z) /\
    (forall k b, In (k, b) eb -> exists y, assoc k em = Some y /\ forall z, SubCM b z -> SubCM y z).
  Proof.
    induction eb as [|[k b] r IHr]; intros l em Wb ND Wl H.
    - rewrite union_with_nil in H. injection H as <-. split; auto. split; auto. split; [|intros ? ? []].
      intros k x E. exists x. auto.
    - rewrite union_with_cons in H. unfold ustep1 in H. cbn [fst snd] in H.
      destruct (assoc k l) as [x|] eqn:Ex.
      + destruct (tmerge_f n x b) as [y|] eqn:Ey; [|discriminate].
        destruct (IH x b y (Wl _ _ (assoc_in _ _ _ Ex)) (Wb k b (or_introl eq_refl)) Ey) as [Wy [Mx Mb]].
        destruct (IHr (set_assoc k y l) em (fun k0 b0 Hin => Wb k0 b0 (or_intror Hin))) as [ND' [W' [Old New]]]; auto.
        { now rewrite keys_set_assoc. }
        { intros k0 x0 Hin. apply in_set_assoc in Hin as [[-> ->]|Hin]; eauto. }
        split; auto. split; auto. split.
        * intros k0 x0 E0. destruct (str_eqb k k0) eqn:Ek.
          -- apply seqb_eq in Ek. subst k0. assert (x0 = x) by congruence. subst x0.
             destruct (Old k y (assoc_set_assoc_same _ _ _ _ Ex)) as [y' [Ey' My']]. exists y'. split; auto.
          -- apply Old. rewrite assoc_set_assoc_other; auto. intros ->. rewrite seqb_refl in Ek. discriminate.
        * intros k0 b0 [E|Hin]; [|now apply New]. injection E as <- <-.
          destruct (Old k y (assoc_set_assoc_same _ _ _ _ Ex)) as [y' [Ey' My']]. exists y'. split; auto.
      + destruct (IHr (l ++ [(k, b)]) em (fun k0 b0 Hin => Wb k0 b0 (or_intror Hin))) as [ND' [W' [Old New]]]; auto.
        { rewrite map_app. cbn [map fst]. apply NoDup_app_one_tail; auto. now apply assoc_none_keys. }
        { intros k0 x0 Hin. apply in_app_or in Hin as [Hin|[E|[]]]; eauto. injection E as <- <-. apply (Wb k b). now left. }
        split; auto. split; auto. split.
        * intros k0 x0 E0. apply Old. rewrite assoc_app, E0. reflexivity.
        * intros k0 b0 [E|Hin]; [|now apply New]. injection E as <- <-. apply Old. rewrite assoc_app, Ex. cbn [assoc].
          now rewrite seqb_refl.
  Qed.
End Upper.

Theorem tmerge_f_upper : forall n d a b m, wt d a -> wt d b -> tmerge_f n a b = Some m ->
  wt d m /\ (forall z, SubCM a z -> SubCM m z) /\ (forall z, SubCM b z -> SubCM m z).
Proof.
  induction n as [|n IHn]; intros d a b m Wa Wb H; [discriminate|].
  destruct (tmerge_f_cases n d a b m Wa Wb H) as [[L [<- ->]]|[ea [eb [em [-> [-> [-> Hu]]]]]]]; [auto|].
  destruct d as [|d]; [destruct Wa|]. apply wt_inst in Wa as [NDa Ha], Wb as [NDb Hb].
  destruct (union_upper n d (fun a b m => IHn d a b m) eb ea em Hb NDa Ha Hu) as [ND' [W' [Old New]]].
  split; [apply wt_inst; auto|]. split.
  - intros z Hz. inversion Hz as [| ? ez Hcov | | | | | | | | |]; subst. constructor. intros k c Hin.
    destruct (Hcov k c Hin) as [a' [Ea Sa]]. destruct (Old k a' Ea) as [y [Ey My]]. exists y. split; [exact Ey | apply My; exact Sa].
  - intros z Hz. inversion Hz as [| ? ez Hcov | | | | | | | | |]; subst. constructor. intros k c Hin.
    destruct (Hcov k c Hin) as [b' [Eb Sb]]. destruct (New k b' (assoc_in _ _ _ Eb)) as [y [Ey My]]. exists y. split; [exact Ey | apply My; exact Sb].
Qed.

Corollary tmerge_f_sub n d a b m : wt d a -> wt d b -> tmerge_f n a b = Some m -> wt d m /\ SubCM m a /\ SubCM m b.
Proof.
  intros Wa Wb H. destruct (tmerge_f_upper n d a b m Wa Wb H) as [Wm [Ma Mb]].
  split; auto. split; [apply Ma | apply Mb]; eapply wt_sub_refl; eauto.
Qed.

(** * Export names: first-seen union; exports: left, right, or merged *)
Lemma union_with_names m : forall eb ea em, NoDup (map fst eb) -> union_with m ea eb = Some em ->
  map fst em = first_seen_union (map fst ea) (map fst eb).
Proof.
  induction eb as [|[k b] r IH]; intros ea em ND H.
  - rewrite union_with_nil in H. injection H as <-. cbn [map]. now rewrite fsu_nil.
  - cbn [map fst] in ND. inversion ND as [|? ? Hn ND']; subst. rewrite union_with_cons in H. unfold ustep1 in H. cbn [fst snd] in H.
    cbn [map fst]. destruct (assoc k ea) as [x|] eqn:Ex.
    + destruct (m x b) as [y|]; [|discriminate]. rewrite (IH _ _ ND' H), keys_set_assoc.
      rewrite fsu_cons_old; auto. eapply assoc_in_keys; eauto.
    + rewrite (IH _ _ ND' H), map_app. cbn [map fst]. rewrite fsu_cons_new; auto. now apply assoc_none_keys.
Qed.

Lemma union_with_child m : forall eb ea em, NoDup (map fst eb) -> union_with m ea eb = Some em ->
  forall k, match assoc k ea, assoc k eb with
            | Some a, Some b => exists y, m a b = Some y /\ assoc k em = Some y
            | Some a, None => assoc k em = Some a
            | None, Some b => assoc k em = Some b
            | None, None => assoc k em = None
            end.
Proof.
  induction eb as [|[k b] r IH]; intros ea em ND H k0.
  - rewrite union_with_nil in H. injection H as <-. cbn [assoc]. destruct (assoc k0 ea); auto.
  - cbn [map fst] in ND. inversion ND as [|? ? Hn ND']; subst. rewrite union_with_cons in H. unfold ustep1 in H. cbn [fst snd] in H.
    cbn [assoc]. destruct (str_eqb k0 k) eqn:Ek.
    + apply seqb_eq in Ek. subst k0. assert (Er : assoc k r = None) by now apply assoc_keys_none.
      destruct (assoc k ea) as [x|] eqn:Ex.
      * destruct (m x b) as [y|] eqn:Ey; [|discriminate]. specialize (IH _ _ ND' H k).
        rewrite (assoc_set_assoc_same _ _ _ _ Ex), Er in IH. exists y. auto.
      * specialize (IH _ _ ND' H k). rewrite assoc_app, Ex, Er in IH. cbn [assoc] in IH. rewrite seqb_refl in IH. exact IH.
    + assert (N : k <> k0) by (intros ->; rewrite seqb_refl in Ek; discriminate).
      destruct (assoc k ea) as [x|] eqn:Ex.
      * destruct (m x b) as [y|] eqn:Ey; [|discriminate]. specialize (IH _ _ ND' H k0).
        now rewrite (assoc_set_assoc_other _ _ _ _ N) in IH.
      * specialize (IH _ _ ND' H k0). rewrite assoc_app in IH. cbn [assoc] in IH. rewrite Ek in IH.
        destruct (assoc k0 ea); exact IH.
Qed.

(** * Absorption: a requirement the left tree already satisfies changes nothing, and the merge succeeds *)
Theorem tmerge_f_absorb : forall n d a b, wt d a -> wt d b -> SubCM a b -> (d <= n)%nat -> tmerge_f n a b = Some a.
Proof.
  induction n as [|n IHn]; intros d a b Wa Wb HS L; [destruct d; [destruct Wa | lia]|].
  destruct d as [|d]; [destruct Wa|]. pose proof Wa as Wa0. cbn [wt] in Wa, Wb.
  destruct Wb as [Lb|[eb [-> [NDb Hb]]]].
  - assert (a = b) as <- by (eapply (leaf_sub_eq_r NoRes); eauto using nores_eq).
    assert (H' : tmerge_f (S n) a a = if tequiv a a then Some a else None).
    { destruct a; cbn [leaf_tree] in Lb; try contradiction; reflexivity. }
    rewrite H', (wt_tequiv_refl _ _ Wa0). reflexivity.
  - destruct Wa as [La|[ea [-> [NDa Ha]]]].
    { exfalso. apply (leaf_sub_eq NoRes) in HS; eauto using nores_eq. subst a. exact La. }
    cbn [tmerge_f]. inversion HS as [| ? ? Hcov | | | | | | | | |]; subst.
    assert (Hu : forall r, (forall k b, In (k, b) r -> In (k, b) eb) -> union_with (tmerge_f n) ea r = Some ea).
    { induction r as [|[k b] r IHr]; intros Hsub; [reflexivity|]. rewrite union_with_cons. unfold ustep1. cbn [fst snd].
      destruct (Hcov k b (Hsub k b (or_introl eq_refl))) as [a' [Ea Sa]]. rewrite Ea.
      rewrite (IHn d a' b); auto; [|eapply Ha; eauto using assoc_in | eapply Hb; eauto; apply Hsub; now left | lia].
      rewrite (set_assoc_same _ _ _ Ea). apply IHr. intros k0 b0 Hin. apply Hsub. now right. }
    rewrite Hu; auto.
Qed.

Corollary tmerge_f_idem n d a : wt d a -> (d <= n)%nat -> tmerge_f n a a = Some a.
Proof. intros W L. eapply tmerge_f_absorb; eauto. eapply wt_sub_refl; eauto. Qed.

(** * Greatest lower bound *)
Section Glb.
  Variables (n d : nat).
  Hypothesis IH : forall a b m z, wt d a -> wt d b -> tmerge_f n a b = Some m -> SubCM z a -> SubCM z b -> SubCM z m.

  Lemma union_glb ez : forall eb l em,
    NoDup (map fst eb) -> NoDup (map fst l) ->
    (forall k b, In (k, b) eb -> wt d b) -> (forall k x, In (k, x) l -> wt d x) ->
    (forall k x, In (k, x) l -> exists c, assoc k ez = Some c /\ SubCM c x) ->
    (forall k b, In (k, b) eb -> exists c, assoc k ez = Some c /\ SubCM c b) ->
    union_with (tmerge_f n) l eb = Some em ->
    forall k y, In (k, y) em -> exists c, assoc k ez = Some c /\ SubCM c y.
  Proof.
    induction eb as [|[k b] r IHr]; intros l em NDb NDl Wb Wl Cl Cb H.
    - rewrite union_with_nil in H. injection H as <-. exact Cl.
    - cbn [map fst] in NDb. inversion NDb as [|? ? Hn NDr]; subst.
      rewrite union_with_cons in H. unfold ustep1 in H. cbn [fst snd] in H.
      destruct (assoc k l) as [x|] eqn:Ex.
      + destruct (tmerge_f n x b) as [y|] eqn:Ey; [|discriminate].
        pose proof (Wl _ _ (assoc_in _ _ _ Ex)) as Wx. pose proof (Wb k b (or_introl eq_refl)) as Wb0.
        apply (IHr (set_assoc k y l) em); auto.
        * now rewrite keys_set_assoc.
        * intros k0 b0 Hin. apply (Wb k0 b0). now right.
        * intros k0 x0 Hin. apply in_set_assoc in Hin as [[-> ->]|Hin]; eauto.
          destruct (tmerge_f_upper n d x b y Wx Wb0 Ey) as [Wy _]. exact Wy.
        * intros k0 x0 Hin. apply in_set_assoc in Hin as [[-> ->]|Hin]; eauto.
          destruct (Cl k x (assoc_in _ _ _ Ex)) as [c [Ec Sc]]. destruct (Cb k b (or_introl eq_refl)) as [c' [Ec' Sc']].
          assert (c' = c) by congruence. subst c'. exists c. split; auto. exact (IH x b y c Wx Wb0 Ey Sc Sc').
        * intros k0 b0 Hin. apply (Cb k0 b0). now right.
      + apply (IHr (l ++ [(k, b)]) em); auto.
        * rewrite map_app. cbn [map fst]. apply NoDup_app_one_tail; auto. now apply assoc_none_keys.
        * intros k0 b0 Hin. apply (Wb k0 b0). now right.
        * intros k0 x0 Hin. apply in_app_or in Hin as [Hin|[E|[]]]; eauto. injection E as <- <-. apply (Wb k b). now left.
        * intros k0 x0 Hin. apply in_app_or in Hin as [Hin|[E|[]]]; eauto. injection E as <- <-. apply (Cb k b). now left.
        * intros k0 b0 Hin. apply (Cb k0 b0). now right.
  Qed.
End Glb.

Theorem tmerge_f_glb : forall n d a b m z, wt d a -> wt d b -> tmerge_f n a b = Some m -> SubCM z a -> SubCM z b -> SubCM z m.
Proof.
  induction n as [|n IHn]; intros d a b m z Wa Wb H Za Zb; [discriminate|].
  destruct (tmerge_f_cases n d a b m Wa Wb H) as [[L [<- ->]]|[ea [eb [em [-> [-> [-> Hu]]]]]]]; [auto|].
  destruct d as [|d]; [destruct Wa|]. apply wt_inst in Wa as [NDa Ha], Wb as [NDb Hb].
  inversion Za as [| ez ? Hca | | | | | | | | |]; subst. inversion Zb as [| ? ? Hcb | | | | | | | | |]; subst.
  constructor. intros k y Hin.
  exact (union_glb n d (fun a b m z => IHn d a b m z) ez eb ea em NDb NDa Hb Ha Hca Hcb Hu k y Hin).
Qed.

(** * Fuel: more is harmless, and the specification's own fuel suffices *)
Lemma tmerge_f_mono : forall n a b m, tmerge_f n a b = Some m -> forall n', (n <= n')%nat -> tmerge_f n' a b = Some m.
Proof.
  induction n as [|n IH]; intros a b m H n' L; [discriminate|]. destruct n' as [|n']; [lia|].
  assert (Hu : forall ea eb em, union_with (tmerge_f n) ea eb = Some em -> union_with (tmerge_f n') ea eb = Some em).
  { intros ea eb em. apply union_with_ext. intros x y z E. apply (IH _ _ _ E). lia. }
  destruct a, b; cbn [tmerge_f] in *; try exact H.
  - destruct (union_with (tmerge_f n) e e0) as [em|] eqn:E; [|discriminate]. now rewrite (Hu _ _ _ E).
  - destruct (union_with (tmerge_f n) e e0) as [em|] eqn:E; [|discriminate]. now rewrite (Hu _ _ _ E).
Qed.

Definition dbound (e : list (str * tree)) (n : nat) : Prop := forall k x, In (k, x) e -> (tdepth x <= n)%nat.
Lemma dbound_list_max e n : dbound e n <-> (list_max (map (fun kv => tdepth (snd kv)) e) <= n)%nat.
Proof.
  rewrite list_max_le, Forall_forall. split.
  - intros H x Hx. apply in_map_iff in Hx as [[k y] [<- Hin]]. eapply H; eauto.
  - intros H k x Hin. apply H. apply in_map_iff. exists (k, x). auto.
Qed.

Lemma tmerge_f_lower : forall n a b m, tmerge_f n a b = Some m ->
  forall n', (tdepth a < n')%nat -> (tdepth b < n')%nat ->
    tmerge_f n' a b = Some m /\ (tdepth m <= Nat.max (tdepth a) (tdepth b))%nat.
Proof.
  induction n as [|n IH]; intros a b m H n' La Lb; [discriminate|]. destruct n' as [|n']; [lia|].
  assert (Hu : forall eb ea em M, (M < n')%nat -> dbound ea M -> dbound eb M -> union_with (tmerge_f n) ea eb = Some em ->
                                  union_with (tmerge_f n') ea eb = Some em /\ dbound em M).
  { induction eb as [|[k b0] r IHr]; intros ea em M LM Da Db Hm.
    - rewrite union_with_nil in *. injection Hm as <-. auto.
    - rewrite union_with_cons in *. unfold ustep1 in *. cbn [fst snd] in *. destruct (assoc k ea) as [x|] eqn:Ex.
      + destruct (tmerge_f n x b0) as [y|] eqn:Ey; [|discriminate].
        pose proof (Da _ _ (assoc_in _ _ _ Ex)) as Dx. pose proof (Db k b0 (or_introl eq_refl)) as Dbk.
        destruct (IH x b0 y Ey n') as [E' Dy]; [lia|lia|]. rewrite E'. apply IHr; auto.
        * intros k0 x0 Hin. apply in_set_assoc in Hin as [[-> ->]|Hin]; [lia | eauto].
        * intros k0 x0 Hin. apply (Db k0 x0). now right.
      + apply IHr; auto.
        * intros k0 x0 Hin. apply in_app_or in Hin as [Hin|[E|[]]]; [eauto|]. injection E as <- <-. apply (Db k b0). now left.
        * intros k0 x0 Hin. apply (Db k0 x0). now right. }
  assert (Hinst : forall ea eb em, (S (list_max (map (fun kv => tdepth (snd kv)) ea)) < S n')%nat ->
                                   (S (list_max (map (fun kv => tdepth (snd kv)) eb)) < S n')%nat ->
                                   union_with (tmerge_f n) ea eb = Some em ->
                                   union_with (tmerge_f n') ea eb = Some em /\
                                   (S (list_max (map (fun kv => tdepth (snd kv)) em)) <=
                                    Nat.max (S (list_max (map (fun kv => tdepth (snd kv)) ea)))
                                            (S (list_max (map (fun kv => tdepth (snd kv)) eb))))%nat).
  { intros ea eb em L1 L2 Hm.
    set (M := Nat.max (list_max (map (fun kv => tdepth (snd kv)) ea)) (list_max (map (fun kv => tdepth (snd kv)) eb))).
    destruct (Hu eb ea em M) as [E' D']; auto; [lia | apply dbound_list_max; lia | apply dbound_list_max; lia|].
    split; auto. apply dbound_list_max in D'. lia. }
  destruct a, b; cbn [tmerge_f] in *;
    try (destruct (tequiv _ _); [|discriminate]; injection H as <-; split; [reflexivity | lia]).
  - cbn [tdepth] in La, Lb. destruct (union_with (tmerge_f n) e e0) as [em|] eqn:E; [|discriminate]. injection H as <-.
    destruct (Hinst _ _ _ La Lb E) as [E' D']. rewrite E'. split; [reflexivity | exact D'].
  - cbn [tdepth] in La, Lb. destruct (union_with (tmerge_f n) e e0) as [em|] eqn:E; [|discriminate]. injection H as <-.
    destruct (Hinst _ _ _ La Lb E) as [E' D']. rewrite E'. split; [reflexivity | exact D'].
Qed.

Theorem tmerge_complete n a b m : tmerge_f n a b = Some m -> tmerge a b = Some m.
Proof. intros H. unfold tmerge. apply (tmerge_f_lower n a b m H); lia. Qed.

(** the laws, for the specification's [tmerge] *)
Theorem tmerge_upper d a b m : wt d a -> wt d b -> tmerge a b = Some m ->
  wt d m /\ SubCM m a /\ SubCM m b /\ (forall z, SubCM a z -> SubCM m z) /\ (forall z, SubCM b z -> SubCM m z).
Proof.
  intros Wa Wb H. destruct (tmerge_f_upper _ d a b m Wa Wb H) as [Wm [Ma Mb]].
  split; auto. split; [apply Ma; eapply wt_sub_refl; eauto|]. split; [apply Mb; eapply wt_sub_refl; eauto|]. auto.
Qed.
Theorem tmerge_glb d a b m z : wt d a -> wt d b -> tmerge a b = Some m -> SubCM z a -> SubCM z b -> SubCM z m.
Proof. intros Wa Wb H. eapply tmerge_f_glb; eauto. Qed.
Theorem tmerge_absorb d a b : wt d a -> wt d b -> SubCM a b -> tmerge a b = Some a.
Proof. intros Wa Wb HS. eapply tmerge_complete. eapply (tmerge_f_absorb d); eauto. Qed.
Theorem tmerge_idem d a : wt d a -> tmerge a a = Some a.
Proof. intros W. eapply tmerge_absorb; eauto. eapply wt_sub_refl; eauto. Qed.
Theorem tmerge_inst_names d ea eb m : wt d (XInst ea) -> wt d (XInst eb) -> tmerge (XInst ea) (XInst eb) = Some m ->
  exists em, m = XInst em /\ map fst em = first_seen_union (map fst ea) (map fst eb) /\
    forall k, match assoc k ea, assoc k eb with
              | Some a, Some b => exists y, tmerge a b = Some y /\ assoc k em = Some y
              | Some a, None => assoc k em = Some a
              | None, Some b => assoc k em = Some b
              | None, None => assoc k em = None
              end.
Proof.
  intros Wa Wb H. destruct d as [|d]; [destruct Wa|]. apply wt_inst in Wb as [NDb Hb].
  unfold tmerge in H. cbn [tmerge_f] in H.
  destruct (union_with _ ea eb) as [em|] eqn:E; [|discriminate]. injection H as <-. exists em. split; auto.
  split; [eapply union_with_names; eauto|]. intros k. pose proof (union_with_child _ eb ea em NDb E k) as C.
  destruct (assoc k ea), (assoc k eb); auto. destruct C as [y [Ey Ay]]. exists y. split; auto. eapply tmerge_complete; eauto.
Qed.

(** * Two requirements with a common refinement can be merged (so: no merge = a genuine conflict) *)
Section Total.
  Variables (n d : nat).
  Hypothesis IH : forall a b z, wt d a -> wt d b -> SubCM z a -> SubCM z b -> exists m, tmerge_f n a b = Some m.

  Lemma union_total ez : forall eb l,
    NoDup (map fst eb) -> NoDup (map fst l) ->
    (forall k b, In (k, b) eb -> wt d b) -> (forall k x, In (k, x) l -> wt d x) ->
    (forall k x, In (k, x) l -> exists c, assoc k ez = Some c /\ SubCM c x) ->
    (forall k b, In (k, b) eb -> exists c, assoc k ez = Some c /\ SubCM c b) ->
    exists em, union_with (tmerge_f n) l eb = Some em.
  Proof.
    induction eb as [|[k b] r IHr]; intros l NDb NDl Wb Wl Cl Cb.
    - exists l. apply union_with_nil.
    - cbn [map fst] in NDb. inversion NDb as [|? ? Hn NDr]; subst.
      rewrite union_with_cons. unfold ustep1. cbn [fst snd].
      destruct (assoc k l) as [x|] eqn:Ex.
      + pose proof (Wl _ _ (assoc_in _ _ _ Ex)) as Wx. pose proof (Wb k b (or_introl eq_refl)) as Wb0.
        destruct (Cl k x (assoc_in _ _ _ Ex)) as [c [Ec Sc]]. destruct (Cb k b (or_introl eq_refl)) as [c' [Ec' Sc']].
        assert (c' = c) by congruence. subst c'.
        destruct (IH x b c Wx Wb0 Sc Sc') as [y Ey]. rewrite Ey.
        apply IHr; auto.
        * now rewrite keys_set_assoc.
        * intros k0 b0 Hin. apply (Wb k0 b0). now right.
        * intros k0 x0 Hin. apply in_set_assoc in Hin as [[-> ->]|Hin]; eauto.
          destruct (tmerge_f_upper n d x b y Wx Wb0 Ey) as [Wy _]. exact Wy.
        * intros k0 x0 Hin. apply in_set_assoc in Hin as [[-> ->]|Hin]; eauto.
          exists c. split; auto. exact (tmerge_f_glb n d x b y c Wx Wb0 Ey Sc Sc').
        * intros k0 b0 Hin. apply (Cb k0 b0). now right.
      + apply IHr; auto.
        * rewrite map_app. cbn [map fst]. apply NoDup_app_one_tail; auto. now apply assoc_none_keys.
        * intros k0 b0 Hin. apply (Wb k0 b0). now right.
        * intros k0 x0 Hin. apply in_app_or in Hin as [Hin|[E|[]]]; eauto. injection E as <- <-. apply (Wb k b). now left.
        * intros k0 x0 Hin. apply in_app_or in Hin as [Hin|[E|[]]]; eauto. injection E as <- <-. apply (Cb k b). now left.
        * intros k0 b0 Hin. apply (Cb k0 b0). now right.
  Qed.
End Total.

Theorem tmerge_f_total : forall n d a b z, wt d a -> wt d b -> SubCM z a -> SubCM z b -> (d <= n)%nat ->
  exists m, tmerge_f n a b = Some m.
Proof.
  induction n as [|n IHn]; intros d a b z Wa Wb Za Zb L; [destruct d; [destruct Wa | lia]|].
  destruct d as [|d]; [destruct Wa|]. pose proof Wa as Wa0. pose proof Wb as Wb0. cbn [wt] in Wa, Wb.
  destruct Wa as [La|[ea [-> [NDa Ha]]]].
  - assert (z = a) as -> by (eapply (leaf_sub_eq_r NoRes); eauto using nores_eq).
    exists a. apply (tmerge_f_absorb (S n) (S d)); auto.
  - destruct Wb as [Lb|[eb [-> [NDb Hb]]]].
    + exfalso. assert (z = b) as -> by (eapply (leaf_sub_eq_r NoRes); eauto using nores_eq).
      apply (leaf_sub_eq NoRes) in Za; eauto using nores_eq. subst b. exact Lb.
    + inversion Za as [| ez ? Hca | | | | | | | | |]; subst. inversion Zb as [| ? ? Hcb | | | | | | | | |]; subst.
      destruct (union_total n d (fun a b z Wa Wb Za Zb => IHn d a b z Wa Wb Za Zb ltac:(lia)) ez eb ea NDb NDa Hb Ha Hca Hcb)
        as [em Hem].
      exists (XInst em). cbn [tmerge_f]. now rewrite Hem.
Qed.
Theorem tmerge_total d a b z : wt d a -> wt d b -> SubCM z a -> SubCM z b -> exists m, tmerge a b = Some m.
Proof.
  intros Wa Wb Za Zb. destruct (tmerge_f_total d d a b z Wa Wb Za Zb (le_n _)) as [m H]. exists m. eapply tmerge_complete; eauto.
Qed.
