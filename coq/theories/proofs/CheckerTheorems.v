(** The C07 theorems, derived from [is_subtype_spec]: sufficient fuel, equivalence with the declarative
    relation, independence of the variance stack, memo soundness, reflexivity across copies, transitivity. *)
From Coq Require Import ZArith ZifyBool ZifyN Lia.
From WacV Require Import Str Types C07Flags Checker SubSpec CheckerEq SubSpecProofs CheckerValue CheckerProofs.
Set Warnings "-unused-intro-pattern".

(** * Sufficient fuel: well-formed, ranked collections give every well-formed kind a denotation *)
Lemma lookup_ok {A} (t : types) (l : list A) i : id_ok t l i -> exists x, lookup (t_tag t) l i = Some x /\ nth_error l (id_idx i) = Some x.
Proof.
  intros [Ht Hi]. unfold lookup. rewrite Ht, N.eqb_refl.
  destruct (nth_error l (id_idx i)) as [x|] eqn:E; [eauto|]. apply nth_error_None in E. lia.
Qed.

Lemma all_some_total {A B} (U : A -> option B) (l : list A) :
  (forall x, In x l -> exists y, U x = Some y) -> exists l', all_some (map U l) = Some l'.
Proof.
  induction l as [|x l IH]; intro H; cbn [map all_some]; [eauto|].
  destruct (H x (or_introl eq_refl)) as [y ->]. destruct IH as [l' ->]; [intros; apply H; now right | eauto].
Qed.
Lemma map_snd_total {K A B} (U : A -> option B) (l : list (K * A)) :
  (forall x, In x (map snd l) -> exists y, U x = Some y) -> exists l', map_snd U l = Some l'.
Proof.
  intro H. unfold map_snd. apply all_some_total. intros [k x] Hin. cbn [fst snd].
  destruct (H x) as [y ->]; [|eauto]. apply in_map_iff. exists (k, x). auto.
Qed.
Lemma omap_total {A B} (U : A -> option B) (o : option A) :
  (forall x, o = Some x -> exists y, U x = Some y) -> exists o', omap U o = Some o'.
Proof. destruct o as [x|]; cbn [omap]; [|eauto]. intro H. destruct (H x eq_refl) as [y ->]. eauto. Qed.

Section Total.
  Variable t : types.
  Variable r : ranking.
  Hypothesis W : wf_types t r.

  Lemma res_name_total : forall g i, id_ok t (t_resources t) i -> (rk_res r (id_idx i) < g)%nat ->
    exists n, res_name_of g t i = Some n.
  Proof.
    induction g as [|g IH]; intros i Hok Hr; [lia|]. cbn [res_name_of]. unfold get_res.
    destruct (lookup_ok t _ i Hok) as [x [-> Hn]].
    destruct (res_source x) as [s|] eqn:Es; [|eauto].
    destruct (wf_res t r W _ _ Hn s Es) as [Hs Hlt]. apply IH; [assumption | lia].
  Qed.

  Lemma unfold_vt_total : forall g v, valtype_ok t v -> (vrank r v < g)%nat -> exists tr, unfold_vt g t v = Some tr.
  Proof.
    induction g as [|g IH]; intros v Hok Hr; [lia|]. rewrite unfold_vt_eq.
    destruct v as [p|i|i|d]; cbn [unfold_vt_body valtype_ok vrank] in *; [eauto | | |].
    - destruct (res_name_total (S g) i Hok ltac:(lia)) as [n ->]. cbn. eauto.
    - destruct (res_name_total (S g) i Hok ltac:(lia)) as [n ->]. cbn. eauto.
    - unfold get_def. destruct (lookup_ok t _ d Hok) as [x [-> Hn]].
      assert (Hch : forall v, In v (def_children x) -> exists tr, unfold_vt g t v = Some tr).
      { intros v Hin. destruct (wf_def t r W _ _ Hn v Hin) as [H1 H2]. apply IH; [assumption | lia]. }
      destruct x; cbn [def_children] in Hch.
      + destruct (all_some_total (unfold_vt g t) l Hch) as [l' ->]. cbn. eauto.
      + destruct (Hch v (or_introl eq_refl)) as [tr ->]. cbn. eauto.
      + destruct (Hch v (or_introl eq_refl)) as [tr ->]. cbn. eauto.
      + destruct (Hch v (or_introl eq_refl)) as [tr ->]. cbn. eauto.
      + destruct (omap_total (unfold_vt g t) ok) as [o' ->].
        { intros x ->. apply Hch. cbn. now left. }
        destruct (omap_total (unfold_vt g t) err) as [e' ->]; [|eauto].
        intros x ->. apply Hch. apply in_or_app. right. cbn. now left.
      + destruct (map_snd_total (omap (unfold_vt g t)) cases) as [l' ->]; [|cbn; eauto].
        intros o Hin. apply omap_total. intros v ->. apply Hch. apply in_flat_map.
        apply in_map_iff in Hin as [[k o'] [Eo Hin]]. cbn [snd] in Eo. subst o'. exists (k, Some v). split; [assumption | cbn; now left].
      + destruct (map_snd_total (unfold_vt g t) fields Hch) as [l' ->]. cbn. eauto.
      + eauto.
      + eauto.
      + apply (Hch v). now left.
      + destruct (omap_total (unfold_vt g t) o) as [o' ->]; [|cbn; eauto]. intros x ->. apply Hch. cbn. now left.
      + destruct (omap_total (unfold_vt g t) o) as [o' ->]; [|cbn; eauto]. intros x ->. apply Hch. cbn. now left.
  Qed.

  Lemma unfold_func_total g i : id_ok t (t_funcs t) i -> (S (rk_func r (id_idx i)) < S g)%nat ->
    exists ft, unfold_func g t i = Some ft.
  Proof.
    intros Hok Hr. unfold unfold_func, get_func. destruct (lookup_ok t _ i Hok) as [x [-> Hn]].
    destruct (wf_func t r W _ _ Hn) as [_ Hch].
    destruct (map_snd_total (unfold_vt g t) (f_params x)) as [ps ->].
    { intros v Hin. destruct (Hch v) as [H1 H2]; [unfold func_children; apply in_or_app; now left|]. apply unfold_vt_total; [assumption | lia]. }
    destruct (omap_total (unfold_vt g t) (f_result x)) as [o' ->]; [|eauto].
    intros v Ev. destruct (Hch v) as [H1 H2]; [unfold func_children; apply in_or_app; right; rewrite Ev; cbn; now left|].
    apply unfold_vt_total; [assumption | lia].
  Qed.

  Lemma unfold_total : forall g k, kind_ok t k -> (krank r k < g)%nat -> exists tr, unfold g t k = Some tr.
  Proof.
    induction g as [|g IH]; intros k Hok Hr; [lia|]. rewrite unfold_eq.
    assert (Hi : forall i, id_ok t (t_interfaces t) i -> (rk_if r (id_idx i) < g)%nat -> exists e, unfold_inst (unfold g t) t i = Some e).
    { intros i Hoki Hri. unfold unfold_inst, get_if. destruct (lookup_ok t _ i Hoki) as [x [-> Hn]].
      destruct (wf_if t r W _ _ Hn) as [_ Hch]. apply map_snd_total. intros k' Hin. destruct (Hch k' Hin). apply IH; [assumption | lia]. }
    assert (Hw : forall i, id_ok t (t_worlds t) i -> (rk_world r (id_idx i) < g)%nat -> exists e, unfold_comp (unfold g t) t i = Some e).
    { intros i Hoki Hri. unfold unfold_comp, get_world. destruct (lookup_ok t _ i Hoki) as [x [-> Hn]].
      destruct (wf_world t r W _ _ Hn) as [_ [_ Hch]].
      destruct (map_snd_total (unfold g t) (w_imports x)) as [i' ->].
      { intros k' Hin. destruct (Hch k'); [apply in_or_app; now left|]. apply IH; [assumption | lia]. }
      destruct (map_snd_total (unfold g t) (w_exports x)) as [e' ->]; [|eauto].
      intros k' Hin. destruct (Hch k'); [apply in_or_app; now right|]. apply IH; [assumption | lia]. }
    assert (Hm : forall i, id_ok t (t_modules t) i -> exists m, get_mod t i = Some m).
    { intros i Hoki. unfold get_mod. destruct (lookup_ok t _ i Hoki) as [x [-> _]]. eauto. }
    unfold unfold_body. destruct k as [[i|i|v|i|i|i]|i|i|i|i|v]; cbn [kind_ok krank] in *.
    - destruct (res_name_total (S g) i Hok ltac:(lia)) as [n ->]. cbn. eauto.
    - destruct (unfold_func_total (S g) i Hok ltac:(lia)) as [n ->]. cbn. eauto.
    - destruct (unfold_vt_total (S g) v Hok ltac:(lia)) as [n ->]. cbn. eauto.
    - destruct (Hi i Hok ltac:(lia)) as [n ->]. cbn. eauto.
    - destruct (Hw i Hok ltac:(lia)) as [n ->]. cbn. eauto.
    - destruct (Hm i Hok) as [n ->]. cbn. eauto.
    - destruct (unfold_func_total (S g) i Hok ltac:(lia)) as [n ->]. cbn. eauto.
    - destruct (Hi i Hok ltac:(lia)) as [n ->]. cbn. eauto.
    - destruct (Hw i Hok ltac:(lia)) as [n ->]. cbn. eauto.
    - destruct (Hm i Hok) as [n ->]. cbn. eauto.
    - destruct (unfold_vt_total (S g) v Hok ltac:(lia)) as [n ->]. cbn. eauto.
  Qed.

  Lemma wf_nodup : nodup_types t.
  Proof.
    split; [|split].
    - intros i x Hn. apply (wf_if t r W _ _ Hn).
    - intros i x Hn. destruct (wf_world t r W _ _ Hn) as [? [? _]]. auto.
    - intros i m Hn. apply (wf_mod t r W _ _ Hn).
  Qed.
End Total.

(** * The theorems *)
Definition pairE (a b : types) : types -> Prop := fun t => t = a \/ t = b.
Lemma pairE_same a b : (t_tag a = t_tag b -> a = b) ->
  forall t1 t2, pairE a b t1 -> pairE a b t2 -> t_tag t1 = t_tag t2 -> t1 = t2.
Proof. intros H t1 t2 [-> | ->] [-> | ->] Ht; auto. symmetry. auto. Qed.

Definition verdict (rs : SR) : bool := is_ok (fst rs).

Section Two.
  Variables at_ bt : types.
  Hypothesis same : t_tag at_ = t_tag bt -> at_ = bt.
  Hypothesis Na : nodup_types at_.
  Hypothesis Nb : nodup_types bt.

  Let E := pairE at_ bt.
  Let E_same := pairE_same at_ bt same.
  Lemma E_nodup : forall t, E t -> nodup_types t.
  Proof. intros t [-> | ->]; assumption. Qed.

  Definition memo_ok := cache_ok E.

  (** with any memo satisfying the invariant and any variance stack *)
  Theorem is_subtype_decides g F s a b ta tb : (g <= F)%nat -> memo_ok (cache s) ->
    unfold g at_ a = Some ta -> unfold g bt b = Some tb ->
    decides (fst (is_subtype F s at_ a bt b)) (SubX ta tb) /\
    memo_ok (cache (snd (is_subtype F s at_ a bt b))) /\
    incl (cache s) (cache (snd (is_subtype F s at_ a bt b))) /\
    (fst (is_subtype F s at_ a bt b) = Ok tt -> ks (snd (is_subtype F s at_ a bt b)) = ks s).
  Proof.
    intros HF Hc Ha Hb.
    destruct (is_subtype_spec E E_same E_nodup g F s at_ a bt b ta tb HF (or_introl eq_refl) (or_intror eq_refl) Hc Ha Hb)
      as [D [C [K I]]]. auto.
  Qed.

  Lemma memo_ok_nil : memo_ok [].
  Proof. intros x y []. Qed.

  Theorem check_decides g F a b ta tb : (g <= F)%nat ->
    unfold g at_ a = Some ta -> unfold g bt b = Some tb -> decides (check F at_ a bt b) (SubX ta tb).
  Proof. intros HF Ha Hb. unfold check. apply (is_subtype_decides g F st0 a b ta tb HF memo_ok_nil Ha Hb). Qed.

  Theorem verdict_indep_of_variance_and_memo g F s s' a b ta tb : (g <= F)%nat ->
    memo_ok (cache s) -> memo_ok (cache s') ->
    unfold g at_ a = Some ta -> unfold g bt b = Some tb ->
    verdict (is_subtype F s at_ a bt b) = verdict (is_subtype F s' at_ a bt b).
  Proof.
    intros HF Hc Hc' Ha Hb. unfold verdict.
    destruct (is_subtype_decides g F s a b ta tb HF Hc Ha Hb) as [D _].
    destruct (is_subtype_decides g F s' a b ta tb HF Hc' Ha Hb) as [D' _].
    apply decides_is_ok in D, D'. destruct (is_ok (fst (is_subtype F s at_ a bt b))), (is_ok (fst (is_subtype F s' at_ a bt b))); intuition congruence.
  Qed.
End Two.

(** Tree-equal copies (in the same or in different collections) are mutual subtypes. *)
Theorem refl_copies at_ bt : (t_tag at_ = t_tag bt -> at_ = bt) -> nodup_types at_ -> nodup_types bt ->
  forall g F a b t, (g <= F)%nat -> unfold g at_ a = Some t -> unfold g bt b = Some t ->
  check F at_ a bt b = Ok tt.
Proof.
  intros same Na Nb g F a b t HF Ha Hb.
  destruct (check_decides at_ bt same Na Nb g F a b t t HF Ha Hb) as [[H _]|[_ H]]; [assumption|].
  exfalso. apply H. apply (Sub_refl PGx PGx_refl (tdepth t)); [lia|]. apply (unfold_wf_tree at_ Na _ _ _ Ha).
Qed.

Theorem trans3 at_ bt ct :
  (t_tag at_ = t_tag bt -> at_ = bt) -> (t_tag bt = t_tag ct -> bt = ct) -> (t_tag at_ = t_tag ct -> at_ = ct) ->
  nodup_types at_ -> nodup_types bt -> nodup_types ct ->
  forall g F a b c ta tb tc, (g <= F)%nat ->
    unfold g at_ a = Some ta -> unfold g bt b = Some tb -> unfold g ct c = Some tc ->
    check F at_ a bt b = Ok tt -> check F bt b ct c = Ok tt -> check F at_ a ct c = Ok tt.
Proof.
  intros sab sbc sac Na Nb Nc g F a b c ta tb tc HF Ha Hb Hc H1 H2.
  destruct (check_decides at_ bt sab Na Nb g F a b ta tb HF Ha Hb) as [[_ S1]|[[e He] _]]; [|congruence].
  destruct (check_decides bt ct sbc Nb Nc g F b c tb tc HF Hb Hc) as [[_ S2]|[[e He] _]]; [|congruence].
  destruct (check_decides at_ ct sac Na Nc g F a c ta tc HF Ha Hc) as [[H _]|[_ H]]; [assumption|].
  exfalso. apply H. apply (Sub_trans PGx PGx_trans (tdepth tb) ta tb tc); auto.
Qed.

(** * Histories of checks on one checker *)
Definition check_in (E : types -> Prop) (g : nat) (c : (types * kind) * (types * kind)) : Prop :=
  E (fst (fst c)) /\ E (fst (snd c)) /\
  exists tx ty, unfold g (fst (fst c)) (snd (fst c)) = Some tx /\ unfold g (fst (snd c)) (snd (snd c)) = Some ty.

Theorem run_checks_sound (E : types -> Prop)
  (E_same : forall t1 t2, E t1 -> E t2 -> t_tag t1 = t_tag t2 -> t1 = t2)
  (E_nodup : forall t, E t -> nodup_types t) g F : (g <= F)%nat ->
  forall l s, cache_ok E (cache s) -> Forall (check_in E g) l ->
    map is_ok (fst (run_checks F s l))
    = map (fun c => is_ok (check F (fst (fst c)) (snd (fst c)) (fst (snd c)) (snd (snd c)))) l
    /\ cache_ok E (cache (snd (run_checks F s l))).
Proof.
  intros HF. induction l as [|[[xt x] [yt y]] l IH]; intros s Hc Hl; cbn [run_checks map fst snd]; [auto|].
  inversion Hl as [|? ? [Hx [Hy [tx [ty [Hux Huy]]]]] Hl']; subst. cbn [fst snd] in *.
  pose proof (is_subtype_spec E E_same E_nodup g F s xt x yt y tx ty HF Hx Hy Hc Hux Huy) as [D [C _]].
  assert (C0 : cache_ok E (cache st0)) by (intros ? ? []).
  pose proof (is_subtype_spec E E_same E_nodup g F st0 xt x yt y tx ty HF Hx Hy C0 Hux Huy) as [D0 _].
  destruct (is_subtype F s xt x yt y) as [r s'] eqn:Er. cbn [fst snd] in *.
  destruct (IH s' C Hl') as [IH1 IH2]. destruct (run_checks F s' l) as [rs s''] eqn:Err. cbn [fst snd map] in *.
  split; [|assumption]. f_equal; [|assumption].
  unfold check. apply decides_is_ok in D, D0.
  destruct (is_ok r), (is_ok (fst (is_subtype F st0 xt x yt y))); intuition congruence.
Qed.

(** * With the well-formedness of Types.v and an explicit fuel bound *)
Definition canon_types (t : types) : Prop := forall i m, nth_error (t_modules t) i = Some m -> mod_ok ce_canon m.

Lemma unfold_tcanon t : canon_types t -> forall g k tr, unfold g t k = Some tr -> tcanon tr.
Proof.
  intros Ct. induction g as [|g IH]; intros k tr Hu; [discriminate|].
  rewrite unfold_eq in Hu.
  assert (Hl : forall (l : list (str * kind)) l', map_snd (unfold g t) l = Some l' ->
               (fix go (l : list (str * tree)) : Prop := match l with [] => True | (_, x) :: r => tokm ce_canon x /\ go r end) l').
  { intros l l' H. apply tokm_all_intro. intros k' y Hin. destruct (map_snd_in _ _ _ _ _ H Hin) as [x' [_ Hx']]. apply (IH _ _ Hx'). }
  unfold unfold_body in Hu.
  destruct k as [[r|i|v|i|w|m]|i|i|w|m|v];
    match type of Hu with option_map _ ?o = _ => destruct o as [z|] eqn:Ez; [|discriminate] end;
    cbn [option_map] in Hu; injection Hu as <-; unfold tcanon; cbn [tokm]; try exact I.
  - unfold unfold_inst in Ez. destruct (get_if t i); [|discriminate]. now apply (Hl _ _ Ez).
  - unfold unfold_comp in Ez. destruct (get_world t w) as [x|]; [|discriminate].
    destruct (map_snd (unfold g t) (w_imports x)) eqn:E1; [|discriminate]. destruct (map_snd (unfold g t) (w_exports x)) eqn:E2; [|discriminate].
    injection Ez as <-. cbn [fst snd]. split; [now apply (Hl _ _ E1) | now apply (Hl _ _ E2)].
  - apply (Ct _ _ (lookup_nth _ _ _ _ Ez)).
  - unfold unfold_inst in Ez. destruct (get_if t i); [|discriminate]. now apply (Hl _ _ Ez).
  - unfold unfold_comp in Ez. destruct (get_world t w) as [x|]; [|discriminate].
    destruct (map_snd (unfold g t) (w_imports x)) eqn:E1; [|discriminate]. destruct (map_snd (unfold g t) (w_exports x)) eqn:E2; [|discriminate].
    injection Ez as <-. cbn [fst snd]. split; [now apply (Hl _ _ E1) | now apply (Hl _ _ E2)].
  - apply (Ct _ _ (lookup_nth _ _ _ _ Ez)).
Qed.

(** the side condition of completeness: nothing once the source normalises the default page size, otherwise
    "no memory type spells out the default page size" *)
Definition pages_ok (t : types) : Prop := psl_default_normalised = true \/ canon_types t.

Lemma SubCM_SubX a b : (psl_default_normalised = true \/ (tcanon a /\ tcanon b)) -> SubCM a b -> SubX a b.
Proof.
  intros [Hf|[Ca Cb]] H.
  - apply (SubCM_SubP PGx (fun _ => True) a b); [|apply tokm_true|apply tokm_true|assumption].
    intros x y ? ? ? ? ? ? _ _ Hp. unfold PGx. rewrite Hf. exact Hp.
  - apply (SubCM_SubP PGx ce_canon a b); [|exact Ca|exact Cb|assumption].
    intros x y ? ? ? ? ? ? Hx Hy Hp. cbn [ce_canon] in Hx, Hy. unfold PGx, PageCM in *.
    destruct psl_default_normalised; [assumption | now apply (page_log2_canon x y Hx Hy)].
Qed.

Theorem algo_iff_declarative_wf at_ bt ra rb a b F :
  wf_types at_ ra -> wf_types bt rb -> (t_tag at_ = t_tag bt -> at_ = bt) ->
  kind_ok at_ a -> kind_ok bt b -> (krank ra a < F)%nat -> (krank rb b < F)%nat ->
  exists ta tb, unfold F at_ a = Some ta /\ unfold F bt b = Some tb /\
                decides (check F at_ a bt b) (SubX ta tb) /\
                (resfree ta = true -> resfree tb = true ->
                 (check F at_ a bt b = Ok tt -> SubCM ta tb) /\
                 (pages_ok at_ -> pages_ok bt -> SubCM ta tb -> check F at_ a bt b = Ok tt)).
Proof.
  intros Wa Wb same Ka Kb Ra Rb.
  destruct (unfold_total at_ ra Wa F a Ka Ra) as [ta Ha]. destruct (unfold_total bt rb Wb F b Kb Rb) as [tb Hb].
  exists ta, tb. split; [assumption|]. split; [assumption|].
  pose proof (check_decides at_ bt same (wf_nodup _ _ Wa) (wf_nodup _ _ Wb) F F a b ta tb (le_n _) Ha Hb) as D.
  split; [assumption|]. intros Fa Fb. split.
  - intro Hok. destruct D as [[_ H]|[[e He] _]]; [|congruence]. exact (SubP_SubCM PGx ta tb PGx_PageCM Fa Fb H).
  - intros Pa Pb Hs. destruct D as [[H _]|[_ H]]; [assumption|]. exfalso. apply H. apply SubCM_SubX; [|assumption].
    destruct Pa as [Hf|Ca]; [now left|]. destruct Pb as [Hf|Cb]; [now left|]. right.
    split; [apply (unfold_tcanon at_ Ca _ _ _ Ha) | apply (unfold_tcanon bt Cb _ _ _ Hb)].
Qed.

(** * While the source compares the two [Option]s, the unrestricted statement is false of the faithful model: a memory
    type that spells out the default page size against one that does not.  [page_size_log2 = Some 16] is what
    wasmparser reports for [(memory 1 (pagesize 0x10000))]. *)
Definition pz_mod (p : option N) : moduletype := mkmod [] [([101], CEMemory false false 1 None p)].
Definition pz_tA : types := mktypes 1 [] [] [] [] [] [pz_mod None].
Definition pz_tB : types := mktypes 2 [] [] [] [] [] [pz_mod (Some 16)].
Theorem algo_iff_declarative_refuted_witness : psl_default_normalised = false ->
  check 3 pz_tA (KModule (mkid 1 0)) pz_tB (KModule (mkid 2 0)) = Err EMemPage /\
  check 3 pz_tB (KModule (mkid 2 0)) pz_tA (KModule (mkid 1 0)) = Err EMemPage /\
  exists ta tb, unfold 3 pz_tA (KModule (mkid 1 0)) = Some ta /\ unfold 3 pz_tB (KModule (mkid 2 0)) = Some tb /\
                resfree ta = true /\ resfree tb = true /\ SubCM ta tb /\ SubCM tb ta.
Proof.
  intro Hf.
  (* the script must check whichever value the generated flag has: either the hypothesis is absurd, or the
     witness computes *)
  first [ discriminate Hf
        | split; [vm_compute; reflexivity|]; split; [vm_compute; reflexivity|];
          eexists; eexists; split; [vm_compute; reflexivity|]; split; [vm_compute; reflexivity|];
          split; [reflexivity|]; split; [reflexivity|];
          split; apply sub_b_iff; vm_compute; reflexivity ].
Qed.
