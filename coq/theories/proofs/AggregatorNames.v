(** Canonical-name bookkeeping of the aggregator: the invariant of (import keys, redirects, contributed names). *)
From WacV Require Import Str Ord Semver Names NamesSpec Types Checker Aggregator AggregatorSpec.
From WacV Require Import SemverProofs SemverText NamesProofs CheckerEq.
Require Import ZArith ZifyBool ZifyN.

Lemma NoDup_app_one_tail {A} (l : list A) x : NoDup l -> ~ In x l -> NoDup (l ++ [x]).
Proof.
  induction l as [|y l IH]; cbn [app]; intros ND N.
  - constructor; [auto|constructor].
  - inversion ND as [|? ? Hy ND']; subst. constructor.
    + intros H. apply in_app_or in H as [H|[<-|[]]]; auto. apply N. now left.
    + apply IH; auto. intros H. apply N. now right.
Qed.

(** * Association lists *)
Lemma assoc_ins_same {V} k (v : V) l : assoc k (ins k v l) = Some v.
Proof.
  induction l as [|[k' v'] l IH]; cbn [ins assoc].
  - now rewrite str_eqb_refl.
  - destruct (str_eqb k k') eqn:E; cbn [assoc]; rewrite E; auto.
Qed.
Lemma assoc_ins_other {V} k k' (v : V) l : k <> k' -> assoc k' (ins k v l) = assoc k' l.
Proof.
  intros N. induction l as [|[k2 v2] l IH]; cbn [ins assoc].
  - destruct (str_eqb k' k) eqn:E; auto. apply str_eqb_eq in E. congruence.
  - destruct (str_eqb k k2) eqn:E; cbn [assoc].
    + apply str_eqb_eq in E. subst k2. destruct (str_eqb k' k) eqn:E2; auto. apply str_eqb_eq in E2. congruence.
    + now rewrite IH.
Qed.
Lemma assoc_in_keys {V} k (l : list (str * V)) v : assoc k l = Some v -> In k (map fst l).
Proof. intros H. apply assoc_in in H. apply (in_map fst) in H. exact H. Qed.
Lemma assoc_none_keys {V} k (l : list (str * V)) : assoc k l = None <-> ~ In k (map fst l).
Proof. apply assoc_none. Qed.
Lemma keys_ins_new {V} k (v : V) l : assoc k l = None -> map fst (ins k v l) = map fst l ++ [k].
Proof.
  induction l as [|[k' v'] l IH]; cbn [ins assoc map fst app]; auto.
  destruct (str_eqb k k'); [discriminate|]. intros H. cbn [map fst]. now rewrite IH.
Qed.
Lemma keys_ins_old {V} k (v w : V) l : assoc k l = Some w -> map fst (ins k v l) = map fst l.
Proof.
  induction l as [|[k' v'] l IH]; cbn [ins assoc map fst]; [discriminate|].
  destruct (str_eqb k k'); cbn [map fst]; auto. intros H. now rewrite IH.
Qed.
Lemma in_keys_rem {V} k x (l : list (str * V)) :
  NoDup (map fst l) -> (In x (map fst (rem k l)) <-> In x (map fst l) /\ x <> k).
Proof.
  induction l as [|[k' v'] l IH]; cbn [rem map fst]; intros ND.
  - cbn. tauto.
  - inversion ND as [|? ? Hn ND']; subst. destruct (str_eqb k k') eqn:E.
    + apply str_eqb_eq in E. subst k'. cbn [In]. split.
      * intros H. split; auto. intros ->. contradiction.
      * intros [[->|H] N]; [congruence|auto].
    + apply str_eqb_neq in E. cbn [map fst In]. rewrite (IH ND'). split.
      * intros [->|[H N]]; auto.
      * intros [[->|H] N]; auto.
Qed.
Lemma nodup_keys_rem {V} k (l : list (str * V)) : NoDup (map fst l) -> NoDup (map fst (rem k l)).
Proof.
  induction l as [|[k' v'] l IH]; cbn [rem map fst]; intros ND; auto.
  inversion ND as [|? ? Hn ND']; subst. destruct (str_eqb k k') eqn:E; auto.
  cbn [map fst]. constructor; auto. intros H. apply in_keys_rem in H; auto. tauto.
Qed.
Lemma assoc_rem_none {V} k (l : list (str * V)) : NoDup (map fst l) -> assoc k (rem k l) = None.
Proof. intros ND. apply assoc_none_keys. intros H. apply in_keys_rem in H; auto. tauto. Qed.

Definition retarget (e name : str) (r : str * str) : str * str := if str_eqb (snd r) e then (fst r, name) else r.
Lemma assoc_map_retarget e name a rd :
  assoc a (map (retarget e name) rd) =
  match assoc a rd with Some b => Some (if str_eqb b e then name else b) | None => None end.
Proof.
  induction rd as [|[x y] rd IH]; cbn [map assoc]; auto.
  unfold retarget at 1. cbn [snd fst]. destruct (str_eqb y e) eqn:E; cbn [assoc]; destruct (str_eqb a x); auto;
    now rewrite E.
Qed.

(** * Tracks, in the vocabulary of the model ([alt_key]) and of the specification *)
Lemma alt_key_version n k v : alt_key n = Some (k, v) -> version_of n = Some v.
Proof.
  intros H. apply alt_key_sound in H as [base [t [H _]]]. unfold version_of. now rewrite H.
Qed.
Lemma alt_key_none_version n : alt_key n = None -> version_of n = None.
Proof. intros H. apply alt_key_none in H. unfold version_of. now rewrite H. Qed.

Lemma compat_cases a b : compat a b = true <->
  a = b \/ exists ka va kb vb, alt_key a = Some (ka, va) /\ alt_key b = Some (kb, vb) /\ ka = kb.
Proof.
  unfold compat. destruct (str_eqb a b) eqn:E.
  - apply str_eqb_eq in E. tauto.
  - apply str_eqb_neq in E. destruct (alt_key a) as [[ka va]|], (alt_key b) as [[kb vb]|]; split; try discriminate.
    + intros H. apply str_eqb_eq in H. right. exists ka, va, kb, vb. auto.
    + intros [H|[? [? [? [? [H1 [H2 H3]]]]]]]; [contradiction|]. injection H1 as <- <-. injection H2 as <- <-.
      now apply str_eqb_eq.
    + intros [H|[? [? [? [? [_ [H _]]]]]]]; [contradiction|discriminate].
    + intros [H|[? [? [? [? [H _]]]]]]; [contradiction|discriminate].
    + intros [H|[? [? [? [? [H _]]]]]]; [contradiction|discriminate].
Qed.
Lemma compat_same_key a b ka va kb vb :
  alt_key a = Some (ka, va) -> alt_key b = Some (kb, vb) -> (compat a b = true <-> ka = kb).
Proof.
  intros A B. rewrite compat_cases. split.
  - intros [->|[? [? [? [? [H1 [H2 H3]]]]]]]; congruence.
  - intros ->. right. exists kb, va, kb, vb. auto.
Qed.
Lemma compat_same_track a b : compat a b = true <-> a = b \/ same_track a b = true.
Proof.
  rewrite compat_is_spec_b. unfold compat_spec_b. rewrite orb_true_iff, str_eqb_eq. tauto.
Qed.

(** [higher] through [alt_key] *)
Lemma higher_alt m b km vm kb vb :
  alt_key m = Some (km, vm) -> alt_key b = Some (kb, vb) -> higher m b = version_gtb vm vb.
Proof. intros A B. unfold higher. now rewrite (alt_key_version _ _ _ A), (alt_key_version _ _ _ B). Qed.
Lemma higher_irrefl m : higher m m = false.
Proof.
  unfold higher. destruct (version_of m) as [v|]; auto. unfold version_gt.
  now rewrite (tc_refl _ cmp_version_total).
Qed.
Lemma higher_no_version_l m b : alt_key m = None -> higher m b = false.
Proof. intros H. unfold higher. now rewrite (alt_key_none_version _ H). Qed.

(** not-greater is transitive through a strictly greater step *)
Lemma not_gt_trans a b c : version_gt a b = false -> version_gt c b = true -> version_gt a c = false.
Proof.
  unfold version_gt. pose proof cmp_version_total as T.
  destruct (cmp_version a b) eqn:E1; try discriminate; intros _;
    destruct (cmp_version c b) eqn:E2; try discriminate; intros _.
  - apply (tc_eq _ T) in E1. subst a. rewrite (tc_anti _ T c b), E2. reflexivity.
  - apply (total_gt_lt _ T) in E2. rewrite (tc_trans _ T _ _ _ E1 E2). reflexivity.
Qed.

(** * One step of the bookkeeping, as a relation on (keys, redirects) *)
Definition on_track (name e : str) : Prop :=
  exists ak nv ev, alt_key name = Some (ak, nv) /\ alt_key e = Some (ak, ev).

Inductive NStep (keys : list str) (rd : list (str * str)) (name : str) : list str -> list (str * str) -> Prop :=
| NS_exact : In name keys -> NStep keys rd name keys rd
| NS_new : ~ In name keys -> (forall e, In e keys -> ~ on_track name e) -> NStep keys rd name (keys ++ [name]) rd
| NS_low e ak nv ev : ~ In name keys -> In e keys -> alt_key name = Some (ak, nv) -> alt_key e = Some (ak, ev) ->
                      version_gtb nv ev = false -> NStep keys rd name keys (ins name e rd)
| NS_high e ak nv ev keys' : ~ In name keys -> In e keys -> alt_key name = Some (ak, nv) -> alt_key e = Some (ak, ev) ->
                             version_gtb nv ev = true ->
                             NoDup keys' -> (forall x, In x keys' <-> (In x keys /\ x <> e) \/ x = name) ->
                             NStep keys rd name keys' (ins e name (map (retarget e name) rd)).

Definition canon (rd : list (str * str)) (n : str) : str := match assoc n rd with Some c => c | None => n end.

Record NInv (keys : list str) (rd : list (str * str)) (names : list str) : Prop := {
  ni_nodup : NoDup keys;
  ni_contrib : forall k, In k keys -> In k names;
  ni_one : forall k1 k2, In k1 keys -> In k2 keys -> compat k1 k2 = true -> k1 = k2;
  ni_rd : forall a b, assoc a rd = Some b -> ~ In a keys /\ In b keys /\ In a names /\ compat a b = true;
  ni_total : forall n, In n names -> In (canon rd n) keys;
  ni_high : forall k n, In k keys -> In n names -> compat n k = true -> higher n k = false }.

Lemma NInv_nil : NInv [] [] [].
Proof. split; cbn; try tauto; try discriminate. constructor. Qed.

Lemma on_track_compat name e : on_track name e -> compat name e = true.
Proof. intros [ak [nv [ev [A B]]]]. now apply (compat_same_key _ _ _ _ _ _ A B). Qed.
Lemma compat_on_track name e : compat name e = true -> name <> e -> on_track name e.
Proof.
  intros C N. apply compat_cases in C as [->|[ka [va [kb [vb [A [B ->]]]]]]]; [contradiction|].
  exists kb, va, vb. auto.
Qed.

Lemma canon_compat keys rd names n : NInv keys rd names -> compat n (canon rd n) = true.
Proof.
  intros I. unfold canon. destruct (assoc n rd) as [c|] eqn:E.
  - now apply (ni_rd _ _ _ I) in E.
  - apply compat_refl.
Qed.

Theorem NStep_preserves keys rd names name keys' rd' :
  NInv keys rd names -> NStep keys rd name keys' rd' -> NInv keys' rd' (name :: names).
Proof.
  intros I S. destruct S as [Hin | Hnin Hnone | e ak nv ev Hnin He An Ae Hv | e ak nv ev keys' Hnin He An Ae Hv ND' Hk'].
  - (* exact *)
    assert (Hnr : assoc name rd = None).
    { destruct (assoc name rd) eqn:E; auto. apply (ni_rd _ _ _ I) in E. tauto. }
    split.
    + apply (ni_nodup _ _ _ I).
    + intros k Hk. right. now apply (ni_contrib _ _ _ I).
    + apply (ni_one _ _ _ I).
    + intros a b E. destruct (ni_rd _ _ _ I a b E) as [? [? [? ?]]]. cbn [In]. auto.
    + intros n [<-|Hn]; [unfold canon; now rewrite Hnr | now apply (ni_total _ _ _ I)].
    + intros k n Hk [<-|Hn] C; [|now apply (ni_high _ _ _ I)].
      rewrite (ni_one _ _ _ I name k Hin Hk C). apply higher_irrefl.
  - (* new *)
    assert (Hnk : forall k, In k keys -> compat name k = false).
    { intros k Hk. destruct (compat name k) eqn:C; auto. exfalso.
      apply (Hnone k Hk). apply compat_on_track; auto. intros ->. contradiction. }
    assert (Hnr : assoc name rd = None).
    { destruct (assoc name rd) as [b|] eqn:E; auto. apply (ni_rd _ _ _ I) in E as [_ [Hb [_ C]]].
      rewrite (Hnk b Hb) in C. discriminate. }
    assert (Hnn : forall n, In n names -> compat n name = false).
    { intros n Hn. destruct (compat n name) eqn:C; auto.
      pose proof (ni_total _ _ _ I n Hn) as Hc. pose proof (canon_compat _ _ _ n I) as Cc.
      rewrite compat_sym in Cc. pose proof (compat_trans _ _ _ Cc C) as C2. rewrite compat_sym in C2.
      rewrite (Hnk _ Hc) in C2. discriminate. }
    split.
    + apply NoDup_app_one_tail; [apply (ni_nodup _ _ _ I) | exact Hnin].
    + intros k Hk. apply in_app_or in Hk as [Hk|[<-|[]]]; cbn [In]; auto. right. now apply (ni_contrib _ _ _ I).
    + intros k1 k2 H1 H2 C. apply in_app_or in H1 as [H1|[<-|[]]]; apply in_app_or in H2 as [H2|[<-|[]]]; auto.
      * now apply (ni_one _ _ _ I).
      * rewrite compat_sym, (Hnk _ H1) in C. discriminate.
      * rewrite (Hnk _ H2) in C. discriminate.
    + intros a b E. destruct (ni_rd _ _ _ I a b E) as [Ha [Hb [Hc C]]]. repeat split; auto.
      * intros H. apply in_app_or in H as [H|[<-|[]]]; auto. congruence.
      * apply in_or_app. auto.
      * cbn [In]. auto.
    + intros n [<-|Hn].
      * unfold canon. rewrite Hnr. apply in_or_app. cbn. auto.
      * apply in_or_app. left. now apply (ni_total _ _ _ I).
    + intros k n Hk Hn C. apply in_app_or in Hk as [Hk|[<-|[]]]; destruct Hn as [<-|Hn].
      * rewrite (Hnk _ Hk) in C. discriminate.
      * now apply (ni_high _ _ _ I).
      * apply higher_irrefl.
      * rewrite (Hnn _ Hn) in C. discriminate.
  - (* lower or equal version: redirect the new name *)
    assert (Cne : compat name e = true) by (apply on_track_compat; exists ak, nv, ev; auto).
    assert (Hne : name <> e) by (intros ->; contradiction).
    split.
    + apply (ni_nodup _ _ _ I).
    + intros k Hk. right. now apply (ni_contrib _ _ _ I).
    + apply (ni_one _ _ _ I).
    + intros a b E. destruct (str_eqb name a) eqn:Ea.
      * apply str_eqb_eq in Ea. subst a. rewrite assoc_ins_same in E. injection E as <-. cbn [In]. auto.
      * apply str_eqb_neq in Ea. rewrite assoc_ins_other in E by auto.
        destruct (ni_rd _ _ _ I a b E) as [? [? [? ?]]]. cbn [In]. auto.
    + intros n Hn. unfold canon. destruct (str_eqb name n) eqn:Ea.
      * apply str_eqb_eq in Ea. subst n. now rewrite assoc_ins_same.
      * apply str_eqb_neq in Ea. rewrite assoc_ins_other by auto. destruct Hn as [->|Hn]; [congruence|].
        now apply (ni_total _ _ _ I).
    + intros k n Hk [<-|Hn] C; [|now apply (ni_high _ _ _ I)].
      assert (k = e) as ->.
      { apply (ni_one _ _ _ I); auto. rewrite compat_sym in C. apply (compat_trans _ _ _ C Cne). }
      now rewrite (higher_alt _ _ _ _ _ _ An Ae).
  - (* higher version: the new name becomes the key *)
    assert (Cne : compat name e = true) by (apply on_track_compat; exists ak, nv, ev; auto).
    assert (Hne : name <> e) by (intros ->; contradiction).
    assert (Hhigh : higher name e = true) by now rewrite (higher_alt _ _ _ _ _ _ An Ae).
    assert (Hnr : assoc name rd = None).
    { destruct (assoc name rd) as [b|] eqn:E; auto. exfalso.
      destruct (ni_rd _ _ _ I _ _ E) as [_ [Hb [Hnm C]]].
      assert (b = e) as -> by (apply (ni_one _ _ _ I); auto; rewrite compat_sym in C; apply (compat_trans _ _ _ C Cne)).
      rewrite (ni_high _ _ _ I e name He Hnm Cne) in Hhigh. discriminate. }
    assert (Hke : forall k, In k keys -> compat name k = true -> k = e).
    { intros k Hk C. apply (ni_one _ _ _ I); auto. rewrite compat_sym in C. apply (compat_trans _ _ _ C Cne). }
    split.
    + exact ND'.
    + intros k Hk. apply Hk' in Hk as [[Hk _]| ->]; cbn [In]; auto. right. now apply (ni_contrib _ _ _ I).
    + intros k1 k2 H1 H2 C. apply Hk' in H1 as [[H1 N1]| ->]; apply Hk' in H2 as [[H2 N2]| ->]; auto.
      * now apply (ni_one _ _ _ I).
      * rewrite compat_sym in C. elim N1. now apply Hke.
      * elim N2. now apply Hke.
    + intros a b E. destruct (str_eqb e a) eqn:Ea.
      * apply str_eqb_eq in Ea. subst a. rewrite assoc_ins_same in E. injection E as <-.
        repeat split.
        -- intros H. apply Hk' in H as [[_ N]|H]; congruence.
        -- apply Hk'. auto.
        -- right. now apply (ni_contrib _ _ _ I).
        -- now rewrite compat_sym.
      * apply str_eqb_neq in Ea. rewrite assoc_ins_other in E by auto. rewrite assoc_map_retarget in E.
        destruct (assoc a rd) as [b0|] eqn:E0; [|discriminate]. injection E as <-.
        destruct (ni_rd _ _ _ I _ _ E0) as [Ha [Hb [Hc C]]].
        assert (a <> name) by (intros ->; congruence).
        repeat split.
        -- intros H1. apply Hk' in H1 as [[H1 _]|H1]; auto.
        -- destruct (str_eqb b0 e) eqn:Eb; apply Hk'; auto. left. split; auto. now apply str_eqb_neq.
        -- cbn [In]. auto.
        -- destruct (str_eqb b0 e) eqn:Eb; auto. apply str_eqb_eq in Eb. subst b0.
           rewrite compat_sym in Cne. apply (compat_trans _ _ _ C Cne).
    + intros n Hn. unfold canon. destruct (str_eqb e n) eqn:Ea.
      * apply str_eqb_eq in Ea. subst n. rewrite assoc_ins_same. apply Hk'. auto.
      * apply str_eqb_neq in Ea. rewrite assoc_ins_other by auto. rewrite assoc_map_retarget.
        destruct Hn as [<-|Hn]; [rewrite Hnr; apply Hk'; auto|].
        pose proof (ni_total _ _ _ I n Hn) as Hc. unfold canon in Hc.
        destruct (assoc n rd) as [b0|] eqn:E0.
        -- destruct (str_eqb b0 e) eqn:Eb; apply Hk'; auto. left. split; auto. now apply str_eqb_neq.
        -- apply Hk'. left. split; auto.
    + intros k n Hk Hn C. apply Hk' in Hk as [[Hk Nk]| ->].
      * destruct Hn as [<-|Hn]; [|now apply (ni_high _ _ _ I)]. elim Nk. now apply Hke.
      * destruct Hn as [<-|Hn]; [apply higher_irrefl|].
        assert (Ce : compat n e = true) by apply (compat_trans _ _ _ C Cne).
        pose proof (ni_high _ _ _ I e n He Hn Ce) as Hl.
        destruct (alt_key n) as [[kn vn]|] eqn:Ak; [|now apply higher_no_version_l].
        rewrite (higher_alt _ _ _ _ _ _ Ak An). rewrite (higher_alt _ _ _ _ _ _ Ak Ae) in Hl.
        unfold version_gtb in *. apply (not_gt_trans vn ev nv); unfold version_gt; auto.
Qed.

(** * Consequences of the invariant *)
Section Consequences.
  Variables (keys : list str) (rd : list (str * str)) (names : list str).
  Hypothesis I : NInv keys rd names.

  (** every contributed name reaches an import *)
  Lemma inv_total n : In n names -> In (canon rd n) keys.
  Proof. apply (ni_total _ _ _ I). Qed.

  (** the canonical name was contributed, is on the track, and nothing contributed on the track is higher *)
  Lemma inv_highest n : In n names ->
    In (canon rd n) names /\ compat n (canon rd n) = true /\
    forall m, In m names -> compat n m = true -> higher m (canon rd n) = false.
  Proof.
    intros Hn. pose proof (inv_total n Hn) as Hc. pose proof (canon_compat _ _ _ n I) as C. repeat split; auto.
    - now apply (ni_contrib _ _ _ I).
    - intros m Hm Cm. apply (ni_high _ _ _ I); auto. rewrite compat_sym in Cm. apply (compat_trans _ _ _ Cm C).
  Qed.

  (** ONE canonical name per track *)
  Lemma inv_one n m : In n names -> In m names -> compat n m = true -> canon rd n = canon rd m.
  Proof.
    intros Hn Hm C. apply (ni_one _ _ _ I); try now apply inv_total.
    pose proof (canon_compat _ _ _ n I) as Cn. pose proof (canon_compat _ _ _ m I) as Cm.
    rewrite compat_sym in Cn. apply (compat_trans _ _ _ Cn). apply (compat_trans _ _ _ C Cm).
  Qed.

  (** for every name whatsoever *)
  Lemma inv_idempotent n : canon rd (canon rd n) = canon rd n.
  Proof.
    unfold canon at 2 3. destruct (assoc n rd) as [c|] eqn:E.
    - destruct (ni_rd _ _ _ I _ _ E) as [_ [Hc _]]. unfold canon.
      destruct (assoc c rd) as [d|] eqn:E2; auto. apply (ni_rd _ _ _ I) in E2. tauto.
    - unfold canon. now rewrite E.
  Qed.
End Consequences.

(** a name that is on no contributed track is untouched by a step *)
Lemma NStep_other_tracks keys rd names name keys' rd' m :
  NInv keys rd names -> NStep keys rd name keys' rd' -> compat m name = false -> canon rd' m = canon rd m.
Proof.
  intros I S C. assert (Nm : m <> name) by (intros ->; rewrite compat_refl in C; discriminate).
  destruct S as [Hin | Hnin Hnone | e ak nv ev Hnin He An Ae Hv | e ak nv ev keys' Hnin He An Ae Hv ND' Hk']; auto.
  - unfold canon. now rewrite assoc_ins_other by auto.
  - assert (Cne : compat name e = true) by (apply on_track_compat; exists ak, nv, ev; auto).
    assert (Cme : compat m e = false).
    { destruct (compat m e) eqn:X; auto. rewrite compat_sym in Cne. rewrite (compat_trans _ _ _ X Cne) in C. discriminate. }
    assert (Nme : m <> e) by (intros ->; rewrite compat_refl in Cme; discriminate).
    unfold canon. rewrite assoc_ins_other by auto. rewrite assoc_map_retarget.
    destruct (assoc m rd) as [b|] eqn:E; auto. destruct (str_eqb b e) eqn:Eb; auto.
    apply str_eqb_eq in Eb. subst b. apply (ni_rd _ _ _ I) in E as [_ [_ [_ X]]]. congruence.
Qed.
