(** The checker on leaf kinds (functions, values, value types), as the aggregator uses it:
    an accepting verdict is stable under more fuel, hence (by C07's [value_type_spec]/[func_spec]) an accepting
    verdict means equal trees whatever the fuel was; the shared memo stays sound. *)
From Coq Require Import ZArith ZifyBool ZifyN Lia.
From WacV Require Import Str Types Checker SubSpec CheckerEq CheckerValue CheckerProofs.
From WacV Require Import Aggregator AggregatorFrame AggregatorRemap.

Lemma bind_ok {A B} (r : R A) (k : A -> R B) y : bind r k = Ok y -> exists x, r = Ok x /\ k x = Ok y.
Proof. destruct r; cbn [bind]; try discriminate. eauto. Qed.

(** * An accepting verdict survives more fuel *)
Lemma resolve_vt_mono t : forall F F' v v', (F <= F')%nat -> resolve_vt F t v = Ok v' -> resolve_vt F' t v = Ok v'.
Proof.
  induction F as [|F IH]; intros F' v v' L H; [discriminate|]. destruct F' as [|F']; [lia|].
  cbn [resolve_vt] in *. destruct v as [p|r|r|d]; auto.
  apply bind_ok in H as [x [H1 H2]]. rewrite H1. cbn [bind]. destruct x; auto. apply IH; auto. lia.
Qed.
Lemma resolve_res_mono t : forall F F' r r', (F <= F')%nat -> resolve_res F t r = Ok r' -> resolve_res F' t r = Ok r'.
Proof.
  induction F as [|F IH]; intros F' r r' L H; [discriminate|]. destruct F' as [|F']; [lia|].
  cbn [resolve_res] in *. apply bind_ok in H as [x [H1 H2]]. rewrite H1. cbn [bind].
  destruct (res_source x); auto. apply IH; auto. lia.
Qed.
Lemma resource_ok_mono F F' k at_ a bt b : (F <= F')%nat -> resource F k at_ a bt b = Ok tt -> resource F' k at_ a bt b = Ok tt.
Proof.
  intros L. unfold resource. destruct (id_eqb a b); auto. intros H.
  apply bind_ok in H as [ra [H1 H]]. apply bind_ok in H as [xa [H2 H]].
  apply bind_ok in H as [rb [H3 H]]. apply bind_ok in H as [xb [H4 H]].
  rewrite (resolve_res_mono _ _ _ _ _ L H1). cbn [bind]. rewrite H2. cbn [bind].
  rewrite (resolve_res_mono _ _ _ _ _ L H3). cbn [bind]. rewrite H4. cbn [bind]. exact H.
Qed.

Section RecMono.
  Variables rec rec' : valtype -> valtype -> R unit.
  Hypothesis Hrec : forall u v, rec u v = Ok tt -> rec' u v = Ok tt.
  Variable k : variance.

  Lemma unit_ok (r : R unit) x : r = Ok x -> r = Ok tt. Proof. destruct x. auto. Qed.

  Lemma tuple_items_ok : forall a b, tuple_items rec a b = Ok tt -> tuple_items rec' a b = Ok tt.
  Proof.
    induction a as [|x a IH]; intros [|y b]; cbn [tuple_items]; auto. intros H.
    apply bind_ok in H as [u [H1 H2]]. destruct u. rewrite (Hrec _ _ H1). cbn [bind]. auto.
  Qed.
  Lemma tuple_ok a b : tuple rec a b = Ok tt -> tuple rec' a b = Ok tt.
  Proof. unfold tuple. destruct (negb _); [discriminate|]. apply tuple_items_ok. Qed.
  Lemma record_fields_ok : forall a b, record_fields rec a b = Ok tt -> record_fields rec' a b = Ok tt.
  Proof.
    induction a as [|[an x] a IH]; intros [|[bn y] b]; cbn [record_fields]; auto.
    destruct (negb (str_eqb an bn)); [discriminate|]. intros H.
    apply bind_ok in H as [u [H1 H2]]. destruct u. rewrite (Hrec _ _ H1). cbn [bind]. auto.
  Qed.
  Lemma record_ok a b : record rec a b = Ok tt -> record rec' a b = Ok tt.
  Proof. unfold record. destruct (negb _); [discriminate|]. apply record_fields_ok. Qed.
  Lemma variant_payload_ok x y : variant_payload rec k x y = Ok tt -> variant_payload rec' k x y = Ok tt.
  Proof. destruct x, y; cbn [variant_payload]; auto. Qed.
  Lemma variant_cases_ok : forall a b, variant_cases rec k a b = Ok tt -> variant_cases rec' k a b = Ok tt.
  Proof.
    induction a as [|[an x] a IH]; intros [|[bn y] b]; cbn [variant_cases]; auto.
    destruct (negb (str_eqb an bn)); [discriminate|]. intros H.
    apply bind_ok in H as [u [H1 H2]]. destruct u. rewrite (variant_payload_ok _ _ H1). cbn [bind]. auto.
  Qed.
  Lemma variant_ok a b : variant rec k a b = Ok tt -> variant rec' k a b = Ok tt.
  Proof. unfold variant. destruct (negb _); [discriminate|]. apply variant_cases_ok. Qed.
  Lemma result_arm_ok o x y : result_arm rec k o x y = Ok tt -> result_arm rec' k o x y = Ok tt.
  Proof. destruct x, y; cbn [result_arm]; auto. Qed.
  Lemma payload_ok x y : payload rec x y = Ok tt -> payload rec' x y = Ok tt.
  Proof. destruct x, y; cbn [payload]; auto. Qed.

  Lemma mismatch_not_ok {X} (d : types -> X -> R desc) a at_ b bt : @mismatch unit X k d a at_ b bt <> Ok tt.
  Proof.
    unfold mismatch. destruct (ef2 k a at_ b bt) as [[e et] [f ft]]. intros H.
    apply bind_ok in H as [de [_ H]]. apply bind_ok in H as [df [_ H]]. discriminate.
  Qed.

  Lemma defined_type_ok df df' at_ a bt b :
    defined_type rec k df at_ a bt b = Ok tt -> defined_type rec' k df' at_ a bt b = Ok tt.
  Proof.
    unfold defined_type. destruct (id_eqb a b); auto. intros H.
    apply bind_ok in H as [da [H1 H]]. apply bind_ok in H as [db [H2 H]]. rewrite H1, H2. cbn [bind].
    destruct da, db; try discriminate H; try (exfalso; eapply mismatch_not_ok; exact H);
      auto using tuple_ok, record_ok, variant_ok, payload_ok.
    - destruct (negb (n =? n0)); [discriminate|]. auto.
    - apply bind_ok in H as [u [H3 H4]]. destruct u. rewrite (result_arm_ok _ _ _ H3). cbn [bind]. now apply result_arm_ok.
  Qed.
End RecMono.

Lemma value_type_ok_mono at_ bt : forall F F' k a b, (F <= F')%nat ->
  value_type F k at_ a bt b = Ok tt -> value_type F' k at_ a bt b = Ok tt.
Proof.
  induction F as [|F IH]; intros F' k a b L H; [discriminate|]. destruct F' as [|F']; [lia|].
  cbn [value_type] in *. apply bind_ok in H as [a' [H1 H]]. apply bind_ok in H as [b' [H2 H]].
  rewrite (resolve_vt_mono _ _ _ _ _ L H1), (resolve_vt_mono _ _ _ _ _ L H2). cbn [bind].
  destruct a', b'; try (exfalso; eapply mismatch_not_ok; exact H).
  - exact H.
  - now apply (resource_ok_mono (S F)).
  - now apply (resource_ok_mono (S F)).
  - eapply defined_type_ok; [|exact H]. intros u v Huv. apply IH; auto. lia.
Qed.

Lemma func_params_ok_mono at_ bt F F' k : (F <= F')%nat -> forall a b,
  func_params F k at_ a bt b = Ok tt -> func_params F' k at_ a bt b = Ok tt.
Proof.
  intros L. induction a as [|[an x] a IH]; intros [|[bn y] b]; cbn [func_params]; auto.
  destruct (negb (str_eqb an bn)); [discriminate|]. intros H.
  apply bind_ok in H as [u [H1 H2]]. destruct u. rewrite (value_type_ok_mono _ _ _ _ _ _ _ L H1). cbn [bind]. auto.
Qed.
Lemma func_ok_mono at_ bt F F' k a b : (F <= F')%nat -> func F k at_ a bt b = Ok tt -> func F' k at_ a bt b = Ok tt.
Proof.
  intros L. unfold func. destruct (id_eqb a b); auto. intros H.
  apply bind_ok in H as [fa [H1 H]]. apply bind_ok in H as [fb [H2 H]]. rewrite H1, H2. cbn [bind].
  destruct (ef k fa fb) as [e f]. destruct (negb (Bool.eqb (f_async fa) (f_async fb))); [discriminate|].
  destruct (negb (Nat.eqb (length (f_params fa)) (length (f_params fb)))); [discriminate|].
  apply bind_ok in H as [u [H3 H]]. destruct u. rewrite (func_params_ok_mono _ _ _ _ _ L _ _ H3). cbn [bind].
  destruct (f_result fa), (f_result fb); auto. now apply (value_type_ok_mono _ _ F).
Qed.

(** * Accepting verdicts on leaf kinds mean equal trees *)
Section Leaf.
  Variables at_ bt : types.
  Hypothesis same : t_tag at_ = t_tag bt -> at_ = bt.

  Lemma value_type_ok_sound F k a b ta tb :
    value_type F k at_ a bt b = Ok tt -> Unf at_ a ta -> Unf bt b tb -> ta = tb.
  Proof.
    intros H [g1 H1] [g2 H2]. set (G := Nat.max F (Nat.max g1 g2)).
    apply (value_type_ok_mono _ _ F G) in H; [|lia].
    apply (unfold_vt_mono g1 G) in H1; [|lia]. apply (unfold_vt_mono g2 G) in H2; [|lia].
    destruct (value_type_spec at_ bt same G G k a b ta tb (le_n _) H1 H2) as [[_ E]|[[e E] _]]; auto. congruence.
  Qed.
  Lemma func_ok_sound F k a b fa fb :
    func F k at_ a bt b = Ok tt -> UnfF at_ a fa -> UnfF bt b fb -> fa = fb.
  Proof.
    intros H [g1 H1] [g2 H2]. set (G := Nat.max F (Nat.max g1 g2)).
    apply (func_ok_mono _ _ F G) in H; [|lia].
    apply (unfold_func_mono g1 G) in H1; [|lia]. apply (unfold_func_mono g2 G) in H2; [|lia].
    destruct (func_spec at_ bt same G G k a b fa fb (le_n _) H1 H2) as [[_ E]|[[e E] _]]; auto. congruence.
  Qed.

  (** the trees of leaf kinds *)
  Lemma UnfK_leaf_inv t k tr : leafk k = true -> UnfK t k tr ->
    match k with
    | KFunc i => exists ft, tr = XFunc ft /\ UnfF t i ft
    | KValue v => exists vt, tr = XValue vt /\ Unf t v vt
    | KType (TValue v) => exists vt, tr = XTValue vt /\ Unf t v vt
    | _ => False
    end.
  Proof.
    intros Hl [g H]. destruct g as [|g]; [discriminate|]. cbn [unfold] in H.
    destruct k as [[| |v| | |]|i| | | |v]; try discriminate Hl.
    - destruct (unfold_vt (S g) t v) eqn:E; [|discriminate]. injection H as <-. eexists; split; eauto. now exists (S g).
    - destruct (unfold_func (S g) t i) eqn:E; [|discriminate]. injection H as <-. eexists; split; eauto. now exists (S g).
    - destruct (unfold_vt (S g) t v) eqn:E; [|discriminate]. injection H as <-. eexists; split; eauto. now exists (S g).
  Qed.

  (** one step of the checker's dispatch on leaf kinds, without the memo *)
  Lemma leaf_step_sound rec vf s a b ta tb s' :
    leafk a = true -> leafk b = true ->
    is_subtype_ rec vf s at_ a bt b = (Ok tt, s') -> UnfK at_ a ta -> UnfK bt b tb -> ta = tb /\ s' = s.
  Proof.
    intros La Lb H Ha Hb. apply (UnfK_leaf_inv _ _ _ La) in Ha. apply (UnfK_leaf_inv _ _ _ Lb) in Hb.
    unfold is_subtype_ in H.
    destruct a as [[| |va| | |]|ia| | | |va]; try discriminate La; destruct b as [[| |vb| | |]|ib| | | |vb]; try discriminate Lb;
      cbn [ty_ lift] in H; try (injection H as H _; exfalso; eapply mismatch_not_ok; exact H).
    - injection H as H <-. destruct Ha as [x [-> Ha]], Hb as [y [-> Hb]]. split; auto. f_equal. eapply value_type_ok_sound; eauto.
    - injection H as H <-. destruct Ha as [x [-> Ha]], Hb as [y [-> Hb]]. split; auto. f_equal. eapply func_ok_sound; eauto.
    - injection H as H <-. destruct Ha as [x [-> Ha]], Hb as [y [-> Hb]]. split; auto. f_equal. eapply value_type_ok_sound; eauto.
  Qed.
End Leaf.
