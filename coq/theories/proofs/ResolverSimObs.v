(** C04 proofs, part 13: what the simulation relation says about the queries of the resulting graph. *)
From Coq Require Import List Arith Bool NArith Lia.
From WacV Require Import Str Token Lexer Semver Names Ast Graph Resolver LangSpec ResolverProofs ResolverNew
  ResolverStmts ResolverInv ResolverSim ResolverSimExpr ResolverSimNew ResolverSimStmt GraphInv.
Import ListNotations.
Local Open Scope nat_scope.

Section Obs.
  Variable u : runiverse.
  Variable K : kid -> Prop.
  Hypothesis U : uok u K.
  Variables (st : rstate) (env : senv) (vm : list sval).
  Hypothesis R : Rel u K st env vm.

  (** every node denotes a value *)
  Lemma obs_total k : k < length (nodes (rs_g st)) -> exists nd v, get_node (rs_g st) k = Some nd /\ nth_error vm k = Some v.
  Proof.
    intros L. pose proof (r_live _ _ _ _ _ R k L) as X. destruct (get_node (rs_g st) k) as [nd|]; [|now contradiction X].
    rewrite <- (r_len _ _ _ _ _ R) in L. apply nth_error_Some in L. destruct (nth_error vm k) as [v|]; [eauto|now contradiction L].
  Qed.

  (** exports: the export map, in order, is the list of exports the document denotes *)
  Lemma obs_exports :
    Forall2 (fun a b => ru_text u (fst a) = fst b /\ nth_error vm (snd a) = Some (snd b)) (exports (rs_g st)) (se_exports env).
  Proof.
    eapply Forall2_impl; [|apply (r_exports _ _ _ _ _ R)]. intros a b [E V]. split; auto. rewrite E. apply (uo_text_intern _ _ U).
  Qed.

  (** explicit imports: the import nodes, in creation order, are the imports the document denotes *)
  Lemma obs_imports :
    Forall2 (fun a b => ru_text u (fst a) = fst b /\ nth_error vm (snd a) = Some (VImport (fst b)) /\
                        exists nd, get_node (rs_g st) (snd a) = Some nd /\ nk nd = NImport (fst a) /\ nitem nd = snd b)
            (rev (imports (rs_g st))) (se_imports env).
  Proof.
    eapply Forall2_impl; [|apply (r_imports _ _ _ _ _ R)]. intros a b (E & V & nd & G & I). split; [rewrite E; apply (uo_text_intern _ _ U)|].
    split; auto. exists nd. split; auto. split; auto.
    destruct (r_node _ _ _ _ _ R _ _ _ G V) as (_ & _ & _ & Tag). cbn in Tag. now rewrite E.
  Qed.

  (** an alias node is the access of its source's value *)
  Lemma obs_alias k w e :
    nth_error vm k = Some (VAccess w e) ->
    exists src nm, get_alias_source u (rs_g st) k = Some (src, nm) /\ ru_text u nm = e /\ nth_error vm src = Some w.
  Proof.
    intros V. destruct (rel_live u K _ _ _ _ _ R V) as (nd & G).
    destruct (r_node _ _ _ _ _ R k nd _ G V) as (_ & _ & _ & KA & src0 & idx0 & Ein).
    unfold get_alias_source. destruct (find _ (incoming (rs_g st) k)) as [ed|] eqn:Fd.
    - apply find_some in Fd as [He Ke]. unfold incoming in He. apply filter_In in He as [He T]. apply Nat.eqb_eq in T.
      destruct (ek ed) as [idx| |] eqn:Kk; try discriminate.
      destruct (r_alias _ _ _ _ _ R ed idx He Kk) as (sn & ex & nm & kd & w' & G1 & U1 & N1 & V1 & V2).
      rewrite G1, U1, N1. rewrite T, V in V2. injection V2 as -> ->. eauto.
    - exfalso. assert (Hi : In {| esrc := src0; etgt := k; ek := EAlias idx0 |} (incoming (rs_g st) k)).
      { unfold incoming. apply filter_In. split; auto. cbn. apply Nat.eqb_refl. }
      pose proof (find_none _ _ Fd _ Hi) as X. discriminate.
  Qed.

  (** instantiations: the arguments of the node of the j-th instantiation are exactly the bound
      imports of the j-th instantiation the document denotes, with the denoted values *)
  Lemma obs_args k j si :
    nth_error vm k = Some (VInst j) -> nth_error (se_insts env) j = Some si ->
    exists pd id nd,
      nth_error (u_pkgs u) (si_pkg si) = Some pd /\ get_node (rs_g st) k = Some nd /\ npkg nd = Some id /\
      get_pkg (rs_g st) id = Some (si_pkg si) /\ nitem nd = pd_inst pd /\
      map fst (si_bindings si) = map fst (text_items u (pd_imports pd)) /\
      (forall a src, In (a, src) (get_args u (rs_g st) k) ->
         exists idx kd b v, nth_error (pd_imports pd) idx = Some (a, kd) /\
           nth_error (si_bindings si) idx = Some (ru_text u a, b) /\ binding_value (ru_text u a) b = Some v /\
           nth_error vm src = Some v) /\
      (forall idx a kd b, nth_error (pd_imports pd) idx = Some (a, kd) ->
         nth_error (si_bindings si) idx = Some (ru_text u a, b) ->
         match binding_value (ru_text u a) b with
         | Some v => exists src, In (a, src) (get_args u (rs_g st) k) /\ nth_error vm src = Some v /\
                       forall src', In (a, src') (get_args u (rs_g st) k) -> src' = src
         | None => forall src, ~ In (a, src) (get_args u (rs_g st) k)
         end).
  Proof.
    intros V Sj. destruct (rel_live u K _ _ _ _ _ R V) as (nd & G).
    destruct (r_node _ _ _ _ _ R k nd _ G V) as (_ & VK & _ & (sat & KI) & si' & id & Sj' & Pk & GP & pd & Ppd & Mf & AE).
    rewrite Sj in Sj'. injection Sj' as <-.
    exists pd, id, nd. split; auto. split; auto. split; auto. split; auto.
    split. { cbn in VK. rewrite Sj in VK. unfold pkg_world in VK. rewrite Ppd in VK. now injection VK as <-. }
    split; auto.
    assert (Im : inst_imports u (rs_g st) nd = Some (pd_imports pd)).
    { unfold inst_imports. rewrite Pk. unfold pkg_desc. now rewrite GP, Ppd. }
    assert (Bs : forall idx a kd, nth_error (pd_imports pd) idx = Some (a, kd) -> exists b, nth_error (si_bindings si) idx = Some (ru_text u a, b)).
    { intros idx a kd N1. assert (N2 : nth_error (map fst (si_bindings si)) idx = Some (ru_text u a)).
      { rewrite Mf. unfold text_items. rewrite map_map. cbn. rewrite nth_error_map, N1. reflexivity. }
      rewrite nth_error_map in N2. destruct (nth_error (si_bindings si) idx) as [[x b]|]; [|discriminate]. cbn in N2. injection N2 as ->. eauto. }
    assert (NDi : NoDup (map fst (pd_imports pd))) by (eapply (uo_imports_nodup _ _ U); eauto).
    assert (Fwd : forall a src, In (a, src) (get_args u (rs_g st) k) ->
              exists idx kd b, nth_error (pd_imports pd) idx = Some (a, kd) /\
                nth_error (si_bindings si) idx = Some (ru_text u a, b) /\
                In {| esrc := src; etgt := k; ek := EArg idx |} (edges (rs_g st))).
    { intros a src Hin. apply get_args_has_arg in Hin as (nd' & sat' & imps & e & i & kd & G' & K' & Im' & He & T & Sr & Ke & Nt).
      rewrite G in G'. injection G' as <-. rewrite Im in Im'. injection Im' as <-.
      destruct (Bs i a kd Nt) as (b & N2). destruct e as [es et ekk]. cbn in T, Sr, Ke. subst. exists i, kd, b. auto. }
    assert (Idx : forall idx idx' a kd kd', nth_error (pd_imports pd) idx = Some (a, kd) ->
              nth_error (pd_imports pd) idx' = Some (a, kd') -> idx = idx').
    { intros idx idx' a kd kd' N1 N1'. pose proof (get_full_nodup _ NDi idx a kd 0 N1) as X1.
      pose proof (get_full_nodup _ NDi idx' a kd' 0 N1') as X2. rewrite X1 in X2. now injection X2. }
    split.
    - intros a src Hin. destruct (Fwd a src Hin) as (idx & kd & b & N1 & N2 & He).
      specialize (AE idx a kd b N1 N2). destruct (binding_value (ru_text u a) b) as [v|] eqn:BV.
      + destruct AE as (src' & _ & Vs & Uq). rewrite (Uq _ He). exists idx, kd, b, v. auto.
      + exfalso. exact (AE _ He).
    - intros idx a kd b N1 N2. pose proof (AE idx a kd b N1 N2) as A0.
      destruct (binding_value (ru_text u a) b) as [v|] eqn:BV.
      + destruct A0 as (src & Ein & Vs & Uq). exists src. split; [|split; auto].
        * apply has_arg_get_args. exists nd, sat, (pd_imports pd), {| esrc := src; etgt := k; ek := EArg idx |}, idx, kd.
          repeat split; auto.
        * intros src' Hin. destruct (Fwd a src' Hin) as (idx' & kd' & b' & N1' & _ & He').
          rewrite (Idx _ _ _ _ _ N1' N1) in He'. now apply Uq.
      + intros src Hin. destruct (Fwd a src Hin) as (idx' & kd' & b' & N1' & _ & He').
        rewrite (Idx _ _ _ _ _ N1' N1) in He'. exact (A0 _ He').
  Qed.
End Obs.
