(** Shape of accepted version texts: canonical decimal numerals, and text/record bijection. *)
From WacV Require Import Str Ord Semver SemverProofs.
Require Import ZArith ZifyBool ZifyN.
Ltac Zify.zify_post_hook ::= Z.div_mod_to_equations.
Arguments N.mul : simpl never.
Arguments N.add : simpl never.
Arguments N.sub : simpl never.

Definition dval (acc : N) (ds : str) : N := fold_left (fun a d => a * 10 + (d - 48)) ds acc.

(** canonical numeral: "0", or digits not starting with '0' *)
Definition canonical (ds : str) : Prop :=
  forallb is_digit ds = true /\ (ds = [c_zero] \/ exists d r, ds = d :: r /\ d <> c_zero).

Definition not_digit_head (r : str) : Prop := match r with [] => True | c :: _ => is_digit c = false end.

Lemma is_digit_range c : is_digit c = true <-> 48 <= c <= 57.
Proof. unfold is_digit. lia. Qed.

Lemma num_loop_pos v s n r :
  0 < v -> num_loop v true s = Some (n, r) ->
  exists ds, s = ds ++ r /\ forallb is_digit ds = true /\ not_digit_head r /\ n = dval v ds.
Proof.
  revert v. induction s as [|c s IH]; intros v Hv H; cbn in H.
  - injection H as <- <-. exists []; cbn; auto.
  - destruct (is_digit c) eqn:D.
    + replace (v =? 0) with false in H by lia. cbn in H.
      destruct (v * 10 + (c - 48) <=? u64_max) eqn:B; try discriminate.
      apply IH in H; [|lia]. destruct H as [ds [-> [F [Hr ->]]]].
      exists (c :: ds); cbn; rewrite D; auto.
    + injection H as <- <-. exists []; cbn; rewrite D; auto.
Qed.

Lemma numeric_identifier_shape s n r :
  numeric_identifier s = Some (n, r) ->
  exists ds, s = ds ++ r /\ canonical ds /\ not_digit_head r /\ n = dval 0 ds.
Proof.
  unfold numeric_identifier. destruct s as [|c s]; cbn; try discriminate.
  destruct (is_digit c) eqn:D; try discriminate.
  replace (0 * 10 + (c - 48)) with (c - 48) by lia.
  destruct (c - 48 <=? u64_max) eqn:B; try discriminate.
  apply is_digit_range in D as D'.
  destruct (N.eq_dec c 48) as [->|Hc].
  - (* "0": the next character must not be a digit *)
    cbn. destruct s as [|c2 s]; cbn.
    + intros H; injection H as <- <-. exists [c_zero]; repeat split; cbn; auto.
    + destruct (is_digit c2) eqn:D2; cbn; try discriminate.
      intros H; injection H as <- <-. exists [c_zero]; repeat split; cbn; auto.
  - intros H. apply num_loop_pos in H; [|lia].
    destruct H as [ds [-> [F [Hr ->]]]].
    exists (c :: ds). repeat split; auto.
    + cbn. rewrite D; auto.
    + right. exists c, ds; auto.
Qed.

(** injectivity of canonical numerals, via least-significant-first evaluation *)
Fixpoint rval (l : str) : N := match l with [] => 0 | d :: r => (d - 48) + 10 * rval r end.

Lemma dval_app acc a b : dval acc (a ++ b) = dval (dval acc a) b.
Proof. unfold dval. apply fold_left_app. Qed.

Lemma dval_shift acc ds : dval acc ds = acc * 10 ^ (N.of_nat (length ds)) + dval 0 ds.
Proof.
  revert acc. induction ds as [|d ds IH]; intros acc.
  - cbn. lia.
  - cbn [dval fold_left length]. fold (dval (acc * 10 + (d - 48)) ds). fold (dval (0 * 10 + (d - 48)) ds).
    rewrite IH. rewrite (IH (0 * 10 + (d - 48))).
    rewrite Nat2N.inj_succ, N.pow_succ_r'. lia.
Qed.

Lemma dval_pos_ge ds d r : ds = d :: r -> forallb is_digit ds = true -> d <> c_zero ->
  10 ^ N.of_nat (length r) <= dval 0 ds.
Proof.
  intros -> F Hd. cbn in F. apply andb_true_iff in F as [D _]. apply is_digit_range in D.
  cbn [dval fold_left]. fold (dval (0 * 10 + (d - 48)) r). rewrite dval_shift.
  unfold c_zero in Hd. nia.
Qed.

Lemma dval_lt ds : forallb is_digit ds = true -> dval 0 ds < 10 ^ N.of_nat (length ds).
Proof.
  induction ds as [|d ds IH] using rev_ind; intros F.
  - cbn. lia.
  - rewrite forallb_app in F. apply andb_true_iff in F as [F1 F2]. cbn in F2.
    apply andb_true_iff in F2 as [D _]. apply is_digit_range in D.
    rewrite dval_app. cbn [dval fold_left]. specialize (IH F1).
    rewrite app_length. cbn [length]. rewrite Nat.add_1_r, Nat2N.inj_succ, N.pow_succ_r'. lia.
Qed.

Lemma canonical_inj a b : canonical a -> canonical b -> dval 0 a = dval 0 b -> a = b.
Proof.
  (* equal values force equal lengths, then digitwise equality *)
  assert (Hlen : forall a b, canonical a -> canonical b -> dval 0 a = dval 0 b -> (length a <= length b)%nat).
  { intros x y [Fx Cx] [Fy Cy] E.
    destruct Cx as [->|[d [r [-> Hd]]]].
    - destruct Cy as [->|[d' [r' [-> Hd']]]]; cbn; lia.
    - pose proof (dval_pos_ge _ d r eq_refl Fx Hd) as L.
      pose proof (dval_lt y Fy) as U. rewrite E in L.
      assert (10 ^ N.of_nat (length r) < 10 ^ N.of_nat (length y)) as P by lia.
      apply N.pow_lt_mono_r_iff in P; [|lia]. cbn [length]. lia. }
  intros Ca Cb E.
  assert (L : length a = length b) by (apply Nat.le_antisymm; apply Hlen; auto).
  destruct Ca as [Fa _], Cb as [Fb _]. clear Hlen.
  revert b Fb E L. induction a as [|x a IH] using rev_ind; intros b Fb E L.
  - destruct b; cbn in L; try discriminate; auto.
  - destruct b as [|y b _] using rev_ind; [rewrite app_length in L; cbn in L; lia|].
    rewrite !app_length in L. cbn in L.
    rewrite forallb_app in Fa, Fb. apply andb_true_iff in Fa as [Fa Dx], Fb as [Fb Dy]. cbn in Dx, Dy.
    apply andb_true_iff in Dx as [Dx _], Dy as [Dy _]. apply is_digit_range in Dx, Dy.
    rewrite !dval_app in E. cbn [dval fold_left] in E.
    fold (dval 0 a) in E. fold (dval 0 b) in E.
    assert (x = y /\ dval 0 a = dval 0 b) as [-> E'] by lia.
    f_equal. apply IH; auto. lia.
Qed.

(** [identifier] returns a split of its input. *)
Ltac solve_app := repeat (rewrite <- app_assoc); cbn [app]; rewrite ?app_nil_r; try reflexivity.

Lemma ident_loop_split is_pre acc seg nd s p r :
  ident_loop is_pre acc seg nd s = Some (p, r) ->
  acc ++ seg ++ s = p ++ r.
Proof.
  revert acc seg nd. induction s as [|c s IH]; intros acc seg nd H; cbn in H.
  - destruct seg as [|c0 seg'].
    + destruct acc; cbn in H; try discriminate. injection H as <- <-. reflexivity.
    + destruct (is_pre && _ && _ && _); try discriminate. injection H as <- <-. solve_app.
  - destruct (is_ident_nondigit c).
    + apply IH in H. rewrite <- H. solve_app.
    + destruct (is_digit c).
      * apply IH in H. rewrite <- H. solve_app.
      * destruct seg as [|c0 seg'].
        -- destruct acc; cbn in H; try discriminate.
           destruct (negb _); try discriminate. injection H as <- <-. solve_app.
        -- destruct (is_pre && _ && _ && _); try discriminate.
           destruct (c =? c_dot) eqn:E.
           ++ apply IH in H. apply N.eqb_eq in E; subst c. rewrite <- H. solve_app.
           ++ injection H as <- <-. solve_app.
Qed.

Lemma identifier_split is_pre s p r : identifier is_pre s = Some (p, r) -> s = p ++ r.
Proof. unfold identifier. intros H. apply ident_loop_split in H. exact H. Qed.

(** The text of an accepted version. *)
Definition version_text (dM dm dp : str) (v : version) : str :=
  dM ++ c_dot :: dm ++ c_dot :: dp
  ++ (if is_nil (pre v) then [] else c_dash :: pre v)
  ++ (if is_nil (build v) then [] else c_plus :: build v).

Lemma dot_inv s r : dot s = Some r -> s = c_dot :: r.
Proof.
  destruct s as [|c s]; cbn; try discriminate. destruct (c =? c_dot) eqn:E; try discriminate.
  apply N.eqb_eq in E. congruence.
Qed.

Lemma strip_prefix_inv c s r : strip_prefix c s = Some r -> s = c :: r.
Proof.
  destruct s as [|x s]; cbn; try discriminate. destruct (x =? c) eqn:E; try discriminate.
  apply N.eqb_eq in E. congruence.
Qed.

Lemma is_nil_true {A} (l : list A) : is_nil l = true -> l = [].
Proof. destruct l; cbn; congruence. Qed.

Ltac fin := repeat match goal with |- _ /\ _ => split end; auto.

Ltac vt := unfold version_text; cbn; repeat match goal with H : is_nil _ = false |- _ => rewrite H end; cbn; fin; solve_app.

Lemma parse_version_shape text v :
  parse_version text = Some v ->
  exists dM dm dp, text = version_text dM dm dp v /\
    canonical dM /\ canonical dm /\ canonical dp /\
    major v = dval 0 dM /\ minor v = dval 0 dm /\ patch v = dval 0 dp.
Proof.
  unfold parse_version. destruct (is_nil text) eqn:N0; try discriminate.
  destruct (numeric_identifier text) as [[maj t1]|] eqn:E1; try discriminate.
  destruct (dot t1) as [t2|] eqn:D1; try discriminate.
  destruct (numeric_identifier t2) as [[mi t3]|] eqn:E2; try discriminate.
  destruct (dot t3) as [t4|] eqn:D2; try discriminate.
  destruct (numeric_identifier t4) as [[pa t5]|] eqn:E3; try discriminate.
  apply numeric_identifier_shape in E1 as [dM [-> [CM [_ ->]]]].
  apply numeric_identifier_shape in E2 as [dm [-> [Cm [_ ->]]]].
  apply numeric_identifier_shape in E3 as [dp [-> [Cp [_ ->]]]].
  apply dot_inv in D1, D2. subst t1 t3.
  destruct (is_nil t5) eqn:N5.
  - intros H; injection H as <-. apply is_nil_true in N5; subst t5.
    exists dM, dm, dp. vt.
  - intros H.
    destruct (strip_prefix c_dash t5) as [t6|] eqn:S1.
    + destruct (identifier true t6) as [[p t7]|] eqn:I1; try discriminate.
      destruct (is_nil p) eqn:Np; try discriminate.
      apply strip_prefix_inv in S1. apply identifier_split in I1. subst t5 t6.
      destruct (strip_prefix c_plus t7) as [t8|] eqn:S2.
      * destruct (identifier false t8) as [[b t9]|] eqn:I2; try discriminate.
        destruct (is_nil b) eqn:Nb; try discriminate.
        destruct (is_nil t9) eqn:N9; try discriminate.
        injection H as <-. apply strip_prefix_inv in S2. apply identifier_split in I2.
        apply is_nil_true in N9. subst.
        exists dM, dm, dp. vt.
      * destruct (is_nil t7) eqn:N7; try discriminate. injection H as <-.
        apply is_nil_true in N7; subst.
        exists dM, dm, dp. vt.
    + destruct (strip_prefix c_plus t5) as [t8|] eqn:S2.
      * destruct (identifier false t8) as [[b t9]|] eqn:I2; try discriminate.
        destruct (is_nil b) eqn:Nb; try discriminate.
        destruct (is_nil t9) eqn:N9; try discriminate.
        injection H as <-. apply strip_prefix_inv in S2. apply identifier_split in I2.
        apply is_nil_true in N9. subst.
        exists dM, dm, dp. vt.
      * rewrite N5 in H. discriminate.
Qed.

(** Equal parsed versions come from equal texts. *)
Theorem parse_version_inj t1 t2 v :
  parse_version t1 = Some v -> parse_version t2 = Some v -> t1 = t2.
Proof.
  intros H1 H2.
  apply parse_version_shape in H1 as [a1 [b1 [c1 [-> [A1 [B1 [C1 [M1 [m1 P1]]]]]]]]].
  apply parse_version_shape in H2 as [a2 [b2 [c2 [-> [A2 [B2 [C2 [M2 [m2 P2]]]]]]]]].
  assert (a1 = a2) by (apply canonical_inj; congruence).
  assert (b1 = b2) by (apply canonical_inj; congruence).
  assert (c1 = c2) by (apply canonical_inj; congruence).
  subst. reflexivity.
Qed.
