(** Copying a NESTED instance requirement of a contributor into the aggregator ([remap_item_kind] / [remap_interface]):
    the copy denotes the same tree and uses only interfaces appended by this copy - one per MENTION of an anonymous
    interface of the contributor, so the copy is tree-shaped ([Den]) even when the contributor shares interfaces between
    several places ([SDen]) - hence it is disjoint from everything that was there, and everything else is left alone.
    Anonymous interfaces are neither looked up in nor recorded in the remap table; a root interface with an identifier is
    recorded (it must not have been recorded before). *)
From Coq Require Import ZArith ZifyBool ZifyN Lia.
From WacV Require Import Str Names Types Checker SubSpec CheckerEq CheckerValue CheckerProofs SubSpecProofs.
From WacV Require Import Aggregator AggregatorSpec AggregatorFrame AggregatorRemap AggregatorChecker AggregatorNames
     AggregatorFlat AggregatorNestedSpec AggregatorNestedDen.

Section NCopy.
  Variable ord : list (str * id) -> list (str * id).
  Variable cf : nat.
  Variable Col : types -> Prop.
  Hypothesis Col_same : forall t1 t2, Col t1 -> Col t2 -> t_tag t1 = t_tag t2 -> t1 = t2.
  Variable tag0 : N.
  Hypothesis Col_tag : forall t, Col t -> t_tag t <> tag0.
  Variable t : types.
  Hypothesis Ct : Col t.
  Notation MI := (MInv Col tag0).

  Definition RKpost (d : nat) (tr : tree) (c : core) (k' : kind) (c' : core) : Prop :=
    exists ids', Den d (c_types c') k' tr ids' /\ MI c' /\ AExt c c' /\ c_ifaces c' = c_ifaces c /\
                 newids c ids' /\ rm_frame [] c c'.
  Definition RK (d : nat) : Prop := forall F k tr idb c k' c',
    MI c -> SDen d t k tr idb -> remap_item_kind ord cf F t k c = AOk (k', c') -> RKpost d tr c k' c'.
  Definition RI (d : nat) : Prop := forall F i oid e idsb c y c',
    MI c -> SIDen d t i oid e idsb ->
    (forall nm, oid = Some nm -> assoc nm (c_ifaces c) = None /\ find_compat nm (ord (c_ifaces c)) = None /\
                                 rm_get (TInterface i) (c_remapped c) = None) ->
    remap_interface ord cf F t i c = AOk (y, c') ->
    exists ids', IDen d (c_types c') y oid e ids' /\ MI c' /\ AExt c c' /\ newids c ids' /\
      rm_frame (match oid with Some _ => [i] | None => [] end) c c' /\
      c_ifaces c' = match oid with Some nm => ins nm y (c_ifaces c) | None => c_ifaces c end.

  Lemma MI_AExt c c' : MI c -> AExt c c' -> RInv Col c' -> MI c'.
  Proof.
    intros I E R. split; auto.
    - rewrite (ext_tag _ _ (ax_types _ _ E)). apply (mi_tag _ _ _ I).
    - eapply CacheInv_ext; [apply E | apply E | apply (mi_cache _ _ _ I)].
  Qed.

  (** the exports of an interface, one after the other *)
  Lemma copy_kids d (HK : RK d) F : forall exs e own c es c',
    MI c -> kids (SDen d t) own exs e -> NoDup (map fst exs) ->
    mapM (fun nk : str * kind => k' <-- remap_item_kind ord cf F t (snd nk) ;;; ret (fst nk, k')) exs c = AOk (es, c') ->
    exists own', map fst es = map fst exs /\ kids (Den d (c_types c')) own' es e /\ MI c' /\ AExt c c' /\
      c_ifaces c' = c_ifaces c /\
      (forall n, In n (map fst exs) -> newids c (own' n)) /\
      (forall n m j, In n (map fst exs) -> In m (map fst exs) -> n <> m -> In j (own' n) -> ~ In j (own' m)) /\
      rm_frame [] c c'.
  Proof.
    induction exs as [|[n k] exs IH]; intros e own c es c' I K ND H; cbn [mapM] in H.
    - apply ret_ok in H as [-> ->]. inversion K; subst. exists own. split; auto. split; [constructor|]. split; auto.
      split; [apply AExt_refl|]. split; auto. split; [intros ? []|]. split; [intros ? ? ? []|apply rm_frame_refl].
    - inversion K as [|? [n' tr] ? e0 [En Hk] K0]; subst. cbn [fst snd] in *. subst n'.
      cbn [map fst] in ND. inversion ND as [|? ? Hn ND']; subst.
      apply bindM_ok in H as [y [c1 [H1 H]]]. apply bindM_ok in H as [ys [c2 [H2 H]]]. apply ret_ok in H as [-> ->].
      apply bindM_ok in H1 as [k' [c0 [H0 H1]]]. apply ret_ok in H1 as [-> ->]. cbn [fst snd] in *.
      destruct (HK F k tr (own n) c k' c0 I Hk H0) as [ids1 [D1 [I1 [E1 [F1 [N1 R1]]]]]].
      destruct (IH e0 own c0 ys c2 I1 K0 ND' H2) as [own' [Ky [K2 [I2 [E2 [F2 [N2 [D2 R2]]]]]]]].
      assert (Hlt1 : forall j, In j ids1 -> (id_idx j < length (t_interfaces (c_types c0)))%nat).
      { intros j Hj. destruct (Den_exist _ _ _ _ _ D1 j Hj) as [z Hz]. now apply get_if_lt in Hz. }
      exists (upd own' n ids1). split; [cbn [map fst]; now rewrite Ky|]. split; [|split; [exact I2|]].
      + constructor.
        * cbn [fst snd]. split; auto. rewrite upd_same. eapply Den_frame; [apply E2| |exact D1].
          intros j z _. now apply AExt_get_if.
        * apply (kids_impl (Den d (c_types c2)) (Den d (c_types c2)) own' (upd own' n ids1) ys e0); [|exact K2]. intros m k0 tr0 Hin Hd. rewrite upd_other; auto.
          intros ->. apply Hn. rewrite <- Ky. change n with (fst (n, k0)). now apply in_map.
      + split; [eapply AExt_trans; eauto|]. split; [congruence|]. split; [|split].
        * intros m [<-|Hm]; [now rewrite upd_same|]. rewrite upd_other by (intros ->; contradiction).
          intros j Hj. pose proof (N2 m Hm j Hj). pose proof (AExt_len _ _ E1). lia.
        * intros a b j Ha Hb Nab Hja Hjb. unfold upd in Hja, Hjb.
          destruct (str_eqb a n) eqn:Ean, (str_eqb b n) eqn:Ebn.
          -- apply seqb_eq in Ean, Ebn. congruence.
          -- apply seqb_eq in Ean. subst a. destruct Hb as [Hb|Hb]; [subst b; rewrite seqb_refl in Ebn; discriminate|].
             pose proof (Hlt1 j Hja). pose proof (N2 b Hb j Hjb). lia.
          -- apply seqb_eq in Ebn. subst b. destruct Ha as [Ha|Ha]; [subst a; rewrite seqb_refl in Ean; discriminate|].
             pose proof (Hlt1 j Hjb). pose proof (N2 a Ha j Hja). lia.
          -- destruct Ha as [Ha|Ha]; [subst a; rewrite seqb_refl in Ean; discriminate|].
             destruct Hb as [Hb|Hb]; [subst b; rewrite seqb_refl in Ebn; discriminate|]. exact (D2 a b j Ha Hb Nab Hja Hjb).
        * eapply rm_frame_trans; eauto.
  Qed.

  Lemma ext_add_if T x : ext T (t_with_interfaces T (t_interfaces T ++ [x])).
  Proof. split; cbn; auto using prefix_refl. Qed.

  Lemma RI_of_RK d : RK d -> RI d.
  Proof.
    intros HK F i oid e idsb c y c' I [exs [own [Hg [ND [K [_ ->]]]]]] Hlook H.
    destruct F as [|f]; [discriminate|]. cbn [remap_interface] in H.
    apply bindM_ok in H as [x0 [c0 [H0 H]]]. rewrite Hg in H0. cbn [idxM] in H0. apply ret_ok in H0 as [-> ->].
    cbn [i_id i_uses i_exports] in H.
    apply bindM_ok in H as [hit [c0 [H0 H]]].
    assert (Hhit : hit = None /\ c0 = c).
    { destruct oid as [nm|].
      - destruct (Hlook nm eq_refl) as [L1 [L2 _]]. apply bindM_ok in H0 as [e0 [c1 [H1 H0]]].
        unfold lookup_iface in H1. rewrite L1, L2 in H1. injection H1 as <- <-. now apply ret_ok in H0 as [-> ->].
      - now apply ret_ok in H0 as [-> ->]. }
    destruct Hhit as [-> ->]. clear H0.
    apply bindM_ok in H as [r [c0 [H0 H]]].
    assert (Hr : r = None /\ c0 = c).
    { destruct oid as [nm|].
      - unfold remapped_get in H0. injection H0 as <- <-. split; auto. now destruct (Hlook nm eq_refl) as [_ [_ L3]].
      - now apply ret_ok in H0 as [-> ->]. }
    destruct Hr as [-> ->]. clear H0.
    apply bindM_ok in H as [us [c0 [H0 H]]]. cbn [mapM] in H0. apply ret_ok in H0 as [-> ->].
    apply bindM_ok in H as [es [c1 [H1 H]]].
    destruct (copy_kids d HK f exs e own c es c1 I K ND H1) as [own' [Ky [K1 [I1 [E1 [F1 [N1 [D1 R1]]]]]]]].
    apply bindM_ok in H as [y0 [c2 [H2 H]]]. unfold add_if in H2. injection H2 as <- <-.
    apply bindM_ok in H as [u2 [c4 [H4 H]]]. apply ret_ok in H as [-> ->].
    set (T1 := c_types c1) in *. set (newif := {| i_id := oid; i_uses := []; i_exports := es |}) in *.
    set (T2 := t_with_interfaces T1 (t_interfaces T1 ++ [newif])) in *.
    set (ynew := {| id_tag := t_tag T1; id_idx := length (t_interfaces T1) |}) in *.
    set (c3 := with_remapped (with_types c1 T2)
                 (match oid with Some _ => rm_ins (TInterface i) (TInterface ynew) (c_remapped c1) | None => c_remapped c1 end)) in *.
    assert (Hc4 : c_types c4 = T2 /\ c_imports c4 = c_imports c1 /\ c_remapped c4 = c_remapped c3 /\ c_chk c4 = c_chk c1 /\
                  c_ifaces c4 = match oid with Some nm => ins nm ynew (c_ifaces c) | None => c_ifaces c end).
    { subst c3. destruct oid as [nm|].
      - apply bindM_ok in H4 as [u [c3 [H3 H4]]]. unfold remapped_new in H3. cbn [c_remapped with_types] in H3.
        destruct (Hlook nm eq_refl) as [L1 [_ L3]].
        rewrite (R1 i (fun X => X)), L3 in H3. injection H3 as H3. subst c3.
        unfold iface_new in H4. cbn [c_ifaces with_remapped with_types] in H4. rewrite F1 in H4.
        unfold has_key in H4. rewrite L1 in H4. injection H4 as H4. subst c4.
        cbn [c_types c_imports c_remapped c_chk c_ifaces with_ifaces with_remapped with_types]. auto.
      - apply ret_ok in H4 as [_ ->]. cbn [c_types c_imports c_remapped c_chk c_ifaces with_remapped with_types].
        repeat split; auto. }
    destruct Hc4 as [Q1 [Q2 [Q3 [Q4 Q5]]]].
    assert (E2 : ext T1 T2) by apply ext_add_if.
    assert (Hnewget : get_if T2 ynew = Some newif).
    { unfold get_if. cbn [t_tag t_interfaces t_with_interfaces T2]. apply lookup_new. }
    assert (Hold : forall j z, get_if T1 j = Some z -> get_if T2 j = Some z).
    { intros j z Hj. unfold get_if in *. cbn [t_tag t_interfaces t_with_interfaces T2]. eapply lookup_prefix; [apply prefix_app|exact Hj]. }
    assert (Hlt : forall n, In n (map fst exs) -> forall j, In j (own' n) -> (id_idx j < length (t_interfaces T1))%nat).
    { intros n Hn j Hj. apply in_map_iff in Hn as [[n0 k0] [<- Hin]]. cbn [fst] in Hj. rewrite <- Ky in ND.
      assert (Hin' : In n0 (map fst es)) by (rewrite Ky; change n0 with (fst (n0, k0)); now apply in_map).
      apply in_map_iff in Hin' as [[n1 k1] [En1 Hin1]]. cbn [fst] in En1. subst n1.
      destruct (kids_assoc _ _ _ _ _ _ K1 (in_assoc _ _ _ ND Hin1)) as [tr0 [_ Hd]].
      destruct (Den_exist _ _ _ _ _ Hd j Hj) as [z Hz]. now apply get_if_lt in Hz. }
    exists (ynew :: flat_map own' (map fst es)). rewrite Q1, Q5.
    split; [|split; [|split; [|split; [|split]]]].
    - exists es, own'. split; [exact Hnewget|]. split; [now rewrite Ky|]. split; [|split; [|reflexivity]].
      + eapply kids_impl; [|exact K1]. intros n k tr _ Hd. eapply Den_frame; [exact E2| |exact Hd]. intros j z _. apply Hold.
      + rewrite Ky. split.
        * intros n Hn Hj. pose proof (Hlt n Hn _ Hj) as X. cbn [id_idx ynew] in X. lia.
        * exact D1.
    - split.
      + rewrite Q1. cbn [t_tag T2 t_with_interfaces]. apply (mi_tag _ _ _ I1).
      + intros k k' Hk. rewrite Q3 in Hk. rewrite Q1. cbn [c_remapped c3 with_remapped] in Hk.
        destruct oid as [nm|]; [|eapply entry_ok_ext; [exact E2|]; now apply (mi_rinv _ _ _ I1)].
        destruct (ty_eqb (TInterface i) k) eqn:Ek.
        * apply tyeqb_eq in Ek. subst k. cbn [entry_ok]. exact Logic.I.
        * rewrite rm_get_ins_other in Hk; [|intro X; apply tyeqb_eq in X; congruence].
          eapply entry_ok_ext; [exact E2|]. now apply (mi_rinv _ _ _ I1).
      + intros a b Hin. rewrite Q4 in Hin. destruct (mi_cache _ _ _ I1 a b Hin) as [La [Lb [tr [Ka Kb]]]].
        repeat split; auto. exists tr. unfold KT in *. rewrite Q1.
        split; [destruct Ka as [Ka|Ka]; [left; eapply UnfK_leaf_ext; eauto | now right]
               | destruct Kb as [Kb|Kb]; [left; eapply UnfK_leaf_ext; eauto | now right]].
    - split.
      + rewrite Q1. eapply ext_trans; [apply E1|exact E2].
      + rewrite Q1. eapply prefix_trans; [apply E1|]. cbn [t_interfaces T2 t_with_interfaces]. apply prefix_app.
      + rewrite Q2. apply E1.
      + rewrite Q4. apply E1.
    - intros j [<-|Hj].
      + cbn [id_idx ynew]. apply (AExt_len _ _ E1).
      + apply in_flat_own in Hj as [n [Hn Hj]]. rewrite Ky in Hn. exact (N1 n Hn j Hj).
    - intros j Nj. rewrite Q3. cbn [c_remapped c3 with_remapped]. destruct oid as [nm|]; [|now apply R1].
      rewrite rm_get_ins_other; [now apply R1|]. intros X. injection X as ->. apply Nj. now left.
    - reflexivity.
  Qed.

  Lemma RK_0 : RK 0.
  Proof. intros F k tr idb c k' c' _ []. Qed.

  Lemma RK_S d : RI d -> RK (S d).
  Proof.
    intros HI F k tr idb c k' c' I HD H. cbn [DenG] in HD.
    destruct HD as [[[L [U R]] ->]|[y0 [e [-> [-> HD]]]]].
    - destruct (leaf_sound ord cf Col Col_same t Ct F k tr c k' c' L (mi_rinv _ _ _ I) U R H) as [U1 [E1 [R1 L1]]].
      exists []. split; [cbn [DenG]; left; split; [split; [exact L1|split; [exact U1|exact R]]|reflexivity]|].
      split; [eapply MInv_ext; eauto|]. split; [now apply AExt_of_Ext|]. split; [apply E1|]. split; [intros ? []|].
      intros j _. apply (x_noif _ _ E1).
    - destruct F as [|f]; [discriminate|]. cbn [remap_item_kind] in H.
      apply bindM_ok in H as [y [c1 [H1 H]]]. apply ret_ok in H as [-> ->].
      destruct (HI f y0 None e idb c y c1 I HD (fun nm X => ltac:(discriminate)) H1)
        as [ids' [D' [I' [E' [N' [R' F']]]]]].
      exists ids'. split; [cbn [DenG]; right; exists y, e; auto|]. auto 8.
  Qed.

  Theorem RK_all : forall d, RK d.
  Proof. induction d as [|d IH]; [apply RK_0 | apply RK_S, RI_of_RK, IH]. Qed.
  Theorem RI_all : forall d, RI d.
  Proof. intros d. apply RI_of_RK, RK_all. Qed.
End NCopy.
