(** Proofs about the REPAIRED file-system resolver model [resolve_one_fixed] (FsResolve.v): it IS the documented
    decision table [spec] for every well-formed key — no exception left —, it coincides with the as-found model
    outside the recorded deviation, and the individual clauses of property C18 follow. *)
From Coq Require Import List Bool NArith Lia.
Import ListNotations.
From WacV Require Import Str FsResolve FsSpec FsResolveProofs.

Section FixedProofs.
  Variable wat_parse : content -> option content.
  Variable wit_dir_encode : content -> option content.
  Variable wit_file_encode : content -> option content.

  Notation resolve_one := (resolve_one wat_parse wit_dir_encode wit_file_encode).
  Notation resolve_one_fixed := (resolve_one_fixed wat_parse wit_dir_encode wit_file_encode).
  Notation load := (load wat_parse wit_dir_encode wit_file_encode).
  Notation load_fixed := (load_fixed wat_parse wit_dir_encode wit_file_encode).
  Notation load_rest := (load_rest wat_parse wit_file_encode).
  Notation spec := (spec wat_parse wit_dir_encode wit_file_encode).
  Notation assembled := (assembled wat_parse).
  Notation wit_package := (wit_package wit_dir_encode).
  Notation read_named_file := (read_named_file wat_parse wit_file_encode).

  (** The candidate the default arm of the repaired code settles on, and its [in_place] flag. *)
  Definition default_choice_fixed (wat : bool) (fs : filesystem) (cfg : config) (k : key) : path * bool :=
    if is_dir fs (base cfg k) then (base cfg k, true)
    else if wat then
           if is_file fs (suffixed cfg k s_wat) then (suffixed cfg k s_wat, false) else (suffixed cfg k s_wasm, false)
         else (suffixed cfg k s_wasm, false).

  Lemma select_default_fixed wat fs cfg k :
    key_wf k -> applicable_override cfg k = None ->
    select_path_fixed wat fs cfg k = Some (default_choice_fixed wat fs cfg k).
  Proof.
    intros Hwf Hov. unfold select_path_fixed, default_choice_fixed.
    assert (Hd : match lookup (overrides cfg) (k_name k), k_version k with
                 | Some p, None => false | _, _ => true end = true).
    { unfold applicable_override in Hov. rewrite lookup_find.
      destruct (k_version k); [now destruct option_map|]. now rewrite Hov. }
    pose proof (model_base cfg k) as Hb.
    destruct (lookup (overrides cfg) (k_name k)) as [p|]; destruct (k_version k) as [v|];
      try discriminate; rewrite Hb; clear Hb Hd;
      (destruct (is_dir fs (base cfg k)); cbn [negb]; [reflexivity|];
       rewrite base_split, append_extension_app;
       destruct wat; [|now rewrite suffixed_split];
       rewrite (set_after_set _ _ s_wasm s_wat Hwf nodot_wasm);
       rewrite <- suffixed_split;
       destruct (is_file fs (suffixed cfg k s_wat)); cbn [negb]; [reflexivity|];
       rewrite suffixed_split, (set_after_set _ _ s_wat s_wasm Hwf nodot_wat);
       now rewrite <- suffixed_split).
  Qed.

  Lemma select_override_fixed wat fs cfg k p :
    applicable_override cfg k = Some p ->
    select_path_fixed wat fs cfg k = if is_file fs p then Some (p, true) else None.
  Proof.
    intros Hov. unfold select_path_fixed. unfold applicable_override in Hov. rewrite lookup_find.
    destruct (k_version k); [discriminate|]. rewrite Hov. now destruct (is_file fs p).
  Qed.

  (** The repaired loader differs from the loader as found only on a directory that is not the package's own
      location. *)
  Lemma load_fixed_in_place wat fs cfg p : load_fixed wat fs cfg p true = load wat fs cfg p.
  Proof. unfold load_fixed, load, load_rest. now destruct (fs p). Qed.

  Lemma load_fixed_nondir wat fs cfg p ip :
    (forall c, fs p <> Dir c) -> load_fixed wat fs cfg p ip = load wat fs cfg p.
  Proof.
    intros H. unfold load_fixed, load, load_rest. destruct (fs p) as [|c|c]; try reflexivity.
    now destruct (H c).
  Qed.

  Lemma load_fixed_suffixed_dir wat fs cfg k e c :
    key_wf k -> ~ In ch_dot e -> str_eqb e s_wit = false ->
    fs (suffixed cfg k e) = Dir c ->
    load_fixed wat fs cfg (suffixed cfg k e) false = missing cfg.
  Proof.
    intros Hwf He Hne Hd. unfold load_fixed, load_rest. rewrite Hd.
    rewrite (has_ext_suffixed cfg k e s_wit Hwf He), Hne. reflexivity.
  Qed.

  (** * The decision table, at full strength *)
  Lemma table_fixed wat fs cfg k :
    key_wf k -> resolve_one_fixed wat fs cfg k = spec wat fs cfg k.
  Proof.
    intros Hwf. unfold resolve_one_fixed, spec.
    destruct (applicable_override cfg k) as [p|] eqn:Hov.
    - rewrite (select_override_fixed wat fs cfg k p Hov). unfold is_file.
      destruct (fs p) as [|c|c] eqn:Hp; try reflexivity.
      rewrite load_fixed_in_place. now apply load_file.
    - rewrite (select_default_fixed wat fs cfg k Hwf Hov). unfold default_choice_fixed.
      unfold is_dir, is_file.
      destruct (fs (base cfg k)) as [|cb|cb] eqn:Hb.
      + (* B absent *)
        destruct wat.
        * destruct (fs (suffixed cfg k s_wat)) as [|cw|cw] eqn:Hw.
          -- destruct (fs (suffixed cfg k s_wasm)) as [|cs|cs] eqn:Hs.
             ++ rewrite load_fixed_nondir by (intros c; rewrite Hs; discriminate).
                rewrite (load_suffixed_wasm _ _ _ true fs cfg k Hwf), Hs. reflexivity.
             ++ rewrite load_fixed_nondir by (intros c; rewrite Hs; discriminate).
                rewrite (load_suffixed_wasm _ _ _ true fs cfg k Hwf), Hs. reflexivity.
             ++ apply (load_fixed_suffixed_dir true fs cfg k s_wasm cs Hwf nodot_wasm eq_refl Hs).
          -- rewrite load_fixed_nondir by (intros c; rewrite Hw; discriminate).
             rewrite (load_suffixed_wat _ _ _ fs cfg k Hwf), Hw. reflexivity.
          -- destruct (fs (suffixed cfg k s_wasm)) as [|cs|cs] eqn:Hs.
             ++ rewrite load_fixed_nondir by (intros c; rewrite Hs; discriminate).
                rewrite (load_suffixed_wasm _ _ _ true fs cfg k Hwf), Hs. reflexivity.
             ++ rewrite load_fixed_nondir by (intros c; rewrite Hs; discriminate).
                rewrite (load_suffixed_wasm _ _ _ true fs cfg k Hwf), Hs. reflexivity.
             ++ apply (load_fixed_suffixed_dir true fs cfg k s_wasm cs Hwf nodot_wasm eq_refl Hs).
        * destruct (fs (suffixed cfg k s_wasm)) as [|cs|cs] eqn:Hs.
          -- rewrite load_fixed_nondir by (intros c; rewrite Hs; discriminate).
             rewrite (load_suffixed_wasm _ _ _ false fs cfg k Hwf), Hs. reflexivity.
          -- rewrite load_fixed_nondir by (intros c; rewrite Hs; discriminate).
             rewrite (load_suffixed_wasm _ _ _ false fs cfg k Hwf), Hs. reflexivity.
          -- apply (load_fixed_suffixed_dir false fs cfg k s_wasm cs Hwf nodot_wasm eq_refl Hs).
      + (* B is a file: same candidates *)
        destruct wat.
        * destruct (fs (suffixed cfg k s_wat)) as [|cw|cw] eqn:Hw.
          -- destruct (fs (suffixed cfg k s_wasm)) as [|cs|cs] eqn:Hs.
             ++ rewrite load_fixed_nondir by (intros c; rewrite Hs; discriminate).
                rewrite (load_suffixed_wasm _ _ _ true fs cfg k Hwf), Hs. reflexivity.
             ++ rewrite load_fixed_nondir by (intros c; rewrite Hs; discriminate).
                rewrite (load_suffixed_wasm _ _ _ true fs cfg k Hwf), Hs. reflexivity.
             ++ apply (load_fixed_suffixed_dir true fs cfg k s_wasm cs Hwf nodot_wasm eq_refl Hs).
          -- rewrite load_fixed_nondir by (intros c; rewrite Hw; discriminate).
             rewrite (load_suffixed_wat _ _ _ fs cfg k Hwf), Hw. reflexivity.
          -- destruct (fs (suffixed cfg k s_wasm)) as [|cs|cs] eqn:Hs.
             ++ rewrite load_fixed_nondir by (intros c; rewrite Hs; discriminate).
                rewrite (load_suffixed_wasm _ _ _ true fs cfg k Hwf), Hs. reflexivity.
             ++ rewrite load_fixed_nondir by (intros c; rewrite Hs; discriminate).
                rewrite (load_suffixed_wasm _ _ _ true fs cfg k Hwf), Hs. reflexivity.
             ++ apply (load_fixed_suffixed_dir true fs cfg k s_wasm cs Hwf nodot_wasm eq_refl Hs).
        * destruct (fs (suffixed cfg k s_wasm)) as [|cs|cs] eqn:Hs.
          -- rewrite load_fixed_nondir by (intros c; rewrite Hs; discriminate).
             rewrite (load_suffixed_wasm _ _ _ false fs cfg k Hwf), Hs. reflexivity.
          -- rewrite load_fixed_nondir by (intros c; rewrite Hs; discriminate).
             rewrite (load_suffixed_wasm _ _ _ false fs cfg k Hwf), Hs. reflexivity.
          -- apply (load_fixed_suffixed_dir false fs cfg k s_wasm cs Hwf nodot_wasm eq_refl Hs).
      + (* B is a directory *)
        rewrite load_fixed_in_place. now apply load_dir.
  Qed.

  (** Outside the recorded deviation the repair changes nothing. *)
  Lemma fixed_eq_found wat fs cfg k :
    key_wf k -> suffixed_dir_chosen wat fs cfg k = false ->
    resolve_one_fixed wat fs cfg k = resolve_one wat fs cfg k.
  Proof.
    intros Hwf Hdev. rewrite (table_fixed wat fs cfg k Hwf).
    symmetry. now apply (table_partial wat_parse wit_dir_encode wit_file_encode).
  Qed.

  (** * The clauses of the property, for the repaired code.  Those that presuppose a well-formed key go through the
      table; the others are proved on the model directly. *)

  Lemma fixed_loaded_location wat fs cfg k src p b :
    key_wf k -> applicable_override cfg k = None ->
    resolve_one_fixed wat fs cfg k = Loaded src p b ->
    p = base cfg k \/ p = suffixed cfg k s_wat \/ p = suffixed cfg k s_wasm.
  Proof.
    intros Hwf Hov H. rewrite (table_fixed wat fs cfg k Hwf) in H. unfold FsSpec.spec in H. rewrite Hov in H.
    unfold FsSpec.wit_package, FsSpec.assembled, FsSpec.missing in H.
    repeat match type of H with
           | context [match ?x with _ => _ end] => destruct x
           | context [if ?x then _ else _] => destruct x
           end; try discriminate; injection H as _ <- _; auto.
  Qed.

  Lemma fixed_ext_appended wat fs cfg k v src p b :
    k_version k = Some v -> v <> [] ->
    resolve_one_fixed wat fs cfg k = Loaded src p b ->
    last p [] = v \/ last p [] = v ++ ch_dot :: s_wat \/ last p [] = v ++ ch_dot :: s_wasm.
  Proof.
    intros Hv Hne H.
    assert (Hwf : key_wf k). { unfold key_wf. now rewrite (last_components_version k v Hv). }
    assert (Hov : applicable_override cfg k = None). { unfold applicable_override. now rewrite Hv. }
    destruct (fixed_loaded_location wat fs cfg k src p b Hwf Hov H) as [-> | [-> | ->]].
    - left. now rewrite last_base, (last_components_version k v Hv).
    - right; left. now rewrite last_suffixed, (last_components_version k v Hv).
    - right; right. now rewrite last_suffixed, (last_components_version k v Hv).
  Qed.

  Lemma fixed_wat_preferred fs cfg k c :
    key_wf k -> applicable_override cfg k = None ->
    is_dir fs (base cfg k) = false -> fs (suffixed cfg k s_wat) = File c ->
    resolve_one_fixed true fs cfg k = assembled (suffixed cfg k s_wat) c.
  Proof.
    intros Hwf Hov Hb Hw. rewrite (table_fixed true fs cfg k Hwf). unfold FsSpec.spec. rewrite Hov, Hw.
    unfold is_dir in Hb. destruct (fs (base cfg k)); try discriminate; reflexivity.
  Qed.

  (** Stronger than for the code as found: whatever sits at B".wat" that is not a FILE (nothing, or a directory)
      leaves the ".wasm" file in charge. *)
  Lemma fixed_wasm_otherwise wat fs cfg k c :
    key_wf k -> applicable_override cfg k = None ->
    is_dir fs (base cfg k) = false -> (wat = false \/ is_file fs (suffixed cfg k s_wat) = false) ->
    fs (suffixed cfg k s_wasm) = File c ->
    resolve_one_fixed wat fs cfg k = Loaded SrcRaw (suffixed cfg k s_wasm) c.
  Proof.
    intros Hwf Hov Hb Hw Hs. rewrite (table_fixed wat fs cfg k Hwf). unfold FsSpec.spec. rewrite Hov, Hs.
    unfold is_dir in Hb. unfold is_file in Hw.
    destruct (fs (base cfg k)); try discriminate;
      (destruct Hw as [-> | Hw]; [reflexivity|]; destruct wat; [|reflexivity];
       destruct (fs (suffixed cfg k s_wat)); try discriminate; reflexivity).
  Qed.

  Lemma fixed_dir_is_package wat fs cfg k c :
    applicable_override cfg k = None -> fs (base cfg k) = Dir c ->
    resolve_one_fixed wat fs cfg k = wit_package (base cfg k) c.
  Proof.
    intros Hov Hb. unfold FsResolve.resolve_one_fixed, select_path_fixed.
    assert (Hd : match lookup (overrides cfg) (k_name k), k_version k with
                 | Some p, None => false | _, _ => true end = true).
    { unfold applicable_override in Hov. rewrite lookup_find.
      destruct (k_version k); [now destruct option_map|]. now rewrite Hov. }
    pose proof (model_base cfg k) as Hm.
    destruct (lookup (overrides cfg) (k_name k)); destruct (k_version k); try discriminate;
      rewrite Hm; unfold is_dir; rewrite Hb; cbn [negb]; rewrite load_fixed_in_place; now apply load_dir.
  Qed.

  Lemma fixed_override_versioned_ignored wat fs cfg k v :
    k_version k = Some v ->
    resolve_one_fixed wat fs cfg k = resolve_one_fixed wat fs (without_overrides cfg) k.
  Proof.
    intros Hv. unfold FsResolve.resolve_one_fixed, select_path_fixed. rewrite Hv.
    cbn [overrides without_overrides lookup root].
    destruct (lookup (overrides cfg) (k_name k)); reflexivity.
  Qed.

  Lemma fixed_override_used wat fs cfg k p c :
    applicable_override cfg k = Some p -> fs p = File c ->
    resolve_one_fixed wat fs cfg k = read_named_file wat p c.
  Proof.
    intros Hov Hp. unfold FsResolve.resolve_one_fixed. rewrite (select_override_fixed wat fs cfg k p Hov).
    unfold is_file. rewrite Hp. rewrite load_fixed_in_place. now apply load_file.
  Qed.

  Lemma fixed_override_missing wat fs cfg k p :
    applicable_override cfg k = Some p -> (forall c, fs p <> File c) ->
    resolve_one_fixed wat fs cfg k = ErrResolution OverrideMissing.
  Proof.
    intros Hov Hp. unfold FsResolve.resolve_one_fixed. rewrite (select_override_fixed wat fs cfg k p Hov).
    unfold is_file. destruct (fs p) as [|c|c] eqn:E; try reflexivity. now destruct (Hp c).
  Qed.

  Lemma fixed_bytes_origin wat fs cfg k src p b :
    resolve_one_fixed wat fs cfg k = Loaded src p b ->
    bytes_come_from wat_parse wit_dir_encode wit_file_encode fs src p b.
  Proof.
    unfold FsResolve.resolve_one_fixed. destruct (select_path_fixed wat fs cfg k) as [[q ip]|]; [|discriminate].
    unfold FsResolve.load_fixed, FsResolve.load_rest. destruct (fs q) as [|c|c] eqn:Hq.
    - destruct (has_ext q s_wit); [discriminate|]. destruct (error_on_unknown cfg); discriminate.
    - destruct (has_ext q s_wit).
      + destruct (wit_file_encode c) as [b'|] eqn:E; [|discriminate].
        intros H; injection H as <- <- <-. cbn. eauto.
      + destruct (wat && has_ext q s_wat).
        * destruct (wat_parse c) as [b'|] eqn:E; [|discriminate].
          intros H; injection H as <- <- <-. cbn. eauto.
        * intros H; injection H as <- <- <-. cbn. assumption.
    - destruct ip.
      + destruct (wit_dir_encode c) as [b'|] eqn:E; [|discriminate].
        intros H; injection H as <- <- <-. cbn. eauto.
      + destruct (has_ext q s_wit); [discriminate|]. destruct (error_on_unknown cfg); discriminate.
  Qed.

  (** Missing packages, in the property's own terms: no directory at B, no FILE at B".wat" (when text is enabled)
      and no FILE at B".wasm". *)
  Definition nothing_there (wat : bool) (fs : filesystem) (cfg : config) (k : key) : Prop :=
    applicable_override cfg k = None /\ is_dir fs (base cfg k) = false /\
    (wat = true -> is_file fs (suffixed cfg k s_wat) = false) /\ is_file fs (suffixed cfg k s_wasm) = false.

  Lemma fixed_missing wat fs cfg k :
    key_wf k -> nothing_there wat fs cfg k -> resolve_one_fixed wat fs cfg k = missing cfg.
  Proof.
    intros Hwf [Hov [Hb [Hw Hs]]]. rewrite (table_fixed wat fs cfg k Hwf). unfold FsSpec.spec. rewrite Hov.
    unfold is_dir, is_file in *.
    destruct (fs (base cfg k)); try discriminate;
      (destruct wat;
       [ specialize (Hw eq_refl); destruct (fs (suffixed cfg k s_wat)); try discriminate | ];
       destruct (fs (suffixed cfg k s_wasm)); try discriminate; reflexivity).
  Qed.

  Lemma fixed_not_found_iff wat fs cfg k :
    key_wf k ->
    (not_found (resolve_one_fixed wat fs cfg k) = true <-> nothing_there wat fs cfg k).
  Proof.
    intros Hwf. split.
    - intros H. rewrite (table_fixed wat fs cfg k Hwf) in H. unfold FsSpec.spec in H. unfold nothing_there.
      unfold FsSpec.read_named_file, FsSpec.wit_document, FsSpec.wit_package, FsSpec.assembled, FsSpec.missing in H.
      unfold is_dir, is_file.
      destruct (applicable_override cfg k) as [p|].
      + repeat match type of H with
               | context [match ?x with _ => _ end] => destruct x
               | context [if ?x then _ else _] => destruct x
               end; discriminate.
      + destruct (fs (base cfg k)); destruct wat;
          try destruct (fs (suffixed cfg k s_wat)); destruct (fs (suffixed cfg k s_wasm));
          repeat match type of H with
                 | context [match ?x with _ => _ end] => destruct x
                 | context [if ?x then _ else _] => destruct x
                 end; try discriminate; repeat split; auto; discriminate.
    - intros N. rewrite (fixed_missing wat fs cfg k Hwf N). unfold FsSpec.missing.
      now destruct (error_on_unknown cfg).
  Qed.
End FixedProofs.

(** * The loop over the keys of one call *)
Section AllProofs.
  Variable wat_parse : content -> option content.
  Variable wit_dir_encode : content -> option content.
  Variable wit_file_encode : content -> option content.

  Notation resolve_one_fixed := (resolve_one_fixed wat_parse wit_dir_encode wit_file_encode).
  Notation resolve_all := (resolve_all wat_parse wit_dir_encode wit_file_encode).

  (** When no key fails, the call answers every key exactly as it would answer it alone. *)
  Lemma resolve_all_independent wat fs cfg ks :
    forallb (fun k => negb (is_failure (resolve_one_fixed wat fs cfg k))) ks = true ->
    resolve_all wat fs cfg ks = map (resolve_one_fixed wat fs cfg) ks.
  Proof.
    induction ks as [|k r IH]; cbn [forallb FsResolve.resolve_all map]; intros H; [reflexivity|].
    apply andb_prop in H. destruct H as [Hk Hr].
    destruct (is_failure (resolve_one_fixed wat fs cfg k)); [discriminate|]. now rewrite (IH Hr).
  Qed.

  (** When some key fails, the call stops at the FIRST such key: the keys before it are answered as if alone, and the
      error is that key's own error. *)
  Lemma resolve_all_first_failure wat fs cfg pre k post :
    forallb (fun k => negb (is_failure (resolve_one_fixed wat fs cfg k))) pre = true ->
    is_failure (resolve_one_fixed wat fs cfg k) = true ->
    resolve_all wat fs cfg (pre ++ k :: post) =
    map (resolve_one_fixed wat fs cfg) pre ++ [resolve_one_fixed wat fs cfg k].
  Proof.
    induction pre as [|p r IH]; cbn [forallb FsResolve.resolve_all map app]; intros H Hk.
    - now rewrite Hk.
    - apply andb_prop in H. destruct H as [Hp Hr].
      destruct (is_failure (resolve_one_fixed wat fs cfg p)); [discriminate|]. now rewrite (IH Hr Hk).
  Qed.

  (** The answer for a key does not depend on which other keys are requested with it, nor on their order, as long
      as the call gets to it: an outcome in the answer is the stand-alone outcome of the key at that position. *)
  Lemma resolve_all_nth wat fs cfg ks i o :
    nth_error (resolve_all wat fs cfg ks) i = Some o ->
    exists k, nth_error ks i = Some k /\ o = resolve_one_fixed wat fs cfg k.
  Proof.
    revert i. induction ks as [|k r IH]; intros i H; cbn [FsResolve.resolve_all] in H.
    - destruct i; discriminate.
    - destruct (is_failure (resolve_one_fixed wat fs cfg k)).
      + destruct i as [|i]; cbn in H; [injection H as <-; exists k; now split|]. destruct i; discriminate.
      + destruct i as [|i]; cbn in H; [injection H as <-; exists k; now split|]. now apply IH.
  Qed.
End AllProofs.
