(** Generic lemmas for the simulation proof of the encoder model: the result monad, folds in it,
    association lists, and what the items of the type-encoder parameter do to a decoding. *)
From Coq Require Import List Arith Bool NArith Lia.
From WacV Require Import Str Graph Wiring WiringSpec EncodeModel WiringDecode.
Import ListNotations.
Local Open Scope nat_scope.

(** * result monad *)
Lemma bind_ok {A B} (r : res A) (f : A -> res B) b :
  bind r f = ROk b -> exists a, r = ROk a /\ f a = ROk b.
Proof. destruct r; cbn; [eauto | discriminate]. Qed.

Lemma fold_res_err {S X} (f : S -> X -> res S) l e :
  fold_left (fun acc x => bind acc (fun s => f s x)) l (RErr e) = RErr e.
Proof. induction l; cbn; auto. Qed.

(** invariant carried along a fold, indexed by the processed prefix *)
Lemma fold_res_ind {S X} (f : S -> X -> res S) (P : list X -> S -> Prop) l s0 s' :
  fold_left (fun acc x => bind acc (fun s => f s x)) l (ROk s0) = ROk s' ->
  P [] s0 ->
  (forall pre x post s s1, l = pre ++ x :: post -> P pre s -> f s x = ROk s1 -> P (pre ++ [x]) s1) ->
  P l s'.
Proof.
  intros F P0 Step.
  assert (G : forall rest done s, l = done ++ rest -> P done s ->
              fold_left (fun acc x => bind acc (fun s => f s x)) rest (ROk s) = ROk s' -> P l s').
  { induction rest as [|x rest IH]; intros done s E Pd Fr; cbn in Fr.
    - injection Fr as <-. rewrite app_nil_r in E. now subst.
    - destruct (f s x) as [s1|er] eqn:Fx.
      + apply (IH (done ++ [x]) s1); auto.
        * now rewrite <- app_assoc.
        * eapply Step; eauto.
      + rewrite fold_res_err in Fr. discriminate. }
  eapply (G l [] s0); eauto.
Qed.

(** * association lists *)
Lemma nat_assoc_cons {A} k (v : A) l k' :
  nat_assoc k' ((k, v) :: l) = if k =? k' then Some v else nat_assoc k' l.
Proof. reflexivity. Qed.

Lemma nat_assoc_in {A} k (v : A) l : nat_assoc k l = Some v -> In (k, v) l.
Proof.
  induction l as [|[k' v'] r IH]; cbn; try discriminate.
  destruct (k' =? k) eqn:E; [apply Nat.eqb_eq in E; intros H; injection H as <-; subst; auto | auto].
Qed.

Lemma pkgid_eqb_eq a b : pkgid_eqb a b = true <-> a = b.
Proof.
  destruct a, b; unfold pkgid_eqb; cbn. rewrite andb_true_iff, !Nat.eqb_eq. split; [intros [-> ->]; auto | intros E; injection E; auto].
Qed.
Lemma pkgid_eqb_refl a : pkgid_eqb a a = true.
Proof. now apply pkgid_eqb_eq. Qed.

(** * the type encoder's items *)
Definition same_structure (d d' : dstate) : Prop :=
  d_insts d' = d_insts d /\ d_exports d' = d_exports d /\ d_comps d' = d_comps d.

Lemma ty_items_decode its : forall d ninst,
  ninst = length (d_sp d SInstance) ->
  ty_items_ok ninst its = true ->
  exists d', decode_from d its = Some d' /\ sp_ext (d_sp d) (d_sp d') /\ same_structure d d'.
Proof.
  induction its as [|it r IH]; intros d ninst Hn Ok; cbn in *.
  - exists d. repeat split; auto. apply sp_ext_refl.
  - apply andb_true_iff in Ok as [Ok1 Ok2].
    assert (S1 : exists d1, dstep d it = Some d1 /\ same_structure d d1 /\
                 length (d_sp d1 SInstance) = match it with IDepImport _ => S ninst | _ => ninst end).
    { destruct it; cbn in Ok1; try discriminate.
      - eexists. split; [reflexivity|]. split; [repeat split|]. cbn. unfold push; cbn. rewrite app_length. cbn. lia.
      - eexists. split; [reflexivity|]. split; [repeat split|]. cbn. unfold push; cbn. auto.
      - eexists. split; [reflexivity|]. split; [repeat split|]. cbn. unfold push; cbn. auto.
      - apply andb_true_iff in Ok1 as [Os Oi]. apply sort_eqb_eq in Os. subst s.
        apply Nat.ltb_lt in Oi. cbn. unfold look.
        destruct (nth_error (d_sp d SInstance) inst) eqn:N.
        + eexists. split; [reflexivity|]. split; [repeat split|]. cbn. unfold push; cbn. auto.
        + apply nth_error_None in N. lia.
      - apply orb_true_iff in Ok1. eexists. split; [reflexivity|]. split; [repeat split|]. cbn.
        destruct Ok1 as [O|O]; apply sort_eqb_eq in O; subst; unfold push; cbn; auto. }
    destruct S1 as [d1 [S1 [St1 L1]]]. rewrite S1.
    destruct (IH d1 _ (eq_sym L1) Ok2) as [d' [D' [X' St']]].
    exists d'. split; auto. split.
    + eapply sp_ext_trans; [eapply dstep_ext; eauto | auto].
    + destruct St1 as [A [B C]], St' as [A' [B' C']]. repeat split; congruence.
Qed.
