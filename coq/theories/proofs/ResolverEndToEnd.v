From Coq Require Import List Arith NArith.
From WacV Require Import Str Token Lexer Semver Names Ast Graph Resolver LangSpec
  GraphInv GraphTheorems ResolverProofs ResolverNew ResolverStmts ResolverInv
  ResolverSim ResolverSimExpr ResolverSimNew ResolverSimStmt ResolverSimObs
  Wiring WiringSpec EncodeModel WiringDecode WiringCorrect ValidEncInv.
Import ListNotations.
Local Open Scope nat_scope.


(** C04, end to end with C01/C02: for a document the resolver model accepts, the model of the structural
    encoder, whenever it succeeds, emits a log that decodes to the wiring of the graph the document
    denotes. *)
Lemma rel_no_defs (u : runiverse) K st env vm : Rel u K st env vm -> forall n, is_def (rs_g st) n = false.
Proof.
  intros R n. unfold is_def. destruct (get_node (rs_g st) n) as [nd|] eqn:G; auto.
  assert (L : n < length (nodes (rs_g st))).
  { apply nth_error_Some. unfold get_node in G. intros X. rewrite X in G. discriminate. }
  rewrite <- (r_len _ _ _ _ _ R) in L. apply nth_error_Some in L. destruct (nth_error vm n) as [v|] eqn:V; [|now contradiction L].
  destruct (r_node _ _ _ _ _ R n nd v G V) as (_ & _ & ND & _). destruct (nk nd); auto. now contradiction ND.
Qed.

Theorem resolved_document_wiring (u : runiverse) K d e st dc tau ord stE names :
  uok u K -> pd_targets (doc_directive d) = None -> resolve u d = inl st ->
  UnivOK e u -> topo_orderb (rs_g st) ord = true ->
  encode_with_order e u (rs_g st) dc tau ord = ROk (stE, names) ->
  (forall p, In p (e_dedup stE) -> fst p = snd p) ->
  exists env vm,
    denote impl_flags_c04 u d = inl env /\ Rel u K st env vm /\
    option_map (erase_defs (def_names e (rs_g st))) (decode_wiring names (e_log stE))
      = Some (wiring_spec e u (rs_g st) dc ord).
Proof.
  intros U NT E UO TO EN DD. pose proof (resolve_simulates_denote u K d U NT) as S. rewrite E in S.
  destruct (denote impl_flags_c04 u d) as [env|i]; [|destruct S]. destruct S as (vm & R).
  exists env, vm. split; [reflexivity|]. split; [exact R|].
  destruct (resolve_reachable u d st E) as [ops Eops].
  apply (wiring_correct e u (rs_g st) dc tau ord stE names); auto. rewrite Eops. apply enc_inv_reachable; auto.
Qed.
