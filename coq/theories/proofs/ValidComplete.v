(** C01 [instantiation_complete]: in a consistent composition graph every instantiation receives exactly one
    argument per import of its package: the imports satisfied by argument edges and the imports left to the
    implicit imports are disjoint and together are all of them. Stated on indexes, on names, and on the
    instantiate item that the wiring specification (and hence, by C02 [wiring_correct], the encoder) emits. *)
From Coq Require Import List Arith Bool NArith Lia Permutation.
From WacV Require Import Str Graph Wiring WiringSpec ValidSpec GraphInv GraphAlias SemverProofs.
Import ListNotations.
Local Open Scope nat_scope.

(** * multisets of names *)
Lemma count_str_app x a b : count_str x (a ++ b) = count_str x a + count_str x b.
Proof. induction a as [|y a IH]; cbn; auto. rewrite IH. lia. Qed.

Lemma count_str_perm x a b : Permutation a b -> count_str x a = count_str x b.
Proof. induction 1; cbn; lia. Qed.

Lemma same_names_perm a b : Permutation a b -> same_names a b.
Proof. intros P x. now apply count_str_perm. Qed.

Lemma count_str_pos x l : 0 < count_str x l <-> In x l.
Proof.
  induction l as [|y l IH]; cbn; [split; [lia|tauto]|].
  destruct (str_eqb y x) eqn:E.
  - apply str_eqb_eq in E. subst. split; [auto|lia].
  - rewrite <- IH. split; [intros H; right; lia|intros [->|H]; [|lia]].
    assert (str_eqb x x = true) by (now apply str_eqb_eq). congruence.
Qed.

(** removing every occurrence of [x] *)
Definition without (x : str) (l : list str) : list str := filter (fun y => negb (str_eqb y x)) l.
Lemma without_length x l : length l = count_str x l + length (without x l).
Proof. unfold without. induction l as [|y l IH]; cbn; auto. destruct (str_eqb y x); cbn; lia. Qed.
Lemma str_eqb_refl x : str_eqb x x = true.
Proof. now apply str_eqb_eq. Qed.
Lemma without_count x z l : str_eqb z x = false -> count_str z (without x l) = count_str z l.
Proof.
  intros Hz. unfold without. induction l as [|y l IH]; cbn; auto.
  destruct (str_eqb y x) eqn:E; cbn.
  - apply str_eqb_eq in E. subst y. destruct (str_eqb x z) eqn:E2.
    + apply str_eqb_eq in E2. subst. rewrite str_eqb_refl in Hz. discriminate.
    + cbn. exact IH.
  - now rewrite IH.
Qed.
Lemma without_count_same x l : count_str x (without x l) = 0.
Proof.
  unfold without. induction l as [|y l IH]; cbn; auto. destruct (str_eqb y x) eqn:E; cbn; auto. now rewrite E.
Qed.

(** the boolean test decides multiset equality *)
Lemma same_namesb_sound : forall a b, length a = length b -> (forall x, In x a -> count_str x a = count_str x b) -> same_names a b.
Proof.
  intros a. remember (length a) as n eqn:Hn. revert a Hn.
  induction n as [n IH] using lt_wf_ind. intros a Hn b Hl Hc z.
  destruct a as [|x a'].
  - subst n. destruct b; [reflexivity|discriminate].
  - set (a := x :: a') in *.
    assert (Hx : In x a) by now left.
    pose proof (Hc x Hx) as Cx.
    assert (Px : 0 < count_str x a) by (now apply count_str_pos).
    destruct (str_eqb z x) eqn:Ez.
    + apply str_eqb_eq in Ez. now subst z.
    + rewrite <- (without_count x z a Ez), <- (without_count x z b Ez).
      apply (IH (length (without x a))).
      * pose proof (without_length x a). lia.
      * reflexivity.
      * pose proof (without_length x a). pose proof (without_length x b). lia.
      * intros y Hy. unfold without in Hy. apply filter_In in Hy as [Hy Ny]. apply negb_true_iff in Ny.
        rewrite !without_count by exact Ny. now apply Hc.
Qed.

Lemma same_namesb_spec a b : same_namesb a b = true <-> same_names a b.
Proof.
  unfold same_namesb. rewrite andb_true_iff, Nat.eqb_eq, forallb_forall. split.
  - intros [Hl Hc]. apply same_namesb_sound; auto. intros x Hx. now apply Nat.eqb_eq, Hc.
  - intros H. split.
    + (* equal counts for every name give equal lengths *)
      revert b H. induction a as [|x a IH]; intros b H.
      * destruct b as [|y b]; auto. specialize (H y). cbn in H.
        assert (str_eqb y y = true) by (now apply str_eqb_eq). rewrite H0 in H. discriminate.
      * pose proof (without_length x (x :: a)) as La. pose proof (without_length x b) as Lb.
        assert (E : length (without x (x :: a)) = length (without x b)).
        { clear La Lb.
          assert (G : forall n a0 b0, length a0 = n -> (forall z, str_eqb z x = false -> count_str z a0 = count_str z b0) ->
                      count_str x a0 = 0 -> count_str x b0 = 0 -> length a0 = length b0).
          { induction n as [n IHn] using lt_wf_ind. intros a0 b0 Ln Hz Ha Hb. destruct a0 as [|y a0].
            - destruct b0 as [|y b0]; auto. exfalso. destruct (str_eqb y x) eqn:Ey.
              + cbn in Hb. rewrite Ey in Hb. discriminate.
              + specialize (Hz y Ey). cbn in Hz. assert (str_eqb y y = true) by (now apply str_eqb_eq). rewrite H0 in Hz. discriminate.
            - assert (Ey : str_eqb y x = false).
              { destruct (str_eqb y x) eqn:Ey; auto. cbn in Ha. rewrite Ey in Ha. discriminate. }
              pose proof (without_length y (y :: a0)) as L1. pose proof (without_length y b0) as L2.
              assert (Cy : count_str y (y :: a0) = count_str y b0) by (now apply Hz).
              assert (R : length (without y (y :: a0)) = length (without y b0)).
              { apply (IHn (length (without y (y :: a0)))); auto.
                - assert (0 < count_str y (y :: a0)) by (apply count_str_pos; now left). lia.
                - intros z Hzx. destruct (str_eqb z y) eqn:Ezy.
                  + apply str_eqb_eq in Ezy. subst z. now rewrite !without_count_same.
                  + rewrite !without_count by exact Ezy. now apply Hz.
                - rewrite without_count; auto. destruct (str_eqb x y) eqn:Exy; auto.
                  apply str_eqb_eq in Exy. subst. assert (str_eqb y y = true) by (now apply str_eqb_eq). congruence.
                - rewrite without_count; auto. destruct (str_eqb x y) eqn:Exy; auto.
                  apply str_eqb_eq in Exy. subst. assert (str_eqb y y = true) by (now apply str_eqb_eq). congruence. }
              lia. }
          apply (G (length (without x (x :: a)))); auto.
          - intros z Hz. rewrite !without_count by exact Hz. apply H.
          - apply without_count_same.
          - apply without_count_same. }
        pose proof (H x). lia.
    + intros x _. apply Nat.eqb_eq, H.
Qed.

(** * the indexes *)
Definition arg_idx (ed : edge) : list nat := match ek ed with EArg i => [i] | _ => [] end.

Lemma explicit_idx_count g n i :
  count_occ Nat.eq_dec (explicit_idx g n) i = count_arg g n i.
Proof.
  unfold explicit_idx, incoming, count_arg. induction (edges g) as [|ed es IH]; cbn; auto.
  destruct (etgt ed =? n) eqn:T; cbn; [|exact IH].
  rewrite count_occ_app, IH. destruct (ek ed) as [j|j|]; cbn; auto.
  destruct (Nat.eq_dec j i) as [->|Hne].
  - rewrite Nat.eqb_refl. cbn. lia.
  - apply Nat.eqb_neq in Hne. rewrite Hne. cbn. lia.
Qed.

Lemma explicit_idx_In g n i : In i (explicit_idx g n) <-> exists ed, In ed (edges g) /\ etgt ed = n /\ ek ed = EArg i.
Proof.
  unfold explicit_idx, incoming. rewrite in_flat_map. split.
  - intros [ed [Hed Hi]]. apply filter_In in Hed as [Hed T]. apply Nat.eqb_eq in T.
    destruct (ek ed) as [j|j|] eqn:K; cbn in Hi; try contradiction. destruct Hi as [<-|[]]. eauto.
  - intros [ed [Hed [T K]]]. exists ed. split; [apply filter_In; split; auto; now apply Nat.eqb_eq|]. rewrite K. now left.
Qed.

Lemma NoDup_app_intro {A} (l1 l2 : list A) :
  NoDup l1 -> NoDup l2 -> (forall x, In x l1 -> ~ In x l2) -> NoDup (l1 ++ l2).
Proof.
  induction l1 as [|x l1 IH]; cbn; auto. intros N1 N2 D. inversion N1 as [|? ? Hx N1']; subst. constructor.
  - rewrite in_app_iff. intros [H|H]; [contradiction|]. apply (D x); auto.
  - apply IH; auto.
Qed.

Section Complete.
  Variable u : universe.
  Variable g : gstate.
  Hypothesis HI : Inv u g.

  (** the argument edges into [n] carry each satisfied index once; the others not at all *)
  Lemma explicit_idx_sat n nd sat :
    get_node g n = Some nd -> nk nd = NInst sat ->
    NoDup (explicit_idx g n) /\ forall i, In i (explicit_idx g n) <-> In i sat.
  Proof.
    intros G K. destruct (inv_sat_exact _ _ HI n nd sat G K) as [ND C]. split.
    - apply (NoDup_count_occ Nat.eq_dec). intros i. rewrite explicit_idx_count, C. destruct (existsb _ sat); lia.
    - intros i. rewrite (count_occ_In Nat.eq_dec), explicit_idx_count, C, <- existsb_eqb_In.
      destruct (existsb (Nat.eqb i) sat); split; intros; try lia; auto; discriminate.
  Qed.

  (** explicit and implicit indexes are disjoint and together are exactly the imports, provided every argument
      edge designates an import ([ArgsChecked], which holds of every reachable graph) *)
  Theorem idx_complete n nd sat len :
    get_node g n = Some nd -> nk nd = NInst sat ->
    (forall i, In i (explicit_idx g n) -> i < len) ->
    Permutation (explicit_idx g n ++ implicit_idx sat len) (seq 0 len) /\
    (forall i, In i (explicit_idx g n) -> ~ In i (implicit_idx sat len)).
  Proof.
    intros G K R. destruct (explicit_idx_sat n nd sat G K) as [ND E].
    assert (Dj : forall i, In i (explicit_idx g n) -> ~ In i (implicit_idx sat len)).
    { intros i Hi Hj. unfold implicit_idx in Hj. apply filter_In in Hj as [_ Hj]. apply negb_true_iff in Hj.
      apply E in Hi. apply existsb_eqb_In in Hi. congruence. }
    split; [|exact Dj]. apply NoDup_Permutation.
    - apply NoDup_app_intro; [exact ND|apply NoDup_filter', seq_NoDup|exact Dj].
    - apply seq_NoDup.
    - intros i. rewrite in_app_iff, in_seq. unfold implicit_idx. rewrite filter_In, in_seq, negb_true_iff. split.
      + intros [H|[H _]]; [apply R in H|]; lia.
      + intros H. destruct (existsb (Nat.eqb i) sat) eqn:X.
        * left. apply E. now apply existsb_eqb_In.
        * right. split; [lia|reflexivity].
  Qed.
End Complete.

Lemma flat_map_ext_in' {A B} (f h : A -> list B) l : (forall x, In x l -> f x = h x) -> flat_map f l = flat_map h l.
Proof.
  induction l as [|x l IH]; cbn; auto. intros H. rewrite (H x) by auto. f_equal. apply IH. intros y Hy. apply H. auto.
Qed.

(** * the names *)
Section Names.
  Variable e : wenv.
  Variable u : universe.
  Variable g : gstate.
  Variable dc : bool.

  Definition name_at (imps : list (name * kid)) (i : nat) : list str :=
    match nth_error imps i with Some (nm, _) => [nstr e nm] | None => [] end.

  Lemma import_names_at imps : map (fun x : name * kid => nstr e (fst x)) imps = flat_map (name_at imps) (seq 0 (length imps)).
  Proof.
    assert (G : forall l a, map (fun x : name * kid => nstr e (fst x)) l =
                            flat_map (fun i => match nth_error l (i - a) with Some (nm, _) => [nstr e nm] | None => [] end) (seq a (length l))).
    { induction l as [|[nm k] l IH]; intros a; cbn; auto. rewrite Nat.sub_diag. cbn. f_equal. rewrite (IH (S a)).
      apply flat_map_ext_in'. intros i Hi. apply in_seq in Hi. replace (i - a) with (S (i - S a)) by lia. reflexivity. }
    rewrite (G imps 0). apply flat_map_ext. intros i. unfold name_at. now rewrite Nat.sub_0_r.
  Qed.

  Lemma flat_map_filter {A B} (f : A -> list B) (p : A -> bool) l :
    flat_map (fun x => if p x then f x else []) l = flat_map f (filter p l).
  Proof. induction l as [|x l IH]; cbn; auto. destruct (p x); cbn; now rewrite IH. Qed.

  Lemma unsat_names n nd sat imps :
    get_node g n = Some nd -> nk nd = NInst sat -> inst_imports u g nd = Some imps ->
    map arg_name (implicit_args e u g n) = flat_map (name_at imps) (implicit_idx sat (length imps)).
  Proof.
    intros G K I. unfold implicit_args, unsat_args. rewrite G, K, I. rewrite map_map. cbn [arg_name fst].
    unfold implicit_idx. rewrite <- flat_map_filter.
    assert (H : forall l a,
      map (fun x : name * kid => nstr e (fst x))
          (flat_map (fun p : nat * (name * kid) => if existsb (Nat.eqb (fst p)) sat then [] else [snd p]) (combine (seq a (length l)) l)) =
      flat_map (fun i => if negb (existsb (Nat.eqb i) sat)
                         then match nth_error l (i - a) with Some (nm, _) => [nstr e nm] | None => [] end else []) (seq a (length l))).
    { induction l as [|[nm k] l IH]; intros a; cbn; auto. rewrite Nat.sub_diag. cbn [nth_error].
      rewrite map_app, (IH (S a)). f_equal.
      - destruct (existsb (Nat.eqb a) sat); reflexivity.
      - apply flat_map_ext_in'. intros i Hi. apply in_seq in Hi. replace (i - a) with (S (i - S a)) by lia. reflexivity. }
    rewrite (H imps 0). apply flat_map_ext. intros i. unfold name_at. now rewrite Nat.sub_0_r.
  Qed.

  Lemma explicit_names ord n nd imps :
    get_node g n = Some nd -> inst_imports u g nd = Some imps ->
    map arg_name (explicit_args e u g ord n) = flat_map (name_at imps) (explicit_idx g n).
  Proof.
    intros G I. unfold explicit_args, explicit_idx. rewrite G, I.
    induction (incoming g n) as [|ed es IH]; [reflexivity|]. cbn [flat_map].
    rewrite map_app, flat_map_app. f_equal; [|exact IH].
    destruct (ek ed) as [i|i|]; cbn; auto. unfold name_at. destruct (nth_error imps i) as [[nm k]|]; cbn; auto.
  Qed.

  (** the instantiate item of the specification passes the import names of the package, each once *)
  Theorem spec_inst_complete ord n nd sat imps :
    Inv u g -> get_node g n = Some nd -> nk nd = NInst sat -> inst_imports u g nd = Some imps ->
    (forall i, In i (explicit_idx g n) -> i < length imps) ->
    exists args, spec_inst e u g dc ord n = WInst (comp_prov e g dc n) args /\
      same_names (map arg_name args) (map (fun x : name * kid => nstr e (fst x)) imps).
  Proof.
    intros HI G K I R. exists (explicit_args e u g ord n ++ implicit_args e u g n). split; [reflexivity|].
    rewrite map_app, (explicit_names ord n nd imps G I), (unsat_names n nd sat imps G K I), <- flat_map_app, import_names_at.
    apply same_names_perm. apply Permutation_flat_map. now apply (idx_complete u g HI n nd sat (length imps) G K R).
  Qed.
End Names.
