(** C06: every operation except the removals ([remove_node], [unregister]; see [GraphRemove.v])
    preserves the invariant and never reaches one of the bookkeeping panics. *)
From Coq Require Import List Arith Bool NArith Lia Permutation.
From WacV Require Import Graph GraphInv GraphPrims.
Import ListNotations.

(** the bookkeeping panic sites: reaching one of them means the maps, the edges and the satisfied sets
    disagree. ([PInvalidNodeId]/[PInvalidPackageId] are the documented panics on dead identifiers,
    [PBadUniverse]/[POutOfFuel] are artefacts of the model.) *)
Definition bookkeeping (p : psite) : bool :=
  match p with
  | PSatInsert | PSatRemove | PNotInstantiation | PUnexpectedEdge | PDeadNodeInMap
  | PExportMissing | PImportMissing | PDefinedMissing => true
  | _ => false
  end.
Definition ok_outcome (o : outcome) : Prop := forall p, o = OPanic p -> bookkeeping p = false.

Lemma ok_not_panic o : (forall p, o <> OPanic p) -> ok_outcome o.
Proof. intros H p E. now apply H in E. Qed.

Ltac ok_triv := solve [ apply ok_not_panic; intros ? ?; discriminate
                      | intros ? [= <-]; reflexivity ].

(** replacing a live node by a node of the same kind and package *)
Lemma set_live_nrel (P : node -> node -> Prop) ns n nd nd' :
  (forall x, P x x) -> getn ns n = Some nd -> P nd nd' -> nrel P ns (set_nth ns n (Some nd')).
Proof. intros R G H. eapply upd_nrel; eauto. eapply upd_set_live; eauto. Qed.

Lemma InvC_set_node_fields u s n nd nd' :
  InvC u s -> get_node s n = Some nd -> nk nd' = nk nd -> npkg nd' = npkg nd -> nexport nd' = nexport nd ->
  InvC u (set_node s n (Some nd')).
Proof.
  intros [F E X I D P] G K1 K2 K3. rewrite get_node_getn in G. constructor; cbn.
  - eapply FreeOK_set_live; eauto.
  - eapply EdgeOK_ext; [|eauto]. apply set_live_nrel with (nd := nd); auto.
  - eapply ExOK_ext; [|eauto]. apply set_live_nrel with (nd := nd); auto.
  - eapply ImOK_ext; [|eauto]. apply set_live_nrel with (nd := nd); auto using kclass_refl.
    rewrite K1. apply kclass_refl.
  - eapply DfOK_ext; [|eauto]. apply set_live_nrel with (nd := nd); auto using kclass_refl.
    rewrite K1. apply kclass_refl.
  - eapply PkgOK_drop; [|eauto]. apply set_live_nrel with (nd := nd); auto using kclass_refl.
    rewrite K1. auto using kclass_refl.
Qed.

(** * set_name *)
Lemma set_name_inv u s n nm : InvC u s -> InvC u (fst (set_name s n nm)).
Proof.
  intros H. unfold set_name, update_node. destruct (get_node s n) as [nd|] eqn:G; cbn [fst]; auto.
  eapply InvC_set_node_fields; eauto.
Qed.

Lemma set_name_ok s n nm : ok_outcome (snd (set_name s n nm)).
Proof. unfold set_name, update_node. destruct (get_node s n); cbn; ok_triv. Qed.

(** * register *)
Lemma get_pkg_l_app pk x id p : get_pkg_l pk id = Some p -> get_pkg_l (pk ++ [x]) id = Some p.
Proof.
  unfold get_pkg_l. destruct (nth_error pk (fst id)) as [sl|] eqn:E; [|discriminate].
  rewrite nth_error_app1; [now rewrite E|]. apply nth_error_Some. congruence.
Qed.

Lemma get_pkg_l_set_other pk i x id : fst id <> i -> get_pkg_l (set_nth pk i x) id = get_pkg_l pk id.
Proof.
  intros H. unfold get_pkg_l. rewrite nth_error_set_nth. apply Nat.eqb_neq in H. now rewrite H.
Qed.

Lemma register_inv u s p : InvC u s -> InvC u (fst (register u s p)).
Proof.
  intros H. unfold register. destruct (find_pkg_slot s p); auto.
  pose proof H as [F E X I D P]. destruct (free_pkgs s) as [|i fp] eqn:Fp.
  - constructor; cbn; auto. eapply PkgOK_pkgs; eauto; [|intros i []|constructor].
    intros n nd id G K. destruct (po_live _ _ _ _ P n nd id G K) as [q Q].
    rewrite Q. now apply get_pkg_l_app.
  - destruct (nth_error (pkgs s) i) as [sl|] eqn:Sl; auto.
    constructor; cbn; auto. pose proof P as [A B Fr N]. inversion N as [|? ? Hni N']; subst.
    destruct (Fr i (or_introl eq_refl)) as [sl' [Sl' Nn]]. rewrite Sl in Sl'. injection Sl' as <-.
    eapply PkgOK_pkgs; eauto.
    + intros n nd id G K. destruct (A n nd id G K) as [q Q]. apply get_pkg_l_set_other.
      intros Ei. unfold get_pkg_l in Q. rewrite Ei, Sl, Nn in Q. destruct (ps_gen sl =? snd id); discriminate.
    + intros j Hj. destruct (Fr j (or_intror Hj)) as [sl' [Sl' Nn']]. exists sl'. split; auto.
      rewrite nth_error_set_nth. destruct (Nat.eqb_spec j i); [subst; contradiction|auto].
Qed.

Lemma register_ok u s p : ok_outcome (snd (register u s p)).
Proof.
  unfold register. destruct (find_pkg_slot s p); [ok_triv|].
  destruct (free_pkgs s); [ok_triv|]. destruct (nth_error (pkgs s) n); ok_triv.
Qed.

(** * operations that allocate a node *)
Ltac use_add_node A F :=
  let Fr := fresh "Fr" in let F1 := fresh "F1" in
  apply add_node_spec in A as (Fr & F1 & ?E1 & ?E2 & ?E3 & ?E4 & ?E5 & ?E6); [|exact F].

Lemma pkg_desc_l_get u pk id pd : pkg_desc_l u pk id = Some pd -> exists p, get_pkg_l pk id = Some p.
Proof. unfold pkg_desc_l. destruct (get_pkg_l pk id); [eauto|discriminate]. Qed.

Lemma instantiate_inv u s id : InvC u s -> InvC u (fst (instantiate u s id)).
Proof.
  intros H. unfold instantiate. destruct (pkg_desc u s id) as [pd|] eqn:Pd; auto.
  destruct (add_node s _) as [s1 idx] eqn:A. cbn [fst]. pose proof H as [F E X I D P].
  use_add_node A F. rewrite pkg_desc_l_eq in Pd. constructor; auto.
  - rewrite E1. eapply EdgeOK_fresh; eauto. cbn. now intros sat [= <-].
  - rewrite E3. eapply ExOK_fresh_none; eauto.
  - rewrite E2. eapply ImOK_fresh_other; eauto. cbn. discriminate.
  - rewrite E4. eapply DfOK_fresh_other; eauto. cbn. discriminate.
  - rewrite E5, E6. eapply PkgOK_fresh; eauto; cbn.
    + intros id' [= <-]. eapply pkg_desc_l_get; eauto.
    + intros sat _. eauto.
Qed.

Lemma instantiate_ok u s id : ok_outcome (snd (instantiate u s id)).
Proof.
  unfold instantiate. destruct (pkg_desc u s id); [|ok_triv]. destruct (add_node s _). ok_triv.
Qed.

Lemma import_inv u s nm k : InvC u s -> InvC u (fst (import_ u s nm k)).
Proof.
  intros H. unfold import_. destruct (nth_error (u_lkinds u) k) as [kd|]; auto.
  destruct (alist_get N.eqb (imports s) nm) eqn:Al; auto. destruct (negb (u_import_name_ok u nm)); auto.
  destruct (add_node s _) as [s1 idx] eqn:A. cbn [fst]. pose proof H as [F E X I D P].
  use_add_node A F. apply alist_get_None in Al. constructor; cbn; auto.
  - rewrite E1. eapply EdgeOK_fresh; eauto. cbn. discriminate.
  - rewrite E3. eapply ExOK_fresh_none; eauto.
  - rewrite E2. eapply ImOK_fresh_import; eauto.
  - rewrite E4. eapply DfOK_fresh_other; eauto. cbn. discriminate.
  - rewrite E5, E6. eapply PkgOK_fresh; eauto; cbn; discriminate.
Qed.

Lemma import_ok u s nm k : ok_outcome (snd (import_ u s nm k)).
Proof.
  unfold import_. destruct (nth_error (u_lkinds u) k); [|ok_triv].
  destruct (alist_get N.eqb (imports s) nm); [ok_triv|]. destruct (negb _); [ok_triv|].
  destruct (add_node s _). ok_triv.
Qed.

Lemma alias_inv u s n e : InvC u s -> InvC u (fst (alias u s n e)).
Proof.
  intros H. unfold alias. destruct (get_node s n) as [nd|] eqn:G; auto.
  destruct (u_inst_exports u (nitem nd)) as [ex|]; auto.
  destruct (get_full ex e 0) as [[index kind]|]; auto.
  destruct (find _ (outgoing s n)); auto.
  destruct (add_node s _) as [s1 idx] eqn:A. cbn [fst]. pose proof H as [F E X I D P].
  use_add_node A F. rewrite get_node_getn in G. constructor; cbn; auto.
  - rewrite E1. destruct Fr as [Fd Fu]. apply EdgeOK_add_plain; cbn.
    + eapply EdgeOK_fresh; eauto; [split; eauto|]. cbn. discriminate.
    + eapply liveb_upd_some; eauto. apply liveb_true; eauto.
    + apply liveb_true. rewrite (upd_same _ _ _ _ Fu). eauto.
    + discriminate.
    + intros x sat Hx. rewrite (upd_same _ _ _ _ Fu) in Hx. injection Hx as <-. cbn. discriminate.
  - rewrite E3. eapply ExOK_fresh_none; eauto.
  - rewrite E2. eapply ImOK_fresh_other; eauto. cbn. discriminate.
  - rewrite E4. eapply DfOK_fresh_other; eauto. cbn. discriminate.
  - rewrite E5, E6. eapply PkgOK_fresh; eauto; cbn; [|discriminate].
    intros id K. eapply po_live; eauto.
Qed.

Lemma alias_ok u s n e : ok_outcome (snd (alias u s n e)).
Proof.
  unfold alias. destruct (get_node s n) as [nd|]; [|ok_triv].
  destruct (u_inst_exports u (nitem nd)) as [ex|]; [|ok_triv].
  destruct (get_full ex e 0) as [[index kind]|]; [|ok_triv].
  destruct (find _ (outgoing s n)); [ok_triv|]. destruct (add_node s _). ok_triv.
Qed.

(** * define_type *)
Lemma fold_left_ind {A B} (P : A -> Prop) (f : A -> B -> A) l a :
  (forall a x, In x l -> P a -> P (f a x)) -> P a -> P (fold_left f l a).
Proof.
  revert a. induction l as [|x l IH]; cbn; intros a H Pa; [exact Pa|].
  apply IH; [intros; apply H; auto|apply H; auto].
Qed.

Lemma insert_sorted_In p l x : In x (insert_sorted_by_node p l) -> x = p \/ In x l.
Proof.
  unfold insert_sorted_by_node. induction l as [|q r IH]; cbn.
  - intros [<-|[]]; auto.
  - destruct (snd p <=? snd q); cbn; intros [<-|H]; auto. apply IH in H as [->|H]; auto.
Qed.

Lemma sorted_In l x : In x (fold_right insert_sorted_by_node [] l) -> In x l.
Proof.
  induction l as [|p l IH]; cbn; auto. intros H. apply insert_sorted_In in H as [->|H]; auto.
Qed.

(** what the two edge-adding loops keep fixed *)
Definition same_but_edges (ns : list (option node)) (s1 s' : gstate) : Prop :=
  nodes s' = nodes s1 /\ free_nodes s' = free_nodes s1 /\ imports s' = imports s1 /\ exports s' = exports s1 /\
  defined s' = defined s1 /\ pkgs s' = pkgs s1 /\ free_pkgs s' = free_pkgs s1 /\ EdgeOK ns (edges s').

Lemma same_but_edges_add ns s1 s' a b x y :
  same_but_edges ns s1 s' -> getn ns a = Some x -> getn ns b = Some y -> nk y = NDef ->
  same_but_edges ns s1 (add_edge s' {| esrc := a; etgt := b; ek := EDep |}).
Proof.
  intros (Q1 & Q2 & Q3 & Q4 & Q5 & Q6 & Q7 & Q8) Ga Gb K.
  refine (conj Q1 (conj Q2 (conj Q3 (conj Q4 (conj Q5 (conj Q6 (conj Q7 _))))))). cbn.
  apply EdgeOK_add_plain; cbn; auto.
  - apply liveb_true; eauto.
  - apply liveb_true; eauto.
  - discriminate.
  - intros nd sat Hn. rewrite Gb in Hn. injection Hn as <-. congruence.
Qed.

Lemma define_type_inv u s nm t : InvC u s -> InvC u (fst (define_type u s nm t)).
Proof.
  intros H. unfold define_type. destruct (nth_error (u_tys u) t) as [td|]; auto.
  destruct (existsb (fun p => fst p =? t) (defined s)); auto. destruct (td_res td); auto.
  destruct (existsb (fun p => N.eqb (fst p) nm) (exports s)) eqn:Ex; auto. destruct (negb (u_import_name_ok u nm)); auto.
  destruct (add_node s _) as [s1 idx] eqn:A. cbn [fst]. pose proof H as [F E X I D P].
  use_add_node A F. apply existsb_key_false in Ex.
  set (ndef := {| nk := NDef; npkg := None; nitem := td_kind td; nname := None; nexport := Some nm |}) in *.
  assert (Gi : getn (nodes s1) idx = Some ndef) by (destruct Fr as [_ U]; now rewrite (upd_same _ _ _ _ U)).
  assert (Def1 : forall d dn, In (d, dn) (defined s1) -> exists x, getn (nodes s1) dn = Some x /\ nk x = NDef).
  { intros d dn Hd. rewrite E4 in Hd. apply (do_def _ _ D) in Hd as [x [Hx Kx]]. exists x. split; auto.
    destruct Fr as [Fd U]. rewrite U. destruct (Nat.eqb_spec dn idx); [congruence|auto]. }
  assert (Q1 : same_but_edges (nodes s1) s1 s1).
  { do 7 (split; [reflexivity|]). rewrite E1. eapply EdgeOK_fresh; eauto. cbn. discriminate. }
  match goal with |- InvC u (fst (let '(_, _) := _ in _)) => idtac | _ => idtac end.
  set (f1 := fun (s : gstate) (d : nat) =>
               if d =? t then s else
               match alist_get Nat.eqb (defined s) d with
               | Some dn => if has_dep_edge s dn idx then s else add_edge s {| esrc := dn; etgt := idx; ek := EDep |}
               | None => s end).
  set (s2 := fold_left f1 (td_deps td) s1).
  assert (Q2 : same_but_edges (nodes s1) s1 s2).
  { apply fold_left_ind; auto. intros a d _ Qa. unfold f1. destruct (d =? t); auto.
    destruct (alist_get Nat.eqb (defined a) d) as [dn|] eqn:Al; auto.
    destruct (has_dep_edge a dn idx); auto. apply alist_get_nat_In in Al.
    pose proof Qa as (Qn & Qf & Qi & Qe & Qd & Qr). rewrite Qd in Al. destruct (Def1 d dn Al) as [x [Hx Kx]].
    eapply same_but_edges_add; eauto. }
  set (others := fold_right insert_sorted_by_node [] (defined s2)).
  set (f2 := fun (s : gstate) (o : nat * nat) =>
               match nth_error (u_tys u) (fst o) with
               | None => s
               | Some od =>
                   fold_left (fun s d => if (d =? t) && negb (has_dep_edge s idx (snd o))
                                         then add_edge s {| esrc := idx; etgt := snd o; ek := EDep |} else s)
                             (td_deps od) s
               end).
  set (s3 := fold_left f2 others s2).
  assert (Q3 : same_but_edges (nodes s1) s1 s3).
  { apply fold_left_ind; auto. intros a [ot on] Ho Qa. unfold f2. cbn [fst snd].
    destruct (nth_error (u_tys u) ot) as [od|]; auto.
    apply sorted_In in Ho. destruct Q2 as (_ & _ & _ & _ & Qd & _). rewrite Qd in Ho.
    destruct (Def1 ot on Ho) as [x [Hx Kx]].
    apply fold_left_ind; auto. intros b d _ Qb. destruct ((d =? t) && _); auto.
    eapply same_but_edges_add; eauto. }
  destruct Q3 as (Qn & Qf & Qi & Qe & Qd & Qp & Qfp & Qr).
  constructor; cbn.
  - rewrite Qn, Qf. auto.
  - rewrite Qn. auto.
  - rewrite Qn, Qe, E3. eapply ExOK_fresh_some; eauto.
  - rewrite Qn, Qi, E2. eapply ImOK_fresh_other; eauto. cbn. discriminate.
  - rewrite Qn, Qd, E4. eapply DfOK_fresh_def; eauto.
  - rewrite Qn, Qp, Qfp, E5, E6. eapply PkgOK_fresh; eauto; cbn; discriminate.
Qed.

Lemma define_type_ok u s nm t : ok_outcome (snd (define_type u s nm t)).
Proof.
  unfold define_type. destruct (nth_error (u_tys u) t) as [td|]; [|ok_triv].
  destruct (existsb (fun p => fst p =? t) (defined s)); [ok_triv|]. destruct (td_res td); [ok_triv|].
  destruct (existsb (fun p => N.eqb (fst p) nm) (exports s)); [ok_triv|]. destruct (negb (u_import_name_ok u nm)); [ok_triv|].
  destruct (add_node s _). ok_triv.
Qed.

(** * export / unexport *)
Lemma export_inv u s n e : InvC u s -> InvC u (fst (export_ u s n e)).
Proof.
  intros H. unfold export_. destruct (alist_get N.eqb (exports s) e) eqn:Al; auto.
  destruct (negb (u_export_name_ok u e)); auto. unfold update_node.
  destruct (get_node s n) as [nd|] eqn:G; auto. cbn [fst]. apply alist_get_None in Al.
  pose proof H as [F E X I D P]. rewrite get_node_getn in G.
  set (nd' := {| nk := nk nd; npkg := npkg nd; nitem := nitem nd; nname := nname nd; nexport := Some e |}).
  constructor; cbn.
  - eapply FreeOK_set_live; eauto.
  - eapply EdgeOK_ext; [|eauto]. apply set_live_nrel with (nd := nd); auto.
  - unfold exports_renamed. rewrite get_node_getn, G.
    destruct (exports_renamed_spec _ _ n nd X G) as (Sub & Keep & ND).
    apply ExOK_export_sub with (ns := nodes s) (nd := nd) (nd' := nd') (ex := exports s); auto.
    + eapply upd_set_live; eauto.
    + intros Hin. apply Al. apply in_map_iff in Hin as [x [Ex Hx]]. apply in_map_iff. exists x. split; auto.
  - eapply ImOK_ext; [|eauto]. apply set_live_nrel with (nd := nd); auto using kclass_refl.
  - eapply DfOK_ext; [|eauto]. apply set_live_nrel with (nd := nd); auto using kclass_refl.
  - eapply PkgOK_drop; [|eauto]. apply set_live_nrel with (nd := nd); auto using kclass_refl.
Qed.

Lemma export_ok u s n e : ok_outcome (snd (export_ u s n e)).
Proof.
  unfold export_. destruct (alist_get N.eqb (exports s) e); [ok_triv|].
  destruct (negb _); [ok_triv|]. destruct (update_node s n _); ok_triv.
Qed.

Lemma unexport_cases u s n nd :
  InvC u s -> get_node s n = Some nd -> nk nd <> NDef ->
  let s1 := set_node s n (Some {| nk := nk nd; npkg := npkg nd; nitem := nitem nd; nname := nname nd;
                                  nexport := None |}) in
  exists ex, match nexport nd with
             | Some nm => match swap_remove (exports s1) nm with Some ex => inl ex | None => inr PExportMissing end
             | None => inl (exports s1)
             end = inl ex /\
             InvC u (with_maps s1 (imports s1) (filter (fun p => negb (snd p =? n)) ex) (defined s1)).
Proof.
  intros [F E X I D P] G K s1. rewrite get_node_getn in G.
  assert (Hex : exists ex, match nexport nd with Some nm => swap_remove (exports s) nm = Some ex | None => ex = exports s end).
  { destruct (nexport nd) as [nm|] eqn:En; [|eauto].
    destruct (swap_remove (exports s) nm) eqn:Sw; [eauto|]. exfalso. revert Sw. apply swap_remove_Some.
    pose proof (xo_node _ _ X n nd nm G En) as Hi. apply (in_map fst) in Hi. exact Hi. }
  destruct Hex as [ex Hex]. exists ex. split.
  - cbn [s1 set_node exports]. destruct (nexport nd); [now rewrite Hex|now subst].
  - destruct (exports_after_remove _ _ _ _ _ X G Hex) as [M ND].
    constructor; cbn.
    + eapply FreeOK_set_live; eauto.
    + eapply EdgeOK_ext; [|eauto]. apply set_live_nrel with (nd := nd); auto.
    + eapply ExOK_unexport; eauto; [eapply upd_set_live; eauto|reflexivity].
    + eapply ImOK_ext; [|eauto]. apply set_live_nrel with (nd := nd); auto using kclass_refl.
    + eapply DfOK_ext; [|eauto]. apply set_live_nrel with (nd := nd); auto using kclass_refl.
    + eapply PkgOK_drop; [|eauto]. apply set_live_nrel with (nd := nd); auto using kclass_refl.
Qed.

Lemma unexport_inv u s n : InvC u s -> InvC u (fst (unexport s n)).
Proof.
  intros H. unfold unexport. destruct (get_node s n) as [nd|] eqn:G; auto.
  destruct (nk nd) eqn:K; auto;
    (destruct (unexport_cases u s n nd H G) as [ex [Eq Hi]]; [congruence|];
     rewrite K in *; cbn zeta in Eq; rewrite Eq; exact Hi).
Qed.

Lemma unexport_ok u s n : InvC u s -> ok_outcome (snd (unexport s n)).
Proof.
  intros H. unfold unexport. destruct (get_node s n) as [nd|] eqn:G; [|ok_triv].
  destruct (nk nd) eqn:K; [ok_triv| | |];
    (destruct (unexport_cases u s n nd H G) as [ex [Eq Hi]]; [congruence|];
     rewrite K in *; cbn zeta in Eq; rewrite Eq; ok_triv).
Qed.

(** * set_arg / unset_arg *)
Lemma scan_incoming_none es inst index arg :
  scan_incoming (filter (fun e => etgt e =? inst) es) index arg = ScanNone ->
  forall e, In e es -> is_arg inst index e = false.
Proof.
  induction es as [|x es IH]; cbn; [tauto|]. destruct (Nat.eqb_spec (etgt x) inst) as [Et|Et].
  - cbn. destruct (ek x) as [j|j|] eqn:K; try discriminate.
    destruct (Nat.eqb_spec j index) as [->|Hj]; [destruct (esrc x =? arg); discriminate|].
    intros H e [<-|He]; auto. unfold is_arg. rewrite K. apply Nat.eqb_neq in Hj. rewrite Hj. apply andb_false_r.
  - intros H e [<-|He]; auto. unfold is_arg. apply Nat.eqb_neq in Et. now rewrite Et.
Qed.

Lemma scan_incoming_panic es inst index arg :
  scan_incoming (filter (fun e => etgt e =? inst) es) index arg = ScanPanic ->
  exists e, In e es /\ etgt e = inst /\ forall i, ek e <> EArg i.
Proof.
  induction es as [|x es IH]; cbn; [discriminate|]. destruct (Nat.eqb_spec (etgt x) inst) as [Et|Et].
  - cbn. destruct (ek x) as [j|j|] eqn:K.
    + intros _. exists x. repeat split; auto. intros i. congruence.
    + destruct (j =? index); [destruct (esrc x =? arg); discriminate|].
      intros H. destruct (IH H) as [e [He R]]. eauto.
    + intros _. exists x. repeat split; auto. intros i. congruence.
  - intros H. destruct (IH H) as [e [He R]]. eauto.
Qed.

Lemma set_arg_cases u s inst arg nd sat index an :
  InvC u s -> get_node s inst = Some nd -> nk nd = NInst sat ->
  scan_incoming (incoming s inst) index arg = ScanNone -> get_node s arg = Some an ->
  let s1 := add_edge s {| esrc := arg; etgt := inst; ek := EArg index |} in
  exists s2, add_satisfied s1 inst index = inl (Some s2) /\ InvC u s2.
Proof.
  intros [F E X I D P] G K Sc Ga s1. rewrite get_node_getn in *.
  assert (Z : count_arg_l (edges s) inst index = 0).
  { apply filter_length_zero. eapply scan_incoming_none; eauto. }
  destruct (eo_sat _ _ E inst nd sat G K) as [ND Cn].
  assert (Hn : existsb (Nat.eqb index) sat = false).
  { specialize (Cn index). rewrite Z in Cn. destruct (existsb _ sat); [discriminate|auto]. }
  unfold add_satisfied. replace (get_node s1 inst) with (Some nd) by (symmetry; exact G).
  rewrite K, Hn. eexists. split; [reflexivity|].
  constructor; cbn.
  - eapply FreeOK_set_live; eauto.
  - eapply EdgeOK_set_arg; eauto.
    + apply liveb_true; eauto.
    + eapply upd_set_live; eauto.
  - eapply ExOK_ext; [|eauto]. apply set_live_nrel with (nd := nd); auto.
  - eapply ImOK_ext; [|eauto]. apply set_live_nrel with (nd := nd); auto using kclass_refl.
    cbn. now rewrite K.
  - eapply DfOK_ext; [|eauto]. apply set_live_nrel with (nd := nd); auto using kclass_refl.
    cbn. now rewrite K.
  - eapply PkgOK_drop; [|eauto]. apply set_live_nrel with (nd := nd); auto using kclass_refl.
    cbn. rewrite K. cbn. auto.
Qed.

Lemma set_arg_inv u s inst a arg : InvC u s -> InvC u (fst (set_arg u s inst a arg)).
Proof.
  intros H. unfold set_arg. destruct (get_node s inst) as [nd|] eqn:G; auto.
  destruct (nk nd) as [| |sat|] eqn:K; auto. destruct (inst_imports u s nd) as [imps|]; auto.
  destruct (get_full imps a 0) as [[index expected]|]; auto.
  destruct (scan_incoming _ index arg) eqn:Sc; auto.
  destruct (get_node s arg) as [an|] eqn:Ga; auto. destruct (negb (u_sub u _ _)); auto.
  destruct (set_arg_cases u s inst arg nd sat index an H G K Sc Ga) as [s2 [Eq Hi]].
  cbn zeta in Eq. rewrite Eq. exact Hi.
Qed.

Lemma set_arg_ok u s inst a arg : InvC u s -> ok_outcome (snd (set_arg u s inst a arg)).
Proof.
  intros H. unfold set_arg. destruct (get_node s inst) as [nd|] eqn:G; [|ok_triv].
  destruct (nk nd) as [| |sat|] eqn:K; try ok_triv. destruct (inst_imports u s nd) as [imps|]; [|ok_triv].
  destruct (get_full imps a 0) as [[index expected]|]; [|ok_triv].
  destruct (scan_incoming _ index arg) eqn:Sc; try ok_triv.
  - destruct (get_node s arg) as [an|] eqn:Ga; [|ok_triv]. destruct (negb (u_sub u _ _)); [ok_triv|].
    destruct (set_arg_cases u s inst arg nd sat index an H G K Sc Ga) as [s2 [Eq Hi]].
    cbn zeta in Eq. rewrite Eq. ok_triv.
  - exfalso. apply scan_incoming_panic in Sc as [e [He [Et Hk]]].
    destruct (eo_inst_arg _ _ (ic_edge _ _ H) e nd sat He) as [i Hi]; auto; [now rewrite Et|].
    now apply Hk in Hi.
Qed.

Lemma scan_connecting_found es arg inst index :
  scan_connecting (filter (fun e => (esrc e =? arg) && (etgt e =? inst)) es) index = UFound ->
  exists e, In e es /\ esrc e = arg /\ etgt e = inst /\ ek e = EArg index.
Proof.
  induction es as [|x es IH]; cbn; [discriminate|]. destruct ((esrc x =? arg) && (etgt x =? inst)) eqn:C.
  - cbn. apply andb_true_iff in C as [C1 C2]. apply Nat.eqb_eq in C1, C2.
    destruct (ek x) as [j|j|] eqn:K; try discriminate.
    destruct (Nat.eqb_spec j index) as [->|Hj].
    + intros _. exists x. auto.
    + intros H. destruct (IH H) as [e [He R]]. eauto.
  - intros H. destruct (IH H) as [e [He R]]. eauto.
Qed.

Lemma scan_connecting_panic es arg inst index :
  scan_connecting (filter (fun e => (esrc e =? arg) && (etgt e =? inst)) es) index = UPanic ->
  exists e, In e es /\ etgt e = inst /\ forall i, ek e <> EArg i.
Proof.
  induction es as [|x es IH]; cbn; [discriminate|]. destruct ((esrc x =? arg) && (etgt x =? inst)) eqn:C.
  - cbn. apply andb_true_iff in C as [C1 C2]. apply Nat.eqb_eq in C1, C2.
    destruct (ek x) as [j|j|] eqn:K.
    + intros _. exists x. repeat split; auto. intros i. congruence.
    + destruct (j =? index); [discriminate|]. intros H. destruct (IH H) as [e [He R]]. eauto.
    + intros _. exists x. repeat split; auto. intros i. congruence.
  - intros H. destruct (IH H) as [e [He R]]. eauto.
Qed.

Lemma unset_arg_cases u s inst arg nd sat index :
  InvC u s -> get_node s inst = Some nd -> nk nd = NInst sat ->
  scan_connecting (filter (fun e => (esrc e =? arg) && (etgt e =? inst)) (edges s)) index = UFound ->
  let isit := fun e => (esrc e =? arg) && (etgt e =? inst) && match ek e with EArg i => i =? index | _ => false end in
  exists s1, remove_satisfied s inst index = inl s1 /\
    InvC u {| nodes := nodes s1; free_nodes := free_nodes s1; edges := remove_first isit (edges s1);
              imports := imports s1; exports := exports s1; defined := defined s1;
              pkgs := pkgs s1; free_pkgs := free_pkgs s1 |}.
Proof.
  intros [F E X I D P] G K Sc isit. rewrite get_node_getn in *.
  apply scan_connecting_found in Sc as [e0 [He0 [S0 [T0 K0]]]].
  assert (Hit : isit e0 = true) by (unfold isit; now rewrite S0, T0, K0, !Nat.eqb_refl).
  destruct (eo_sat _ _ E inst nd sat G K) as [ND Cn].
  assert (Hn : existsb (Nat.eqb index) sat = true).
  { specialize (Cn index). destruct (existsb _ sat); auto.
    assert (1 <= count_arg_l (edges s) inst index).
    { eapply filter_length_pos; eauto. apply is_arg_true. auto. }
    lia. }
  unfold remove_satisfied. replace (get_node s inst) with (Some nd) by (symmetry; exact G).
  rewrite K, Hn. eexists. split; [reflexivity|].
  constructor; cbn.
  - eapply FreeOK_set_live; eauto.
  - eapply EdgeOK_unset_arg; eauto. eapply upd_set_live; eauto.
  - eapply ExOK_ext; [|eauto]. apply set_live_nrel with (nd := nd); auto.
  - eapply ImOK_ext; [|eauto]. apply set_live_nrel with (nd := nd); auto using kclass_refl.
    cbn. now rewrite K.
  - eapply DfOK_ext; [|eauto]. apply set_live_nrel with (nd := nd); auto using kclass_refl.
    cbn. now rewrite K.
  - eapply PkgOK_drop; [|eauto]. apply set_live_nrel with (nd := nd); auto using kclass_refl.
    cbn. rewrite K. cbn. auto.
Qed.

Lemma unset_arg_inv u s inst a arg : InvC u s -> InvC u (fst (unset_arg u s inst a arg)).
Proof.
  intros H. unfold unset_arg. destruct (get_node s inst) as [nd|] eqn:G; auto.
  destruct (nk nd) as [| |sat|] eqn:K; auto. destruct (inst_imports u s nd) as [imps|]; auto.
  destruct (get_full imps a 0) as [[index expected]|]; auto.
  destruct (scan_connecting _ index) eqn:Sc; auto.
  destruct (unset_arg_cases u s inst arg nd sat index H G K Sc) as [s1 [Eq Hi]].
  cbn zeta in Hi. rewrite Eq. exact Hi.
Qed.

Lemma unset_arg_ok u s inst a arg : InvC u s -> ok_outcome (snd (unset_arg u s inst a arg)).
Proof.
  intros H. unfold unset_arg. destruct (get_node s inst) as [nd|] eqn:G; [|ok_triv].
  destruct (nk nd) as [| |sat|] eqn:K; try ok_triv. destruct (inst_imports u s nd) as [imps|]; [|ok_triv].
  destruct (get_full imps a 0) as [[index expected]|]; [|ok_triv].
  destruct (scan_connecting _ index) eqn:Sc; try ok_triv.
  - destruct (unset_arg_cases u s inst arg nd sat index H G K Sc) as [s1 [Eq Hi]]. rewrite Eq. ok_triv.
  - exfalso. apply scan_connecting_panic in Sc as [e [He [Et Hk]]].
    destruct (eo_inst_arg _ _ (ic_edge _ _ H) e nd sat He) as [i Hi]; auto; [now rewrite Et|].
    now apply Hk in Hi.
Qed.
