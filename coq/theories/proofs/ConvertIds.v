(** Identity of converted identifiers.

    - [convert_ids_injective]: two DISTINCT validator identifiers are never converted to the same [wac_types] identifier
      (the converse of [convert_cache_consistent]).  The only shared values are the handle value types [own r] /
      [borrow r], which are not identifiers of their own in [wac_types].
    - [resource_alias_spec]: converted resources preserve identity and aliasing: two validator resource identifiers are
      converted to resources with the same alias root iff they have the same underlying validator resource
      ([AliasableResourceId::resource()], which is what [resource_map] is keyed by).

    Invariant: every cached identifier is in range, no [wac_types] slot is cached twice, every [resource_map] value is an
    un-aliased resource and the map is injective, every cached resource has as alias root the [resource_map] entry of
    its validator resource.  Frame: conversions only add cache entries for slots allocated after they started. *)
From Coq Require Import Lia.
From WacV Require Import Str Types CheckerEq CheckerValue CheckerProofs Convert ConvertSpec ConvertProofs ConvertFrame ConvertTree.
Set Warnings "-unused-intro-pattern".

Inductive arena := ADef | ARes | AFunc | AIf | AWorld | AMod.
Definition arena_len (t : types) (a : arena) : nat :=
  match a with
  | ADef => length (t_defined t) | ARes => length (t_resources t) | AFunc => length (t_funcs t)
  | AIf => length (t_interfaces t) | AWorld => length (t_worlds t) | AMod => length (t_modules t)
  end.
(** the [wac_types] slot an entity occupies; the handle / primitive value types occupy none *)
Definition ent_slot (e : entity) : option (arena * id) :=
  match e with
  | EnType (TValue (VDefined d)) => Some (ADef, d)
  | EnType (TValue _) => None
  | EnType (TResource r) | EnRes r => Some (ARes, r)
  | EnType (TFunc f) => Some (AFunc, f)
  | EnType (TInterface i) => Some (AIf, i)
  | EnType (TWorld w) => Some (AWorld, w)
  | EnType (TModule m) => Some (AMod, m)
  end.
Definition valid_ent (t : types) (e : entity) : Prop :=
  match ent_slot e with Some (a, i) => id_tag i = t_tag t /\ (id_idx i < arena_len t a)%nat | None => True end.
Definition fresh_ent (t : types) (e : entity) : Prop :=
  match ent_slot e with Some (a, i) => (arena_len t a <= id_idx i)%nat | None => True end.

Lemma agree_lens O t t' : agree O t t' -> forall a, (arena_len t a <= arena_len t' a)%nat.
Proof.
  intros A a.
  assert (P : forall X (l l' : list X), (forall i d, nth_error l i = Some d -> nth_error l' i = Some d) -> (length l <= length l')%nat).
  { intros X l l' H. destruct l as [|x l0] eqn:El; [cbn; lia|]. rewrite <- El in *.
    destruct (nth_error l (length l - 1)) as [d|] eqn:E.
    - apply H in E. assert (length l - 1 < length l')%nat by (apply nth_error_Some; congruence). subst l. cbn in *. lia.
    - apply nth_error_None in E. subst l. cbn in *. lia. }
  destruct a; cbn [arena_len].
  - apply P. apply (ag_def _ _ _ A).
  - destruct (t_resources t) as [|x l0] eqn:El; [cbn; lia|]. rewrite <- El.
    destruct (nth_error (t_resources t) (length (t_resources t) - 1)) as [d|] eqn:E.
    + destruct (ag_res _ _ _ A _ _ E) as [r' [E' _]].
      assert (length (t_resources t) - 1 < length (t_resources t'))%nat by (apply nth_error_Some; congruence). rewrite El in *. cbn in *. lia.
    + apply nth_error_None in E. rewrite El in *. cbn in *. lia.
  - apply P. apply (ag_func _ _ _ A).
  - apply (ag_len_if _ _ _ A).
  - apply (ag_len_world _ _ _ A).
  - apply P. apply (ag_mod _ _ _ A).
Qed.

(** the kind of a cache entry is the kind of the validator node *)
Definition node_matches (n : option vnode) (e : entity) : Prop :=
  match n, e with
  | Some (NDef _), EnType (TValue _) | Some (NFunc _ _ _), EnType (TFunc _) | Some (NInst _), EnType (TInterface _)
  | Some (NComp _ _), EnType (TWorld _) | Some (NMod _), EnType (TModule _) | Some (NRes _), EnRes _ => True
  | _, _ => False
  end.

Section Ids.
  Variable g : vgraph.

  Definition rid_of_node (v : vid) : option nat := match node_of g v with Some (NRes r) => Some r | _ => None end.
  Definition is_root (t : types) (r : id) : Prop :=
    id_tag r = t_tag t /\ exists x, nth_error (t_resources t) (id_idx r) = Some x /\ res_source x = None.

  Record ids_inv (s : cstate) : Prop := mkinv {
    iv_valid : forall v e, In (v, e) (cs_cache s) -> valid_ent (cs_types s) e;
    iv_kind : forall v e, In (v, e) (cs_cache s) -> node_matches (node_of g v) e;
    iv_inj : forall v1 v2 e1 e2 x, In (v1, e1) (cs_cache s) -> In (v2, e2) (cs_cache s) ->
             ent_slot e1 = Some x -> ent_slot e2 = Some x -> v1 = v2;
    iv_roots : forall rid r, In (rid, r) (cs_resmap s) -> is_root (cs_types s) r;
    iv_rinj : forall rid1 rid2 r, nassoc rid1 (cs_resmap s) = Some r -> nassoc rid2 (cs_resmap s) = Some r -> rid1 = rid2;
    iv_res : forall v r, In (v, EnRes r) (cs_cache s) ->
             exists rid root, rid_of_node v = Some rid /\ nassoc rid (cs_resmap s) = Some root /\
                              res_root 2 (cs_types s) r = Some root }.

  (** what a conversion does to the state *)
  Record adv (s s' : cstate) : Prop := mkadv {
    adv_tag : t_tag (cs_types s') = t_tag (cs_types s);
    adv_len : forall a, (arena_len (cs_types s) a <= arena_len (cs_types s') a)%nat;
    adv_res : forall i x, nth_error (t_resources (cs_types s)) i = Some x ->
              exists x', nth_error (t_resources (cs_types s')) i = Some x' /\ res_source x' = res_source x;
    adv_cache : exists new, cs_cache s' = new ++ cs_cache s /\ forall v e, In (v, e) new -> fresh_ent (cs_types s) e;
    adv_resmap : exists newr, cs_resmap s' = newr ++ cs_resmap s /\
                 forall rid r, In (rid, r) newr -> nassoc rid (cs_resmap s) = None }.

  Lemma adv_refl s : adv s s.
  Proof. constructor; eauto; [exists []; split; [reflexivity | intros ? ? []] | exists []; split; [reflexivity | intros ? ? []]]. Qed.
  Lemma fresh_mono t t' e : (forall a, (arena_len t a <= arena_len t' a)%nat) -> fresh_ent t' e -> fresh_ent t e.
  Proof. unfold fresh_ent. destruct (ent_slot e) as [[a i]|]; [|auto]. intros H F. specialize (H a). lia. Qed.
  Lemma nassoc_app_none {B} k (a b : list (nat * B)) : nassoc k (a ++ b) = None -> nassoc k b = None.
  Proof.
    induction a as [|[k' v] a IH]; cbn [app nassoc]; [auto|]. destruct (Nat.eqb k k'); [discriminate | exact IH].
  Qed.
  Lemma adv_trans s1 s2 s3 : adv s1 s2 -> adv s2 s3 -> adv s1 s3.
  Proof.
    intros [A1 A2 A3 [n1 [A4 A5]] [r1 [A6 A7]]] [B1 B2 B3 [n2 [B4 B5]] [r2 [B6 B7]]]. constructor.
    - congruence.
    - intro a. specialize (A2 a). specialize (B2 a). lia.
    - intros i x H. destruct (A3 _ _ H) as [x' [H1 H2]]. destruct (B3 _ _ H1) as [x'' [H3 H4]]. exists x''. split; congruence.
    - exists (n2 ++ n1). split; [rewrite B4, A4; now rewrite app_assoc|]. intros v e Hin. apply in_app_or in Hin as [Hin|Hin].
      + eapply fresh_mono; [exact A2 | eapply B5; exact Hin].
      + eapply A5; exact Hin.
    - exists (r2 ++ r1). split; [rewrite B6, A6; now rewrite app_assoc|]. intros rid r Hin. apply in_app_or in Hin as [Hin|Hin].
      + apply B7 in Hin. rewrite A6 in Hin. eapply nassoc_app_none; exact Hin.
      + eapply A7; exact Hin.
  Qed.

  (** ** Steps that change the collection only *)
  Lemma res_root_agree O t t' : agree O t t' -> forall f r root, res_root f t r = Some root -> res_root f t' r = Some root.
  Proof.
    intros A. induction f as [|f IH]; intros r root; [discriminate|]. cbn [res_root].
    destruct (get_res t r) as [x|] eqn:E; [|discriminate]. destruct (agree_get_res _ _ _ A _ _ E) as [x' [-> [_ Hs]]].
    rewrite Hs. destruct (res_source x); [apply IH | auto].
  Qed.

  Lemma types_step O s s' :
    agree O (cs_types s) (cs_types s') -> cs_cache s' = cs_cache s -> cs_resmap s' = cs_resmap s ->
    ids_inv s -> ids_inv s' /\ adv s s'.
  Proof.
    intros A Hc Hr [I1 IK I2 I3 I4 I5]. pose proof (agree_lens _ _ _ A) as L. split.
    - constructor; rewrite ?Hc, ?Hr; auto.
      + intros v e Hin. specialize (I1 v e Hin). unfold valid_ent in *. destruct (ent_slot e) as [[a i]|]; [|auto].
        destruct I1 as [T1 T2]. rewrite (ag_tag _ _ _ A). split; [exact T1 | specialize (L a); lia].
      + intros rid r Hin. destruct (I3 rid r Hin) as [T [x [E1 E2]]]. destruct (ag_res _ _ _ A _ _ E1) as [x' [E1' [_ E3]]].
        split; [now rewrite (ag_tag _ _ _ A)|]. exists x'. split; [exact E1' | congruence].
      + intros v r Hin. destruct (I5 v r Hin) as [rid [root [H1 [H2 H3]]]]. exists rid, root. repeat split; auto.
        eapply res_root_agree; eassumption.
    - constructor.
      + apply (ag_tag _ _ _ A).
      + exact L.
      + intros i x H. destruct (ag_res _ _ _ A _ _ H) as [x' [H1 [_ H2]]]. eauto.
      + exists []. split; [now rewrite Hc | intros ? ? []].
      + exists []. split; [now rewrite Hr | intros ? ? []].
  Qed.

  (** ** Filling the cache *)
  Definition unused (s : cstate) (e : entity) : Prop :=
    forall v' e' x, In (v', e') (cs_cache s) -> ent_slot e' = Some x -> ent_slot e = Some x -> False.

  Lemma put_step s0 s v e :
    ids_inv s -> node_matches (node_of g v) e -> valid_ent (cs_types s) e -> unused s e -> fresh_ent (cs_types s0) e ->
    (forall r, e = EnRes r -> exists rid root, rid_of_node v = Some rid /\ nassoc rid (cs_resmap s) = Some root /\
                                                res_root 2 (cs_types s) r = Some root) ->
    adv s0 s -> ids_inv (cache_put s v e) /\ adv s0 (cache_put s v e).
  Proof.
    intros [I1 IK I2 I3 I4 I5] Hk Hv Hu Hf Hr A. split.
    - constructor; unfold cache_put; cbn [cs_cache cs_types cs_resmap]; auto.
      + intros v' e' [Hin|Hin]; [injection Hin as <- <-; exact Hv | eauto].
      + intros v' e' [Hin|Hin]; [injection Hin as <- <-; exact Hk | eauto].
      + intros v1 v2 e1 e2 x [H1|H1] [H2|H2] E1 E2.
        * congruence.
        * injection H1 as <- <-. exfalso. eapply Hu; eassumption.
        * injection H2 as <- <-. exfalso. eapply Hu; eassumption.
        * eauto.
      + intros v' r [Hin|Hin]; [injection Hin as Ev Ee; subst v'; exact (Hr r Ee) | eauto].
    - destruct A as [A1 A2 A3 [n [A4 A5]] A6]. constructor; unfold cache_put; cbn [cs_cache cs_types cs_resmap]; auto.
      exists ((v, e) :: n). split; [now rewrite A4|]. intros v' e' [Hin|Hin]; [injection Hin as <- <-; exact Hf | eauto].
  Qed.

  (** a freshly allocated slot is used by nobody *)
  Lemma unused_fresh s0 s e a i :
    ids_inv s0 -> adv s0 s -> ent_slot e = Some (a, i) -> id_idx i = arena_len (cs_types s0) a -> unused s0 e ->
    (forall v' e', In (v', e') (cs_cache s) -> In (v', e') (cs_cache s0) \/ fresh_ent (cs_types s0) e' /\ ent_slot e' <> Some (a, i)) ->
    unused s e.
  Proof.
    intros I0 A Es Hi U0 H v' e' x Hin E1 E2. rewrite Es in E2. injection E2 as <-.
    destruct (H v' e' Hin) as [Hold|[Hf Hne]]; [eapply U0; eauto | congruence].
  Qed.
  Lemma unused_at_len s e a i :
    ids_inv s -> ent_slot e = Some (a, i) -> id_idx i = arena_len (cs_types s) a -> unused s e.
  Proof.
    intros I Es Hi v' e' x Hin E1 E2. rewrite Es in E2. injection E2 as <-.
    pose proof (iv_valid _ I v' e' Hin) as Hv. unfold valid_ent in Hv. rewrite E1 in Hv. lia.
  Qed.

  Definition id_ok {R} (F : cstate -> cres (R * cstate)) : Prop :=
    forall s r s', ids_inv s -> F s = COk (r, s') -> ids_inv s' /\ adv s s'.

  Lemma mapM_id {A B} (f : A -> cstate -> cres (B * cstate)) : (forall a, id_ok (f a)) -> forall l, id_ok (mapM f l).
  Proof.
    intros Hf. induction l as [|a l IH]; intros s r s' I H; cbn [mapM] in H.
    - injection H as <- <-. split; [exact I | apply adv_refl].
    - inv_bind H as [y s1] H1. inv_bind H as [ys s2] H2. injection H as <- <-.
      destruct (Hf a s y s1 I H1) as [I1 A1]. destruct (IH s1 ys s2 I1 H2) as [I2 A2].
      split; [exact I2 | eapply adv_trans; eassumption].
  Qed.
  Lemma optM_id {A B} (f : A -> cstate -> cres (B * cstate)) : (forall a, id_ok (f a)) -> forall o, id_ok (optM f o).
  Proof.
    intros Hf [a|] s r s' I H; cbn [optM] in H.
    - inv_bind H as [y s1] H1. injection H as <- <-. exact (Hf a s y s1 I H1).
    - injection H as <- <-. split; [exact I | apply adv_refl].
  Qed.
  Lemma named_id {K A B} (f : A -> cstate -> cres (B * cstate)) : (forall a, id_ok (f a)) -> forall kv : K * A, id_ok (named f kv).
  Proof. intros Hf kv s r s' I H. unfold named in H. inv_bind H as [y s1] H1. injection H as <- <-. exact (Hf _ s y s1 I H1). Qed.

  (** ** Defined types *)
  (** the result of the inner computation of [defined_body]: a handle, or a defined type allocated last *)
  Definition newval (s0 s : cstate) (v : valtype) : Prop :=
    valid_ent (cs_types s) (EnType (TValue v)) /\ unused s (EnType (TValue v)) /\ fresh_ent (cs_types s0) (EnType (TValue v)).

  Lemma mk_def_id s0 d s v s' :
    ids_inv s -> adv s0 s -> mk_def d s = COk (v, s') -> ids_inv s' /\ adv s0 s' /\ newval s0 s' v.
  Proof.
    intros I A H. unfold mk_def, add_def in H. injection H as <- <-.
    set (t1 := mktypes _ _ _ _ _ _ _). set (i := mkid _ _).
    assert (A1 : agree [] (cs_types s) t1) by apply (agree_add_def (cs_types s) d).
    destruct (types_step [] s (with_types s t1) A1 eq_refl eq_refl I) as [I1 A2].
    split; [exact I1|]. split; [eapply adv_trans; eassumption|]. split; [|split].
    - unfold valid_ent. cbn [ent_slot cs_types with_types]. split; [reflexivity|]. unfold t1, i. cbn [arena_len t_defined id_idx]. rewrite app_length. cbn. lia.
    - intros v' e' x Hin E1 E2. cbn [ent_slot] in E2. injection E2 as <-.
      pose proof (iv_valid _ I v' e' Hin) as Hv. unfold valid_ent in Hv. rewrite E1 in Hv. cbn [arena_len i id_idx] in Hv. lia.
    - unfold fresh_ent. cbn [ent_slot]. pose proof (adv_len _ _ A ADef). cbn [arena_len i id_idx] in *. lia.
  Qed.

  Section DefBody.
    Variable R : vid -> cstate -> cres (valtype * cstate).
    Hypothesis HRd : forall d, id_ok (R d).

    Lemma val_body_id v : id_ok (val_body R v).
    Proof.
      destruct v as [p|d]; cbn [val_body]; [|apply HRd]. intros s r s' I H. injection H as <- <-. split; [exact I | apply adv_refl].
    Qed.

    Lemma defined_body_id d : id_ok (defined_body R g d).
    Proof.
      intros s r s' I H. unfold defined_body in H.
      destruct (nassoc d (cs_cache s)) as [[[ | |x| | | ]|]|] eqn:Ec; try discriminate.
      { injection H as <- <-. split; [exact I | apply adv_refl]. }
      destruct (node_of g d) as [[nd| | | | | ]|] eqn:En; try discriminate.
      inv_bind H as [v s1] H1. injection H as <- <-.
      assert (X : ids_inv s1 /\ adv s s1 /\ newval s s1 v).
      2:{ destruct X as [I1 [A1 [N1 [N2 N3]]]]. apply put_step; auto; [rewrite En; exact Logic.I | intros r0 E0; discriminate]. }
      assert (HM : forall dd s0 vv ss, ids_inv s0 -> adv s s0 -> mk_def dd s0 = COk (vv, ss) -> ids_inv ss /\ adv s ss /\ newval s ss vv)
        by (intros; eapply mk_def_id; eassumption).
      assert (Hh : forall ss vv, ids_inv ss -> adv s ss -> ent_slot (EnType (TValue vv)) = None -> ids_inv ss /\ adv s ss /\ newval s ss vv).
      { intros ss vv Is As E0. split; [exact Is|]. split; [exact As|]. unfold newval, valid_ent, fresh_ent, unused. rewrite E0.
        split; [exact Logic.I|]. split; [intros; discriminate | exact Logic.I]. }
      destruct nd as [p|fs|cs|x|k x|x n|l|l|l|x|o e|r0|r0|o|o]; try discriminate.
      - exact (HM _ _ _ _ I (adv_refl s) H1).
      - inv_bind H1 as [a s0] H0. destruct (mapM_id _ (named_id _ val_body_id) _ _ _ _ I H0) as [I0 A0]. exact (HM _ _ _ _ I0 A0 H1).
      - inv_bind H1 as [a s0] H0. destruct (mapM_id _ (named_id _ (optM_id _ val_body_id)) _ _ _ _ I H0) as [I0 A0].
        exact (HM _ _ _ _ I0 A0 H1).
      - inv_bind H1 as [a s0] H0. destruct (val_body_id _ _ _ _ I H0) as [I0 A0]. exact (HM _ _ _ _ I0 A0 H1).
      - inv_bind H1 as [a s0] H0. destruct (val_body_id _ _ _ _ I H0) as [I0 A0]. exact (HM _ _ _ _ I0 A0 H1).
      - inv_bind H1 as [a s0] H0. destruct (mapM_id _ val_body_id _ _ _ _ I H0) as [I0 A0]. exact (HM _ _ _ _ I0 A0 H1).
      - exact (HM _ _ _ _ I (adv_refl s) H1).
      - exact (HM _ _ _ _ I (adv_refl s) H1).
      - inv_bind H1 as [a s0] H0. destruct (val_body_id _ _ _ _ I H0) as [I0 A0]. exact (HM _ _ _ _ I0 A0 H1).
      - inv_bind H1 as [a s0] H0. inv_bind H1 as [b s00] H00.
        destruct (optM_id _ val_body_id _ _ _ _ I H0) as [I0 A0]. destruct (optM_id _ val_body_id _ _ _ _ I0 H00) as [I00 A00].
        exact (HM _ _ _ _ I00 (adv_trans _ _ _ A0 A00) H1).
      - inv_bind H1 as x0 H0. injection H1 as <- <-. apply Hh; [exact I | apply adv_refl | reflexivity].
      - inv_bind H1 as x0 H0. injection H1 as <- <-. apply Hh; [exact I | apply adv_refl | reflexivity].
      - inv_bind H1 as [a s0] H0. destruct (optM_id _ val_body_id _ _ _ _ I H0) as [I0 A0]. exact (HM _ _ _ _ I0 A0 H1).
      - inv_bind H1 as [a s0] H0. destruct (optM_id _ val_body_id _ _ _ _ I H0) as [I0 A0]. exact (HM _ _ _ _ I0 A0 H1).
    Qed.
  End DefBody.

  Lemma c_defined_id : forall fuel d, id_ok (c_defined fuel g d).
  Proof.
    induction fuel as [|f IH]; intros d; [intros s r s' _ H; discriminate|]. cbn [c_defined]. apply defined_body_id. exact IH.
  Qed.
  Lemma c_val_id fuel v : id_ok (c_val fuel g v).
  Proof. unfold c_val. apply val_body_id. apply c_defined_id. Qed.

  (** allocate-then-fill, for the three arenas where the two are adjacent *)
  Lemma alloc_put s0 s t1 v e a i :
    ids_inv s -> adv s0 s -> agree [] (cs_types s) t1 -> node_matches (node_of g v) e -> ent_slot e = Some (a, i) ->
    id_tag i = t_tag (cs_types s) -> id_idx i = arena_len (cs_types s) a -> (arena_len (cs_types s) a < arena_len t1 a)%nat ->
    (forall r, e = EnRes r -> exists rid root, rid_of_node v = Some rid /\ nassoc rid (cs_resmap s) = Some root /\
                                                res_root 2 t1 r = Some root) ->
    ids_inv (cache_put (with_types s t1) v e) /\ adv s0 (cache_put (with_types s t1) v e).
  Proof.
    intros I A A1 Hk Es Ht Hi Hl Hr.
    destruct (types_step [] s (with_types s t1) A1 eq_refl eq_refl I) as [I1 A2].
    apply put_step; [exact I1 | exact Hk | | | | exact Hr | eapply adv_trans; eassumption].
    - unfold valid_ent. rewrite Es. cbn [cs_types with_types]. rewrite (ag_tag _ _ _ A1). split; [exact Ht | lia].
    - intros v' e' x Hin E1 E2. rewrite Es in E2. injection E2 as <-.
      pose proof (iv_valid _ I v' e' Hin) as Hv. unfold valid_ent in Hv. rewrite E1 in Hv. lia.
    - unfold fresh_ent. rewrite Es. pose proof (adv_len _ _ A a). lia.
  Qed.

  Lemma c_func_id fuel v : id_ok (c_func fuel g v).
  Proof.
    intros s r s' I H. unfold c_func in H.
    destruct (nassoc v (cs_cache s)) as [[[ |f0| | | | ]|]|] eqn:Ec; try discriminate.
    { injection H as <- <-. split; [exact I | apply adv_refl]. }
    destruct (node_of g v) as [[ |a ps r0| | | | ]|] eqn:En; try discriminate.
    inv_bind H as [ps' s1] H1. inv_bind H as [r' s2] H2.
    destruct (mapM_id _ (named_id _ (c_val_id fuel)) _ _ _ _ I H1) as [I1 A1].
    destruct (optM_id _ (c_val_id fuel) _ _ _ _ I1 H2) as [I2 A2].
    unfold add_func in H. injection H as <- <-.
    eapply (alloc_put s s2 _ v _ AFunc); [exact I2 | eapply adv_trans; eassumption | apply (agree_add_func (cs_types s2)) | rewrite En; exact Logic.I | reflexivity
                                          | reflexivity | reflexivity | cbn; rewrite app_length; cbn; lia | intros; discriminate].
  Qed.
  Lemma c_module_id v : id_ok (c_module g v).
  Proof.
    intros s r s' I H. unfold c_module in H.
    destruct (nassoc v (cs_cache s)) as [[[ | | | | |m0]|]|] eqn:Ec; try discriminate.
    { injection H as <- <-. split; [exact I | apply adv_refl]. }
    destruct (node_of g v) as [[ | | | | |[mt|]]|] eqn:En; try discriminate.
    unfold add_mod in H. injection H as <- <-.
    eapply (alloc_put s s _ v _ AMod); [exact I | apply adv_refl | apply (agree_add_mod (cs_types s)) | rewrite En; exact Logic.I | reflexivity
                                        | reflexivity | reflexivity | cbn; rewrite app_length; cbn; lia | intros; discriminate].
  Qed.

  Lemma get_res_new t r : get_res (snd (add_res t r)) (fst (add_res t r)) = Some r.
  Proof. unfold get_res, add_res. cbn [fst snd t_tag t_resources]. apply lookup_new. Qed.

  Lemma c_resource_id hf name v : id_ok (c_resource hf g name v).
  Proof.
    intros s r s' I H. unfold c_resource in H.
    destruct (nassoc v (cs_cache s)) as [[|r0]|] eqn:Ec; try discriminate.
    { injection H as <- <-. split; [exact I | apply adv_refl]. }
    destruct (node_of g v) as [[ | | | |rid| ]|] eqn:En; try discriminate.
    assert (Hrid : rid_of_node v = Some rid) by (unfold rid_of_node; now rewrite En).
    destruct (nassoc rid (cs_resmap s)) as [src|] eqn:Em.
    - destruct (find_owner hf g (cs_owners s) v) as [o|]; [|discriminate].
      unfold add_res in H. injection H as <- <-.
      set (rr := mkres name _).
      eapply (alloc_put s s _ v _ ARes); [exact I | apply adv_refl | apply (agree_add_res (cs_types s) rr) | rewrite En; exact Logic.I | reflexivity
                                          | reflexivity | reflexivity | cbn; rewrite app_length; cbn; lia |].
      intros r1 E1. injection E1 as <-. exists rid, src. split; [exact Hrid|]. split; [exact Em|].
      (* the new resource aliases the root *)
      pose proof (get_res_new (cs_types s) rr) as G. unfold add_res in G. cbn [fst snd] in G.
      cbn [res_root]. rewrite G. unfold res_source at 1. cbn [rr res_alias].
      assert (Hin : In (rid, src) (cs_resmap s)).
      { clear - Em. induction (cs_resmap s) as [|[k x] l IH]; cbn [nassoc] in Em; [discriminate|].
        destruct (Nat.eqb rid k) eqn:E; [apply Nat.eqb_eq in E; injection Em as <-; subst; now left | right; auto]. }
      destruct (iv_roots _ I rid src Hin) as [T [x [E1 E2]]].
      assert (G2 : get_res (snd (add_res (cs_types s) rr)) src = Some x).
      { unfold get_res, add_res. cbn [snd t_tag t_resources]. apply lookup_intro; [exact T | now apply nth_error_app_some]. }
      unfold add_res in G2. cbn [snd] in G2. rewrite G2, E2. reflexivity.
    - unfold add_res in H. injection H as <- <-.
      set (rr := mkres name None). set (i := mkid _ _). set (t1 := mktypes _ _ _ _ _ _ _).
      assert (A1 : agree [] (cs_types s) t1) by apply (agree_add_res (cs_types s) rr).
      assert (G : get_res t1 i = Some rr) by (apply (get_res_new (cs_types s) rr)).
      assert (Rt : is_root t1 i).
      { split; [reflexivity|]. exists rr. split; [|reflexivity]. unfold t1, i. cbn [t_resources id_idx]. apply nth_error_snoc. }
      pose proof (agree_lens _ _ _ A1) as L.
      destruct I as [I1 IK I2 I3 I4 I5]. split.
      + constructor; cbn [cs_cache cs_types cs_resmap].
        * intros v' e' [Hin|Hin].
          -- injection Hin as <- <-. unfold valid_ent. cbn [ent_slot]. split; [reflexivity|]. unfold t1, i. cbn. rewrite app_length. cbn. lia.
          -- specialize (I1 v' e' Hin). unfold valid_ent in *. destruct (ent_slot e') as [[a j]|]; [|auto]. destruct I1 as [T1 T2].
             split; [exact T1 | specialize (L a); lia].
        * intros v' e' [Hin|Hin]; [injection Hin as <- <-; rewrite En; exact Logic.I | eauto].
        * assert (U : forall v' e' x, In (v', e') (cs_cache s) -> ent_slot e' = Some x -> x <> (ARes, i)).
          { intros v' e' x Hin E1 ->. specialize (I1 v' e' Hin). unfold valid_ent in I1. rewrite E1 in I1. cbn in I1. lia. }
          intros v1 v2 e1 e2 x [H1|H1] [H2|H2] E1 E2.
          -- congruence.
          -- injection H1 as <- <-. cbn [ent_slot] in E1. injection E1 as <-. exfalso. exact (U _ _ _ H2 E2 eq_refl).
          -- injection H2 as <- <-. cbn [ent_slot] in E2. injection E2 as <-. exfalso. exact (U _ _ _ H1 E1 eq_refl).
          -- eauto.
        * intros rid' r' [Hin|Hin]; [injection Hin as <- <-; exact Rt|].
          destruct (I3 rid' r' Hin) as [T [x [E1 E2]]]. split; [exact T|]. exists x. split; [|exact E2].
          unfold t1. cbn [t_resources]. now apply nth_error_app_some.
        * intros rid1 rid2 r'. cbn [nassoc].
          assert (NV : forall k, nassoc k (cs_resmap s) <> Some i).
          { intros k Hk. assert (Hin : In (k, i) (cs_resmap s)).
            { clear - Hk. induction (cs_resmap s) as [|[k' x] l IH]; cbn [nassoc] in Hk; [discriminate|].
              destruct (Nat.eqb k k') eqn:E; [apply Nat.eqb_eq in E; injection Hk as <-; subst; now left | right; auto]. }
            destruct (I3 _ _ Hin) as [_ [x [E1 _]]]. assert (id_idx i < length (t_resources (cs_types s)))%nat by (apply nth_error_Some; congruence).
            cbn [i id_idx] in *. lia. }
          destruct (Nat.eqb rid1 rid) eqn:E1, (Nat.eqb rid2 rid) eqn:E2; intros H1 H2.
          -- apply Nat.eqb_eq in E1, E2. congruence.
          -- injection H1 as <-. exfalso. exact (NV _ H2).
          -- injection H2 as <-. exfalso. exact (NV _ H1).
          -- eauto.
        * intros v' r' [Hin|Hin].
          -- injection Hin as <- <-. exists rid, i. split; [exact Hrid|]. split; [cbn [nassoc]; now rewrite Nat.eqb_refl|].
             cbn [res_root]. rewrite G. reflexivity.
          -- destruct (I5 v' r' Hin) as [rid' [root [H1 [H2 H3]]]]. exists rid', root. split; [exact H1|]. split.
             ++ cbn [nassoc]. destruct (Nat.eqb rid' rid) eqn:E; [apply Nat.eqb_eq in E; congruence | exact H2].
             ++ eapply res_root_agree; eassumption.
      + constructor; cbn [cs_cache cs_types cs_resmap].
        * reflexivity.
        * exact L.
        * intros j x Hx. exists x. split; [|reflexivity]. unfold t1. cbn [t_resources]. now apply nth_error_app_some.
        * exists [(v, EnRes i)]. split; [reflexivity|]. intros v' e' [Hin|[]]. injection Hin as <- <-.
          unfold fresh_ent. cbn [ent_slot arena_len i id_idx]. lia.
        * exists [(rid, i)]. split; [reflexivity|]. intros rid' r' [Hin|[]]. injection Hin as <- <-. exact Em.
  Qed.

  (** ** Instance types, component types, entities *)
  Lemma agree_step O s s' :
    agree O (cs_types s) (cs_types s') -> cs_cache s' = cs_cache s -> cs_resmap s' = cs_resmap s -> ids_inv s -> ids_inv s' /\ adv s s'.
  Proof. apply types_step. Qed.

  Lemma use_or_own_resmap hf vn ow name rf cr s s' : use_or_own hf g vn ow name rf cr s = COk s' -> cs_resmap s' = cs_resmap s.
  Proof.
    unfold use_or_own. destruct (find_owner hf g (cs_owners s) rf) as [[[other orig]|]|]; [| |discriminate].
    - intro H. inv_bind H as s1 H1. injection H as <-. cbn [log_site cs_resmap]. unfold remember_owner.
      assert (E : cs_resmap s1 = cs_resmap s).
      { destruct other as [i|w]; [|injection H1 as <-; reflexivity]. destruct (owner_eqb ow (OwIface i)); [injection H1 as <-; reflexivity|].
        destruct ow as [me|me]; [destruct (upd_if _ _ _)|destruct (upd_world _ _ _)]; try discriminate; injection H1 as <-; reflexivity. }
      destruct (nassoc cr (cs_owners s1)); cbn [cs_resmap]; exact E.
    - destruct (nassoc cr (cs_owners s)); [discriminate|]. intro H. injection H as <-. reflexivity.
  Qed.
  Lemma reset_self_owner_resmap me k s s' : reset_self_owner me k s = COk s' -> cs_resmap s' = cs_resmap s.
  Proof.
    unfold reset_self_owner.
    destruct k as [[res| | | | | ]| | | | | ]; try (intro H; injection H as <-; reflexivity).
    destruct (get_res (cs_types s) res) as [r|]; [|discriminate].
    destruct (res_alias r) as [[[o|] src]|]; try (intro H; injection H as <-; reflexivity).
    destruct (id_eqb o me); [|intro H; injection H as <-; reflexivity].
    destruct (upd_res _ _ _); [|discriminate]. intro H. injection H as <-. reflexivity.
  Qed.

  Section Bodies.
    Variable hf : nat.
    Variable E : str -> vent -> cstate -> cres (kind * cstate).
    Hypothesis HE : forall n e, id_ok (E n e).

    Lemma inst_loop_id vn me : forall l s s', ids_inv s -> inst_loop hf g E vn me l s = COk s' -> ids_inv s' /\ adv s s'.
    Proof.
      induction l as [|[n e] l IH]; intros s s' I H; cbn [inst_loop] in H; [injection H as <-; split; [exact I | apply adv_refl]|].
      inv_bind H as [k s1] H1. inv_bind H as s2 H2. inv_bind H as s3 H3.
      destruct (HE n e s k s1 I H1) as [I1 A1].
      assert (X : ids_inv s2 /\ adv s1 s2).
      { destruct e as [ | | |rf cr| | ]; try (injection H2 as <-; split; [exact I1 | apply adv_refl]).
        inv_bind H2 as sa Ha. destruct (use_or_own_frame g _ _ _ _ _ _ _ _ Ha) as [Aa Ca].
        destruct (agree_step _ _ _ Aa Ca (use_or_own_resmap _ _ _ _ _ _ _ _ Ha) I1) as [Ia Ada].
        destruct (reset_self_owner_frame _ _ _ _ H2) as [Ab Cb].
        destruct (agree_step _ _ _ Ab Cb (reset_self_owner_resmap _ _ _ _ H2) Ia) as [Ib Adb].
        split; [exact Ib | eapply adv_trans; eassumption]. }
      destruct X as [I2 A2].
      assert (Y : ids_inv s3 /\ adv s2 s3).
      { unfold put_if_export in H3. destruct (get_if (cs_types s2) me) as [x|] eqn:Ex; [|discriminate]. destruct (assoc _ _); [discriminate|].
        destruct (upd_if _ _ _) as [t|] eqn:Eu; [|discriminate]. injection H3 as <-.
        apply (agree_step [(true, id_idx me)] s2 (with_types s2 t)); [|reflexivity|reflexivity|exact I2].
        eapply agree_upd_if; [exact Eu | left; now left]. }
      destruct Y as [I3 A3]. destruct (IH s3 s' I3 H) as [I4 A4].
      split; [exact I4|]. eapply adv_trans; [exact A1|]. eapply adv_trans; [exact A2|]. eapply adv_trans; eassumption.
    Qed.

    (** allocate, fill the items, then enter the cache *)
    Lemma slot_put s s0 s1 v e a i :
      ids_inv s -> agree [] (cs_types s) (cs_types s0) -> cs_cache s0 = cs_cache s -> cs_resmap s0 = cs_resmap s ->
      ids_inv s1 -> adv s0 s1 -> node_matches (node_of g v) e ->
      ent_slot e = Some (a, i) -> id_tag i = t_tag (cs_types s) -> id_idx i = arena_len (cs_types s) a ->
      (arena_len (cs_types s) a < arena_len (cs_types s0) a)%nat -> (forall r, e <> EnRes r) ->
      ids_inv (cache_put s1 v e) /\ adv s (cache_put s1 v e).
    Proof.
      intros I A0 C0 R0 I1 A1 Hk Es Ht Hi Hl Hr.
      destruct (agree_step [] s s0 A0 C0 R0 I) as [I0 Ad0].
      assert (A01 : adv s s1) by (eapply adv_trans; eassumption).
      apply put_step; [exact I1 | exact Hk | | | | intros r E0; exfalso; exact (Hr r E0) | exact A01].
      - unfold valid_ent. rewrite Es. rewrite (adv_tag _ _ A01). split; [exact Ht|]. pose proof (adv_len _ _ A1 a). lia.
      - intros v' e' x Hin E1 E2. rewrite Es in E2. injection E2 as <-.
        destruct (adv_cache _ _ A1) as [n [En Fn]]. rewrite En, C0 in Hin. apply in_app_or in Hin as [Hin|Hin].
        + specialize (Fn _ _ Hin). unfold fresh_ent in Fn. rewrite E1 in Fn. lia.
        + pose proof (iv_valid _ I _ _ Hin) as Hv. unfold valid_ent in Hv. rewrite E1 in Hv. lia.
      - unfold fresh_ent. rewrite Es. lia.
    Qed.

    Lemma instance_body_id name v : id_ok (instance_body hf g E name v).
    Proof.
      intros s r s' I H. unfold instance_body in H.
      destruct (nassoc v (cs_cache s)) as [[[ | | |i0| | ]|]|] eqn:Ec; try discriminate.
      { injection H as <- <-. split; [exact I | apply adv_refl]. }
      destruct (node_of g v) as [[ | |exports| | | ]|] eqn:En; try discriminate.
      unfold add_if in H. inv_bind H as s1 H1. injection H as <- <-.
      set (t0 := mktypes _ _ _ _ _ _ _) in H1.
      assert (A0 : agree [] (cs_types s) t0) by apply (agree_add_if (cs_types s) (mkif (iface_id_of name) [] [])).
      destruct (agree_step [] s (with_types s t0) A0 eq_refl eq_refl I) as [I0 _].
      destruct (inst_loop_id _ _ _ _ _ I0 H1) as [I1 A1].
      eapply (slot_put s (with_types s t0) s1 v _ AIf); [exact I | exact A0 | reflexivity | reflexivity | exact I1 | exact A1 | rewrite En; exact Logic.I | reflexivity
                                                          | reflexivity | reflexivity | cbn; rewrite app_length; cbn; lia | intros; discriminate].
    Qed.

    Lemma comp_imports_id vn me : forall l s s', ids_inv s -> comp_imports hf g E vn me l s = COk s' -> ids_inv s' /\ adv s s'.
    Proof.
      induction l as [|[n e] l IH]; intros s s' I H; cbn [comp_imports] in H; [injection H as <-; split; [exact I | apply adv_refl]|].
      inv_bind H as [k s1] H1. inv_bind H as s2 H2. inv_bind H as s3 H3.
      destruct (HE n e s k s1 I H1) as [I1 A1].
      assert (X : ids_inv s2 /\ adv s1 s2).
      { destruct e as [ | | |rf cr| | ]; try (injection H2 as <-; split; [exact I1 | apply adv_refl]).
        destruct (use_or_own_frame g _ _ _ _ _ _ _ _ H2) as [Aa Ca].
        exact (agree_step _ _ _ Aa Ca (use_or_own_resmap _ _ _ _ _ _ _ _ H2) I1). }
      destruct X as [I2 A2].
      assert (Y : ids_inv s3 /\ adv s2 s3).
      { unfold put_world_import in H3. destruct (get_world (cs_types s2) me) as [x|] eqn:Ex; [|discriminate]. destruct (assoc _ _); [discriminate|].
        destruct (upd_world _ _ _) as [t|] eqn:Eu; [|discriminate]. injection H3 as <-.
        apply (agree_step [(false, id_idx me)] s2 (with_types s2 t)); [|reflexivity|reflexivity|exact I2].
        eapply agree_upd_world; [exact Eu | left; now left]. }
      destruct Y as [I3 A3]. destruct (IH s3 s' I3 H) as [I4 A4].
      split; [exact I4|]. eapply adv_trans; [exact A1|]. eapply adv_trans; [exact A2|]. eapply adv_trans; eassumption.
    Qed.
    Lemma comp_exports_id me : forall l s s', ids_inv s -> comp_exports E me l s = COk s' -> ids_inv s' /\ adv s s'.
    Proof.
      induction l as [|[n e] l IH]; intros s s' I H; cbn [comp_exports] in H; [injection H as <-; split; [exact I | apply adv_refl]|].
      inv_bind H as [k s1] H1. inv_bind H as s3 H3.
      destruct (HE n e s k s1 I H1) as [I1 A1].
      assert (Y : ids_inv s3 /\ adv s1 s3).
      { unfold put_world_export in H3. destruct (get_world (cs_types s1) me) as [x|] eqn:Ex; [|discriminate]. destruct (assoc _ _); [discriminate|].
        destruct (upd_world _ _ _) as [t|] eqn:Eu; [|discriminate]. injection H3 as <-.
        apply (agree_step [(false, id_idx me)] s1 (with_types s1 t)); [|reflexivity|reflexivity|exact I1].
        eapply agree_upd_world; [exact Eu | left; now left]. }
      destruct Y as [I3 A3]. destruct (IH s3 s' I3 H) as [I4 A4].
      split; [exact I4|]. eapply adv_trans; [exact A1|]. eapply adv_trans; eassumption.
    Qed.
    Lemma component_body_id name v : id_ok (component_body hf g E name v).
    Proof.
      intros s r s' I H. unfold component_body in H.
      destruct (nassoc v (cs_cache s)) as [[[ | | | |w0| ]|]|] eqn:Ec; try discriminate.
      { injection H as <- <-. split; [exact I | apply adv_refl]. }
      destruct (node_of g v) as [[ | | |imports exports| | ]|] eqn:En; try discriminate.
      unfold add_world in H. inv_bind H as s1 H1. inv_bind H as s2 H2. injection H as <- <-.
      set (t0 := mktypes _ _ _ _ _ _ _) in H1.
      assert (A0 : agree [] (cs_types s) t0) by apply (agree_add_world (cs_types s) (mkworld (iface_id_of name) [] [] [])).
      destruct (agree_step [] s (with_types s t0) A0 eq_refl eq_refl I) as [I0 _].
      destruct (comp_imports_id _ _ _ _ _ I0 H1) as [I1 A1]. destruct (comp_exports_id _ _ _ _ I1 H2) as [I2 A2].
      eapply (slot_put s (with_types s t0) s2 v _ AWorld); [exact I | exact A0 | reflexivity | reflexivity | exact I2 | eapply adv_trans; eassumption
                                                             | rewrite En; exact Logic.I | reflexivity | reflexivity | reflexivity | cbn; rewrite app_length; cbn; lia | intros; discriminate].
    Qed.
    Lemma entity_body_id n e : id_ok (entity_body hf g E n e).
    Proof.
      intros s r s' I H. unfold entity_body in H.
      destruct e as [m|v|v|rf cr|i|c]; inv_bind H as [x s1] H1; injection H as <- <-.
      - exact (c_module_id m _ _ _ I H1).
      - exact (c_func_id hf v _ _ _ I H1).
      - exact (c_val_id hf v _ _ _ I H1).
      - unfold ty_body in H1. destruct (node_of g cr) as [[d|a ps r0|ex|im ex|rid|mm]|]; try discriminate;
          inv_bind H1 as [y s2] H2; injection H1 as <- <-.
        + exact (c_defined_id hf cr _ _ _ I H2).
        + exact (c_func_id hf cr _ _ _ I H2).
        + exact (instance_body_id None cr _ _ _ I H2).
        + exact (component_body_id None cr _ _ _ I H2).
        + exact (c_resource_id hf n cr _ _ _ I H2).
      - exact (instance_body_id (Some n) i _ _ _ I H1).
      - exact (component_body_id (Some n) c _ _ _ I H1).
    Qed.
  End Bodies.

  Lemma c_entity_id hf : forall fuel n e, id_ok (c_entity hf fuel g n e).
  Proof.
    induction fuel as [|f IH]; intros n e; [intros s r s' _ H; discriminate|]. cbn [c_entity]. apply entity_body_id. exact IH.
  Qed.
  Lemma collect_id hf fuel : forall l acc s m s', ids_inv s -> collect (c_entity hf fuel g) l acc s = COk (m, s') -> ids_inv s'.
  Proof.
    induction l as [|[n e] l IH]; intros acc s m s' I H; cbn [collect] in H; [injection H as <- <-; exact I|].
    inv_bind H as [k s1] H1. eapply IH; [|exact H]. exact (proj1 (c_entity_id hf fuel n e _ _ _ I H1)).
  Qed.

  Lemma conv_items_inv hf fuel t0 imports exports s :
    conv_items hf fuel g t0 = COk (imports, exports, s) -> ids_inv s.
  Proof.
    intro H. unfold conv_items in H. inv_bind H as [im s1] H1. inv_bind H as [ex s2] H2. injection H as _ _ <-.
    assert (I0 : ids_inv (cs_init t0)) by (constructor; cbn; intros; try contradiction; discriminate).
    eapply collect_id; [|exact H2]. eapply collect_id; [exact I0 | exact H1].
  Qed.

  (** * The theorems *)

  (** two distinct validator identifiers are never converted to the same wac identifier *)
  Theorem ids_injective hf fuel t0 imports exports s :
    conv_items hf fuel g t0 = COk (imports, exports, s) ->
    forall v1 v2 e1 e2 x, In (v1, e1) (cs_cache s) -> In (v2, e2) (cs_cache s) ->
      ent_slot e1 = Some x -> ent_slot e2 = Some x -> v1 = v2.
  Proof. intro H. exact (iv_inj _ (conv_items_inv _ _ _ _ _ _ H)). Qed.

  (** converted resources have the same alias root iff the validator gives them the same resource *)
  Theorem resources_identity hf fuel t0 imports exports s :
    conv_items hf fuel g t0 = COk (imports, exports, s) ->
    forall v1 v2 r1 r2, In (v1, EnRes r1) (cs_cache s) -> In (v2, EnRes r2) (cs_cache s) ->
      exists rid1 rid2 root1 root2,
        rid_of_node v1 = Some rid1 /\ rid_of_node v2 = Some rid2 /\
        res_root 2 (cs_types s) r1 = Some root1 /\ res_root 2 (cs_types s) r2 = Some root2 /\
        (root1 = root2 <-> rid1 = rid2).
  Proof.
    intros H v1 v2 r1 r2 H1 H2. pose proof (conv_items_inv _ _ _ _ _ _ H) as I.
    destruct (iv_res _ I _ _ H1) as [rid1 [root1 [A1 [A2 A3]]]]. destruct (iv_res _ I _ _ H2) as [rid2 [root2 [B1 [B2 B3]]]].
    exists rid1, rid2, root1, root2. repeat split; auto.
    - intros ->. eapply (iv_rinj _ I); eassumption.
    - intros ->. congruence.
  Qed.
End Ids.
