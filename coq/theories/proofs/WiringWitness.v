(** Concrete instances, evaluated by the kernel ([vm_compute]): one where [wiring_correct]'s
    conclusion is a non-trivial equality (two instantiations of one package sharing an implicit import,
    an alias passed as argument, an export, names), the witness showing that the
    side condition of [wiring_correct] about import dedup cannot be dropped for the faithful model of the current code,
    and the regression instance of the repaired definition-rename defect
    (both replayed on the real implementation: tools/props/c02.py W_DEF, W_DEDUP). *)
From Coq Require Import String.
From Coq Require Import List Arith Bool NArith.
From WacV Require Import Str StrLit Graph Wiring WiringSpec EncodeModel.
Import ListNotations.
Local Open Scope nat_scope.

(** names: 0 f, 1 a:b/t, 2 my-t, 3 x, 4 run, 5 foo, 6 bar, 7 g *)
Definition w_pool (n : name) : str :=
  match n with
  | 0 => L"f" | 1 => L"a:b/t" | 2 => L"my-t" | 3 => L"x" | 4 => L"run" | 5 => L"foo" | 6 => L"bar" | _ => L"g"
  end%N.

(** kinds: 0 func, 1 instance {x: func} with interface id a:b/t, 2 instance {run: func, x: func} (package instance),
    3 type, 4 instance {x: func} without id *)
Definition w_universe : universe :=
  {| u_inst_exports := fun k => match k with
                                | 1%N => Some [(3%N, 0%N)] | 2%N => Some [(4%N, 0%N); (3%N, 0%N)] | 4%N => Some [(3%N, 0%N)]
                                | _ => None end;
     u_pkgs := [ {| pd_inst := 2%N; pd_imports := [(1%N, 1%N); (0%N, 0%N)] |} ];
     u_tys := [ {| td_res := false; td_kind := 3%N; td_deps := [] |} ];
     u_lkinds := [0%N; 1%N; 4%N];
     u_sub := N.eqb;
     u_import_name_ok := fun _ => true;
     u_export_name_ok := fun _ => true |}.

Definition w_env : wenv :=
  {| we_name := w_pool;
     we_pkg_name := fun _ => L"test:p";
     we_pkg_version := fun _ => Some (L"1.0.0");
     we_digest := fun p => N.of_nat p;
     we_sort := fun k => match k with 0%N => SFunc | 3%N => SType | _ => SInstance end;
     we_iid := fun k => match k with 1%N => Some (L"a:b/t") | _ => None end |}.

(** a type encoder that emits one type definition per call and answers with the newest type *)
Definition w_tau : tyenc := fun l _ => ([ITypeDef], cnt SType l).

Definition encoded (ops : list op) (dc : bool) : option (wiring * wiring * list (str * str)) :=
  let g := run w_universe ops in
  match toposort g with
  | None => None
  | Some ord =>
      match encode_with_order w_env w_universe g dc w_tau ord with
      | ROk (st, names) =>
          match decode_wiring names (e_log st) with
          | Some w => Some (erase_defs (def_names w_env g) w, wiring_spec w_env w_universe g dc ord, e_dedup st)
          | None => None
          end
      | RErr _ => None
      end
  end.

(** two instantiations of one package; the first one's export [x] is aliased and passed to the second as [f];
    both leave [a:b/t] to the implicit import; the alias is exported and named *)
Definition ops_good : list op :=
  [Register 0; Instantiate (0, 0); Instantiate (0, 0); Alias 0 3%N; SetArg 1 0%N 2; Export 2 6%N; SetName 1 5%N; DefineType 7%N 0].

Lemma good_instance :
  exists w, encoded ops_good true = Some (w, w, []) /\ length (w_insts w) = 2 /\ length (w_exports w) = 2
            /\ encoded ops_good false = match encoded ops_good false with Some (a, _, d) => Some (a, a, d) | None => None end
            /\ encoded ops_good false <> None.
Proof. eexists. vm_compute. repeat split; discriminate. Qed.

(** regression instance of a repaired defect (known-findings C02/C03-def-extra-export-name): a definition
    exported under another name is RENAMED, the export map and the encoded component agree *)
Definition ops_def_two_names : list op := [DefineType 5%N 0; Export 0 6%N].
Lemma def_renamed_instance :
  exports (run w_universe ops_def_two_names) = [(6%N, 0)] /\
  exists w, encoded ops_def_two_names true = Some (w, w, []) /\ length (w_exports w) = 1.
Proof. split; [reflexivity|]. eexists. vm_compute. split; reflexivity. Qed.

(** finding: explicit import [my-t] of the interface a:b/t that is also imported implicitly *)
Definition ops_dedup : list op := [Register 0; Instantiate (0, 0); Import 2%N 1; Export 1 6%N].
Lemma dedup_refutes :
  match encoded ops_dedup true with
  | Some (dec, spec, dd) => dd = [(L"my-t", L"a:b/t")] /\ dec <> spec
  | None => False
  end.
Proof. vm_compute. split; [reflexivity | discriminate]. Qed.
