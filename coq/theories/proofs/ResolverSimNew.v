(** C04 proofs, part 11: simulation of the [new] expression. *)
From Coq Require Import List Arith Bool NArith Lia.
From WacV Require Import Str Token Lexer Semver Names Ast Graph Resolver LangSpec ResolverProofs ResolverNew
  ResolverStmts ResolverInv ResolverSim ResolverSimExpr GraphInv.
Import ListNotations.
Local Open Scope nat_scope.

Section SimNew.
  Variable u : runiverse.
  Variable self_name : str.
  Variable K : kid -> Prop.
  Hypothesis U : uok u K.
  Notation dv := impl_flags_c04.
  Notation Rel := (Rel u K).

  (** ** the graph while the arguments of a fresh instantiation are being set *)
  Section Cur.
    Variable g2 : gstate.
    Variable id : pkgid.
    Variable pd : pkgdesc.
    Let inst := length (nodes g2).
    Let imps := pd_imports pd.

    Definition inode (sat : list nat) : node :=
      {| nk := NInst sat; npkg := Some id; nitem := pd_inst pd; nname := None; nexport := None |}.

    Definition cur (sat : list nat) (newE : list edge) : gstate :=
      {| nodes := nodes g2 ++ [Some (inode sat)]; free_nodes := []; edges := newE ++ edges g2;
         imports := imports g2; exports := exports g2; defined := defined g2; pkgs := pkgs g2; free_pkgs := [] |}.

    Hypothesis NF : nofree g2.
    Hypothesis PD : pkg_desc u g2 id = Some pd.
    Hypothesis EB : forall e, In e (edges g2) -> etgt e < inst.

    Lemma instantiate_cur : instantiate u g2 id = (cur [] [], ONode inst).
    Proof.
      unfold instantiate. rewrite PD. destruct NF as [F Fp]. unfold add_node. rewrite F. unfold cur, mk_node, inode. cbn.
      rewrite Fp. reflexivity.
    Qed.

    Lemma get_node_cur_inst sat newE : get_node (cur sat newE) inst = Some (inode sat).
    Proof. unfold get_node, cur. cbn. unfold inst. rewrite nth_error_app2, Nat.sub_diag by lia. reflexivity. Qed.

    Lemma get_node_cur_old sat newE n nd : get_node g2 n = Some nd -> get_node (cur sat newE) n = Some nd.
    Proof. intros G. unfold get_node, cur in *. cbn. now apply get_node_app_old. Qed.

    Lemma scan_none es idx arg :
      (forall e, In e es -> exists i, ek e = EArg i /\ i <> idx) -> scan_incoming es idx arg = ScanNone.
    Proof.
      induction es as [|e r IH]; intros H; cbn; auto. destruct (H e (or_introl eq_refl)) as (i & -> & Ne).
      apply Nat.eqb_neq in Ne. rewrite Ne. apply IH. intros e' He'. apply H. now right.
    Qed.

    Lemma incoming_cur sat newE :
      (forall e, In e newE -> etgt e = inst) -> incoming (cur sat newE) inst = newE.
    Proof.
      intros H. unfold incoming, cur. cbn. rewrite filter_app.
      replace (filter (fun e => etgt e =? inst) (edges g2)) with (@nil edge).
      - rewrite app_nil_r. induction newE as [|e r IH]; cbn; auto. rewrite (H e (or_introl eq_refl)), Nat.eqb_refl.
        f_equal. apply IH. intros e' He'. apply H. now right.
      - symmetry. induction (edges g2) as [|e r IH]; cbn; auto.
        assert (L : etgt e < inst) by (apply EB; now left). apply Nat.lt_neq, Nat.eqb_neq in L. rewrite L.
        apply IH. intros e' He'. apply EB. now right.
    Qed.

    Lemma set_arg_cur sat newE a n an :
      (forall e, In e newE -> etgt e = inst) ->
      get_node g2 n = Some an ->
      set_arg u (cur sat newE) inst a n =
        match get_full imps a 0 with
        | None => (cur sat newE, OErr InvalidArgumentName)
        | Some (idx, expected) =>
            match scan_incoming newE idx n with
            | ScanPanic => (cur sat newE, OPanic PUnexpectedEdge)
            | ScanSame => (cur sat newE, OUnit)
            | ScanOther => (cur sat newE, OErr ArgumentAlreadyPassed)
            | ScanNone =>
                if negb (u_sub u (nitem an) expected) then (cur sat newE, OErr ArgumentTypeMismatch)
                else if existsb (Nat.eqb idx) sat then (cur sat newE, OPanic PSatInsert)
                else (cur (idx :: sat) ({| esrc := n; etgt := inst; ek := EArg idx |} :: newE), OUnit)
            end
        end.
    Proof.
      intros HT G. unfold set_arg. rewrite get_node_cur_inst. cbn [nk inode].
      assert (Im : inst_imports u (cur sat newE) (inode sat) = Some imps).
      { unfold inst_imports, inode. cbn [npkg]. unfold pkg_desc, get_pkg in *. cbn [pkgs cur]. destruct (nth_error (pkgs g2) (fst id)) as [sl|]; [|discriminate].
        destruct (ps_gen sl =? snd id); [|discriminate]. destruct (ps_pkg sl) as [p|]; [|discriminate].
        destruct (nth_error (u_pkgs u) p); [|discriminate]. now injection PD as ->. }
      rewrite Im. destruct (get_full imps a 0) as [[idx expected]|]; [|reflexivity].
      rewrite (incoming_cur sat newE HT). destruct (scan_incoming newE idx n); try reflexivity.
      rewrite (get_node_cur_old sat newE n an G). destruct (negb (u_sub u (nitem an) expected)); [reflexivity|].
      unfold add_satisfied.
      change (get_node (add_edge (cur sat newE) {| esrc := n; etgt := inst; ek := EArg idx |}) inst) with (get_node (cur sat newE) inst).
      rewrite get_node_cur_inst. cbn [nk inode]. destruct (existsb (Nat.eqb idx) sat); [reflexivity|].
      f_equal. unfold set_node, add_edge, cur. cbn. unfold inst. rewrite set_nth_app_mid. reflexivity.
    Qed.

    (** the loop of [set_args] against [check_args] *)
    Variable env : senv.
    Variable vm : list sval.
    Hypothesis RK : forall n an v, get_node g2 n = Some an -> nth_error vm n = Some v -> val_kind u env v = Some (nitem an).
    Hypothesis LV : forall n v, nth_error vm n = Some v -> exists an, get_node g2 n = Some an.
    Hypothesis IMP : forall n k, In (n, k) imps -> ru_intern u (ru_text u n) = n.

    Definition arg_idx (nm : str) : nat :=
      match get_full imps (ru_intern u nm) 0 with Some (i, _) => i | None => 0 end.
    Definition edge_of (p : str * (nat * N)) : edge :=
      {| esrc := fst (snd p); etgt := inst; ek := EArg (arg_idx (fst p)) |}.

    Lemma import_lookup nm :
      match im_get (text_items u imps) nm with
      | Some kd => get_full imps (ru_intern u nm) 0 = Some (arg_idx nm, kd) /\ nth_error imps (arg_idx nm) = Some (ru_intern u nm, kd)
      | None => get_full imps (ru_intern u nm) 0 = None
      end.
    Proof.
      pose proof (get_full_text u K imps nm U IMP 0) as X. destruct (im_get (text_items u imps) nm) as [kd|]; auto.
      destruct X as (idx & GF & Nt). cbn in GF. unfold arg_idx. rewrite GF. auto.
    Qed.

    Lemma arg_idx_inj d nm :
      has_key (text_items u imps) d = true -> has_key (text_items u imps) nm = true -> arg_idx d = arg_idx nm -> d = nm.
    Proof.
      unfold has_key. intros Hd Hn E. pose proof (import_lookup d) as Xd. pose proof (import_lookup nm) as Xn.
      destruct (im_get (text_items u imps) d); [|discriminate]. destruct (im_get (text_items u imps) nm); [|discriminate].
      destruct Xd as [_ Nd], Xn as [_ Nn]. rewrite E, Nn in Nd. injection Nd as Ei _.
      rewrite <- (uo_text_intern _ _ U d), <- Ei. apply (uo_text_intern _ _ U).
    Qed.

    Lemma check_args_cons imports nm v r e :
      check_args u imports ((nm, v) :: r) e =
        match im_get imports nm with
        | None => inr (IUnknownArgument nm)
        | Some expected =>
            match val_kind u e v with
            | Some k => if u_sub u k expected then check_args u imports r e else inr (IArgumentMismatch nm)
            | None => inr (IArgumentMismatch nm)
            end
        end.
    Proof.
      cbn [check_args]. destruct (im_get imports nm); [|reflexivity]. unfold sbind, env_.
      destruct (val_kind u e v) as [kk|]; [|reflexivity]. destruct (u_sub u kk k); reflexivity.
    Qed.

    Lemma set_args_sim : forall r tv sat newE sc,
      tbl_ok vm r tv -> NoDup (map fst r) ->
      (forall e, In e newE -> etgt e = inst /\
         exists d, ek e = EArg (arg_idx d) /\ has_key (text_items u imps) d = true /\ ~ In d (map fst r)) ->
      (forall i, In i sat -> exists e, In e newE /\ ek e = EArg i) ->
      match set_args u inst r {| rs_g := cur sat newE; rs_scope := sc |}, check_args u (text_items u imps) tv env with
      | inl (_, st'), inl (_, env') =>
          env' = env /\
          st' = {| rs_g := cur (rev (map (fun p => arg_idx (fst p)) r) ++ sat) (rev (map edge_of r) ++ newE); rs_scope := sc |} /\
          Forall (fun p => has_key (text_items u imps) (fst p) = true) r
      | inr f, inr i => fail_matches f i
      | _, _ => False
      end.
    Proof.
      induction r as [|[nm [n at_]] r IH]; intros tv sat newE sc T ND HE HS.
      - inversion T; subst. cbn. auto.
      - inversion T as [|? [nm' v] ? tv' [En V] T']; subst. cbn in En, V. subst nm'.
        inversion ND as [|? ? Hnot ND']; subst.
        destruct (LV n v V) as (an & G).
        rewrite check_args_cons, (RK n an v G V).
        cbn [set_args]. unfold bind at 1, gop, bind at 1, get_g at 1. cbn [rs_g].
        rewrite (set_arg_cur sat newE (ru_intern u nm) n an (fun e He => proj1 (HE e He)) G).
        pose proof (import_lookup nm) as IL.
        destruct (im_get (text_items u imps) nm) as [kd|] eqn:IG.
        + destruct IL as [GF Nt]. rewrite GF.
          assert (HKn : has_key (text_items u imps) nm = true) by (unfold has_key; now rewrite IG).
          rewrite scan_none.
          2:{ intros e He. destruct (HE e He) as (_ & d & Kd & Hd & Nd). exists (arg_idx d). split; auto.
              intros E. apply Nd. left. symmetry. now apply arg_idx_inj. }
          destruct (u_sub u (nitem an) kd); cbn [negb]; [|reflexivity].
          assert (NS : existsb (Nat.eqb (arg_idx nm)) sat = false).
          { destruct (existsb (Nat.eqb (arg_idx nm)) sat) eqn:Ex; auto. exfalso.
            apply existsb_exists in Ex as (i & Hi & Ei). apply Nat.eqb_eq in Ei. subst i.
            destruct (HS _ Hi) as (e & He & Ke). destruct (HE e He) as (_ & d & Kd & Hd & Nd). rewrite Kd in Ke.
            injection Ke as Ke. apply Nd. left. symmetry. now apply arg_idx_inj. }
          rewrite NS. unfold bind at 1, put_g at 1, ret at 1. cbn [rs_g rs_scope].
          specialize (IH tv' (arg_idx nm :: sat) ({| esrc := n; etgt := inst; ek := EArg (arg_idx nm) |} :: newE) sc T' ND').
          cbn [map rev fst snd]. rewrite <- !app_assoc. cbn [app].
          change {| esrc := n; etgt := inst; ek := EArg (arg_idx nm) |} with (edge_of (nm, (n, at_))) in *.
          match type of IH with ?A -> ?B -> _ => assert (HA : A); [|assert (HB : B); [|specialize (IH HA HB)]] end.
          * intros e [<-|He].
            -- split; [reflexivity|]. exists nm. split; [reflexivity|]. split; auto.
            -- destruct (HE e He) as (Te & d & Kd & Hd & Nd). split; auto. exists d. split; auto. split; auto.
               intros X. apply Nd. now right.
          * intros i [<-|Hi]; [eexists; split; [now left|reflexivity]|].
            destruct (HS i Hi) as (e & He & Ke). exists e. split; [now right|auto].
          * destruct (set_args u inst r _) as [[[] st']|f], (check_args u (text_items u imps) tv' env) as [[[] env']|i]; auto.
            destruct IH as (-> & -> & Fa). split; [reflexivity|]. split; [reflexivity|]. constructor; auto.
        + rewrite IL. unfold bind at 1, put_g at 1, ret at 1. reflexivity.
    Qed.
  End Cur.

  (** ** list facts for the completeness check and the bindings *)
  Lemma find_existsb {A} (f : A -> bool) l : (find f l = None) <-> existsb f l = false.
  Proof. induction l as [|a l IH]; cbn; [tauto|]. destruct (f a); [split; discriminate|exact IH]. Qed.

  Lemma im_get_keyed {V} (f : str -> V) l nm :
    im_get (map (fun i => (i, f i)) l) nm = if mem nm l then Some (f nm) else None.
  Proof.
    induction l as [|a l IH]; cbn; auto. destruct (str_eqb a nm) eqn:E; cbn.
    - apply str_eqb_eq in E. now subst.
    - exact IH.
  Qed.

  Lemma spread_vals_get names (explicit : list (str * sval)) nm : In nm names -> has_key explicit nm = false ->
    forall rest before, existsb (fun q => mem nm (sp_exports q)) before = false ->
    im_get (map (fun b => (fst b, VAccess (sp_val (snd b)) (fst b))) (spread_bound names explicit before rest)) nm
    = option_map (fun sp => VAccess (sp_val sp) nm) (find (fun sp => mem nm (sp_exports sp)) rest).
  Proof.
    intros Hin Hex. induction rest as [|sp r IH]; intros before Hb; [reflexivity|].
    cbn [spread_bound find]. rewrite map_app, map_map, im_get_app. cbn [fst snd].
    rewrite (im_get_keyed (fun i => VAccess (sp_val sp) i)).
    assert (M : mem nm (spread_binds names explicit before sp) = mem nm (sp_exports sp)).
    { unfold spread_binds. destruct (mem nm (sp_exports sp)) eqn:E.
      - apply mem_In. apply filter_In. split; auto. now rewrite Hex, E, Hb.
      - destruct (mem nm (filter _ names)) eqn:E2; auto. apply mem_In, filter_In in E2 as [_ E2].
        rewrite E, andb_false_r in E2. discriminate. }
    rewrite M. destruct (mem nm (sp_exports sp)) eqn:E; [reflexivity|].
    apply IH. rewrite existsb_app. cbn. now rewrite Hb, E.
  Qed.

  Lemma NoDup_map_text (l : list (name * kid)) :
    (forall n k, In (n, k) l -> ru_intern u (ru_text u n) = n) -> NoDup (map fst l) -> NoDup (map fst (text_items u l)).
  Proof.
    intros H ND. induction l as [|[n k] l IH]; cbn; [constructor|]. cbn in ND. inversion ND as [|? ? Hn ND']; subst.
    constructor.
    - intros Hi. apply Hn. unfold text_items in Hi. rewrite map_map in Hi. cbn in Hi. apply in_map_iff in Hi as ([n' k'] & E & Hi').
      cbn in E. assert (n' = n).
      { rewrite <- (H n' k' (or_intror Hi')), E. apply (H n k). now left. }
      subst. apply in_map_iff. exists (n, k'). auto.
    - apply IH; auto. intros n' k' Hi. apply (H n' k'). now right.
  Qed.

  Lemma get_full_nodup (l : list (name * kid)) : NoDup (map fst l) -> forall idx i kd off,
    nth_error l idx = Some (i, kd) -> get_full l i off = Some (off + idx, kd).
  Proof.
    induction l as [|[n k] l IH]; intros ND idx i kd off H; [destruct idx; discriminate|].
    cbn in ND. inversion ND as [|? ? Hn ND']; subst. destruct idx as [|idx]; cbn in H.
    - injection H as -> ->. cbn. rewrite N.eqb_refl, Nat.add_0_r. reflexivity.
    - cbn. destruct (N.eqb_spec n i) as [->|Ne].
      + exfalso. apply Hn. apply nth_error_In in H. apply (in_map fst) in H. exact H.
      + rewrite (IH ND' idx i kd (Datatypes.S off) H). f_equal. f_equal. lia.
  Qed.

  Lemma NoDup_app_str (l1 l2 : list str) :
    NoDup l1 -> NoDup l2 -> (forall a, In a l1 -> ~ In a l2) -> NoDup (l1 ++ l2).
  Proof.
    induction l1 as [|a l1 IH]; intros N1 N2 D; cbn; auto. inversion N1; subst. constructor.
    - rewrite in_app_iff. intros [H|H]; [contradiction|]. apply (D a); [now left|exact H].
    - apply IH; auto. intros b Hb. apply D. now right.
  Qed.

  Lemma spreads_from_nodup expected : forall t recs t',
    spreads_from u expected t recs t' -> NoDup expected -> NoDup (map fst t) -> NoDup (map fst t').
  Proof.
    induction 1 as [t|t r rest t' MF NE FA SF IH]; intros ND NDt; auto. apply IH; auto.
    rewrite map_app, MF. apply NoDup_app_str; auto.
    - unfold spread_filter. now apply NoDup_filter_str.
    - intros a Ha Hf. unfold spread_filter in Hf. apply filter_In in Hf as [_ Hf].
      apply has_key_In in Ha. rewrite Ha in Hf. discriminate.
  Qed.

  (** ** the tail of [new]: instantiate, pass the arguments, check completeness *)
  Definition model_tail (pkg : package_name) (id : pkgid) (imports : list (str * kid)) (t2 : argtbl) (req : bool) : M nat :=
    o <- gop (fun g => instantiate u g id) ;;
    match o with
    | ONode inst =>
        _ <- set_args u inst t2 ;;
        if req : bool then
          match find (fun p => negb (has_key t2 (fst p))) imports with
          | Some p => err (EMissingInstantiationArg (fst p) (off (pn_span pkg)))
          | None => ret inst
          end
        else ret inst
    | OPanic p => panic (RGraph p)
    | _ => panic RBadUniverse
    end.

  Definition spec_tail (p : nat) (imports : list (str * kid)) (explicit : list (str * sval))
             (spreads : list (spread_src sval)) (fill : bool) : SM sval :=
    let names := map fst imports in
    let from_spreads := map (fun b => (fst b, VAccess (sp_val (snd b)) (fst b))) (spread_bound names explicit [] spreads) in
    sbind (check_args u imports (explicit ++ from_spreads)) (fun _ =>
    let bs := map (fun i => (i, bind_import explicit spreads fill i)) names in
    match find (fun b => match snd b with BMissing => true | _ => false end) bs with
    | Some (i, _) => ill (IMissingArgument i)
    | None =>
        fun e => inl (VInst (length (se_insts e)),
                      {| se_names := se_names e; se_imports := se_imports e;
                         se_insts := se_insts e ++ [{| si_pkg := p; si_bindings := bs |}];
                         se_exports := se_exports e |})
    end).

  Lemma binding_unbound names explicit vm t2 spreads fill i :
    pass2_inv names explicit vm t2 spreads -> In i names ->
    has_key t2 i = match bind_import explicit spreads fill i with BExplicit _ | BSpread _ => true | _ => false end.
  Proof.
    intros [T Hk] Hi. rewrite (Hk i Hi). unfold bind_import, has_key, first_spread.
    destruct (im_get explicit i); [reflexivity|]. cbn [orb].
    destruct (find (fun sp => mem i (sp_exports sp)) spreads) eqn:Fd.
    - destruct (existsb (fun q => mem i (sp_exports q)) spreads) eqn:Ex; auto. apply find_existsb in Ex. congruence.
    - apply find_existsb in Fd. rewrite Fd. destruct fill; reflexivity.
  Qed.

  Lemma missing_agree names explicit vm t2 spreads (imports : list (str * kid)) :
    pass2_inv names explicit vm t2 spreads -> (forall p, In p imports -> In (fst p) names) ->
    match find (fun p => negb (has_key t2 (fst p))) imports,
          find (fun b : str * binding sval => match snd b with BMissing => true | _ => false end)
               (map (fun i => (i, bind_import explicit spreads false i)) (map fst imports)) with
    | Some p, Some b => fst p = fst b
    | None, None => True
    | _, _ => False
    end.
  Proof.
    intros I. induction imports as [|[i k] l IH]; intros Hn; cbn; auto.
    rewrite (binding_unbound names explicit vm t2 spreads false i I (Hn (i, k) (or_introl eq_refl))).
    destruct (bind_import explicit spreads false i) eqn:B; cbn; auto.
    - apply IH. intros p Hp. apply Hn. now right.
    - apply IH. intros p Hp. apply Hn. now right.
    - unfold bind_import in B. destruct (im_get explicit i); [discriminate|]. destruct (first_spread spreads i); discriminate.
  Qed.

  Lemma no_missing_when_fill names (explicit : list (str * sval)) spreads :
    find (fun b : str * binding sval => match snd b with BMissing => true | _ => false end)
         (map (fun i => (i, bind_import explicit spreads true i)) names) = None.
  Proof.
    induction names as [|i l IH]; cbn; auto. unfold bind_import at 1.
    destruct (im_get explicit i); [exact IH|]. destruct (first_spread spreads i); exact IH.
  Qed.

  (** the state after a successful [new]: the relation holds again, with the new instantiation *)
  Lemma new_rel s2 env2 vm2 id p pd explicit spreads fill t2 :
    Rel s2 env2 vm2 -> get_pkg (rs_g s2) id = Some p -> nth_error (u_pkgs u) p = Some pd ->
    let imps := pd_imports pd in
    let names := map fst (text_items u imps) in
    let bs := map (fun i => (i, bind_import explicit spreads fill i)) names in
    pass2_inv names explicit vm2 t2 spreads -> NoDup (map fst t2) ->
    Forall (fun q => has_key (text_items u imps) (fst q) = true) t2 ->
    Rel {| rs_g := cur (rs_g s2) id pd (rev (map (fun q => arg_idx pd (fst q)) t2) ++ [])
                       (rev (map (edge_of (rs_g s2) pd) t2) ++ []);
           rs_scope := rs_scope s2 |}
        {| se_names := se_names env2; se_imports := se_imports env2;
           se_insts := se_insts env2 ++ [{| si_pkg := p; si_bindings := bs |}]; se_exports := se_exports env2 |}
        (vm2 ++ [VInst (length (se_insts env2))]).
  Proof.
    intros R GP Ppd imps names bs I NDt Valid.
    set (g2 := rs_g s2). set (len := length (nodes g2)).
    set (sat' := rev (map (fun q => arg_idx pd (fst q)) t2) ++ []).
    set (newE' := rev (map (edge_of g2 pd) t2) ++ []).
    set (si := {| si_pkg := p; si_bindings := bs |}).
    set (j := length (se_insts env2)).
    assert (Lv : length vm2 = len) by apply (r_len _ _ _ _ _ R).
    assert (IMP : forall n k, In (n, k) imps -> ru_intern u (ru_text u n) = n) by (intros n k H; eapply (uo_intern_imports _ _ U); eauto).
    assert (NDi : NoDup (map fst imps)) by (eapply (uo_imports_nodup _ _ U); eauto).
    destruct I as [T Hk]. pose proof (conj T Hk : pass2_inv names explicit vm2 t2 spreads) as I.
    assert (Tn : forall nm n at_, In (nm, (n, at_)) t2 -> n < len).
    { intros nm n at_ Hin. rewrite <- Lv. clear -T Hin. induction T as [|a b l l' [E V] H IH]; [destruct Hin|].
      destruct Hin as [->|Hin]; [|auto]. cbn in V. apply nth_error_Some. congruence. }
    assert (NewE : forall e, In e newE' <-> exists q, In q t2 /\ e = edge_of g2 pd q).
    { intros e. unfold newE'. rewrite app_nil_r, <- in_rev, in_map_iff. split; intros (q & A & B); exists q; auto. }
    assert (EB : forall e, In e (edges g2) -> etgt e < len) by (intros e He; apply (r_edges _ _ _ _ _ R e He)).
    (* which edges into the new node carry index [arg_idx nm] *)
    assert (EdgeChar : forall nm src, has_key (text_items u imps) nm = true ->
              (In {| esrc := src; etgt := len; ek := EArg (arg_idx pd nm) |} (newE' ++ edges g2) <->
               exists at_, In (nm, (src, at_)) t2)).
    { intros nm src Hv. rewrite in_app_iff. split.
      - intros [Hn|Ho]; [|apply EB in Ho; cbn in Ho; lia].
        apply NewE in Hn as ([nm' [n' at']] & Hq & E). unfold edge_of in E. cbn in E. injection E as -> Ei.
        rewrite Forall_forall in Valid. pose proof (Valid _ Hq) as Hv'. cbn in Hv'.
        assert (nm' = nm) by (symmetry; eapply arg_idx_inj; eauto). subst. eauto.
      - intros (at_ & Hq). left. apply NewE. exists (nm, (src, at_)). split; auto. }
    eapply (Rel_frame u K s2 env2 vm2 _ _ _ R); cbn [rs_g rs_scope se_names se_imports se_insts se_exports].
    - split; reflexivity.
    - cbn. rewrite !app_length. cbn. fold g2 len. lia.
    - apply prefix_snoc.
    - split; cbn; [apply prefix_refl|apply prefix_snoc].
    - cbn. rewrite app_length. cbn. fold g2. lia.
    - intros k nd G. exists nd. split; [now apply get_node_cur_old|auto].
    - intros id0 p0. unfold get_pkg. cbn. auto.
    - intros e He. cbn. apply in_or_app. now right.
    - intros e He. cbn in He. apply in_app_or in He as [Hn|Ho]; [|now left]. right.
      apply NewE in Hn as ([nm [n at_]] & Hq & ->). unfold edge_of. cbn. rewrite app_length. cbn. fold g2 len.
      pose proof (Tn _ _ _ Hq). split; [lia|]. split; [lia|]. split; [lia|]. intros idx X. discriminate.
    - intros k Lo Hi. cbn in Hi. rewrite app_length in Hi. cbn in Hi. fold g2 len in Lo, Hi. assert (k = len) by lia. subst k.
      exists (inode id pd sat'), (VInst j). split; [apply get_node_cur_inst|].
      split; [rewrite nth_error_app2 by lia; rewrite Lv, Nat.sub_diag; reflexivity|].
      assert (Sj : nth_error (se_insts env2 ++ [si]) j = Some si).
      { unfold j. rewrite nth_error_app2, Nat.sub_diag by lia. reflexivity. }
      unfold node_ok. cbn [nitem nk npkg inode].
      split; [eapply (uo_K_inst _ _ U); eauto|].
      split; [cbn [val_kind se_insts]; rewrite Sj; cbn [si_pkg si]; unfold pkg_world; now rewrite Ppd|].
      split; [discriminate|]. split; [eauto|].
      exists si, id. split; [exact Sj|]. split; [reflexivity|].
      split; [unfold get_pkg; cbn; exact GP|].
      exists pd. cbn [si_pkg si_bindings si]. split; [exact Ppd|].
      split; [unfold bs; rewrite map_map; cbn; apply map_id|].
      intros idx i kd b N1 N2.
      set (nm := ru_text u i).
      assert (Hb : b = bind_import explicit spreads fill nm).
      { unfold bs, names, text_items in N2. rewrite !map_map in N2. rewrite nth_error_map in N2. unfold imps in N2. rewrite N1 in N2. cbn in N2.
        now injection N2 as <-. }
      assert (Hin : In nm names).
      { unfold names, text_items. rewrite map_map. cbn. apply in_map_iff. exists (i, kd). split; auto. eapply nth_error_In; eauto. }
      assert (Hv : has_key (text_items u imps) nm = true) by (apply has_key_In; exact Hin).
      assert (Hidx : arg_idx pd nm = idx).
      { unfold arg_idx, nm. rewrite (IMP i kd (nth_error_In _ _ N1)).
        pose proof (get_full_nodup imps NDi idx i kd 0 N1) as GFN. unfold imps in GFN. now rewrite GFN. }
      pose proof (binding_unbound names explicit vm2 t2 spreads fill nm I Hin) as HK. rewrite <- Hb in HK.
      pose proof (scope_get vm2 t2 _ nm T) as SG.
      assert (Some_case : forall v, im_get (explicit ++ spread_vals names explicit spreads) nm = Some v -> has_key t2 nm = true ->
                exists src, In {| esrc := src; etgt := len; ek := EArg idx |} (newE' ++ edges g2) /\
                  nth_error (vm2 ++ [VInst j]) src = Some v /\
                  forall src', In {| esrc := src'; etgt := len; ek := EArg idx |} (newE' ++ edges g2) -> src' = src).
      { intros v Gv Ht. unfold has_key in Ht. destruct (im_get t2 nm) as [[n at_]|] eqn:G2; [|discriminate].
        destruct SG as (v' & Gv' & Vn). rewrite Gv in Gv'. injection Gv' as <-.
        exists n. rewrite <- Hidx. split; [apply EdgeChar; auto; exists at_; now apply im_get_In|].
        split; [apply (prefix_nth _ _ _ _ (prefix_snoc vm2 _) Vn)|].
        intros src' He. apply EdgeChar in He as (at' & Hq'); auto.
        pose proof (In_im_get _ _ _ NDt Hq') as X. rewrite G2 in X. now injection X as <- _. }
      subst b. unfold bind_import in *. destruct (im_get explicit nm) as [v0|] eqn:Ge.
      + cbn [binding_value]. apply Some_case; auto. rewrite im_get_app. now rewrite Ge.
      + destruct (first_spread spreads nm) as [sp|] eqn:Fs.
        * cbn [binding_value]. apply Some_case; auto. rewrite im_get_app, Ge. unfold spread_vals.
          rewrite (spread_vals_get names explicit nm Hin) by (auto; unfold has_key; now rewrite Ge).
          unfold first_spread in Fs. now rewrite Fs.
        * assert (None_case : forall src, ~ In {| esrc := src; etgt := len; ek := EArg idx |} (newE' ++ edges g2)).
          { intros src He. rewrite <- Hidx in He. apply EdgeChar in He as (at_ & Hq); auto.
            assert (has_key t2 nm = true) by (apply has_key_In; apply (in_map fst) in Hq; exact Hq).
            destruct fill; congruence. }
          destruct fill; exact None_case.
    - eapply scope_ok_mono; [apply prefix_snoc|apply (r_scope _ _ _ _ _ R)].
    - eapply exports_ok_mono; [apply prefix_snoc|apply (r_exports _ _ _ _ _ R)].
    - eapply (imports_ok_mono u g2 _ vm2); [apply prefix_snoc|reflexivity| |apply (r_imports _ _ _ _ _ R)].
      intros k nd G. exists nd. split; [now apply get_node_cur_old|auto].
    - intros j' Hj. rewrite app_length in Hj. cbn in Hj. destruct (Nat.eq_dec j' j) as [->|Ne].
      + exists len. rewrite nth_error_app2 by lia. rewrite Lv, Nat.sub_diag. reflexivity.
      + destruct (r_insts _ _ _ _ _ R j') as (k & Vk); [unfold j in Ne; lia|]. exists k. eapply prefix_nth; eauto. apply prefix_snoc.
  Qed.

  Lemma new_finish pkg s2 env2 vm2 id p pd explicit spreads fill t2 :
    Rel s2 env2 vm2 -> get_pkg (rs_g s2) id = Some p -> nth_error (u_pkgs u) p = Some pd ->
    pass2_inv (map fst (text_items u (pd_imports pd))) explicit vm2 t2 spreads -> NoDup (map fst t2) ->
    sim u K item_rel vm2 env2
        (model_tail pkg id (text_items u (pd_imports pd)) t2 (negb fill) s2)
        (spec_tail p (text_items u (pd_imports pd)) explicit spreads fill env2).
  Proof.
    intros R GP Ppd I NDt.
    set (g2 := rs_g s2). set (imps := pd_imports pd). set (imports := text_items u imps). set (names := map fst imports).
    assert (NF : nofree g2) by apply (r_free _ _ _ _ _ R).
    assert (PD : pkg_desc u g2 id = Some pd) by (unfold pkg_desc; fold g2 in GP; now rewrite GP).
    assert (EB : forall e, In e (edges g2) -> etgt e < length (nodes g2)) by (intros e He; apply (r_edges _ _ _ _ _ R e He)).
    assert (RK : forall n an v, get_node g2 n = Some an -> nth_error vm2 n = Some v -> val_kind u env2 v = Some (nitem an)).
    { intros n an v G V. now destruct (r_node _ _ _ _ _ R n an v G V) as (_ & VK & _). }
    assert (LV : forall n v, nth_error vm2 n = Some v -> exists an, get_node g2 n = Some an).
    { intros n v V. eapply rel_live; eauto. }
    assert (IMP : forall n k, In (n, k) imps -> ru_intern u (ru_text u n) = n) by (intros n k H; eapply (uo_intern_imports _ _ U); eauto).
    destruct I as [T Hk]. pose proof (conj T Hk : pass2_inv names explicit vm2 t2 spreads) as I.
    assert (Lv : length vm2 = length (nodes g2)) by apply (r_len _ _ _ _ _ R).
    unfold model_tail, spec_tail. unfold bind at 1, gop, bind at 1, get_g at 1. fold g2.
    rewrite (instantiate_cur g2 id pd NF PD). unfold bind at 1, put_g at 1, ret at 1. cbn [rs_scope].
    unfold bind at 1, sbind at 1.
    pose proof (set_args_sim g2 id pd PD EB env2 vm2 RK LV IMP t2 _ [] [] (rs_scope s2) T NDt) as S.
    match type of S with ?A -> ?B -> _ => assert (HA : A) by (intros e []); assert (HB : B) by (intros i []); specialize (S HA HB) end.
    fold imps imports names in S |- *. unfold spread_vals in S. fold names in S.
    destruct (set_args u (length (nodes g2)) t2 _) as [[[] st']|f],
             (check_args u imports (explicit ++ _) env2) as [[[] env']|i]; try exact S; try (exfalso; exact S).
    destruct S as (-> & -> & Valid).
    destruct fill; cbn [negb].
    - (* [...] present *)
      rewrite no_missing_when_fill. cbn.
      exists (vm2 ++ [VInst (length (se_insts env2))]). split; [apply prefix_snoc|].
      split; [apply (new_rel s2 env2 vm2 id p pd explicit spreads true t2 R GP Ppd I NDt Valid)|].
      split; [split; cbn; [apply prefix_refl|apply prefix_snoc]|].
      unfold item_rel. rewrite nth_error_app2 by (fold g2; lia). fold g2. rewrite Lv, Nat.sub_diag. reflexivity.
    - pose proof (missing_agree names explicit vm2 t2 spreads imports I) as MA.
      match type of MA with ?A -> _ => assert (HC : A); [|specialize (MA HC)] end.
      { intros q Hq. unfold names. now apply in_map. }
      fold names in MA |- *.
      destruct (find (fun q => negb (has_key t2 (fst q))) imports) as [q|],
               (find (fun b : str * binding sval => match snd b with BMissing => true | _ => false end) _) as [[i0 b0]|];
        try (exfalso; exact MA).
      + cbn. cbn in MA. now rewrite MA.
      + cbn.
        exists (vm2 ++ [VInst (length (se_insts env2))]). split; [apply prefix_snoc|].
        split; [apply (new_rel s2 env2 vm2 id p pd explicit spreads false t2 R GP Ppd I NDt Valid)|].
        split; [split; cbn; [apply prefix_refl|apply prefix_snoc]|].
        unfold item_rel. rewrite nth_error_app2 by (fold g2; lia). fold g2. rewrite Lv, Nat.sub_diag. reflexivity.
  Qed.

  (** ** the [new] expression, and all expressions *)
  Lemma new_sim pkg args : args_sim u self_name K args -> forall st env vm,
    Rel st env vm ->
    sim u K item_rel vm env
        (new_expr u self_name (eval_expr u self_name) pkg args st)
        (new_value dv u self_name (fun y => value_of dv u self_name y) pkg args env).
  Proof.
    intros HA st env vm R. unfold new_expr, new_value.
    destruct (str_eqb (pn_name pkg) self_name); [reflexivity|].
    unfold bind at 1, sbind at 1, find_pkg.
    pose proof (resolve_package_sim u K U st env vm (pn_name pkg) (pn_version pkg) (off (pn_span pkg)) R) as S0.
    destruct (resolve_package u (pn_name pkg) (pn_version pkg) (off (pn_span pkg)) st) as [[id s0]|f],
             (ru_pkg_find u (pn_name pkg) (pn_version pkg)) as [p|]; try (exfalso; exact S0); [|subst f; reflexivity].
    destruct S0 as (R0 & GP0 & Sc0 & pd & Ppd). cbn [sret].
    unfold bind at 1, get_g at 1. unfold pkg_desc at 1. rewrite GP0, Ppd. unfold pkg_world. rewrite Ppd.
    set (imps := pd_imports pd). set (imports := text_items u imps). set (names := map fst imports).
    assert (ND : NoDup names).
    { apply NoDup_map_text; [intros n k H; eapply (uo_intern_imports _ _ U); eauto|eapply (uo_imports_nodup _ _ U); eauto]. }
    unfold bind at 1, sbind at 1.
    pose proof (pass1_sim u self_name K U imports args HA [] [] true s0 env vm R0 (Forall2_nil _)) as S1.
    fold names in S1 |- *.
    destruct (pass1 u (eval_expr u self_name) imports args [] true s0) as [[[t1 req] s1]|f] eqn:P1,
             (explicit_args dv u (fun y => value_of dv u self_name y) names args [] env) as [[[explicit fill] e1]|i];
      try exact S1; try (exfalso; exact S1).
    destruct S1 as (vm1 & Pv1 & R1 & L1 & T1 & Rq). cbn [fst snd] in T1, Rq. cbn [andb] in Rq.
    unfold bind at 1, sbind at 1.
    assert (I0 : pass2_inv names explicit vm1 t1 []).
    { split; [unfold spread_vals; cbn; now rewrite app_nil_r|]. intros i Hi. cbn. rewrite orb_false_r. now apply (tbl_has_key vm1). }
    pose proof (pass2_sim u K U names explicit args ND t1 [] s1 e1 vm1 R1 I0) as S2.
    destruct (pass2 u args names t1 s1) as [[t2 s2]|f] eqn:P2,
             (spread_args u names explicit args [] e1) as [[spreads e2]|i]; try exact S2; try (exfalso; exact S2).
    destruct S2 as (vm2 & Pv2 & R2 & L2 & I2).
    (* frames: the package id still resolves, the table has distinct names *)
    assert (HF : args_framed (eval_expr u self_name) args) by (apply Forall_forall; intros a _; destruct a; auto; apply mframe_eval_expr).
    destruct (mframe_pass1 u (eval_expr u self_name) imports args HF _ _ _ _ _ P1 (r_free _ _ _ _ _ R0)) as [G1 _].
    destruct (mframe_pass2 u names args _ _ _ _ P2 (gf_free _ _ G1)) as [G2 _].
    assert (GP2 : get_pkg (rs_g s2) id = Some p) by (apply (gf_pkgs _ _ G2), (gf_pkgs _ _ G1); exact GP0).
    assert (NDt : NoDup (map fst t2)).
    { destruct (pass1_inl u (eval_expr u self_name) imports args _ _ _ _ _ _ P1 (NoDup_nil _)) as (ND1 & _).
      destruct (pass2_inl u names args _ _ _ _ P2 (gf_free _ _ G1) ND) as (recs & _ & _ & SF & _).
      eapply spreads_from_nodup; eauto. }
    subst req.
    change (sim u K item_rel vm env (model_tail pkg id imports t2 (negb fill) s2) (spec_tail p imports explicit spreads fill e2)).
    eapply sim_weaken; [eapply prefix_trans; eauto|eapply env_le_trans; eauto|].
    apply (new_finish pkg s2 e2 vm2 id p pd explicit spreads fill t2 R2 GP2 Ppd I2 NDt).
  Qed.

  Theorem expr_sim_all e : expr_sim u self_name K e.
  Proof.
    apply (expr_ind' (expr_sim u self_name K)
             (fun p => forall st env vm, Rel st env vm ->
                sim u K item_rel vm env (eval_primary u self_name p st) (primary_value dv u self_name p env))).
    - intros sp p post Hp st env vm R.
      change (eval_expr u self_name (Expr sp p post) st)
        with (bind (eval_primary u self_name p) (fun n => postfix_chain u n (off (primary_span p)) post) st).
      change (value_of dv u self_name (Expr sp p post) env)
        with (sbind (primary_value dv u self_name p) (fun v => access_chain dv u v post) env).
      unfold bind, sbind.
      pose proof (Hp st env vm R) as S.
      destruct (eval_primary u self_name p st) as [[n s1]|f], (primary_value dv u self_name p env) as [[v e1]|i];
        try exact S; try (exfalso; exact S).
      destruct S as (vm1 & P1 & R1 & L1 & V1). eapply sim_weaken; eauto. now apply chain_sim.
    - intros sp pkg args HA st env vm R.
      change (eval_primary u self_name (PNew sp pkg args) st) with (new_expr u self_name (eval_expr u self_name) pkg args st).
      change (primary_value dv u self_name (PNew sp pkg args) env)
        with (new_value dv u self_name (fun y => value_of dv u self_name y) pkg args env).
      apply new_sim; auto.
    - intros sp inner Hi st env vm R. exact (Hi st env vm R).
    - intros i st env vm R. change (sim u K item_rel vm env (local_item i st) (lookup i env)). now apply lookup_sim.
  Qed.
End SimNew.
