(** Fuel is only a bound: every result of the aggregator model other than "out of fuel" is stable under more fuel
    (for the whole mutually recursive family remap_* / merge_interface, for [merge_item_kind], [aggregate] and
    [aggregate_all]).  So a statement about a successful aggregation at some fuel is a statement about every larger fuel. *)
From Coq Require Import ZArith ZifyBool ZifyN Lia.
From WacV Require Import Str Ord Semver Names Types Checker Aggregator.
From WacV Require Import SemverProofs CheckerEq AggregatorFrame.

Definition le_r {A} (r r' : AR A) : Prop := r = AOof \/ r = r'.
Definition leM {A} (m m' : M A) : Prop := forall c, le_r (m c) (m' c).

Lemma leM_refl {A} (m : M A) : leM m m. Proof. intros c. now right. Qed.
Lemma leM_oof {A} (m : M A) : leM oof m. Proof. intros c. now left. Qed.
Lemma leM_bind {A B} (m m' : M A) (k k' : A -> M B) : leM m m' -> (forall x, leM (k x) (k' x)) -> leM (bindM m k) (bindM m' k').
Proof.
  intros Hm Hk c. unfold bindM. destruct (Hm c) as [E|E].
  - rewrite E. now left.
  - rewrite <- E. destruct (m c) as [[x c']| | |]; [apply Hk | now right | now right | now left].
Qed.
Lemma leM_mapM {A B} (f f' : A -> M B) l : (forall x, In x l -> leM (f x) (f' x)) -> leM (mapM f l) (mapM f' l).
Proof.
  induction l as [|a l IH]; intros H; cbn [mapM]; [apply leM_refl|].
  apply leM_bind; [apply H; now left|]. intros y. apply leM_bind; [apply IH; intros; apply H; now right|]. intros ys. apply leM_refl.
Qed.
Lemma leM_forM {A} (f f' : A -> M unit) l : (forall x, In x l -> leM (f x) (f' x)) -> leM (forM f l) (forM f' l).
Proof.
  induction l as [|a l IH]; intros H; cbn [forM]; [apply leM_refl|].
  apply leM_bind; [apply H; now left|]. intros _. apply IH. intros; apply H; now right.
Qed.
Lemma leM_optM {A B} (f f' : A -> M B) o : (forall x, o = Some x -> leM (f x) (f' x)) -> leM (optM f o) (optM f' o).
Proof.
  destruct o as [a|]; intros H; cbn [optM]; [|apply leM_refl]. apply leM_bind; [now apply H|]. intros y. apply leM_refl.
Qed.

Ltac mono_step :=
  match goal with
  | |- leM ?m ?m => apply leM_refl
  | |- leM oof _ => apply leM_oof
  | |- leM (bindM _ _) (bindM _ _) => apply leM_bind; [|intro]
  | |- leM (mapM _ ?l) (mapM _ ?l) => apply leM_mapM; intros ? ?
  | |- leM (forM _ ?l) (forM _ ?l) => apply leM_forM; intros ? ?
  | |- leM (optM _ ?o) (optM _ ?o) => apply leM_optM; intros ? ?
  | |- leM (match ?e with _ => _ end) (match ?e with _ => _ end) => destruct e
  | |- leM (let '(_, _) := ?e in _) (let '(_, _) := ?e in _) => destruct e
  | |- leM (if ?e then _ else _) (if ?e then _ else _) => destruct e
  end.

Section Mono.
  Variable ord : list (str * id) -> list (str * id).
  Variable cf : nat.

  (** unfolding equations of the three functions that call themselves *)
  Lemma remap_resource_S f t r :
    remap_resource ord cf (S f) t r =
    (hit <-- remapped_get (TResource r) ;;;
     match hit with
     | Some (TResource y) => ret y
     | Some _ => panic
     | None =>
       x <-- idxM (get_res t r) ;;;
       al <-- optM (fun a : option id * id =>
                      let '(owner, source) := a in
                      o' <-- optM (remap_interface ord cf f t) owner ;;;
                      match o' with
                      | Some ow =>
                        i <-- agg_if ow ;;;
                        name <-- idxM (i_id i) ;;;
                        c <-- get ;;;
                        if has_key name (c_imports c) then ret tt
                        else fun c => AOk (tt, with_imports c (ins name (KInstance ow) (c_imports c)))
                      | None => ret tt
                      end ;;;
                      s' <-- remap_resource ord cf f t source ;;;
                      ret (o', s')) (res_alias x) ;;;
       y <-- add_res (mkres (res_name x) al) ;;;
       remapped_new (TResource r) (TResource y) ;;;
       ret y
     end).
  Proof. reflexivity. Qed.

  Lemma remap_interface_S f t i :
    remap_interface ord cf (S f) t i =
    (x <-- idxM (get_if t i) ;;;
     hit <-- match i_id x with
             | Some name => e <-- lookup_iface ord name ;;; ret (match e with Some e => Some (name, e) | None => None end)
             | None => ret None
             end ;;;
     match hit with
     | Some (name, existing) =>
       merge_interface ord cf f existing t i ;;;
       iface_set name existing ;;;
       ret existing
     | None =>
       r <-- match i_id x with
             | Some _ => remapped_get (TInterface i)
             | None => ret None
             end ;;;
       match r with
       | Some (TInterface y) => ret y
       | Some _ => panic
       | None =>
         us <-- mapM (fun nu : str * used =>
                        ui <-- idxM (get_if t (fst (snd nu))) ;;;
                        match i_id ui with
                        | None => fail AEUsedNoIdRemap
                        | Some _ => y <-- remap_interface ord cf f t (fst (snd nu)) ;;; ret (fst nu, (y, snd (snd nu)))
                        end) (i_uses x) ;;;
         es <-- mapM (fun nk : str * kind => k' <-- remap_item_kind ord cf f t (snd nk) ;;; ret (fst nk, k')) (i_exports x) ;;;
         y <-- add_if (mkif (i_id x) us es) ;;;
         match i_id x with
         | Some name => remapped_new (TInterface i) (TInterface y) ;;; iface_new name y
         | None => ret tt
         end ;;;
         ret y
       end
     end).
  Proof. reflexivity. Qed.

  Definition mbody (f : nat) (existing : id) (t : types) (nk : str * kind) : M unit :=
    let '(name, sk) := nk in
    ex <-- agg_if existing ;;;
    match assoc name (i_exports ex) with
    | Some tk =>
      match nested_pair tk sk existing with
      | Some (target_id, source_id) =>
        merge_interface ord cf f target_id t source_id ;;; remapped_set (ty_of sk) (ty_of tk)
      | None =>
        r1 <-- sub_fa cf t sk tk ;;;
        if is_ok r1 then
          if replaceable (ty_of sk) (ty_of tk) then remapped_set (ty_of sk) (ty_of tk) else ret tt
        else r2 <-- sub_af cf t tk sk ;;; must AEMismatchExport r2 ;;;
             (k' <-- remap_item_kind ord cf f t sk ;;; upd_if existing (if_set_export name k'))
      end
    | None => k' <-- remap_item_kind ord cf f t sk ;;; upd_if existing (if_set_export name k')
    end.
  Lemma merge_interface_S' f existing t i :
    merge_interface ord cf (S f) existing t i =
    (merge_interface_used_types ord cf f existing t i ;;;
     src <-- idxM (get_if t i) ;;; forM (mbody f existing t) (i_exports src)).
  Proof. reflexivity. Qed.

  Definition mono_stmt (f : nat) : Prop :=
    (forall t k, leM (remap_item_kind ord cf f t k) (remap_item_kind ord cf (S f) t k)) /\
    (forall t x, leM (remap_type ord cf f t x) (remap_type ord cf (S f) t x)) /\
    (forall t r, leM (remap_resource ord cf f t r) (remap_resource ord cf (S f) t r)) /\
    (forall t i, leM (remap_func_type ord cf f t i) (remap_func_type ord cf (S f) t i)) /\
    (forall t v, leM (remap_value_type ord cf f t v) (remap_value_type ord cf (S f) t v)) /\
    (forall t d, leM (remap_defined_type ord cf f t d) (remap_defined_type ord cf (S f) t d)) /\
    (forall t i, leM (remap_interface ord cf f t i) (remap_interface ord cf (S f) t i)) /\
    (forall t w, leM (remap_world ord cf f t w) (remap_world ord cf (S f) t w)) /\
    (forall e t i, leM (merge_interface ord cf f e t i) (merge_interface ord cf (S f) e t i)) /\
    (forall e t i, leM (merge_interface_used_types ord cf f e t i) (merge_interface_used_types ord cf (S f) e t i)).

  Lemma mono_all : forall f, mono_stmt f.
  Proof.
    induction f as [|f IH].
    - repeat split; intros; apply leM_oof.
    - destruct IH as [Hk [Hty [Hr [Hf [Hv [Hd [Hi [Hw [Hm Hu]]]]]]]]].
      repeat split; intros.
      + cbn [remap_item_kind]. repeat (mono_step || apply Hty || apply Hf || apply Hi || apply Hw || apply Hv).
      + cbn [remap_type]. repeat (mono_step || apply Hr || apply Hf || apply Hi || apply Hw || apply Hv).
      + rewrite (remap_resource_S (S f)), (remap_resource_S f). repeat (mono_step || apply Hr || apply Hi).
      + cbn [remap_func_type]. repeat (mono_step || apply Hv).
      + cbn [remap_value_type]. repeat (mono_step || apply Hr || apply Hd).
      + cbn [remap_defined_type]. repeat (mono_step || apply Hv).
      + rewrite (remap_interface_S (S f)), (remap_interface_S f). repeat (mono_step || apply Hm || apply Hi || apply Hk).
      + cbn [remap_world]. repeat (mono_step || apply Hi || apply Hk).
      + rewrite (merge_interface_S' (S f)), (merge_interface_S' f). apply leM_bind; [apply Hu|]. intros _.
        apply leM_bind; [apply leM_refl|]. intros src. apply leM_forM. intros [name sk] _. unfold mbody.
        repeat (mono_step || apply Hk || apply Hm).
      + cbn [merge_interface_used_types]. repeat (mono_step || apply Hi).
  Qed.

  Lemma leM_merge_item_kind f e t k : leM (merge_item_kind ord cf f e t k) (merge_item_kind ord cf (S f) e t k).
  Proof.
    destruct (mono_all f) as [Hk [_ [_ [_ [_ [_ [Hi [_ [Hm _]]]]]]]]].
    unfold merge_item_kind, merge_type, merge_world, merge_world_used_types.
    repeat (mono_step || apply Hk || apply Hm || apply Hi).
  Qed.

  Lemma le_r_elim {A} (r r' : AR A) : le_r r r' -> r <> AOof -> r' = r.
  Proof. intros [E|E] N; [contradiction|now symmetry]. Qed.

  Theorem aggregate_fuel_S f a s name t k r :
    aggregate ord cf f a s name t k = r -> r <> AOof -> aggregate ord cf (S f) a s name t k = r.
  Proof.
    unfold aggregate. destruct (assoc name (a_imports a)) as [existing|].
    - pose proof (leM_merge_item_kind f existing t k (core_of a s)) as H.
      destruct (merge_item_kind ord cf f existing t k (core_of a s)) as [[u c]| | |] eqn:E; intros <- N;
        try (rewrite (le_r_elim _ _ H); [reflexivity|discriminate]). contradiction.
    - destruct (find_compat name (a_imports a)) as [[en ek]|].
      + pose proof (leM_merge_item_kind f ek t k (core_of a s)) as H.
        destruct (merge_item_kind ord cf f ek t k (core_of a s)) as [[u c]| | |] eqn:E; intros <- N;
          try (rewrite (le_r_elim _ _ H); [reflexivity|discriminate]). contradiction.
      + pose proof (proj1 (mono_all f) t k (core_of a s)) as H.
        destruct (remap_item_kind ord cf f t k (core_of a s)) as [[k' c]| | |] eqn:E; intros <- N;
          try (rewrite (le_r_elim _ _ H); [reflexivity|discriminate]). contradiction.
  Qed.

  Theorem aggregate_fuel_mono f f' a s name t k r :
    (f <= f')%nat -> aggregate ord cf f a s name t k = r -> r <> AOof -> aggregate ord cf f' a s name t k = r.
  Proof. induction 1 as [|f' _ IH]; auto. intros H N. apply aggregate_fuel_S; auto. Qed.

  (** a whole history: either the same final state, or the same first failure *)
  Theorem aggregate_all_fuel_mono f f' : (f <= f')%nat -> forall l a s pos res,
    aggregate_all ord cf f a s l pos = res -> (forall p, res <> inr (p, AOof)) -> aggregate_all ord cf f' a s l pos = res.
  Proof.
    intros Lf. induction l as [|[name [t k]] l IH]; intros a s pos res H N; cbn [aggregate_all] in *; auto.
    destruct (aggregate ord cf f a s name t k) as [[a1 s1]| | |] eqn:E.
    - rewrite (aggregate_fuel_mono f f' a s name t k _ Lf E); [|discriminate]. now apply IH.
    - rewrite (aggregate_fuel_mono f f' a s name t k _ Lf E); [exact H|discriminate].
    - rewrite (aggregate_fuel_mono f f' a s name t k _ Lf E); [exact H|discriminate].
    - exfalso. apply (N pos). now symmetry.
  Qed.
End Mono.
