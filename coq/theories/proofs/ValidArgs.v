(** Argument edges are checked: in every reachable state an [EArg i] edge runs from a live node whose
    kind was accepted by the subtype oracle for the [i]-th import of the package of its (live) target.
    Same structure as [GraphAlias]: a transport lemma for one edge, a relation [DeltaA s s'] with one
    lemma per operation, and separate treatment of [register], [unregister], [set_arg], [remove_node]. *)
From Coq Require Import List Arith Bool NArith Lia.
From WacV Require Import Graph GraphInv GraphPrims GraphSteps GraphRemove GraphUnreg GraphTheorems GraphLive GraphAcyclic GraphRank GraphAlias GraphFrame.
Import ListNotations.

(** every explicit argument edge was accepted by the subtype oracle for the import it satisfies, and its index is an import of the target's package *)
Definition ArgsChecked (u : universe) (s : gstate) : Prop :=
  forall e i, In e (edges s) -> ek e = EArg i ->
    exists sn tn imps nm k,
      get_node s (esrc e) = Some sn /\ get_node s (etgt e) = Some tn /\
      inst_imports u s tn = Some imps /\ nth_error imps i = Some (nm, k) /\
      u_sub u (nitem sn) k = true.

(** the body of [ArgsChecked] for one edge *)
Definition ArgOK (u : universe) (s : gstate) (e : edge) (i : nat) : Prop :=
  exists sn tn imps nm k,
    get_node s (esrc e) = Some sn /\ get_node s (etgt e) = Some tn /\
    inst_imports u s tn = Some imps /\ nth_error imps i = Some (nm, k) /\
    u_sub u (nitem sn) k = true.

Lemma ArgsChecked_ArgOK u s : ArgsChecked u s <-> (forall e i, In e (edges s) -> ek e = EArg i -> ArgOK u s e i).
Proof. reflexivity. Qed.

Lemma args_checked_empty : forall u, ArgsChecked u empty_graph.
Proof. intros u e i []. Qed.

(** * transporting one checked edge to another state *)
Lemma inst_imports_eq u s s' a b :
  npkg b = npkg a -> (forall id, npkg a = Some id -> get_pkg s' id = get_pkg s id) ->
  inst_imports u s' b = inst_imports u s a.
Proof.
  intros P H. unfold inst_imports, pkg_desc. rewrite P. destruct (npkg a) as [id|]; auto.
  now rewrite (H id eq_refl).
Qed.

Lemma ArgOK_transport u s s' e i :
  ArgOK u s e i ->
  (forall m a b, get_node s m = Some a -> get_node s' m = Some b -> nrel3 a b) ->
  (forall m a b id, get_node s m = Some a -> get_node s' m = Some b -> npkg a = Some id ->
                    get_pkg s' id = get_pkg s id) ->
  live s' (esrc e) = true -> live s' (etgt e) = true -> ArgOK u s' e i.
Proof.
  intros (sn & tn & imps & nm & k & G1 & G2 & II & N & S) H1 H2 L1 L2.
  apply live_get in L1 as [sn' L1]. apply live_get in L2 as [tn' L2].
  destruct (H1 _ _ _ G1 L1) as (I1 & _). destruct (H1 _ _ _ G2 L2) as (_ & P2 & _).
  exists sn', tn', imps, nm, k. split; [exact L1|split; [exact L2|split; [|split; [exact N|]]]].
  - rewrite <- II. apply inst_imports_eq; auto. intros id K. eapply H2; eauto.
  - now rewrite I1.
Qed.

(** * what one operation does to the nodes, the argument edges and the package table *)
Definition DeltaA (s s' : gstate) : Prop :=
  (forall m a b, get_node s m = Some a -> get_node s' m = Some b -> nrel3 a b) /\
  (forall e i, ek e = EArg i -> In e (edges s') -> In e (edges s)) /\
  pkgs s' = pkgs s.

Lemma DeltaA_eq s s' : nodes s' = nodes s -> edges s' = edges s -> pkgs s' = pkgs s -> DeltaA s s'.
Proof.
  intros Hn He Hp. split; [|split; auto].
  - intros m a b G1 G2. unfold get_node in *. rewrite Hn in G2. rewrite G1 in G2. injection G2 as <-. apply nrel3_refl.
  - intros e i _. now rewrite He.
Qed.

Lemma DeltaA_refl s : DeltaA s s.
Proof. now apply DeltaA_eq. Qed.

Lemma DeltaA_set_node s s' n nd nd' :
  get_node s n = Some nd -> nrel3 nd nd' -> nodes s' = set_nth (nodes s) n (Some nd') ->
  (forall e i, ek e = EArg i -> In e (edges s') -> In e (edges s)) -> pkgs s' = pkgs s -> DeltaA s s'.
Proof.
  intros G R Hn He Hp. rewrite get_node_getn in G. split; [|split; auto].
  intros m a b G1 G2. rewrite get_node_getn in *. rewrite Hn in G2. erewrite getn_set_live in G2 by eauto.
  destruct (Nat.eqb_spec m n) as [->|_]; [congruence|]. rewrite G1 in G2. injection G2 as <-. apply nrel3_refl.
Qed.

Lemma DeltaA_add_node u s nd s1 idx s' :
  InvC u s -> add_node s nd = (s1, idx) -> nodes s' = nodes s1 ->
  (forall e i, ek e = EArg i -> In e (edges s') -> In e (edges s)) -> pkgs s' = pkgs s -> DeltaA s s'.
Proof.
  intros HI A Hn He Hp. apply add_node_spec in A as ([Fd Fu] & _); [|apply HI]. split; [|split; auto].
  intros m a b G1 G2. rewrite get_node_getn in *. rewrite Hn, Fu in G2.
  destruct (Nat.eqb_spec m idx) as [->|_]; [congruence|]. rewrite G1 in G2. injection G2 as <-. apply nrel3_refl.
Qed.

Lemma import_deltaA u s nm k : InvC u s -> DeltaA s (fst (import_ u s nm k)).
Proof.
  intros HI. unfold import_. destruct (nth_error (u_lkinds u) k); [|apply DeltaA_refl].
  destruct (alist_get N.eqb (imports s) nm); [apply DeltaA_refl|]. destruct (negb _); [apply DeltaA_refl|].
  destruct (add_node s _) as [s1 idx] eqn:A. cbn [fst].
  pose proof (add_node_spec _ _ _ _ (ic_free _ _ HI) A) as (_ & _ & E1 & _ & _ & _ & E5 & _).
  eapply DeltaA_add_node; [exact HI|exact A|reflexivity| |exact E5].
  intros e i _. cbn. now rewrite E1.
Qed.

Lemma instantiate_deltaA u s id : InvC u s -> DeltaA s (fst (instantiate u s id)).
Proof.
  intros HI. unfold instantiate. destruct (pkg_desc u s id) as [pd|]; [|apply DeltaA_refl].
  destruct (add_node s _) as [s1 idx] eqn:A. cbn [fst].
  pose proof (add_node_spec _ _ _ _ (ic_free _ _ HI) A) as (_ & _ & E1 & _ & _ & _ & E5 & _).
  eapply DeltaA_add_node; [exact HI|exact A|reflexivity| |exact E5].
  intros e i _. now rewrite E1.
Qed.

Lemma alias_deltaA u s n e : InvC u s -> DeltaA s (fst (alias u s n e)).
Proof.
  intros HI. unfold alias. destruct (get_node s n) as [nd|] eqn:G; [|apply DeltaA_refl].
  destruct (u_inst_exports u (nitem nd)) as [ex|]; [|apply DeltaA_refl].
  destruct (get_full ex e 0) as [[index kind]|]; [|apply DeltaA_refl].
  destruct (find _ (outgoing s n)); [apply DeltaA_refl|].
  destruct (add_node s _) as [s1 idx] eqn:A. cbn [fst].
  pose proof (add_node_spec _ _ _ _ (ic_free _ _ HI) A) as (_ & _ & E1 & _ & _ & _ & E5 & _).
  eapply DeltaA_add_node; [exact HI|exact A|reflexivity| |exact E5].
  cbn. intros x i Kx [<-|H]; [discriminate|]. now rewrite <- E1.
Qed.

Lemma set_name_deltaA s n nm : DeltaA s (fst (set_name s n nm)).
Proof.
  unfold set_name, update_node. destruct (get_node s n) as [nd|] eqn:G; [|apply DeltaA_refl]. cbn [fst].
  eapply DeltaA_set_node; [exact G| |reflexivity|intros e0 i _ H; exact H|reflexivity]. repeat split. apply kclass_refl.
Qed.

Lemma export_deltaA u s n e : DeltaA s (fst (export_ u s n e)).
Proof.
  unfold export_, update_node. destruct (alist_get N.eqb (exports s) e); [apply DeltaA_refl|].
  destruct (negb _); [apply DeltaA_refl|]. destruct (get_node s n) as [nd|] eqn:G; [|apply DeltaA_refl]. cbn [fst].
  eapply DeltaA_set_node; [exact G| |reflexivity|intros e0 i _ H; exact H|reflexivity]. repeat split. apply kclass_refl.
Qed.

Lemma unexport_deltaA s n : DeltaA s (fst (unexport s n)).
Proof.
  unfold unexport. destruct (get_node s n) as [nd|] eqn:G; [|apply DeltaA_refl].
  destruct (nk nd) eqn:K; [apply DeltaA_refl| | |];
    (match goal with |- context [match ?x with inl _ => _ | inr _ => _ end] => destruct x end;
     [|apply DeltaA_refl]; cbn [fst];
     eapply DeltaA_set_node; [exact G| |reflexivity|intros e0 i _ H; exact H|reflexivity];
     repeat split; cbn; rewrite K; apply kclass_refl).
Qed.

Lemma unset_arg_deltaA u s inst a arg : DeltaA s (fst (unset_arg u s inst a arg)).
Proof.
  unfold unset_arg. destruct (get_node s inst) as [nd|] eqn:G; [|apply DeltaA_refl].
  destruct (nk nd) eqn:K; try apply DeltaA_refl. destruct (inst_imports u s nd); [|apply DeltaA_refl].
  destruct (get_full l a 0) as [[index expected]|]; [|apply DeltaA_refl].
  destruct (scan_connecting _ index); try apply DeltaA_refl.
  destruct (remove_satisfied s inst index) as [s1|] eqn:RS; [|apply DeltaA_refl].
  apply remove_satisfied_inv in RS as [x [st [G' [K' ->]]]]. cbn [fst]. rewrite G in G'. injection G' as <-.
  eapply DeltaA_set_node; [exact G| |reflexivity| |reflexivity].
  - repeat split. cbn. now rewrite K'.
  - intros e i _. cbn. apply remove_first_In.
Qed.

Lemma define_type_deltaA u s nm t : InvC u s -> DeltaA s (fst (define_type u s nm t)).
Proof.
  intros HI. unfold define_type. destruct (nth_error (u_tys u) t) as [td|]; [|apply DeltaA_refl].
  destruct (existsb (fun p => fst p =? t) (defined s)); [apply DeltaA_refl|]. destruct (td_res td); [apply DeltaA_refl|].
  destruct (existsb (fun p => N.eqb (fst p) nm) (exports s)); [apply DeltaA_refl|].
  destruct (negb (u_import_name_ok u nm)); [apply DeltaA_refl|].
  destruct (add_node s _) as [s1 idx] eqn:A. cbn [fst].
  pose proof (add_node_spec _ _ _ _ (ic_free _ _ HI) A) as (_ & _ & E1 & _ & _ & _ & E5 & _).
  set (Q := fun s' : gstate => nodes s' = nodes s1 /\ pkgs s' = pkgs s1 /\
                               forall e i, ek e = EArg i -> In e (edges s') -> In e (edges s1)).
  assert (Qadd : forall s' a b, Q s' -> Q (add_edge s' {| esrc := a; etgt := b; ek := EDep |})).
  { intros s' a b (Q1 & Q2 & Q3). split; [exact Q1|split; [exact Q2|]]. intros e i Ke. cbn.
    intros [<-|H]; [discriminate|eauto]. }
  assert (Q1 : Q s1) by (split; [reflexivity|split; [reflexivity|tauto]]).
  match goal with |- DeltaA s (with_maps ?s3 _ _ _) => assert (Q3 : Q s3) end.
  { apply fold_left_ind.
    - intros a0 [ot on] _ Qa. cbn [fst snd]. destruct (nth_error (u_tys u) ot); auto.
      apply fold_left_ind; auto. intros b d _ Qb. destruct ((d =? t) && _); auto.
    - apply fold_left_ind; auto. intros a0 d _ Qa. destruct (d =? t); auto.
      destruct (alist_get Nat.eqb (defined a0) d); auto. destruct (has_dep_edge a0 n idx); auto. }
  destruct Q3 as (Q3n & Q3p & Q3e). eapply DeltaA_add_node; [exact HI|exact A|exact Q3n| |cbn; congruence].
  cbn. intros e i Ke H. rewrite <- E1. eauto.
Qed.

Lemma Args_delta u s s' : ArgsChecked u s -> DeltaA s s' -> InvC u s' -> ArgsChecked u s'.
Proof.
  intros A (D1 & D2 & D3) HI e i He K. change (ArgOK u s' e i).
  destruct (eo_live _ _ (ic_edge _ _ HI) e He) as [L1 L2]. rewrite <- live_liveb in L1, L2.
  eapply ArgOK_transport with (s := s); auto.
  - apply (A e i); eauto.
  - intros m a b id _ _ _. unfold get_pkg. now rewrite D3.
Qed.

(** * register: the slot of a live package is neither the appended nor a free slot *)
Lemma register_args u s p : InvC u s -> ArgsChecked u s -> ArgsChecked u (fst (register u s p)).
Proof.
  intros HI HA. pose proof (register_inv u s p HI) as I'. revert I'.
  assert (Hgen : forall s', nodes s' = nodes s -> edges s' = edges s ->
            (forall n nd id, getn (nodes s) n = Some nd -> npkg nd = Some id -> get_pkg s' id = get_pkg s id) ->
            InvC u s' -> ArgsChecked u s').
  { intros s' Hn He Hp I' e i Hi K. change (ArgOK u s' e i).
    destruct (eo_live _ _ (ic_edge _ _ I') e Hi) as [L1 L2]. rewrite <- live_liveb in L1, L2.
    rewrite He in Hi. eapply ArgOK_transport with (s := s); auto.
    - apply (HA e i); auto.
    - intros m a b G1 G2. unfold get_node in *. rewrite Hn, G1 in G2. injection G2 as <-. apply nrel3_refl.
    - intros m a b id G1 _ P. eapply Hp; eauto. }
  unfold register. destruct (find_pkg_slot s p); [intros _; exact HA|].
  pose proof (ic_pkg _ _ HI) as [A B Fr N]. destruct (free_pkgs s) as [|i fp] eqn:Fp.
  - cbn [fst]. apply Hgen; try reflexivity.
    intros n nd id G K. destruct (A n nd id G K) as [q Q]. rewrite !get_pkg_l_eq. cbn [with_pkgs pkgs].
    rewrite Q. now apply get_pkg_l_app.
  - destruct (nth_error (pkgs s) i) as [sl|] eqn:Sl; [|intros _; exact HA].
    cbn [fst]. apply Hgen; try reflexivity.
    destruct (Fr i (or_introl eq_refl)) as [sl' [Sl' Nn]]. rewrite Sl in Sl'. injection Sl' as <-.
    intros n nd id G K. destruct (A n nd id G K) as [q Q]. rewrite !get_pkg_l_eq. cbn [with_pkgs pkgs].
    apply get_pkg_l_set_other.
    intros Ei. unfold get_pkg_l in Q. rewrite Ei, Sl, Nn in Q. destruct (ps_gen sl =? snd id); discriminate.
Qed.

(** * unregister: two live package ids with the same slot are equal *)
Lemma get_pkg_slot_inj s id1 id2 p1 p2 :
  get_pkg s id1 = Some p1 -> get_pkg s id2 = Some p2 -> fst id1 = fst id2 -> id1 = id2.
Proof.
  unfold get_pkg. intros H1 H2 E. rewrite <- E in H2. destruct (nth_error (pkgs s) (fst id1)) as [sl|]; [|discriminate].
  destruct (Nat.eqb_spec (ps_gen sl) (snd id1)) as [E1|_]; [|discriminate].
  destruct (Nat.eqb_spec (ps_gen sl) (snd id2)) as [E2|_]; [|discriminate].
  destruct id1, id2; cbn in *; congruence.
Qed.

Lemma unregister_unit_pkg s id s' : unregister s id = (s', OUnit) -> exists p, get_pkg s id = Some p.
Proof.
  unfold unregister, get_pkg. destruct (nth_error (pkgs s) (fst id)) as [sl|]; [|discriminate].
  destruct (ps_gen sl =? snd id); cbn [negb]; [|discriminate].
  destruct (negb _); [discriminate|]. destruct (remove_satisfied_all _ _); [|discriminate].
  destruct (ps_pkg sl); [eauto|discriminate].
Qed.

Lemma unregister_args u s id : InvC u s -> ArgsChecked u s -> ArgsChecked u (fst (unregister s id)).
Proof.
  intros HI HA. destruct (unregister s id) as [s' o] eqn:R. cbn [fst].
  assert (Hs : o <> OUnit -> s' = s).
  { revert R. unfold unregister. destruct (nth_error (pkgs s) (fst id)) as [sl|]; [|now intros [= <- <-]].
    destruct (negb (ps_gen sl =? snd id)); [now intros [= <- <-]|]. destruct (negb _); [now intros [= <- <-]|].
    destruct (remove_satisfied_all _ _); [|now intros [= <- <-]]. destruct (ps_pkg sl); [|now intros [= <- <-]].
    intros [= <- <-] H. now contradiction H. }
  destruct o; try (rewrite Hs by discriminate; exact HA).
  pose proof (unregister_inv u s id HI) as I'. rewrite R in I'. cbn [fst] in I'.
  destruct (unregister_frame s id s' R) as (F1 & F2 & F3 & _ & _ & _ & F7).
  destruct (unregister_unit_pkg s id s' R) as [p0 P0].
  intros e i He K. change (ArgOK u s' e i).
  destruct (eo_live _ _ (ic_edge _ _ I') e He) as [L1 L2]. rewrite <- live_liveb in L1, L2.
  apply F3 in He as (He & _ & _).
  eapply ArgOK_transport with (s := s); auto.
  - apply (HA e i); auto.
  - intros m a b G1 G2. assert (L : live s' m = true) by (unfold live; now rewrite G2).
    specialize (F2 m L). rewrite G1, G2 in F2. cbn in F2. destruct F2 as (A1 & A2 & _ & _ & A5). repeat split; auto.
  - intros m a b id' G1 G2 P. assert (L : live s' m = true) by (unfold live; now rewrite G2).
    apply F1 in L as [_ Np]. apply F7. intros E.
    destruct (po_live _ _ _ _ (ic_pkg _ _ HI) m a id' G1 P) as [q Q].
    assert (id' = id) by (eapply get_pkg_slot_inj; eauto). subst id'.
    assert (node_pkg_is s id m = true) by (apply node_pkg_is_true; eauto). congruence.
Qed.

(** * set_arg: the one new edge passed the oracle *)
Lemma set_arg_args u s inst a arg : InvC u s -> ArgsChecked u s -> ArgsChecked u (fst (set_arg u s inst a arg)).
Proof.
  intros HI HA. pose proof (set_arg_inv u s inst a arg HI) as I'. revert I'.
  unfold set_arg. destruct (get_node s inst) as [nd|] eqn:G; [|intros _; exact HA].
  destruct (nk nd) eqn:K; try (intros _; exact HA).
  destruct (inst_imports u s nd) as [imps|] eqn:II; [|intros _; exact HA].
  destruct (get_full imps a 0) as [[index expected]|] eqn:Gf; [|intros _; exact HA].
  destruct (scan_incoming _ index arg); try (intros _; exact HA).
  destruct (get_node s arg) as [an|] eqn:Ga; [|intros _; exact HA].
  destruct (u_sub u (nitem an) expected) eqn:Sub; cbn [negb]; [|intros _; exact HA].
  destruct (add_satisfied _ inst index) as [[s2|]|] eqn:AS; try (intros _; exact HA). cbn [fst].
  unfold add_satisfied in AS. change (get_node (add_edge s _) inst) with (get_node s inst) in AS.
  rewrite G, K in AS. destruct (existsb _ sat); [discriminate|]. injection AS as <-. intros I'.
  match goal with |- ArgsChecked u (set_node ?s1 inst (Some ?x)) => set (nd' := x) in *; set (s2 := set_node s1 inst (Some x)) in * end.
  assert (Hg : forall m, get_node s2 m = if m =? inst then Some nd' else get_node s m).
  { intros m. rewrite !get_node_getn. unfold s2. cbn [set_node add_edge nodes].
    rewrite get_node_getn in G. now erewrite getn_set_live by eauto. }
  assert (Hrel : forall m a0 b, get_node s m = Some a0 -> get_node s2 m = Some b -> nrel3 a0 b).
  { intros m a0 b G1 G2. rewrite Hg in G2. destruct (Nat.eqb_spec m inst) as [->|_].
    - injection G2 as <-. rewrite G in G1. injection G1 as <-. repeat split. cbn. now rewrite K.
    - rewrite G1 in G2. injection G2 as <-. apply nrel3_refl. }
  intros e i He Ke. change (ArgOK u s2 e i).
  destruct (eo_live _ _ (ic_edge _ _ I') e He) as [L1 L2]. rewrite <- live_liveb in L1, L2.
  unfold s2 in He. cbn [set_node add_edge edges] in He. destruct He as [<-|He].
  - cbn [ek] in Ke. injection Ke as <-. unfold ArgOK. cbn [esrc etgt].
    apply get_full_nth in Gf as [_ Gf]. rewrite Nat.sub_0_r in Gf.
    assert (IIs : inst_imports u s2 nd' = Some imps).
    { rewrite <- II. apply inst_imports_eq; reflexivity. }
    destruct (Nat.eqb_spec arg inst) as [->|Hne].
    + rewrite G in Ga. injection Ga as <-.
      exists nd', nd', imps, a, expected. rewrite !Hg, Nat.eqb_refl. repeat split; auto.
    + exists an, nd', imps, a, expected. rewrite !Hg, Nat.eqb_refl. apply Nat.eqb_neq in Hne. rewrite Hne.
      repeat split; auto.
  - eapply ArgOK_transport with (s := s); auto. apply (HA e i); auto.
Qed.

(** * remove_node: the frame *)
Lemma remove_node_args u s n : Inv u s -> ArgsChecked u s -> ArgsChecked u (fst (remove_node s n)).
Proof.
  intros HI HA. destruct (remove_node s n) as [s' o] eqn:R. cbn [fst].
  assert (Hs : o <> OUnit -> s' = s).
  { revert R. unfold remove_node. destruct (remove_node_rec _ s n); intros [= <- <-]; [intros H; now contradiction H|reflexivity]. }
  destruct o; try (rewrite Hs by discriminate; exact HA).
  destruct (remove_frame u s n s' HI R) as [_ F2 F3 _ _ _ F7].
  intros e i He K. change (ArgOK u s' e i). apply F3 in He as (He & L1 & L2).
  eapply ArgOK_transport with (s := s); auto.
  - apply (HA e i); auto.
  - intros m a b G1 G2. assert (L : live s' m = true) by (unfold live; now rewrite G2).
    specialize (F2 m L). rewrite G1, G2 in F2. cbn in F2. destruct F2 as (A1 & A2 & _ & _ & A5). repeat split; auto.
  - intros m a b id _ _ _. unfold get_pkg. now rewrite F7.
Qed.

(** * all operations, all histories *)
Lemma step_args_checked : forall u s o, Inv u s -> ArgsChecked u s -> ArgsChecked u (fst (step u s o)).
Proof.
  intros u s o HI HA. pose proof HI as HC. apply Inv_iff in HC.
  pose proof (step_invC u s o HC) as I'. destruct o; cbn [step] in *.
  - now apply register_args.
  - now apply unregister_args.
  - eapply Args_delta; eauto using define_type_deltaA.
  - eapply Args_delta; eauto using import_deltaA.
  - eapply Args_delta; eauto using instantiate_deltaA.
  - eapply Args_delta; eauto using alias_deltaA.
  - now apply set_arg_args.
  - eapply Args_delta; eauto using unset_arg_deltaA.
  - eapply Args_delta; eauto using export_deltaA.
  - eapply Args_delta; eauto using unexport_deltaA.
  - eapply Args_delta; eauto using set_name_deltaA.
  - now apply remove_node_args.
Qed.

Lemma reach_inv_args_checked u ops : Inv u (run u ops) /\ ArgsChecked u (run u ops).
Proof.
  unfold run.
  assert (H0 : Inv u empty_graph /\ ArgsChecked u empty_graph) by (split; [apply inv_empty|apply args_checked_empty]).
  revert H0. generalize empty_graph. induction ops as [|o ops IH]; intros s [H1 H2]; cbn; auto.
  apply IH. split; [now apply step_inv|now apply step_args_checked].
Qed.

Lemma reach_args_checked : forall u ops, ArgsChecked u (run u ops).
Proof. intros u ops. apply reach_inv_args_checked. Qed.

(** corollary used by C01: the index of an argument edge is in range *)
Lemma arg_index_in_range : forall u s e i tn imps,
  ArgsChecked u s -> In e (edges s) -> ek e = EArg i -> get_node s (etgt e) = Some tn ->
  inst_imports u s tn = Some imps -> i < length imps.
Proof.
  intros u s e i tn imps A He K G II.
  destruct (A e i He K) as (sn & tn' & imps' & nm & k & _ & G2 & II' & N & _).
  rewrite G in G2. injection G2 as <-. rewrite II in II'. injection II' as <-.
  apply nth_error_Some. congruence.
Qed.
