(** Merging FLAT instance requirements: interfaces without identifier and without uses whose exports are
    functions, values and value types over resource-free types.  One [merge_interface] step yields the union of the
    export names in first-seen order, keeps the tree of every export already present, and offers every export of the
    contributor with the contributor's tree. *)
From Coq Require Import ZArith ZifyBool ZifyN Lia.
From WacV Require Import Str Names Types Checker SubSpec CheckerEq CheckerValue CheckerProofs.
From WacV Require Import Aggregator AggregatorSpec AggregatorFrame AggregatorRemap AggregatorChecker AggregatorNames.

(** * Leaf kinds denote the same tree in every collection in which they denote at all *)
Lemma res_name_tag g t r n : res_name_of g t r = Some n -> id_tag r = t_tag t.
Proof.
  destruct g as [|g]; [discriminate|]. cbn [res_name_of]. destruct (get_res t r) eqn:E; [|discriminate].
  intros _. unfold get_res in E. now apply lookup_tag in E.
Qed.
Lemma Unf_indep t1 t2 v a b : (t_tag t1 = t_tag t2 -> t1 = t2) -> Unf t1 v a -> Unf t2 v b -> a = b.
Proof.
  intros HS [g1 H1] [g2 H2]. destruct g1 as [|g1]; [discriminate|]. destruct g2 as [|g2]; [discriminate|].
  assert (X : t_tag t1 = t_tag t2 -> a = b).
  { intros E. rewrite <- (HS E) in H2. eapply Unf_det; eexists; eauto. }
  pose proof H1 as H1'. pose proof H2 as H2'. rewrite unfold_vt_eq in H1', H2'. destruct v as [p|r|r|d]; cbn [unfold_vt_body] in H1', H2'.
  - congruence.
  - destruct (res_name_of (S g1) t1 r) eqn:E1; [|discriminate]. destruct (res_name_of (S g2) t2 r) eqn:E2; [|discriminate].
    apply res_name_tag in E1, E2. apply X. congruence.
  - destruct (res_name_of (S g1) t1 r) eqn:E1; [|discriminate]. destruct (res_name_of (S g2) t2 r) eqn:E2; [|discriminate].
    apply res_name_tag in E1, E2. apply X. congruence.
  - destruct (get_def t1 d) eqn:E1; [|discriminate]. destruct (get_def t2 d) eqn:E2; [|discriminate].
    unfold get_def in E1, E2. apply lookup_tag in E1, E2. apply X. congruence.
Qed.
Lemma UnfF_indep t1 t2 i a b : (t_tag t1 = t_tag t2 -> t1 = t2) -> UnfF t1 i a -> UnfF t2 i b -> a = b.
Proof.
  intros HS [g1 H1] [g2 H2].
  assert (E : t_tag t1 = t_tag t2).
  { unfold unfold_func in H1, H2. destruct (get_func t1 i) eqn:E1; [|discriminate]. destruct (get_func t2 i) eqn:E2; [|discriminate].
    unfold get_func in E1, E2. apply lookup_tag in E1, E2. congruence. }
  rewrite <- (HS E) in H2.
  apply (unfold_func_mono g1 (Nat.max g1 g2)) in H1; [|apply Nat.le_max_l].
  apply (unfold_func_mono g2 (Nat.max g1 g2)) in H2; [|apply Nat.le_max_r]. congruence.
Qed.
Lemma UnfK_leaf_indep t1 t2 k a b : (t_tag t1 = t_tag t2 -> t1 = t2) -> leafk k = true -> UnfK t1 k a -> UnfK t2 k b -> a = b.
Proof.
  intros HS L H1 H2. apply (UnfK_leaf_inv _ _ _ L) in H1. apply (UnfK_leaf_inv _ _ _ L) in H2.
  destruct k as [[| |v| | |]|i| | | |v]; try discriminate L.
  - destruct H1 as [x [-> H1]], H2 as [y [-> H2]]. f_equal. eapply Unf_indep; eauto.
  - destruct H1 as [x [-> H1]], H2 as [y [-> H2]]. f_equal. eapply UnfF_indep; eauto.
  - destruct H1 as [x [-> H1]], H2 as [y [-> H2]]. f_equal. eapply Unf_indep; eauto.
Qed.
Lemma UnfK_leaf_ext t t' k tr : ext t t' -> leafk k = true -> UnfK t k tr -> UnfK t' k tr.
Proof.
  intros E L [g H]. exists g. destruct g as [|g]; [discriminate|]. cbn [unfold] in *.
  destruct k as [[| |v| | |]|i| | | |v]; try discriminate L.
  - destruct (unfold_vt (S g) t v) eqn:X; [|discriminate]. now rewrite (unfold_vt_ext _ _ E _ _ _ X).
  - destruct (unfold_func (S g) t i) eqn:X; [|discriminate]. now rewrite (unfold_func_ext _ _ E _ _ _ X).
  - destruct (unfold_vt (S g) t v) eqn:X; [|discriminate]. now rewrite (unfold_vt_ext _ _ E _ _ _ X).
Qed.

(** * Interface arena *)
Lemma set_nth_length {A} n (x : A) l : length (set_nth n x l) = length l.
Proof. revert n. induction l as [|y l IH]; intros [|n]; cbn [set_nth length]; auto. Qed.
Lemma nth_set_nth_same {A} n (x : A) l y : nth_error l n = Some y -> nth_error (set_nth n x l) n = Some x.
Proof. revert n. induction l as [|z l IH]; intros [|n]; cbn [set_nth nth_error]; try discriminate; auto. Qed.
Lemma nth_set_nth_other {A} n m (x : A) l : n <> m -> nth_error (set_nth n x l) m = nth_error l m.
Proof. revert n m. induction l as [|z l IH]; intros [|n] [|m] N; cbn [set_nth nth_error]; auto; try congruence. Qed.

Definition flat_exports (T : types) (e : list (str * kind)) : Prop :=
  NoDup (map fst e) /\ forall n k, In (n, k) e -> leafk k = true /\ exists tr, UnfK T k tr /\ resfree tr = true.
Definition flat_if (T : types) (x : Types.interface) : Prop := i_uses x = [] /\ flat_exports T (i_exports x).

Lemma flat_exports_ext T T' e : ext T T' -> flat_exports T e -> flat_exports T' e.
Proof.
  intros E [ND H]. split; auto. intros n k Hin. destruct (H n k Hin) as [L [tr [U R]]]. split; auto.
  exists tr. split; auto. eapply UnfK_leaf_ext; eauto.
Qed.

Section Flat.
  Variable ord : list (str * id) -> list (str * id).
  Variable cf : nat.
  Variable Col : types -> Prop.
  Hypothesis Col_same : forall t1 t2, Col t1 -> Col t2 -> t_tag t1 = t_tag t2 -> t1 = t2.
  Variable tag0 : N.
  Hypothesis Col_tag : forall t, Col t -> t_tag t <> tag0.

  (** [k] denotes [tr] in the aggregator's collection or in a contributor's *)
  Definition KT (c : core) (k : kind) (tr : tree) : Prop := UnfK (c_types c) k tr \/ exists t, Col t /\ UnfK t k tr.
  Definition CacheInv (c : core) : Prop :=
    forall a b, In (a, b) (cache (c_chk c)) -> leafk a = true /\ leafk b = true /\ exists tr, KT c a tr /\ KT c b tr.
  Record MInv (c : core) : Prop := {
    mi_tag : t_tag (c_types c) = tag0;
    mi_rinv : RInv Col c;
    mi_cache : CacheInv c }.

  Lemma KT_det c k a b : t_tag (c_types c) = tag0 -> leafk k = true -> KT c k a -> KT c k b -> a = b.
  Proof.
    intros T L [H1|[t1 [C1 H1]]] [H2|[t2 [C2 H2]]].
    - eapply UnfK_leaf_indep; eauto.
    - eapply UnfK_leaf_indep; [| |exact H1|exact H2]; auto. intros E. exfalso. apply (Col_tag _ C2). congruence.
    - eapply UnfK_leaf_indep; [| |exact H1|exact H2]; auto. intros E. exfalso. apply (Col_tag _ C1). congruence.
    - eapply UnfK_leaf_indep; [| |exact H1|exact H2]; auto.
  Qed.
  Lemma KT_ext c c' k tr : ext (c_types c) (c_types c') -> leafk k = true -> KT c k tr -> KT c' k tr.
  Proof. intros E L [H|H]; [left; eapply UnfK_leaf_ext; eauto | right; exact H]. Qed.
  Lemma CacheInv_ext c c' : ext (c_types c) (c_types c') -> c_chk c' = c_chk c -> CacheInv c -> CacheInv c'.
  Proof.
    intros E Ec I a b Hin. rewrite Ec in Hin. destruct (I a b Hin) as [La [Lb [tr [Ha Hb]]]].
    repeat split; auto. exists tr. split; eapply KT_ext; eauto.
  Qed.

  (** ** One subtype check on leaf kinds with the shared memo *)
  Lemma cache_mem_in p c0 : cache_mem p c0 = true -> In p c0.
  Proof.
    unfold cache_mem. rewrite existsb_exists. intros [[a b] [Hin E]]. unfold pair_eqb in E. cbn [fst snd] in E.
    apply andb_true_iff in E as [E1 E2]. apply kindeqb_eq in E1, E2. destruct p. cbn [fst snd] in *. now subst.
  Qed.

  Lemma is_subtype_leaf s at_ a bt b r s' ta tb :
    (t_tag at_ = t_tag bt -> at_ = bt) -> leafk a = true -> leafk b = true -> UnfK at_ a ta -> UnfK bt b tb ->
    (forall x y, In (x, y) (cache s) -> x = a -> y = b -> ta = tb) ->
    is_subtype cf s at_ a bt b = (r, s') ->
    ks s' = ks s /\ (cache s' = cache s \/ (cache s' = (a, b) :: cache s /\ r = Ok tt)) /\ (r = Ok tt -> ta = tb).
  Proof.
    intros HS La Lb Ha Hb Hc H. destruct cf as [|f]; cbn [is_subtype] in H.
    - injection H as <- <-. repeat split; auto. discriminate.
    - destruct (cache_mem (a, b) (cache s)) eqn:Em.
      + injection H as <- <-. repeat split; auto. intros _. apply cache_mem_in in Em. eapply Hc; eauto.
      + destruct (is_subtype_ (is_subtype f) (S f) s at_ a bt b) as [r0 s0] eqn:E0.
        assert (Hs0 : s0 = s).
        { unfold is_subtype_ in E0.
          destruct a as [[| |va| | |]|ia| | | |va]; try discriminate La; destruct b as [[| |vb| | |]|ib| | | |vb]; try discriminate Lb;
            cbn [ty_ lift] in E0; injection E0 as _ <-; reflexivity. }
        subst s0. destruct r0 as [[]| | |].
        * injection H as <- <-. cbn [ks cache]. repeat split; auto.
          intros _. exact (proj1 (leaf_step_sound at_ bt HS _ _ _ _ _ _ _ _ La Lb E0 Ha Hb)).
        * injection H as <- <-. repeat split; auto. discriminate.
        * injection H as <- <-. repeat split; auto. discriminate.
        * injection H as <- <-. repeat split; auto. discriminate.
  Qed.

  (** foreign [sk] against the aggregator's [tk] *)
  Lemma sub_fa_leaf t c sk tk r c' ts tg :
    Col t -> MInv c -> leafk sk = true -> leafk tk = true -> UnfK t sk ts -> UnfK (c_types c) tk tg ->
    sub_fa cf t sk tk c = AOk (r, c') ->
    c' = with_chk c (c_chk c') /\ MInv c' /\ (is_ok r = true -> ts = tg).
  Proof.
    intros Ct I Ls Lt Hs Ht H. unfold sub_fa in H.
    destruct (is_subtype cf (c_chk c) t sk (c_types c) tk) as [r0 s0] eqn:E. injection H as <- <-.
    cbn [c_chk with_chk].
    assert (HS : t_tag t = t_tag (c_types c) -> t = c_types c).
    { intros X. exfalso. apply (Col_tag _ Ct). rewrite X. apply (mi_tag _ I). }
    assert (Hcache : forall x y, In (x, y) (cache (c_chk c)) -> x = sk -> y = tk -> ts = tg).
    { intros x y Hin -> ->. destruct (mi_cache _ I _ _ Hin) as [_ [_ [tr [K1 K2]]]].
      rewrite (KT_det c sk ts tr (mi_tag _ I) Ls (or_intror (ex_intro _ t (conj Ct Hs))) K1).
      rewrite (KT_det c tk tg tr (mi_tag _ I) Lt (or_introl Ht) K2). reflexivity. }
    destruct (is_subtype_leaf _ _ _ _ _ _ _ ts tg HS Ls Lt Hs Ht Hcache E) as [Hk [Hc Hr]].
    split; [reflexivity|]. split.
    - split; cbn [c_types c_remapped c_chk with_chk]; [apply (mi_tag _ I) | apply (mi_rinv _ I) |].
      intros a b Hin. cbn [c_chk with_chk] in Hin.
      destruct Hc as [Hc|[Hc Hok]]; rewrite Hc in Hin.
      + apply (mi_cache _ I _ _ Hin).
      + destruct Hin as [X|Hin]; [|apply (mi_cache _ I _ _ Hin)]. injection X as <- <-.
        repeat split; auto. exists ts. split; [right; eauto | left; rewrite (Hr Hok); exact Ht].
    - destruct r0 as [[]| | |]; cbn [is_ok]; try discriminate. intros _. now apply Hr.
  Qed.

  (** the aggregator's [tk] against foreign [sk] *)
  Lemma sub_af_leaf t c sk tk r c' ts tg :
    Col t -> MInv c -> leafk sk = true -> leafk tk = true -> UnfK t sk ts -> UnfK (c_types c) tk tg ->
    sub_af cf t tk sk c = AOk (r, c') ->
    c' = with_chk c (c_chk c') /\ MInv c' /\ (is_ok r = true -> ts = tg).
  Proof.
    intros Ct I Ls Lt Hs Ht H. unfold sub_af in H.
    destruct (is_subtype cf (c_chk c) (c_types c) tk t sk) as [r0 s0] eqn:E. injection H as <- <-.
    cbn [c_chk with_chk].
    assert (HS : t_tag (c_types c) = t_tag t -> c_types c = t).
    { intros X. exfalso. apply (Col_tag _ Ct). rewrite <- X. apply (mi_tag _ I). }
    assert (Hcache : forall x y, In (x, y) (cache (c_chk c)) -> x = tk -> y = sk -> tg = ts).
    { intros x y Hin -> ->. destruct (mi_cache _ I _ _ Hin) as [_ [_ [tr [K1 K2]]]].
      rewrite (KT_det c tk tg tr (mi_tag _ I) Lt (or_introl Ht) K1).
      rewrite (KT_det c sk ts tr (mi_tag _ I) Ls (or_intror (ex_intro _ t (conj Ct Hs))) K2). reflexivity. }
    destruct (is_subtype_leaf _ _ _ _ _ _ _ tg ts HS Lt Ls Ht Hs Hcache E) as [Hk [Hc Hr]].
    split; [reflexivity|]. split.
    - split; cbn [c_types c_remapped c_chk with_chk]; [apply (mi_tag _ I) | apply (mi_rinv _ I) |].
      intros a b Hin. cbn [c_chk with_chk] in Hin.
      destruct Hc as [Hc|[Hc Hok]]; rewrite Hc in Hin.
      + apply (mi_cache _ I _ _ Hin).
      + destruct Hin as [X|Hin]; [|apply (mi_cache _ I _ _ Hin)]. injection X as <- <-.
        repeat split; auto. exists ts. split; [left; rewrite <- (Hr Hok); exact Ht | right; eauto].
    - destruct r0 as [[]| | |]; cbn [is_ok]; try discriminate. intros _. symmetry. now apply Hr.
  Qed.

  (** ** State updates *)
  Lemma in_ins {V} n k name (v : V) l : In (n, k) (ins name v l) -> (n = name /\ k = v) \/ In (n, k) l.
  Proof.
    induction l as [|[k' v'] l IH]; cbn [ins].
    - intros [E|[]]. injection E as <- <-. auto.
    - destruct (str_eqb name k') eqn:E.
      + apply SemverProofs.str_eqb_eq in E. subst k'. intros [X|X]; [injection X as <- <-; auto | right; now right].
      + intros [X|X]; [right; now left|]. destruct (IH X) as [Y|Y]; auto. right. now right.
  Qed.
  Lemma nodup_keys_ins {V} name (v : V) l : NoDup (map fst l) -> NoDup (map fst (ins name v l)).
  Proof.
    intros ND. destruct (assoc name l) eqn:E.
    - now rewrite (keys_ins_old _ _ _ _ E).
    - rewrite (keys_ins_new _ _ _ E). apply NoDup_app_one_tail; auto. now apply assoc_none_keys.
  Qed.

  Lemma RInv_set c k k' : RInv Col c -> entry_ok Col (c_types c) k k' -> RInv Col (with_remapped c (rm_ins k k' (c_remapped c))).
  Proof.
    intros I He x y Hx. cbn [c_remapped c_types with_remapped] in *. destruct (ty_eqb k x) eqn:E.
    - apply tyeqb_eq in E. subst x. rewrite rm_get_ins_same in Hx. injection Hx as <-. exact He.
    - rewrite rm_get_ins_other in Hx; [now apply I|]. intro X. apply tyeqb_eq in X. congruence.
  Qed.

  (** the entry recorded after an accepted check of two leaf kinds with equal trees *)
  Lemma entry_ok_leaf t agg sk tk tr :
    Col t -> leafk sk = true -> leafk tk = true -> UnfK t sk tr -> UnfK agg tk tr -> entry_ok Col agg (ty_of sk) (ty_of tk).
  Proof.
    intros Ct Ls Lt Hs Ht. apply (UnfK_leaf_inv _ _ _ Ls) in Hs. apply (UnfK_leaf_inv _ _ _ Lt) in Ht.
    assert (Hsame : forall t2, Col t2 -> t_tag t2 = t_tag t -> t2 = t) by (intros; now apply Col_same).
    destruct sk as [[| |vs| | |]|fs| | | |vs]; try discriminate Ls; cbn [ty_of entry_ok].
    - destruct vs as [p|r|r|d]; auto. destruct Hs as [a [-> Hs]]. intros v' Ev t2 g tr2 Ct2 Hu.
      destruct tk as [[| |vt| | |]|ft| | | |vt]; try discriminate Lt; cbn [ty_of] in Ev; try discriminate Ev;
        destruct Ht as [b [Eb Ht]]; try discriminate Eb. injection Ev as <-. injection Eb as <-.
      assert (t2 = t) as ->.
      { apply Hsame; auto. destruct g as [|g]; [discriminate|]. rewrite unfold_vt_eq in Hu. cbn [unfold_vt_body] in Hu.
        destruct (get_def t2 d) eqn:E2; [|discriminate]. unfold get_def in E2. apply lookup_tag in E2.
        destruct Hs as [g1 Hs]. destruct g1 as [|g1]; [discriminate|]. rewrite unfold_vt_eq in Hs. cbn [unfold_vt_body] in Hs.
        destruct (get_def t d) eqn:E1; [|discriminate]. unfold get_def in E1. apply lookup_tag in E1. congruence. }
      assert (tr2 = a) as -> by (eapply Unf_det; [eexists; eauto | exact Hs]). exact Ht.
    - destruct Hs as [a [-> Hs]]. intros f' Ev t2 g ft2 Ct2 Hu.
      destruct tk as [[| |vt| | |]|ft| | | |vt]; try discriminate Lt; cbn [ty_of] in Ev; try discriminate Ev;
        destruct Ht as [b [Eb Ht]]; try discriminate Eb. injection Ev as <-. injection Eb as <-.
      assert (t2 = t) as ->.
      { apply Hsame; auto. unfold unfold_func in Hu. destruct (get_func t2 fs) eqn:E2; [|discriminate].
        unfold get_func in E2. apply lookup_tag in E2. destruct Hs as [g1 Hs]. unfold unfold_func in Hs.
        destruct (get_func t fs) eqn:E1; [|discriminate]. unfold get_func in E1. apply lookup_tag in E1. congruence. }
      assert (ft2 = a) as -> by (eapply UnfF_indep; [| eexists; eauto | exact Hs]; auto). exact Ht.
    - destruct vs as [p|r|r|d]; auto. destruct Hs as [a [-> Hs]]. intros v' Ev t2 g tr2 Ct2 Hu.
      destruct tk as [[| |vt| | |]|ft| | | |vt]; try discriminate Lt; cbn [ty_of] in Ev; try discriminate Ev;
        destruct Ht as [b [Eb Ht]]; try discriminate Eb. injection Ev as <-. injection Eb as <-.
      assert (t2 = t) as ->.
      { apply Hsame; auto. destruct g as [|g]; [discriminate|]. rewrite unfold_vt_eq in Hu. cbn [unfold_vt_body] in Hu.
        destruct (get_def t2 d) eqn:E2; [|discriminate]. unfold get_def in E2. apply lookup_tag in E2.
        destruct Hs as [g1 Hs]. destruct g1 as [|g1]; [discriminate|]. rewrite unfold_vt_eq in Hs. cbn [unfold_vt_body] in Hs.
        destruct (get_def t d) eqn:E1; [|discriminate]. unfold get_def in E1. apply lookup_tag in E1. congruence. }
      assert (tr2 = a) as -> by (eapply Unf_det; [eexists; eauto | exact Hs]). exact Ht.
  Qed.

  Lemma MInv_ext c c' : MInv c -> Ext c c' -> RInv Col c' -> MInv c'.
  Proof.
    intros I E R. split; auto.
    - rewrite (ext_tag _ _ (x_types _ _ E)). apply (mi_tag _ I).
    - eapply CacheInv_ext; [apply E | apply E | apply (mi_cache _ I)].
  Qed.

  (** [upd_if] on an interface of the aggregator *)
  Lemma upd_if_ok existing f c c' x :
    get_if (c_types c) existing = Some x -> upd_if existing f c = AOk (tt, c') ->
    c' = with_types c (t_with_interfaces (c_types c) (set_nth (id_idx existing) (f x) (t_interfaces (c_types c)))).
  Proof.
    intros Hg H. unfold upd_if in H. apply bindM_ok in H as [y [c1 [H1 H]]]. unfold agg_if in H1. rewrite Hg in H1.
    cbn [idxM] in H1. apply ret_ok in H1 as [-> ->]. now injection H as <-.
  Qed.
  Lemma get_if_upd_same T existing y x :
    get_if T existing = Some x ->
    get_if (t_with_interfaces T (set_nth (id_idx existing) y (t_interfaces T))) existing = Some y.
  Proof.
    unfold get_if, lookup. cbn [t_tag t_interfaces t_with_interfaces]. destruct (id_tag existing =? t_tag T); [|discriminate].
    apply nth_set_nth_same.
  Qed.
  Lemma get_if_upd_other T existing y j :
    id_idx j <> id_idx existing ->
    get_if (t_with_interfaces T (set_nth (id_idx existing) y (t_interfaces T))) j = get_if T j.
  Proof.
    intros N. unfold get_if, lookup. cbn [t_tag t_interfaces t_with_interfaces]. destruct (id_tag j =? t_tag T); auto.
    apply nth_set_nth_other. congruence.
  Qed.
  Lemma ext_upd_if T l : ext T (t_with_interfaces T l).
  Proof. split; cbn; auto using prefix_refl. Qed.

  (** ** The body of the export loop of [merge_interface] *)
  Definition merge_export_body (f : nat) (existing : id) (t : types) (nk : str * kind) : M unit :=
    let '(name, sk) := nk in
    ex <-- agg_if existing ;;;
    let do_remap : M unit :=
        k' <-- remap_item_kind ord cf f t sk ;;; upd_if existing (if_set_export name k') in
    match assoc name (i_exports ex) with
    | Some tk =>
      match nested_pair tk sk existing with
      | Some (target_id, source_id) =>
        merge_interface ord cf f target_id t source_id ;;; remapped_set (ty_of sk) (ty_of tk)
      | None =>
        r1 <-- sub_fa cf t sk tk ;;;
        if is_ok r1 then
          if replaceable (ty_of sk) (ty_of tk) then remapped_set (ty_of sk) (ty_of tk) else ret tt
        else r2 <-- sub_af cf t tk sk ;;; must AEMismatchExport r2 ;;; do_remap
      end
    | None => do_remap
    end.
  Lemma nested_pair_leaf tk sk e : leafk sk = true -> nested_pair tk sk e = None.
  Proof. destruct sk as [[| | | | |]| | | | |]; try discriminate; destruct tk; reflexivity. Qed.
  Lemma merge_interface_S f existing t i :
    merge_interface ord cf (S f) existing t i =
    (merge_interface_used_types ord cf f existing t i ;;;
     src <-- idxM (get_if t i) ;;; forM (merge_export_body f existing t) (i_exports src)).
  Proof. reflexivity. Qed.

  (** what the loop maintains about the interface being merged into *)
  Record LoopSt (existing : id) (c : core) (oid : option str) (exs : list (str * kind)) : Prop := {
    ls_inv : MInv c;
    ls_get : get_if (c_types c) existing = Some (mkif oid [] exs);
    ls_flat : flat_exports (c_types c) exs }.

  (** what one iteration / the whole loop leaves alone *)
  Record Frame (existing : id) (c c' : core) : Prop := {
    fr_ext : ext (c_types c) (c_types c');
    fr_imports : c_imports c' = c_imports c;
    fr_ifaces : c_ifaces c' = c_ifaces c;
    fr_len : length (t_interfaces (c_types c')) = length (t_interfaces (c_types c));
    fr_other : forall j, id_idx j <> id_idx existing -> get_if (c_types c') j = get_if (c_types c) j;
    fr_noif : forall i, rm_get (TInterface i) (c_remapped c') = rm_get (TInterface i) (c_remapped c) }.
  Lemma Frame_refl e c : Frame e c c. Proof. split; auto using ext_refl. Qed.
  Lemma Frame_trans e a b c : Frame e a b -> Frame e b c -> Frame e a c.
  Proof.
    intros [A1 A2 A3 A4 A5 A6] [B1 B2 B3 B4 B5 B6]. split; eauto using ext_trans; try congruence.
    intros j N. rewrite B5, A5; auto.
  Qed.
  Lemma Frame_of_Ext e c c' : Ext c c' -> Frame e c c'.
  Proof.
    intros E. split; try apply E.
    - now rewrite (x_if _ _ E).
    - intros j N. unfold get_if. now rewrite (x_if _ _ E), (ext_tag _ _ (x_types _ _ E)).
  Qed.

  Lemma do_remap_step f existing t name sk ts c c' oid exs :
    Col t -> leafk sk = true -> UnfK t sk ts -> resfree ts = true -> LoopSt existing c oid exs ->
    (k' <-- remap_item_kind ord cf f t sk ;;; upd_if existing (if_set_export name k')) c = AOk (tt, c') ->
    exists k', LoopSt existing c' oid (ins name k' exs) /\ Frame existing c c' /\ UnfK (c_types c') k' ts /\ leafk k' = true.
  Proof.
    intros Ct Ls Hs Hr [I Hg Hf] H. apply bindM_ok in H as [k' [c1 [H1 H2]]].
    destruct (leaf_sound ord cf Col Col_same t Ct f sk ts c k' c1 Ls (mi_rinv _ I) Hs Hr H1) as [U1 [E1 [R1 L1]]].
    assert (Hg1 : get_if (c_types c1) existing = Some (mkif oid [] exs)).
    { unfold get_if. rewrite (x_if _ _ E1), (ext_tag _ _ (x_types _ _ E1)). exact Hg. }
    rewrite (upd_if_ok _ _ _ _ _ Hg1 H2). cbn [if_set_export i_id i_uses i_exports].
    set (T1 := c_types c1). set (T2 := t_with_interfaces T1 (set_nth (id_idx existing) (mkif oid [] (ins name k' exs)) (t_interfaces T1))).
    assert (E2 : ext T1 T2) by apply ext_upd_if.
    pose proof (MInv_ext _ _ I E1 R1) as I1.
    exists k'. split; [split|split; [|split]].
    - split; cbn [c_types c_remapped c_chk with_types].
      + apply (mi_tag _ I1).
      + intros x y Hx. eapply entry_ok_ext; [exact E2|]. now apply (mi_rinv _ I1).
      + eapply (CacheInv_ext c1); [exact E2 | reflexivity | apply (mi_cache _ I1)].
    - cbn [c_types with_types]. now apply (get_if_upd_same T1 _ _ _ Hg1).
    - cbn [c_types with_types]. destruct Hf as [ND Hall]. split; [now apply nodup_keys_ins|].
      intros n k Hin. apply in_ins in Hin as [[-> ->]|Hin].
      + split; auto. exists ts. split; auto. eapply UnfK_leaf_ext; eauto.
      + destruct (Hall n k Hin) as [L [tr [U R]]]. split; auto. exists tr. split; auto.
        eapply UnfK_leaf_ext; [exact E2|auto|]. eapply UnfK_leaf_ext; [apply E1|auto|exact U].
    - eapply Frame_trans; [apply Frame_of_Ext; exact E1|]. split; cbn [c_types c_imports c_ifaces c_remapped with_types]; auto.
      + cbn [t_interfaces t_with_interfaces T2]. apply set_nth_length.
      + intros j N. now apply get_if_upd_other.
    - cbn [c_types with_types]. eapply UnfK_leaf_ext; eauto.
    - exact L1.
  Qed.

  Lemma LoopSt_chk e c s oid exs : MInv (with_chk c s) -> LoopSt e c oid exs -> LoopSt e (with_chk c s) oid exs.
  Proof. intros I [_ Hg Hf]. split; auto. Qed.
  Lemma Frame_chk e c s : Frame e c (with_chk c s).
  Proof. split; cbn [c_types c_imports c_ifaces c_remapped with_chk]; auto using ext_refl. Qed.

  Lemma UnfK_same_agg T k a b : leafk k = true -> UnfK T k a -> UnfK T k b -> a = b.
  Proof. intros L. apply UnfK_leaf_indep; auto. Qed.

  Lemma merge_body_step f existing t name sk ts c c' oid exs :
    Col t -> leafk sk = true -> UnfK t sk ts -> resfree ts = true -> LoopSt existing c oid exs ->
    merge_export_body f existing t (name, sk) c = AOk (tt, c') ->
    exists exs', LoopSt existing c' oid exs' /\ Frame existing c c' /\
      map fst exs' = (if has_key name exs then map fst exs else map fst exs ++ [name]) /\
      (exists k', assoc name exs' = Some k' /\ UnfK (c_types c') k' ts) /\
      (forall n k tr, assoc n exs = Some k -> UnfK (c_types c) k tr ->
                      exists k', assoc n exs' = Some k' /\ UnfK (c_types c') k' tr) /\
      (forall n k' tr, assoc n exs' = Some k' -> UnfK (c_types c') k' tr ->
                       (exists k, assoc n exs = Some k /\ UnfK (c_types c) k tr) \/ (n = name /\ tr = ts)).
  Proof.
    intros Ct Ls Hs Hr L H. unfold merge_export_body in H.
    assert (Hback : forall c2 n k tr, ext (c_types c) (c_types c2) -> assoc n exs = Some k -> UnfK (c_types c2) k tr ->
                                      UnfK (c_types c) k tr).
    { intros c2 n k tr E Hn Hu. destruct (ls_flat _ _ _ _ L) as [_ Hall].
      destruct (Hall n k (assoc_in _ _ _ Hn)) as [Lk [tr0 [U0 _]]].
      assert (tr = tr0) as -> by (eapply UnfK_same_agg; [exact Lk|exact Hu|]; eapply UnfK_leaf_ext; eauto). exact U0. }
    apply bindM_ok in H as [ex [c0 [H0 H]]]. unfold agg_if in H0. rewrite (ls_get _ _ _ _ L) in H0. cbn [idxM] in H0.
    apply ret_ok in H0 as [-> ->]. cbn [i_exports] in H. unfold has_key.
    destruct (assoc name exs) as [tk|] eqn:Ea.
    - (* the export exists already *)
      destruct (ls_flat _ _ _ _ L) as [ND Hall]. destruct (Hall name tk (assoc_in _ _ _ Ea)) as [Lt [tg [Ht Rt]]].
      rewrite (nested_pair_leaf tk sk existing Ls) in H.
      apply bindM_ok in H as [r1 [c1 [H1 H]]].
      destruct (sub_fa_leaf t c sk tk r1 c1 ts tg Ct (ls_inv _ _ _ _ L) Ls Lt Hs Ht H1) as [Ec1 [I1 Ok1]].
      destruct (is_ok r1) eqn:Er1.
      + (* source <: target accepted: nothing changes but the remap table *)
        specialize (Ok1 eq_refl). subst tg.
        assert (Tc1 : c_types c1 = c_types c) by (rewrite Ec1; reflexivity).
        assert (Hset : exists rm, c' = with_remapped c1 rm /\ RInv Col (with_remapped c1 rm) /\
                                  forall i0, rm_get (TInterface i0) rm = rm_get (TInterface i0) (c_remapped c1)).
        { destruct (replaceable (ty_of sk) (ty_of tk)).
          - unfold remapped_set in H. injection H as <-. eexists. split; [reflexivity|]. split.
            + apply RInv_set; [apply (mi_rinv _ I1)|]. rewrite Tc1. eapply entry_ok_leaf; eauto.
            + intros i0. rewrite rm_get_ins_other; auto.
              destruct sk as [[| |v| | |]|fi| | | |v]; try discriminate Ls; discriminate.
          - apply ret_ok in H as [_ ->]. exists (c_remapped c1). split; [destruct c1; reflexivity|]. split; auto.
            intros k0 k1 Hk. apply (mi_rinv _ I1 k0 k1 Hk). }
        destruct Hset as [rm [-> [HR Hnoif]]].
        exists exs. split; [|split; [|split; [|split; [|split]]]].
        * split; cbn [c_types with_remapped].
          -- split; cbn [c_types c_remapped c_chk with_remapped]; [apply (mi_tag _ I1) | exact HR | apply (mi_cache _ I1)].
          -- rewrite Tc1. apply (ls_get _ _ _ _ L).
          -- rewrite Tc1. apply (ls_flat _ _ _ _ L).
        * split; cbn [c_types c_imports c_ifaces c_remapped with_remapped]; rewrite ?Tc1; auto using ext_refl;
            try (rewrite Ec1; reflexivity).
          intros i0. rewrite Hnoif. rewrite Ec1. reflexivity.
        * reflexivity.
        * exists tk. split; auto. cbn [c_types with_remapped]. now rewrite Tc1.
        * intros n k tr Hn Hu. exists k. split; auto. cbn [c_types with_remapped]. now rewrite Tc1.
        * intros n k0 tr Hn Hu. left. exists k0. split; auto. cbn [c_types with_remapped] in Hu. now rewrite Tc1 in Hu.
      + (* otherwise the target must be a subtype of the source; the source is copied and replaces the export *)
        apply bindM_ok in H as [r2 [c2 [H2 H]]]. apply bindM_ok in H as [u [c3 [H3 H]]].
        assert (Tc1 : c_types c1 = c_types c) by (rewrite Ec1; reflexivity).
        assert (L1 : LoopSt existing c1 oid exs) by (rewrite Ec1 in *; now apply LoopSt_chk).
        rewrite <- Tc1 in Ht.
        destruct (sub_af_leaf t c1 sk tk r2 c2 ts tg Ct I1 Ls Lt Hs Ht H2) as [Ec2 [I2 Ok2]].
        destruct r2 as [[]| | |]; cbn [must] in H3; try discriminate. apply ret_ok in H3 as [_ ->].
        specialize (Ok2 eq_refl). subst tg.
        assert (Tc2 : c_types c2 = c_types c) by (rewrite Ec2, <- Tc1; reflexivity).
        assert (L2 : LoopSt existing c2 oid exs) by (rewrite Ec2 in *; now apply LoopSt_chk).
        destruct (do_remap_step f existing t name sk ts c2 c' oid exs Ct Ls Hs Hr L2 H) as [k' [L3 [F3 [U3 Lk]]]].
        exists (ins name k' exs). split; [exact L3|]. split; [|split; [|split; [|split]]].
        * eapply Frame_trans; [|exact F3]. rewrite Ec2. eapply Frame_trans; [|apply Frame_chk]. rewrite Ec1. apply Frame_chk.
        * apply (keys_ins_old _ _ _ _ Ea).
        * exists k'. split; auto. apply assoc_ins_same.
        * intros n k tr Hn Hu. destruct (str_eqb name n) eqn:En.
          -- apply SemverProofs.str_eqb_eq in En. subst n. exists k'. split; [apply assoc_ins_same|].
             assert (k = tk) by congruence. subst k. rewrite Tc1 in Ht.
             now rewrite (UnfK_same_agg _ _ _ _ Lt Hu Ht).
          -- exists k. split; [rewrite assoc_ins_other; auto; now apply SemverProofs.str_eqb_neq|].
             destruct (Hall n k (assoc_in _ _ _ Hn)) as [Lk' _].
             eapply UnfK_leaf_ext; [apply F3|auto|]. now rewrite Tc2.
        * intros n k0 tr Hn Hu. destruct (str_eqb name n) eqn:En.
          -- apply SemverProofs.str_eqb_eq in En. subst n. right. split; auto. rewrite assoc_ins_same in Hn. injection Hn as <-.
             eapply UnfK_same_agg; eauto.
          -- left. rewrite assoc_ins_other in Hn by (now apply SemverProofs.str_eqb_neq). exists k0. split; auto.
             apply (Hback c' n k0 tr); auto. rewrite <- Tc2. apply F3.
    - (* a new export *)
      destruct (do_remap_step f existing t name sk ts c c' oid exs Ct Ls Hs Hr L H) as [k' [L3 [F3 [U3 Lk]]]].
      exists (ins name k' exs). split; [exact L3|]. split; [exact F3|]. split; [|split; [|split]].
      + apply (keys_ins_new _ _ _ Ea).
      + exists k'. split; auto. apply assoc_ins_same.
      + intros n k tr Hn Hu. exists k. split.
        * rewrite assoc_ins_other; auto. intros ->. congruence.
        * destruct (ls_flat _ _ _ _ L) as [_ Hall]. destruct (Hall n k (assoc_in _ _ _ Hn)) as [Lk' _].
          eapply UnfK_leaf_ext; [apply F3|auto|exact Hu].
      + intros n k0 tr Hn Hu. destruct (str_eqb name n) eqn:En.
        * apply SemverProofs.str_eqb_eq in En. subst n. right. split; auto. rewrite assoc_ins_same in Hn. injection Hn as <-.
          eapply UnfK_same_agg; eauto.
        * left. rewrite assoc_ins_other in Hn by (now apply SemverProofs.str_eqb_neq). exists k0. split; auto.
          apply (Hback c' n k0 tr); auto. apply F3.
  Qed.

  (** first-seen union, stepwise *)
  Lemma fsu_nil a : first_seen_union a [] = a.
  Proof. unfold first_seen_union. cbn. now rewrite app_nil_r. Qed.
  Lemma existsb_str_in k a : existsb (str_eqb k) a = true <-> In k a.
  Proof.
    rewrite existsb_exists. split.
    - intros [x [Hin E]]. apply SemverProofs.str_eqb_eq in E. now subst.
    - intros H. exists k. split; auto. apply SemverProofs.str_eqb_refl.
  Qed.
  Lemma fsu_cons_old a n r : In n a -> first_seen_union a (n :: r) = first_seen_union a r.
  Proof. intros H. unfold first_seen_union. cbn [filter]. apply existsb_str_in in H. now rewrite H. Qed.
  Lemma fsu_cons_new a n r : ~ In n a -> ~ In n r -> first_seen_union a (n :: r) = first_seen_union (a ++ [n]) r.
  Proof.
    intros Ha Hr. unfold first_seen_union. cbn [filter].
    assert (existsb (str_eqb n) a = false) as ->.
    { destruct (existsb (str_eqb n) a) eqn:E; auto. apply existsb_str_in in E. contradiction. }
    cbn [negb]. rewrite <- app_assoc. cbn [app]. f_equal. f_equal. apply filter_ext_in. intros k Hk.
    rewrite existsb_app. cbn [existsb]. rewrite orb_false_r.
    destruct (str_eqb k n) eqn:E; [|now rewrite orb_false_r].
    apply SemverProofs.str_eqb_eq in E. subst k. contradiction.
  Qed.

  Lemma has_key_in {V} n (l : list (str * V)) : has_key n l = true <-> In n (map fst l).
  Proof.
    unfold has_key. destruct (assoc n l) eqn:E.
    - split; auto. intros _. eapply assoc_in_keys; eauto.
    - split; [discriminate|]. intros H. apply assoc_none_keys in E. contradiction.
  Qed.

  (** the whole export loop *)
  Lemma merge_loop f existing t oid : forall rest c c' exs,
    Col t -> NoDup (map fst rest) ->
    (forall n k, In (n, k) rest -> leafk k = true /\ exists tr, UnfK t k tr /\ resfree tr = true) ->
    LoopSt existing c oid exs -> forM (merge_export_body f existing t) rest c = AOk (tt, c') ->
    exists exs', LoopSt existing c' oid exs' /\ Frame existing c c' /\
      map fst exs' = first_seen_union (map fst exs) (map fst rest) /\
      (forall n k tr, In (n, k) rest -> UnfK t k tr -> exists k', assoc n exs' = Some k' /\ UnfK (c_types c') k' tr) /\
      (forall n k tr, assoc n exs = Some k -> UnfK (c_types c) k tr ->
                      exists k', assoc n exs' = Some k' /\ UnfK (c_types c') k' tr) /\
      (forall n k' tr, assoc n exs' = Some k' -> UnfK (c_types c') k' tr ->
                       (exists k, assoc n exs = Some k /\ UnfK (c_types c) k tr) \/
                       (exists ek, In (n, ek) rest /\ UnfK t ek tr)).
  Proof.
    induction rest as [|[name sk] rest IH]; intros c c' exs Ct ND Hall L H; cbn [forM] in H.
    - apply ret_ok in H as [_ ->]. exists exs. split; auto. split; [apply Frame_refl|]. split; [now rewrite fsu_nil|].
      split; [intros n k tr []|]. split; [intros n k tr Hn Hu; eauto|]. intros n k tr Hn Hu. left. eauto.
    - apply bindM_ok in H as [[] [c1 [H1 H]]]. cbn [map fst] in ND. inversion ND as [|? ? Hnin ND']; subst.
      destruct (Hall name sk (or_introl eq_refl)) as [Ls [ts [Hs Hr]]].
      destruct (merge_body_step f existing t name sk ts c c1 oid exs Ct Ls Hs Hr L H1) as [exs1 [L1 [F1 [K1 [[k1 [A1 U1]] [Old1 Conv1]]]]]].
      destruct (IH c1 c' exs1 Ct ND' (fun n k Hin => Hall n k (or_intror Hin)) L1 H) as [exs2 [L2 [F2 [K2 [New2 [Old2 Conv2]]]]]].
      exists exs2. split; auto. split; [eapply Frame_trans; eauto|]. split; [|split; [|split]].
      + rewrite K2, K1. cbn [map fst]. destruct (has_key name exs) eqn:Eh.
        * apply has_key_in in Eh. now rewrite fsu_cons_old.
        * rewrite fsu_cons_new; auto. intros X. apply has_key_in in X. congruence.
      + intros n k tr [E|Hin] Hu.
        * injection E as <- <-. assert (tr = ts) as -> by (eapply UnfK_leaf_indep; [| |exact Hu|exact Hs]; auto).
          apply (Old2 _ _ _ A1 U1).
        * now apply (New2 n k tr).
      + intros n k tr Hn Hu. destruct (Old1 n k tr Hn Hu) as [k' [A' U']]. apply (Old2 _ _ _ A' U').
      + intros n k' tr Hn Hu. destruct (Conv2 n k' tr Hn Hu) as [[k1' [A' U']]|[ek [Hin Hek]]].
        * destruct (Conv1 n k1' tr A' U') as [X|[-> ->]]; [now left|]. right. exists sk. split; [now left|exact Hs].
        * right. exists ek. split; [now right|exact Hek].
  Qed.

  (** ** [merge_interface] of a flat requirement into a flat interface of the aggregator *)
  Lemma merge_interface_flat F existing t i x c c' oid exs :
    Col t -> get_if t i = Some x -> flat_if t x -> LoopSt existing c oid exs ->
    merge_interface ord cf F existing t i c = AOk (tt, c') ->
    exists exs', LoopSt existing c' oid exs' /\ Frame existing c c' /\
      map fst exs' = first_seen_union (map fst exs) (map fst (i_exports x)) /\
      (forall n k tr, In (n, k) (i_exports x) -> UnfK t k tr -> exists k', assoc n exs' = Some k' /\ UnfK (c_types c') k' tr) /\
      (forall n k tr, assoc n exs = Some k -> UnfK (c_types c) k tr ->
                      exists k', assoc n exs' = Some k' /\ UnfK (c_types c') k' tr) /\
      (forall n k' tr, assoc n exs' = Some k' -> UnfK (c_types c') k' tr ->
                       (exists k, assoc n exs = Some k /\ UnfK (c_types c) k tr) \/
                       (exists ek, In (n, ek) (i_exports x) /\ UnfK t ek tr)).
  Proof.
    intros Ct Hg [Hu [ND Hall]] L H. destruct F as [|f]; [discriminate|]. rewrite merge_interface_S in H.
    apply bindM_ok in H as [[] [c1 [H1 H]]].
    assert (c1 = c) as ->.
    { destruct f as [|f]; [discriminate|]. cbn [merge_interface_used_types] in H1.
      apply bindM_ok in H1 as [src [c0 [H0 H1]]]. rewrite Hg in H0. cbn [idxM] in H0. apply ret_ok in H0 as [-> ->].
      rewrite Hu in H1. cbn [forM] in H1. now apply ret_ok in H1 as [_ ->]. }
    apply bindM_ok in H as [src [c0 [H0 H]]]. rewrite Hg in H0. cbn [idxM] in H0. apply ret_ok in H0 as [-> ->].
    eapply merge_loop; eauto.
  Qed.

  (** ** Copying a flat requirement into a new interface *)
  Lemma copy_exports f t : forall l c es c',
    Col t -> MInv c ->
    (forall n k, In (n, k) l -> leafk k = true /\ exists tr, UnfK t k tr /\ resfree tr = true) ->
    mapM (fun nk : str * kind => k' <-- remap_item_kind ord cf f t (snd nk) ;;; ret (fst nk, k')) l c = AOk (es, c') ->
    MInv c' /\ Ext c c' /\ map fst es = map fst l /\
    (forall n k', In (n, k') es -> leafk k' = true /\ exists tr, UnfK (c_types c') k' tr /\ resfree tr = true) /\
    (forall n k tr, In (n, k) l -> UnfK t k tr -> exists k', In (n, k') es /\ UnfK (c_types c') k' tr) /\
    (forall n k', In (n, k') es -> exists k tr, In (n, k) l /\ UnfK t k tr /\ UnfK (c_types c') k' tr).
  Proof.
    induction l as [|[n k] l IH]; intros c es c' Ct I Hall H; cbn [mapM] in H.
    - apply ret_ok in H as [-> ->]. split; auto. split; [apply Ext_refl|]. split; auto. split; [intros ? ? []|]. split; [intros ? ? ? []|intros ? ? []].
    - apply bindM_ok in H as [y [c1 [H1 H]]]. apply bindM_ok in H as [ys [c2 [H2 H]]]. apply ret_ok in H as [-> ->].
      apply bindM_ok in H1 as [k' [c0 [H0 H1]]]. apply ret_ok in H1 as [-> ->]. cbn [fst snd] in *.
      destruct (Hall n k (or_introl eq_refl)) as [Lk [tr [Hu Hr]]].
      destruct (leaf_sound ord cf Col Col_same t Ct f k tr c k' c0 Lk (mi_rinv _ I) Hu Hr H0) as [U1 [E1 [R1 L1]]].
      pose proof (MInv_ext _ _ I E1 R1) as I1.
      destruct (IH c0 ys c2 Ct I1 (fun n0 k0 Hin => Hall n0 k0 (or_intror Hin)) H2) as [I2 [E2 [K2 [F2 [N2 P2]]]]].
      split; auto. split; [eapply Ext_trans; eauto|]. split; [cbn [map fst]; now rewrite K2|]. split; [|split].
      + intros n0 k0 [X|Hin]; [|now apply (F2 n0 k0)]. injection X as <- <-. split; auto. exists tr. split; auto.
        eapply UnfK_leaf_ext; [apply E2|auto|exact U1].
      + intros n0 k0 tr0 [X|Hin] Hu0.
        * injection X as <- <-. exists k'. split; [now left|].
          assert (tr0 = tr) as -> by (eapply UnfK_leaf_indep; [| |exact Hu0|exact Hu]; auto).
          eapply UnfK_leaf_ext; [apply E2|auto|exact U1].
        * destruct (N2 n0 k0 tr0 Hin Hu0) as [k1 [X Y]]. exists k1. split; [now right|auto].
      + intros n0 k0 [X|Hin].
        * injection X as <- <-. exists k, tr. split; [now left|]. split; auto. eapply UnfK_leaf_ext; [apply E2|auto|exact U1].
        * destruct (P2 n0 k0 Hin) as [k1 [tr1 [X [Y Z]]]]. exists k1, tr1. split; [now right|auto].
  Qed.

  Lemma in_assoc_nodup {V} n (v : V) l : NoDup (map fst l) -> In (n, v) l -> assoc n l = Some v.
  Proof. intros ND Hin. now apply in_assoc. Qed.

  Lemma remap_interface_flat F t i x c y c' :
    Col t -> get_if t i = Some x -> flat_if t x -> MInv c ->
    (forall nm, i_id x = Some nm -> rm_get (TInterface i) (c_remapped c) = None) ->
    (forall nm, i_id x = Some nm -> assoc nm (c_ifaces c) = None /\ find_compat nm (ord (c_ifaces c)) = None) ->
    remap_interface ord cf F t i c = AOk (y, c') ->
    exists exs, LoopSt y c' (i_id x) exs /\ id_idx y = length (t_interfaces (c_types c)) /\
      map fst exs = map fst (i_exports x) /\
      (forall n k tr, In (n, k) (i_exports x) -> UnfK t k tr -> exists k', assoc n exs = Some k' /\ UnfK (c_types c') k' tr) /\
      (forall n k' tr, assoc n exs = Some k' -> UnfK (c_types c') k' tr -> exists ek, In (n, ek) (i_exports x) /\ UnfK t ek tr) /\
      ext (c_types c) (c_types c') /\ c_imports c' = c_imports c /\
      c_ifaces c' = match i_id x with Some nm => ins nm y (c_ifaces c) | None => c_ifaces c end /\
      (forall j z, get_if (c_types c) j = Some z -> get_if (c_types c') j = Some z) /\
      (forall i', i' <> i -> rm_get (TInterface i') (c_remapped c') = rm_get (TInterface i') (c_remapped c)) /\
      rm_get (TInterface i) (c_remapped c') =
        match i_id x with Some _ => Some (TInterface y) | None => rm_get (TInterface i) (c_remapped c) end.
  Proof.
    intros Ct Hg [Hu [ND Hall]] I Hnone Hlook H. destruct F as [|f]; [discriminate|]. cbn [remap_interface] in H.
    apply bindM_ok in H as [x0 [c0 [H0 H]]]. rewrite Hg in H0. cbn [idxM] in H0. apply ret_ok in H0 as [-> ->].
    apply bindM_ok in H as [hit [c0 [H0 H]]].
    assert (Hhit : hit = None /\ c0 = c).
    { destruct (i_id x) as [nm|] eqn:Hid.
      - destruct (Hlook nm eq_refl) as [L1 L2]. apply bindM_ok in H0 as [e [c1 [H1 H0]]].
        unfold lookup_iface in H1. rewrite L1, L2 in H1. injection H1 as <- <-. now apply ret_ok in H0 as [-> ->].
      - now apply ret_ok in H0 as [-> ->]. }
    destruct Hhit as [-> ->]. clear H0.
    apply bindM_ok in H as [r [c0 [H0 H]]].
    assert (Hr : r = None /\ c0 = c).
    { destruct (i_id x) as [nm|] eqn:Hid.
      - unfold remapped_get in H0. injection H0 as <- <-. split; auto. exact (Hnone nm eq_refl).
      - now apply ret_ok in H0 as [-> ->]. }
    destruct Hr as [-> ->]. clear H0.
    apply bindM_ok in H as [us [c0 [H0 H]]]. rewrite Hu in H0. cbn [mapM] in H0. apply ret_ok in H0 as [-> ->].
    apply bindM_ok in H as [es [c1 [H1 H]]].
    destruct (copy_exports f t _ _ _ _ Ct I Hall H1) as [I1 [E1 [K1 [F1 [N1 P1]]]]].
    apply bindM_ok in H as [y0 [c2 [H2 H]]]. unfold add_if in H2. injection H2 as <- <-.
    apply bindM_ok in H as [u2 [c4 [H4 H]]]. apply ret_ok in H as [-> ->].
    set (T1 := c_types c1) in *. set (newif := {| i_id := i_id x; i_uses := []; i_exports := es |}) in *.
    set (T2 := t_with_interfaces T1 (t_interfaces T1 ++ [newif])) in *.
    set (ynew := {| id_tag := t_tag T1; id_idx := length (t_interfaces T1) |}) in *.
    set (c3 := with_remapped (with_types c1 T2)
                 (match i_id x with Some _ => rm_ins (TInterface i) (TInterface ynew) (c_remapped c1) | None => c_remapped c1 end)) in *.
    assert (Hc4 : c_types c4 = T2 /\ c_imports c4 = c_imports c1 /\ c_remapped c4 = c_remapped c3 /\ c_chk c4 = c_chk c1 /\
                  c_ifaces c4 = match i_id x with Some nm => ins nm ynew (c_ifaces c) | None => c_ifaces c end).
    { subst c3. destruct (i_id x) as [nm|] eqn:Hid.
      - apply bindM_ok in H4 as [u [c3 [H3 H4]]]. unfold remapped_new in H3. cbn [c_remapped with_types] in H3.
        rewrite (x_noif _ _ E1), (Hnone nm eq_refl) in H3. injection H3 as H3. subst c3.
        unfold iface_new in H4. cbn [c_ifaces with_remapped with_types] in H4. rewrite (x_ifaces _ _ E1) in H4.
        destruct (Hlook nm eq_refl) as [L1 _]. unfold has_key in H4. rewrite L1 in H4. injection H4 as H4. subst c4.
        cbn [c_types c_imports c_remapped c_chk c_ifaces with_ifaces with_remapped with_types]. auto.
      - apply ret_ok in H4 as [_ ->]. cbn [c_types c_imports c_remapped c_chk c_ifaces with_remapped with_types].
        repeat split; auto. apply E1. }
    destruct Hc4 as [Q1 [Q2 [Q3 [Q4 Q5]]]].
    assert (E2 : ext T1 T2) by apply ext_upd_if.
    assert (NDe : NoDup (map fst es)) by now rewrite K1.
    exists es. rewrite Q1, Q2, Q3, Q5.
    split; [split|].
    - split.
      + rewrite Q1. apply (mi_tag _ I1).
      + intros k k' Hk. rewrite Q3 in Hk. rewrite Q1. cbn [c_remapped c3 with_remapped] in Hk.
        destruct (i_id x) as [nm|]; [|eapply entry_ok_ext; [exact E2|]; now apply (mi_rinv _ I1)].
        destruct (ty_eqb (TInterface i) k) eqn:Ek.
        * apply tyeqb_eq in Ek. subst k. cbn [entry_ok]. exact Logic.I.
        * rewrite rm_get_ins_other in Hk; [|intro X; apply tyeqb_eq in X; congruence].
          eapply entry_ok_ext; [exact E2|]. now apply (mi_rinv _ I1).
      + intros a b Hin. rewrite Q4 in Hin. destruct (mi_cache _ I1 a b Hin) as [La [Lb [tr [Ka Kb]]]].
        repeat split; auto. exists tr. unfold KT in *. rewrite Q1.
        split; [destruct Ka as [Ka|Ka]; [left; eapply UnfK_leaf_ext; eauto | now right]
               | destruct Kb as [Kb|Kb]; [left; eapply UnfK_leaf_ext; eauto | now right]].
    - rewrite Q1. unfold get_if. cbn [t_tag t_interfaces t_with_interfaces T2]. apply lookup_new.
    - rewrite Q1. split; auto. intros n k' Hin. destruct (F1 n k' Hin) as [L [tr [U R]]].
      split; auto. exists tr. split; auto. eapply UnfK_leaf_ext; eauto.
    - split; [cbn [id_idx ynew]; unfold T1; now rewrite (x_if _ _ E1)|]. split; [exact K1|].
      split; [|split; [|split; [|split; [|split; [|split; [|split]]]]]].
      + intros n k tr Hin Hu0. destruct (N1 n k tr Hin Hu0) as [k' [X Y]]. exists k'. split; [now apply in_assoc_nodup|].
        eapply UnfK_leaf_ext; [exact E2| |exact Y]. now destruct (F1 n k' X).
      + intros n k' tr Ha Hu0. destruct (P1 n k' (assoc_in _ _ _ Ha)) as [ek [tr1 [X [Y Z]]]]. exists ek. split; auto.
        destruct (F1 n k' (assoc_in _ _ _ Ha)) as [Lk _].
        assert (tr = tr1) as -> by (eapply UnfK_same_agg; [exact Lk|exact Hu0|]; eapply UnfK_leaf_ext; eauto). exact Y.
      + eapply ext_trans; [apply E1|exact E2].
      + apply E1.
      + reflexivity.
      + intros j z Hj. unfold get_if in *. cbn [t_tag t_interfaces t_with_interfaces T2]. unfold T1.
        rewrite (x_if _ _ E1), (ext_tag _ _ (x_types _ _ E1)). eapply lookup_prefix; [apply prefix_app|exact Hj].
      + intros i' N. cbn [c_remapped c3 with_remapped]. destruct (i_id x); [|apply (x_noif _ _ E1)].
        rewrite rm_get_ins_other; [apply (x_noif _ _ E1)|]. congruence.
      + cbn [c_remapped c3 with_remapped]. destruct (i_id x); [apply rm_get_ins_same | apply (x_noif _ _ E1)].
  Qed.
End Flat.
