(** C06: the consistency invariant of the [CompositionGraph] model ([model/Graph.v]) and the basic
    facts about the primitives ([set_nth], [add_node], [drop_node], the association maps ...).
    The invariant is stated on the components of the state, so that an operation which does not touch
    a component keeps the corresponding part by conversion. *)
From Coq Require Import List Arith Bool NArith Lia Permutation.
From WacV Require Import Graph.
Import ListNotations.

(** * generic list facts *)
Lemma nth_error_set_nth {A} (l : list A) n x m :
  nth_error (set_nth l n x) m = if m =? n then (if n <? length l then Some x else None) else nth_error l m.
Proof.
  revert n m. induction l as [|y l IH]; intros n m.
  - destruct n, m; cbn; auto; destruct (m =? n); auto.
  - destruct n, m; cbn; auto. rewrite IH. destruct (m =? n); auto.
Qed.

Lemma length_set_nth {A} (l : list A) n x : length (set_nth l n x) = length l.
Proof. revert n. induction l as [|y l IH]; intros [|n]; cbn; auto. Qed.

Lemma filter_length_split {A} (f g : A -> bool) l :
  length (filter f l) = length (filter (fun x => f x && g x) l) + length (filter (fun x => f x && negb (g x)) l).
Proof.
  induction l as [|x l IH]; cbn; auto.
  destruct (f x), (g x); cbn; lia.
Qed.

Lemma filter_filter {A} (f g : A -> bool) l : filter f (filter g l) = filter (fun x => g x && f x) l.
Proof.
  induction l as [|x l IH]; cbn; auto.
  destruct (g x); cbn; [destruct (f x)|]; rewrite IH; auto.
Qed.

Lemma filter_length_zero {A} (f : A -> bool) l : length (filter f l) = 0 <-> forall x, In x l -> f x = false.
Proof.
  induction l as [|x l IH]; cbn; [tauto|].
  destruct (f x) eqn:E; cbn.
  - split; [lia|]. intros H. specialize (H x (or_introl eq_refl)). congruence.
  - rewrite IH. split; intros H; [intros y [<-|Hy]; auto | intros y Hy; auto].
Qed.

Lemma filter_length_pos {A} (f : A -> bool) l x : In x l -> f x = true -> 1 <= length (filter f l).
Proof.
  intros Hin Hf. destruct (length (filter f l)) eqn:E; [|lia].
  apply filter_length_zero with (x := x) in E; auto. congruence.
Qed.

Lemma existsb_eqb_In (i : nat) l : existsb (Nat.eqb i) l = true <-> In i l.
Proof.
  rewrite existsb_exists. split.
  - intros [x [Hx E]]. apply Nat.eqb_eq in E. now subst.
  - intros H. exists i. split; auto. apply Nat.eqb_refl.
Qed.

Lemma existsb_eqb_notIn (i : nat) l : existsb (Nat.eqb i) l = false <-> ~ In i l.
Proof. rewrite <- existsb_eqb_In. destruct (existsb (Nat.eqb i) l); split; congruence. Qed.

Lemma NoDup_filter' {A} (f : A -> bool) l : NoDup l -> NoDup (filter f l).
Proof.
  induction 1 as [|x l Hn ND IH]; cbn; [constructor|].
  destruct (f x); auto. constructor; auto. rewrite filter_In. tauto.
Qed.

Lemma NoDup_map_filter {A B} (g : A -> B) (f : A -> bool) l : NoDup (map g l) -> NoDup (map g (filter f l)).
Proof.
  induction l as [|x l IH]; cbn; intros ND; [constructor|].
  inversion ND as [|? ? Hn ND']; subst. destruct (f x); cbn; auto.
  constructor; auto. rewrite in_map_iff in *. intros [y [E Hy]]. apply Hn. exists y. split; auto.
  apply filter_In in Hy. tauto.
Qed.

Lemma NoDup_app_single {A} (l : list A) a : NoDup l -> ~ In a l -> NoDup (l ++ [a]).
Proof.
  induction l as [|x l IH]; cbn; intros ND Hn.
  - constructor; auto; constructor.
  - inversion ND as [|? ? Hx ND']; subst. constructor.
    + intros H. apply in_app_or in H as [H|[H|[]]]; [contradiction|]. subst. apply Hn. now left.
    + apply IH; auto.
Qed.

(** * association lists *)
Lemma alist_get_In {B} (l : list (name * B)) k v : alist_get N.eqb l k = Some v -> In (k, v) l.
Proof.
  induction l as [|[k' v'] l IH]; cbn; [discriminate|].
  destruct (N.eqb_spec k' k) as [->|Hne]; [intros [= ->]; auto | auto].
Qed.

Lemma alist_get_None {B} (l : list (name * B)) k : alist_get N.eqb l k = None <-> ~ In k (map fst l).
Proof.
  induction l as [|[k' v'] l IH]; cbn; [tauto|].
  destruct (N.eqb_spec k' k) as [->|Hne].
  - split; [discriminate | intros H; exfalso; apply H; auto].
  - rewrite IH. tauto.
Qed.

Lemma alist_get_nat_In {B} (l : list (nat * B)) k v : alist_get Nat.eqb l k = Some v -> In (k, v) l.
Proof.
  induction l as [|[k' v'] l IH]; cbn; [discriminate|].
  destruct (Nat.eqb_spec k' k) as [->|Hne]; [intros [= ->]; auto | auto].
Qed.

Lemma existsb_key_false {B} (l : list (name * B)) k :
  existsb (fun p => N.eqb (fst p) k) l = false <-> ~ In k (map fst l).
Proof.
  induction l as [|[k' v'] l IH]; cbn; [tauto|].
  destruct (N.eqb_spec k' k) as [->|Hne]; cbn.
  - split; [discriminate | intros H; exfalso; apply H; auto].
  - rewrite IH. tauto.
Qed.

(** [swap_remove]: the result is the list without the first entry of the key, up to order *)
Lemma find_index_split {B} (l : list (name * B)) k i j :
  find_index l k i = Some j ->
  exists a v b, l = a ++ (k, v) :: b /\ j = i + length a.
Proof.
  revert i. induction l as [|[k' v'] l IH]; cbn; intros i; [discriminate|].
  destruct (N.eqb_spec k' k) as [->|Hne].
  - intros [= <-]. exists [], v', l. cbn. split; auto; lia.
  - intros H. apply IH in H as [a [v [b [-> ->]]]]. exists ((k', v') :: a), v, b. cbn. split; auto; lia.
Qed.

Lemma find_index_None {B} (l : list (name * B)) k i : find_index l k i = None <-> ~ In k (map fst l).
Proof.
  revert i. induction l as [|[k' v'] l IH]; cbn; intros i; [tauto|].
  destruct (N.eqb_spec k' k) as [->|Hne].
  - split; [discriminate | intros H; exfalso; apply H; auto].
  - rewrite IH. tauto.
Qed.

Lemma set_nth_app_mid {A} (a : list A) x b y : set_nth (a ++ x :: b) (length a) y = a ++ y :: b.
Proof. induction a as [|z a IH]; cbn; auto. now rewrite IH. Qed.

Lemma removelast_app_single {A} (l : list A) x : removelast (l ++ [x]) = l.
Proof. rewrite removelast_app by discriminate. cbn. apply app_nil_r. Qed.

Lemma swap_remove_perm {B} (l : list (name * B)) k l' :
  swap_remove l k = Some l' -> exists v, Permutation l ((k, v) :: l').
Proof.
  unfold swap_remove. destruct (find_index l k 0) as [i|] eqn:F; [|discriminate].
  apply find_index_split in F as [a [v [b [-> ->]]]]. cbn [Nat.add].
  destruct (rev (a ++ (k, v) :: b)) as [|lastx r] eqn:R; [discriminate|].
  destruct (exists_last (l := (k, v) :: b)) as [b' [z Eb]]; [discriminate|].
  assert (z = lastx) as ->.
  { rewrite Eb in R. rewrite app_assoc, rev_app_distr in R. cbn in R. now injection R. }
  rewrite app_length. cbn [length].
  destruct (length a =? pred (length a + S (length b))) eqn:E.
  - apply Nat.eqb_eq in E. assert (b = []) by (destruct b; cbn in *; [auto|lia]). subst b.
    intros [= <-]. rewrite removelast_app_single. exists v. rewrite Permutation_app_comm. reflexivity.
  - apply Nat.eqb_neq in E. destruct b' as [|y b'].
    { cbn in Eb. injection Eb as E1 E2. subst b. cbn in E. lia. }
    cbn in Eb. injection Eb as E1 E2. subst y b. intros [= <-].
    rewrite set_nth_app_mid.
    replace (a ++ lastx :: b' ++ [lastx]) with ((a ++ lastx :: b') ++ [lastx]) by (now rewrite <- app_assoc).
    rewrite removelast_app_single. exists v.
    apply Permutation_sym. apply Permutation_cons_app.
    apply Permutation_app_head. apply Permutation_cons_append.
Qed.

Lemma swap_remove_Some {B} (l : list (name * B)) k : In k (map fst l) -> swap_remove l k <> None.
Proof.
  intros Hin. unfold swap_remove. destruct (find_index l k 0) as [i|] eqn:F.
  - destruct l as [|x l]; [destruct Hin|].
    destruct (rev (x :: l)) eqn:R.
    + apply (f_equal (@length _)) in R. rewrite rev_length in R. discriminate.
    + destruct (i =? _); discriminate.
  - apply find_index_None in F. contradiction.
Qed.

Lemma swap_remove_In {B} (l : list (name * B)) k l' x : swap_remove l k = Some l' -> In x l' -> In x l.
Proof.
  intros H Hin. apply swap_remove_perm in H as [v P]. eapply Permutation_in; [symmetry; exact P|]. now right.
Qed.

Lemma swap_remove_keep {B} (l : list (name * B)) k l' x :
  swap_remove l k = Some l' -> In x l -> fst x <> k -> In x l'.
Proof.
  intros H Hin Hne. apply swap_remove_perm in H as [v P].
  apply (Permutation_in _ P) in Hin as [E|Hin]; auto. subst x. cbn in Hne. congruence.
Qed.

Lemma swap_remove_NoDup {B} (l : list (name * B)) k l' :
  swap_remove l k = Some l' -> NoDup (map fst l) -> NoDup (map fst l') /\ ~ In k (map fst l').
Proof.
  intros H ND. apply swap_remove_perm in H as [v P].
  apply (Permutation_map fst) in P. apply (Permutation_NoDup P) in ND. cbn in ND.
  inversion ND; subst. auto.
Qed.

(** [shift_remove]: the list without the entry of the key, order kept *)
Lemma filter_keep_all {A} (f : A -> bool) l : (forall x, In x l -> f x = true) -> filter f l = l.
Proof.
  induction l as [|x l IH]; cbn; intros H; auto. rewrite (H x (or_introl eq_refl)). f_equal. apply IH. auto.
Qed.

Lemma shift_remove_filter {B} (l : list (name * B)) k :
  NoDup (map fst l) -> shift_remove l k = filter (fun p => negb (N.eqb (fst p) k)) l.
Proof.
  induction l as [|[k' v] l IH]; cbn; intros ND; auto. inversion ND as [|? ? Hn ND']; subst.
  destruct (N.eqb_spec k' k) as [->|Hne]; cbn.
  - symmetry. apply filter_keep_all. intros [k2 v2] Hin. cbn. apply negb_true_iff. apply N.eqb_neq.
    intros ->. apply Hn. apply (in_map fst) in Hin. exact Hin.
  - now rewrite IH.
Qed.

Lemma shift_remove_In {B} (l : list (name * B)) k x : In x (shift_remove l k) -> In x l.
Proof.
  induction l as [|[k' v] l IH]; cbn; auto. destruct (N.eqb k' k); [auto|]. intros [H|H]; auto.
Qed.

Lemma shift_remove_In_iff {B} (l : list (name * B)) k x :
  NoDup (map fst l) -> In x (shift_remove l k) <-> In x l /\ fst x <> k.
Proof.
  intros ND. rewrite shift_remove_filter by auto. rewrite filter_In, negb_true_iff, N.eqb_neq. reflexivity.
Qed.

Lemma shift_remove_NoDup {B} (l : list (name * B)) k :
  NoDup (map fst l) -> NoDup (map fst (shift_remove l k)) /\ ~ In k (map fst (shift_remove l k)).
Proof.
  intros ND. split.
  - rewrite shift_remove_filter by auto. now apply NoDup_map_filter.
  - intros H. apply in_map_iff in H as [x [E H]]. apply shift_remove_In_iff in H as [_ H]; auto.
Qed.

Lemma shift_remove_absent {B} (l : list (name * B)) k : ~ In k (map fst l) -> shift_remove l k = l.
Proof.
  induction l as [|[k' v] l IH]; cbn; auto. intros H. destruct (N.eqb_spec k' k) as [->|Hne]; [tauto|].
  rewrite IH; auto.
Qed.

(** * nodes *)
Definition getn (ns : list (option node)) (n : nat) : option node :=
  match nth_error ns n with Some (Some nd) => Some nd | _ => None end.
Definition liveb (ns : list (option node)) (n : nat) : bool :=
  match getn ns n with Some _ => true | None => false end.

Lemma get_node_getn s n : get_node s n = getn (nodes s) n.
Proof. reflexivity. Qed.
Lemma live_liveb s n : live s n = liveb (nodes s) n.
Proof. reflexivity. Qed.

Lemma liveb_true ns n : liveb ns n = true <-> exists nd, getn ns n = Some nd.
Proof. unfold liveb. destruct (getn ns n); split; eauto; try discriminate. intros [? ?]; discriminate. Qed.
Lemma liveb_false ns n : liveb ns n = false <-> getn ns n = None.
Proof. unfold liveb. destruct (getn ns n); split; auto; discriminate. Qed.

Lemma getn_lt ns n nd : getn ns n = Some nd -> n < length ns.
Proof. unfold getn. intros H. apply nth_error_Some. destruct (nth_error ns n); congruence. Qed.

Lemma getn_set_nth ns n x m :
  getn (set_nth ns n x) m = if m =? n then (if n <? length ns then x else None) else getn ns m.
Proof.
  unfold getn. rewrite nth_error_set_nth. destruct (m =? n); auto.
  destruct (n <? length ns); auto. destruct x; auto.
Qed.

Lemma getn_set_live ns n nd x m :
  getn ns n = Some nd -> getn (set_nth ns n x) m = if m =? n then x else getn ns m.
Proof.
  intros H. rewrite getn_set_nth. apply getn_lt in H. apply Nat.ltb_lt in H. now rewrite H.
Qed.

Lemma getn_set_none ns n m : getn (set_nth ns n None) m = if m =? n then None else getn ns m.
Proof. rewrite getn_set_nth. destruct (m =? n); auto. destruct (n <? length ns); auto. Qed.

Lemma getn_app_one ns x m : getn (ns ++ [x]) m = if m =? length ns then x else getn ns m.
Proof.
  unfold getn. destruct (Nat.eqb_spec m (length ns)) as [->|Hne].
  - rewrite nth_error_app2, Nat.sub_diag by lia. cbn. destruct x; auto.
  - destruct (Nat.lt_ge_cases m (length ns)).
    + now rewrite nth_error_app1.
    + rewrite nth_error_app2 by lia. destruct (m - length ns) as [|k] eqn:E; [lia|]. cbn.
      assert (nth_error ns m = None) as -> by (apply nth_error_None; lia). now destruct k.
Qed.

Lemma getn_ge ns n : length ns <= n -> getn ns n = None.
Proof. intros H. unfold getn. apply nth_error_None in H. now rewrite H. Qed.

(** relations between two node tables *)
Definition kclass (k k' : nkind) : Prop :=
  match k, k' with NInst _, NInst _ => True | _, _ => k = k' end.

Lemma kclass_refl k : kclass k k.
Proof. destruct k; cbn; auto. Qed.

(** [dropped d P ns ns']: the nodes selected by [d] are gone, the others are related by [P] *)
Definition orel (P : node -> node -> Prop) (a b : option node) : Prop :=
  match a, b with Some x, Some y => P x y | None, None => True | _, _ => False end.
Definition dropped (d : nat -> bool) (P : node -> node -> Prop) (ns ns' : list (option node)) : Prop :=
  forall m, if d m then getn ns' m = None else orel P (getn ns m) (getn ns' m).
Notation nrel P := (dropped (fun _ => false) P).

Lemma orel_impl (P Q : node -> node -> Prop) a b : (forall x y, P x y -> Q x y) -> orel P a b -> orel Q a b.
Proof. destruct a, b; cbn; auto. Qed.
Lemma dropped_impl d (P Q : node -> node -> Prop) ns ns' :
  (forall x y, P x y -> Q x y) -> dropped d P ns ns' -> dropped d Q ns ns'.
Proof. intros H D m. specialize (D m). destruct (d m); auto. eapply orel_impl; eauto. Qed.

Lemma dropped_some d P ns ns' m nd' :
  dropped d P ns ns' -> getn ns' m = Some nd' -> d m = false /\ exists nd, getn ns m = Some nd /\ P nd nd'.
Proof.
  intros D H. specialize (D m). destruct (d m); [congruence|]. split; auto.
  rewrite H in D. destruct (getn ns m); cbn in D; [eauto|contradiction].
Qed.

Lemma dropped_keep d P ns ns' m nd :
  dropped d P ns ns' -> getn ns m = Some nd -> d m = false -> exists nd', getn ns' m = Some nd' /\ P nd nd'.
Proof.
  intros D H E. specialize (D m). rewrite E, H in D. destruct (getn ns' m); cbn in D; [eauto|contradiction].
Qed.

(** * the invariant, by component *)
Definition is_arg (n i : nat) (e : edge) : bool :=
  (etgt e =? n) && match ek e with EArg j => j =? i | _ => false end.
Definition count_arg_l (es : list edge) (n i : nat) : nat := length (filter (is_arg n i) es).
Definition count_arg (s : gstate) (n i : nat) : nat :=
  length (filter (fun e => (etgt e =? n) && match ek e with EArg j => j =? i | _ => false end) (edges s)).

Lemma is_arg_true n i e : is_arg n i e = true <-> etgt e = n /\ ek e = EArg i.
Proof.
  unfold is_arg. rewrite andb_true_iff, Nat.eqb_eq. destruct (ek e) as [j|j|]; try (split; [intros [_ ?]; discriminate | intros [_ ?]; discriminate]).
  rewrite Nat.eqb_eq. split; intros [? H]; split; auto; congruence.
Qed.

Record FreeOK (ns : list (option node)) (fr : list nat) : Prop := {
  fo_dead : forall i, In i fr -> i < length ns /\ getn ns i = None;
  fo_nodup : NoDup fr }.

Record EdgeOK (ns : list (option node)) (es : list edge) : Prop := {
  eo_live : forall e, In e es -> liveb ns (esrc e) = true /\ liveb ns (etgt e) = true;
  eo_arg_inst : forall e i, In e es -> ek e = EArg i ->
                exists nd sat, getn ns (etgt e) = Some nd /\ nk nd = NInst sat;
  eo_inst_arg : forall e nd sat, In e es -> getn ns (etgt e) = Some nd -> nk nd = NInst sat ->
                exists i, ek e = EArg i;
  eo_sat : forall n nd sat, getn ns n = Some nd -> nk nd = NInst sat ->
           NoDup sat /\ forall i, count_arg_l es n i = if existsb (Nat.eqb i) sat then 1 else 0 }.

Record ExOK (ns : list (option node)) (ex : list (name * nat)) : Prop := {
  xo_live : forall nm n, In (nm, n) ex -> liveb ns n = true;
  xo_keys : NoDup (map fst ex);
  xo_node : forall n nd nm, getn ns n = Some nd -> nexport nd = Some nm -> In (nm, n) ex }.

Record ImOK (ns : list (option node)) (im : list (name * nat)) : Prop := {
  io_iff : forall nm n, In (nm, n) im <-> exists nd, getn ns n = Some nd /\ nk nd = NImport nm;
  io_keys : NoDup (map fst im) }.

Record DfOK (ns : list (option node)) (df : list (nat * nat)) : Prop := {
  do_def : forall t n, In (t, n) df -> exists nd, getn ns n = Some nd /\ nk nd = NDef;
  do_node : forall n nd, getn ns n = Some nd -> nk nd = NDef -> exists t, In (t, n) df }.

Definition get_pkg_l (pk : list pslot) (id : pkgid) : option nat :=
  match nth_error pk (fst id) with
  | Some sl => if ps_gen sl =? snd id then ps_pkg sl else None
  | None => None
  end.
Definition pkg_desc_l (u : universe) (pk : list pslot) (id : pkgid) : option pkgdesc :=
  match get_pkg_l pk id with Some p => nth_error (u_pkgs u) p | None => None end.

Lemma get_pkg_l_eq s id : get_pkg s id = get_pkg_l (pkgs s) id.
Proof. reflexivity. Qed.
Lemma pkg_desc_l_eq u s id : pkg_desc u s id = pkg_desc_l u (pkgs s) id.
Proof. reflexivity. Qed.

Record PkgOK (u : universe) (ns : list (option node)) (pk : list pslot) (fp : list nat) : Prop := {
  po_live : forall n nd id, getn ns n = Some nd -> npkg nd = Some id -> exists p, get_pkg_l pk id = Some p;
  po_inst : forall n nd sat, getn ns n = Some nd -> nk nd = NInst sat ->
            exists id pd, npkg nd = Some id /\ pkg_desc_l u pk id = Some pd;
  po_free : forall i, In i fp -> exists sl, nth_error pk i = Some sl /\ ps_pkg sl = None;
  po_free_nodup : NoDup fp }.

Record InvC (u : universe) (s : gstate) : Prop := {
  ic_free : FreeOK (nodes s) (free_nodes s);
  ic_edge : EdgeOK (nodes s) (edges s);
  ic_ex : ExOK (nodes s) (exports s);
  ic_im : ImOK (nodes s) (imports s);
  ic_df : DfOK (nodes s) (defined s);
  ic_pkg : PkgOK u (nodes s) (pkgs s) (free_pkgs s) }.

(** * the invariant as one record over the state (the form quoted by [props/C06.v]) *)
Record Inv (u : universe) (s : gstate) : Prop := {
  inv_free_dead : forall i, In i (free_nodes s) -> i < length (nodes s) /\ live s i = false;
  inv_free_nodup : NoDup (free_nodes s);
  inv_edges_live : forall e, In e (edges s) -> live s (esrc e) = true /\ live s (etgt e) = true;
  inv_args_to_inst : forall e i, In e (edges s) -> ek e = EArg i ->
                     exists nd sat, get_node s (etgt e) = Some nd /\ nk nd = NInst sat;
  inv_inst_in_edges_only_args : forall e nd sat, In e (edges s) -> get_node s (etgt e) = Some nd ->
                     nk nd = NInst sat -> exists i, ek e = EArg i;
  inv_sat_exact : forall n nd sat, get_node s n = Some nd -> nk nd = NInst sat ->
                  NoDup sat /\ forall i, count_arg s n i = if existsb (Nat.eqb i) sat then 1 else 0;
  inv_exports_live : forall nm n, In (nm, n) (exports s) -> live s n = true;
  inv_exports_keys : NoDup (map fst (exports s));
  inv_node_export : forall n nd nm, get_node s n = Some nd -> nexport nd = Some nm -> In (nm, n) (exports s);
  inv_imports : forall nm n, In (nm, n) (imports s) <-> exists nd, get_node s n = Some nd /\ nk nd = NImport nm;
  inv_imports_keys : NoDup (map fst (imports s));
  inv_defined : forall t n, In (t, n) (defined s) -> exists nd, get_node s n = Some nd /\ nk nd = NDef;
  inv_def_nodes : forall n nd, get_node s n = Some nd -> nk nd = NDef -> exists t, In (t, n) (defined s);
  inv_pkg_live : forall n nd id, get_node s n = Some nd -> npkg nd = Some id -> exists p, get_pkg s id = Some p;
  inv_inst_pkg : forall n nd sat, get_node s n = Some nd -> nk nd = NInst sat ->
                 exists id pd, npkg nd = Some id /\ pkg_desc u s id = Some pd;
  inv_free_pkgs : forall i, In i (free_pkgs s) -> exists sl, nth_error (pkgs s) i = Some sl /\ ps_pkg sl = None;
  inv_free_pkgs_nodup : NoDup (free_pkgs s) }.

Lemma Inv_iff u s : Inv u s <-> InvC u s.
Proof.
  split.
  - intros [A1 A2 B1 B2 B3 B4 C1 C2 C3 D1 D2 E1 E2 F1 F2 F3 F4].
    constructor; constructor; auto.
    intros i Hi. destruct (A1 i Hi) as [L D]. split; auto. now apply liveb_false.
  - intros [[A1 A2] [B1 B2 B3 B4] [C1 C2 C3] [D1 D2] [E1 E2] [F1 F2 F3 F4]].
    constructor; auto.
    intros i Hi. destruct (A1 i Hi) as [L D]. split; auto. now apply liveb_false.
Qed.

Lemma getn_nil n : getn [] n = None.
Proof. destruct n; reflexivity. Qed.

Lemma inv_empty u : Inv u empty_graph.
Proof.
  assert (G : forall n, get_node empty_graph n = None) by (intros n; apply getn_nil).
  constructor; cbn; try tauto; try (now constructor);
    try (intros *; rewrite G; discriminate).
  intros nm n. split; [tauto|]. intros [nd [H _]]. rewrite G in H. discriminate.
Qed.
