(** C01 non-vacuity: a concrete universe with an injective name pool and a history (two instantiations of one
    package, an alias of the first passed to the second, an export, a name, a type definition, and an instantiation
    that is removed again together with the argument it fed) for which every hypothesis of
    [no_late_failure_reachable] holds and the model encoder succeeds in both dependency modes. *)
From Coq Require Import String.
From Coq Require Import List Arith Bool NArith Lia.
From WacV Require Import Str StrLit Graph Wiring WiringSpec EncodeModel ValidSpec GraphInv ValidEncInv ValidFinal.
Import ListNotations.
Local Open Scope nat_scope.

(** kinds: 0 func, 1 instance {x: func} with interface id, 2 package instance {run, x}, 3 type *)
Definition v_universe : universe :=
  {| u_inst_exports := fun k => if N.eqb k 1 then Some [(3%N, 0%N)] else if N.eqb k 2 then Some [(4%N, 0%N); (3%N, 0%N)] else None;
     u_pkgs := [ {| pd_inst := 2%N; pd_imports := [(1%N, 1%N); (0%N, 0%N)] |} ];
     u_tys := [ {| td_res := false; td_kind := 3%N; td_deps := [] |} ];
     u_lkinds := [0%N; 1%N];
     u_sub := N.eqb;
     u_import_name_ok := fun _ => true;
     u_export_name_ok := fun _ => true |}.

Definition v_env : wenv :=
  {| we_name := fun n => [n];                      (* one code point per name: injective *)
     we_pkg_name := fun _ => L"test:p";
     we_pkg_version := fun _ => None;
     we_digest := fun p => N.of_nat p;
     we_sort := fun k => if N.eqb k 0 then SFunc else if N.eqb k 3 then SType else SInstance;
     we_iid := fun k => if N.eqb k 1 then Some (L"a:b/t") else None |}.

Definition v_tau : tyenc := fun l _ => ([ITypeDef], cnt SType l).

Definition v_ops : list op :=
  [Register 0; Instantiate (0, 0); Instantiate (0, 0); Alias 0 3%N; SetArg 1 0%N 2; Export 2 6%N; SetName 1 5%N; DefineType 7%N 0;
   Instantiate (0, 0); Alias 4 3%N; SetArg 0 0%N 5; RemoveNode 4].

Lemma v_univ_ok : UnivOK v_env v_universe.
Proof.
  constructor.
  - intros k ex. cbn. destruct (N.eqb_spec k 1) as [->|N1]; [reflexivity|]. destruct (N.eqb_spec k 2) as [->|N2]; [reflexivity|discriminate].
  - intros p pd H. destruct p as [|[|p]]; cbn in H; try discriminate. injection H as <-. cbn. eauto.
  - intros t td H. destruct t as [|[|t]]; cbn in H; try discriminate. injection H as <-. reflexivity.
  - intros k ex. cbn. destruct (N.eqb k 1).
    { intros H. injection H as <-. cbn. constructor; [cbn; tauto|constructor]. }
    destruct (N.eqb k 2); [|discriminate].
    intros H. injection H as <-. cbn. constructor; [cbn; intuition discriminate|constructor; [cbn; tauto|constructor]].
  - intros a b H. cbn in H. now injection H.
Qed.

Lemma v_pkg_ident : PkgIdent v_env v_universe.
Proof. intros p q Hp Hq _. cbn in Hp, Hq. lia. Qed.

Lemma v_defs_single : DefsSingle (run v_universe v_ops).
Proof. apply reach_defs_single. Qed.

Definition v_run (dc : bool) : option (nat * nat * bool * bool) :=
  let g := run v_universe v_ops in
  match toposort g with
  | None => None
  | Some ord =>
      match encode_with_order v_env v_universe g dc v_tau ord with
      | ROk (st, names) =>
          match decode_wiring names (e_log st) with
          | Some w => Some (length (w_insts w), length (w_exports w), inst_complete_b v_env v_universe w,
                            topo_orderb g ord && match e_dedup st with [] => true | _ => false end)
          | None => None
          end
      | RErr _ => None
      end
  end.

Lemma v_encodes : v_run true = Some (2, 2, true, true) /\ v_run false = Some (2, 2, true, true)
                  /\ args_checked_b v_universe (run v_universe v_ops) = true.
Proof. vm_compute. auto. Qed.
