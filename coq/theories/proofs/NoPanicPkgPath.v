(** C14: the one slice of the parser that [Parser.v] models as a total function instead of an explicit
    panic outcome -- [&s[slash + 1..at]] in [PackagePath::parse] ([ast/import.rs]) -- cannot panic on a
    token the lexer produced: in the text of a package-path token the first [/] comes at least two
    characters before the first [@] (if any), because the token is [id (: id)+ (/ id)+ (@ semver)?] and
    identifiers contain neither character. *)
From WacV Require Import Str Token Lexer LexTables LexImpl LexerSound NoPanicLexer.
From Coq Require Import ZArith ZifyBool ZifyN Lia.
Local Open Scope nat_scope.

Section Class.
(** [Q]: a property of every character an identifier can contain. *)
Variable Q : N -> Prop.
Hypothesis Qlc : forall c, lower_cont c = true -> Q c.
Hypothesis Quc : forall c, upper_cont c = true -> Q c.
Hypothesis Qminus : Q c_minus.
Hypothesis Qpercent : Q c_percent.

Lemma Qlower c : is_lower c = true -> Q c.
Proof. intros H. apply Qlc. unfold lower_cont. now rewrite H. Qed.
Lemma Qupper c : is_upper c = true -> Q c.
Proof. intros H. apply Quc. unfold upper_cont. now rewrite H. Qed.

Lemma id_tail_len_class au : forall k s up, length s <= k -> Forall Q (firstn (id_tail_len au up s) s).
Proof.
  induction k as [|k IH]; intros s up Hk; destruct s as [|c r]; cbn [id_tail_len firstn]; try constructor.
  { cbn in Hk. lia. }
  cbn [length] in Hk.
  destruct (if up then upper_cont c else lower_cont c) eqn:Ec.
  { cbn [firstn]. constructor; [destruct up; [now apply Quc|now apply Qlc]|]. apply IH. lia. }
  destruct (c =? c_minus)%N eqn:Em; [|constructor]. apply N.eqb_eq in Em. subst c.
  destruct r as [|c2 r2]; [constructor|]. cbn [length] in Hk.
  destruct (is_lower c2) eqn:El.
  { cbn [firstn]. constructor; [exact Qminus|]. constructor; [now apply Qlower|]. apply IH. lia. }
  destruct (au && is_upper c2) eqn:Eu; [|constructor].
  apply andb_true_iff in Eu. destruct Eu as [_ Eu].
  cbn [firstn]. constructor; [exact Qminus|]. constructor; [now apply Qupper|]. apply IH. lia.
Qed.

Lemma words_len_class au s : Forall Q (firstn (words_len au s) s).
Proof.
  destruct s as [|c r]; cbn [words_len firstn]; [constructor|].
  destruct (is_lower c) eqn:El.
  { cbn [firstn]. constructor; [now apply Qlower|]. eapply id_tail_len_class. apply le_n. }
  destruct (au && is_upper c) eqn:Eu; [|constructor]. apply andb_true_iff in Eu. destruct Eu as [_ Eu].
  cbn [firstn]. constructor; [now apply Qupper|]. eapply id_tail_len_class. apply le_n.
Qed.

Lemma id_len_class au s : Forall Q (firstn (id_len au s) s).
Proof.
  destruct s as [|c r]; cbn [id_len firstn]; [constructor|]. destruct (c =? c_percent)%N eqn:E.
  - apply N.eqb_eq in E. subst c. pose proof (words_len_class au r) as H.
    destruct (words_len au r) as [|n]; [constructor|]. cbn [firstn]. constructor; [exact Qpercent|exact H].
  - apply (words_len_class au (c :: r)).
Qed.

Lemma seg_loop_class fuel au sep : Q sep -> forall s, Forall Q (firstn (seg_loop fuel au sep s) s).
Proof.
  intros Hsep. induction fuel as [|f IH]; intros s; cbn [seg_loop]; [constructor|].
  destruct s as [|c r]; [constructor|]. destruct (c =? sep)%N eqn:E; [|constructor]. apply N.eqb_eq in E. subst c.
  pose proof (id_len_class au r) as Hid. destruct (id_len au r) as [|n]; [constructor|].
  change (S (S n) + seg_loop f au sep (skipn (S n) r)) with (S (S n + seg_loop f au sep (skipn (S n) r))).
  cbn [firstn]. constructor; [exact Hsep|]. rewrite firstn_add. apply Forall_app. split; [exact Hid|apply IH].
Qed.
End Class.

Lemma seg_loop_two fuel au sep s m : seg_loop fuel au sep s = S m -> 1 <= m.
Proof.
  destruct fuel as [|f]; cbn [seg_loop]; [discriminate|]. destruct s as [|c r]; [discriminate|].
  destruct (c =? sep)%N; [|discriminate]. destruct (id_len au r); [discriminate|]. cbn. lia.
Qed.

Lemma find_char_skip c : forall a b, Forall (fun x => x <> c) a ->
  find_char c (a ++ b) = match find_char c b with Some n => Some (length a + n) | None => None end.
Proof.
  induction a as [|x a IH]; intros b Ha; cbn [app find_char length plus]; [now destruct (find_char c b)|].
  inversion Ha; subst. destruct (x =? c)%N eqn:E; [apply N.eqb_eq in E; congruence|].
  rewrite (IH b) by assumption. now destruct (find_char c b).
Qed.

Lemma find_char_none c s : Forall (fun x => x <> c) s -> find_char c s = None.
Proof.
  induction 1 as [|x s Hx _ IH]; cbn [find_char]; [reflexivity|].
  destruct (x =? c)%N eqn:E; [apply N.eqb_eq in E; congruence|]. now rewrite IH.
Qed.

(** What [PackagePath::parse] needs from the text of its token. *)
Definition path_slices_ok (text : str) : Prop :=
  exists slash, find_char c_slash text = Some slash /\
    match find_char c_atsign text with Some at_ => S (S slash) <= at_ | None => True end.

Lemma id_char_facts c :
  (lower_cont c = true \/ upper_cont c = true \/ c = c_minus \/ c = c_percent) -> c <> c_slash /\ c <> c_atsign.
Proof.
  unfold lower_cont, upper_cont, is_lower, is_upper, is_digit, c_minus, c_percent, c_slash, c_atsign. lia.
Qed.

Lemma scan_token_path cfg fuel s n :
  scan_token cfg fuel s = ScanTok TPackagePath n -> tables_sane cfg = true -> path_slices_ok (firstn n s).
Proof.
  intros H Hsane. unfold scan_token in H. destruct s as [|c r]; [discriminate|].
  destruct (c =? c_quote)%N; [destruct (find_char c_quote r); discriminate|].
  set (Q1 := fun x : N => x <> c_slash /\ x <> c_atsign).
  set (Q2 := fun x : N => x <> c_atsign).
  assert (HQ1 : forall fu sep s', Q1 sep -> Forall Q1 (firstn (seg_loop fu (allow_upper cfg) sep s') s')).
  { intros fu sep s' Hs. apply seg_loop_class; auto;
      first [intros x Hx; apply id_char_facts; auto | apply id_char_facts; auto 6]. }
  assert (HQ2 : forall fu sep s', Q2 sep -> Forall Q2 (firstn (seg_loop fu (allow_upper cfg) sep s') s')).
  { intros fu sep s' Hs. apply seg_loop_class; auto;
      first [intros x Hx; apply id_char_facts; auto | unfold Q2, c_minus, c_percent, c_atsign; lia]. }
  assert (Hid : Forall Q1 (firstn (id_len (allow_upper cfg) (c :: r)) (c :: r))).
  { apply id_len_class; first [intros x Hx; apply id_char_facts; auto | apply id_char_facts; auto 6]. }
  assert (Hkw : forall key, (match lookup_str key (keywords cfg) with Some k0 => k0 | None => TIdent end) <> TPackagePath).
  { intros key E. destruct (lookup_str key (keywords cfg)) as [k0|] eqn:El; [|discriminate]. subst k0.
    pose proof (sane_not_special cfg TPackagePath Hsane (or_introl (lookup_str_in _ _ _ El))). discriminate. }
  destruct (id_len (allow_upper cfg) (c :: r)) as [|n0] eqn:Eid.
  { destruct (best_symbol (symbols cfg) (c :: r)) as [[k' n']|] eqn:Eb; [|discriminate]. inversion H; subst.
    pose proof (sane_not_special cfg TPackagePath Hsane (or_intror (best_symbol_in _ _ _ _ Eb))). discriminate. }
  set (rest1 := skipn (S n0) (c :: r)) in *.
  destruct (head_is c_minus rest1).
  { destruct (q_pkgzone cfg && is_kw_prefix (firstn (S n0) (c :: r)) (keywords cfg)); [discriminate|].
    destruct (q_dash cfg); inversion H. now apply Hkw in H1. }
  pose proof (HQ1 fuel c_colon rest1 ltac:(unfold Q1, c_colon, c_slash, c_atsign; lia)) as Hs2.
  destruct (seg_loop fuel (allow_upper cfg) c_colon rest1) as [|m2] eqn:Es2.
  { destruct (head_is c_colon rest1 && q_kwcolon cfg); inversion H. now apply Hkw in H1. }
  set (pkg := S n0 + S m2) in *. set (after := skipn pkg (c :: r)) in *.
  assert (Hpkg : Forall Q1 (firstn pkg (c :: r))).
  { unfold pkg. rewrite firstn_add. apply Forall_app. split; [exact Hid|exact Hs2]. }
  destruct (q_pkgzone cfg && (head_is c_minus after || head_is c_colon after)); [discriminate|].
  pose proof (HQ2 fuel c_slash after ltac:(unfold Q2, c_slash, c_atsign; lia)) as Hs3.
  destruct (seg_loop fuel (allow_upper cfg) c_slash after) as [|m3] eqn:Es3; [discriminate|].
  pose proof (seg_loop_two _ _ _ _ _ Es3) as Hm3.
  destruct (seg_loop_head _ _ _ _ _ Es3) as (rr & Hafter).
  set (v := version_tail_len (skipn (pkg + S m3) (c :: r))) in *.
  assert (Hn : n = pkg + S m3 + v) by (inversion H; reflexivity). subst n.
  (* the three parts of the text *)
  rewrite firstn_add, firstn_add. fold after.
  set (A := firstn pkg (c :: r)) in *. set (B := firstn (S m3) after) in *.
  set (C := firstn v (skipn (pkg + S m3) (c :: r))).
  assert (HlenA : length A = pkg).
  { unfold A. apply firstn_length_le. pose proof (seg_loop_le fuel (allow_upper cfg) c_slash after) as Hle.
    rewrite Es3 in Hle. unfold after in Hle. rewrite skipn_length in Hle. lia. }
  assert (HlenB : length B = S m3).
  { unfold B. apply firstn_length_le. pose proof (seg_loop_le fuel (allow_upper cfg) c_slash after) as Hle. now rewrite Es3 in Hle. }
  assert (HB : exists B', B = c_slash :: B') by (unfold B; rewrite Hafter; cbn [firstn]; eauto).
  destruct HB as (B' & HB).
  exists pkg. split.
  - rewrite <- app_assoc, find_char_skip by (eapply Forall_impl; [|exact Hpkg]; unfold Q1; tauto).
    rewrite HB. cbn [app find_char]. rewrite N.eqb_refl. now rewrite HlenA, Nat.add_0_r.
  - rewrite <- app_assoc, find_char_skip by (eapply Forall_impl; [|exact Hpkg]; unfold Q1; tauto).
    rewrite find_char_skip by exact Hs3.
    destruct (find_char c_atsign C) as [k|]; [|exact I]. rewrite HlenA, HlenB. lia.
Qed.

(** Every package-path token of the implementation's lexer satisfies [path_slices_ok]. *)
Lemma lex_loop_paths cfg (Hsane : tables_sane cfg = true) fuel : forall o s,
  Forall (fun it => match it with LTok t => tk t = TPackagePath -> path_slices_ok (ttext t) | _ => True end)
         (lex_loop fuel cfg o s).
Proof.
  induction fuel as [|f IH]; intros o s; cbn [lex_loop]; [repeat constructor|].
  destruct (skip_gap (S f) o s true []) as [o1 s1 docs|e sp| |]; try (repeat constructor).
  destruct s1 as [|c1 r1]; [constructor|].
  destruct (scan_token cfg (S f) (c1 :: r1)) as [k n|e n|] eqn:Es; try (repeat constructor).
  - cbn [tk ttext]. intros ->. now apply (scan_token_path _ _ _ _ Es).
  - apply IH.
Qed.

Lemma package_path_slice_never_panics_lemma src t :
  In (LTok t) (lex impl_cfg src) -> tk t = TPackagePath -> path_slices_ok (ttext t).
Proof.
  intros Hin Hk. unfold lex in Hin. destruct (screen impl_cfg src) as [[e sp]|].
  - destruct Hin as [Hin|[]]. discriminate.
  - pose proof (lex_loop_paths impl_cfg impl_tables_sane (S (S (length src))) 0%N src) as H.
    rewrite Forall_forall in H. now apply (H _ Hin).
Qed.
