(** C04: proofs about the resolver model [Resolver.v] against the rules of [LangSpec.v].
    Part 1: the monad, frame facts, [let] only names. *)
From Coq Require Import List Arith Bool NArith Lia.
From WacV Require Import Str Token Lexer Semver Names Ast Graph Resolver LangSpec.
Import ListNotations.
Local Open Scope nat_scope.

(** * the monad *)
Lemma bind_inl {A B} (m : M A) (f : A -> M B) st y st' :
  bind m f st = inl (y, st') -> exists x st1, m st = inl (x, st1) /\ f x st1 = inl (y, st').
Proof. unfold bind. destruct (m st) as [[x st1]|e]; [eauto|discriminate]. Qed.

Lemma bind_inr {A B} (m : M A) (f : A -> M B) st e :
  bind m f st = inr e -> m st = inr e \/ exists x st1, m st = inl (x, st1) /\ f x st1 = inr e.
Proof. unfold bind. destruct (m st) as [[x st1]|e']; [eauto|intros [= ->]; auto]. Qed.

Lemma get_g_inl st x st' : get_g st = inl (x, st') -> x = rs_g st /\ st' = st.
Proof. unfold get_g. intros [= <- <-]. auto. Qed.
Lemma get_scope_inl st x st' : get_scope st = inl (x, st') -> x = rs_scope st /\ st' = st.
Proof. unfold get_scope. intros [= <- <-]. auto. Qed.
Lemma ret_inl {A} (a : A) st x st' : ret a st = inl (x, st') -> x = a /\ st' = st.
Proof. unfold ret. intros [= <- <-]. auto. Qed.

(** [im_get] / [has_key] *)
Lemma str_eqb_refl s : str_eqb s s = true.
Proof. induction s as [|c s IH]; cbn; auto. rewrite N.eqb_refl. exact IH. Qed.

Lemma str_eqb_eq a b : str_eqb a b = true <-> a = b.
Proof.
  split; [|intros ->; apply str_eqb_refl].
  revert b. induction a as [|x a IH]; destruct b as [|y b]; cbn; try discriminate; auto.
  intros H. apply andb_prop in H as [H1 H2]. apply N.eqb_eq in H1. subst. f_equal. auto.
Qed.

Lemma str_eqb_sym a b : str_eqb a b = str_eqb b a.
Proof.
  destruct (str_eqb a b) eqn:E.
  - apply str_eqb_eq in E. subst. symmetry. apply str_eqb_refl.
  - destruct (str_eqb b a) eqn:E'; auto. apply str_eqb_eq in E'. subst. rewrite str_eqb_refl in E. discriminate.
Qed.

Lemma im_get_app {V} (a b : list (str * V)) k :
  im_get (a ++ b) k = match im_get a k with Some v => Some v | None => im_get b k end.
Proof. induction a as [|[k' v] a IH]; cbn; auto. destruct (str_eqb k' k); auto. Qed.

Lemma im_get_In {V} (l : list (str * V)) k v : im_get l k = Some v -> In (k, v) l.
Proof.
  induction l as [|[k' v'] l IH]; cbn; [discriminate|]. destruct (str_eqb k' k) eqn:E.
  - intros [= <-]. apply str_eqb_eq in E. subst. now left.
  - intros H. right. auto.
Qed.

Lemma im_get_None {V} (l : list (str * V)) k : im_get l k = None <-> ~ In k (map fst l).
Proof.
  induction l as [|[k' v'] l IH]; cbn; [tauto|]. destruct (str_eqb k' k) eqn:E.
  - apply str_eqb_eq in E. subst. split; [discriminate|]. intros H. exfalso. apply H. now left.
  - rewrite IH. split; [|tauto]. intros H [->|H']; [rewrite str_eqb_refl in E; discriminate|auto].
Qed.

Lemma has_key_In {V} (l : list (str * V)) k : has_key l k = true <-> In k (map fst l).
Proof.
  unfold has_key. destruct (im_get l k) eqn:E.
  - split; auto. intros _. apply im_get_In in E. apply (in_map fst) in E. exact E.
  - apply im_get_None in E. split; [discriminate|tauto].
Qed.

Lemma has_key_false {V} (l : list (str * V)) k : has_key l k = false <-> ~ In k (map fst l).
Proof. rewrite <- has_key_In. destruct (has_key l k); split; auto; try discriminate. intros H. exfalso. auto. Qed.

Lemma In_im_get {V} (l : list (str * V)) k v : NoDup (map fst l) -> In (k, v) l -> im_get l k = Some v.
Proof.
  induction l as [|[k' v'] l IH]; cbn; [tauto|]. intros ND [E|H]; inversion ND as [|? ? Hn ND']; subst.
  - injection E as -> ->. now rewrite str_eqb_refl.
  - destruct (str_eqb k' k) eqn:E; [|auto]. apply str_eqb_eq in E. subst. exfalso. apply Hn.
    apply (in_map fst) in H. exact H.
Qed.

(** * a [let] only names *)
(** the two graphs differ at most in the debug name of node [n] *)
Definition same_but_name (g g' : gstate) (n : nat) : Prop :=
  edges g' = edges g /\ free_nodes g' = free_nodes g /\ imports g' = imports g /\ exports g' = exports g /\
  defined g' = defined g /\ pkgs g' = pkgs g /\ free_pkgs g' = free_pkgs g /\
  length (nodes g') = length (nodes g) /\
  (forall m, m <> n -> get_node g' m = get_node g m) /\
  (match get_node g n, get_node g' n with
   | Some a, Some b => nk b = nk a /\ npkg b = npkg a /\ nitem b = nitem a /\ nexport b = nexport a
   | None, None => True
   | _, _ => False
   end).

Lemma same_but_name_refl g n : same_but_name g g n.
Proof. unfold same_but_name. repeat split; auto. destruct (get_node g n); auto. Qed.

Lemma length_set_nth' {A} (l : list A) n x : length (set_nth l n x) = length l.
Proof. revert n. induction l as [|y l IH]; intros [|n]; cbn; auto. Qed.

Lemma nth_error_set_nth' {A} (l : list A) n x m :
  nth_error (set_nth l n x) m = if Nat.eqb m n then (if Nat.ltb n (length l) then Some x else None) else nth_error l m.
Proof.
  revert n m. induction l as [|y l IH]; intros [|n] [|m]; cbn; auto.
  - destruct (Nat.eqb m n); auto; now destruct m.
  - rewrite IH. destruct (Nat.eqb m n); auto.
Qed.

Lemma set_name_same g n nm g' o : set_name g n nm = (g', o) -> same_but_name g g' n.
Proof.
  unfold set_name, update_node. destruct (get_node g n) as [nd|] eqn:G; intros [= <- <-]; [|apply same_but_name_refl].
  unfold same_but_name, set_node; cbn. repeat split; auto.
  - apply length_set_nth'.
  - intros m Hm. unfold get_node; cbn. rewrite nth_error_set_nth'. apply Nat.eqb_neq in Hm. now rewrite Hm.
  - rewrite G. unfold get_node; cbn. rewrite nth_error_set_nth', Nat.eqb_refl.
    assert (L : n < length (nodes g)).
    { unfold get_node in G. apply nth_error_Some. destruct (nth_error (nodes g) n); discriminate || auto. }
    apply Nat.ltb_lt in L. rewrite L. cbn. auto.
Qed.

Section LetOnlyNames.
  Variable u : runiverse.
  Variable self_name : str.

  Lemma register_name_effect id n st st' :
    register_name u id n st = inl (tt, st') ->
    same_but_name (rs_g st) (rs_g st') n /\
    rs_scope st' = rs_scope st ++ [(id_string id, (n, off (id_span id)))] /\
    im_get (rs_scope st) (id_string id) = None.
  Proof.
    unfold register_name. intros H. apply bind_inl in H as (sc & s1 & H1 & H). apply get_scope_inl in H1 as [-> ->].
    destruct (im_get (rs_scope st) (id_string id)) eqn:E; [discriminate|].
    apply bind_inl in H as ([] & s1 & H1 & H). unfold put_scope in H1. injection H1 as E1; subst s1.
    apply bind_inl in H as (g & s2 & H1 & H). apply get_g_inl in H1 as [-> ->]. cbn in H.
    destruct (get_node (rs_g st) n) as [nd|] eqn:G; [|discriminate].
    destruct (nname nd).
    - apply ret_inl in H as [_ ->]. cbn. split; [apply same_but_name_refl|auto].
    - apply bind_inl in H as (o & s3 & H1 & H). unfold gop in H1.
      apply bind_inl in H1 as (g & s4 & H2 & H1). apply get_g_inl in H2 as [-> ->]. cbn in H1.
      destruct (set_name (rs_g st) n (ru_intern u (id_string id))) as [g' o'] eqn:SN.
      apply bind_inl in H1 as ([] & s5 & H2 & H1). unfold put_g in H2. injection H2 as E2; subst s5.
      apply ret_inl in H1 as [-> ->]. apply set_name_same in SN.
      destruct o'; try discriminate. apply ret_inl in H as [_ ->]. cbn. auto.
  Qed.

  (** A [let] statement evaluates its expression and then only adds the local name: no node, no
      edge, no import, export or package beyond the expression's; at most the debug name of the
      expression's node is set. *)
  Theorem let_only_names_proof id e st st' :
    let_statement u self_name id e st = inl (tt, st') ->
    exists item st1,
      eval_expr u self_name e st = inl (item, st1) /\
      same_but_name (rs_g st1) (rs_g st') item /\
      rs_scope st' = rs_scope st1 ++ [(id_string id, (item, off (id_span id)))].
  Proof.
    unfold let_statement. intros H. apply bind_inl in H as (item & st1 & H1 & H).
    apply register_name_effect in H as (A & B & _). eauto.
  Qed.
End LetOnlyNames.

(** * Part 2: the name rules of the resolver are the rules of the reference *)
Local Open Scope N_scope.

Lemma split_on_nonempty c s : split_on c s <> [].
Proof.
  induction s as [|x r IH]; cbn [split_on]; [discriminate|].
  destruct (x =? c); [discriminate|]. destruct (split_on c r); discriminate.
Qed.

Lemma split_on_single c r y : split_on c r = [y] -> y = r.
Proof.
  revert y. induction r as [|x r IH]; intros y H; cbn [split_on] in H.
  - now injection H as <-.
  - destruct (x =? c).
    + injection H as _ H. exfalso. now apply (split_on_nonempty c r).
    + destruct (split_on c r) as [|seg segs] eqn:S; [now exfalso; apply (split_on_nonempty c r)|].
      injection H as <- ->. f_equal. now apply IH.
Qed.

(** the last element of a list with at least two elements *)
Fixpoint last2 (l : list str) : option str :=
  match l with
  | [] | [_] => None
  | _ :: ((_ :: _) as r) => match r with [x] => Some x | _ => last2 r end
  end.

Lemma last2_rev l : last2 l = match rev l with x :: _ :: _ => Some x | _ => None end.
Proof.
  induction l as [|a [|b [|c r]] IH]; try reflexivity.
  change (last2 (a :: b :: c :: r)) with (last2 (b :: c :: r)). rewrite IH.
  change (rev (a :: b :: c :: r)) with (rev (b :: c :: r) ++ [a]).
  destruct (rev (b :: c :: r)) as [|x [|y w]] eqn:E; cbn.
  - exfalso. apply (f_equal (@length str)) in E. rewrite rev_length in E. discriminate.
  - exfalso. apply (f_equal (@length str)) in E. rewrite rev_length in E. discriminate.
  - reflexivity.
Qed.

Lemma after_last_slash_last2 s : after_last_slash s = last2 (split_on c_slash s).
Proof.
  induction s as [|x r IH]; [reflexivity|].
  cbn [after_last_slash split_on]. rewrite IH. clear IH.
  destruct (x =? c_slash) eqn:Ex.
  - destruct (split_on c_slash r) as [|a [|b w]] eqn:S.
    + now exfalso; apply (split_on_nonempty c_slash r).
    + cbn. apply split_on_single in S. now subst.
    + change (last2 ([] :: a :: b :: w)) with (last2 (a :: b :: w)).
      destruct (last2 (a :: b :: w)) eqn:L; auto.
      exfalso. rewrite last2_rev in L. change (rev (a :: b :: w)) with ((rev w ++ [b]) ++ [a]) in L.
      destruct (rev w ++ [b]) as [|p q] eqn:E; [now destruct (rev w)|]. cbn in L. destruct q; discriminate.
  - destruct (split_on c_slash r) as [|a [|b w]] eqn:S.
    + now exfalso; apply (split_on_nonempty c_slash r).
    + reflexivity.
    + change (last2 ((x :: a) :: b :: w)) with (match b :: w with [y] => Some y | _ => last2 (b :: w) end).
      change (last2 (a :: b :: w)) with (match b :: w with [y] => Some y | _ => last2 (b :: w) end).
      destruct (match b :: w with [y] => Some y | _ => last2 (b :: w) end); reflexivity.
Qed.

Lemma before_at_until s : before_at s = until_at s.
Proof.
  unfold before_at. induction s as [|c r IH]; [reflexivity|].
  cbn [split_first]. unfold until_at. fold (until_at r).
  destruct (c =? c_at) eqn:E; [reflexivity|].
  change ((fix go (s : str) : list N := match s with [] => [] | c :: r => if c =? c_at then [] else c :: go r end) r)
    with (until_at r).
  rewrite <- IH. destruct (split_first c_at r) as [[b a]|]; reflexivity.
Qed.

Lemma last_segment_path_segment n : last_segment n = path_segment n.
Proof.
  unfold last_segment, path_segment. rewrite after_last_slash_last2, last2_rev.
  destruct (rev (split_on c_slash n)) as [|x [|y r]]; auto.
  now rewrite before_at_until.
Qed.

Lemma mem_In x l : mem x l = true <-> In x l.
Proof.
  induction l as [|y l IH]; cbn; [split; [discriminate|tauto]|].
  rewrite orb_true_iff, IH, str_eqb_eq. tauto.
Qed.

Lemma has_key_mem {V} (m : list (str * V)) k : has_key m k = mem k (map fst m).
Proof.
  destruct (mem k (map fst m)) eqn:E.
  - apply has_key_In. now apply mem_In.
  - apply has_key_false. intros H. apply mem_In in H. congruence.
Qed.

Lemma filter_map_fst {V} (f : str -> bool) (l : list (str * V)) :
  map fst (filter (fun p => f (fst p)) l) = filter f (map fst l).
Proof. induction l as [|[k v] l IH]; cbn; auto. destruct (f k); cbn; now rewrite IH. Qed.

(** [find_matching_interface_name], followed by the fall-back to the identifier, is the path rule
    of the reference under the flag [exact_name_first] *)
Lemma find_matching_is_path_rule {V} (nm : str) (externs : list (str * V)) :
  (match find_matching_interface_name nm externs with Some n => n | None => nm end)
  = path_or_self impl_flags_c04 nm (map fst externs).
Proof.
  unfold find_matching_interface_name, path_or_self, unique_path_ending. cbn [exact_name_first impl_flags_c04 andb].
  rewrite <- has_key_mem. destruct (has_key externs nm); [reflexivity|].
  rewrite <- (filter_map_fst (ends_with_name nm)).
  replace (filter (fun p : str * V => match last_segment (fst p) with Some t => str_eqb t nm | None => false end) externs)
    with (filter (fun p : str * V => ends_with_name nm (fst p)) externs).
  2:{ apply filter_ext. intros [k v]. unfold ends_with_name. cbn [fst]. now rewrite last_segment_path_segment. }
  destruct (filter (fun p : str * V => ends_with_name nm (fst p)) externs) as [|p [|q r]]; reflexivity.
Qed.

Lemma named_name_spec (imports : list (str * kid)) a :
  named_name imports a = arg_name_of impl_flags_c04 (map fst imports) a.
Proof. destruct a as [i|s]; cbn; [apply find_matching_is_path_rule|reflexivity]. Qed.

(** * Part 3: graph frames (the resolver never frees a node) and access expressions *)
Local Open Scope nat_scope.

Lemma add_node_nofree g nd g' i :
  free_nodes g = [] -> add_node g nd = (g', i) ->
  i = length (nodes g) /\ nodes g' = nodes g ++ [Some nd] /\ free_nodes g' = [] /\ edges g' = edges g /\
  imports g' = imports g /\ exports g' = exports g /\ defined g' = defined g /\ pkgs g' = pkgs g /\
  free_pkgs g' = free_pkgs g.
Proof. unfold add_node. intros ->. intros [= <- <-]. cbn. repeat split; auto. Qed.

Lemma get_node_app_old (ns : list (option node)) x k (nd : node) :
  match nth_error ns k with Some (Some a) => Some a | _ => None end = Some nd ->
  match nth_error (ns ++ [x]) k with Some (Some a) => Some a | _ => None end = Some nd.
Proof.
  intros H. assert (L : k < length ns).
  { apply nth_error_Some. intros E. rewrite E in H. discriminate. }
  now rewrite nth_error_app1.
Qed.

(** the resolver never frees a node or a package slot *)
Definition nofree (g : gstate) : Prop := free_nodes g = [] /\ free_pkgs g = [].

(** what an operation may do to the parts of the graph the resolver reads back *)
Record gframe (g g' : gstate) : Prop := {
  gf_free : nofree g';
  gf_len : length (nodes g) <= length (nodes g');
  gf_nodes : forall k a, get_node g k = Some a ->
             exists b, get_node g' k = Some b /\ nitem b = nitem a /\ npkg b = npkg a /\
                       (forall nm, nk b = NImport nm <-> nk a = NImport nm) /\ (nk b = NDef <-> nk a = NDef);
  gf_pkgs : forall id p, get_pkg g id = Some p -> get_pkg g' id = Some p }.

Lemma gframe_refl g : nofree g -> gframe g g.
Proof. intros H. constructor; auto. intros k a G. exists a. repeat split; auto. Qed.

Lemma gframe_trans g1 g2 g3 : gframe g1 g2 -> gframe g2 g3 -> gframe g1 g3.
Proof.
  intros [F1 L1 N1 P1] [F2 L2 N2 P2]. constructor; auto; [lia|].
  intros k a G. destruct (N1 k a G) as (b & G2 & I & P & K & D). destruct (N2 k b G2) as (c & G3 & I' & P' & K' & D').
  exists c. repeat split; try congruence; try (intros H; apply K, K'; auto; fail); try (intros H; apply K', K; auto; fail);
    try tauto.
Qed.

Lemma alias_same_nodes (u : universe) g n e g' o :
  nofree g -> alias u g n e = (g', o) ->
  nofree g' /\ pkgs g' = pkgs g /\ exports g' = exports g /\ imports g' = imports g /\
  length (nodes g) <= length (nodes g') /\
  (forall k nd, get_node g k = Some nd -> get_node g' k = Some nd).
Proof.
  intros [F Fp]. unfold alias. destruct (get_node g n) as [nd|]; [|intros [= <- <-]; repeat split; auto].
  destruct (u_inst_exports u (nitem nd)) as [ex|]; [|intros [= <- <-]; repeat split; auto].
  destruct (get_full ex e 0) as [[index kind]|]; [|intros [= <- <-]; repeat split; auto].
  destruct (find _ (outgoing g n)); [intros [= <- <-]; repeat split; auto|].
  destruct (add_node g (mk_node NAlias kind (npkg nd))) as [s1 idx] eqn:A.
  apply add_node_nofree in A as (-> & Hn & F' & He & Hi & Hx & Hd & Hp & Hf); auto.
  intros [= <- <-]. cbn. split; [split; [exact F'|cbn; congruence]|]. split; [exact Hp|]. split; [exact Hx|]. split; [exact Hi|]. split.
  - rewrite Hn, app_length. cbn. lia.
  - intros k a G. unfold get_node in *. cbn. rewrite Hn. now apply get_node_app_old.
Qed.

Lemma alias_gframe (u : universe) g n e g' o : nofree g -> alias u g n e = (g', o) -> gframe g g'.
Proof.
  intros F A. destruct (alias_same_nodes u g n e g' o F A) as (F' & P & _ & _ & L & N). constructor; auto.
  - intros k a G. exists a. rewrite (N k a G). repeat split; auto.
  - intros id p. unfold get_pkg. now rewrite P.
Qed.

Section Access.
  Variable u : runiverse.
  Variable self_name : str.

  Lemma kind_of_inl n st k st' :
    kind_of n st = inl (k, st') -> st' = st /\ exists nd, get_node (rs_g st) n = Some nd /\ k = nitem nd.
  Proof.
    unfold kind_of. intros H. apply bind_inl in H as (g & s1 & H1 & H). apply get_g_inl in H1 as [-> ->].
    destruct (get_node (rs_g st) n) as [nd|]; [|discriminate]. apply ret_inl in H as [-> ->]. eauto.
  Qed.

  Lemma gop_inl f st o st' :
    gop f st = inl (o, st') -> f (rs_g st) = (rs_g st', o) /\ rs_scope st' = rs_scope st.
  Proof.
    unfold gop. intros H. apply bind_inl in H as (g & s1 & H1 & H). apply get_g_inl in H1 as [-> ->].
    destruct (f (rs_g st)) as [g' o'] eqn:E. apply bind_inl in H as ([] & s2 & H1 & H).
    unfold put_g in H1. injection H1 as E1; subst s2. apply ret_inl in H as [-> ->]. cbn. auto.
  Qed.

  (** [alias_export]: [None] exactly when the instance has no such export (nothing changes);
      otherwise the graph's alias of that export *)
  Lemma alias_export_inl item nm at_ op st r st' :
    alias_export u item nm at_ op st = inl (r, st') ->
    exists nd ex, get_node (rs_g st) item = Some nd /\ inst_exports u (nitem nd) = Some ex /\
      rs_scope st' = rs_scope st /\
      ((has_key ex nm = false /\ r = None /\ st' = st) \/
       (has_key ex nm = true /\ exists n, r = Some n /\
          alias u (rs_g st) item (ru_intern u nm) = (rs_g st', ONode n))).
  Proof.
    unfold alias_export. intros H. apply bind_inl in H as (k & s1 & H1 & H).
    apply kind_of_inl in H1 as (-> & nd & G & ->).
    destruct (inst_exports u (nitem nd)) as [ex|] eqn:IE; [|discriminate].
    exists nd, ex. split; auto. split; auto.
    destruct (has_key ex nm) eqn:HK.
    - apply bind_inl in H as (o & s2 & H1 & H). apply gop_inl in H1 as [A Sc].
      destruct o; try discriminate. apply ret_inl in H as [-> ->]. split; auto. right. split; auto. eauto.
    - apply ret_inl in H as [-> ->]. split; auto.
  Qed.

  Lemma alias_export_not_instance item nm at_ op st e :
    alias_export u item nm at_ op st = inr (FErr e) ->
    e = ENotAnInstance op at_ /\ exists nd, get_node (rs_g st) item = Some nd /\ inst_exports u (nitem nd) = None.
  Proof.
    unfold alias_export. intros H. apply bind_inr in H as [H|(k & s1 & H1 & H)].
    - unfold kind_of in H. apply bind_inr in H as [H|(g & s1 & H1 & H)]; [discriminate|].
      apply get_g_inl in H1 as [-> ->]. destruct (get_node (rs_g st) item); discriminate.
    - apply kind_of_inl in H1 as (-> & nd & G & ->).
      destruct (inst_exports u (nitem nd)) as [ex|] eqn:IE.
      + destruct (has_key ex nm); [|discriminate].
        apply bind_inr in H as [H|(o & s2 & H1 & H)].
        * unfold gop in H. apply bind_inr in H as [H|(g & s3 & H1 & H)]; [discriminate|].
          apply get_g_inl in H1 as [-> ->]. destruct (alias u (rs_g st) item (ru_intern u nm)) as [g' o'].
          apply bind_inr in H as [H|(x & s4 & H1 & H)]; discriminate.
        * destruct o; discriminate.
      + injection H as <-. split; auto. eauto.
  Qed.

  (** the name an access expression selects, as the reference states it (under the flags) *)
  Definition access_name (pe : postfix_expr) (exports : list str) : str :=
    match pe with
    | PAccess _ id => path_or_self impl_flags_c04 (id_string id) exports
    | PNamedAccess _ s => s_value s
    end.

  (** 3. access expressions: [e.id] / [e["name"]] succeed exactly on an instance that has the export
      the reference names, and yield the graph's alias of that export of that instance *)
  Theorem access_spec_ok item pe parent st n st' :
    eval_postfix u item pe parent st = inl (n, st') ->
    exists nd ex,
      get_node (rs_g st) item = Some nd /\ inst_exports u (nitem nd) = Some ex /\
      has_key ex (access_name pe (map fst ex)) = true /\
      alias u (rs_g st) item (ru_intern u (access_name pe (map fst ex))) = (rs_g st', ONode n) /\
      rs_scope st' = rs_scope st.
  Proof.
    destruct pe as [sp id|sp s]; cbn [eval_postfix access_name]; intros H.
    - apply bind_inl in H as (k & s1 & H1 & H). apply kind_of_inl in H1 as (-> & nd & G & ->).
      destruct (inst_exports u (nitem nd)) as [ex|] eqn:IE; [|discriminate].
      rewrite find_matching_is_path_rule in H.
      apply bind_inl in H as (r & s2 & H1 & H).
      apply alias_export_inl in H1 as (nd' & ex' & G' & IE' & Sc & [(HK & -> & ->)|(HK & m & -> & A)]); [discriminate|].
      rewrite G in G'. injection G' as <-. rewrite IE in IE'. injection IE' as <-.
      apply ret_inl in H as [-> ->]. exists nd, ex. auto.
    - apply bind_inl in H as (r & s2 & H1 & H).
      apply alias_export_inl in H1 as (nd' & ex' & G' & IE' & Sc & [(HK & -> & ->)|(HK & m & -> & A)]); [discriminate|].
      apply ret_inl in H as [-> ->]. exists nd', ex'. auto.
  Qed.

  (** ... and the two ways they are ill-formed, with the diagnostics *)
  Theorem access_spec_err item pe parent st e :
    eval_postfix u item pe parent st = inr (FErr e) ->
    exists nd, get_node (rs_g st) item = Some nd /\
      match inst_exports u (nitem nd) with
      | None => e = ENotAnInstance OpAccess parent
      | Some ex => has_key ex (access_name pe (map fst ex)) = false /\
                   e = EMissingInstanceExport (access_name pe (map fst ex)) (off (postfix_span pe))
      end.
  Proof.
    destruct pe as [sp id|sp s]; cbn [eval_postfix access_name postfix_span]; intros H.
    - apply bind_inr in H as [H|(k & s1 & H1 & H)].
      { unfold kind_of in H. apply bind_inr in H as [H|(g & s1 & H1 & H)]; [discriminate|].
        apply get_g_inl in H1 as [-> ->]. destruct (get_node (rs_g st) item); discriminate. }
      apply kind_of_inl in H1 as (-> & nd & G & ->). exists nd. split; auto.
      destruct (inst_exports u (nitem nd)) as [ex|] eqn:IE; [|now injection H as <-].
      rewrite find_matching_is_path_rule in H.
      apply bind_inr in H as [H|(r & s2 & H1 & H)].
      + apply alias_export_not_instance in H as (_ & nd' & G' & IE'). rewrite G in G'. injection G' as <-. congruence.
      + apply alias_export_inl in H1 as (nd' & ex' & G' & IE' & Sc & [(HK & -> & ->)|(HK & m & -> & A)]); [|discriminate].
        rewrite G in G'. injection G' as <-. rewrite IE in IE'. injection IE' as <-. injection H as <-. auto.
    - apply bind_inr in H as [H|(r & s2 & H1 & H)].
      + apply alias_export_not_instance in H as (-> & nd' & G' & IE'). exists nd'. rewrite IE'. auto.
      + apply alias_export_inl in H1 as (nd' & ex' & G' & IE' & Sc & [(HK & -> & ->)|(HK & m & -> & A)]); [|discriminate].
        exists nd'. rewrite IE'. injection H as <-. auto.
  Qed.
End Access.

(** * Part 4: instantiation arguments *)
Section Args.
  Variable u : runiverse.
  Variable self_name : str.

  (** the import name / accessed export name a node carries *)
  Definition node_source (g : gstate) (n : nat) : option str :=
    match get_node g n with
    | Some nd =>
        match nk nd with
        | NImport nm => Some (ru_text u nm)
        | _ => match get_alias_source u g n with Some (_, nm) => Some (ru_text u nm) | None => None end
        end
    | None => None
    end.

  (** the name of an inferred argument is the one the four rules of the reference give, from the
      package path of the item's type, the import/export name it came from, and the identifier *)
  Lemma inferred_name_spec imports id item st nm st' :
    inferred_name u imports id item st = inl (nm, st') ->
    st' = st /\ exists nd, get_node (rs_g st) item = Some nd /\
      nm = infer_arg_name impl_flags_c04 (map fst imports) (id_string id)
                          (instance_id u (nitem nd)) (node_source (rs_g st) item).
  Proof.
    unfold inferred_name. intros H. apply bind_inl in H as (k & s1 & H1 & H).
    apply kind_of_inl in H1 as (-> & nd & G & ->).
    enough (E : st' = st /\ nm = infer_arg_name impl_flags_c04 (map fst imports) (id_string id)
                                   (instance_id u (nitem nd)) (node_source (rs_g st) item))
      by (destruct E; split; eauto).
    unfold infer_arg_name, node_source. rewrite G.
    assert (Tail : forall s,
      (match find_matching_interface_name (id_string id) imports with Some n => ret n | None => ret (id_string id) end) s
      = inl (nm, st') -> st' = s /\ nm = path_or_self impl_flags_c04 (id_string id) (map fst imports)).
    { intros s. rewrite <- (find_matching_is_path_rule (id_string id) imports).
      destruct (find_matching_interface_name (id_string id) imports); intros X; apply ret_inl in X as [-> ->]; auto. }
    assert (Src : forall (src : option str) s,
      (match (match src with Some x => if has_key imports x then Some x else None | None => None end) with
       | Some x => ret x
       | None => match find_matching_interface_name (id_string id) imports with Some n => ret n | None => ret (id_string id) end
       end) s = inl (nm, st') ->
      st' = s /\ nm = match (match src with Some x => if mem x (map fst imports) then Some x else None | None => None end) with
                      | Some x => x | None => path_or_self impl_flags_c04 (id_string id) (map fst imports) end).
    { intros [x|] s; [|apply Tail]. rewrite <- has_key_mem. destruct (has_key imports x); [|apply Tail].
      intros X; apply ret_inl in X as [-> ->]; auto. }
    destruct (instance_id u (nitem nd)) as [i|] eqn:II.
    - rewrite <- has_key_mem. destruct (has_key imports i) eqn:HK.
      + apply ret_inl in H as [-> ->]. auto.
      + apply bind_inl in H as (g & s2 & H1 & H). apply get_g_inl in H1 as [-> ->].
        unfold node_import_name in H. rewrite G in H.
        destruct (nk nd) as [|inm|sat|] eqn:K.
        * apply (Src (match get_alias_source u (rs_g st) item with Some (_, nm0) => Some (ru_text u nm0) | None => None end)).
          destruct (get_alias_source u (rs_g st) item) as [[src anm]|]; exact H.
        * apply (Src (Some (ru_text u inm))). exact H.
        * apply (Src (match get_alias_source u (rs_g st) item with Some (_, nm0) => Some (ru_text u nm0) | None => None end)).
          destruct (get_alias_source u (rs_g st) item) as [[src anm]|]; exact H.
        * apply (Src (match get_alias_source u (rs_g st) item with Some (_, nm0) => Some (ru_text u nm0) | None => None end)).
          destruct (get_alias_source u (rs_g st) item) as [[src anm]|]; exact H.
    - apply bind_inl in H as (g & s2 & H1 & H). apply get_g_inl in H1 as [-> ->].
      unfold node_import_name in H. rewrite G in H.
      destruct (nk nd) as [|inm|sat|] eqn:K.
      * apply (Src (match get_alias_source u (rs_g st) item with Some (_, nm0) => Some (ru_text u nm0) | None => None end)).
        destruct (get_alias_source u (rs_g st) item) as [[src anm]|]; exact H.
      * apply (Src (Some (ru_text u inm))). exact H.
      * apply (Src (match get_alias_source u (rs_g st) item with Some (_, nm0) => Some (ru_text u nm0) | None => None end)).
        destruct (get_alias_source u (rs_g st) item) as [[src anm]|]; exact H.
      * apply (Src (match get_alias_source u (rs_g st) item with Some (_, nm0) => Some (ru_text u nm0) | None => None end)).
        destruct (get_alias_source u (rs_g st) item) as [[src anm]|]; exact H.
  Qed.

  (** ** the first pass: explicit arguments *)
  Definition is_fill_arg (a : inst_arg) : bool := match a with AFill _ => true | _ => false end.
  Definition is_explicit_arg (a : inst_arg) : bool := match a with AInferred _ | ANamed _ _ => true | _ => false end.

  Lemma tbl_insert_inl t nm item at_ st t' st' :
    tbl_insert t nm item at_ st = inl (t', st') -> st' = st /\ has_key t nm = false /\ t' = t ++ [(nm, (item, at_))].
  Proof. unfold tbl_insert. destruct (has_key t nm); [discriminate|]. intros H. apply ret_inl in H as [-> ->]. auto. Qed.

  Lemma NoDup_keys_snoc (t : argtbl) nm x : NoDup (map fst t) -> has_key t nm = false -> NoDup (map fst (t ++ [(nm, x)])).
  Proof.
    intros ND HK. rewrite map_app. cbn. apply has_key_false in HK.
    clear -ND HK. induction (map fst t) as [|a l IH]; cbn; [constructor; auto; constructor|].
    inversion ND; subst. constructor.
    - rewrite in_app_iff. cbn. intros [H|[->|[]]]; [auto|]. apply HK. now left.
    - apply IH; auto. intros H. apply HK. now right.
  Qed.

  (** after the first pass: the table has one entry per explicit argument, in order, with distinct
      names; [...] is accepted only as the last argument and clears [require_all] *)
  Lemma pass1_inl evalf imports args : forall t req st t' req' st',
    pass1 u evalf imports args t req st = inl ((t', req'), st') ->
    NoDup (map fst t) ->
    NoDup (map fst t') /\
    (exists ex, t' = t ++ ex /\ length ex = length (filter is_explicit_arg args)) /\
    req' = (req && negb (existsb is_fill_arg args)) /\
    (forall pre sp post, args = pre ++ AFill sp :: post -> post = []).
  Proof.
    induction args as [|a r IH]; intros t req st t' req' st' H ND.
    - cbn in H. apply ret_inl in H as [[= -> ->] ->]. repeat split; auto.
      + exists []. now rewrite app_nil_r.
      + now rewrite andb_true_r.
      + intros [|? ?] sp post E; discriminate.
    - destruct a as [id|id|an e|sp]; cbn [pass1] in H.
      + apply bind_inl in H as (item & s1 & H1 & H). apply bind_inl in H as (nm & s2 & H2 & H).
        apply bind_inl in H as (t1 & s3 & H3 & H). apply tbl_insert_inl in H3 as (-> & HK & ->).
        apply IH in H as (ND' & (ex & -> & L) & -> & F); [|now apply NoDup_keys_snoc].
        repeat split; auto.
        * exists ((nm, (item, off (id_span id))) :: ex). split; [now rewrite <- app_assoc|]. cbn. now rewrite L.
        * intros [|x pre] sp post E; [discriminate|]. injection E as _ E. eauto.
      + apply IH in H as (ND' & (ex & -> & L) & -> & F); auto. repeat split; auto.
        * exists ex. auto.
        * intros [|x pre] sp post E; [discriminate|]. injection E as _ E. eauto.
      + apply bind_inl in H as (item & s1 & H1 & H).
        apply bind_inl in H as (t1 & s3 & H3 & H). apply tbl_insert_inl in H3 as (-> & HK & ->).
        apply IH in H as (ND' & (ex & -> & L) & -> & F); [|now apply NoDup_keys_snoc].
        repeat split; auto.
        * exists ((named_name imports an, (item, arg_name_at an)) :: ex). split; [now rewrite <- app_assoc|]. cbn. now rewrite L.
        * intros [|x pre] sp post E; [discriminate|]. injection E as _ E. eauto.
      + destruct r as [|b r]; [|discriminate].
        cbn in H. apply ret_inl in H as [[= -> ->] ->]. repeat split; auto.
        * exists []. now rewrite app_nil_r.
        * cbn. now rewrite andb_false_r.
        * intros [|x pre] sp' post E; [now injection E as _ <-|]. injection E as _ E. destruct pre; discriminate.
  Qed.

  (** a [...] that is not the last argument is rejected where it stands *)
  Lemma pass1_fill_not_last evalf imports sp b r t req st :
    pass1 u evalf imports (AFill sp :: b :: r) t req st = inr (FErr (EFillArgumentNotLast (off sp))).
  Proof. reflexivity. Qed.

  (** a repeated argument name is rejected at the second occurrence *)
  Lemma tbl_insert_duplicate t nm item at_ st :
    has_key t nm = true <-> tbl_insert t nm item at_ st = inr (FErr (EDuplicateInstantiationArg nm at_)).
  Proof. unfold tbl_insert. destruct (has_key t nm); split; auto; discriminate. Qed.

  (** ** the second pass: spread arguments *)
  (** [n] is the graph's alias of export [nm] of the node [item] *)
  Definition alias_witness (item : nat) (nm : str) (n : nat) : Prop :=
    exists g g', alias u g item (ru_intern u nm) = (g', ONode n).

  Lemma has_key_snoc_other {V} (t : list (str * V)) nm v x : x <> nm -> has_key (t ++ [(nm, v)]) x = has_key t x.
  Proof.
    intros Hne. unfold has_key. rewrite im_get_app. destruct (im_get t x); auto. cbn.
    destruct (str_eqb nm x) eqn:E; auto. apply str_eqb_eq in E. congruence.
  Qed.

  Definition spread_filter (t : argtbl) (ex : list (str * kid)) (expected : list str) : list str :=
    filter (fun n => negb (has_key t n) && has_key ex n) expected.

  Lemma spread_names_inl item at_ nd ex : forall expected t any st t' any' st',
    spread_names u item at_ expected t any st = inl ((t', any'), st') ->
    nofree (rs_g st) -> NoDup expected ->
    get_node (rs_g st) item = Some nd -> inst_exports u (nitem nd) = Some ex ->
    exists adds, t' = t ++ adds /\
      map fst adds = spread_filter t ex expected /\
      Forall (fun p => snd (snd p) = at_ /\ alias_witness item (fst p) (fst (snd p))) adds /\
      any' = (any || negb (is_nil adds)) /\
      nofree (rs_g st') /\ rs_scope st' = rs_scope st /\ get_node (rs_g st') item = Some nd /\
      gframe (rs_g st) (rs_g st').
  Proof.
    induction expected as [|nm r IH]; intros t any st t' any' st' H F ND G IE.
    - cbn in H. apply ret_inl in H as [[= -> ->] ->]. exists []. rewrite app_nil_r, orb_false_r.
      split; [reflexivity|]. split; [reflexivity|]. split; [constructor|]. split; [reflexivity|]. split; [exact F|].
      split; [reflexivity|]. split; [exact G|now apply gframe_refl].
    - inversion ND as [|? ? Hnot ND']; subst. cbn [spread_names] in H. unfold spread_filter. cbn [filter].
      destruct (has_key t nm) eqn:HK.
      + cbn [negb andb]. now apply IH.
      + apply bind_inl in H as (a & s1 & H1 & H).
        apply alias_export_inl in H1 as (nd' & ex' & G' & IE' & Sc & [(HK' & -> & ->)|(HK' & n & -> & A)]);
          rewrite G in G'; injection G' as <-; rewrite IE in IE'; injection IE' as <-; rewrite HK'; cbn [negb andb].
        * now apply IH.
        * destruct (alias_same_nodes u _ _ _ _ _ F A) as (F1 & _ & _ & _ & _ & N1).
          apply IH in H as (adds & -> & MF & FA & -> & F2 & Sc2 & G2 & GF); auto.
          exists ((nm, (n, at_)) :: adds). rewrite <- app_assoc. split; [reflexivity|].
          split; [|split; [|split; [|split; [|split; [|split]]]]]; auto.
          -- cbn [map fst]. f_equal. rewrite MF. unfold spread_filter. apply filter_ext_in. intros x Hx.
             rewrite has_key_snoc_other; auto. intros ->. contradiction.
          -- constructor; auto. cbn. split; auto. exists (rs_g st), (rs_g s1). exact A.
          -- cbn. now rewrite orb_true_r.
          -- congruence.
          -- eapply gframe_trans; [eapply alias_gframe; eauto|exact GF].
  Qed.

  Lemma local_item_inl id st n st' :
    local_item id st = inl (n, st') -> st' = st /\ exists at0, im_get (rs_scope st) (id_string id) = Some (n, at0).
  Proof.
    unfold local_item. intros H. apply bind_inl in H as (sc & s1 & H1 & H). apply get_scope_inl in H1 as [-> ->].
    destruct (im_get (rs_scope st) (id_string id)) as [[m a]|]; [|discriminate]. apply ret_inl in H as [-> ->]. eauto.
  Qed.

  (** an undefined local name is rejected with its own diagnostic, and only then *)
  Lemma local_item_undefined id st :
    im_get (rs_scope st) (id_string id) = None <->
    local_item id st = inr (FErr (EUndefinedName (id_string id) (off (id_span id)))).
  Proof.
    unfold local_item, bind, get_scope. destruct (im_get (rs_scope st) (id_string id)) as [[m a]|]; split; auto; discriminate.
  Qed.

  Record spread_rec := { sr_id : ident; sr_item : nat; sr_exports : list (str * kid); sr_adds : argtbl }.

  Definition spread_entry_ok (r : spread_rec) (p : str * (nat * N)) : Prop :=
    snd (snd p) = off (id_span (sr_id r)) /\ alias_witness (sr_item r) (fst p) (fst (snd p)).

  (** the table after the spreads [recs], applied in order to the table [t] *)
  Inductive spreads_from (expected : list str) : argtbl -> list spread_rec -> argtbl -> Prop :=
  | SF_nil t : spreads_from expected t [] t
  | SF_cons t r rest t' :
      map fst (sr_adds r) = spread_filter t (sr_exports r) expected ->
      sr_adds r <> [] ->
      Forall (spread_entry_ok r) (sr_adds r) ->
      spreads_from expected (t ++ sr_adds r) rest t' ->
      spreads_from expected t (r :: rest) t'.

  Lemma spread_arg_inl id expected t st t' st' :
    spread_arg u id expected t st = inl (t', st') -> nofree (rs_g st) -> NoDup expected ->
    exists item at0 nd ex adds,
      im_get (rs_scope st) (id_string id) = Some (item, at0) /\ get_node (rs_g st) item = Some nd /\
      inst_exports u (nitem nd) = Some ex /\ t' = t ++ adds /\ map fst adds = spread_filter t ex expected /\
      adds <> [] /\
      Forall (fun p => snd (snd p) = off (id_span id) /\ alias_witness item (fst p) (fst (snd p))) adds /\
      nofree (rs_g st') /\ rs_scope st' = rs_scope st /\ gframe (rs_g st) (rs_g st').
  Proof.
    unfold spread_arg. intros H F ND. apply bind_inl in H as (item & s1 & H1 & H).
    apply local_item_inl in H1 as (-> & at0 & L). apply bind_inl in H as (k & s2 & H1 & H).
    apply kind_of_inl in H1 as (-> & nd & G & ->).
    destruct (u_inst_exports u (nitem nd)) as [l|] eqn:UE; [|discriminate].
    apply bind_inl in H as ([t2 any] & s3 & H1 & H).
    eapply spread_names_inl in H1 as (adds & -> & MF & FA & -> & F2 & Sc2 & G2 & GF); eauto.
    2:{ unfold inst_exports. rewrite UE. reflexivity. }
    cbn [orb] in H. destruct adds as [|a adds]; [discriminate|]. cbn in H. apply ret_inl in H as [-> ->].
    exists item, at0, nd, (text_items u l), (a :: adds).
    split; [exact L|]. split; [exact G|]. split; [unfold inst_exports; now rewrite UE|]. split; [reflexivity|].
    split; [exact MF|]. split; [discriminate|]. split; [exact FA|]. split; [exact F2|]. split; [exact Sc2|exact GF].
  Qed.

  Definition spread_idents (args : list inst_arg) : list ident :=
    flat_map (fun a => match a with ASpread id => [id] | _ => [] end) args.

  (** what is known of a spread when it was applied: its identifier names a node of the scope
      whose kind is an instance with the recorded exports *)
  Definition spread_rec_ok (st : rstate) (r : spread_rec) : Prop :=
    exists at0 nd s, im_get (rs_scope st) (id_string (sr_id r)) = Some (sr_item r, at0) /\
      gframe (rs_g st) (rs_g s) /\ get_node (rs_g s) (sr_item r) = Some nd /\
      inst_exports u (nitem nd) = Some (sr_exports r).

  Lemma pass2_inl expected : forall args t st t' st',
    pass2 u args expected t st = inl (t', st') -> nofree (rs_g st) -> NoDup expected ->
    exists recs, map sr_id recs = spread_idents args /\ Forall (spread_rec_ok st) recs /\
      spreads_from expected t recs t' /\
      nofree (rs_g st') /\ rs_scope st' = rs_scope st /\ gframe (rs_g st) (rs_g st').
  Proof.
    induction args as [|a r IH]; intros t st t' st' H F ND.
    - cbn in H. apply ret_inl in H as [-> ->]. exists []. split; [reflexivity|]. split; [constructor|]. split; [constructor|].
      split; [exact F|]. split; [reflexivity|now apply gframe_refl].
    - destruct a as [id|id|an e|sp]; cbn [pass2] in H; cbn [spread_idents flat_map app]; try (now apply IH).
      apply bind_inl in H as (t1 & s1 & H1 & H).
      apply spread_arg_inl in H1 as (item & at0 & nd & ex & adds & L & G & IE & -> & MF & NE & FA & F1 & Sc1 & GF1); auto.
      apply IH in H as (recs & Ids & Oks & SF & F2 & Sc2 & GF2); auto.
      exists ({| sr_id := id; sr_item := item; sr_exports := ex; sr_adds := adds |} :: recs).
      split; [cbn; now rewrite Ids|]. split; [|split; [|split; [|split]]]; auto.
      + constructor.
        * exists at0, nd, st. cbn. split; [exact L|]. split; [now apply gframe_refl|]. split; [exact G|exact IE].
        * eapply Forall_impl; [|exact Oks]. intros rr (a0 & n0 & s & L0 & GF0 & G0 & I0).
          exists a0, n0, s. rewrite <- Sc1. split; [exact L0|]. split; [eapply gframe_trans; eauto|]. split; [exact G0|exact I0].
      + constructor; auto.
      + congruence.
      + eapply gframe_trans; eauto.
  Qed.

  (** ** the binding of every import *)
  Definition to_src (r : spread_rec) : spread_src (nat * N) :=
    {| sp_val := (sr_item r, off (id_span (sr_id r))); sp_exports := map fst (sr_exports r) |}.

  Lemma NoDup_filter_str (f : str -> bool) l : NoDup l -> NoDup (filter f l).
  Proof.
    induction l as [|a l IH]; cbn; auto. intros ND. inversion ND; subst. destruct (f a); auto.
    constructor; auto. intros H. apply filter_In in H as [H _]. contradiction.
  Qed.

  Lemma spreads_from_binding expected fill : forall t recs t',
    spreads_from expected t recs t' -> NoDup expected ->
    forall i, In i expected ->
    match bind_import t (map to_src recs) fill i with
    | BExplicit x => im_get t' i = Some x
    | BSpread sp => exists n, im_get t' i = Some (n, snd (sp_val sp)) /\ alias_witness (fst (sp_val sp)) i n
    | BImplicit | BMissing => im_get t' i = None
    end.
  Proof.
    induction 1 as [t|t r rest t' MF NE FA SF IH]; intros ND i Hi.
    - unfold bind_import. cbn. destruct (im_get t i) eqn:E; auto. destruct fill; auto.
    - specialize (IH ND i Hi). unfold bind_import in *. cbn [map first_spread find]. fold (first_spread (map to_src rest) i).
      rewrite im_get_app in IH. destruct (im_get t i) as [v|] eqn:E; [exact IH|].
      cbn [to_src sp_exports]. rewrite <- has_key_mem.
      destruct (has_key (sr_exports r) i) eqn:HK.
      + (* the first spread that exports [i] *)
        assert (Hin : In i (map fst (sr_adds r))).
        { rewrite MF. unfold spread_filter. apply filter_In. split; auto. unfold has_key at 1. now rewrite E, HK. }
        apply in_map_iff in Hin as ([k [n a]] & Hk & Hin). cbn in Hk. subst k.
        assert (NDa : NoDup (map fst (sr_adds r))) by (rewrite MF; now apply NoDup_filter_str).
        rewrite (In_im_get _ _ _ NDa Hin) in IH.
        rewrite Forall_forall in FA. destruct (FA _ Hin) as [At W]. cbn in At, W. subst a.
        cbn [sp_val to_src fst snd]. eauto.
      + assert (Hnot : ~ In i (map fst (sr_adds r))).
        { rewrite MF. unfold spread_filter. intros H. apply filter_In in H as [_ H]. rewrite HK, andb_false_r in H. discriminate. }
        apply im_get_None in Hnot. rewrite Hnot in IH. exact IH.
  Qed.
End Args.
