(** Lexer classes, part A: the identifier scanner [id_len] against the class [id_b] of
    spec/LexClasses.v. For the scanner we prove
      - soundness: the prefix it returns is in the class;
      - maximality: a prefix that is in the class is never longer than what the scanner returns;
      - exactness: on [w ++ rest] with [w] in the class and [rest] not continuing it, it returns [|w|];
      - the stop condition: what follows the returned prefix does not continue it. *)
From WacV Require Import Str Token Lexer LexSpec Semver Ast Parser LexClasses.
From Coq Require Import Lia.
Local Open Scope nat_scope.

(* ------------------------------------------------------------------ lists *)

Lemma split_on_not_nil c s : split_on c s <> [].
Proof.
  destruct s as [|x r]; cbn [split_on]; [discriminate|].
  destruct (x =? c)%N; [discriminate|]. destruct (split_on c r); discriminate.
Qed.

Lemma firstn_app_exact {A} (a b : list A) : firstn (length a) (a ++ b) = a.
Proof. induction a as [|x a IH]; cbn; [now destruct b|now rewrite IH]. Qed.

Lemma skipn_app_exact {A} (a b : list A) : skipn (length a) (a ++ b) = b.
Proof. induction a as [|x a IH]; cbn; auto. Qed.

Lemma firstn_plus {A} (a b : nat) (l : list A) : firstn (a + b) l = firstn a l ++ firstn b (skipn a l).
Proof.
  revert l. induction a as [|a IH]; intros l; cbn [Nat.add firstn skipn app]; auto.
  destruct l as [|x l]; cbn [firstn skipn app]; [now destruct b|]. now rewrite IH.
Qed.

Lemma skipn_plus {A} (a b : nat) (l : list A) : skipn (a + b) l = skipn b (skipn a l).
Proof.
  revert l. induction a as [|a IH]; intros l; cbn [Nat.add skipn]; auto.
  destruct l as [|x l]; cbn [skipn]; [now destruct b|]. apply IH.
Qed.

(* ------------------------------------------------------------------ characters *)

Lemma lower_not_upper c : is_lower c = true -> is_upper c = false.
Proof. unfold is_lower, is_upper. intros H. apply andb_true_iff in H. destruct H as [H1 H2].
  apply N.leb_le in H1. apply andb_false_iff. right. apply N.leb_gt. lia. Qed.

Lemma upper_not_lower c : is_upper c = true -> is_lower c = false.
Proof. intros H. destruct (is_lower c) eqn:E; auto. apply lower_not_upper in E. congruence. Qed.

Lemma digit_not_alpha c : is_digit c = true -> is_alpha c = false.
Proof.
  unfold is_digit, is_alpha, is_upper, is_lower. intros H. apply andb_true_iff in H. destruct H as [H1 H2].
  apply N.leb_le in H1, H2. apply orb_false_iff. split; apply andb_false_iff; left; apply N.leb_gt; lia.
Qed.

Lemma is_lower_minus : is_lower c_minus = false. Proof. reflexivity. Qed.
Lemma is_upper_minus : is_upper c_minus = false. Proof. reflexivity. Qed.

Section Id.
Variable d : deviations.
Notation au := (uppercase_words d).

Definition cont_b (up : bool) (c : N) : bool := if up then upper_or_digit c else lower_or_digit c.

Lemma cont_b_minus up : cont_b up c_minus = false.
Proof. destruct up; reflexivity. Qed.

(** Inside a word of case [up]: the rest of that word, then ('-' word)*. *)
Definition tail_b (up : bool) (s : str) : bool :=
  match split_on c_minus s with
  | seg :: segs => forallb (cont_b up) seg && forallb (word_b d) segs
  | [] => false
  end.

Lemma tail_b_nil up : tail_b up [] = true.
Proof. reflexivity. Qed.

Lemma kebab_b_nil : kebab_b d [] = false.
Proof. unfold kebab_b, word_b. cbn. now rewrite andb_false_r. Qed.

Lemma tail_b_cons up c r :
  tail_b up (c :: r) = if (c =? c_minus)%N then kebab_b d r else cont_b up c && tail_b up r.
Proof.
  unfold tail_b, kebab_b. cbn [split_on]. destruct (c =? c_minus)%N; [reflexivity|].
  pose proof (split_on_not_nil c_minus r). destruct (split_on c_minus r) as [|seg segs]; [congruence|].
  cbn [forallb]. now rewrite andb_assoc.
Qed.

Lemma kebab_b_cons c r :
  kebab_b d (c :: r) = (is_lower c && tail_b false r) || (au && is_upper c && tail_b true r).
Proof.
  unfold tail_b, kebab_b. cbn [split_on]. destruct (c =? c_minus)%N eqn:E.
  - apply N.eqb_eq in E. subst c. cbn [forallb]. rewrite is_lower_minus, is_upper_minus.
    unfold word_b. cbn [lower_word upper_word]. rewrite !andb_false_r. reflexivity.
  - pose proof (split_on_not_nil c_minus r). destruct (split_on c_minus r) as [|seg segs]; [congruence|].
    cbn [forallb]. generalize (forallb (word_b d) segs). intros W. unfold word_b, lower_word, upper_word.
    change (forallb (cont_b false) seg) with (forallb lower_or_digit seg).
    change (forallb (cont_b true) seg) with (forallb upper_or_digit seg).
    destruct (is_lower c), (is_upper c), au, (forallb lower_or_digit seg), (forallb upper_or_digit seg), W; reflexivity.
Qed.

Lemma cont_case up c : cont_b up c = true -> (if is_alpha c then is_upper c else up) = up.
Proof.
  unfold cont_b, upper_or_digit, lower_or_digit, is_alpha. destruct up; intros H; apply orb_true_iff in H.
  - destruct H as [H|H]; [now rewrite H|]. apply digit_not_alpha in H. unfold is_alpha in H. now rewrite H.
  - destruct H as [H|H].
    + rewrite H, (lower_not_upper _ H). reflexivity.
    + apply digit_not_alpha in H. unfold is_alpha in H. now rewrite H.
Qed.

Lemma model_cont (up : bool) (c : N) : (if up then upper_cont c else lower_cont c) = cont_b up c.
Proof. reflexivity. Qed.

(* ------------------------------------------------------------------ id_tail_len *)

Lemma id_tail_sound : forall s up, tail_b up (firstn (id_tail_len au up s) s) = true.
Proof.
  fix IH 1. intros s up. destruct s as [|c r]; [reflexivity|]. cbn [id_tail_len]. rewrite model_cont.
  destruct (cont_b up c) eqn:Ec.
  - cbn [firstn]. rewrite tail_b_cons.
    destruct (c =? c_minus)%N eqn:E; [apply N.eqb_eq in E; subst c; rewrite cont_b_minus in Ec; discriminate|].
    rewrite Ec. apply IH.
  - destruct (c =? c_minus)%N eqn:E; [|reflexivity]. destruct r as [|c2 r2]; [reflexivity|].
    destruct (is_lower c2) eqn:El.
    + cbn [firstn]. rewrite tail_b_cons, E, kebab_b_cons, El, IH. reflexivity.
    + destruct (au && is_upper c2) eqn:Eu; [|reflexivity].
      cbn [firstn]. rewrite tail_b_cons, E, kebab_b_cons, El, Eu. cbn [andb orb]. apply IH.
Qed.

(** The case reached at the end of [w] when [w] is read from inside a word of case [up]. *)
Lemma id_tail_exact : forall w up rest,
  tail_b up w = true ->
  length w <= id_tail_len au up (w ++ rest) /\
  (word_stop d (last_case w up) rest = true -> id_tail_len au up (w ++ rest) = length w).
Proof.
  fix IH 1. intros w up rest Hw. destruct w as [|c r].
  - split; [cbn; lia|]. cbn [app last_case length]. destruct rest as [|x rest]; [reflexivity|].
    cbn [word_stop id_tail_len]. change (if up then upper_cont x else lower_cont x) with (cont_b up x).
    change (if up then upper_or_digit x else lower_or_digit x) with (cont_b up x).
    intros H. apply andb_true_iff in H. destruct H as [H1 H2]. apply negb_true_iff in H1, H2. rewrite H1.
    destruct (x =? c_minus)%N; [|reflexivity]. cbn [andb] in H2. destruct rest as [|c2 r2]; [reflexivity|].
    cbn [starts_word] in H2. apply orb_false_iff in H2. destruct H2 as [-> ->]. reflexivity.
  - rewrite tail_b_cons in Hw. cbn [app id_tail_len length last_case]. rewrite model_cont.
    destruct (c =? c_minus)%N eqn:E.
    + apply N.eqb_eq in E. subst c. rewrite cont_b_minus. cbn [N.eqb Pos.eqb c_minus].
      destruct r as [|c2 r2]; [rewrite kebab_b_nil in Hw; discriminate|]. rewrite kebab_b_cons in Hw. cbn [app length last_case].
      change (is_alpha 45) with false. cbn iota.
      destruct (is_lower c2) eqn:El.
      * rewrite (lower_not_upper _ El), andb_false_r in Hw. cbn [andb orb] in Hw. rewrite orb_false_r in Hw.
        destruct (IH r2 false rest Hw) as [H1 H2]. unfold is_alpha. rewrite El, (lower_not_upper _ El). cbn [orb].
        split; [lia|]. intros H. rewrite (H2 H). reflexivity.
      * cbn [andb orb] in Hw. apply andb_true_iff in Hw. destruct Hw as [Hu Hw]. rewrite Hu.
        apply andb_true_iff in Hu. destruct Hu as [_ Hu].
        destruct (IH r2 true rest Hw) as [H1 H2]. unfold is_alpha. rewrite Hu. cbn [orb].
        split; [lia|]. intros H. rewrite (H2 H). reflexivity.
    + apply andb_true_iff in Hw. destruct Hw as [Hc Hw]. rewrite Hc, (cont_case _ _ Hc).
      destruct (IH r up rest Hw) as [H1 H2]. split; [lia|]. intros H. now rewrite (H2 H).
Qed.

Lemma id_tail_stops : forall s up,
  word_stop d (last_case (firstn (id_tail_len au up s) s) up) (skipn (id_tail_len au up s) s) = true.
Proof.
  fix IH 1. intros s up. destruct s as [|c r]; [reflexivity|]. cbn [id_tail_len]. rewrite model_cont.
  destruct (cont_b up c) eqn:Ec.
  - cbn [firstn skipn last_case]. rewrite (cont_case _ _ Ec). apply IH.
  - destruct (c =? c_minus)%N eqn:E.
    + destruct r as [|c2 r2].
      * cbn [firstn skipn last_case word_stop]. change (if up then upper_or_digit c else lower_or_digit c) with (cont_b up c).
        rewrite Ec, E. reflexivity.
      * destruct (is_lower c2) eqn:El.
        { cbn [firstn skipn last_case]. apply N.eqb_eq in E. subst c. change (is_alpha c_minus) with false. cbn iota.
          unfold is_alpha. rewrite El, (lower_not_upper _ El). cbn [orb]. apply IH. }
        destruct (au && is_upper c2) eqn:Eu.
        { cbn [firstn skipn last_case]. apply N.eqb_eq in E. subst c. change (is_alpha c_minus) with false. cbn iota.
          apply andb_true_iff in Eu. destruct Eu as [_ Eu]. unfold is_alpha. rewrite Eu. cbn [orb]. apply IH. }
        cbn [firstn skipn last_case word_stop starts_word].
        change (if up then upper_or_digit c else lower_or_digit c) with (cont_b up c).
        rewrite Ec, E, El. cbn [negb andb orb]. rewrite Eu. reflexivity.
    + cbn [firstn skipn last_case word_stop]. change (if up then upper_or_digit c else lower_or_digit c) with (cont_b up c).
      rewrite Ec, E. reflexivity.
Qed.

(* ------------------------------------------------------------------ words_len *)

Lemma words_len_sound s : words_len au s <> 0 -> kebab_b d (firstn (words_len au s) s) = true.
Proof.
  destruct s as [|c r]; cbn [words_len]; [congruence|]. destruct (is_lower c) eqn:El.
  - intros _. cbn [firstn]. rewrite kebab_b_cons, El, id_tail_sound. reflexivity.
  - destruct (au && is_upper c) eqn:Eu; [|congruence]. intros _. cbn [firstn]. rewrite kebab_b_cons, El, Eu.
    cbn [andb orb]. apply id_tail_sound.
Qed.

Lemma words_len_zero s : words_len au s = 0 <-> starts_word d s = false.
Proof.
  destruct s as [|c r]; cbn [words_len starts_word]; [tauto|].
  destruct (is_lower c); cbn [orb]; [split; [lia|discriminate]|].
  destruct (au && is_upper c); [split; [lia|discriminate]|tauto].
Qed.

Lemma kebab_starts s : kebab_b d s = true -> starts_word d s = true.
Proof.
  destruct s as [|c r]; [rewrite kebab_b_nil; discriminate|]. rewrite kebab_b_cons. cbn [starts_word]. intros H.
  apply orb_true_iff in H. destruct H as [H|H]; apply andb_true_iff in H; destruct H as [H _].
  - now rewrite H.
  - rewrite H. now rewrite orb_true_r.
Qed.

Lemma words_len_exact w rest :
  kebab_b d w = true ->
  length w <= words_len au (w ++ rest) /\
  (word_stop d (last_case w false) rest = true -> words_len au (w ++ rest) = length w).
Proof.
  destruct w as [|c r]; [rewrite kebab_b_nil; discriminate|]. rewrite kebab_b_cons. cbn [app words_len length last_case]. intros H.
  destruct (is_lower c) eqn:El.
  - rewrite (lower_not_upper _ El), andb_false_r in H. cbn [andb orb] in H. rewrite orb_false_r in H.
    destruct (id_tail_exact r false rest H) as [H1 H2]. unfold is_alpha. rewrite El, (lower_not_upper _ El). cbn [orb].
    split; [lia|]. intros Hs. now rewrite (H2 Hs).
  - cbn [andb orb] in H. apply andb_true_iff in H. destruct H as [Hu H]. rewrite Hu.
    apply andb_true_iff in Hu. destruct Hu as [_ Hu]. destruct (id_tail_exact r true rest H) as [H1 H2].
    unfold is_alpha. rewrite Hu. cbn [orb]. split; [lia|]. intros Hs. now rewrite (H2 Hs).
Qed.

Lemma words_len_stops s :
  word_stop d (last_case (firstn (words_len au s) s) false) (skipn (words_len au s) s) = true \/ words_len au s = 0.
Proof.
  destruct s as [|c r]; [now right|]. cbn [words_len]. destruct (is_lower c) eqn:El.
  - left. cbn [firstn skipn last_case]. unfold is_alpha. rewrite El, (lower_not_upper _ El). cbn [orb]. apply id_tail_stops.
  - destruct (au && is_upper c) eqn:Eu; [|now right]. left. cbn [firstn skipn last_case].
    apply andb_true_iff in Eu. destruct Eu as [_ Eu]. unfold is_alpha. rewrite Eu. cbn [orb]. apply id_tail_stops.
Qed.

(* ------------------------------------------------------------------ id_len *)

Lemma id_len_zero s : id_len au s = 0 <-> starts_id d s = false.
Proof.
  unfold starts_id. destruct s as [|c r]; cbn [id_len strip_percent]; [cbn; tauto|].
  destruct (c =? c_percent)%N.
  - rewrite <- words_len_zero. destruct (words_len au r); [tauto|split; discriminate].
  - apply words_len_zero.
Qed.

Lemma id_len_sound s : id_len au s <> 0 -> id_b d (firstn (id_len au s) s) = true.
Proof.
  unfold id_b. destruct s as [|c r]; cbn [id_len]; [congruence|]. destruct (c =? c_percent)%N eqn:E.
  - pose proof (words_len_sound r) as H. destruct (words_len au r) as [|n]; [congruence|]. intros _.
    cbn [firstn strip_percent]. rewrite E. apply H. discriminate.
  - intros H. pose proof (words_len_sound (c :: r) H) as H1.
    assert (Hs : forall n, strip_percent (firstn (S n) (c :: r)) = firstn (S n) (c :: r)).
    { intros n. cbn [firstn strip_percent]. now rewrite E. }
    destruct (words_len au (c :: r)) as [|n]; [congruence|]. now rewrite Hs.
Qed.

Lemma id_b_starts w : id_b d w = true -> starts_id d w = true.
Proof. unfold id_b, starts_id. apply kebab_starts. Qed.

Lemma id_b_not_nil w : id_b d w = true -> w <> [].
Proof. intros H ->. unfold id_b in H. cbn [strip_percent] in H. rewrite kebab_b_nil in H. discriminate. Qed.

Lemma last_case_percent r dflt : last_case (c_percent :: r) dflt = last_case r dflt.
Proof. reflexivity. Qed.

(** maximality and exactness of [id_len] *)
Lemma id_len_exact w rest :
  id_b d w = true ->
  length w <= id_len au (w ++ rest) /\
  (id_follow d w rest = true -> id_len au (w ++ rest) = length w).
Proof.
  unfold id_b, id_follow. destruct w as [|c r]; [cbn [strip_percent]; rewrite kebab_b_nil; discriminate|]. cbn [strip_percent app id_len].
  destruct (c =? c_percent)%N eqn:E.
  - apply N.eqb_eq in E. subst c. intros H. destruct (words_len_exact r rest H) as [H1 H2].
    assert (Hr : r <> []) by (intros ->; rewrite kebab_b_nil in H; discriminate). rewrite last_case_percent.
    destruct (words_len au (r ++ rest)) as [|n] eqn:En.
    + destruct r; [congruence|cbn in H1; lia].
    + cbn [length]. split; [lia|]. intros Hs. specialize (H2 Hs). lia.
  - intros H. exact (words_len_exact (c :: r) rest H).
Qed.

Lemma id_len_max s m : m <= length s -> id_b d (firstn m s) = true -> m <= id_len au s.
Proof.
  intros Hm H. destruct (id_len_exact _ (skipn m s) H) as [H1 _].
  rewrite firstn_skipn, firstn_length_le in H1; lia.
Qed.

Lemma id_len_stops s :
  id_len au s <> 0 -> id_follow d (firstn (id_len au s) s) (skipn (id_len au s) s) = true.
Proof.
  unfold id_follow. destruct s as [|c r]; cbn [id_len]; [congruence|]. destruct (c =? c_percent)%N eqn:E.
  - apply N.eqb_eq in E. subst c. destruct (words_len_stops r) as [H|H]; [|rewrite H; congruence].
    destruct (words_len au r) as [|n]; [congruence|]. intros _. cbn [firstn skipn]. rewrite last_case_percent. exact H.
  - intros Hn. destruct (words_len_stops (c :: r)) as [H|H]; [exact H|congruence].
Qed.

(** Characters of an id: letters, digits, '-', and '%' (first position only). *)
Definition id_char (c : N) : bool := is_alpha c || is_digit c || (c =? c_minus)%N.

Lemma tail_b_chars : forall w up, tail_b up w = true -> forallb id_char w = true.
Proof.
  fix IH 1. intros w up. destruct w as [|c r]; [reflexivity|]. rewrite tail_b_cons. cbn [forallb].
  destruct (c =? c_minus)%N eqn:E.
  - intros H. destruct r as [|c2 r2]; [rewrite kebab_b_nil in H; discriminate|]. rewrite kebab_b_cons in H. unfold id_char at 1. rewrite E, orb_true_r.
    cbn [andb forallb]. apply orb_true_iff in H. destruct H as [H|H].
    + apply andb_true_iff in H. destruct H as [Hl H]. unfold id_char at 1, is_alpha. rewrite Hl, orb_true_r. cbn [orb andb]. eapply IH; eauto.
    + apply andb_true_iff in H. destruct H as [Hu H]. apply andb_true_iff in Hu. destruct Hu as [_ Hu].
      unfold id_char at 1, is_alpha. rewrite Hu. cbn [orb andb]. eapply IH; eauto.
  - intros H. apply andb_true_iff in H. destruct H as [Hc H]. rewrite (IH _ _ H), andb_true_r.
    unfold id_char, is_alpha. destruct up; cbn [cont_b] in Hc; unfold upper_or_digit, lower_or_digit in Hc;
      apply orb_true_iff in Hc; destruct Hc as [-> | ->]; rewrite ?orb_true_r; reflexivity.
Qed.

Lemma kebab_b_chars w : kebab_b d w = true -> forallb id_char w = true.
Proof.
  destruct w as [|c r]; [reflexivity|]. rewrite kebab_b_cons. cbn [forallb]. intros H. apply orb_true_iff in H.
  destruct H as [H|H]; apply andb_true_iff in H; destruct H as [Hc H]; rewrite (tail_b_chars _ _ H), andb_true_r.
  - unfold id_char, is_alpha. now rewrite Hc, orb_true_r.
  - apply andb_true_iff in Hc. destruct Hc as [_ Hc]. unfold id_char, is_alpha. now rewrite Hc.
Qed.

(** An id contains none of the separators ':' '/' '@' (nor any character outside letters, digits, '-', '%'). *)
Lemma id_b_chars w : id_b d w = true -> forallb (fun c => id_char c || (c =? c_percent)%N) w = true.
Proof.
  unfold id_b. intros H. apply kebab_b_chars in H. destruct w as [|c r]; [reflexivity|]. cbn [strip_percent] in H.
  assert (Hm : forall l, forallb id_char l = true -> forallb (fun c => id_char c || (c =? c_percent)%N) l = true).
  { induction l as [|x l IHl]; cbn [forallb]; auto. intros Hx. apply andb_true_iff in Hx. destruct Hx as [-> Hx]. cbn [orb andb]. auto. }
  destruct (c =? c_percent)%N eqn:E.
  - cbn [forallb]. rewrite E, orb_true_r. cbn [andb]. auto.
  - auto.
Qed.

End Id.
