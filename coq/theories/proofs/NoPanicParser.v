(** C14, parser part: over a well-formed token stream (what [NoPanicLexer.lex_wf] provides) and with
    the fuel [Document::parse] gives itself, every [Parse] impl of the model returns a tree, an error or
    the not-modelled marker -- never one of the explicit panic outcomes ([unwrap] after a peek, the
    tuple [assert!], the string and package-path [unwrap]s, the final [assert!]) and never the
    out-of-fuel outcome; every span in a returned tree, and the span of every returned error that is
    not reported at the end of the input, lies inside the source on character boundaries.

    One predicate, [outcome], is pushed through every production: combinator lemmas for [bind],
    [parse_token], [parse_optional], [alt], [delimited], then one short proof per production. *)
From WacV Require Import Str Token Lexer Semver Ast Parser ParserComb LexerSound NoPanicLexer NoPanicSpans.
From Coq Require Import ZArith ZifyBool ZifyN Lia.
Local Open Scope nat_scope.

Section Pass.

Variable src : str.
Variable e : env.
Hypothesis Hd : dv e = impl_flags.
(** [um = false]: the stream is known to contain no not-modelled marker (then the not-modelled outcome is
    excluded as well); [um = true]: no such knowledge. *)
Variable um : bool.

Notation ok := (span_ok src).
Definition item_ok (it : lexitem) : Prop :=
  item_wf src it /\ (um = false -> forall sp, it <> LUnmodelled sp).
Definition wf (ts : list lexitem) : Prop := Forall item_ok ts.

(** What a returned error must satisfy: a non-empty list of expected tokens (otherwise
    [Lookahead::error] hits [unreachable!]), a good span -- or, for an error reported at the end of the
    input, one of the two end-of-input spans of the environment ([NoPanicTop] shows that those of
    [mk_ctx] are good) --, and it is never the marker of a documented-grammar restriction (those do not
    exist under [impl_flags]). *)
Definition err_ok (x : perror) : Prop :=
  match x with
  | PE_Lexer _ sp | PE_EmptyType _ sp | PE_InvalidVersion _ sp => ok sp
  | PE_Expected at_ (Some _) sp => at_ <> [] /\ ok sp
  | PE_Expected at_ None sp => at_ <> [] /\ (sp = eof_tok (cx e) \/ sp = eof_la (cx e))
  | PE_DocRestriction _ => False
  end.

Definition outcome {A} (P : A -> Prop) (L : nat -> Prop) (res : pres A) : Prop :=
  match res with
  | POk a r => P a /\ wf r /\ L (length r)
  | PErr x => err_ok x
  | PUnmodelled => um = true
  | PPanic _ | PFuel => False
  end.

Lemma outcome_weaken {A} (P P' : A -> Prop) (L L' : nat -> Prop) res :
  outcome P L res -> (forall a, P a -> P' a) -> (forall n, L n -> L' n) -> outcome P' L' res.
Proof. destruct res; cbn; intuition. Qed.

Lemma outcome_lt_le {A} (P : A -> Prop) k res :
  outcome P (fun n => n < k) res -> outcome P (fun n => n <= k) res.
Proof. intros H. eapply outcome_weaken; [exact H|auto|cbv beta; lia]. Qed.

Lemma bind_out {A B} (P1 : A -> Prop) (L1 : nat -> Prop) (P2 : B -> Prop) (L2 : nat -> Prop)
    (m : pres A) (k : A -> list lexitem -> pres B) :
  outcome P1 L1 m ->
  (forall a r, P1 a -> wf r -> L1 (length r) -> outcome P2 L2 (k a r)) ->
  outcome P2 L2 (m >>= k).
Proof. destruct m; cbn; intuition. Qed.

(* ------------------------------------------------------------------ span facts *)

Lemma ok_join a b : ok a -> ok b -> ok (span_join a b).
Proof.
  intros [Ha1 Ha2] [Hb1 Hb2]. unfold span_join, span_end. split; cbn [off slen]; [exact Ha1|].
  destruct (N.le_gt_cases (off a) (off b + slen b)) as [H|H].
  - replace (off a + (off b + slen b - off a))%N with (off b + slen b)%N by lia. exact Hb2.
  - replace (off a + (off b + slen b - off a))%N with (off a) by lia. exact Ha1.
Qed.

Lemma Forall_flat_map {A} (f : A -> list span) (l : list A) :
  Forall (fun a => Forall ok (f a)) l -> Forall ok (flat_map f l).
Proof. induction 1; cbn; [constructor|]. apply Forall_app. auto. Qed.

Lemma Forall_last {A} (Q : A -> Prop) l d : Forall Q l -> l <> [] -> Q (last l d).
Proof.
  induction 1 as [|x l Hx Hl IH]; [congruence|]. intros _. destruct l as [|y l]; [exact Hx|].
  change (last (x :: y :: l) d) with (last (y :: l) d). apply IH. discriminate.
Qed.

(* ------------------------------------------------------------------ the stream *)

Lemma wf_inv x r : wf (x :: r) -> item_ok x /\ wf r.
Proof. intros H. inversion H; subst. auto. Qed.

Lemma um_true sp : item_ok (LUnmodelled sp) -> um = true.
Proof. intros [_ H]. destruct um; [reflexivity|]. exfalso. now apply (H eq_refl sp). Qed.

(** Case analysis on the head of a well-formed stream; the impossible heads are discharged. *)
Ltac heads ts Hwf :=
  let t := fresh "t" in let r := fresh "r" in let Hi := fresh "Hi" in let Hr := fresh "Hwr" in
  let Hum := fresh "Hum" in
  destruct ts as [|[t|?le ?lsp|?usp| |] r];
  [ | apply wf_inv in Hwf; destruct Hwf as [[Hi _] Hr]
    | apply wf_inv in Hwf; destruct Hwf as [[Hi _] Hr]; cbn [item_wf] in Hi
    | apply wf_inv in Hwf; destruct Hwf as [Hi Hr]; pose proof (um_true _ Hi) as Hum
    | apply wf_inv in Hwf; destruct Hwf as [[Hi _] Hr]; cbn [item_wf] in Hi; contradiction
    | apply wf_inv in Hwf; destruct Hwf as [[Hi _] Hr]; cbn [item_wf] in Hi; contradiction ].

Definition tokP (k : token) (t : rtoken) : Prop := tk t = k /\ item_wf src (LTok t).

Lemma tokP_span k t : tokP k t -> ok (tsp t).
Proof. intros [_ H]. now apply item_wf_span in H. Qed.

Lemma tokP_docs k t : tokP k t -> Forall ok (docs_spans (tdocs t)).
Proof. intros [_ (_ & _ & _ & _ & H)]. exact H. Qed.

Lemma docs_of_ok ts : wf ts -> Forall ok (docs_spans (docs_of ts)).
Proof.
  intros H. destruct ts as [|[t| | | |] r]; cbn [docs_of docs_spans map]; try constructor.
  apply wf_inv in H. destruct H as [[(_ & _ & _ & _ & H) _] _]. exact H.
Qed.

Lemma stuck_out {A} (P : A -> Prop) L ts at_eof :
  wf ts -> (forall t r, ts <> LTok t :: r) -> err_ok at_eof -> outcome P L (stuck ts at_eof).
Proof.
  intros Hwf Hnt He. heads ts Hwf; cbn [stuck outcome err_ok]; auto.
Qed.

Lemma next_tok_out k ts :
  wf ts -> outcome (tokP k) (fun n => n < length ts) (next_tok e k ts).
Proof.
  intros Hwf. unfold next_tok. heads ts Hwf; cbn [stuck outcome err_ok]; auto; try discriminate;
    try (split; [discriminate|now left]).
  destruct (token_eqb (tk t) k) eqn:E; cbn [outcome err_ok length].
  - apply token_eqb_eq in E. split; [split; [exact E|exact Hi]|split; [exact Hwr|lia]].
  - split; [discriminate|now apply item_wf_span in Hi].
Qed.

Lemma parse_token_out k ts :
  wf ts -> outcome (fun sp => ok sp) (fun n => n < length ts) (parse_token e k ts).
Proof.
  intros Hwf. unfold parse_token. eapply bind_out; [now apply next_tok_out|].
  intros t r Ht Hr Hl. cbn [outcome]. split; [eapply tokP_span; eauto|split; [exact Hr|exact Hl]].
Qed.

Lemma la_fail_out {A} (P : A -> Prop) L attempts ts :
  wf ts -> attempts <> [] -> outcome P L (la_fail e attempts ts).
Proof.
  intros Hwf Hne. unfold la_fail. heads ts Hwf; cbn [stuck outcome err_ok]; auto;
    try (split; [exact Hne|now right]).
  split; [exact Hne|now apply item_wf_span in Hi].
Qed.

Lemma peek_kind_tok ts k : peek_kind ts = Some k -> exists t r, ts = LTok t :: r /\ tk t = k.
Proof. apply peek_kind_Some. Qed.

(** [parse_optional]: the callback runs on the stream after the optional token. *)
Lemma parse_optional_out {A} (P : A -> Prop) k (cb : parser A) ts :
  wf ts ->
  (forall r, wf r -> length r < length ts -> outcome P (fun n => n <= length r) (cb r)) ->
  outcome (fun o => match o with Some a => P a | None => True end) (fun n => n <= length ts)
          (parse_optional k cb ts).
Proof.
  intros Hwf Hcb. unfold parse_optional. pose proof Hwf as Hwf0.
  heads ts Hwf; cbn [stuck outcome err_ok length]; auto.
  destruct (token_eqb (tk t) k).
  - eapply bind_out; [apply Hcb; [exact Hwr|cbn; lia]|].
    intros a r' Pa Hr' Hl. cbn [outcome length] in *. split; [exact Pa|split; [exact Hr'|lia]].
  - cbn [outcome]. split; [exact I|split; [exact Hwf0|cbn [length]; lia]].
Qed.

(** [alt]: each branch is only entered on a token of its peek set. *)
Lemma alt_out {A} (P : A -> Prop) L (bs : list (list token * parser A)) ts :
  wf ts -> alt_attempts bs <> [] ->
  Forall (fun b => forall k, peek_kind ts = Some k -> mem_tok k (fst b) = true -> outcome P L (snd b ts)) bs ->
  outcome P L (alt e bs ts).
Proof.
  intros Hwf Hne Hbs. unfold alt. destruct (peek_kind ts) as [k|] eqn:Ek; [|now apply la_fail_out].
  destruct (alt_find k bs) as [p|] eqn:Ef; [|now apply la_fail_out].
  clear Hne. induction Hbs as [|[f q] bs Hb _ IH]; cbn [alt_find] in Ef; [discriminate|].
  destruct (mem_tok k f) eqn:Em.
  - inversion Ef; subst. now apply (Hb k).
  - now apply IH.
Qed.

(** A parser that is fine on every well-formed stream shorter than [b] (and than the fuel). *)
Definition goodB {A} (b : nat) (P : A -> Prop) (p : parser A) : Prop :=
  forall ts, wf ts -> length ts < b -> length ts < fuel e ->
  outcome P (fun n => n < length ts) (p ts).

(** The same, knowing the first token is in [first] (what [parse_delimited] has peeked). *)
Definition goodF {A} (b : nat) (first : list token) (P : A -> Prop) (p : parser A) : Prop :=
  forall ts, wf ts -> length ts < b -> length ts < fuel e ->
  forall k, peek_kind ts = Some k -> mem_tok k first = true ->
  outcome P (fun n => n < length ts) (p ts).

Lemma goodB_F {A} b first (P : A -> Prop) p : goodB b P p -> goodF b first P p.
Proof. intros H ts Hwf Hb Hf k _ _. now apply H. Qed.

Lemma delim_loop_out {A} (P : A -> Prop) b until commas first (p : parser A) :
  goodF b first P p ->
  forall n ts, wf ts -> length ts < n -> length ts < b -> length ts < fuel e ->
  outcome (fun x => Forall P (fst x)) (fun m => m <= length ts) (delim_loop n e until commas first p ts).
Proof.
  intros Hp. induction n as [|n IH]; intros ts Hwf Hn Hb Hf; [lia|]. cbn [delim_loop].
  destruct (peek_kind ts) as [k|] eqn:Ek; [|apply la_fail_out; [exact Hwf|discriminate]].
  destruct (token_eqb k until).
  { cbn [outcome fst]. split; [constructor|split; [exact Hwf|lia]]. }
  destruct (mem_tok k first) eqn:Em; [|apply la_fail_out; [exact Hwf|discriminate]].
  eapply bind_out; [apply (Hp ts Hwf Hb Hf k Ek Em)|].
  intros a r Pa Hr Hl. cbv beta in Hl.
  destruct (peek_kind r) as [k2|] eqn:Ek2; [|apply la_fail_out; [exact Hr|discriminate]].
  destruct (token_eqb k2 until).
  { cbn [outcome fst]. split; [constructor; [exact Pa|constructor]|split; [exact Hr|lia]]. }
  destruct commas.
  - eapply bind_out; [now apply parse_token_out|]. intros sp r1 _ Hr1 Hl1. cbv beta in Hl1.
    eapply bind_out; [apply (IH r1 Hr1); lia|]. intros [items tr] r2 Pi Hr2 Hl2. cbv beta in Hl2.
    cbn [outcome fst] in *. split; [constructor; [exact Pa|exact Pi]|split; [exact Hr2|lia]].
  - eapply bind_out; [apply (IH r Hr); lia|]. intros [items tr] r2 Pi Hr2 Hl2. cbv beta in Hl2.
    cbn [outcome fst] in *. split; [constructor; [exact Pa|exact Pi]|split; [exact Hr2|lia]].
Qed.

Lemma delimited_items_out {A} (P : A -> Prop) b until commas first (p : parser A) ts :
  goodF b first P p -> wf ts -> length ts < b -> length ts < fuel e ->
  outcome (Forall P) (fun m => m <= length ts) (delimited_items e until commas first p ts).
Proof.
  intros Hp Hwf Hb Hf. unfold delimited_items, delimited.
  eapply bind_out; [apply (delim_loop_out P b until commas first p Hp); auto|].
  intros [items tr] r Pi Hr Hl. cbn [outcome fst] in *. auto.
Qed.

(* ------------------------------------------------------------------ tactics *)

(** Sequencing step: [m >>= k] where [m]'s behaviour is given by lemma [lem]. *)
Ltac lenf :=
  repeat match goal with H : (fun _ : nat => _) _ |- _ => cbv beta in H end;
  cbn [length] in *; lia.

Ltac use lem :=
  first [ eapply lem; [eassumption|lenf|lenf]
        | eapply lem; [eassumption|lenf]
        | eapply lem; eassumption
        | eapply lem ].

Ltac gbind lem :=
  eapply bind_out; [use lem|];
  let a := fresh "a" in let r := fresh "r" in let Pa := fresh "Pa" in
  let Hr := fresh "Hwf" in let Hl := fresh "Hl" in
  intros a r Pa Hr Hl; cbv beta in Hl.

Tactic Notation "gbindn" constr(lem) "as" ident(a) ident(r) ident(Pa) ident(Hr) ident(Hl) :=
  eapply bind_out; [use lem|]; intros a r Pa Hr Hl; cbv beta in Hl.

(** Discharge [Forall ok (..spans..)] goals from the hypotheses collected so far. *)
Ltac spans :=
  repeat progress (unfold ident_spans, strlit_spans, pkgname_spans, pkgpath_spans, opt_spans, named_type_spans,
       result_list_spans, func_type_spans, extern_name_spans, variant_case_spans, field_spans, flag_spans,
       enum_case_spans, resource_method_spans, alias_kind_spans, item_type_decl_spans, func_type_ref_spans,
       use_path_spans, use_item_spans, use_decl_spans, interface_item_spans, extern_type_spans,
       world_item_path_spans, world_ref_spans, include_item_spans, world_item_spans, type_statement_spans,
       import_type_spans, arg_name_spans, postfix_spans, export_options_spans, statement_spans,
       directive_spans, document_spans in *;
  cbn [ty_spans expr_spans primary_spans arg_spans
       id_span s_span pn_span pp_span nt_id nt_ty ft_params ft_results vc_docs vc_id vc_ty fd_docs fd_id fd_ty
       fl_docs fl_id ec_docs ec_id ui_id ui_as u_docs u_path u_items ii_from ii_to pd_package pd_targets
       doc_docs doc_directive doc_statements app] in *);
  repeat match goal with
         | |- _ => assumption
         | |- Forall _ (_ ++ _) => apply Forall_app; split
         | |- Forall _ (_ :: _) => constructor
         | |- Forall _ [] => constructor
         | |- Forall _ (flat_map _ _) => apply Forall_flat_map
         | |- ok (span_join _ _) => apply ok_join
         | H : Forall _ (_ ++ _) |- _ => apply Forall_app in H; destruct H
         | H : Forall _ (_ :: _) |- _ => apply Forall_cons_iff in H; destruct H
         | H : tokP _ ?t |- ok (tsp ?t) => exact (tokP_span _ _ H)
         | H : tokP _ ?t |- Forall ok (docs_spans (tdocs ?t)) => exact (tokP_docs _ _ H)
         | |- Forall ok (docs_spans (docs_of _)) => apply docs_of_ok; assumption
         end;
  auto.

(** Closing step: the production returns. *)
Ltac gret :=
  cbn [outcome]; split; [spans|split; [assumption|lenf]].

(* ------------------------------------------------------------------ leaves *)

Lemma parse_ident_good : goodB (fuel e) (fun i => Forall ok (ident_spans i)) (parse_ident e).
Proof.
  intros ts Hwf _ Hf. unfold parse_ident. gbind next_tok_out. gret.
  unfold mk_ident. spans.
Qed.

Lemma parse_string_good : goodB (fuel e) (fun s => Forall ok (strlit_spans s)) (parse_string e).
Proof.
  intros ts Hwf _ Hf. unfold parse_string. gbind next_tok_out.
  destruct Pa as [Hk Hi]. pose proof Hi as (_ & _ & _ & Hshape & _). rewrite Hk in Hshape. cbn [text_shape] in Hshape.
  destruct Hshape as (body & Hb). unfold strlit_of, unquote. rewrite Hb. rewrite N.eqb_refl.
  rewrite rev_app_distr. cbn [rev app]. rewrite N.eqb_refl.
  cbn [outcome]. split; [|split; [assumption|lenf]].
  cbn [strlit_spans s_span]. constructor; [|constructor]. now apply item_wf_span in Hi.
Qed.

(** The span of an [InvalidVersion] error: from after the first [@] to the end of the token. *)
Lemma find_char_firstn c : forall s n, find_char c s = Some n -> n < length s.
Proof. apply find_char_lt. Qed.

Lemma version_span_ok t at_ :
  item_wf src (LTok t) -> Forall ascii (ttext t) -> find_char c_atsign (ttext t) = Some at_ ->
  ok {| off := off (tsp t) + N.of_nat at_ + 1;
        slen := span_end (tsp t) - (off (tsp t) + N.of_nat at_ + 1) |}.
Proof.
  intros ((a & b & Hs & Ho) & Hl & _) Hasc Hf. apply find_char_lt in Hf.
  set (text := ttext t) in *.
  assert (Hsplit : text = firstn (S at_) text ++ skipn (S at_) text) by (symmetry; apply firstn_skipn).
  assert (Ha1 : Forall ascii (firstn (S at_) text)).
  { rewrite Hsplit in Hasc. apply Forall_app in Hasc. tauto. }
  assert (Hb1 : byte_len (firstn (S at_) text) = N.of_nat (S at_)).
  { rewrite (byte_len_ascii _ Ha1), firstn_length. f_equal. lia. }
  apply (span_ok_slice src (a ++ firstn (S at_) text) (skipn (S at_) text) b).
  - rewrite Hs, Hsplit at 1. now rewrite <- !app_assoc.
  - rewrite byte_len_app, Hb1, Ho. lia.
  - unfold span_end. rewrite Hl, Ho. rewrite Hsplit at 1. rewrite byte_len_app, Hb1. lia.
Qed.

Lemma version_of_out t :
  item_wf src (LTok t) -> Forall ascii (ttext t) ->
  match version_of t (ttext t) with inl _ => True | inr x => err_ok x end.
Proof.
  intros Hi Hasc. unfold version_of. destruct (find_char c_atsign (ttext t)) as [at_|] eqn:Ef; [|exact I].
  destruct (parse_version (skipn (S at_) (ttext t))); [exact I|]. cbn [err_ok]. now apply version_span_ok.
Qed.

Lemma parse_package_name_good : goodB (fuel e) (fun p => Forall ok (pkgname_spans p)) (parse_package_name e).
Proof.
  intros ts Hwf _ Hf. unfold parse_package_name. gbind next_tok_out.
  destruct Pa as [Hk Hi]. pose proof Hi as (_ & _ & _ & Hshape & _). rewrite Hk in Hshape. cbn [text_shape] in Hshape.
  unfold package_name_of. pose proof (version_of_out a Hi Hshape) as Hv.
  destruct (version_of a (ttext a)) as [ver|x]; cbn [of_leaf outcome]; [|exact Hv].
  split; [|split; [assumption|lenf]]. cbn [pkgname_spans pn_span]. constructor; [|constructor]. now apply item_wf_span in Hi.
Qed.

Lemma parse_package_path_good : goodB (fuel e) (fun p => Forall ok (pkgpath_spans p)) (parse_package_path e).
Proof.
  intros ts Hwf _ Hf. unfold parse_package_path. gbind next_tok_out.
  destruct Pa as [Hk Hi]. pose proof Hi as (_ & _ & _ & Hshape & _). rewrite Hk in Hshape. cbn [text_shape] in Hshape.
  destruct Hshape as [Hsl Hasc].
  unfold package_path_of. destruct (find_char c_slash (ttext a)) as [sl|]; [|congruence].
  pose proof (version_of_out a Hi Hasc) as Hv.
  destruct (version_of a (ttext a)) as [ver|x]; cbn [of_leaf outcome]; [|exact Hv].
  split; [|split; [assumption|lenf]]. cbn [pkgpath_spans pp_span]. constructor; [|constructor]. now apply item_wf_span in Hi.
Qed.

(** Branch lists of [alt]: one goal per branch. *)
Ltac galt :=
  apply alt_out; [eassumption|cbn; discriminate|];
  repeat (apply Forall_cons || apply Forall_nil); cbn [fst snd];
  let k := fresh "k" in let Ek := fresh "Ek" in let Em := fresh "Em" in intros k Ek Em.

Lemma parse_extern_name_good : goodB (fuel e) (fun n => Forall ok (extern_name_spans n)) (parse_extern_name e).
Proof.
  intros ts Hwf _ Hf. unfold parse_extern_name. galt.
  - gbind parse_ident_good. gret.
  - gbind parse_string_good. gret.
Qed.

(* ------------------------------------------------------------------ value types *)

Ltac weakby tac :=
  eapply outcome_weaken; [tac | intros ? HH; exact HH | intros ? HH; cbv beta in *; cbn [length] in *; lia ].
Ltac lafail := apply la_fail_out; [eassumption|discriminate].

Notation Pty := (fun t : ty => Forall ok (ty_spans t)).
Notation Poty := (fun o : option ty => Forall ok (opt_spans ty_spans o)).

(** [parse_delimited] on a stream whose first token starts an item returns at least one item. *)
Lemma delim_loop_nonempty {A} n until commas first (p : parser A) ts items tr r :
  delim_loop n e until commas first p ts = POk (items, tr) r ->
  peek_in first ts = true -> mem_tok until first = false -> items <> [].
Proof.
  destruct n as [|n]; cbn [delim_loop]; [discriminate|]. unfold peek_in.
  destruct (peek_kind ts) as [k|]; [|discriminate]. intros H Hk Hu.
  destruct (token_eqb k until) eqn:Eu; [apply token_eqb_eq in Eu; congruence|]. rewrite Hk in H.
  apply bind_ok in H. destruct H as (a & r1 & _ & H).
  destruct (peek_kind r1) as [k2|]; [|now apply la_fail_not_ok in H].
  destruct (token_eqb k2 until); [inversion H; discriminate|].
  destruct commas.
  - apply bind_ok in H. destruct H as (sp & r2 & _ & H). apply bind_ok in H. destruct H as ([its tr'] & r3 & _ & H).
    inversion H. discriminate.
  - apply bind_ok in H. destruct H as ([its tr'] & r3 & _ & H). inversion H. discriminate.
Qed.

Lemma result_arg_good b (self : parser ty) :
  goodB b Pty self -> goodB b Poty (result_arg self e).
Proof.
  intros Hs ts Hwf Hb Hf. unfold result_arg.
  destruct (peek_kind ts) as [k|] eqn:Ek; [|lafail].
  destruct (token_eqb k TUnderscore).
  - destruct (peek_kind_tok _ _ Ek) as (t & r & -> & _). apply wf_inv in Hwf. destruct Hwf as [_ Hr].
    cbn [any_tok bind outcome]. split; [constructor|split; [exact Hr|cbn [length]; lia]].
  - destruct (mem_tok k type_first); [|lafail]. gbind Hs. gret.
Qed.

Lemma type_step_good b (self : parser ty) : goodB b Pty self -> goodB (S b) Pty (type_step self e).
Proof.
  intros Hs ts Hwf Hb Hf. unfold type_step. pose proof Hwf as Hwf0.
  heads ts Hwf; try lafail.
  pose proof (item_wf_span _ _ Hi) as Hts.
  destruct (prim_of_token (tk t)) as [pr|] eqn:Ep.
  { cbn [outcome]. split; [spans|split; [assumption|lenf]]. }
  destruct (tk t) eqn:Ek; try discriminate Ep; try lafail.
  - (* ident *) cbn [outcome]. split; [unfold mk_ident; spans|split; [assumption|lenf]].
  - (* tuple *)
    gbindn parse_token_out as sp1 r1 Psp1 Hr1 Hl1.
    destruct (peek_in type_first r1) eqn:Epk; [|lafail].
    pose proof (delimited_items_out Pty b TCloseAngle true type_first self r1 (goodB_F _ _ _ _ Hs) Hr1
                  ltac:(lenf) ltac:(lenf)) as Hdl.
    destruct (delimited_items e TCloseAngle true type_first self r1) as [tys r2| | | |] eqn:Ed;
      cbn [outcome bind] in *; auto.
    destruct Hdl as (Ptys & Hr2 & Hl2).
    destruct tys as [|ty0 tys].
    { exfalso. unfold delimited_items, delimited in Ed. apply bind_ok in Ed. destruct Ed as ([its tr] & r3 & Ed & H).
      inversion H; subst. now apply (delim_loop_nonempty _ _ _ _ _ _ _ _ _ Ed Epk). }
    gbind parse_token_out. gret.
  - (* list *) unfold angle1. gbind parse_token_out. gbind Hs. gbind parse_token_out. gret.
  - (* option *) unfold angle1. gbind parse_token_out. gbind Hs. gbind parse_token_out. gret.
  - (* result *)
    eapply (bind_out (fun o => match o with
                               | Some (o1, o2, sp) => Forall ok (opt_spans ty_spans o1) /\
                                                      Forall ok (opt_spans ty_spans o2) /\ ok sp
                               | None => True end) (fun n => n <= length r)).
    + apply (parse_optional_out (fun x : option ty * option ty * span =>
                let '(o1, o2, sp) := x in Forall ok (opt_spans ty_spans o1) /\
                                         Forall ok (opt_spans ty_spans o2) /\ ok sp)); [assumption|].
      intros r1 Hr1 Hl1.
      gbind (result_arg_good b self Hs).
      eapply (bind_out (fun o => match o with Some x => Forall ok (opt_spans ty_spans x) | None => True end)
                       (fun n => n <= length r0)).
      { apply (parse_optional_out Poty); [assumption|]. intros r3 Hr3 Hl3.
        weakby ltac:(apply (result_arg_good b self Hs); [assumption|lenf|lenf]). }
      intros err r3 Perr Hr3 Hl3. cbv beta in Hl3.
      unfold result_shape_ok. rewrite Hd. cbn [result_underscore_forms impl_flags orb].
      gbind parse_token_out. cbn [outcome]. split; [|split; [assumption|lenf]].
      split; [assumption|]. split; [destruct err as [x|]; [exact Perr|constructor]|]. spans.
    + intros res r5 Pres Hr5 Hl5. cbv beta in Hl5. destruct res as [[[o1 o2] sp]|].
      * destruct Pres as (P1 & P2 & P3). cbn [outcome]. split; [|split; [assumption|lenf]].
        cbn [ty_spans]. constructor; [exact P3|]. apply Forall_app. split.
        -- destruct o1; [exact P1|constructor].
        -- destruct o2; [exact P2|constructor].
      * cbn [outcome]. split; [|split; [assumption|lenf]]. cbn [ty_spans app]. constructor; [exact Hts|constructor].
  - (* borrow *)
    gbind parse_token_out. rewrite Hd. cbn [borrow_any_type impl_flags].
    gbind parse_ident_good. gbind parse_token_out. gret.
Qed.

Lemma parse_type_f_good : forall f, goodB f Pty (parse_type_f f e).
Proof.
  induction f as [|f IH]; [intros ts _ Hb; lia|]. cbn [parse_type_f]. now apply type_step_good.
Qed.

Lemma parse_type_good : goodB (fuel e) Pty (parse_type e).
Proof. apply parse_type_f_good. Qed.

Lemma parse_named_type_good :
  goodB (fuel e) (fun n => Forall ok (named_type_spans n)) (parse_named_type e).
Proof.
  intros ts Hwf _ Hf. unfold parse_named_type.
  gbind parse_ident_good. gbind parse_token_out. gbind parse_type_good. gret.
Qed.

Lemma parse_params_good until ts :
  wf ts -> length ts < fuel e ->
  outcome (Forall (fun n => Forall ok (named_type_spans n))) (fun m => m <= length ts) (parse_params e until ts).
Proof.
  intros Hwf Hf. unfold parse_params.
  apply (delimited_items_out _ (fuel e)); auto. apply goodB_F, parse_named_type_good.
Qed.

Lemma parse_result_list_good ts :
  wf ts -> length ts < fuel e ->
  outcome (fun x => Forall ok (result_list_spans x)) (fun m => m <= length ts) (parse_result_list e ts).
Proof.
  intros Hwf Hf. unfold parse_result_list.
  destruct (peek_in type_first ts).
  { apply outcome_lt_le. gbind parse_type_good. gret. }
  rewrite Hd. cbn [named_results arrow_empty_results impl_flags andb].
  cbn [outcome]. split; [constructor|split; [assumption|lia]].
Qed.

Lemma parse_func_type_good : goodB (fuel e) (fun f => Forall ok (func_type_spans f)) (parse_func_type e).
Proof.
  intros ts Hwf _ Hf. unfold parse_func_type.
  gbind parse_token_out. gbind parse_token_out. gbind parse_params_good. gbind parse_token_out.
  eapply (bind_out (fun o => match o with Some x => Forall ok (result_list_spans x) | None => True end)
                   (fun n => n <= length r2)).
  { apply (parse_optional_out (fun x => Forall ok (result_list_spans x))); [assumption|].
    intros r4 Hr4 Hl4. apply parse_result_list_good; [assumption|lenf]. }
  intros res r4 Pres Hr4 Hl4. cbv beta in Hl4. cbn [outcome]. split; [|split; [assumption|lenf]].
  destruct res as [x|]; spans.
Qed.

(* ------------------------------------------------------------------ more tactics *)

(** [alt ... rs >>= k] with result predicate [P]: one goal per branch, then the continuation. *)
Ltac galtP P :=
  match goal with
  | |- outcome _ _ (bind (alt _ _ ?rs) _) =>
      eapply (bind_out P (fun n => n < length rs)); [galt|]
  end.

(** [parse_optional k cb rs >>= k'] with callback predicate [PA]: the callback goal, then the continuation. *)
Ltac goptP PA :=
  match goal with
  | |- outcome _ _ (bind (parse_optional _ _ ?rs) _) =>
      eapply (bind_out (fun o => match o with Some x => PA x | None => True end) (fun n => n <= length rs));
      [apply (parse_optional_out PA); [eassumption|]|]
  end.

(** [delimited_items ... p rs >>= k] where [lem : goodB (fuel e) PA p]. *)
Ltac gdelim PA lem :=
  eapply bind_out;
  [apply (delimited_items_out PA (fuel e)); [apply goodB_F, lem|eassumption|lenf|lenf]|];
  let a := fresh "items" in let r := fresh "r" in let Pa := fresh "Pitems" in
  let Hr := fresh "Hwf" in let Hl := fresh "Hl" in
  intros a r Pa Hr Hl; cbv beta in Hl.

Ltac kont a r Pa Hr Hl := intros a r Pa Hr Hl; cbv beta in Hl.

Lemma match_list_same {X Y} (l : list X) (y : Y) : match l with [] => y | _ :: _ => y end = y.
Proof. now destruct l. Qed.

Lemma peek_in_tok first ts : peek_in first ts = true -> exists t r, ts = LTok t :: r.
Proof.
  unfold peek_in. destruct (peek_kind ts) as [k|] eqn:E; [|discriminate]. intros _.
  destruct (peek_kind_tok _ _ E) as (t & r & -> & _). eauto.
Qed.

(* ------------------------------------------------------------------ type declarations *)

Notation Pdecl := (fun d : item_type_decl => Forall ok (item_type_decl_spans d)).

Lemma parse_variant_case_good :
  goodB (fuel e) (fun v => Forall ok (variant_case_spans v)) (parse_variant_case e).
Proof.
  intros ts Hwf _ Hf. unfold parse_variant_case. cbv zeta.
  gbind parse_ident_good. goptP (fun t : ty => Forall ok (ty_spans t)).
  - intros r1 Hr1 Hl1. apply outcome_lt_le. gbind parse_type_good. gbind parse_token_out. gret.
  - kont t r4 Pt Hr4 Hl4. cbn [outcome]. split; [|split; [assumption|lenf]]. destruct t; spans.
Qed.

Lemma parse_field_good : goodB (fuel e) (fun f => Forall ok (field_spans f)) (parse_field e).
Proof. intros ts Hwf _ Hf. unfold parse_field. cbv zeta. gbind parse_named_type_good. gret. Qed.

Lemma parse_flag_good : goodB (fuel e) (fun f => Forall ok (flag_spans f)) (parse_flag e).
Proof. intros ts Hwf _ Hf. unfold parse_flag. cbv zeta. gbind parse_ident_good. gret. Qed.

Lemma parse_enum_case_good : goodB (fuel e) (fun f => Forall ok (enum_case_spans f)) (parse_enum_case e).
Proof. intros ts Hwf _ Hf. unfold parse_enum_case. cbv zeta. gbind parse_ident_good. gret. Qed.

Lemma braced_nonempty_good {A} kw which (item : parser A) mk (PA : A -> Prop) :
  goodB (fuel e) PA item ->
  (forall docs i items, Forall ok (docs_spans docs) -> Forall ok (ident_spans i) -> Forall PA items ->
                        Forall ok (item_type_decl_spans (mk docs i items))) ->
  goodB (fuel e) Pdecl (braced_nonempty e kw which item mk).
Proof.
  intros Hitem Hmk ts Hwf _ Hf. unfold braced_nonempty. cbv zeta.
  gbind parse_token_out. gbind parse_ident_good. gbind parse_token_out. gdelim PA Hitem.
  gbind parse_token_out. destruct items as [|x items].
  - cbn [outcome err_ok]. assumption.
  - cbn [outcome]. split; [|split; [assumption|lenf]]. apply Hmk; auto. now apply docs_of_ok.
Qed.

Lemma parse_variant_decl_good : goodB (fuel e) Pdecl (parse_variant_decl e).
Proof.
  unfold parse_variant_decl. apply (braced_nonempty_good _ _ _ _ (fun v => Forall ok (variant_case_spans v))); [apply parse_variant_case_good|].
  intros. spans.
Qed.
Lemma parse_record_decl_good : goodB (fuel e) Pdecl (parse_record_decl e).
Proof.
  unfold parse_record_decl. apply (braced_nonempty_good _ _ _ _ (fun v => Forall ok (field_spans v))); [apply parse_field_good|].
  intros. spans.
Qed.
Lemma parse_flags_decl_good : goodB (fuel e) Pdecl (parse_flags_decl e).
Proof.
  unfold parse_flags_decl. apply (braced_nonempty_good _ _ _ _ (fun v => Forall ok (flag_spans v))); [apply parse_flag_good|].
  intros. spans.
Qed.
Lemma parse_enum_decl_good : goodB (fuel e) Pdecl (parse_enum_decl e).
Proof.
  unfold parse_enum_decl. apply (braced_nonempty_good _ _ _ _ (fun v => Forall ok (enum_case_spans v))); [apply parse_enum_case_good|].
  intros. spans.
Qed.

Lemma parse_type_alias_good : goodB (fuel e) Pdecl (parse_type_alias e).
Proof.
  intros ts Hwf _ Hf. unfold parse_type_alias. cbv zeta.
  gbind parse_token_out. gbind parse_ident_good. gbind parse_token_out.
  galtP (fun k : type_alias_kind => Forall ok (alias_kind_spans k)).
  - gbind parse_func_type_good. gret.
  - gbind parse_type_good. gret.
  - kont k r3 Pk Hr3 Hl3. gbind parse_token_out. gret.
Qed.

Lemma parse_constructor_good :
  goodB (fuel e) (fun m => Forall ok (resource_method_spans m)) (parse_constructor e).
Proof.
  intros ts Hwf _ Hf. unfold parse_constructor. cbv zeta.
  gbind parse_token_out. gbind parse_token_out. gbind parse_params_good. gbind parse_token_out.
  gbind parse_token_out. gret.
Qed.

Lemma parse_method_good :
  goodB (fuel e) (fun m => Forall ok (resource_method_spans m)) (parse_method e).
Proof.
  intros ts Hwf _ Hf. unfold parse_method. cbv zeta.
  gbind parse_ident_good. gbindn parse_token_out as sp1 r1 Psp1 Hr1 Hl1.
  destruct (peek_in [TStaticKeyword] r1) eqn:Es.
  - destruct (peek_in_tok _ _ Es) as (t & r' & ->). apply wf_inv in Hr1. destruct Hr1 as [_ Hr'].
    cbn [any_tok bind]. gbind parse_func_type_good. gbind parse_token_out. gret.
  - cbn [bind]. gbind parse_func_type_good. gbind parse_token_out. gret.
Qed.

Lemma parse_resource_method_good :
  goodB (fuel e) (fun m => Forall ok (resource_method_spans m)) (parse_resource_method e).
Proof.
  intros ts Hwf _ Hf. unfold parse_resource_method. galt.
  - now apply parse_constructor_good.
  - now apply parse_method_good.
Qed.

Lemma parse_resource_decl_good : goodB (fuel e) Pdecl (parse_resource_decl e).
Proof.
  intros ts Hwf _ Hf. unfold parse_resource_decl. cbv zeta.
  gbind parse_token_out. gbind parse_ident_good.
  galtP (Forall (fun m => Forall ok (resource_method_spans m))).
  - destruct (peek_kind_tok _ _ Ek) as (t & r' & -> & _).
    match goal with H : wf (LTok t :: r') |- _ => apply wf_inv in H; destruct H as [_ Hr'] end.
    cbn [any_tok bind outcome]. split; [constructor|split; [assumption|lenf]].
  - gbind parse_token_out.
    gdelim (fun m => Forall ok (resource_method_spans m)) parse_resource_method_good.
    gbind parse_token_out. cbn [outcome]. split; [assumption|split; [assumption|lenf]].
  - kont ms r2 Pms Hr2 Hl2. gret.
Qed.

Lemma parse_type_decl_good : goodB (fuel e) Pdecl (parse_type_decl e).
Proof.
  intros ts Hwf _ Hf. unfold parse_type_decl, type_decl_branches. galt.
  - now apply parse_variant_decl_good.
  - now apply parse_record_decl_good.
  - now apply parse_flags_decl_good.
  - now apply parse_enum_decl_good.
  - now apply parse_type_alias_good.
Qed.

Lemma parse_item_type_decl_good : goodB (fuel e) Pdecl (parse_item_type_decl e).
Proof.
  intros ts Hwf _ Hf. unfold parse_item_type_decl, type_decl_branches. galt.
  - now apply parse_resource_decl_good.
  - now apply parse_variant_decl_good.
  - now apply parse_record_decl_good.
  - now apply parse_flags_decl_good.
  - now apply parse_enum_decl_good.
  - now apply parse_type_alias_good.
Qed.

(* ------------------------------------------------------------------ interfaces and worlds *)

Lemma parse_use_path_good : goodB (fuel e) (fun p => Forall ok (use_path_spans p)) (parse_use_path e).
Proof.
  intros ts Hwf _ Hf. unfold parse_use_path. galt.
  - gbind parse_package_path_good. gret.
  - gbind parse_ident_good. gret.
Qed.

Lemma parse_use_item_good : goodB (fuel e) (fun u => Forall ok (use_item_spans u)) (parse_use_item e).
Proof.
  intros ts Hwf _ Hf. unfold parse_use_item. gbind parse_ident_good.
  goptP (fun i => Forall ok (ident_spans i)).
  - intros r1 Hr1 Hl1. apply outcome_lt_le. apply parse_ident_good; [assumption|lenf|lenf].
  - kont o r1 Po Hr1 Hl1. cbn [outcome]. split; [|split; [assumption|lenf]]. destruct o; spans.
Qed.

Lemma parse_use_good : goodB (fuel e) (fun u => Forall ok (use_decl_spans u)) (parse_use e).
Proof.
  intros ts Hwf _ Hf. unfold parse_use. cbv zeta.
  gbind parse_token_out. gbind parse_use_path_good. gbind parse_token_out. gbind parse_token_out.
  gdelim (fun u => Forall ok (use_item_spans u)) parse_use_item_good.
  rewrite Hd. cbn [empty_use_items impl_flags].
  rewrite match_list_same. cbn [bind].
  gbind parse_token_out. gbind parse_token_out. gret.
Qed.

Lemma parse_func_type_ref_good :
  goodB (fuel e) (fun r => Forall ok (func_type_ref_spans r)) (parse_func_type_ref e).
Proof.
  intros ts Hwf _ Hf. unfold parse_func_type_ref. galt.
  - gbind parse_func_type_good. gret.
  - gbind parse_ident_good. gret.
Qed.

Notation Pii := (fun i : interface_item => Forall ok (interface_item_spans i)).

Lemma parse_interface_export_good : goodB (fuel e) Pii (parse_interface_export e).
Proof.
  intros ts Hwf _ Hf. unfold parse_interface_export. cbv zeta.
  gbind parse_ident_good. gbind parse_token_out. gbind parse_func_type_ref_good. gbind parse_token_out. gret.
Qed.

Lemma parse_interface_item_good : goodB (fuel e) Pii (parse_interface_item e).
Proof.
  intros ts Hwf _ Hf. unfold parse_interface_item. galt.
  - gbind parse_use_good. gret.
  - now apply parse_interface_export_good.
  - gbind parse_item_type_decl_good. gret.
Qed.

Lemma parse_interface_body_good : goodB (fuel e) (Forall Pii) (parse_interface_body e).
Proof.
  intros ts Hwf _ Hf. unfold parse_interface_body.
  gbind parse_token_out. gdelim (fun i : interface_item => Forall ok (interface_item_spans i)) parse_interface_item_good. gbind parse_token_out.
  cbn [outcome]. split; [assumption|split; [assumption|lenf]].
Qed.

Lemma parse_inline_interface_good : goodB (fuel e) (Forall Pii) (parse_inline_interface e).
Proof.
  intros ts Hwf _ Hf. unfold parse_inline_interface. gbind parse_token_out.
  weakby ltac:(apply parse_interface_body_good; [assumption|lenf|lenf]).
Qed.

Notation Pts := (fun t : type_statement => Forall ok (type_statement_spans t)).

Lemma parse_interface_decl_good : goodB (fuel e) Pts (parse_interface_decl e).
Proof.
  intros ts Hwf _ Hf. unfold parse_interface_decl. cbv zeta.
  gbind parse_token_out. gbind parse_ident_good. gbind parse_interface_body_good. gret.
Qed.

Lemma parse_extern_type_good : goodB (fuel e) (fun t => Forall ok (extern_type_spans t)) (parse_extern_type e).
Proof.
  intros ts Hwf _ Hf. unfold parse_extern_type. galt.
  - gbind parse_ident_good. gret.
  - gbind parse_func_type_good. gret.
  - gbind parse_inline_interface_good. gret.
Qed.

Lemma parse_world_item_path_good :
  goodB (fuel e) (fun p => Forall ok (world_item_path_spans p)) (parse_world_item_path e).
Proof.
  intros ts Hwf _ Hf. unfold parse_world_item_path. galt.
  - gbind parse_package_path_good. gret.
  - destruct (is_colon (peek2_kind ts)).
    + gbind parse_ident_good. gbind parse_token_out. gbind parse_extern_type_good. gret.
    + gbind parse_ident_good. gret.
Qed.

Notation Pwi := (fun w : world_item => Forall ok (world_item_spans w)).

Lemma parse_world_port_good kw mk :
  (forall docs p, Forall ok (docs_spans docs) -> Forall ok (world_item_path_spans p) -> Pwi (mk docs p)) ->
  goodB (fuel e) Pwi (parse_world_port e kw mk).
Proof.
  intros Hmk ts Hwf _ Hf. unfold parse_world_port. cbv zeta.
  gbind parse_token_out. gbind parse_world_item_path_good. gbind parse_token_out.
  cbn [outcome]. split; [|split; [assumption|lenf]]. apply Hmk; auto. now apply docs_of_ok.
Qed.

Lemma parse_world_ref_good : goodB (fuel e) (fun w => Forall ok (world_ref_spans w)) (parse_world_ref e).
Proof.
  intros ts Hwf _ Hf. unfold parse_world_ref. galt.
  - gbind parse_package_path_good. gret.
  - gbind parse_ident_good. gret.
Qed.

Lemma parse_include_item_good :
  goodB (fuel e) (fun i => Forall ok (include_item_spans i)) (parse_include_item e).
Proof.
  intros ts Hwf _ Hf. unfold parse_include_item.
  gbind parse_ident_good. gbind parse_token_out. gbind parse_ident_good. gret.
Qed.

Lemma parse_world_include_good : goodB (fuel e) Pwi (parse_world_include e).
Proof.
  intros ts Hwf _ Hf. unfold parse_world_include. cbv zeta.
  gbind parse_token_out. gbind parse_world_ref_good.
  goptP (Forall (fun i => Forall ok (include_item_spans i))).
  - intros r2 Hr2 Hl2. apply outcome_lt_le. gbind parse_token_out.
    gdelim (fun i => Forall ok (include_item_spans i)) parse_include_item_good.
    rewrite Hd. cbn [empty_include_with impl_flags].
    rewrite match_list_same. cbn [bind]. gbind parse_token_out.
    cbn [outcome]. split; [assumption|split; [assumption|lenf]].
  - kont w_ r6 Pw Hr6 Hl6. gbind parse_token_out. cbn [outcome]. split; [|split; [assumption|lenf]].
    destruct w_; spans.
Qed.

Lemma parse_world_item_good : goodB (fuel e) Pwi (parse_world_item e).
Proof.
  intros ts Hwf _ Hf. unfold parse_world_item. galt.
  - gbind parse_use_good. gret.
  - apply parse_world_port_good; auto. intros. spans.
  - apply parse_world_port_good; auto. intros. spans.
  - now apply parse_world_include_good.
  - gbind parse_item_type_decl_good. gret.
Qed.

Lemma parse_world_decl_good : goodB (fuel e) Pts (parse_world_decl e).
Proof.
  intros ts Hwf _ Hf. unfold parse_world_decl. cbv zeta.
  gbind parse_token_out. gbind parse_ident_good. gbind parse_token_out.
  gdelim (fun w : world_item => Forall ok (world_item_spans w)) parse_world_item_good. gbind parse_token_out. gret.
Qed.

Lemma parse_type_statement_good : goodB (fuel e) Pts (parse_type_statement e).
Proof.
  intros ts Hwf _ Hf. unfold parse_type_statement. galt.
  - now apply parse_interface_decl_good.
  - now apply parse_world_decl_good.
  - gbind parse_type_decl_good. gret.
Qed.

(* ------------------------------------------------------------------ expressions *)

Notation Pexpr := (fun x : expr => Forall ok (expr_spans x)).
Notation Ppost := (fun x : postfix_expr => Forall ok (postfix_spans x)).
Notation Parg := (fun a : inst_arg => Forall ok (arg_spans a)).

Lemma parse_arg_name_good : goodB (fuel e) (fun n => Forall ok (arg_name_spans n)) (parse_arg_name e).
Proof.
  intros ts Hwf _ Hf. unfold parse_arg_name. galt.
  - gbind parse_ident_good. gret.
  - gbind parse_string_good. gret.
Qed.

Lemma parse_inst_arg_good b (self : parser expr) : goodB b Pexpr self -> goodB b Parg (parse_inst_arg self e).
Proof.
  intros Hs ts Hwf Hb Hf. unfold parse_inst_arg.
  destruct (peek_kind ts) as [k|] eqn:Ek; [|lafail].
  destruct (token_eqb k TEllipsis).
  - destruct (peek_kind_tok _ _ Ek) as (t & r & -> & _). apply wf_inv in Hwf. destruct Hwf as [[Hi _] Hr].
    pose proof (item_wf_span _ _ Hi) as Hts. cbn [any_tok bind].
    destruct (peek_in [TComma; TCloseBrace] r).
    + cbn [outcome]. split; [spans|split; [assumption|lenf]].
    + gbind parse_ident_good. gret.
  - destruct (mem_tok k [TIdent; TString]); [|lafail].
    destruct (is_colon (peek2_kind ts)).
    + gbind parse_arg_name_good. gbind parse_token_out. gbind Hs. gret.
    + gbind parse_ident_good. gret.
Qed.

Lemma postfix_loop_good : forall n ts, wf ts -> length ts < n -> length ts < fuel e ->
  outcome (Forall Ppost) (fun m => m <= length ts) (postfix_loop n e ts).
Proof.
  induction n as [|n IH]; intros ts Hwf Hn Hf; [lia|]. cbn [postfix_loop].
  destruct (peek_kind ts) as [k|]; [|cbn [outcome]; split; [constructor|split; [assumption|lia]]].
  destruct (token_eqb k TDot).
  { gbind parse_token_out. gbind parse_ident_good.
    eapply bind_out; [apply IH; [eassumption|lenf|lenf]|]. kont rest r2 Prest Hr2 Hl2.
    cbn [outcome]. split; [constructor; [spans|assumption]|split; [assumption|lenf]]. }
  destruct (token_eqb k TOpenBracket).
  { gbind parse_token_out. gbind parse_string_good. gbind parse_token_out.
    eapply bind_out; [apply IH; [eassumption|lenf|lenf]|]. kont rest r3 Prest Hr3 Hl3.
    cbn [outcome]. split; [constructor; [spans|assumption]|split; [assumption|lenf]]. }
  cbn [outcome]. split; [constructor|split; [assumption|lia]].
Qed.

Lemma args_ok_impl args tr : args_ok impl_flags args tr = true.
Proof. destruct args as [|[i|i|n x|sp] [|a2 rest]]; destruct tr; reflexivity. Qed.

Lemma primary_span_ok p : Forall ok (primary_spans p) -> ok (primary_span p).
Proof. destruct p; cbn [primary_spans primary_span ident_spans]; intros H; now inversion H. Qed.

Lemma postfix_span_ok x : Forall ok (postfix_spans x) -> ok (postfix_span x).
Proof. destruct x; cbn [postfix_spans postfix_span]; intros H; now inversion H. Qed.

Lemma mk_expr_ok p post :
  Forall ok (primary_spans p) -> Forall Ppost post -> Forall ok (expr_spans (mk_expr p post)).
Proof.
  intros Hp Hpost. unfold mk_expr. cbn [expr_spans]. constructor.
  - pose proof (primary_span_ok _ Hp) as Hs. destruct post as [|x post]; [exact Hs|].
    apply ok_join; [exact Hs|]. apply postfix_span_ok.
    apply (Forall_last Ppost); [exact Hpost|discriminate].
  - apply Forall_app. split; [exact Hp|now apply Forall_flat_map].
Qed.

Lemma primary_step_good b (self : parser expr) :
  goodB b Pexpr self -> goodB (S b) (fun p => Forall ok (primary_spans p)) (primary_step self e).
Proof.
  intros Hs ts Hwf Hb Hf. unfold primary_step. galt.
  - gbind parse_token_out. gbind parse_package_name_good. gbindn parse_token_out as sp2 r2 Psp2 Hr2 Hl2.
    unfold delimited.
    eapply bind_out;
      [apply (delim_loop_out Parg b TCloseBrace true inst_arg_first (parse_inst_arg self e)
                (goodB_F _ _ _ _ (parse_inst_arg_good b self Hs))); [eassumption|lenf|lenf|lenf]|].
    intros [args tr] r3 Pargs Hr3 Hl3. cbv beta in Hl3. cbn [fst] in Pargs.
    rewrite Hd, args_ok_impl. gbind parse_token_out. gret.
  - gbind parse_token_out. gbind Hs. gbind parse_token_out. gret.
  - gbind parse_ident_good. gret.
Qed.

Lemma expr_step_good b (self : parser expr) : goodB b Pexpr self -> goodB (S b) Pexpr (expr_step self e).
Proof.
  intros Hs ts Hwf Hb Hf. unfold expr_step.
  gbind (primary_step_good b self Hs).
  eapply bind_out; [apply postfix_loop_good; [eassumption|lenf|lenf]|]. kont post r1 Ppo Hr1 Hl1.
  cbn [outcome]. split; [now apply mk_expr_ok|split; [assumption|lenf]].
Qed.

Lemma parse_expr_f_good : forall f, goodB f Pexpr (parse_expr_f f e).
Proof.
  induction f as [|f IH]; [intros ts _ Hb; lia|]. cbn [parse_expr_f]. now apply expr_step_good.
Qed.

Lemma parse_expr_good : goodB (fuel e) Pexpr (parse_expr e).
Proof. apply parse_expr_f_good. Qed.

(* ------------------------------------------------------------------ statements, document *)

Notation Pstmt := (fun s : statement => Forall ok (statement_spans s)).

Lemma parse_import_type_good : goodB (fuel e) (fun t => Forall ok (import_type_spans t)) (parse_import_type e).
Proof.
  intros ts Hwf _ Hf. unfold parse_import_type. galt.
  - gbind parse_func_type_good. gret.
  - gbind parse_inline_interface_good. gret.
  - gbind parse_package_path_good. gret.
  - gbind parse_ident_good. gret.
Qed.

Lemma parse_import_statement_good : goodB (fuel e) Pstmt (parse_import_statement e).
Proof.
  intros ts Hwf _ Hf. unfold parse_import_statement. cbv zeta.
  gbind parse_token_out. gbind parse_ident_good.
  goptP (fun n => Forall ok (extern_name_spans n)).
  - intros r1 Hr1 Hl1. apply outcome_lt_le. apply parse_extern_name_good; [assumption|lenf|lenf].
  - kont name r2 Pn Hr2 Hl2. gbind parse_token_out. gbind parse_import_type_good. gbind parse_token_out.
    cbn [outcome]. split; [|split; [assumption|lenf]]. destruct name; spans.
Qed.

Lemma parse_let_statement_good : goodB (fuel e) Pstmt (parse_let_statement e).
Proof.
  intros ts Hwf _ Hf. unfold parse_let_statement. cbv zeta.
  gbind parse_token_out. gbind parse_ident_good. gbind parse_token_out. gbind parse_expr_good.
  gbind parse_token_out. gret.
Qed.

Lemma parse_export_options_good ts :
  wf ts -> length ts < fuel e ->
  outcome (fun o => Forall ok (export_options_spans o)) (fun m => m <= length ts) (parse_export_options e ts).
Proof.
  intros Hwf Hf. unfold parse_export_options.
  destruct (peek_in [TEllipsis] ts).
  { apply outcome_lt_le. gbind parse_token_out. gret. }
  destruct (peek_in [TAsKeyword] ts).
  { apply outcome_lt_le. gbind parse_token_out. gbind parse_extern_name_good. gret. }
  cbn [outcome]. split; [constructor|split; [assumption|lia]].
Qed.

Lemma parse_export_statement_good : goodB (fuel e) Pstmt (parse_export_statement e).
Proof.
  intros ts Hwf _ Hf. unfold parse_export_statement. cbv zeta.
  gbind parse_token_out. gbind parse_expr_good. gbind parse_export_options_good. gbind parse_token_out. gret.
Qed.

Lemma parse_statement_good : goodB (fuel e) Pstmt (parse_statement e).
Proof.
  intros ts Hwf _ Hf. unfold parse_statement. galt.
  - now apply parse_import_statement_good.
  - now apply parse_let_statement_good.
  - now apply parse_export_statement_good.
  - gbind parse_type_statement_good. gret.
Qed.

Lemma parse_directive_good : goodB (fuel e) (fun d => Forall ok (directive_spans d)) (parse_directive e).
Proof.
  intros ts Hwf _ Hf. unfold parse_directive.
  gbind parse_token_out. gbind parse_package_name_good.
  goptP (fun p => Forall ok (pkgpath_spans p)).
  - intros r1 Hr1 Hl1. apply outcome_lt_le. apply parse_package_path_good; [assumption|lenf|lenf].
  - kont t r2 Pt Hr2 Hl2. gbind parse_token_out. cbn [outcome]. split; [|split; [assumption|lenf]].
    destruct t; spans.
Qed.

Lemma statements_loop_good : forall n ts, wf ts -> length ts < n -> length ts < fuel e ->
  outcome (Forall Pstmt) (fun m => m = 0) (statements_loop n e ts).
Proof.
  induction n as [|n IH]; intros ts Hwf Hn Hf; [lia|]. cbn [statements_loop].
  destruct ts as [|x ts']; [cbn [outcome length]; split; [constructor|split; [constructor|reflexivity]]|].
  set (ts := x :: ts') in *.
  gbind parse_statement_good.
  eapply bind_out; [apply IH; [eassumption|lenf|lenf]|]. kont rest r1 Prest Hr1 Hl1.
  cbn [outcome]. split; [constructor; assumption|split; [assumption|exact Hl1]].
Qed.

Lemma parse_document_items_good ts :
  wf ts -> length ts < fuel e ->
  outcome (fun d => Forall ok (document_spans d)) (fun m => m = 0) (parse_document_items e ts).
Proof.
  intros Hwf Hf. unfold parse_document_items. cbv zeta.
  gbind parse_directive_good.
  eapply bind_out; [apply statements_loop_good; [eassumption|lenf|lenf]|]. kont ss r1 Pss Hr1 Hl1.
  destruct r1 as [|y r1]; [|discriminate Hl1].
  cbn [outcome length]. split; [spans|split; [constructor|reflexivity]].
Qed.

End Pass.
