(** C01: the pieces put together for graphs reachable through the API ([run u ops]) and for the output of the
    model encoder. *)
From Coq Require Import List Arith Bool NArith Lia Permutation.
From WacV Require Import Str Graph Wiring WiringSpec EncodeModel ValidSpec GraphInv GraphTheorems GraphAlias
  WiringDecode WiringOrder WiringSim WiringCorrect ValidArgs ValidEncInv ValidComplete SemverProofs.
Import ListNotations.
Local Open Scope nat_scope.

(** * the executable form of [ArgsChecked] *)
Lemma args_checked_b_spec u g : args_checked_b u g = true <-> ArgsChecked u g.
Proof.
  unfold args_checked_b, ArgsChecked. rewrite forallb_forall. split.
  - intros H ed i Hed K. specialize (H ed Hed). unfold edge_checked_b in H. rewrite K in H.
    destruct (get_node g (esrc ed)) as [sn|] eqn:G1; [|discriminate]. destruct (get_node g (etgt ed)) as [tn|] eqn:G2; [|discriminate].
    destruct (inst_imports u g tn) as [imps|] eqn:I; [|discriminate]. destruct (nth_error imps i) as [[nm k]|] eqn:N; [|discriminate].
    exists sn, tn, imps, nm, k. repeat split; auto.
  - intros H ed Hed. unfold edge_checked_b. destruct (ek ed) as [i|i|] eqn:K; auto.
    destruct (H ed i Hed K) as (sn & tn & imps & nm & k & G1 & G2 & I & N & S). now rewrite G1, G2, I, N.
Qed.

(** * instantiation completeness for reachable graphs *)
Lemma explicit_in_range u g n tn imps :
  ArgsChecked u g -> get_node g n = Some tn -> inst_imports u g tn = Some imps ->
  forall i, In i (explicit_idx g n) -> i < length imps.
Proof.
  intros A G I i Hi. apply explicit_idx_In in Hi as (ed & Hed & T & K).
  eapply (arg_index_in_range u g ed i tn imps); eauto. now rewrite T.
Qed.

Theorem idx_complete_checked u g n nd sat imps :
  Inv u g -> ArgsChecked u g ->
  get_node g n = Some nd -> nk nd = NInst sat -> inst_imports u g nd = Some imps ->
  Permutation (explicit_idx g n ++ implicit_idx sat (length imps)) (seq 0 (length imps)) /\
  (forall i, In i (explicit_idx g n) -> ~ In i (implicit_idx sat (length imps))).
Proof.
  intros HI A G K I. apply (idx_complete u g HI n nd sat (length imps) G K). eapply explicit_in_range; eauto.
Qed.

Theorem spec_inst_complete_checked e u g dc ord n nd sat imps :
  Inv u g -> ArgsChecked u g ->
  get_node g n = Some nd -> nk nd = NInst sat -> inst_imports u g nd = Some imps ->
  exists args, spec_inst e u g dc ord n = WInst (comp_prov e g dc n) args /\
    same_names (map arg_name args) (map (fun x : name * kid => nstr e (fst x)) imps).
Proof.
  intros HI A G K I. eapply spec_inst_complete; eauto. eapply explicit_in_range; eauto.
Qed.

(** * the instantiate items of the model encoder *)
(** distinct universe packages have distinct bytes and distinct component-import names *)
Definition PkgIdent (e : wenv) (u : universe) : Prop :=
  forall p q : nat, p < length (u_pkgs u) -> q < length (u_pkgs u) ->
    (we_digest e p = we_digest e q \/ pkg_import_name e p = pkg_import_name e q) -> p = q.

Lemma pkg_of_prov_found e u (dc : bool) p :
  PkgIdent e u -> p < length (u_pkgs u) ->
  pkg_of_prov e (length (u_pkgs u)) (if dc then PComp (we_digest e p) else PImp (pkg_import_name e p)) = Some p.
Proof.
  intros PI Lp. unfold pkg_of_prov.
  match goal with |- find ?f _ = _ => set (F := f) end.
  assert (Fp : F p = true).
  { unfold F. destruct dc; [apply N.eqb_refl|now apply str_eqb_eq]. }
  destruct (find F (seq 0 (length (u_pkgs u)))) as [q|] eqn:Fd.
  - apply find_some in Fd as [Hq Fq]. apply in_seq in Hq. f_equal. symmetry. apply PI; auto; try lia.
    unfold F in Fq. destruct dc; [left; apply N.eqb_eq in Fq; auto|right; apply str_eqb_eq in Fq; auto].
  - exfalso. pose proof (find_none _ _ Fd p) as X. rewrite Fp in X. assert (In p (seq 0 (length (u_pkgs u)))) by (apply in_seq; lia).
    specialize (X H). discriminate.
Qed.

Lemma spec_inst_item_complete e u g dc ord n :
  Inv u g -> ArgsChecked u g -> PkgIdent e u -> is_inst g n = true ->
  inst_item_complete e u (spec_inst e u g dc ord n) = true.
Proof.
  intros HI A PI In_n. apply (is_inst_true g n) in In_n as (nd & sat & G & K).
  destruct (inv_inst_pkg _ _ HI n nd sat G K) as (id & pd & P & PD).
  assert (I : inst_imports u g nd = Some (pd_imports pd)) by (unfold inst_imports; now rewrite P, PD).
  destruct (spec_inst_complete_checked e u g dc ord n nd sat (pd_imports pd) HI A G K I) as (args & E & S).
  rewrite E. unfold inst_item_complete, comp_prov, node_pkg. rewrite G, P.
  unfold pkg_desc in PD. destruct (get_pkg g id) as [p|] eqn:GP; [|discriminate].
  assert (Lp : p < length (u_pkgs u)) by (apply nth_error_Some; congruence).
  rewrite (pkg_of_prov_found e u dc p PI Lp). unfold import_names. rewrite PD. now apply same_namesb_spec.
Qed.

Theorem encoded_instantiations_complete e u g dc tau ord st names w :
  EncInv e u g -> Inv u g -> ArgsChecked u g -> PkgIdent e u ->
  topo_orderb g ord = true ->
  encode_with_order e u g dc tau ord = ROk (st, names) ->
  (forall p, In p (e_dedup st) -> fst p = snd p) ->
  decode_wiring names (e_log st) = Some w ->
  w_insts w = map (spec_inst e u g dc ord) (filter (is_inst g) ord) /\ inst_complete_b e u w = true.
Proof.
  intros EI HI A PI TO R Cons D.
  pose proof (wiring_correct _ _ _ _ _ _ _ _ EI TO R Cons) as W. rewrite D in W. cbn [option_map] in W. injection W as Wi _ _ _.
  cbn in Wi. split; [exact Wi|]. unfold inst_complete_b. rewrite Wi. apply forallb_forall. intros wi Hwi.
  apply in_map_iff in Hwi as (n & <- & Hn). apply filter_In in Hn as [_ Hn]. now apply spec_inst_item_complete.
Qed.

(** * C03: the exports of the output are exactly the export map, for every reachable graph *)
Theorem exports_spec_reachable e u ops dc tau ord st names w :
  UnivOK e u ->
  topo_orderb (run u ops) ord = true ->
  encode_with_order e u (run u ops) dc tau ord = ROk (st, names) ->
  (forall p, In p (e_dedup st) -> fst p = snd p) ->
  decode_wiring names (e_log st) = Some w ->
  forall nm s, In (nm, s) (map export_sig (w_exports w)) <-> In (nm, s) (spec_export_names e (run u ops)).
Proof.
  intros UO TO R Cons D. set (g := run u ops) in *.
  pose proof (reach_inv u ops) as HI. pose proof (reach_kind_inv u ops) as KI.
  pose proof (enc_inv_reachable e u ops UO) as EI. fold g in HI, KI, EI.
  eapply exports_spec; eauto.
  - intros n _ Dn. apply (is_def_true g n) in Dn as (nd & G & K).
    destruct (ki_def _ _ KI n nd G K) as (_ & Ne). destruct (nexport nd) as [nm|] eqn:X; [|congruence].
    exists nm. eapply inv_node_export; eauto.
  - apply (inv_exports_live _ _ HI).
Qed.

(** * the modelled causes of a late failure do not occur for reachable graphs *)
Theorem no_late_failure_reachable e u ops dc tau ord st names :
  UnivOK e u -> PkgIdent e u ->
  topo_orderb (run u ops) ord = true ->
  encode_with_order e u (run u ops) dc tau ord = ROk (st, names) ->
  (forall p, In p (e_dedup st) -> fst p = snd p) ->
  exists w,
    decode_wiring names (e_log st) = Some w /\
    log_in_scope [] (e_log st) = true /\
    inst_complete_b e u w = true /\
    args_checked_b u (run u ops) = true /\
    (forall nm s, In (nm, s) (map export_sig (w_exports w)) <-> In (nm, s) (spec_export_names e (run u ops))) /\
    (forall nm n, In (nm, n) (exports (run u ops)) -> live (run u ops) n = true).
Proof.
  intros UO PI TO R Cons. set (g := run u ops) in *.
  pose proof (reach_inv u ops) as HI. pose proof (reach_args_checked u ops) as A. pose proof (reach_kind_inv u ops) as KI.
  pose proof (enc_inv_reachable e u ops UO) as EI. fold g in HI, A, KI, EI.
  pose proof (wiring_correct _ _ _ _ _ _ _ _ EI TO R Cons) as W.
  destruct (decode_wiring names (e_log st)) as [w|] eqn:D; [|discriminate]. exists w.
  split; [reflexivity|]. split; [eapply decode_scoped; eauto|].
  split; [eapply encoded_instantiations_complete; eauto|].
  split; [now apply args_checked_b_spec|].
  assert (Live : forall nm n, In (nm, n) (exports g) -> live g n = true) by (apply (inv_exports_live _ _ HI)).
  split; [|exact Live].
  eapply exports_spec; eauto.
  intros n _ Dn. apply (is_def_true g n) in Dn as (nd & G & K).
  destruct (ki_def _ _ KI n nd G K) as (_ & Ne). destruct (nexport nd) as [nm|] eqn:X; [|congruence].
  exists nm. eapply inv_node_export; eauto.
Qed.
