(** C13: the tree [Document::parse] (the model) returns for a source text is well-formed with respect
    to that text ([wf_document]): every leaf is what the source has at its span, and the lists the
    parser refuses to leave empty are not empty. Proved through the grammar: the parser's result is a
    derivation over the lexer's tokens ([parse_sound], C12), the lexer's tokens tile the source
    ([lex_loop_tiles], C12), and every derivation over accurate tokens builds a well-formed tree. *)
From WacV Require Import Str Token Lexer LexTables LexImpl LexerSound Semver Ast Parser Grammar ParserComb ParserProofs ParserTop.
From WacV Require Import Printer PrintSpec PrinterText.
From Coq Require Import Lia.
Local Open Scope nat_scope.

Scheme g_type_mut := Minimality for g_type Sort Prop
  with g_types_mut := Minimality for g_types Sort Prop.
Scheme g_expr_mut := Minimality for g_expr Sort Prop
  with g_primary_mut := Minimality for g_primary Sort Prop
  with g_args_mut := Minimality for g_args Sort Prop
  with g_arg_mut := Minimality for g_arg Sort Prop.

Section Wf.
Variable src : str.
Let d := impl_flags.

Definition acc (it : lexitem) : Prop :=
  match it with LTok t => slice src (tsp t) = Some (ttext t) | _ => True end.
Definition Acc (ts : list lexitem) : Prop := Forall acc ts.

(** A derivation step: from accurate tokens, a well-formed result and accurate remaining tokens. *)
Definition step {A} (G : drel A) (wf : A -> Prop) : Prop :=
  forall ts r x, G ts r x -> Acc ts -> wf x /\ Acc r.

Lemma tok_acc k ts r t : tok k ts r t -> Acc ts -> slice src (tsp t) = Some (ttext t) /\ Acc r.
Proof. intros [-> _] H. inversion H; subst. auto. Qed.

Lemma step_id : step g_id (wf_ident src).
Proof.
  intros ts r i (t & Ht & ->) Ha. destruct (tok_acc _ _ _ _ Ht Ha) as [Hs Hr]. split; [|exact Hr].
  exists (ttext t). split; [exact Hs|reflexivity].
Qed.

Lemma step_string : step g_string (wf_strlit src).
Proof.
  intros ts r s (t & Ht & Hs0) Ha. destruct (tok_acc _ _ _ _ Ht Ha) as [Hs Hr]. split; [|exact Hr].
  unfold strlit_of in Hs0. destruct (unquote (ttext t)) as [v|] eqn:E; [|discriminate]. inversion Hs0; subst s.
  exists (ttext t). split; [exact Hs|exact E].
Qed.

Lemma step_package_name : step g_package_name (wf_package_name src).
Proof.
  intros ts r p (t & Ht & Hp) Ha. destruct (tok_acc _ _ _ _ Ht Ha) as [Hs Hr]. split; [|exact Hr].
  assert (Hsp : pn_span p = tsp t).
  { unfold package_name_of in Hp. destruct (version_of t (ttext t)); inversion Hp; reflexivity. }
  exists (ttext t). rewrite Hsp. split; [exact Hs|]. exact Hp.
Qed.

Lemma step_package_path : step g_package_path (wf_package_path src).
Proof.
  intros ts r p (t & Ht & Hp) Ha. destruct (tok_acc _ _ _ _ Ht Ha) as [Hs Hr]. split; [|exact Hr].
  assert (Hsp : pp_span p = tsp t).
  { unfold package_path_of in Hp. destruct (find_char c_slash (ttext t)); [|discriminate].
    destruct (version_of t (ttext t)); inversion Hp; reflexivity. }
  exists (ttext t). rewrite Hsp. split; [exact Hs|]. exact Hp.
Qed.

(* ------------------------------------------------------------------ combinators *)

Lemma step_seplist {A} (G : drel A) (wf : A -> Prop) :
  step G wf -> forall ts r x, seplist G ts r x -> Acc ts -> All wf (fst x) /\ Acc r.
Proof.
  intros HG ts r x H. induction H as [ts|ts r a Ha|ts r1 r a c Ha Hc|ts r1 r2 r a c l tr Ha Hc Hl IH Hne]; intros Hacc.
  - split; [exact I|exact Hacc].
  - destruct (HG _ _ _ Ha Hacc) as [H1 H2]. cbn. auto.
  - destruct (HG _ _ _ Ha Hacc) as [H1 H2]. destruct (tok_acc _ _ _ _ Hc H2) as [_ H3]. cbn. auto.
  - destruct (HG _ _ _ Ha Hacc) as [H1 H2]. destruct (tok_acc _ _ _ _ Hc H2) as [_ H3].
    destruct (IH H3) as [H4 H5]. cbn in *. auto.
Qed.

Lemma step_many {A} (G : drel A) (wf : A -> Prop) :
  step G wf -> forall ts r l, many G ts r l -> Acc ts -> All wf l /\ Acc r.
Proof.
  intros HG ts r l H. induction H as [ts|ts r1 r a l Ha Hl IH]; intros Hacc.
  - split; [exact I|exact Hacc].
  - destruct (HG _ _ _ Ha Hacc) as [H1 H2]. destruct (IH H2) as [H3 H4]. cbn. auto.
Qed.

Lemma step_opt {A} k (G : drel A) (wf : A -> Prop) :
  step G wf -> forall ts r o, opt k G ts r o -> Acc ts -> match o with Some a => wf a | None => True end /\ Acc r.
Proof.
  intros HG ts r o H Hacc. destruct H as [ts|ts r1 r t a Ht Ha].
  - auto.
  - destruct (tok_acc _ _ _ _ Ht Hacc) as [_ H1]. exact (HG _ _ _ Ha H1).
Qed.

(** Discharge the token steps of a production. *)
Ltac toks :=
  repeat match goal with
         | Ht : tok _ ?ts _ _, Ha : Acc ?ts |- _ =>
             let H1 := fresh "Hs" in let H2 := fresh "Ha" in
             destruct (tok_acc _ _ _ _ Ht Ha) as [H1 H2]; clear Ht
         end.

Ltac use_step L :=
  match goal with
  | Hg : _ ?ts ?r ?x, Ha : Acc ?ts |- _ =>
      let H1 := fresh "Hw" in let H2 := fresh "Ha" in
      destruct (L _ _ _ Hg Ha) as [H1 H2]; clear Hg
  end.

(* ------------------------------------------------------------------ types *)

Lemma All_ty_fix l :
  All (wf_ty src) l ->
  (fix all (l : list ty) : Prop := match l with [] => True | x :: r => wf_ty src x /\ all r end) l.
Proof. induction l as [|x l IH]; [intros; exact I|]. intros [H1 H2]. split; [exact H1|exact (IH H2)]. Qed.

(** Extended below with the step lemmas as they become available. *)
Ltac wfext := fail.

Ltac wfstep :=
  match goal with
  | H : borrow_any_type _ = true |- _ => discriminate H
  | H : named_results _ = true |- _ => discriminate H
  | Ha : Acc (_ :: _) |- _ => inversion Ha; subst; clear Ha
  | Ht : tok _ ?ts _ _, Ha : Acc ?ts |- _ =>
      let H1 := fresh "Hs" in let H2 := fresh "Ha" in destruct (tok_acc _ _ _ _ Ht Ha) as [H1 H2]; clear Ht
  | IH : Acc ?ts -> _, Ha : Acc ?ts |- _ =>
      let H1 := fresh "Hw" in let H2 := fresh "Ha" in destruct (IH Ha) as [H1 H2]; clear IH
  | Hg : g_id ?ts _ _, Ha : Acc ?ts |- _ =>
      let H1 := fresh "Hw" in let H2 := fresh "Ha" in destruct (step_id _ _ _ Hg Ha) as [H1 H2]; clear Hg
  | Hg : g_string ?ts _ _, Ha : Acc ?ts |- _ =>
      let H1 := fresh "Hw" in let H2 := fresh "Ha" in destruct (step_string _ _ _ Hg Ha) as [H1 H2]; clear Hg
  | Hg : g_package_name ?ts _ _, Ha : Acc ?ts |- _ =>
      let H1 := fresh "Hw" in let H2 := fresh "Ha" in destruct (step_package_name _ _ _ Hg Ha) as [H1 H2]; clear Hg
  | Hg : g_package_path ?ts _ _, Ha : Acc ?ts |- _ =>
      let H1 := fresh "Hw" in let H2 := fresh "Ha" in destruct (step_package_path _ _ _ Hg Ha) as [H1 H2]; clear Hg
  | _ => wfext
  end.
Ltac wfsolve := repeat wfstep; repeat (first [assumption | exact I | split]); eauto.

Lemma step_type_both :
  (forall ts r t, g_type d ts r t -> Acc ts -> wf_ty src t /\ Acc r) /\
  (forall ts r x, g_types d ts r x -> Acc ts -> All (wf_ty src) (fst x) /\ Acc r).
Proof.
  split.
  - apply (g_type_mut d (fun ts r t => Acc ts -> wf_ty src t /\ Acc r)
                        (fun ts r x => Acc ts -> All (wf_ty src) (fst x) /\ Acc r));
      intros; subst; cbn [wf_ty fst All] in *; wfsolve; try (apply All_ty_fix; assumption).
  - apply (g_types_mut d (fun ts r t => Acc ts -> wf_ty src t /\ Acc r)
                         (fun ts r x => Acc ts -> All (wf_ty src) (fst x) /\ Acc r));
      intros; subst; cbn [wf_ty fst All] in *; wfsolve; try (apply All_ty_fix; assumption).
Qed.

Definition step_type : step (g_type d) (wf_ty src) := proj1 step_type_both.

Ltac use1 L :=
  match goal with
  | Hg : _ ?ts _ _, Ha : Acc ?ts |- _ =>
      let H1 := fresh "Hw" in let H2 := fresh "Ha" in destruct (L _ _ _ Hg Ha) as [H1 H2]; clear Hg
  end.
Ltac unpack :=
  repeat match goal with
         | H : exists _, _ |- _ => destruct H
         | H : _ /\ _ |- _ => destruct H
         end.

Ltac wfext ::= use1 step_type.

(* ------------------------------------------------------------------ function types *)

Lemma step_named_type : step (g_named_type d) (wf_named_type src).
Proof. intros ts r x H Ha. unfold g_named_type in H. unpack. subst. unfold wf_named_type. cbn. wfsolve. Qed.

Lemma step_params : step (g_params d) (All (wf_named_type src)).
Proof. intros ts r x [tr H] Ha. exact (step_seplist _ _ step_named_type _ _ _ H Ha). Qed.

Ltac wfext ::= first [use1 step_type | use1 step_named_type | use1 step_params].

Lemma step_results : step (g_results d) (fun x => match x with RLEmpty => True | RLScalar t => wf_ty src t | RLNamed _ => False end).
Proof. intros ts r x H Ha. destruct H; wfsolve. Qed.

Lemma step_func_type : step (g_func_type d) (wf_func_type src).
Proof.
  intros ts r x H Ha. unfold g_func_type in H. unpack. subst. unfold wf_func_type. cbn [ft_params ft_results].
  repeat wfstep.
  match goal with Ho : opt _ _ _ _ ?res |- _ =>
    destruct (step_opt _ _ _ step_results _ _ _ Ho ltac:(eassumption)) as [Hx Hy];
    split; [|exact Hy]; split; [assumption|]; destruct res as [[| |]|]; cbn in *; auto end.
Qed.

Ltac wfext ::= first [use1 step_type | use1 step_named_type | use1 step_params | use1 step_func_type].

(* ------------------------------------------------------------------ type declarations *)

Definition wf_vc (c : variant_case) : Prop :=
  wf_ident src (vc_id c) /\ match vc_ty c with Some t => wf_ty src t | None => True end.
Definition wf_fd (f : field) : Prop := wf_ident src (fd_id f) /\ wf_ty src (fd_ty f).
Definition wf_fl (f : flag) : Prop := wf_ident src (fl_id f).
Definition wf_ec (c : enum_case) : Prop := wf_ident src (ec_id c).

Lemma step_variant_case : step (g_variant_case d) wf_vc.
Proof.
  intros ts r x H Ha. unfold g_variant_case in H. unpack. subst. unfold wf_vc. cbn [vc_id vc_ty]. repeat wfstep.
  match goal with Ho : opt _ _ _ _ ?o |- _ =>
    assert (Hstep : step (fun a b x => exists b1 c, g_type d a b1 x /\ tok TCloseParen b1 b c) (wf_ty src))
      by (intros ? ? ? ? ?; unpack; wfsolve);
    destruct (step_opt _ _ _ Hstep _ _ _ Ho ltac:(eassumption)) as [Hx Hy] end.
  auto.
Qed.

Lemma step_field : step (g_field d) wf_fd.
Proof. intros ts r x H Ha. unfold g_field in H. unpack. subst. unfold wf_fd. cbn [fd_id fd_ty]. use1 step_named_type. destruct Hw. auto. Qed.

Lemma step_flag : step g_flag wf_fl.
Proof. intros ts r x H Ha. unfold g_flag in H. unpack. subst. unfold wf_fl. cbn. wfsolve. Qed.

Lemma step_enum_case : step g_enum_case wf_ec.
Proof. intros ts r x H Ha. unfold g_enum_case in H. unpack. subst. unfold wf_ec. cbn. wfsolve. Qed.

Lemma step_braced {A} kw (item : drel A) (wfi : A -> Prop) mk :
  step item wfi ->
  forall ts r x, g_braced kw item mk ts r x -> Acc ts ->
  (exists dcs i items, x = mk dcs i items /\ wf_ident src i /\ items <> [] /\ All wfi items) /\ Acc r.
Proof.
  intros Hs ts r x H Ha. unfold g_braced in H. unpack. subst. repeat wfstep.
  match goal with Hl : seplist _ _ _ _ |- _ => destruct (step_seplist _ _ Hs _ _ _ Hl ltac:(eassumption)) as [Hx Hy] end.
  repeat wfstep. split; [|assumption]. do 3 eexists. split; [reflexivity|]. auto.
Qed.

Lemma step_type_decl : step (g_type_decl d) (fun x => is_resource x = false /\ wf_item_type_decl src x).
Proof.
  intros ts r x H Ha. destruct H.
  - destruct (step_braced _ _ _ _ step_variant_case _ _ _ H Ha) as [(dcs & i & items & -> & H1 & H2 & H3) H4]. cbn. auto.
  - destruct (step_braced _ _ _ _ step_field _ _ _ H Ha) as [(dcs & i & items & -> & H1 & H2 & H3) H4]. cbn. auto.
  - destruct (step_braced _ _ _ _ step_flag _ _ _ H Ha) as [(dcs & i & items & -> & H1 & H2 & H3) H4]. cbn. auto.
  - destruct (step_braced _ _ _ _ step_enum_case _ _ _ H Ha) as [(dcs & i & items & -> & H1 & H2 & H3) H4]. cbn. auto.
  - cbn. wfsolve.
  - cbn. wfsolve.
Qed.

Lemma step_resource_item : step (g_resource_item d) (wf_resource_method src).
Proof.
  intros ts r x H Ha. destruct H; cbn [wf_resource_method].
  - wfsolve.
  - repeat wfstep.
    match goal with Ho : opt _ _ _ _ _ |- _ =>
      assert (Hstep : step (fun a b (x : unit) => a = b) (fun _ => True)) by (intros ? ? ? -> ?; auto);
      destruct (step_opt _ _ _ Hstep _ _ _ Ho ltac:(eassumption)) as [Hx Hy] end.
    wfsolve.
Qed.

Lemma step_item_type_decl : step (g_item_type_decl d) (wf_item_type_decl src).
Proof.
  intros ts r x H Ha. destruct H.
  - cbn. wfsolve.
  - cbn [wf_item_type_decl]. repeat wfstep.
    match goal with Hm : many _ _ _ _ |- _ => destruct (step_many _ _ step_resource_item _ _ _ Hm ltac:(eassumption)) as [Hx Hy] end.
    wfsolve.
  - destruct (step_type_decl _ _ _ H Ha) as [[_ H1] H2]. auto.
Qed.

Ltac wfext ::= first [use1 step_type | use1 step_named_type | use1 step_params | use1 step_func_type
                     | use1 step_item_type_decl ].

(* ------------------------------------------------------------------ interfaces and worlds *)

Definition wf_ui (it : use_item) : Prop :=
  wf_ident src (ui_id it) /\ match ui_as it with Some a => wf_ident src a | None => True end.

Lemma step_use_item : step g_use_item wf_ui.
Proof.
  intros ts r x H Ha. unfold g_use_item in H. unpack. subst. unfold wf_ui. cbn [ui_id ui_as]. repeat wfstep.
  match goal with Ho : opt _ _ _ _ _ |- _ => destruct (step_opt _ _ _ step_id _ _ _ Ho ltac:(eassumption)) as [Hx Hy] end.
  auto.
Qed.

Lemma step_use : step (g_use d) (wf_use src).
Proof.
  intros ts r x H Ha. unfold g_use in H. unpack. subst. unfold wf_use. cbn [u_path u_items]. repeat wfstep.
  match goal with Hp : g_use_path _ _ _ |- _ => destruct Hp end; repeat wfstep;
  (match goal with Hl : seplist _ _ _ _ |- _ => destruct (step_seplist _ _ step_use_item _ _ _ Hl ltac:(eassumption)) as [Hx Hy] end);
  wfsolve.
Qed.

Lemma step_func_type_ref :
  step (g_func_type_ref d) (fun t => match t with FRFunc f => wf_func_type src f | FRIdent j => wf_ident src j end).
Proof. intros ts r x H Ha. destruct H; wfsolve. Qed.

Lemma step_interface_item : step (g_interface_item d) (wf_interface_item src).
Proof.
  intros ts r x H Ha. destruct H; cbn [wf_interface_item].
  - use1 step_use. auto.
  - wfsolve.
  - repeat wfstep. use1 step_func_type_ref. wfsolve.
Qed.

Lemma step_interface_body : step (g_interface_body d) (All (wf_interface_item src)).
Proof.
  intros ts r x H Ha. unfold g_interface_body in H. unpack. repeat wfstep.
  match goal with Hm : many _ _ _ _ |- _ => destruct (step_many _ _ step_interface_item _ _ _ Hm ltac:(eassumption)) as [Hx Hy] end.
  wfsolve.
Qed.

Lemma step_inline_interface : step (g_inline_interface d) (All (wf_interface_item src)).
Proof. intros ts r x H Ha. unfold g_inline_interface in H. unpack. repeat wfstep. use1 step_interface_body. auto. Qed.

Lemma step_extern_type : step (g_extern_type d) (wf_extern_type src).
Proof. intros ts r x H Ha. destruct H; cbn [wf_extern_type]; [wfsolve|use1 step_inline_interface; auto|wfsolve]. Qed.

Lemma step_world_item_path : step (g_world_item_path d) (wf_world_item_path src).
Proof. intros ts r x H Ha. destruct H; cbn [wf_world_item_path]; repeat wfstep; try use1 step_extern_type; wfsolve. Qed.

Definition wf_ii (it : include_item) : Prop := wf_ident src (ii_from it) /\ wf_ident src (ii_to it).

Lemma step_include_item : step g_include_item wf_ii.
Proof. intros ts r x H Ha. unfold g_include_item in H. unpack. subst. unfold wf_ii. cbn. wfsolve. Qed.

Lemma step_world_item : step (g_world_item d) (wf_world_item src).
Proof.
  intros ts r x H Ha. destruct H; cbn [wf_world_item].
  - use1 step_use. auto.
  - wfsolve.
  - repeat wfstep. use1 step_world_item_path. wfsolve.
  - repeat wfstep. use1 step_world_item_path. wfsolve.
  - repeat wfstep.
    assert (Hstep : step (fun a b items => exists b1 b2 o c tr,
                  tok TOpenBrace a b1 o /\ seplist g_include_item b1 b2 (items, tr) /\
                  (items <> [] \/ empty_include_with d = true) /\ tok TCloseBrace b2 b c) (All wf_ii)).
    { intros ? ? ? ? ?. unpack. repeat wfstep.
      match goal with Hl : seplist _ _ _ _ |- _ => destruct (step_seplist _ _ step_include_item _ _ _ Hl ltac:(eassumption)) as [Hx Hy] end.
      wfsolve. }
    match goal with Hw : g_world_ref _ _ _ |- _ => destruct Hw end; repeat wfstep;
    (match goal with Ho : opt _ _ _ _ ?o |- _ =>
       destruct (step_opt _ _ _ Hstep _ _ _ Ho ltac:(eassumption)) as [Hx Hy]; destruct o end);
    wfsolve.
Qed.

Lemma step_type_statement : step (g_type_statement d) (wf_type_statement src).
Proof.
  intros ts r x H Ha. destruct H; cbn [wf_type_statement].
  - repeat wfstep. use1 step_interface_body. auto.
  - repeat wfstep.
    match goal with Hm : many _ _ _ _ |- _ => destruct (step_many _ _ step_world_item _ _ _ Hm ltac:(eassumption)) as [Hx Hy] end.
    wfsolve.
  - destruct (step_type_decl _ _ _ H Ha) as [[H0 H1] H2]. auto.
Qed.

(* ------------------------------------------------------------------ expressions *)

Lemma step_postfix : step g_postfix (wf_postfix src).
Proof. intros ts r x H Ha. destruct H; cbn [wf_postfix]; wfsolve. Qed.

Lemma step_arg_name :
  step g_arg_name (fun n => match n with ANIdent i => wf_ident src i | ANString s => wf_strlit src s end).
Proof. intros ts r x H Ha. destruct H; wfsolve. Qed.

Lemma All_args_fix l :
  All (wf_arg src) l ->
  (fix all (l : list inst_arg) : Prop := match l with [] => True | a :: r => wf_arg src a /\ all r end) l.
Proof. induction l as [|x l IH]; [intros; exact I|]. intros [H1 H2]. split; [exact H1|exact (IH H2)]. Qed.

Lemma step_expr : step (g_expr d) (wf_expr src).
Proof.
  intros ts r x H. revert ts r x H.
  apply (g_expr_mut d (fun ts r x => Acc ts -> wf_expr src x /\ Acc r)
                      (fun ts r p => Acc ts -> wf_primary src p /\ Acc r)
                      (fun ts r x => Acc ts -> All (wf_arg src) (fst x) /\ Acc r)
                      (fun ts r a => Acc ts -> wf_arg src a /\ Acc r));
    intros; subst; cbn [wf_expr wf_primary wf_arg fst All mk_expr] in *.
  - repeat wfstep.
    match goal with Hm : many _ _ _ _ |- _ => destruct (step_many _ _ step_postfix _ _ _ Hm ltac:(eassumption)) as [Hx Hy] end.
    unfold mk_expr. cbn [wf_expr]. auto.
  - repeat wfstep. repeat split; auto. now apply All_args_fix.
  - wfsolve.
  - wfsolve.
  - wfsolve.
  - wfsolve.
  - wfsolve.
  - wfsolve.
  - wfsolve.
  - wfsolve.
  - repeat wfstep. use1 step_arg_name. repeat wfstep. auto.
  - wfsolve.
Qed.

(* ------------------------------------------------------------------ statements, document *)

Lemma step_extern_name : step g_extern_name (wf_extern_name src).
Proof. intros ts r x H Ha. destruct H; cbn [wf_extern_name]; wfsolve. Qed.

Lemma step_statement : step (g_statement d) (wf_statement src).
Proof.
  intros ts r x H Ha. destruct H; cbn [wf_statement].
  - repeat wfstep.
    match goal with Ho : opt _ _ _ _ _ |- _ => destruct (step_opt _ _ _ step_extern_name _ _ _ Ho ltac:(eassumption)) as [Hx Hy] end.
    repeat wfstep.
    match goal with Hi : g_import_type _ _ _ _ |- _ => destruct Hi end; repeat wfstep; try use1 step_inline_interface; wfsolve.
  - use1 step_type_statement. auto.
  - repeat wfstep. use1 step_expr. wfsolve.
  - repeat wfstep. use1 step_expr.
    match goal with Ho : g_export_options _ _ _ |- _ => destruct Ho end; repeat wfstep; try use1 step_extern_name; wfsolve.
Qed.

Lemma step_document ts x : g_document d ts [] x -> Acc ts -> wf_document src x.
Proof.
  intros H Ha. unfold g_document in H. unpack. subst. unfold g_package_decl in *. unpack. subst.
  unfold wf_document. cbn [doc_directive pd_package pd_targets doc_statements]. repeat wfstep.
  match goal with Ho : opt _ _ _ _ _ |- _ => destruct (step_opt _ _ _ step_package_path _ _ _ Ho ltac:(eassumption)) as [Hx Hy] end.
  repeat wfstep.
  match goal with Hm : many _ _ _ _ |- _ => destruct (step_many _ _ step_statement _ _ _ Hm ltac:(eassumption)) as [Hz Hw'] end.
  auto.
Qed.

End Wf.

(* ------------------------------------------------------------------ the lexer's tokens are accurate *)

Lemma tiles_acc src : forall o s items, tiles o s items ->
  forall pre, src = pre ++ s -> o = byte_len pre -> Acc src items.
Proof.
  induction 1 as [o g Hg|o g t rest items Hg Hne Hsp Ht IH|o g rest it Hg Hit]; intros pre Hsrc Ho.
  - constructor.
  - constructor.
    + cbn [acc]. rewrite Hsp, Hsrc, Ho, <- byte_len_app, app_assoc. apply slice_at.
    + apply (IH (pre ++ g ++ ttext t)); [rewrite Hsrc, <- !app_assoc; reflexivity|].
      rewrite !byte_len_app, Ho. lia.
  - constructor; [|constructor]. destruct it; try exact I. contradiction.
Qed.

Lemma lex_acc cfg src : Acc src (lex cfg src).
Proof.
  unfold lex. destruct (screen cfg src) as [[e sp]|].
  - constructor; [exact I|constructor].
  - apply (tiles_acc src 0%N src _ (lex_loop_tiles cfg _ 0%N src) []); reflexivity.
Qed.

(** [parse_wf]: the tree of an accepted document is well-formed with respect to its source. *)
Theorem parse_wf_impl src doc r :
  parse_document impl_flags impl_cfg src = POk doc r -> wf_document src doc.
Proof.
  intros H. apply parse_document_sound in H. destruct H as [_ H].
  eapply step_document; [exact H|apply lex_acc].
Qed.
