(** Simulation of the model encoder's node loop by [decode_wiring]: after every emitted node the
    decoded state of the log so far agrees with the specification restricted to the processed nodes. *)
From Coq Require Import List Arith Bool NArith Lia.
From WacV Require Import Str Graph Wiring WiringSpec EncodeModel WiringDecode EncodeBasics WiringOrder.
Import ListNotations.
Local Open Scope nat_scope.
Arguments node_prov : simpl never.
Arguments node_sort : simpl never.
Arguments cnt : simpl never.
Arguments pkg_assoc : simpl never.
Arguments pkgid_eqb : simpl never.
Arguments nat_assoc : simpl never.

(** * small list facts *)
Lemma filter_snoc {A} (f : A -> bool) l x : filter f (l ++ [x]) = filter f l ++ (if f x then [x] else []).
Proof. rewrite filter_app. cbn. now destruct (f x). Qed.

Lemma flat_map_snoc {A B} (f : A -> list B) l x : flat_map f (l ++ [x]) = flat_map f l ++ f x.
Proof. rewrite flat_map_app. cbn. now rewrite app_nil_r. Qed.

Lemma look_args_app sp a b :
  look_args sp (a ++ b) = match look_args sp a, look_args sp b with
                          | Some x, Some y => Some (x ++ y)
                          | _, _ => None
                          end.
Proof.
  induction a as [|[[nm s] i] r IH]; cbn.
  - now destruct (look_args sp b).
  - destruct (look sp s i); [|now destruct (look_args sp r); destruct (look_args sp b)].
    rewrite IH. destruct (look_args sp r); auto. destruct (look_args sp b); auto.
Qed.

Lemma nodup_nat_notin x l : ~ In x l -> filter (fun y => negb (y =? x)) l = l.
Proof.
  induction l as [|y r IH]; cbn; intros H; auto.
  destruct (y =? x) eqn:E; [apply Nat.eqb_eq in E; subst; tauto|]. cbn. rewrite IH; auto.
Qed.

Lemma nodup_nat_In x l : In x (nodup_nat l) <-> In x l.
Proof.
  induction l as [|y r IH]; cbn; [tauto|]. rewrite filter_In, IH. split.
  - intros [?|[? _]]; auto.
  - intros [?|?]; auto. destruct (Nat.eq_dec y x); auto. right. split; auto.
    apply negb_true_iff, Nat.eqb_neq. congruence.
Qed.

Lemma filter_comm_app {A} (f : A -> bool) l1 l2 : filter f (l1 ++ l2) = filter f l1 ++ filter f l2.
Proof. apply filter_app. Qed.

Lemma nodup_nat_snoc l x : nodup_nat (l ++ [x]) = nodup_nat l ++ (if existsb (Nat.eqb x) l then [] else [x]).
Proof.
  induction l as [|y r IH]; cbn; auto.
  rewrite IH, filter_app. f_equal.
  destruct (x =? y) eqn:E.
  - apply Nat.eqb_eq in E. subst y. cbn.
    destruct (existsb (Nat.eqb x) r); cbn; rewrite ?Nat.eqb_refl; cbn; now rewrite ?app_nil_r.
  - cbn. destruct (existsb (Nat.eqb x) r); cbn; [now rewrite app_nil_r|].
    rewrite Nat.eqb_sym in E. now rewrite Nat.eqb_sym, E.
Qed.

Section Sim.
  Variable e : wenv.
  Variable u : universe.
  Variable g : gstate.
  Variable dc : bool.
  Variable tau : tyenc.
  Variable ord : list nat.

  Notation ns := (node_sort e g).
  Notation np := (node_prov e u g ord).

  (** what the simulation needs from the graph and from the per-case universe; each clause follows from
      the C06 invariant of reachable graphs together with how the universe is built (instance kinds have
      exports, instantiations have instance kind, definitions have type kind, alias nodes carry the kind of
      the aliased export, a definition has one export name, registered packages are distinct) *)
  Record EncInv : Prop := {
    ei_inst_sort : forall k ex, u_inst_exports u k = Some ex -> we_sort e k = SInstance;
    ei_inst_node : forall n nd sat, get_node g n = Some nd -> nk nd = NInst sat -> we_sort e (nitem nd) = SInstance;
    ei_def_node : forall n nd, get_node g n = Some nd -> nk nd = NDef -> we_sort e (nitem nd) = SType;
    ei_alias_kind : forall n nd src en sn ex k, get_node g n = Some nd -> nk nd = NAlias ->
        get_alias_source u g n = Some (src, en) -> get_node g src = Some sn -> u_inst_exports u (nitem sn) = Some ex ->
        alist_get N.eqb ex en = Some k -> we_sort e k = we_sort e (nitem nd);
    ei_def_name : forall n nd nm, get_node g n = Some nd -> nk nd = NDef -> nexport nd = Some nm ->
        nstr e nm = def_name e g n;
    ei_def_single : forall nm n, In (nm, n) (exports g) -> is_def g n = true -> nstr e nm = def_name e g n;
    ei_nondef_names : forall nm n, In (nm, n) (exports g) -> is_def g n = false -> str_mem (nstr e nm) (def_names e g) = false;
    ei_pkg_inj : forall id1 id2 p, get_pkg g id1 = Some p -> get_pkg g id2 = Some p -> id1 = id2 }.

  Hypothesis EI : EncInv.
  Hypothesis T : Topo g ord.

  Definition pkg_prov (p : nat) : prov := if dc then PComp (we_digest e p) else PImp (pkg_import_name e p).
  Definition done_pkgs (done : list nat) : list nat :=
    flat_map (fun n => opt_list (node_pkg g n)) (filter (is_inst g) done).
  Definition erase1 (x : parg) : parg :=
    let '(nm, s, p) := x in if sort_eqb s SType && str_mem nm (def_names e g) then (nm, s, PDef) else x.
  Definition impl_of (st : est) (n : nat) : list arg :=
    flat_map (fun p : nat * arg => if fst p =? n then [snd p] else []) (e_impl st).

  Record LInv (done : list nat) (st : est) (d : dstate) : Prop := {
    li_dec : decode_from d_init (e_log st) = Some d;
    li_nidx : forall n idx, nat_assoc n (e_nidx st) = Some idx -> In n ord /\ look (d_sp d) (ns n) idx = Some (np n);
    li_impl : forall n, look_args (d_sp d) (impl_of st n) = Some (implicit_args e u g n);
    li_insts : d_insts d = map (spec_inst e u g dc ord) (filter (is_inst g) done);
    li_exports : map erase1 (d_exports d) = map (fun n => (def_name e g n, SType, PDef)) (filter (is_def g) done);
    li_pkgs : forall pid ci, pkg_assoc pid (e_pkgs st) = Some ci ->
              exists p, get_pkg g pid = Some p /\ In p (done_pkgs done) /\ look (d_sp d) SComponent ci = Some (pkg_prov p);
    li_pkgs_dom : forall p, In p (done_pkgs done) -> exists pid ci, get_pkg g pid = Some p /\ pkg_assoc pid (e_pkgs st) = Some ci;
    li_comps : d_comps d = if dc then map (we_digest e) (nodup_nat (done_pkgs done)) else [] }.

  Lemma cnt_len st d s : decode_from d_init (e_log st) = Some d -> cnt s (e_log st) = length (d_sp d s).
  Proof. intros H. symmetry. now apply decode_length. Qed.

  (** ** the type encoder's turn *)
  Lemma run_ty_inv st rq st1 ty :
    run_ty tau st rq = ROk (st1, ty) ->
    exists its, e_log st1 = e_log st ++ its /\ ty_items_ok (cnt SInstance (e_log st)) its = true /\
                e_nidx st1 = e_nidx st /\ e_pkgs st1 = e_pkgs st /\ e_impl st1 = e_impl st /\ e_dedup st1 = e_dedup st.
  Proof.
    unfold run_ty. destruct (tau (e_log st) rq) as [its idx].
    destruct (ty_items_ok _ its) eqn:O; try discriminate. intros H. injection H as <- <-.
    exists its. cbn. repeat split; auto.
  Qed.

  (** an extension of the log by items that only extend the spaces keeps the invariant *)
  Lemma LInv_ext done st d st1 d1 its :
    LInv done st d -> e_log st1 = e_log st ++ its -> decode_from d its = Some d1 ->
    same_structure d d1 -> e_nidx st1 = e_nidx st -> e_pkgs st1 = e_pkgs st -> e_impl st1 = e_impl st ->
    LInv done st1 d1.
  Proof.
    intros [A B C D E F G H] L Dd [S1 [S2 S3]] N P I.
    pose proof (decode_from_ext _ _ _ Dd) as X.
    constructor.
    - rewrite L, decode_from_app, A. exact Dd.
    - intros n idx Hn. rewrite N in Hn. destruct (B _ _ Hn) as [? Lk]. split; auto. eapply sp_ext_look; eauto.
    - intros n. unfold impl_of. rewrite I. eapply look_args_ext; [eauto | apply C].
    - now rewrite S1.
    - now rewrite S2.
    - intros pid ci Hp. rewrite P in Hp. destruct (F _ _ Hp) as [p [? [? Lk]]]. exists p. repeat split; auto.
      eapply sp_ext_look; eauto.
    - intros p Hp. rewrite P. auto.
    - now rewrite S3.
  Qed.

  Lemma LInv_ty done st d rq st1 ty :
    LInv done st d -> run_ty tau st rq = ROk (st1, ty) ->
    exists d1, LInv done st1 d1 /\ sp_ext (d_sp d) (d_sp d1) /\ e_dedup st1 = e_dedup st /\ same_structure d d1.
  Proof.
    intros LI R. apply run_ty_inv in R as [its [L [O [N [P [I Dd]]]]]].
    rewrite (cnt_len _ _ SInstance (li_dec _ _ _ LI)) in O.
    destruct (ty_items_decode its d _ eq_refl O) as [d1 [D1 [X S]]].
    exists d1. split; [eapply LInv_ext; eauto | auto].
  Qed.

  (** ** node-kind facts *)
  Lemma is_inst_true n : is_inst g n = true <-> exists nd sat, get_node g n = Some nd /\ nk nd = NInst sat.
  Proof.
    unfold is_inst. destruct (get_node g n) as [nd|]; [|split; [discriminate | intros [? [? [? _]]]; discriminate]].
    destruct (nk nd) eqn:K; split; try discriminate; eauto; intros [nd' [sat' [E K']]]; injection E as <-; congruence.
  Qed.
  Lemma is_def_true n : is_def g n = true <-> exists nd, get_node g n = Some nd /\ nk nd = NDef.
  Proof.
    unfold is_def. destruct (get_node g n) as [nd|]; [|split; [discriminate | intros [? [? _]]; discriminate]].
    destruct (nk nd) eqn:K; split; try discriminate; eauto; intros [nd' [E K']]; injection E as <-; congruence.
  Qed.

  Lemma done_pkgs_snoc done n : done_pkgs (done ++ [n]) = done_pkgs done ++ (if is_inst g n then opt_list (node_pkg g n) else []).
  Proof. unfold done_pkgs. rewrite filter_snoc, flat_map_app. destruct (is_inst g n); cbn; now rewrite ?app_nil_r. Qed.

  (** a node that is neither an instantiation nor a definition leaves the structural lists alone *)
  Lemma LInv_plain done st d st1 d1 n :
    LInv done st d -> is_inst g n = false -> is_def g n = false ->
    decode_from d_init (e_log st1) = Some d1 -> sp_ext (d_sp d) (d_sp d1) -> same_structure d d1 ->
    e_pkgs st1 = e_pkgs st -> e_impl st1 = e_impl st ->
    (forall m idx, nat_assoc m (e_nidx st1) = Some idx -> In m ord /\ look (d_sp d1) (ns m) idx = Some (np m)) ->
    LInv (done ++ [n]) st1 d1.
  Proof.
    intros [A B C D E F G H] Ni Nd Dd X [S1 [S2 S3]] P I Nx.
    constructor; auto.
    - intros m. unfold impl_of. rewrite I. eapply look_args_ext; [eauto | apply C].
    - rewrite S1, filter_snoc, Ni, app_nil_r. exact D.
    - rewrite S2, filter_snoc, Nd, app_nil_r. exact E.
    - intros pid ci Hp. rewrite P in Hp. destruct (F _ _ Hp) as [p [? [? Lk]]]. exists p.
      rewrite done_pkgs_snoc, Ni, app_nil_r. repeat split; auto. eapply sp_ext_look; eauto.
    - intros p Hp. rewrite done_pkgs_snoc, Ni, app_nil_r in Hp. rewrite P. auto.
    - rewrite S3, done_pkgs_snoc, Ni, app_nil_r. exact H.
  Qed.

  Lemma set_nidx_inv st n idx st1 :
    set_nidx st n idx = ROk st1 ->
    nat_assoc n (e_nidx st) = None /\ e_log st1 = e_log st /\ e_nidx st1 = (n, idx) :: e_nidx st /\
    e_pkgs st1 = e_pkgs st /\ e_impl st1 = e_impl st /\ e_dedup st1 = e_dedup st.
  Proof.
    unfold set_nidx. destruct (nat_assoc n (e_nidx st)); try discriminate. intros H. injection H as <-. cbn. repeat split; auto.
  Qed.

  (** ** alias nodes *)
  Lemma step_alias done st d n nd st1 :
    LInv done st d -> In n ord -> get_node g n = Some nd -> nk nd = NAlias ->
    enc_alias e u g st n = ROk st1 ->
    exists d1, LInv (done ++ [n]) st1 d1 /\ e_dedup st1 = e_dedup st.
  Proof.
    intros LI In_n G K R. unfold enc_alias in R.
    destruct (get_alias_source u g n) as [[src en]|] eqn:A; try discriminate.
    destruct (get_node g src) as [sn|] eqn:Gs; try discriminate.
    destruct (u_inst_exports u (nitem sn)) as [ex|] eqn:Ux; try discriminate.
    destruct (alist_get N.eqb ex en) as [k|] eqn:Ak; try discriminate.
    destruct (nat_assoc src (e_nidx st)) as [inst|] eqn:Ns; try discriminate.
    apply set_nidx_inv in R as [Nn [L [N [P [I Dd]]]]]. cbn in *.
    destruct (li_nidx _ _ _ LI _ _ Ns) as [In_s Ls].
    assert (Ss : ns src = SInstance) by (unfold node_sort; rewrite Gs; eapply ei_inst_sort; eauto).
    rewrite Ss in Ls.
    pose proof (ei_alias_kind EI _ _ _ _ _ _ _ G K A Gs Ux Ak) as Sk.
    set (s := we_sort e k) in *.
    set (d1 := with_sp d (push (d_sp d) s (PAli (np src) (nstr e en)))).
    assert (D1 : decode_from d_init (e_log st1) = Some d1).
    { rewrite L, (decode_from_snoc _ _ _ _ (li_dec _ _ _ LI)). cbn. now rewrite Ls. }
    exists d1. split; auto.
    eapply LInv_plain; eauto.
    - unfold is_inst. now rewrite G, K.
    - unfold is_def. now rewrite G, K.
    - cbn. apply sp_ext_push.
    - repeat split.
    - intros m idx Hm. rewrite N, nat_assoc_cons in Hm. destruct (n =? m) eqn:E.
      + apply Nat.eqb_eq in E. subst m. injection Hm as <-. split; auto.
        assert (Sn : ns n = s) by (unfold node_sort; rewrite G; auto). rewrite Sn.
        rewrite (cnt_len _ _ s (li_dec _ _ _ LI)). cbn.
        rewrite (node_prov_alias e u g ord T n nd src en); auto. apply look_push_new.
      + destruct (li_nidx _ _ _ LI _ _ Hm) as [? Lm]. split; auto. cbn. now apply look_push_old.
  Qed.

  (** ** definitions *)
  Lemma node_ids_In n : In n (node_ids g) <-> live g n = true.
  Proof.
    unfold node_ids, nodes_where, live, get_node. rewrite in_flat_map. split.
    - intros [[i o] [I H]]. cbn in H. destruct o as [nd|]; cbn in H; [|tauto]. destruct H as [<-|[]].
      assert (Hc : forall (l : list (option node)) k i o, In (i, o) (combine (seq k (length l)) l) -> nth_error l (i - k) = Some o /\ k <= i).
      { induction l as [|x r IH]; cbn; intros k j o' Hj; [tauto|]. destruct Hj as [Hj|Hj].
        - injection Hj as <- <-. rewrite Nat.sub_diag. auto.
        - apply IH in Hj as [Hj Hk]. split; [|lia]. replace (j - k) with (S (j - S k)) by lia. exact Hj. }
      apply Hc in I as [I _]. rewrite Nat.sub_0_r in I. now rewrite I.
    - destruct (nth_error (nodes g) n) as [[nd|]|] eqn:E; try discriminate. intros _.
      exists (n, Some nd). split; [|cbn; auto].
      assert (Hc : forall (l : list (option node)) k i o, nth_error l i = Some o -> In (k + i, o) (combine (seq k (length l)) l)).
      { induction l as [|x r IH]; intros k i o' Hi; [destruct i; discriminate|]. destruct i; cbn in *.
        - injection Hi as <-. left. f_equal. lia.
        - right. replace (k + S i) with (S k + i) by lia. now apply IH. }
      apply (Hc _ 0 n) in E. exact E.
  Qed.

  Lemma def_name_in_names n : In n ord -> is_def g n = true -> str_mem (def_name e g n) (def_names e g) = true.
  Proof.
    intros I Dn. unfold str_mem, def_names. apply existsb_exists. exists (def_name e g n). split.
    - apply in_map. apply filter_In. split; auto. apply node_ids_In. now apply (to_live _ _ T).
    - clear. induction (def_name e g n) as [|c r IH]; cbn; auto. now rewrite N.eqb_refl.
  Qed.

  Lemma step_def done st d n nd st1 :
    LInv done st d -> In n ord -> get_node g n = Some nd -> nk nd = NDef ->
    enc_definition e tau st n nd = ROk st1 ->
    exists d1, LInv (done ++ [n]) st1 d1 /\ e_dedup st1 = e_dedup st.
  Proof.
    intros LI In_n G K R. unfold enc_definition in R.
    destruct (nexport nd) as [nm|] eqn:X; try discriminate.
    apply bind_ok in R as [[st' ty] [Rt R]].
    destruct (negb (ty <? cnt SType (e_log st'))) eqn:Lt; try discriminate.
    apply negb_false_iff, Nat.ltb_lt in Lt.
    destruct (LInv_ty _ _ _ _ _ _ LI Rt) as [d' [LI' [X' [Dd' _]]]].
    apply set_nidx_inv in R as [Nn [L [N [P [I Dd]]]]]. cbn in *.
    rewrite (cnt_len _ _ SType (li_dec _ _ _ LI')) in Lt.
    destruct (nth_error (d_sp d' SType) ty) as [p|] eqn:Lk; [|apply nth_error_None in Lk; lia].
    set (d1 := {| d_sp := push (d_sp d') SType (PExp (nstr e nm)); d_insts := d_insts d';
                  d_exports := d_exports d' ++ [(nstr e nm, SType, p)]; d_comps := d_comps d'; d_imports := d_imports d' |}).
    assert (D1 : decode_from d_init (e_log st1) = Some d1).
    { rewrite L, (decode_from_snoc _ _ _ _ (li_dec _ _ _ LI')). cbn. unfold look. now rewrite Lk. }
    assert (Dn : is_def g n = true) by (unfold is_def; now rewrite G, K).
    assert (Ni : is_inst g n = false) by (unfold is_inst; now rewrite G, K).
    pose proof (ei_def_name EI _ _ _ G K X) as En.
    exists d1. split; [|congruence].
    destruct LI' as [A B C D E F Gd H].
    constructor; auto.
    - intros m idx Hm. rewrite N, nat_assoc_cons in Hm. destruct (n =? m) eqn:Em.
      + apply Nat.eqb_eq in Em. subst m. injection Hm as <-. split; auto.
        assert (Sn : ns n = SType) by (unfold node_sort; rewrite G; eapply ei_def_node; eauto). rewrite Sn.
        rewrite (cnt_len _ _ SType A). cbn. rewrite (node_prov_def e u g ord n nd G K), <- En. apply look_push_new.
      + destruct (B _ _ Hm) as [? Lm]. split; auto. cbn. now apply look_push_old.
    - intros m. unfold impl_of. rewrite I. eapply look_args_ext; [apply sp_ext_push|]. apply C.
    - cbn. rewrite filter_snoc, Ni, app_nil_r. exact D.
    - cbn. rewrite map_app, E, filter_snoc, Dn, map_app. f_equal. cbn.
      rewrite En, (def_name_in_names n In_n Dn). reflexivity.
    - intros pid ci Hp. rewrite P in Hp. destruct (F _ _ Hp) as [q [? [? Lq]]]. exists q.
      rewrite done_pkgs_snoc, Ni, app_nil_r. repeat split; auto; try (cbn; now apply look_push_old).
    - intros q Hq. rewrite done_pkgs_snoc, Ni, app_nil_r in Hq. rewrite P. auto.
    - cbn. rewrite done_pkgs_snoc, Ni, app_nil_r. exact H.
  Qed.

  (** ** instantiations *)
  Definition spec_arg (imps : list (name * kid)) (ed : edge) : list parg :=
    match ek ed with
    | EArg i => match nth_error imps i with
                | Some (nm, _) => [(nstr e nm, ns (esrc ed), np (esrc ed))]
                | None => [] end
    | _ => []
    end.

  Lemma explicit_args_unfold n nd imps : get_node g n = Some nd -> inst_imports u g nd = Some imps ->
    explicit_args e u g ord n = flat_map (spec_arg imps) (incoming g n).
  Proof. unfold explicit_args. intros -> ->. reflexivity. Qed.

  Definition arg_step (st : est) (imps : list (name * kid)) (l : list arg) (ed : edge) : res (list arg) :=
    match nat_assoc (esrc ed) (e_nidx st) with
    | None => RErr (EPanic XNodeIndexMissing)
    | Some idx =>
        match ek ed with
        | EArg i =>
            match nth_error imps i with
            | Some (nm, _) => ROk (l ++ [(nstr e nm, node_sort e g (esrc ed), idx)])
            | None => RErr (EPanic XUnexpectedEdge)
            end
        | _ => RErr (EPanic XUnexpectedEdge)
        end
    end.

  Lemma args_fold st d imps es args :
    (forall n idx, nat_assoc n (e_nidx st) = Some idx -> In n ord /\ look (d_sp d) (ns n) idx = Some (np n)) ->
    fold_left (fun acc ed => bind acc (fun l => arg_step st imps l ed)) es (ROk []) = ROk args ->
    look_args (d_sp d) args = Some (flat_map (spec_arg imps) es).
  Proof.
    intros Nx F.
    apply (fold_res_ind (arg_step st imps) (fun pre l => look_args (d_sp d) l = Some (flat_map (spec_arg imps) pre)) _ _ _ F).
    - reflexivity.
    - intros pre ed post l l1 _ IH St. unfold arg_step in St.
      destruct (nat_assoc (esrc ed) (e_nidx st)) as [idx|] eqn:A; try discriminate.
      destruct (ek ed) as [|i|] eqn:K; try discriminate.
      destruct (nth_error imps i) as [[nm k]|] eqn:Ni; try discriminate.
      injection St as <-. destruct (Nx _ _ A) as [_ Lk].
      rewrite look_args_app, IH, flat_map_snoc. cbn. rewrite Lk. unfold spec_arg. now rewrite K, Ni.
  Qed.

  Lemma pkg_assoc_cons k0 v l k : pkg_assoc k ((k0, v) :: l) = if pkgid_eqb k0 k then Some v else pkg_assoc k l.
  Proof. reflexivity. Qed.

  Lemma existsb_eqb_true x l : In x l -> existsb (Nat.eqb x) l = true.
  Proof. intros H. apply existsb_exists. exists x. split; auto. apply Nat.eqb_refl. Qed.
  Lemma existsb_eqb_false x l : ~ In x l -> existsb (Nat.eqb x) l = false.
  Proof.
    intros H. destruct (existsb (Nat.eqb x) l) eqn:E; auto. apply existsb_exists in E as [y [I Ey]].
    apply Nat.eqb_eq in Ey. subst. tauto.
  Qed.

  (** the component of the package: looked up, embedded, or imported *)
  Definition comp_phase (st : est) (pid : pkgid) (p : nat) : res (est * nat) :=
    match pkg_assoc pid (e_pkgs st) with
    | Some ci => ROk (st, ci)
    | None =>
        bind (if dc then ROk (emit st (IComponent (we_digest e p)), cnt SComponent (e_log st))
              else bind (run_ty tau st (TImport (pkg_import_name e p) SComponent))
                        (fun x => let '(st0, _) := x in
                                  ROk (emit st0 (IImport (pkg_import_name e p) SComponent), cnt SComponent (e_log st0))))
             (fun x => let '(st1, ci) := x in
                ROk ({| e_log := e_log st1; e_nidx := e_nidx st1; e_pkgs := (pid, ci) :: e_pkgs st1; e_reg := e_reg st1;
                        e_impl := e_impl st1; e_dedup := e_dedup st1 |}, ci))
    end.

  Lemma comp_phase_ok done st d pid p st1 ci :
    LInv done st d -> get_pkg g pid = Some p -> comp_phase st pid p = ROk (st1, ci) ->
    exists d1,
      decode_from d_init (e_log st1) = Some d1 /\ sp_ext (d_sp d) (d_sp d1) /\
      d_insts d1 = d_insts d /\ d_exports d1 = d_exports d /\
      e_nidx st1 = e_nidx st /\ e_impl st1 = e_impl st /\ e_dedup st1 = e_dedup st /\
      look (d_sp d1) SComponent ci = Some (pkg_prov p) /\
      (forall pid' ci', pkg_assoc pid' (e_pkgs st1) = Some ci' ->
         exists q, get_pkg g pid' = Some q /\ In q (done_pkgs done ++ [p]) /\ look (d_sp d1) SComponent ci' = Some (pkg_prov q)) /\
      (forall q, In q (done_pkgs done ++ [p]) -> exists pid' ci', get_pkg g pid' = Some q /\ pkg_assoc pid' (e_pkgs st1) = Some ci') /\
      d_comps d1 = (if dc then map (we_digest e) (nodup_nat (done_pkgs done ++ [p])) else []).
  Proof.
    intros LI Gp R. unfold comp_phase in R.
    destruct (pkg_assoc pid (e_pkgs st)) as [ci0|] eqn:PA.
    - injection R as <- <-. destruct (li_pkgs _ _ _ LI _ _ PA) as [p' [Gp' [Ip Lk]]].
      assert (p' = p) by congruence. subst p'.
      exists d. repeat split; auto.
      + apply (li_dec _ _ _ LI).
      + apply sp_ext_refl.
      + intros pid' ci' H. destruct (li_pkgs _ _ _ LI _ _ H) as [q [? [? ?]]]. exists q. repeat split; auto. apply in_or_app; auto.
      + intros q Hq. apply in_app_or in Hq as [Hq|[<-|[]]]; [now apply (li_pkgs_dom _ _ _ LI)|]. eauto.
      + rewrite (li_comps _ _ _ LI), nodup_nat_snoc, (existsb_eqb_true _ _ Ip), app_nil_r. reflexivity.
    - assert (Np : ~ In p (done_pkgs done)).
      { intros Ip. destruct (li_pkgs_dom _ _ _ LI _ Ip) as [pid' [ci' [Gq Aq]]].
        assert (pid' = pid) by (eapply ei_pkg_inj; eauto). subst. congruence. }
      apply bind_ok in R as [[st' ci'] [R1 R]]. injection R as <- <-.
      destruct dc eqn:DC.
      + injection R1 as <- <-. cbn.
        set (d1 := {| d_sp := push (d_sp d) SComponent (PComp (we_digest e p)); d_insts := d_insts d; d_exports := d_exports d;
                      d_comps := d_comps d ++ [we_digest e p]; d_imports := d_imports d |}).
        exists d1. repeat split; auto.
        * rewrite (decode_from_snoc _ _ _ _ (li_dec _ _ _ LI)). reflexivity.
        * apply sp_ext_push.
        * rewrite (cnt_len _ _ SComponent (li_dec _ _ _ LI)). unfold pkg_prov. rewrite DC. apply look_push_new.
        * intros pid' c' H. rewrite pkg_assoc_cons in H. destruct (pkgid_eqb pid pid') eqn:Eq.
          -- apply pkgid_eqb_eq in Eq. subst pid'. injection H as <-. exists p. repeat split; auto.
             ++ apply in_or_app. right. cbn. auto.
             ++ rewrite (cnt_len _ _ SComponent (li_dec _ _ _ LI)). unfold pkg_prov. rewrite DC. apply look_push_new.
          -- destruct (li_pkgs _ _ _ LI _ _ H) as [q [? [? Lq]]]. exists q. repeat split; auto.
             ++ apply in_or_app; auto.
             ++ now apply look_push_old.
        * intros q Hq. apply in_app_or in Hq as [Hq|[<-|[]]].
          -- destruct (li_pkgs_dom _ _ _ LI _ Hq) as [pid' [c' [Gq Aq]]]. exists pid', c'. split; auto.
             rewrite pkg_assoc_cons. destruct (pkgid_eqb pid pid') eqn:Eq; auto.
             apply pkgid_eqb_eq in Eq. subst. congruence.
          -- exists pid, (cnt SComponent (e_log st)). split; auto. rewrite pkg_assoc_cons, pkgid_eqb_refl. reflexivity.
        * cbn. rewrite (li_comps _ _ _ LI), DC, nodup_nat_snoc, (existsb_eqb_false _ _ Np), map_app. reflexivity.
      + apply bind_ok in R1 as [[st0 ty] [Rt R1]]. injection R1 as <- <-. cbn.
        destruct (LInv_ty _ _ _ _ _ _ LI Rt) as [d' [LI' [X' [Dd' [SS1 [SS2 SS3]]]]]].
        apply run_ty_inv in Rt as [its [L0 [_ [N0 [P0 [I0 _]]]]]].
        set (d1 := {| d_sp := push (d_sp d') SComponent (PImp (pkg_import_name e p)); d_insts := d_insts d'; d_exports := d_exports d';
                      d_comps := d_comps d'; d_imports := d_imports d' ++ [(pkg_import_name e p, SComponent, false)] |}).
        exists d1. repeat split; auto.
        * rewrite (decode_from_snoc _ _ _ _ (li_dec _ _ _ LI')). reflexivity.
        * eapply sp_ext_trans; [exact X' | apply sp_ext_push].
        * rewrite (cnt_len _ _ SComponent (li_dec _ _ _ LI')). unfold pkg_prov. rewrite DC. apply look_push_new.
        * intros pid' c' H. rewrite pkg_assoc_cons in H. destruct (pkgid_eqb pid pid') eqn:Eq.
          -- apply pkgid_eqb_eq in Eq. subst pid'. injection H as <-. exists p. repeat split; auto.
             ++ apply in_or_app. right. cbn. auto.
             ++ rewrite (cnt_len _ _ SComponent (li_dec _ _ _ LI')). unfold pkg_prov. rewrite DC. apply look_push_new.
          -- destruct (li_pkgs _ _ _ LI' _ _ H) as [q [? [? Lq]]]. exists q. repeat split; auto.
             ++ apply in_or_app; auto.
             ++ now apply look_push_old.
        * intros q Hq. apply in_app_or in Hq as [Hq|[<-|[]]].
          -- destruct (li_pkgs_dom _ _ _ LI' _ Hq) as [pid' [c' [Gq Aq]]]. exists pid', c'. split; auto.
             rewrite pkg_assoc_cons. destruct (pkgid_eqb pid pid') eqn:Eq; auto.
             apply pkgid_eqb_eq in Eq. subst. rewrite P0 in Aq. congruence.
          -- exists pid, (cnt SComponent (e_log st0)). split; auto. rewrite pkg_assoc_cons, pkgid_eqb_refl. reflexivity.
        * cbn. rewrite (li_comps _ _ _ LI'), DC. reflexivity.
  Qed.

  Lemma enc_instantiation_eq st n nd pid p imps :
    npkg nd = Some pid -> get_pkg g pid = Some p -> inst_imports u g nd = Some imps ->
    enc_instantiation e u g dc tau st n nd =
    bind (comp_phase st pid p) (fun x => let '(st1, ci) := x in
      bind (fold_left (fun acc ed => bind acc (fun l => arg_step st1 imps l ed)) (incoming g n) (ROk []))
        (fun args => set_nidx (emit st1 (IInstantiate ci (args ++ impl_of st1 n))) n (cnt SInstance (e_log st1)))).
  Proof. intros H1 H2 H3. unfold enc_instantiation. rewrite H1, H2, H3. reflexivity. Qed.

  Lemma rank_at done n post :
    filter (fun m => negb (is_import g m)) ord = done ++ n :: post -> is_inst g n = true ->
    rank g ord n = length (filter (is_inst g) done).
  Proof.
    intros Eo Hi. unfold rank.
    assert (F : filter (is_inst g) ord = filter (is_inst g) (filter (fun m => negb (is_import g m)) ord)).
    { clear. induction ord as [|m r IH]; cbn; auto.
      destruct (is_import g m) eqn:Im; cbn.
      - assert (is_inst g m = false) as ->; auto.
        unfold is_import, is_inst in *. destruct (get_node g m) as [nd|]; auto. destruct (nk nd); auto; discriminate.
      - destruct (is_inst g m); cbn; now rewrite IH. }
    rewrite F, Eo, filter_app_mid by auto.
    apply index_of_app_notin. intros I. apply filter_In in I as [I _].
    assert (N : NoDup (done ++ n :: post)) by (rewrite <- Eo; apply NoDup_filter, (to_nodup _ _ T)).
    apply NoDup_remove_2 in N. apply N. apply in_or_app. auto.
  Qed.

  Lemma step_inst done st d n nd sat post st1 :
    LInv done st d -> In n ord -> filter (fun m => negb (is_import g m)) ord = done ++ n :: post ->
    get_node g n = Some nd -> nk nd = NInst sat ->
    enc_instantiation e u g dc tau st n nd = ROk st1 ->
    exists d1, LInv (done ++ [n]) st1 d1 /\ e_dedup st1 = e_dedup st.
  Proof.
    intros LI In_n Eo G K R.
    assert (Hi : is_inst g n = true) by (unfold is_inst; now rewrite G, K).
    assert (Nd : is_def g n = false) by (unfold is_def; now rewrite G, K).
    destruct (npkg nd) as [pid|] eqn:Np; [|unfold enc_instantiation in R; rewrite Np in R; discriminate].
    destruct (get_pkg g pid) as [p|] eqn:Gp; [|unfold enc_instantiation in R; rewrite Np, Gp in R; discriminate].
    destruct (inst_imports u g nd) as [imps|] eqn:Im; [|unfold enc_instantiation in R; rewrite Np, Gp, Im in R; discriminate].
    rewrite (enc_instantiation_eq _ _ _ _ _ _ Np Gp Im) in R.
    apply bind_ok in R as [[st' ci] [Rc R]].
    apply bind_ok in R as [args [Ra R]].
    destruct (comp_phase_ok _ _ _ _ _ _ _ LI Gp Rc) as [d' [D' [X' [Si [Se [N' [I' [Dd' [Lc [Pk [Pd Cm]]]]]]]]]]].
    apply set_nidx_inv in R as [Nn [L [N [P [I Dd]]]]]. cbn in L, N, P, I, Dd.
    assert (Nx' : forall m idx, nat_assoc m (e_nidx st') = Some idx -> In m ord /\ look (d_sp d') (ns m) idx = Some (np m)).
    { intros m idx Hm. rewrite N' in Hm. destruct (li_nidx _ _ _ LI _ _ Hm) as [? Lm]. split; auto. eapply sp_ext_look; eauto. }
    pose proof (args_fold _ _ _ _ _ Nx' Ra) as La.
    assert (Li : look_args (d_sp d') (impl_of st' n) = Some (implicit_args e u g n)).
    { unfold impl_of. rewrite I'. eapply look_args_ext; [exact X' | apply (li_impl _ _ _ LI)]. }
    assert (Np' : node_pkg g n = Some p) by (unfold node_pkg; now rewrite G, Np).
    set (w := WInst (pkg_prov p) (flat_map (spec_arg imps) (incoming g n) ++ implicit_args e u g n)).
    set (d1 := {| d_sp := push (d_sp d') SInstance (PInst (length (d_insts d'))); d_insts := d_insts d' ++ [w];
                  d_exports := d_exports d'; d_comps := d_comps d'; d_imports := d_imports d' |}).
    assert (D1 : decode_from d_init (e_log st1) = Some d1).
    { rewrite L, (decode_from_snoc _ _ _ _ D'). cbn. rewrite Lc, look_args_app, La, Li. reflexivity. }
    assert (Sw : spec_inst e u g dc ord n = w).
    { unfold spec_inst, w. rewrite (explicit_args_unfold _ _ _ G Im). f_equal. unfold comp_prov. now rewrite Np'. }
    exists d1. split; [|congruence].
    constructor; auto.
    - intros m idx Hm. rewrite N, nat_assoc_cons in Hm. destruct (n =? m) eqn:Em.
      + apply Nat.eqb_eq in Em. subst m. injection Hm as <-. split; auto.
        assert (Sn : ns n = SInstance) by (unfold node_sort; rewrite G; eapply ei_inst_node; eauto). rewrite Sn.
        rewrite (cnt_len _ _ SInstance D'). cbn.
        rewrite (node_prov_inst e u g ord n nd sat G K), (rank_at _ _ _ Eo Hi), Si, (li_insts _ _ _ LI), map_length.
        apply look_push_new.
      + destruct (Nx' _ _ Hm) as [? Lm]. split; auto. cbn. now apply look_push_old.
    - intros m. unfold impl_of. rewrite I. eapply look_args_ext; [apply sp_ext_push|].
      unfold impl_of in Li. rewrite I'. eapply look_args_ext; [exact X' | apply (li_impl _ _ _ LI)].
    - cbn. rewrite Si, (li_insts _ _ _ LI), filter_snoc, Hi, map_app. cbn. now rewrite Sw.
    - cbn. rewrite Se, filter_snoc, Nd, app_nil_r. apply (li_exports _ _ _ LI).
    - intros pid' ci' Hp. rewrite P in Hp. destruct (Pk _ _ Hp) as [q [? [? Lq]]]. exists q.
      rewrite done_pkgs_snoc, Hi, Np'. cbn. repeat split; auto; try now apply look_push_old.
    - intros q Hq. rewrite done_pkgs_snoc, Hi, Np' in Hq. cbn in Hq. rewrite P. auto.
    - cbn. rewrite Cm, done_pkgs_snoc, Hi, Np'. reflexivity.
  Qed.

  (** ** one node *)
  Lemma step_node done st d n post st1 :
    LInv done st d -> filter (fun m => negb (is_import g m)) ord = done ++ n :: post ->
    enc_node e u g dc tau st n = ROk st1 ->
    exists d1, LInv (done ++ [n]) st1 d1 /\ e_dedup st1 = e_dedup st.
  Proof.
    intros LI Eo R.
    assert (In_n : In n ord).
    { assert (I : In n (filter (fun m => negb (is_import g m)) ord)) by (rewrite Eo; apply in_or_app; cbn; auto).
      apply filter_In in I. tauto. }
    unfold enc_node in R. destruct (get_node g n) as [nd|] eqn:G; try discriminate.
    destruct (nk nd) eqn:K; try discriminate.
    - eapply step_def; eauto.
    - eapply step_inst; eauto.
    - eapply step_alias; eauto.
  Qed.

  (** ** the whole node loop *)
  Lemma node_loop st0 d0 st1 :
    LInv [] st0 d0 ->
    fold_left (fun acc n => bind acc (fun st => enc_node e u g dc tau st n))
              (filter (fun m => negb (is_import g m)) ord) (ROk st0) = ROk st1 ->
    exists d1, LInv (filter (fun m => negb (is_import g m)) ord) st1 d1 /\ e_dedup st1 = e_dedup st0.
  Proof.
    intros L0 F.
    apply (fold_res_ind (fun st n => enc_node e u g dc tau st n)
             (fun done st => exists d, LInv done st d /\ e_dedup st = e_dedup st0) _ _ _ F).
    - exists d0. auto.
    - intros pre n post st st' Eo [d [LI Dd]] R.
      destruct (step_node _ _ _ _ _ _ LI Eo R) as [d1 [LI1 Dd1]]. exists d1. split; auto. congruence.
  Qed.
End Sim.
