(** C14: every source location carried by a node of the AST ([*_spans], one function per AST type,
    field by field as in [Ast.v]) and by a parse error. *)
From WacV Require Import Str Token Lexer Semver Ast Parser NoPanicLexer.
From Coq Require Import Lia.
Local Open Scope nat_scope.

Definition docs_spans (d : list doc) : list span := map snd d.
Definition ident_spans (i : ident) : list span := [id_span i].
Definition strlit_spans (s : strlit) : list span := [s_span s].
Definition pkgname_spans (p : package_name) : list span := [pn_span p].
Definition pkgpath_spans (p : package_path) : list span := [pp_span p].
Definition opt_spans {A} (f : A -> list span) (o : option A) : list span :=
  match o with Some a => f a | None => [] end.

Fixpoint ty_spans (t : ty) : list span :=
  match t with
  | TyPrim _ sp => [sp]
  | TyTuple ts sp => sp :: flat_map ty_spans ts
  | TyList t sp | TyOption t sp | TyBorrowTy t sp => sp :: ty_spans t
  | TyResult ok err sp =>
      sp :: (match ok with Some t => ty_spans t | None => [] end)
         ++ (match err with Some t => ty_spans t | None => [] end)
  | TyBorrow id sp => sp :: ident_spans id
  | TyIdent id => ident_spans id
  end.

Definition named_type_spans (n : named_type) : list span := ident_spans (nt_id n) ++ ty_spans (nt_ty n).

Definition result_list_spans (r : result_list) : list span :=
  match r with RLEmpty => [] | RLScalar t => ty_spans t | RLNamed rs => flat_map named_type_spans rs end.

Definition func_type_spans (f : func_type) : list span :=
  flat_map named_type_spans (ft_params f) ++ result_list_spans (ft_results f).

Definition extern_name_spans (n : extern_name) : list span :=
  match n with ENIdent i => ident_spans i | ENString s => strlit_spans s end.

Definition variant_case_spans (v : variant_case) : list span :=
  docs_spans (vc_docs v) ++ ident_spans (vc_id v) ++ opt_spans ty_spans (vc_ty v).
Definition field_spans (f : field) : list span := docs_spans (fd_docs f) ++ ident_spans (fd_id f) ++ ty_spans (fd_ty f).
Definition flag_spans (f : flag) : list span := docs_spans (fl_docs f) ++ ident_spans (fl_id f).
Definition enum_case_spans (c : enum_case) : list span := docs_spans (ec_docs c) ++ ident_spans (ec_id c).

Definition resource_method_spans (m : resource_method) : list span :=
  match m with
  | RMConstructor docs sp params => docs_spans docs ++ sp :: flat_map named_type_spans params
  | RMMethod docs id _ t => docs_spans docs ++ ident_spans id ++ func_type_spans t
  end.

Definition alias_kind_spans (k : type_alias_kind) : list span :=
  match k with TAFunc f => func_type_spans f | TAType t => ty_spans t end.

Definition item_type_decl_spans (d : item_type_decl) : list span :=
  match d with
  | DResource docs id ms => docs_spans docs ++ ident_spans id ++ flat_map resource_method_spans ms
  | DVariant docs id cs => docs_spans docs ++ ident_spans id ++ flat_map variant_case_spans cs
  | DRecord docs id fs => docs_spans docs ++ ident_spans id ++ flat_map field_spans fs
  | DFlags docs id fs => docs_spans docs ++ ident_spans id ++ flat_map flag_spans fs
  | DEnum docs id cs => docs_spans docs ++ ident_spans id ++ flat_map enum_case_spans cs
  | DAlias docs id k => docs_spans docs ++ ident_spans id ++ alias_kind_spans k
  end.

Definition func_type_ref_spans (r : func_type_ref) : list span :=
  match r with FRFunc f => func_type_spans f | FRIdent i => ident_spans i end.

Definition use_path_spans (p : use_path) : list span :=
  match p with UPPackage p => pkgpath_spans p | UPIdent i => ident_spans i end.
Definition use_item_spans (u : use_item) : list span := ident_spans (ui_id u) ++ opt_spans ident_spans (ui_as u).
Definition use_decl_spans (u : use_decl) : list span :=
  docs_spans (u_docs u) ++ use_path_spans (u_path u) ++ flat_map use_item_spans (u_items u).

Definition interface_item_spans (i : interface_item) : list span :=
  match i with
  | IIUse u => use_decl_spans u
  | IIType d => item_type_decl_spans d
  | IIExport docs id t => docs_spans docs ++ ident_spans id ++ func_type_ref_spans t
  end.

Definition extern_type_spans (t : extern_type) : list span :=
  match t with
  | ETIdent i => ident_spans i
  | ETFunc f => func_type_spans f
  | ETInterface items => flat_map interface_item_spans items
  end.

Definition world_item_path_spans (p : world_item_path) : list span :=
  match p with
  | WPNamed id t => ident_spans id ++ extern_type_spans t
  | WPPackage p => pkgpath_spans p
  | WPIdent i => ident_spans i
  end.

Definition world_ref_spans (w : world_ref) : list span :=
  match w with WRIdent i => ident_spans i | WRPackage p => pkgpath_spans p end.
Definition include_item_spans (i : include_item) : list span := ident_spans (ii_from i) ++ ident_spans (ii_to i).

Definition world_item_spans (w : world_item) : list span :=
  match w with
  | WIUse u => use_decl_spans u
  | WIType d => item_type_decl_spans d
  | WIImport docs p | WIExport docs p => docs_spans docs ++ world_item_path_spans p
  | WIInclude docs w items => docs_spans docs ++ world_ref_spans w ++ flat_map include_item_spans items
  end.

Definition type_statement_spans (t : type_statement) : list span :=
  match t with
  | TSInterface docs id items => docs_spans docs ++ ident_spans id ++ flat_map interface_item_spans items
  | TSWorld docs id items => docs_spans docs ++ ident_spans id ++ flat_map world_item_spans items
  | TSType d => item_type_decl_spans d
  end.

Definition import_type_spans (t : import_type) : list span :=
  match t with
  | ITPackage p => pkgpath_spans p
  | ITFunc f => func_type_spans f
  | ITInterface items => flat_map interface_item_spans items
  | ITIdent i => ident_spans i
  end.

Definition arg_name_spans (n : arg_name) : list span :=
  match n with ANIdent i => ident_spans i | ANString s => strlit_spans s end.

Definition postfix_spans (p : postfix_expr) : list span :=
  match p with PAccess sp id => sp :: ident_spans id | PNamedAccess sp s => sp :: strlit_spans s end.

Fixpoint expr_spans (x : expr) : list span :=
  match x with Expr sp p post => sp :: primary_spans p ++ flat_map postfix_spans post end
with primary_spans (p : primary_expr) : list span :=
  match p with
  | PNew sp pkg args => sp :: pkgname_spans pkg ++ flat_map arg_spans args
  | PNested sp inner => sp :: expr_spans inner
  | PIdent i => ident_spans i
  end
with arg_spans (a : inst_arg) : list span :=
  match a with
  | AInferred i | ASpread i => ident_spans i
  | ANamed n x => arg_name_spans n ++ expr_spans x
  | AFill sp => [sp]
  end.

Definition export_options_spans (o : export_options) : list span :=
  match o with EONone => [] | EOSpread sp => [sp] | EORename n => extern_name_spans n end.

Definition statement_spans (s : statement) : list span :=
  match s with
  | SImport docs id name t =>
      docs_spans docs ++ ident_spans id ++ opt_spans extern_name_spans name ++ import_type_spans t
  | SType t => type_statement_spans t
  | SLet docs id x => docs_spans docs ++ ident_spans id ++ expr_spans x
  | SExport docs x o => docs_spans docs ++ expr_spans x ++ export_options_spans o
  end.

Definition directive_spans (d : package_directive) : list span :=
  pkgname_spans (pd_package d) ++ opt_spans pkgpath_spans (pd_targets d).

(** Every span of a document: doc comments, identifiers, strings, package names and paths, and the
    spans of compound nodes. *)
Definition document_spans (d : document) : list span :=
  docs_spans (doc_docs d) ++ directive_spans (doc_directive d) ++ flat_map statement_spans (doc_statements d).

(** The span an error carries ([None]: the documented-grammar restriction marker, which has none). *)
Definition perror_span (e : perror) : option span :=
  match e with
  | PE_Lexer _ sp | PE_Expected _ _ sp | PE_EmptyType _ sp | PE_InvalidVersion _ sp => Some sp
  | PE_DocRestriction _ => None
  end.

(** An error reported at the end of the input (the rule of [Lexer::span]). *)
Definition at_end_of_input (e : perror) : bool :=
  match e with PE_Expected _ None _ => true | _ => false end.

(* ------------------------------------------------------------------ nesting depth *)

Definition list_max (l : list nat) : nat := fold_right Nat.max 0 l.

(** Depth of nested value types = depth of the recursion of [Type::parse] that built the node. *)
Fixpoint ty_depth (t : ty) : nat :=
  match t with
  | TyPrim _ _ | TyBorrow _ _ | TyIdent _ => 1
  | TyTuple ts _ => S (list_max (map ty_depth ts))
  | TyList t _ | TyOption t _ | TyBorrowTy t _ => S (ty_depth t)
  | TyResult ok err _ =>
      S (Nat.max (match ok with Some t => ty_depth t | None => 0 end)
                 (match err with Some t => ty_depth t | None => 0 end))
  end.

(** Depth of nested expressions = depth of the recursion of [Expr::parse]. *)
Fixpoint expr_depth (x : expr) : nat :=
  match x with Expr _ p _ => primary_depth p end
with primary_depth (p : primary_expr) : nat :=
  match p with
  | PNew _ _ args => S (list_max (map arg_depth args))
  | PNested _ inner => S (expr_depth inner)
  | PIdent _ => 1
  end
with arg_depth (a : inst_arg) : nat :=
  match a with ANamed _ x => expr_depth x | _ => 0 end.

Definition statement_depth (s : statement) : nat :=
  match s with
  | SLet _ _ x | SExport _ x _ => expr_depth x
  | SType (TSType (DAlias _ _ (TAType t))) => ty_depth t
  | _ => 0
  end.

(** Lower bound on the recursion depth the parser reached while building the document (only the
    two shapes used by [depth_unbounded] are counted: expressions and aliased value types). *)
Definition rec_depth (r : pres document) : nat :=
  match r with
  | POk d _ => list_max (map statement_depth (doc_statements d))
  | _ => 0
  end.
