(** NESTED instance requirements: the denotation of an interface of a collection as a tree.

    [DenG Sh d T k tr ids]: in collection [T] the kind [k] denotes the nested-flat tree [tr] (AggregatorNestedSpec.wt), using
    the interfaces [ids] of [T]:
      - a leaf kind (function, value, value type) denotes its resource-free tree and uses no interface;
      - [KInstance y] where [T[y]] is an ANONYMOUS interface without uses and with pairwise different export names
        denotes [XInst e], [e] the trees of the exports in their order; it uses [y] and what the exports use.
    [Sh] is a side condition on how the interfaces may be shared:
      - [Den]  = [DenG shaped]: each interface is used ONCE ([shaped]: [y] is not below itself, no interface is below two
        exports).  This is what the aggregator's own collection looks like (ownership: a merge below one export leaves
        every other export alone);
      - [SDen] = [DenG anyshape]: no condition - a contributor may mention one interface in several places (the repaired
        aggregator copies an anonymous interface once per mention).
    [IDenG Sh d T y oid e ids] ([IDen] / [SIDen]): the same for the root interface [y] of a requirement, whose identifier
    [oid] is free.  [d] bounds the nesting depth (everything is by induction on it). *)
From Coq Require Import ZArith ZifyBool ZifyN Lia.
From WacV Require Import Str Names Types Checker SubSpec CheckerEq CheckerValue CheckerProofs SubSpecProofs.
From WacV Require Import Aggregator AggregatorSpec AggregatorFrame AggregatorRemap AggregatorChecker AggregatorNames
     AggregatorFlat AggregatorNestedSpec.

Definition leaf_den (T : types) (k : kind) (tr : tree) : Prop := leafk k = true /\ UnfK T k tr /\ resfree tr = true.

(** the exports, in order; [own n] = the interfaces used below the export named [n] *)
Definition kids (P : kind -> tree -> list id -> Prop) (own : str -> list id)
           (exs : list (str * kind)) (e : list (str * tree)) : Prop :=
  Forall2 (fun nk nt => fst nk = fst nt /\ P (snd nk) (snd nt) (own (fst nk))) exs e.

Definition shape := id -> (str -> list id) -> list str -> Prop.
Definition shaped : shape := fun y own names =>
  (forall n, In n names -> ~ In y (own n)) /\
  (forall n m j, In n names -> In m names -> n <> m -> In j (own n) -> ~ In j (own m)).
Definition anyshape : shape := fun _ _ _ => True.

Definition IDenP (Sh : shape) (P : kind -> tree -> list id -> Prop) (T : types) (y : id) (oid : option str)
           (e : list (str * tree)) (ids : list id) : Prop :=
  exists exs own, get_if T y = Some (mkif oid [] exs) /\ NoDup (map fst exs) /\ kids P own exs e /\
                  Sh y own (map fst exs) /\ ids = y :: flat_map own (map fst exs).

Fixpoint DenG (Sh : shape) (d : nat) (T : types) (k : kind) (tr : tree) (ids : list id) : Prop :=
  match d with
  | O => False
  | S d' => (leaf_den T k tr /\ ids = []) \/
            (exists y e, k = KInstance y /\ tr = XInst e /\ IDenP Sh (DenG Sh d' T) T y None e ids)
  end.
Definition IDenG (Sh : shape) (d : nat) (T : types) := IDenP Sh (DenG Sh d T) T.
(** the aggregator's side: every interface has one parent *)
Notation Den := (DenG shaped).
Notation IDen := (IDenG shaped).
(** a contributor's side: interfaces may be shared *)
Notation SDen := (DenG anyshape).
Notation SIDen := (IDenG anyshape).

Definition upd (own : str -> list id) (n : str) (v : list id) : str -> list id :=
  fun m => if str_eqb m n then v else own m.
Lemma upd_same own n v : upd own n v n = v. Proof. unfold upd. now rewrite seqb_refl. Qed.
Lemma upd_other own n v m : m <> n -> upd own n v m = own m.
Proof. intros N. unfold upd. destruct (str_eqb m n) eqn:E; auto. apply seqb_eq in E. contradiction. Qed.

(** * [kids] *)
Lemma kids_keys P own exs e : kids P own exs e -> map fst e = map fst exs.
Proof. induction 1 as [|[n k] [n' tr] exs e [E _] _ IH]; cbn [map fst] in *; congruence. Qed.
Lemma kids_impl (P Q : kind -> tree -> list id -> Prop) own own' exs e :
  (forall n k tr, In (n, k) exs -> P k tr (own n) -> Q k tr (own' n)) -> kids P own exs e -> kids Q own' exs e.
Proof.
  intros H K. induction K as [|[n k] [n' tr] exs e [E Hk] _ IH]; constructor.
  - cbn [fst snd] in *. split; auto. apply (H n k tr); auto. now left.
  - apply IH. intros n0 k0 tr0 Hin. apply H. now right.
Qed.
Lemma kids_assoc P own exs e n k : kids P own exs e -> assoc n exs = Some k ->
  exists tr, assoc n e = Some tr /\ P k tr (own n).
Proof.
  induction 1 as [|[n1 k1] [n2 tr] exs e [E Hk] _ IH]; cbn [assoc]; [discriminate|]. cbn [fst snd] in *. subst n2.
  destruct (str_eqb n n1) eqn:En.
  - apply seqb_eq in En. subst n1. intros X. injection X as <-. eauto.
  - exact IH.
Qed.
Lemma kids_assoc_none P own exs e n : kids P own exs e -> assoc n exs = None -> assoc n e = None.
Proof. intros K H. apply assoc_none_keys. rewrite (kids_keys _ _ _ _ K). now apply assoc_none_keys. Qed.
Lemma kids_in P own exs e n tr : kids P own exs e -> In (n, tr) e -> exists k, In (n, k) exs /\ P k tr (own n).
Proof.
  induction 1 as [|[n1 k1] [n2 tr2] exs e [E Hk] _ IH]; [intros []|]. cbn [fst snd] in *. subst n2. intros [X|X].
  - injection X as <- <-. exists k1. split; [now left|auto].
  - destruct (IH X) as [k [Hin Hp]]. exists k. split; [now right|auto].
Qed.
Lemma kids_app P own exs e n k tr : kids P own exs e -> P k tr (own n) -> kids P own (exs ++ [(n, k)]) (e ++ [(n, tr)]).
Proof. intros K H. apply Forall2_app; [exact K|]. constructor; [|constructor]. cbn [fst snd]. auto. Qed.
(** the tree of one export changes *)
Lemma kids_set_tree (P Q : kind -> tree -> list id -> Prop) own own' exs e name k tr' :
  NoDup (map fst exs) -> kids P own exs e -> assoc name exs = Some k ->
  (forall n k0 tr, In (n, k0) exs -> n <> name -> P k0 tr (own n) -> Q k0 tr (own' n)) ->
  Q k tr' (own' name) -> kids Q own' exs (set_assoc name tr' e).
Proof.
  intros ND K. revert ND. induction K as [|[n1 k1] [n2 tr] exs e [E Hk] K' IH]; cbn [assoc map fst]; [discriminate|].
  cbn [fst snd] in *. subst n2. intros ND Ha Hoth Hq. inversion ND as [|? ? Hn ND']; subst. cbn [set_assoc].
  destruct (str_eqb name n1) eqn:En.
  - apply seqb_eq in En. subst n1. injection Ha as ->. constructor; [cbn [fst snd]; auto|].
    apply (kids_impl P Q own own' exs e); [|exact K']. intros n0 k0 tr0 Hin Hp. apply (Hoth n0 k0 tr0); auto; [now right|].
    intros ->. apply Hn. change name with (fst (name, k0)). now apply in_map.
  - constructor.
    + cbn [fst snd]. split; auto. apply (Hoth n1 k1 tr); auto; [now left|]. intros ->. rewrite seqb_refl in En. discriminate.
    + apply IH; auto. intros n0 k0 tr0 Hin. apply Hoth. now right.
Qed.
(** the kind of one export is replaced by one with the same tree *)
Lemma kids_set_kind (P : kind -> tree -> list id -> Prop) own exs e name k k' tr :
  kids P own exs e -> assoc name exs = Some k -> assoc name e = Some tr -> P k' tr (own name) ->
  kids P own (ins name k' exs) e.
Proof.
  induction 1 as [|[n1 k1] [n2 tr2] exs e [E Hk] K IH]; cbn [assoc ins]; [discriminate|].
  cbn [fst snd] in *. subst n2. destruct (str_eqb name n1) eqn:En.
  - apply seqb_eq in En. subst n1. intros X Y Hp. injection Y as ->. constructor; auto.
  - intros X Y Hp. constructor; [cbn [fst snd]; auto|]. now apply IH.
Qed.

Section AnyShape.
  Context {Sh : shape}.

(** * Monotonicity in the depth *)
Lemma Den_mono T : forall d d' k tr ids, (d <= d')%nat -> DenG Sh d T k tr ids -> DenG Sh d' T k tr ids.
Proof.
  induction d as [|d IH]; intros d' k tr ids L H; [destruct H|]. destruct d' as [|d']; [lia|]. cbn [DenG] in *.
  destruct H as [H|[y [e [-> [-> [exs [own [Hg [ND [K [S0 ->]]]]]]]]]]]; [now left|]. right. exists y, e. split; auto. split; auto.
  exists exs, own. repeat split; auto; try apply S0. eapply kids_impl; [|exact K]. intros n k tr _. apply IH. lia.
Qed.
Lemma IDen_mono T d d' y oid e ids : (d <= d')%nat -> IDenG Sh d T y oid e ids -> IDenG Sh d' T y oid e ids.
Proof.
  intros L [exs [own [Hg [ND [K [S0 ->]]]]]]. exists exs, own. repeat split; auto; try apply S0.
  eapply kids_impl; [|exact K]. intros n k tr _. now apply Den_mono.
Qed.
Lemma Den_inst d T y tr ids : DenG Sh (S d) T (KInstance y) tr ids -> exists e, tr = XInst e /\ IDenG Sh d T y None e ids.
Proof. cbn [DenG]. intros [[[L _] _]|[y0 [e [E [-> H]]]]]; [discriminate|]. injection E as <-. eauto. Qed.
Lemma Den_leaf d T k tr ids : leafk k = true -> DenG Sh d T k tr ids -> leaf_den T k tr /\ ids = [].
Proof.
  destruct d as [|d]; [intros _ []|]. cbn [DenG]. intros L [H|[y [e [-> _]]]]; [exact H | discriminate].
Qed.

(** * Trees *)
Lemma leaf_den_tree T k tr : leaf_den T k tr -> leaf_tree tr.
Proof.
  intros [L [U R]]. apply (UnfK_leaf_inv _ _ _ L) in U. destruct k as [[| |v| | |]|i| | | |v]; try discriminate L;
    destruct U as [x [-> _]]; exact R.
Qed.
Lemma Den_wt T : forall d k tr ids, DenG Sh d T k tr ids -> wt d tr.
Proof.
  induction d as [|d IH]; intros k tr ids H; [destruct H|]. cbn [DenG wt] in *.
  destruct H as [[H _]|[y [e [-> [-> [exs [own [Hg [ND [K [S0 ->]]]]]]]]]]]; [left; eapply leaf_den_tree; eauto|].
  right. exists e. split; auto. split; [now rewrite (kids_keys _ _ _ _ K)|].
  intros n x Hin. destruct (kids_in _ _ _ _ _ _ K Hin) as [k [_ Hk]]. eapply IH; eauto.
Qed.
Lemma IDen_wt T d y oid e ids : IDenG Sh d T y oid e ids -> wt (S d) (XInst e).
Proof.
  intros [exs [own [Hg [ND [K [S0 ->]]]]]]. apply wt_inst. split; [now rewrite (kids_keys _ _ _ _ K)|].
  intros n x Hin. destruct (kids_in _ _ _ _ _ _ K Hin) as [k [_ Hk]]. eapply Den_wt; eauto.
Qed.

(** the tree is the one [unfold] computes *)
Lemma kids_unfold (P : kind -> tree -> list id -> Prop) T own exs e :
  (forall n k tr, In (n, k) exs -> P k tr (own n) -> UnfK T k tr) -> kids P own exs e ->
  exists g, map_snd (unfold g T) exs = Some e.
Proof.
  intros HP K. induction K as [|[n k] [n' tr] exs e [E Hk] _ IH]; [exists O; reflexivity|]. cbn [fst snd] in *. subst n'.
  destruct IH as [g1 H1]; [intros n0 k0 tr0 Hin; apply HP; now right|].
  destruct (HP n k tr (or_introl eq_refl) Hk) as [g2 H2].
  exists (Nat.max g1 g2). unfold map_snd in *. cbn [map all_some fst snd].
  rewrite (unfold_mono g2 _ _ _ _ (Nat.le_max_r g1 g2) H2).
  assert (X : all_some (map (fun kv : str * kind => match unfold (Nat.max g1 g2) T (snd kv) with
                                                    | Some y => Some (fst kv, y) | None => None end) exs) = Some e).
  { apply (map_snd_ext (unfold g1 T) (unfold (Nat.max g1 g2) T) exs e); [|exact H1].
    intros x y. apply unfold_mono. apply Nat.le_max_l. }
  now rewrite X.
Qed.
Lemma Den_unf T : forall d k tr ids, DenG Sh d T k tr ids -> UnfK T k tr.
Proof.
  induction d as [|d IH]; intros k tr ids H; [destruct H|]. cbn [DenG] in H.
  destruct H as [[[_ [U _]] _]|[y [e [-> [-> [exs [own [Hg [ND [K [S0 ->]]]]]]]]]]]; [exact U|].
  destruct (kids_unfold _ T own exs e (fun n k tr _ H => IH k tr _ H) K) as [g Hg'].
  exists (S g). cbn [unfold]. rewrite Hg. cbn [i_exports]. now rewrite Hg'.
Qed.
Lemma IDen_unf T d y oid e ids : IDenG Sh d T y oid e ids -> UnfK T (KInstance y) (XInst e).
Proof.
  intros [exs [own [Hg [ND [K [S0 ->]]]]]].
  destruct (kids_unfold _ T own exs e (fun n k tr _ H => Den_unf T d k tr _ H) K) as [g Hg'].
  exists (S g). cbn [unfold]. rewrite Hg. cbn [i_exports]. now rewrite Hg'.
Qed.
Lemma UnfK_det T k a b : UnfK T k a -> UnfK T k b -> a = b.
Proof.
  intros [g1 H1] [g2 H2]. apply (unfold_mono g1 (Nat.max g1 g2)) in H1; [|apply Nat.le_max_l].
  apply (unfold_mono g2 (Nat.max g1 g2)) in H2; [|apply Nat.le_max_r]. congruence.
Qed.

(** * The interfaces used exist *)
Lemma in_flat_own (own : str -> list id) names j : In j (flat_map own names) <-> exists n, In n names /\ In j (own n).
Proof. apply in_flat_map. Qed.
Lemma Den_exist T : forall d k tr ids, DenG Sh d T k tr ids -> forall j, In j ids -> exists z, get_if T j = Some z.
Proof.
  induction d as [|d IH]; intros k tr ids H j Hj; [destruct H|]. cbn [DenG] in H.
  destruct H as [[_ ->]|[y [e [-> [-> [exs [own [Hg [ND [K [S0 ->]]]]]]]]]]]; [destruct Hj|].
  destruct Hj as [<-|Hj]; [eauto|]. apply in_flat_own in Hj as [n [Hn Hj]].
  apply in_map_iff in Hn as [[n0 k0] [<- Hin]]. cbn [fst] in Hj.
  assert (Ha : assoc n0 exs = Some k0) by now apply in_assoc.
  destruct (kids_assoc _ _ _ _ _ _ K Ha) as [tr0 [_ Hk]]. eapply IH; eauto.
Qed.
Lemma IDen_exist T d y oid e ids : IDenG Sh d T y oid e ids -> forall j, In j ids -> exists z, get_if T j = Some z.
Proof.
  intros [exs [own [Hg [ND [K [S0 ->]]]]]] j [<-|Hj]; [eauto|]. apply in_flat_own in Hj as [n [Hn Hj]].
  apply in_map_iff in Hn as [[n0 k0] [<- Hin]]. cbn [fst] in Hj.
  assert (Ha : assoc n0 exs = Some k0) by now apply in_assoc.
  destruct (kids_assoc _ _ _ _ _ _ K Ha) as [tr0 [_ Hk]]. eapply Den_exist; eauto.
Qed.
Lemma get_if_lt T j z : get_if T j = Some z -> id_tag j = t_tag T /\ (id_idx j < length (t_interfaces T))%nat.
Proof.
  unfold get_if, lookup. destruct (id_tag j =? t_tag T) eqn:E; [|discriminate]. intros H. split; [now apply N.eqb_eq|].
  apply nth_error_Some. congruence.
Qed.
Lemma id_eq2 y1 y2 : id_tag y1 = id_tag y2 -> id_idx y1 = id_idx y2 -> y1 = y2.
Proof. destruct y1, y2. cbn. congruence. Qed.

(** * Frame: a denotation only reads the value arenas and the interfaces it uses *)
Lemma leaf_den_ext T T' k tr : ext T T' -> leaf_den T k tr -> leaf_den T' k tr.
Proof. intros E [L [U R]]. split; auto. split; auto. eapply UnfK_leaf_ext; eauto. Qed.
Lemma Den_frame T T' : ext T T' -> forall d k tr ids,
  (forall j z, In j ids -> get_if T j = Some z -> get_if T' j = Some z) -> DenG Sh d T k tr ids -> DenG Sh d T' k tr ids.
Proof.
  intros E. induction d as [|d IH]; intros k tr ids Hsame H; [destruct H|]. cbn [DenG] in *.
  destruct H as [[H ->]|[y [e [-> [-> [exs [own [Hg [ND [K [S0 ->]]]]]]]]]]]; [left; split; auto; eapply leaf_den_ext; eauto|].
  right. exists y, e. split; auto. split; auto. exists exs, own. split; [apply Hsame; auto; now left|]. repeat split; auto; try apply S0.
  eapply kids_impl; [|exact K]. intros n k tr Hin Hk. apply IH; auto. intros j z Hj. apply Hsame. right.
  apply in_flat_own. exists n. split; auto. change n with (fst (n, k)). now apply in_map.
Qed.
Lemma IDen_frame T T' d y oid e ids : ext T T' ->
  (forall j z, In j ids -> get_if T j = Some z -> get_if T' j = Some z) -> IDenG Sh d T y oid e ids -> IDenG Sh d T' y oid e ids.
Proof.
  intros E Hsame [exs [own [Hg [ND [K [S0 ->]]]]]]. exists exs, own. split; [apply Hsame; auto; now left|]. repeat split; auto; try apply S0.
  eapply kids_impl; [|exact K]. intros n k tr Hin Hk. eapply Den_frame; eauto. intros j z Hj. apply Hsame. right.
  apply in_flat_own. exists n. split; auto. change n with (fst (n, k)). now apply in_map.
Qed.

(** every interface used other than the root is anonymous *)
Definition anon_in (T : types) (j : id) : Prop := exists x, get_if T j = Some x /\ i_id x = None.
Lemma Den_anon T : forall d k tr ids, DenG Sh d T k tr ids -> forall j, In j ids -> anon_in T j.
Proof.
  induction d as [|d IH]; intros k tr ids H j Hj; [destruct H|]. cbn [DenG] in H.
  destruct H as [[_ ->]|[y [e [-> [-> [exs [own [Hg [ND [K [S0 ->]]]]]]]]]]]; [destruct Hj|].
  destruct Hj as [<-|Hj]; [eexists; split; [exact Hg|reflexivity]|]. apply in_flat_own in Hj as [n [Hn Hj]].
  apply in_map_iff in Hn as [[n0 k0] [<- Hin]]. cbn [fst] in Hj.
  assert (Ha : assoc n0 exs = Some k0) by now apply in_assoc.
  destruct (kids_assoc _ _ _ _ _ _ K Ha) as [tr0 [_ Hk]]. eapply IH; eauto.
Qed.
Lemma IDen_anon T d y oid e ids : IDenG Sh d T y oid e ids -> forall j, In j ids -> j = y \/ anon_in T j.
Proof.
  intros [exs [own [Hg [ND [K [S0 ->]]]]]] j [<-|Hj]; [now left|]. right. apply in_flat_own in Hj as [n [Hn Hj]].
  apply in_map_iff in Hn as [[n0 k0] [<- Hin]]. cbn [fst] in Hj.
  assert (Ha : assoc n0 exs = Some k0) by now apply in_assoc.
  destruct (kids_assoc _ _ _ _ _ _ K Ha) as [tr0 [_ Hk]]. eapply Den_anon; eauto.
Qed.
Lemma IDen_root T d y oid e ids : IDenG Sh d T y oid e ids -> In y ids /\ exists x, get_if T y = Some x /\ i_id x = oid.
Proof. intros [exs [own [Hg [_ [_ [_ ->]]]]]]. split; [now left|]. eexists. split; [exact Hg|reflexivity]. Qed.
End AnyShape.

(** a tree-shaped requirement is in particular a requirement *)
Lemma Den_SDen T : forall d k tr ids, Den d T k tr ids -> SDen d T k tr ids.
Proof.
  induction d as [|d IH]; intros k tr ids H; [destruct H|]. cbn [DenG] in *.
  destruct H as [H|[y [e [-> [-> [exs [own [Hg [ND [K [_ ->]]]]]]]]]]]; [now left|]. right. exists y, e. split; auto. split; auto.
  exists exs, own. repeat split; auto. eapply kids_impl; [|exact K]. intros n k tr _. apply IH.
Qed.
Lemma IDen_SIDen T d y oid e ids : IDen d T y oid e ids -> SIDen d T y oid e ids.
Proof.
  intros [exs [own [Hg [ND [K [_ ->]]]]]]. exists exs, own. repeat split; auto.
  eapply kids_impl; [|exact K]. intros n k tr _. apply Den_SDen.
Qed.

(** * What a copy or a merge leaves alone *)
Definition newids (c : core) (ids : list id) : Prop :=
  forall j, In j ids -> (length (t_interfaces (c_types c)) <= id_idx j)%nat.
(** only the entries of [idsb] in the interface part of the remap table may change *)
Definition rm_frame (idsb : list id) (c c' : core) : Prop :=
  forall j, ~ In j idsb -> rm_get (TInterface j) (c_remapped c') = rm_get (TInterface j) (c_remapped c).
Lemma rm_frame_refl idsb c : rm_frame idsb c c. Proof. intros j _. reflexivity. Qed.
Lemma rm_frame_trans idsb a b c : rm_frame idsb a b -> rm_frame idsb b c -> rm_frame idsb a c.
Proof. intros H1 H2 j N. rewrite (H2 j N). now apply H1. Qed.
Lemma rm_frame_weaken (ids ids' : list id) c c' : (forall j, In j ids -> In j ids') -> rm_frame ids c c' -> rm_frame ids' c c'.
Proof. intros H F j N. apply F. intros X. apply N. now apply H. Qed.

(** a copy: every arena grows at its end *)
Record AExt (c c' : core) : Prop := {
  ax_types : ext (c_types c) (c_types c');
  ax_ifp : prefix (t_interfaces (c_types c)) (t_interfaces (c_types c'));
  ax_imports : c_imports c' = c_imports c;
  ax_chk : c_chk c' = c_chk c }.
Lemma AExt_refl c : AExt c c. Proof. split; auto using ext_refl, prefix_refl. Qed.
Lemma AExt_trans a b c : AExt a b -> AExt b c -> AExt a c.
Proof. intros [A1 A2 A3 A4] [B1 B2 B3 B4]. split; eauto using ext_trans, prefix_trans; congruence. Qed.
Lemma AExt_of_Ext c c' : Ext c c' -> AExt c c'.
Proof. intros E. split; try apply E. rewrite (x_if _ _ E). apply prefix_refl. Qed.
Lemma AExt_get_if c c' j z : AExt c c' -> get_if (c_types c) j = Some z -> get_if (c_types c') j = Some z.
Proof. intros E. unfold get_if. rewrite (ext_tag _ _ (ax_types _ _ E)). apply lookup_prefix. apply E. Qed.
Lemma AExt_len c c' : AExt c c' -> (length (t_interfaces (c_types c)) <= length (t_interfaces (c_types c')))%nat.
Proof. intros E. destruct (ax_ifp _ _ E) as [r ->]. rewrite app_length. lia. Qed.

(** a merge into the interfaces [ids]: they are updated in place, new ones are appended, the others stay *)
Record MFrame (ids : list id) (c c' : core) : Prop := {
  mf_types : ext (c_types c) (c_types c');
  mf_len : (length (t_interfaces (c_types c)) <= length (t_interfaces (c_types c')))%nat;
  mf_imports : c_imports c' = c_imports c;
  mf_ifaces : c_ifaces c' = c_ifaces c;
  mf_other : forall j z, ~ In j ids -> get_if (c_types c) j = Some z -> get_if (c_types c') j = Some z }.
Lemma MFrame_refl ids c : MFrame ids c c. Proof. split; auto using ext_refl. Qed.
Lemma MFrame_trans ids a b c : MFrame ids a b -> MFrame ids b c -> MFrame ids a c.
Proof. intros [A1 A2 A3 A4 A5] [B1 B2 B3 B4 B5]. split; eauto using ext_trans; try congruence; try lia. Qed.
Lemma MFrame_weaken (ids ids' : list id) c c' : (forall j, In j ids -> In j ids') -> MFrame ids c c' -> MFrame ids' c c'.
Proof. intros H [A1 A2 A3 A4 A5]. split; [exact A1|exact A2|exact A3|exact A4|]. intros j z N. apply A5. intros X. apply N. now apply H. Qed.
Lemma MFrame_of_AExt ids c c' : AExt c c' -> c_ifaces c' = c_ifaces c -> MFrame ids c c'.
Proof.
  intros E Hi. split; try apply E; auto.
  - now apply AExt_len.
  - intros j z _. now apply AExt_get_if.
Qed.
Lemma MFrame_chk ids c s : MFrame ids c (with_chk c s).
Proof. split; cbn [c_types c_imports c_ifaces with_chk]; auto using ext_refl. Qed.
Lemma MFrame_remapped ids c r : MFrame ids c (with_remapped c r).
Proof. split; cbn [c_types c_imports c_ifaces with_remapped]; auto using ext_refl. Qed.
