(** C13: re-scanning a token text in a new context. If [scan_token] cut a text [t] out of some input,
    then run on [t] followed by a text that cannot continue it, it cuts [t] again with the same kind.
    (Greedy scanners are stable: what they consumed is consumed again when what follows is replaced
    by something that stops them.) *)
From WacV Require Import Str Token Lexer LexTables LexImpl Semver Ast Parser Printer PrintSpec PrinterText PrinterLexFacts PrinterLex.
From Coq Require Import Lia.
Local Open Scope nat_scope.

Definition alnum (c : N) : bool := is_lower c || is_upper c || is_digit c.

(** A text that cannot continue (or start) an identifier. *)
Definition nonid (r : str) : Prop :=
  match r with [] => True | c :: _ => alnum c = false /\ c <> c_minus /\ c <> c_percent end.

Lemma alnum_false c : alnum c = false -> is_lower c = false /\ is_upper c = false /\ is_digit c = false.
Proof. unfold alnum. intros H. apply orb_false_iff in H. destruct H as [H H3]. apply orb_false_iff in H. tauto. Qed.

Lemma id_tail_nonid up r : nonid r -> id_tail_len true up r = 0.
Proof.
  destruct r as [|c r]; [reflexivity|]. intros (Ha & Hm & _). apply alnum_false in Ha. destruct Ha as (H1 & H2 & H3).
  cbn [id_tail_len]. unfold upper_cont, lower_cont. rewrite H1, H2, H3. cbn [orb].
  destruct up; (destruct (c =? c_minus)%N eqn:E; [apply N.eqb_eq in E; congruence|reflexivity]).
Qed.

(** What stops every identifier scanner. *)
Definition istop (r : str) : Prop :=
  (forall up, id_tail_len true up r = 0) /\ words_len true r = 0 /\ id_len true r = 0.

Lemma nonid_istop r : nonid r -> istop r.
Proof.
  intros H. split; [intros up; now apply id_tail_nonid|].
  destruct r as [|c r]; [split; reflexivity|]. pose proof H as (Ha & _ & Hp). apply alnum_false in Ha. destruct Ha as (H1 & H2 & _).
  assert (Hw : words_len true (c :: r) = 0) by (cbn [words_len]; now rewrite H1, H2).
  split; [exact Hw|]. cbn [id_len]. destruct (c =? c_percent)%N eqn:E; [apply N.eqb_eq in E; congruence|exact Hw].
Qed.

(** A dangling dash: [-] not followed by a letter. *)
Lemma dash_istop r : match r with [] => True | c :: _ => is_lower c = false /\ is_upper c = false end -> istop (c_minus :: r).
Proof.
  intros H. split; [|split; reflexivity].
  intros up. cbn [id_tail_len]. change (upper_cont c_minus) with false. change (lower_cont c_minus) with false.
  destruct up; cbn [N.eqb]; change ((c_minus =? c_minus)%N) with true; cbv iota;
    (destruct r as [|c r]; [reflexivity|]; destruct H as [H1 H2]; now rewrite H1, H2).
Qed.

Lemma id_tail_ext_n n : forall a up r0 r', length a <= n ->
  id_tail_len true up (a ++ r0) = length a -> istop r' -> id_tail_len true up (a ++ r') = length a.
Proof.
  induction n as [|n IH]; intros a up r0 r' Hl H Hn.
  - destruct a; [apply Hn|cbn in Hl; lia].
  - destruct a as [|c a]; [apply Hn|].
    cbn [app id_tail_len length] in *.
    destruct (if up then upper_cont c else lower_cont c).
    + injection H as H. f_equal. eapply IH; eauto; lia.
    + destruct (c =? c_minus)%N; [|discriminate H].
      destruct a as [|c2 a2].
      * cbn [app] in H. destruct r0 as [|c2 r2]; [discriminate H|].
        destruct (is_lower c2); [discriminate H|]. destruct (true && is_upper c2); discriminate H.
      * cbn [app length] in *. destruct (is_lower c2).
        { injection H as H. do 2 f_equal. eapply IH; eauto; lia. }
        destruct (true && is_upper c2); [|discriminate H]. injection H as H. do 2 f_equal. eapply IH; eauto; lia.
Qed.

Lemma id_tail_ext a up r0 r' :
  id_tail_len true up (a ++ r0) = length a -> istop r' -> id_tail_len true up (a ++ r') = length a.
Proof. apply (id_tail_ext_n (length a)). lia. Qed.

Lemma words_ext a r0 r' : words_len true (a ++ r0) = length a -> istop r' -> words_len true (a ++ r') = length a.
Proof.
  destruct a as [|c a]; intros H Hn.
  - apply Hn.
  - cbn [app words_len length] in *. destruct (is_lower c).
    + f_equal. injection H as H. eapply id_tail_ext; eauto.
    + destruct (true && is_upper c); [|discriminate H]. f_equal. injection H as H. eapply id_tail_ext; eauto.
Qed.

Lemma id_len_ext a r0 r' : id_len true (a ++ r0) = length a -> istop r' -> id_len true (a ++ r') = length a.
Proof.
  destruct a as [|c a]; intros H Hn.
  - apply Hn.
  - cbn [app id_len length] in *. destruct (c =? c_percent)%N.
    + destruct (words_len true (a ++ r0)) as [|m] eqn:E; [discriminate H|]. injection H as H.
      assert (E' : words_len true (a ++ r0) = length a) by lia. rewrite (words_ext _ _ _ E' Hn). destruct a; [discriminate H|reflexivity].
    + change (words_len true (c :: a ++ r')) with (words_len true ((c :: a) ++ r')).
      change (words_len true (c :: a ++ r0)) with (words_len true ((c :: a) ++ r0)) in H. eapply words_ext; eauto.
Qed.

(* ------------------------------------------------------------------ segments *)

Definition head_not (c : N) (r : str) : Prop := match r with [] => True | x :: _ => x <> c end.

Lemma seg_loop_stop F sep r : head_not sep r -> seg_loop F true sep r = 0.
Proof.
  destruct F; [reflexivity|]. destruct r as [|c r]; [reflexivity|]. cbn [head_not seg_loop]. intros H.
  destruct (c =? sep)%N eqn:E; [apply N.eqb_eq in E; congruence|reflexivity].
Qed.

Lemma seg_ext sep : nonid [sep] -> forall F a r0 r' F',
  seg_loop F true sep (a ++ r0) = length a -> istop r' -> head_not sep r' -> length a <= F' ->
  seg_loop F' true sep (a ++ r') = length a.
Proof.
  intros Hsep. induction F as [|f IH]; intros a r0 r' F' H Hn Hh Hl.
  - cbn [seg_loop] in H. destruct a; [|discriminate H]. apply seg_loop_stop. exact Hh.
  - destruct a as [|c a1]; [apply seg_loop_stop; exact Hh|].
    cbn [app seg_loop length] in H. destruct (c =? sep)%N eqn:Ec; [|discriminate H].
    destruct (id_len true (a1 ++ r0)) as [|n] eqn:Ei; [discriminate H|].
    assert (Hle : Datatypes.S n <= length a1) by lia.
    set (i := firstn (Datatypes.S n) a1). set (a2 := skipn (Datatypes.S n) a1).
    assert (Ha1 : a1 = i ++ a2) by (symmetry; apply firstn_skipn).
    assert (Hi : length i = Datatypes.S n) by (unfold i; rewrite firstn_length; lia).
    assert (Hsk : forall r, skipn (Datatypes.S n) (a1 ++ r) = a2 ++ r).
    { intros r. rewrite Ha1, <- app_assoc, <- Hi. apply skipn_app_exact. }
    rewrite Hsk in H.
    assert (H2 : seg_loop f true sep (a2 ++ r0) = length a2).
    { rewrite Ha1, app_length in H. lia. }
    assert (Hn2 : istop (a2 ++ r')).
    { destruct a2 as [|c2 a2'] eqn:E2; [exact Hn|]. cbn [app]. destruct f; [discriminate H2|].
      cbn [app seg_loop] in H2. destruct (c2 =? sep)%N eqn:E3; [|discriminate H2]. apply N.eqb_eq in E3. subst c2.
      apply nonid_istop. exact Hsep. }
    assert (Ei' : id_len true (a1 ++ r') = Datatypes.S n).
    { rewrite Ha1, <- app_assoc, <- Hi. apply (id_len_ext i (a2 ++ r0)); [|exact Hn2]. rewrite Hi, app_assoc, <- Ha1. exact Ei. }
    cbn [length] in Hl. destruct F' as [|f']; [lia|]. cbn [app seg_loop length]. rewrite Ec, Ei', Hsk.
    rewrite (IH a2 r0 r' f' H2 Hn Hh) by (rewrite Ha1, app_length in Hl; lia).
    rewrite Ha1, app_length. lia.
Qed.

(* ------------------------------------------------------------------ versions *)

(** A text that cannot continue a version. *)
Definition vstop (r : str) : Prop :=
  match r with
  | [] => True
  | c :: r2 => semver_char c = false /\
               (c = c_period -> match r2 with c2 :: _ => semver_char c2 = false | [] => True end)
  end.

Lemma semver_rest_stop ing r : vstop r -> semver_rest ing r = 0.
Proof.
  destruct r as [|c r2]; [reflexivity|]. intros [H1 H2]. cbn [semver_rest]. rewrite H1, andb_false_r.
  destruct (c =? c_period)%N eqn:E; [|reflexivity]. apply N.eqb_eq in E. specialize (H2 E).
  destruct r2 as [|c2 r3]; [reflexivity|]. now rewrite H2.
Qed.

Lemma semver_rest_ext_n n : forall a ing r0 r', length a <= n ->
  semver_rest ing (a ++ r0) = length a -> vstop r' -> semver_rest ing (a ++ r') = length a.
Proof.
  induction n as [|n IH]; intros a ing r0 r' Hl H Hv.
  - destruct a; [apply semver_rest_stop; exact Hv|cbn in Hl; lia].
  - destruct a as [|c a]; [apply semver_rest_stop; exact Hv|].
    cbn [app semver_rest length] in *. destruct (ing && semver_char c).
    + injection H as H. f_equal. eapply IH; eauto; lia.
    + destruct (c =? c_period)%N; [|discriminate H]. destruct a as [|c2 a2].
      * cbn [app] in H. destruct r0 as [|c2 r2]; [discriminate H|]. destruct (semver_char c2); discriminate H.
      * cbn [app length] in *. destruct (semver_char c2); [|discriminate H]. injection H as H. do 2 f_equal. eapply IH; eauto; lia.
Qed.

Lemma run_len_ext p a : forall r0 r' k,
  run_len p (a ++ r0) = k -> k <= length a -> (match r' with [] => True | c :: _ => p c = false end) ->
  run_len p (a ++ r') = k.
Proof.
  induction a as [|c a IH]; intros r0 r' k H Hk Hr.
  - cbn [length] in Hk. replace k with 0 by lia. cbn [app]. destruct r' as [|c r']; [reflexivity|]. cbn [run_len]. now rewrite Hr.
  - cbn [app run_len length] in *. destruct (p c); [|exact H]. destruct k as [|k]; [discriminate H|]. injection H as H.
    f_equal. eapply IH; eauto. lia.
Qed.

Lemma semver_char_digit c : semver_char c = false -> is_digit c = false.
Proof. unfold semver_char. intros H. repeat (apply orb_false_iff in H; destruct H as [H ?]). exact H. Qed.

Lemma semver_len_ext a r0 r' : semver_len (a ++ r0) = length a -> vstop r' -> semver_len (a ++ r') = length a.
Proof.
  intros H Hv. unfold semver_len in *.
  assert (Hd : match r' with [] => True | c :: _ => is_digit c = false end).
  { destruct r' as [|c r2]; [exact I|]. destruct Hv as [Hv _]. now apply semver_char_digit. }
  destruct (run_len is_digit (a ++ r0)) as [|dg] eqn:E.
  - destruct a; [|discriminate H]. cbn [app length]. destruct r' as [|c r2]; [reflexivity|]. cbn [run_len]. now rewrite Hd.
  - assert (Hle : Datatypes.S dg <= length a) by lia.
    rewrite (run_len_ext is_digit a r0 r' _ E Hle Hd).
    set (i := firstn (Datatypes.S dg) a). set (a2 := skipn (Datatypes.S dg) a).
    assert (Ha : a = i ++ a2) by (symmetry; apply firstn_skipn).
    assert (Hi : length i = Datatypes.S dg) by (unfold i; rewrite firstn_length; lia).
    assert (Hsk : forall r, skipn (Datatypes.S dg) (a ++ r) = a2 ++ r).
    { intros r. rewrite Ha, <- app_assoc, <- Hi. apply skipn_app_exact. }
    rewrite Hsk in *. assert (H2 : semver_rest false (a2 ++ r0) = length a2) by (rewrite Ha, app_length in H; lia).
    rewrite (semver_rest_ext_n (length a2) a2 false r0 r' (le_n _) H2 Hv). rewrite Ha, app_length. lia.
Qed.

Lemma version_tail_ext a r0 r' :
  version_tail_len (a ++ r0) = length a -> vstop r' -> head_not c_atsign r' -> version_tail_len (a ++ r') = length a.
Proof.
  intros H Hv Hh. destruct a as [|c a].
  - cbn [app length]. destruct r' as [|c r2]; [reflexivity|]. cbn [version_tail_len head_not] in *.
    destruct (c =? c_atsign)%N eqn:E; [apply N.eqb_eq in E; congruence|reflexivity].
  - cbn [app version_tail_len length] in *. destruct (c =? c_atsign)%N; [|discriminate H].
    destruct (semver_len (a ++ r0)) as [|n] eqn:E; [discriminate H|]. injection H as H.
    assert (E' : semver_len (a ++ r0) = length a) by lia. rewrite (semver_len_ext _ _ _ E' Hv).
    destruct a; [discriminate H|reflexivity].
Qed.

(* ------------------------------------------------------------------ scanners consume at most their input *)

Lemma id_tail_le_n n : forall s up, length s <= n -> id_tail_len true up s <= length s.
Proof.
  induction n as [|n IH]; intros s up Hl; (destruct s as [|c s]; [cbn; lia|]); [cbn in Hl; lia|].
  cbn [id_tail_len length] in *. destruct (if up then upper_cont c else lower_cont c).
  - specialize (IH s up). lia.
  - destruct (c =? c_minus)%N; [|lia]. destruct s as [|c2 s2]; [lia|]. cbn [length] in *.
    destruct (is_lower c2); [specialize (IH s2 false); lia|]. destruct (true && is_upper c2); [specialize (IH s2 true); lia|lia].
Qed.
Lemma id_tail_le s up : id_tail_len true up s <= length s.
Proof. apply (id_tail_le_n (length s)). lia. Qed.
Lemma words_le s : words_len true s <= length s.
Proof.
  destruct s as [|c s]; [cbn; lia|]. cbn [words_len length].
  destruct (is_lower c); [pose proof (id_tail_le s false); lia|]. destruct (true && is_upper c); [pose proof (id_tail_le s true); lia|lia].
Qed.
Lemma id_len_le s : id_len true s <= length s.
Proof.
  destruct s as [|c s]; [cbn; lia|]. cbn [id_len]. destruct (c =? c_percent)%N; [|apply words_le].
  pose proof (words_le s). destruct (words_len true s); cbn [length]; lia.
Qed.
Lemma seg_loop_le F sep : forall s, seg_loop F true sep s <= length s.
Proof.
  induction F as [|f IH]; intros s; [cbn; lia|]. destruct s as [|c r]; [cbn; lia|]. cbn [seg_loop length].
  destruct (c =? sep)%N; [|lia]. pose proof (id_len_le r). destruct (id_len true r) as [|n]; [lia|].
  specialize (IH (skipn (Datatypes.S n) r)). rewrite skipn_length in IH. lia.
Qed.
Lemma semver_rest_le_n n : forall s ing, length s <= n -> semver_rest ing s <= length s.
Proof.
  induction n as [|n IH]; intros s ing Hl; (destruct s as [|c s]; [cbn; lia|]); [cbn in Hl; lia|].
  cbn [semver_rest length] in *. destruct (ing && semver_char c); [specialize (IH s true); lia|].
  destruct (c =? c_period)%N; [|lia]. destruct s as [|c2 s2]; [lia|]. cbn [length] in *.
  destruct (semver_char c2); [specialize (IH s2 true); lia|lia].
Qed.
Lemma run_len_le p s : run_len p s <= length s.
Proof. induction s as [|c s IH]; cbn [run_len length]; [lia|]. destruct (p c); lia. Qed.
Lemma semver_len_le s : semver_len s <= length s.
Proof.
  unfold semver_len. pose proof (run_len_le is_digit s). destruct (run_len is_digit s) as [|dg]; [lia|].
  pose proof (semver_rest_le_n (length (skipn (Datatypes.S dg) s)) (skipn (Datatypes.S dg) s) false (le_n _)).
  rewrite skipn_length in *. lia.
Qed.
Lemma version_tail_le s : version_tail_len s <= length s.
Proof.
  destruct s as [|c s]; [cbn; lia|]. cbn [version_tail_len length]. destruct (c =? c_atsign)%N; [|lia].
  pose proof (semver_len_le s). destruct (semver_len s); lia.
Qed.

Lemma split_at {A} n (s : list A) : n <= length s -> s = firstn n s ++ skipn n s /\ length (firstn n s) = n.
Proof. intros H. split; [symmetry; apply firstn_skipn|rewrite firstn_length; lia]. Qed.

Lemma firstn_app_len {A} (a b : list A) : firstn (length a) (a ++ b) = a.
Proof. apply firstn_app_exact. Qed.

(* ------------------------------------------------------------------ strings *)

Lemma find_char_ext c r m r' :
  find_char c r = Some m -> find_char c (firstn (Datatypes.S m) r ++ r') = Some m /\ length (firstn (Datatypes.S m) r) = Datatypes.S m.
Proof.
  revert m. induction r as [|x r IH]; intros m; cbn [find_char]; [discriminate|].
  destruct (x =? c)%N eqn:E.
  - intros H; inversion H; subst. cbn [firstn app find_char length]. rewrite E. auto.
  - destruct (find_char c r) as [k|] eqn:Ek; [|discriminate]. intros H; inversion H; subst.
    destruct (IH k eq_refl) as [H1 H2]. change (firstn (Datatypes.S (Datatypes.S k)) (x :: r)) with (x :: firstn (Datatypes.S k) r).
    cbn [app find_char length]. rewrite E, H1, H2. auto.
Qed.

Lemma head_is_false c r : head_not c r -> head_is c r = false.
Proof. destruct r as [|x r]; [reflexivity|]. cbn. intros H. apply N.eqb_neq. exact H. Qed.

(* ------------------------------------------------------------------ how [scan_token] arrives at a token *)

Definition kw_or_ident (x : str) : token :=
  match lookup_str x (keywords impl_cfg) with Some k => k | None => TIdent end.

Inductive scan_path (F : nat) (s : str) (k : token) (n : nat) : Prop :=
| sp_string r m : s = c_quote :: r -> find_char c_quote r = Some m -> k = TString -> n = Datatypes.S (Datatypes.S m) ->
    scan_path F s k n
| sp_symbol : id_len true s = 0 -> head_not c_quote s -> best_symbol (symbols impl_cfg) s = Some (k, n) -> scan_path F s k n
| sp_dash n1 : id_len true s = n1 -> 0 < n1 -> head_is c_minus (skipn n1 s) = true ->
    is_kw_prefix (firstn n1 s) (keywords impl_cfg) = false -> k = TIdent -> n = Datatypes.S n1 -> scan_path F s k n
| sp_word n1 : id_len true s = n1 -> 0 < n1 -> head_not c_quote s -> head_is c_minus (skipn n1 s) = false ->
    seg_loop F true c_colon (skipn n1 s) = 0 -> n = n1 ->
    k = (if head_is c_colon (skipn n1 s) then TIdent else kw_or_ident (firstn n1 s)) -> scan_path F s k n
| sp_pkg n1 n2 m : id_len true s = n1 -> 0 < n1 -> head_not c_quote s -> head_is c_minus (skipn n1 s) = false ->
    seg_loop F true c_colon (skipn n1 s) = n2 -> 0 < n2 ->
    head_is c_minus (skipn (n1 + n2) s) = false -> head_is c_colon (skipn (n1 + n2) s) = false ->
    seg_loop F true c_slash (skipn (n1 + n2) s) = m ->
    (m = 0 /\ k = TPackageName /\ n = n1 + n2 + version_tail_len (skipn (n1 + n2) s) \/
     0 < m /\ k = TPackagePath /\ n = n1 + n2 + m + version_tail_len (skipn (n1 + n2 + m) s)) ->
    scan_path F s k n.

Lemma scan_token_path F s k n : scan_token impl_cfg F s = ScanTok k n -> scan_path F s k n.
Proof.
  unfold scan_token. destruct s as [|c r]; [discriminate|].
  destruct (c =? c_quote)%N eqn:Eq.
  { apply N.eqb_eq in Eq. subst c. destruct (find_char c_quote r) as [m|] eqn:Ef; [|discriminate].
    intros H; inversion H; subst. eapply sp_string; eauto. }
  assert (Hq : head_not c_quote (c :: r)) by (cbn; now apply N.eqb_neq).
  change (allow_upper impl_cfg) with true. change (q_pkgzone impl_cfg) with true. change (q_dash impl_cfg) with true.
  change (q_kwcolon impl_cfg) with true. cbn [andb].
  destruct (id_len true (c :: r)) as [|n0] eqn:Ei.
  { destruct (best_symbol (symbols impl_cfg) (c :: r)) as [[k' n']|] eqn:Eb; [|discriminate].
    intros H; inversion H; subst. now apply sp_symbol. }
  set (n1 := Datatypes.S n0) in *.
  destruct (head_is c_minus (skipn n1 (c :: r))) eqn:Ed.
  { destruct (is_kw_prefix (firstn n1 (c :: r)) (keywords impl_cfg)) eqn:Ek; [discriminate|].
    intros H; inversion H; subst. eapply (sp_dash _ _ _ _ n1); eauto. unfold n1; lia. }
  destruct (seg_loop F true c_colon (skipn n1 (c :: r))) as [|n2'] eqn:Es.
  { intros H. eapply (sp_word _ _ _ _ n1); eauto; [unfold n1; lia| |].
    - destruct (head_is c_colon (skipn n1 (c :: r))); inversion H; reflexivity.
    - unfold kw_or_ident. destruct (head_is c_colon (skipn n1 (c :: r))); inversion H; reflexivity. }
  set (n2 := Datatypes.S n2') in *.
  destruct (head_is c_minus (skipn (n1 + n2) (c :: r))) eqn:Ed2; [discriminate|].
  destruct (head_is c_colon (skipn (n1 + n2) (c :: r))) eqn:Ec2; [discriminate|]. cbn [orb].
  destruct (seg_loop F true c_slash (skipn (n1 + n2) (c :: r))) as [|m'] eqn:Em.
  - intros H; inversion H; subst. eapply (sp_pkg _ _ _ _ n1 n2 0); eauto; try (unfold n1, n2; lia).
  - intros H; inversion H; subst. eapply (sp_pkg _ _ _ _ n1 n2 (Datatypes.S m')); eauto; try (unfold n1, n2; lia).
    right. repeat split; try lia.
Qed.

(* ------------------------------------------------------------------ kinds that only one path produces *)

Lemma best_symbol_kind tbl : forall s k n, best_symbol tbl s = Some (k, n) -> In k (map snd tbl).
Proof.
  induction tbl as [|[x t] tbl IH]; intros s k n; cbn [best_symbol]; [discriminate|].
  destruct (starts_with x s && negb (is_nil_str x)).
  - destruct (best_symbol tbl s) as [[t' n']|] eqn:E.
    + destruct (length x <? n'); intros H; inversion H; subst; [right; eapply IH; eauto|now left].
    + intros H; inversion H; subst. now left.
  - intros H. right. eapply IH; eauto.
Qed.

Lemma lookup_str_kind tbl : forall x k, lookup_str x tbl = Some k -> In k (map snd tbl).
Proof.
  induction tbl as [|[y t] tbl IH]; intros x k; cbn [lookup_str]; [discriminate|].
  destruct (str_eqb y x); [intros H; inversion H; now left|intros H; right; eapply IH; eauto].
Qed.

Definition src_kind (k : token) : bool :=
  match k with TIdent | TString | TPackageName | TPackagePath => true | _ => false end.

Lemma table_kinds_not_src k :
  In k (map snd (symbols impl_cfg)) \/ In k (map snd (keywords impl_cfg)) -> src_kind k = false.
Proof.
  assert (H : forallb (fun k => negb (src_kind k)) (map snd (symbols impl_cfg) ++ map snd (keywords impl_cfg)) = true)
    by (vm_compute; reflexivity).
  rewrite forallb_forall in H. intros Hin. apply negb_true_iff. apply H. apply in_or_app. exact Hin.
Qed.

Lemma kw_or_ident_src x : src_kind (kw_or_ident x) = true -> lookup_str x (keywords impl_cfg) = None.
Proof.
  unfold kw_or_ident. destruct (lookup_str x (keywords impl_cfg)) as [k|] eqn:E; [|reflexivity].
  intros H. rewrite (table_kinds_not_src k) in H; [discriminate|]. right. eapply lookup_str_kind; eauto.
Qed.

(* ------------------------------------------------------------------ building a scan in the new context *)

Lemma scan_word_intro F s n1 :
  id_len true s = n1 -> 0 < n1 -> head_not c_quote s -> head_is c_minus (skipn n1 s) = false ->
  seg_loop F true c_colon (skipn n1 s) = 0 ->
  scan_token impl_cfg F s = ScanTok (if head_is c_colon (skipn n1 s) then TIdent else kw_or_ident (firstn n1 s)) n1.
Proof.
  intros Hi Hp Hq Hd Hs. unfold scan_token. destruct s as [|c r]; [cbn in Hi; lia|].
  cbn [head_not] in Hq. apply N.eqb_neq in Hq. rewrite Hq.
  change (allow_upper impl_cfg) with true. change (q_pkgzone impl_cfg) with true. change (q_dash impl_cfg) with true.
  change (q_kwcolon impl_cfg) with true. rewrite Hi. destruct n1 as [|n0]; [lia|]. rewrite Hd, Hs.
  unfold kw_or_ident. destruct (head_is c_colon (skipn (Datatypes.S n0) (c :: r))); reflexivity.
Qed.

Lemma scan_dash_intro F s n1 :
  id_len true s = n1 -> 0 < n1 -> head_not c_quote s -> head_is c_minus (skipn n1 s) = true ->
  is_kw_prefix (firstn n1 s) (keywords impl_cfg) = false ->
  scan_token impl_cfg F s = ScanTok TIdent (Datatypes.S n1).
Proof.
  intros Hi Hp Hq Hd Hk. unfold scan_token. destruct s as [|c r]; [cbn in Hi; lia|].
  cbn [head_not] in Hq. apply N.eqb_neq in Hq. rewrite Hq.
  change (allow_upper impl_cfg) with true. change (q_pkgzone impl_cfg) with true. change (q_dash impl_cfg) with true.
  rewrite Hi. destruct n1 as [|n0]; [lia|]. rewrite Hd, Hk. reflexivity.
Qed.

Lemma scan_pkg_intro F s n1 n2 m :
  id_len true s = n1 -> 0 < n1 -> head_not c_quote s -> head_is c_minus (skipn n1 s) = false ->
  seg_loop F true c_colon (skipn n1 s) = n2 -> 0 < n2 ->
  head_is c_minus (skipn (n1 + n2) s) = false -> head_is c_colon (skipn (n1 + n2) s) = false ->
  seg_loop F true c_slash (skipn (n1 + n2) s) = m ->
  scan_token impl_cfg F s =
    match m with
    | 0 => ScanTok TPackageName (n1 + n2 + version_tail_len (skipn (n1 + n2) s))
    | Datatypes.S _ => ScanTok TPackagePath (n1 + n2 + m + version_tail_len (skipn (n1 + n2 + m) s))
    end.
Proof.
  intros Hi Hp Hq Hd Hs Hp2 Hd2 Hc2 Hm. unfold scan_token. destruct s as [|c r]; [cbn in Hi; lia|].
  cbn [head_not] in Hq. apply N.eqb_neq in Hq. rewrite Hq.
  change (allow_upper impl_cfg) with true. change (q_pkgzone impl_cfg) with true. change (q_dash impl_cfg) with true.
  change (q_kwcolon impl_cfg) with true. rewrite Hi. destruct n1 as [|n0]; [lia|]. rewrite Hd, Hs.
  destruct n2 as [|n2']; [lia|]. rewrite Hd2, Hc2, Hm. cbn [andb orb]. destruct m; reflexivity.
Qed.

(* ------------------------------------------------------------------ re-scanning source-copied tokens *)

Lemma decomp {A} n (s : list A) : n <= length s ->
  exists p x, s = p ++ x /\ length p = n /\ firstn n s = p /\ skipn n s = x.
Proof. intros H. exists (firstn n s), (skipn n s). destruct (split_at n s H). auto. Qed.

Lemma head_is_true c r : head_is c r = true -> exists x, r = c :: x.
Proof. destruct r as [|y r]; [discriminate|]. cbn. intros H. apply N.eqb_eq in H. subst. eauto. Qed.

Lemma head_not_app (c : N) (p x : str) : p <> [] -> head_not c (p ++ x) <-> head_not c p.
Proof. destruct p; [congruence|]. reflexivity. Qed.

Lemma istop_not_letter r : istop r -> match r with [] => True | c :: _ => is_lower c = false /\ is_upper c = false end.
Proof.
  destruct r as [|c r]; [auto|]. intros (_ & Hw & _). cbn [words_len] in Hw.
  destruct (is_lower c); [discriminate|]. destruct (is_upper c); [discriminate|]. auto.
Qed.

Lemma id_len_pos_not_quote s : 0 < id_len true s -> head_not c_quote s.
Proof.
  destruct s as [|c r]; [exact (fun _ => I)|]. cbn [head_not]. intros H E. subst c. cbn in H. lia.
Qed.

Theorem rescan_ident F s1 n r' F' :
  scan_token impl_cfg F s1 = ScanTok TIdent n ->
  (lookup_str (firstn n s1) (keywords impl_cfg) = None \/ exists x, r' = c_colon :: x) ->
  istop r' -> head_not c_minus r' -> (forall x, r' = c_colon :: x -> id_len true x = 0) ->
  scan_token impl_cfg F' (firstn n s1 ++ r') = ScanTok TIdent (length (firstn n s1)).
Proof.
  intros H Hlk Hst Hmin Hcol. apply scan_token_path in H.
  destruct H as [r m _ _ Hk _|Hi Hq Hb|n1 Hi Hp Hd Hkp Hk Hn|n1 Hi Hp Hq Hd Hs Hn Hk|n1 n2 m Hi Hp Hq Hd Hs Hp2 Hd2 Hc2 Hm Hk].
  - discriminate Hk.
  - apply best_symbol_kind in Hb.
    assert (Hx : src_kind TIdent = false) by (apply table_kinds_not_src; now left). discriminate Hx.
  - (* dangling dash *)
    subst n. pose proof (id_len_le s1) as Hle. rewrite Hi in Hle.
    destruct (decomp n1 s1 Hle) as (p & x & Hs1 & Hlp & Hfp & Hsk). rewrite Hsk in Hd.
    apply head_is_true in Hd. destruct Hd as (x0 & ->).
    assert (Hf : firstn (Datatypes.S n1) s1 = p ++ [c_minus]).
    { rewrite Hs1. change (p ++ c_minus :: x0) with (p ++ [c_minus] ++ x0). rewrite app_assoc.
      replace (Datatypes.S n1) with (length (p ++ [c_minus])) by (rewrite app_length; cbn; lia). apply firstn_app_exact. }
    rewrite Hf, <- app_assoc. cbn [app]. rewrite app_length. cbn [length]. rewrite Hlp. replace (n1 + 1) with (Datatypes.S n1) by lia.
    assert (Hpne : p <> []) by (destruct p; [cbn in Hlp; lia|discriminate]).
    assert (Hi' : id_len true (p ++ c_minus :: r') = n1).
    { rewrite <- Hlp. apply (id_len_ext p (c_minus :: x0)); [rewrite Hlp, <- Hs1; exact Hi|].
      apply dash_istop. now apply istop_not_letter. }
    apply scan_dash_intro; auto.
    + apply id_len_pos_not_quote. lia.
    + rewrite <- Hlp, skipn_app_exact. reflexivity.
    + rewrite <- Hlp, firstn_app_exact. rewrite <- Hfp. exact Hkp.
  - (* word *)
    subst n. pose proof (id_len_le s1) as Hle. rewrite Hi in Hle.
    destruct (decomp n1 s1 Hle) as (p & x & Hs1 & Hlp & Hfp & Hsk). rewrite Hfp in *. rewrite Hlp.
    assert (Hpne : p <> []) by (destruct p; [cbn in Hlp; lia|discriminate]).
    assert (Hi' : id_len true (p ++ r') = n1).
    { rewrite <- Hlp. apply (id_len_ext p x); [rewrite Hlp, <- Hs1; exact Hi|exact Hst]. }
    assert (Hseg : seg_loop F' true c_colon r' = 0).
    { destruct F'; [reflexivity|]. destruct r' as [|c x']; [reflexivity|]. cbn [seg_loop].
      destruct (c =? c_colon)%N eqn:E; [|reflexivity]. apply N.eqb_eq in E. subst c. now rewrite (Hcol x' eq_refl). }
    assert (Hsk' : skipn n1 (p ++ r') = r') by (rewrite <- Hlp; apply skipn_app_exact).
    assert (Hfp' : firstn n1 (p ++ r') = p) by (rewrite <- Hlp; apply firstn_app_exact).
    rewrite (scan_word_intro F' (p ++ r') n1 Hi' Hp); rewrite ?Hsk', ?Hfp'; auto.
    + destruct Hlk as [Hlk|(x0 & ->)]; [unfold kw_or_ident; rewrite Hlk; destruct (head_is c_colon r'); reflexivity|].
      cbn [head_is]. change ((c_colon =? c_colon)%N) with true. reflexivity.
    + apply id_len_pos_not_quote. lia.
    + now apply head_is_false.
  - destruct Hk as [(_ & Hk & _)|(_ & Hk & _)]; discriminate Hk.
Qed.

Theorem rescan_string F s1 n r' F' :
  scan_token impl_cfg F s1 = ScanTok TString n ->
  scan_token impl_cfg F' (firstn n s1 ++ r') = ScanTok TString (length (firstn n s1)).
Proof.
  intros H. apply scan_token_path in H.
  destruct H as [r m Hs Hf _ Hn|Hi Hq Hb|n1 Hi Hp Hd Hkp Hk Hn|n1 Hi Hp Hq Hd Hs Hn Hk|n1 n2 m Hi Hp Hq Hd Hs Hp2 Hd2 Hc2 Hm Hk].
  - subst s1 n. change (firstn (Datatypes.S (Datatypes.S m)) (c_quote :: r)) with (c_quote :: firstn (Datatypes.S m) r).
    destruct (find_char_ext c_quote r m r' Hf) as [H1 H2]. cbn [app length]. rewrite H2.
    unfold scan_token. change ((c_quote =? c_quote)%N) with true. cbv iota. now rewrite H1.
  - apply best_symbol_kind in Hb. assert (Hx : src_kind TString = false) by (apply table_kinds_not_src; now left). discriminate Hx.
  - discriminate Hk.
  - destruct (head_is c_colon (skipn n1 s1)); [discriminate Hk|].
    assert (Hx : src_kind (kw_or_ident (firstn n1 s1)) = true) by (rewrite <- Hk; reflexivity).
    apply kw_or_ident_src in Hx. unfold kw_or_ident in Hk. rewrite Hx in Hk. discriminate Hk.
  - destruct Hk as [(_ & Hk & _)|(_ & Hk & _)]; discriminate Hk.
Qed.

Lemma seg_loop_pos_head F sep s k : seg_loop F true sep s = Datatypes.S k -> exists x, s = sep :: x.
Proof.
  destruct F; [discriminate|]. destruct s as [|c r]; [discriminate|]. cbn [seg_loop].
  destruct (c =? sep)%N eqn:E; [|discriminate]. apply N.eqb_eq in E. subst. eauto.
Qed.

Lemma vtl_pos_head s k : version_tail_len s = Datatypes.S k -> exists x, s = c_atsign :: x.
Proof.
  destruct s as [|c r]; [discriminate|]. cbn [version_tail_len].
  destruct (c =? c_atsign)%N eqn:E; [|discriminate]. apply N.eqb_eq in E. subst. eauto.
Qed.

Lemma skipn_len_app {A} (p x : list A) n : length p = n -> skipn n (p ++ x) = x.
Proof. intros <-. apply skipn_app_exact. Qed.
Lemma firstn_len_app {A} (p x : list A) n : length p = n -> firstn n (p ++ x) = p.
Proof. intros <-. apply firstn_app_exact. Qed.

Lemma skipn_add {A} a b (l : list A) : skipn (a + b) l = skipn b (skipn a l).
Proof. revert l. induction a as [|a IH]; intros l; [reflexivity|]. destruct l; [now destruct b|]. apply IH. Qed.

(** What may follow a package name / package path. *)
Definition pstop (r : str) : Prop :=
  istop r /\ vstop r /\ head_not c_colon r /\ head_not c_minus r /\ head_not c_slash r /\ head_not c_atsign r.

Lemma nonid_sep c : (c = c_colon \/ c = c_slash \/ c = c_atsign) -> forall x, nonid (c :: x).
Proof. intros [ -> | [ -> | -> ] ] x; cbn; repeat split; discriminate. Qed.

Theorem rescan_pkg F s1 k n r' F' :
  scan_token impl_cfg F s1 = ScanTok k n -> (k = TPackageName \/ k = TPackagePath) ->
  pstop r' -> length (firstn n s1 ++ r') <= F' ->
  scan_token impl_cfg F' (firstn n s1 ++ r') = ScanTok k (length (firstn n s1)).
Proof.
  intros H Hkind (Hst & Hvs & Hcol & Hmin & Hsl & Hat) HF. apply scan_token_path in H.
  destruct H as [r m _ _ Hk _|Hi Hq Hb|n1 Hi Hp Hd Hkp Hk Hn|n1 Hi Hp Hq Hd Hs Hn Hk|n1 n2 m Hi Hp Hq Hd Hs Hp2 Hd2 Hc2 Hm Hk].
  - rewrite Hk in Hkind. destruct Hkind; discriminate.
  - apply best_symbol_kind in Hb. assert (Hx : src_kind k = false) by (apply table_kinds_not_src; now left).
    destruct Hkind as [E|E]; rewrite E in Hx; discriminate Hx.
  - rewrite Hk in Hkind. destruct Hkind; discriminate.
  - assert (Hx : src_kind k = true) by (destruct Hkind as [E|E]; rewrite E; reflexivity).
    assert (Hki : k = TIdent).
    { destruct (head_is c_colon (skipn n1 s1)); [exact Hk|]. rewrite Hk in Hx.
      apply kw_or_ident_src in Hx. unfold kw_or_ident in Hk. now rewrite Hx in Hk. }
    rewrite Hki in Hkind. destruct Hkind; discriminate.
  - (* the package path *)
    pose proof (id_len_le s1) as Hle1. rewrite Hi in Hle1.
    destruct (decomp n1 s1 Hle1) as (p1 & x1 & Hs1 & Hl1 & _ & Hsk1). rewrite Hsk1 in *.
    pose proof (seg_loop_le F c_colon x1) as Hle2. rewrite Hs in Hle2.
    destruct (decomp n2 x1 Hle2) as (q2 & x2 & Hx1 & Hl2 & _ & Hsk2).
    assert (Hsk12 : skipn (n1 + n2) s1 = x2).
    { rewrite skipn_add, Hsk1. exact Hsk2. }
    rewrite Hsk12 in *.
    pose proof (seg_loop_le F c_slash x2) as Hle3. rewrite Hm in Hle3.
    destruct (decomp m x2 Hle3) as (q3 & x3 & Hx2 & Hl3 & _ & Hsk3).
    assert (Hsk123 : skipn (n1 + n2 + m) s1 = x3).
    { rewrite skipn_add, Hsk12. exact Hsk3. }
    assert (Hn : n = n1 + n2 + m + version_tail_len x3).
    { destruct Hk as [(-> & _ & Hn)|(_ & _ & Hn)]; [|rewrite Hsk123 in Hn; exact Hn].
      destruct q3; [|discriminate Hl3]. cbn [app] in Hx2. subst x3. lia. }
    pose proof (version_tail_le x3) as Hle4. set (v := version_tail_len x3) in *.
    destruct (decomp v x3 Hle4) as (q4 & r0 & Hx3 & Hl4 & _ & _).
    assert (Hs1' : s1 = (p1 ++ q2 ++ q3 ++ q4) ++ r0).
    { rewrite Hs1, Hx1, Hx2, Hx3, <- !app_assoc. reflexivity. }
    assert (Hlt : length (p1 ++ q2 ++ q3 ++ q4) = n) by (rewrite !app_length; lia).
    assert (Ht : firstn n s1 = p1 ++ q2 ++ q3 ++ q4) by (rewrite Hs1'; now apply firstn_len_app).
    rewrite Ht in *. rewrite Hlt.
    (* heads of the parts *)
    destruct (seg_loop_pos_head F c_colon x1 (pred n2)) as (y2 & Hy2); [rewrite Hs; lia|].
    assert (Hq2 : exists z, q2 = c_colon :: z).
    { destruct q2 as [|c z]; [cbn in Hl2; lia|]. rewrite Hx1 in Hy2. inversion Hy2. eauto. }
    destruct Hq2 as (z2 & Hq2).
    assert (Hq3 : q3 = [] \/ exists z, q3 = c_slash :: z).
    { destruct q3 as [|c z]; [now left|right]. destruct (seg_loop_pos_head F c_slash x2 (pred m)) as (y3 & Hy3); [rewrite Hm; cbn in Hl3; lia|].
      rewrite Hx2 in Hy3. inversion Hy3. eauto. }
    assert (Hq4 : q4 = [] \/ exists z, q4 = c_atsign :: z).
    { destruct q4 as [|c z]; [now left|right]. destruct (vtl_pos_head x3 (pred v)) as (y4 & Hy4); [fold v; cbn in Hl4; lia|].
      rewrite Hx3 in Hy4. inversion Hy4. eauto. }
    (* followers *)
    assert (F4 : istop (q4 ++ r') /\ head_not c_slash (q4 ++ r') /\ head_not c_colon (q4 ++ r') /\ head_not c_minus (q4 ++ r')).
    { destruct Hq4 as [->|(z & ->)]; [cbn [app]; auto|]. cbn [app head_not]. repeat split; try discriminate.
      apply nonid_istop, nonid_sep. auto. }
    assert (F3 : istop (q3 ++ q4 ++ r') /\ head_not c_colon (q3 ++ q4 ++ r') /\ head_not c_minus (q3 ++ q4 ++ r')).
    { destruct Hq3 as [->|(z & ->)]; [cbn [app]; tauto|]. cbn [app head_not]. repeat split; try discriminate.
      apply nonid_istop, nonid_sep. auto. }
    assert (F2 : istop (q2 ++ q3 ++ q4 ++ r')).
    { rewrite Hq2. cbn [app]. apply nonid_istop, nonid_sep. auto. }
    set (s' := (p1 ++ q2 ++ q3 ++ q4) ++ r').
    assert (Es' : s' = p1 ++ q2 ++ q3 ++ q4 ++ r') by (unfold s'; rewrite <- !app_assoc; reflexivity).
    assert (Hi' : id_len true s' = n1).
    { rewrite Es', <- Hl1. apply (id_len_ext p1 x1); [rewrite Hl1, <- Hs1; exact Hi|exact F2]. }
    assert (Hk1 : skipn n1 s' = q2 ++ q3 ++ q4 ++ r') by (rewrite Es'; now apply skipn_len_app).
    assert (Hk12 : skipn (n1 + n2) s' = q3 ++ q4 ++ r').
    { rewrite Es', app_assoc. apply skipn_len_app. rewrite app_length. lia. }
    assert (Hk123 : skipn (n1 + n2 + m) s' = q4 ++ r').
    { rewrite Es', (app_assoc p1), (app_assoc (p1 ++ q2)). apply skipn_len_app. rewrite !app_length. lia. }
    assert (HF' : n <= F') by (rewrite app_length in HF; lia).
    assert (Hs' : seg_loop F' true c_colon (q2 ++ q3 ++ q4 ++ r') = n2).
    { rewrite <- Hl2. apply (seg_ext c_colon (nonid_sep _ (or_introl eq_refl) []) F q2 x2); try tauto; [rewrite Hl2, <- Hx1; exact Hs|lia]. }
    assert (Hm' : seg_loop F' true c_slash (q3 ++ q4 ++ r') = m).
    { rewrite <- Hl3. apply (seg_ext c_slash (nonid_sep _ (or_intror (or_introl eq_refl)) []) F q3 x3); try tauto; [rewrite Hl3, <- Hx2; exact Hm|lia]. }
    assert (Hv' : version_tail_len (q4 ++ r') = v).
    { rewrite <- Hl4. apply (version_tail_ext q4 r0); auto. rewrite Hl4, <- Hx3. reflexivity. }
    rewrite (scan_pkg_intro F' s' n1 n2 m Hi' Hp); rewrite ?Hk1, ?Hk12, ?Hk123; auto.
    + rewrite Hv'. destruct Hk as [(-> & -> & _)|(Hmp & -> & _)].
      * destruct q3; [|discriminate Hl3]. cbn [app] in *. rewrite Hv'. f_equal. lia.
      * destruct m; [lia|]. f_equal. lia.
    + apply id_len_pos_not_quote. lia.
    + rewrite Hq2. reflexivity.
    + apply head_is_false. tauto.
    + apply head_is_false. tauto.
Qed.

(* ------------------------------------------------------------------ re-scanning the printer's literals *)

Definition is_kw (k : token) : bool := mem_tok k (map snd (keywords impl_cfg)).
Definition is_sym (k : token) : bool := mem_tok k (map snd (symbols impl_cfg)).

Lemma kw_facts k : is_kw k = true ->
  id_len true (fixed_text k ++ []) = length (fixed_text k) /\ kw_or_ident (fixed_text k) = k /\ 0 < length (fixed_text k).
Proof.
  assert (H : forallb (fun k => negb (is_kw k) ||
                ((id_len true (fixed_text k ++ []) =? length (fixed_text k)) &&
                 token_eqb (kw_or_ident (fixed_text k)) k && (0 <? length (fixed_text k)))) all_tokens = true)
    by (vm_compute; reflexivity).
  rewrite forallb_forall in H. intros Hk. specialize (H k).
  assert (Hin : In k all_tokens) by (destruct k; cbn; tauto). specialize (H Hin). rewrite Hk in H. cbn [negb orb] in H.
  apply andb_true_iff in H. destruct H as [H H3]. apply andb_true_iff in H. destruct H as [H1 H2].
  apply Nat.eqb_eq in H1. apply Nat.ltb_lt in H3. unfold token_eqb in H2. apply N.eqb_eq in H2.
  repeat split; auto. destruct (kw_or_ident (fixed_text k)), k; cbn in H2; try reflexivity; discriminate H2.
Qed.

Theorem rescan_kw k r' F' :
  is_kw k = true -> istop r' -> head_not c_minus r' -> head_not c_colon r' ->
  scan_token impl_cfg F' (fixed_text k ++ r') = ScanTok k (length (fixed_text k)).
Proof.
  intros Hk Hst Hmin Hcol. destruct (kw_facts k Hk) as (H1 & H2 & H3).
  set (t := fixed_text k) in *.
  assert (Hi : id_len true (t ++ r') = length t) by (eapply id_len_ext; eauto).
  assert (Hsk : skipn (length t) (t ++ r') = r') by apply skipn_app_exact.
  assert (Hfi : firstn (length t) (t ++ r') = t) by apply firstn_app_exact.
  rewrite (scan_word_intro F' (t ++ r') (length t) Hi H3); rewrite ?Hsk, ?Hfi.
  - rewrite (head_is_false _ _ Hcol). now rewrite H2.
  - apply id_len_pos_not_quote. lia.
  - now apply head_is_false.
  - now apply seg_loop_stop.
Qed.

Lemma id_len_nonstart c x : is_lower c = false -> is_upper c = false -> c <> c_percent -> id_len true (c :: x) = 0.
Proof.
  intros H1 H2 H3. cbn [id_len]. destruct (c =? c_percent)%N eqn:E; [apply N.eqb_eq in E; congruence|].
  cbn [words_len]. now rewrite H1, H2.
Qed.

Lemma scan_symbol_intro F s c x k n :
  s = c :: x -> c <> c_quote -> id_len true s = 0 -> best_symbol (symbols impl_cfg) s = Some (k, n) ->
  scan_token impl_cfg F s = ScanTok k n.
Proof.
  intros -> Hq Hi Hb. unfold scan_token. apply N.eqb_neq in Hq. rewrite Hq.
  change (allow_upper impl_cfg) with true. now rewrite Hi, Hb.
Qed.

(** Every symbol except [.] is re-scanned whatever follows; [.] when no [.] follows. *)
Theorem rescan_sym k r' F' :
  is_sym k = true -> (k = TDot -> head_not c_period r') ->
  scan_token impl_cfg F' (fixed_text k ++ r') = ScanTok k (length (fixed_text k)).
Proof.
  intros Hk Hdot.
  destruct k; try discriminate Hk;
    try (eapply scan_symbol_intro; [reflexivity|discriminate|apply id_len_nonstart; [reflexivity|reflexivity|discriminate]|];
         cbn; reflexivity).
  (* TDot *)
  specialize (Hdot eq_refl). eapply scan_symbol_intro; [reflexivity|discriminate|apply id_len_nonstart; [reflexivity|reflexivity|discriminate]|].
  destruct r' as [|c x]; [cbn; reflexivity|]. cbn [head_not] in Hdot.
  cbn. destruct c as [|q]; [reflexivity|]. destruct (Pos.eqb 46 q) eqn:E; [|reflexivity].
  apply Pos.eqb_eq in E. subst q. exfalso. apply Hdot. reflexivity.
Qed.
